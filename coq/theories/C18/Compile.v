(** C18 -- executable model of the construction steps of a DataFrame program as far as they touch, or are
    touched by, the session: id draws, alias registration and lookup, CTE naming by content, the
    de-duplication of CTE names with uuid literals, temp views, the schema cache, schema lookup through a
    temporary engine view, and the actions.  Facts the semantics is parametric in (record [cfg]) are
    regenerated from /repo by translate/c18_facts.py. *)
From Coq Require Import List String ZArith Bool Arith Lia.
From SF Require Import C18.Session.
Import ListNotations.
Open Scope string_scope.
Open Scope list_scope.

(* ---------------------------------------------------------------- generated facts *)
Record cfg := mkCfg {
  alias_scoped : bool;        (* alias lookup is intersected with the expression's own CTE sequence ids *)
  schema_aia : bool;          (* catalog.add_table returns early when the table is already cached *)
  schema_drops_view : bool;   (* _typed_columns drops its temporary view again *)
  op_init : Z; op_noop : Z; op_from : Z; op_where : Z; op_select : Z;
  wrap_needed : Z -> Z -> bool   (* new_op last_op: the wrapper's "start a new CTE" test *)
}.

(* ---------------------------------------------------------------- columns, frames *)
Inductive qual := QNone | QKeep (x : ident) | QCte (nm : tx).

Record col := mkCol {
  q : qual;
  cn : string;
  cap : option tx;          (* the column identifier itself was replaced by a CTE name (alias capture) *)
  cju : option nat          (* meta["join_on_uuid"] of a column made by df[...] *)
}.

Inductive source :=
| SrcValues (tbl ctr : nat)
| SrcCte (nm : tx)
| SrcCteAs (nm : tx) (v : string).

Record frame := mkFrame {
  f_ctes : list cte;
  f_src : source;
  f_joins : list (tx * list (col * col));
  f_where : list (col * Z);
  f_sel : list col;
  f_br : nat; f_sq : nat; f_ju : nat; f_ku : list nat;
  f_last : Z;
  f_ok : bool               (* false: refers to a column its source does not have (engine raises on execution) *)
}.

Definition kw (s : string) : tx := TA (AS s).
Definition cat (l : list tx) : tx := fold_right TCat TNil l.

Definition render_ident (x : ident) : tx := match x with IName s => kw s | IId i => TA (AId i) end.
Definition render_qual (k : qual) : tx :=
  match k with QNone => TNil | QKeep x => render_ident x | QCte nm => TRef nm end.
Definition render_col (c : col) : tx :=
  TCat (render_qual (q c)) (TCat (kw ".") (match cap c with Some nm => TRef nm | None => kw (cn c) end)).
Definition render_src (s : source) : tx :=
  match s with
  | SrcValues tbl ctr => cat [kw "VALUES"; TA (AN tbl); TA (ACt ctr)]
  | SrcCte nm => TRef nm
  | SrcCteAs nm v => cat [TRef nm; kw "AS"; kw v]
  end.
Definition render_on (p : col * col) : tx := cat [render_col (fst p); kw "="; render_col (snd p)].
Definition render_join (j : tx * list (col * col)) : tx := cat [kw "JOIN"; TRef (fst j); kw "ON"; cat (map render_on (snd j))].
Definition render_pred (p : col * Z) : tx := cat [render_col (fst p); kw ">"; TA (AN (Z.to_nat (snd p)))].
Definition render_leaf (f : frame) : tx :=
  cat [kw "SELECT"; cat (map render_col (f_sel f)); kw "FROM"; render_src (f_src f);
       cat (map render_join (f_joins f)); kw "WHERE"; cat (map render_pred (f_where f))].

(** output name of a select item; a captured identifier is named after the CTE (written "^" in the model) *)
Definition col_out (c : col) : string := match cap c with Some _ => "^" | None => cn c end.
Definition sel_names (f : frame) : list string := map col_out (f_sel f).
Definition plain (s : string) : col := mkCol QNone s None None.

Definition src_name (s : source) : list tx :=
  match s with SrcValues _ _ => [] | SrcCte nm => [nm] | SrcCteAs _ v => [kw v] end.
Definition tables (f : frame) : list tx :=
  match f_joins f with [] => [] | _ => src_name (f_src f) ++ map fst (f_joins f) end.
Definition ctx_of (f : frame) : rctx := mkCtx (f_ctes f) (tables f).

(* ---------------------------------------------------------------- _convert_leaf_to_cte *)
Definition convert (f : frame) (seq : nat) : frame :=
  let nm := render_leaf f in
  mkFrame (f_ctes f ++ [mkCte nm (f_br f) seq (sel_names f) nm]) (SrcCte nm) [] []
          (map plain (sel_names f)) (f_br f) seq (f_ju f) (f_ku f) (f_last f) (f_ok f).

(** the `operation` decorator; returns the receiver the method body sees and the new last_op *)
Definition set_last (f : frame) (z : Z) : frame :=
  mkFrame (f_ctes f) (f_src f) (f_joins f) (f_where f) (f_sel f) (f_br f) (f_sq f) (f_ju f) (f_ku f) z (f_ok f).

Definition wrap (g : cfg) (o : Z) (f : frame) : frame * Z :=
  let f1 := if Z.eqb (f_last f) (op_init g) then set_last (convert f (f_sq f)) (op_noop g) else f in
  let last := f_last f1 in
  let new := if Z.eqb o (op_noop g) then last else o in
  ((if wrap_needed g new last then convert f1 (f_sq f1) else f1), new).

(* ---------------------------------------------------------------- normalisation of user columns *)
(** a column as the user wrote it *)
Inductive uqual := UNone | UName (s : string) | UFrame (br ju : nat).
Record ucol := mkU { uq : uqual; uc : string }.

Definition res_qual (old : qual) (r : res) : option qual :=
  match r with Keep => Some old | Found nm => Some (QCte nm) | Err => None end.

(** `normalize` on one column: every identifier goes through both replacement functions *)
Definition norm_q (g : cfg) (r : regs) (x : rctx) (k : qual) : option qual :=
  match k with
  | QKeep d => res_qual k (resolve (alias_scoped g) r x d)
  | _ => Some k
  end.
Definition norm_cap (g : cfg) (r : regs) (x : rctx) (c : col) : option (option tx) :=
  match cap c with
  | Some nm => Some (Some nm)
  | None => match resolve (alias_scoped g) r x (IName (cn c)) with
            | Keep => Some None | Found nm => Some (Some nm) | Err => None end
  end.
Definition norm_col (g : cfg) (r : regs) (x : rctx) (c : col) : option col :=
  match norm_q g r x (q c), norm_cap g r x c with
  | Some k, Some cp => Some (mkCol k (cn c) cp (cju c))
  | _, _ => None
  end.

Definition of_ucol (u : ucol) : col :=
  match uq u with
  | UNone => mkCol QNone (uc u) None None
  | UName s => mkCol (QKeep (IName s)) (uc u) None None
  | UFrame br ju => mkCol (QKeep (IId br)) (uc u) None (Some ju)
  end.

Fixpoint all_some {A} (l : list (option A)) : option (list A) :=
  match l with
  | [] => Some []
  | None :: _ => None
  | Some a :: t => match all_some t with Some t' => Some (a :: t') | None => None end
  end.

(** `_resolve_ambiguous_columns` (inner joins: CTEs are visited left to right) *)
Definition ctes_with (f : frame) (c : string) : list cte :=
  filter (fun k => mem_tx (c_name k) (tables f) && mem_str c (c_cols k)) (f_ctes f).

Definition pos_of (m : list (string * nat)) (c : string) : nat :=
  match find (fun p => String.eqb (fst p) c) m with Some p => snd p | None => 0 end.

Definition ambig1 (f : frame) (m : list (string * nat)) (c : col) : col * list (string * nat) :=
  match q c, f_joins f with
  | QNone, _ :: _ =>
      let nm := col_out c in                (* a captured identifier is looked up under the CTE's name, written "^" *)
      let cw := ctes_with f nm in
      let p := pos_of m nm in               (* p = resolved_column_position + 1 *)
      match nth_error cw p with
      | Some k => (mkCol (QCte (c_name k)) (cn c) (cap c) (cju c), (nm, S p) :: m)
      | None =>
          match (match p with 0 => last (map Some cw) None | S p' => nth_error cw p' end) with
          | Some k => (mkCol (QCte (c_name k)) (cn c) (cap c) (cju c), m)
          | None => (c, m)
          end
      end
  | _, _ => (c, m)
  end.

Fixpoint ambig (f : frame) (m : list (string * nat)) (cs : list col) : list col :=
  match cs with
  | [] => []
  | c :: t => let '(c', m') := ambig1 f m c in c' :: ambig f m' t
  end.

(** `_ensure_and_normalize_cols(cols, expression)`: normalise against [x], disambiguate against [f] *)
Definition ensure_cols (g : cfg) (r : regs) (x : rctx) (f : frame) (cs : list col) : option (list col) :=
  match all_some (map (norm_col g r x) cs) with
  | Some l => Some (ambig f [] l)
  | None => None
  end.

(* ---------------------------------------------------------------- _add_ctes_to_expression *)
Fixpoint subst (m : list (tx * tx)) (t : tx) : tx :=
  match t with
  | TRef n => TRef (match find (fun p => tx_eqb (fst p) n) m with Some p => snd p | None => n end)
  | TCat l r => TCat (subst m l) (subst m r)
  | _ => t
  end.
Definition subst_name (m : list (tx * tx)) (n : tx) : tx :=
  match find (fun p => tx_eqb (fst p) n) m with Some p => snd p | None => n end.

(** the disambiguating filter `'a<n>' = 'a<n>'`: its literal is drawn from the session's counter (it only has to make the
    CTE's hash name unique within the query) *)
Definition with_uu (body : tx) (u : nat) : tx := cat [body; kw "WHERE-DEDUP"; TA (ACt u); kw "="; TA (ACt u)].

Record acc := mkAcc {
  a_out : list cte; a_names : list tx; a_map : list (tx * tx); a_j : nat;
  a_last : option tx;  (* what `other_df.latest_cte_name` reads afterwards: the CTE nodes are rewritten in place, so it is
                          the (possibly new) name of the last CTE that was added *)
  a_nctr : nat         (* how often `_auto_incrementing_name` was drawn: a duplicated CTE gets a new alias for its inline VALUES *)
}.

(** the number of the inline VALUES alias of a CTE body; the literal of an earlier disambiguating filter is not one *)
Definition is_marker (t : tx) : bool := match t with TA (AS s) => String.eqb s "WHERE-DEDUP" | _ => false end.

Fixpoint first_ctr (t : tx) : option nat :=
  match t with
  | TA (ACt n) => Some n
  | TCat l r => if is_marker l then None
                else match first_ctr l with Some n => Some n | None => first_ctr r end
  | _ => None
  end.

Fixpoint subst_ctr (o n : nat) (t : tx) : tx :=
  match t with
  | TA (ACt k) => if Nat.eqb k o then TA (ACt n) else t
  | TCat l r => TCat (subst_ctr o n l) (subst_ctr o n r)
  | _ => t
  end.

(** [d] supplies the fresh values, both counter draws: the j-th de-duplication uses [d (6 + 2(2j))] as the number of the
    new VALUES alias (a CTE of the modelled programs has at most one inline VALUES source) and [d (6 + 2(2j+1))] for the
    literal of its disambiguating filter *)
Definition add_cte (d : nat -> nat) (a : acc) (c : cte) : acc :=
  let c1 := mkCte (subst_name (a_map a) (c_name c)) (c_br c) (c_sq c) (c_cols c) (subst (a_map a) (c_body c)) in
  if mem_tx (c_name c1) (a_names a) then
    let body1 := match first_ctr (c_body c1) with
                 | Some o => subst_ctr o (d (6 + 2 * (2 * a_j a))) (c_body c1)
                 | None => c_body c1 end in
    let body' := with_uu body1 (d (6 + 2 * (2 * a_j a + 1))) in
    mkAcc (a_out a ++ [mkCte body' (c_br c1) (c_sq c1) (c_cols c1) body']) (body' :: a_names a)
          ((c_name c1, body') :: a_map a) (S (a_j a)) (Some body')
          (match first_ctr (c_body c1) with Some _ => S (S (a_nctr a)) | None => S (a_nctr a) end)
  else mkAcc (a_out a ++ [c1]) (a_names a) (a_map a) (a_j a) (Some (c_name c1)) (a_nctr a).

Definition add_ctes (d : nat -> nat) (existing new : list cte) : acc :=
  fold_left (add_cte d) new (mkAcc existing (map c_name existing) [] 0 None 0).

(* ---------------------------------------------------------------- the session *)
Record st := mkSt {
  rg : regs;
  views : list (string * frame);          (* temp_views; newest first *)
  scache : list (string * list string);   (* catalog._schema; first entry for a name wins on lookup *)
  eviews : list nat;                      (* engine catalog: temporary views left behind, by random id *)
  counter : nat                           (* incrementing_id *)
}.

Definition st0 : st := mkSt (mkRegs [] [] [] []) [] [] [] 1.

Definition lookup {A} (m : list (string * A)) (s : string) : option A :=
  match find (fun p => String.eqb (fst p) s) m with Some p => Some (snd p) | None => None end.

Definition add_known (r : regs) (i : nat) : regs := mkRegs (known r ++ [i]) (kbranch r) (kseq r) (amap r).
Definition add_branch (r : regs) (i : nat) : regs := mkRegs (known r ++ [i]) (kbranch r ++ [i]) (kseq r) (amap r).
Definition add_seq (r : regs) (i : nat) : regs := mkRegs (known r ++ [i]) (kbranch r) (kseq r ++ [i]) (amap r).
Definition add_alias (r : regs) (s : string) (i : nat) : regs := mkRegs (known r) (kbranch r) (kseq r) (amap r ++ [(s, i)]).

Definition set_rg (s : st) (r : regs) : st := mkSt r (views s) (scache s) (eviews s) (counter s).

Definition cache_add (g : cfg) (sc : list (string * list string)) (v : string) (cols : list string) :=
  if schema_aia g then (match lookup sc v with Some _ => sc | None => sc ++ [(v, cols)] end)
  else (v, cols) :: sc.

(* ---------------------------------------------------------------- steps *)
Definition handle := (bool * nat)%type.      (* (owner, index); owner true = the program P under test *)
Definition handle_eqb (a b : handle) : bool := Bool.eqb (fst a) (fst b) && Nat.eqb (snd a) (snd b).

Inductive ucolh := mkUH (hq : option (string + handle)) (hc : string).   (* column with df[...] as a handle *)

Inductive onspec := OnExpr (a b : ucolh) | OnNames (cs : list string).
Inductive akind := ACollect | ACount | AShow | AColumns | ASqlText.
Inductive bkind := BMissingCol | BMissingView | BBadJoin | BAliasThenMissing (s : string).

Inductive step :=
| SCreate (dst : nat) (tbl : nat) (cols : list string)
| SSelect (dst : nat) (src : handle) (cs : list ucolh)
| SWhere (dst : nat) (src : handle) (c : ucolh) (k : Z)
| SAlias (dst : nat) (src : handle) (name : string)
| SJoin (dst : nat) (l r : handle) (on : onspec)
| SView (src : handle) (v : string)
| SSql (dst : nat) (v : string) (cols : option (list string))
| SAct (k : akind) (src : handle)
| SSchema (src : handle)
| SBad (k : bkind) (src : handle).

Definition env := list (handle * frame).      (* newest binding first *)
Definition get (e : env) (h : handle) : option frame :=
  match find (fun p => handle_eqb (fst p) h) e with Some p => Some (snd p) | None => None end.

Definition resolve_h (e : env) (u : ucolh) : option col :=
  match u with
  | mkUH None c => Some (of_ucol (mkU UNone c))
  | mkUH (Some (inl s)) c => Some (of_ucol (mkU (UName s) c))
  | mkUH (Some (inr h)) c => match get e h with
                             | Some f => Some (of_ucol (mkU (UFrame (f_br f) (f_ju f)) c))
                             | None => None
                             end
  end.

(** columns and sql() only build text; the other actions execute it *)
Definition executes (k : akind) : bool := match k with AColumns | ASqlText => false | _ => true end.

(** observation of an action *)
Inductive obs := ORows (k : akind) (t : tx) | OSchema (t : tx) | OErr.

(** the text `collect` sends: CTE names are re-hashed from their bodies (`_replace_cte_names_with_hashes`) *)
Definition final_text (f : frame) : tx :=
  let m := map (fun c => (c_name c, c_body c)) (f_ctes f) in
  cat (map (fun c => cat [TRef (c_body c); kw "AS"; subst m (c_body c)]) (f_ctes f) ++ [subst m (render_leaf f)]).

Definition with_op (f : frame) (ju : nat) (last : Z) (sel : list col) (wh : list (col * Z)) : frame :=
  mkFrame (f_ctes f) (f_src f) (f_joins f) wh sel (f_br f) (f_sq f) ju (ju :: f_ku f) last (f_ok f).

Definition set_seq_ju (f : frame) (ju : nat) (last : Z) : frame :=
  mkFrame (f_ctes f) (f_src f) (f_joins f) (f_where f) (f_sel f) (f_br f) (f_sq f) ju (ju :: f_ku f) last (f_ok f).

Definition minus (a b : list nat) : list nat := filter (fun x => negb (mem_nat x b)) a.

(** `_handle_self_join` *)
Definition self_join_fix (l r' : frame) (oju : nat) (latest : tx) (c : col) : col :=
  if Nat.eqb (f_br l) (f_br r') then
    match cju c with
    | Some u => if mem_nat u (minus (f_ku r') (f_ku l)) || Nat.eqb u oju then mkCol (QCte latest) (cn c) (cap c) (cju c) else c
    | None => c
    end
  else c.

Definition join_frame (l : frame) (out : list cte) (jn : tx) (onp : list (col * col)) (ok : bool) : frame :=
  mkFrame out (f_src l) (f_joins l ++ [(jn, onp)]) (f_where l) (f_sel l) (f_br l) (f_sq l) (f_ju l) (f_ku l) (f_last l) ok.

(** the trailing select of join(): the output names are normalised against the joined expression *)
Definition join_finish (g : cfg) (r : regs) (d : nat -> nat) (l fj : frame) (names : list string) : option frame :=
  match ensure_cols g r (ctx_of fj) fj (map plain names) with
  | Some sel => Some (mkFrame (f_ctes fj) (f_src fj) (f_joins fj) (f_where fj) sel (f_br l) (f_sq l)
                              (d 2) (d 2 :: f_ku l) (op_from g) (f_ok fj))
  | None => None
  end.

(** `_handle_join_column_names_only` *)
Definition join_pairs (fj : frame) (latest : tx) (ncs : list col) : option (list (col * col)) :=
  let pot := filter (fun k => mem_tx (c_name k) (tables fj) && negb (tx_eqb (c_name k) latest)) (f_ctes fj) in
  all_some (map (fun nc => match cap nc, find (fun k => mem_str (cn nc) (c_cols k)) pot with
                           | None, Some k => Some (mkCol (QCte (c_name k)) (cn nc) None None,
                                                   mkCol (QCte latest) (cn nc) None None)
                           | _, _ => None end) ncs).

Definition join_model (g : cfg) (r : regs) (d : nat -> nat) (l rt : frame) (on : option (col * col) + list string)
  : option frame :=
  let r' := convert rt (f_sq rt) in
  let a := add_ctes d (f_ctes l) (f_ctes r') in
  match last (map Some (a_out a)) None, a_last a with
  | Some jc, Some latest =>
      let ok := f_ok l && f_ok rt in
      let fj := join_frame l (a_out a) (c_name jc) [] ok in
      match on with
      | inl None => None
      | inl (Some (ca, cb)) =>
          match ensure_cols g r (ctx_of l) l [ca; cb] with
          | Some cs1 =>
              match ensure_cols g r (ctx_of fj) l (map (self_join_fix l r' (f_ju rt) latest) cs1) with
              | Some [ca'; cb'] =>
                  join_finish g r d l (join_frame l (a_out a) (c_name jc) [(ca', cb')] ok) (sel_names l ++ sel_names rt)
              | _ => None
              end
          | None => None
          end
      | inr cs =>
          match ensure_cols g r (ctx_of l) l (map plain cs) with
          | Some ncs =>
              match join_pairs fj latest ncs with
              | Some ps => join_finish g r d l (join_frame l (a_out a) (c_name jc) ps ok)
                                       (cs ++ filter (fun n => negb (mem_str n cs)) (sel_names l ++ sel_names rt))
              | None => None
              end
          | None => None
          end
      end
  | _, _ => None
  end.

(** draws of `_auto_incrementing_name` made while the right frame's CTEs are added (they happen before join() can raise) *)
Definition join_ctr (d : nat -> nat) (l rt : frame) : nat :=
  a_nctr (add_ctes d (f_ctes l) (f_ctes (convert rt (f_sq rt)))).

Definition subset_str (a b : list string) : bool := forallb (fun x => mem_str x b) a.

(** the select list `session.sql("select <cols|*> from v")` ends up with after `qualify` consulted the schema cache;
    None: qualify raises (a named column the cached schema does not have) *)
Definition sql_sel (cols : option (list string)) (sc : option (list string)) (vcols : list string) : option (list string) :=
  match cols, sc with
  | None, Some l => Some l
  | None, None => Some vcols
  | Some l, Some scl => if subset_str l scl then Some l else None
  | Some l, None => Some l
  end.

(** one step: the new session state, the frame bound to the destination (None: the call raised), and the
    observation if the step is an action.  [d] = the fresh values this step may draw: slot 0 branch id, 1 sequence
    id, 2 join_on_uuid of the result, 3 the VALUES alias number, 4 the schema-lookup view id, 5+j uuid literals. *)
Definition run_step (g : cfg) (s : st) (e : env) (d : nat -> nat) (p : step)
  : st * option (nat * frame) * option obs :=
  match p with
  | SCreate dst tbl cols =>
      let r1 := add_seq (add_branch (rg s) (d 0)) (d 1) in
      (mkSt r1 (views s) (scache s) (eviews s) (S (counter s)),
       Some (dst, mkFrame [] (SrcValues tbl (d 3)) [] [] (map plain cols) (d 0) (d 1) (d 2) [d 2] (op_init g) true), None)
  | SSelect dst src cs =>
      match get e src, all_some (map (resolve_h e) cs) with
      | Some f0, Some cols =>
          let '(f, new) := wrap g (op_select g) f0 in
          match ensure_cols g (rg s) (ctx_of f) f cols with
          | Some sel => (s, Some (dst, with_op f (d 2) new sel (f_where f)), None)
          | None => (s, None, None)
          end
      | _, _ => (s, None, None)
      end
  | SWhere dst src c k =>
      match get e src, resolve_h e c with
      | Some f0, Some c0 =>
          let '(f, new) := wrap g (op_where g) f0 in
          match ensure_cols g (rg s) (ctx_of f) f [c0] with
          | Some [c1] => (s, Some (dst, with_op f (d 2) new (f_sel f) (f_where f ++ [(c1, k)])), None)
          | _ => (s, None, None)
          end
      | _, _ => (s, None, None)
      end
  | SAlias dst src name =>
      match get e src with
      | Some f0 =>
          let '(f, new) := wrap g (op_noop g) f0 in
          let r1 := add_alias (add_seq (rg s) (d 1)) name (d 1) in
          (set_rg s r1, Some (dst, set_seq_ju (convert f (d 1)) (d 2) new), None)
      | None => (s, None, None)
      end
  | SJoin dst l r on =>
      match get e l, get e r with
      | Some fl0, Some fr =>
          let '(fl, new) := wrap g (op_from g) fl0 in
          let on' := match on with
                     | OnExpr a b => match resolve_h e a, resolve_h e b with
                                     | Some ca, Some cb => inl (Some (ca, cb)) | _, _ => inl None end
                     | OnNames cs => inr cs
                     end in
          let s1 := mkSt (rg s) (views s) (scache s) (eviews s) (counter s + join_ctr d fl fr) in
          match join_model g (rg s) d fl fr on' with
          | Some f => (s1, Some (dst, f), None)
          | None => (s1, None, None)
          end
      | _, _ => (s, None, None)
      end
  | SView src v =>
      match get e src with
      | Some f =>
          let vf := convert f (f_sq f) in
          (mkSt (rg s) ((v, vf) :: views s) (cache_add g (scache s) v (sel_names vf)) (eviews s) (counter s), None, None)
      | None => (s, None, None)
      end
  | SSql dst v cols =>
      match lookup (views s) v with
      | Some vf =>
          let sel := sql_sel cols (lookup (scache s) v) (sel_names vf) in
          let r1 := add_seq (add_branch (rg s) (d 0)) (d 1) in
          let s1 := set_rg s r1 in
          match sel, last (map Some (f_ctes vf)) None with
          | Some l, Some vc =>
              let leaf := mkFrame (f_ctes vf) (SrcCteAs (c_name vc) v) [] []
                                  (map (fun c => mkCol (QKeep (IName v)) c None None) l)
                                  (d 0) (d 1) (d 2) [d 2] (op_init g) (f_ok vf && subset_str l (c_cols vc)) in
              (s1, Some (dst, convert leaf (d 1)), None)
          | _, _ => (s, None, None)       (* qualify raises before the DataFrame is created *)
          end
      | None => (s, None, None)
      end
  | SAct k src =>
      match get e src with
      | Some f => (s, None, Some (if f_ok f || negb (executes k) then ORows k (final_text f) else OErr))
      | None => (s, None, Some OErr)
      end
  | SSchema src =>
      match get e src with
      | Some f =>
          let s1 := mkSt (add_known (rg s) (d 4)) (views s) (scache s)
                         (if schema_drops_view g || negb (f_ok f) then eviews s else eviews s ++ [d 4]) (counter s) in
          (s1, None, Some (if f_ok f then OSchema (final_text f) else OErr))
      | None => (s, None, Some OErr)
      end
  | SBad k src =>
      match k, get e src with
      | BAliasThenMissing name, Some _ =>
          (set_rg s (add_alias (add_seq (rg s) (d 1)) name (d 1)), None, Some OErr)
      | BBadJoin, Some f =>       (* the right frame's CTEs are added (a duplicated VALUES gets a new alias) before join() raises *)
          let '(fl, _) := wrap g (op_from g) f in
          (mkSt (rg s) (views s) (scache s) (eviews s) (counter s + join_ctr d fl f), None, Some OErr)
      | BMissingView, _ =>        (* session.sql builds a DataFrame (two id draws); the engine raises on execution *)
          (set_rg s (add_seq (add_branch (rg s) (d 0)) (d 1)), None, Some OErr)
      | _, _ => (s, None, Some OErr)
      end
  end.

(** an event of a trace: who issues the step, the step, the fresh values it draws *)
Record ev := mkEv { who : bool; op : step; dr : nat -> nat }.

Record world := mkW { w_st : st; w_env : env; w_obs : list (bool * obs) }.
Definition w0 : world := mkW st0 [] [].

Definition run_ev (g : cfg) (w : world) (e : ev) : world :=
  let '(s', bind, ob) := run_step g (w_st w) (w_env w) (dr e) (op e) in
  mkW s'
      (match bind with Some (dst, f) => ((who e, dst), f) :: w_env w | None => w_env w end)
      (match ob with Some o => w_obs w ++ [(who e, o)] | None => w_obs w end).

Definition run (g : cfg) (l : list ev) : world := fold_left (run_ev g) l w0.
Definition run_from (g : cfg) (w : world) (l : list ev) : world := fold_left (run_ev g) l w.

Definition obs_of (b : bool) (w : world) : list obs := map snd (filter (fun p => Bool.eqb (fst p) b) (w_obs w)).
