(** C18 -- reproducibility of the SQL text and the final form of history independence.
    An oracle [A : nat -> nat -> nat] gives step [i] its fresh values [A i 0, A i 1, ...]; freshness = joint
    injectivity.  Every run under a fresh oracle is the renaming of ONE canonical run of the same program, hence
    * two sessions with different random ids produce the same text up to the renaming of those ids; if the VALUES
      alias numbers agree (they come from a counter that starts at 1 in a fresh session) the texts differ ONLY in
      the payload of random-id / uuid atoms, and a text without such atoms is identical;
    * what P observes interleaved with other work equals, up to a renaming of fresh values, what P observes alone in
      a fresh session (non-interference + equivariance), so any observer that is invariant under such renamings --
      the engine's rows do not depend on CTE names, VALUES aliases or the value of the `'u' = 'u'` literals -- sees
      the same. *)
From Coq Require Import List String ZArith Bool Arith Lia Cantor.
From SF Require Import C18.Session C18.Compile C18.NonInterf C18.Equivar.
Import ListNotations.
Open Scope list_scope.

(* ---------------------------------------------------------------- extensionality in the draws *)
Lemma add_cte_ext d d' : (forall k, d k = d' k) -> forall a c, add_cte d a c = add_cte d' a c.
Proof. intros H a c. unfold add_cte. rewrite !H. reflexivity. Qed.

Lemma add_ctes_ext d d' ex new : (forall k, d k = d' k) -> add_ctes d ex new = add_ctes d' ex new.
Proof.
  intros H. unfold add_ctes. generalize (mkAcc ex (map c_name ex) [] 0 None 0).
  induction new as [|c t IH]; intros a; simpl; auto. rewrite (add_cte_ext d d' H). apply IH.
Qed.

Lemma join_model_ext g r d d' l rt on : (forall k, d k = d' k) -> join_model g r d l rt on = join_model g r d' l rt on.
Proof.
  intros H. unfold join_model, join_finish. rewrite (add_ctes_ext d d' _ _ H). rewrite !H. reflexivity.
Qed.

Lemma join_ctr_ext d d' l rt : (forall k, d k = d' k) -> join_ctr d l rt = join_ctr d' l rt.
Proof. intros H. unfold join_ctr. rewrite (add_ctes_ext d d' _ _ H). reflexivity. Qed.

Lemma run_step_ext g s e d d' p : (forall k, d k = d' k) -> run_step g s e d p = run_step g s e d' p.
Proof.
  intros H. destruct p; unfold run_step; try (rewrite ?H; reflexivity).
  - destruct (get e l); auto. destruct (get e r); auto. destruct (wrap g (op_from g) f) as [fl new].
    rewrite (join_model_ext g _ d d' _ _ _ H), (join_ctr_ext d d' _ _ H). reflexivity.
  - destruct k; destruct (get e src); try (rewrite ?H; reflexivity).
    destruct (wrap g (op_from g) f) as [fl new]. rewrite (join_ctr_ext d d' _ _ H). reflexivity.
Qed.

Definition ev_eq (e e' : ev) : Prop := who e = who e' /\ op e = op e' /\ forall k, dr e k = dr e' k.

Lemma run_from_ext g l l' : Forall2 ev_eq l l' -> forall w, run_from g w l = run_from g w l'.
Proof.
  intros H. induction H as [|e e' l l' [Hw [Ho Hd]] _ IH]; intros w; simpl; auto.
  unfold run_from in *. simpl.
  assert (E : run_ev g w e = run_ev g w e').
  { unfold run_ev. rewrite Hw, Ho. rewrite (run_step_ext g _ _ (dr e) (dr e') _ Hd). reflexivity. }
  rewrite E. apply IH.
Qed.

Lemma run_ext g l l' : Forall2 ev_eq l l' -> run g l = run g l'.
Proof. intros H. exact (run_from_ext g l l' H w0). Qed.

(* ---------------------------------------------------------------- oracles *)
Definition oracle := nat -> nat -> nat.
Definition jointly_injective (A : oracle) : Prop := forall i k j m, A i k = A j m -> i = j /\ k = m.

(** step number [nth j idxs] supplies the values of the j-th event *)
Fixpoint annot_idx (A : oracle) (idxs : list nat) (l : list (bool * step)) : list ev :=
  match idxs, l with
  | i :: is, (b, s) :: t => mkEv b s (A i) :: annot_idx A is t
  | _, _ => []
  end.
Definition annotate (A : oracle) (l : list (bool * step)) : list ev := annot_idx A (seq 0 (List.length l)) l.

Definition canon0 : oracle := fun i k => to_nat (i, k).

(** the renaming that turns the canonical run (indices 0,1,2,...) into the run under [A] with indices [idxs] *)
Definition pi_of (A : oracle) (idxs : list nat) (bound : nat) : nat -> nat :=
  fun n => let '(j, k) := of_nat n in A (nth j idxs (bound + j)) k.

Lemma nth_inj idxs bound : NoDup idxs -> (forall i, In i idxs -> i < bound) ->
  forall j j', nth j idxs (bound + j) = nth j' idxs (bound + j') -> j = j'.
Proof.
  intros Hn Hb j j' E.
  destruct (Nat.lt_ge_cases j (List.length idxs)) as [Hj|Hj]; destruct (Nat.lt_ge_cases j' (List.length idxs)) as [Hj'|Hj'].
  - rewrite (nth_indep idxs (bound + j) 0 Hj) in E. rewrite (nth_indep idxs (bound + j') 0 Hj') in E.
    apply (proj1 (NoDup_nth idxs 0) Hn j j' Hj Hj' E).
  - rewrite (nth_overflow idxs (bound + j') Hj') in E.
    pose proof (Hb _ (nth_In idxs (bound + j) Hj)). lia.
  - rewrite (nth_overflow idxs (bound + j) Hj) in E.
    pose proof (Hb _ (nth_In idxs (bound + j') Hj')). lia.
  - rewrite (nth_overflow idxs _ Hj), (nth_overflow idxs _ Hj') in E. lia.
Qed.

Lemma pi_of_inj A idxs bound :
  jointly_injective A -> NoDup idxs -> (forall i, In i idxs -> i < bound) ->
  forall a b, pi_of A idxs bound a = pi_of A idxs bound b -> a = b.
Proof.
  intros HA Hn Hb a b E. unfold pi_of in E.
  destruct (of_nat a) as [j k] eqn:Ea. destruct (of_nat b) as [j' k'] eqn:Eb.
  apply HA in E as [E1 E2]. apply (nth_inj idxs bound Hn Hb) in E1. subst.
  rewrite <- (cancel_to_of a), <- (cancel_to_of b), Ea, Eb. reflexivity.
Qed.

(** an event list annotated from [A] at [idxs] is, event by event, the renaming of the canonical annotation *)
Lemma annot_canon_gen A bound l : forall idxs base all,
  List.length idxs = List.length l ->
  (forall j, j < List.length idxs -> nth j idxs 0 = nth (base + j) all (bound + (base + j))) ->
  Forall2 ev_eq (annot_idx A idxs l)
          (map (r_ev (pi_of A all bound) (pi_of A all bound)) (annot_idx canon0 (seq base (List.length l)) l)).
Proof.
  induction l as [|[b s] t IH]; intros [|i is] base all Hlen Hnth; simpl in *; try discriminate; constructor.
  - unfold ev_eq, r_ev. cbn [who op dr]. repeat split. intros k. unfold rd, canon0, pi_of.
    rewrite cancel_of_to. pose proof (Hnth 0 (Nat.lt_0_succ _)) as H0. simpl in H0. rewrite Nat.add_0_r in H0.
    rewrite <- H0. destruct (is_ctr_slot k); reflexivity.
  - apply IH; [lia|]. intros j Hj. pose proof (Hnth (S j) (proj1 (Nat.succ_lt_mono _ _) Hj)) as H1. simpl in H1.
    rewrite Nat.add_succ_r in H1. exact H1.
Qed.

Lemma annot_canon A bound idxs l :
  List.length idxs = List.length l ->
  Forall2 ev_eq (annot_idx A idxs l)
          (map (r_ev (pi_of A idxs bound) (pi_of A idxs bound)) (annotate canon0 l)).
Proof.
  intros H. apply (annot_canon_gen A bound l idxs 0 idxs H). intros j Hj. simpl. apply nth_indep. exact Hj.
Qed.

(** every run under a fresh oracle is a renaming of the canonical run of the same program *)
Theorem run_is_renamed_canonical g A idxs bound l :
  jointly_injective A -> NoDup idxs -> (forall i, In i idxs -> i < bound) -> List.length idxs = List.length l ->
  run g (annot_idx A idxs l) = r_world (pi_of A idxs bound) (pi_of A idxs bound) (run g (annotate canon0 l)).
Proof.
  intros HA Hn Hb Hl. rewrite (run_ext g _ _ (annot_canon A bound idxs l Hl)).
  apply run_equivariant; apply pi_of_inj; auto.
Qed.

(* ---------------------------------------------------------------- reproducible text *)
(** erase the payload of the random atoms (ids, uuid literals) -- "normalising only the uuid literals" *)
Definition skel_atom (a : atom) : atom := match a with AId _ => AId 0 | AUu _ => AUu 0 | x => x end.
Fixpoint skel (t : tx) : tx :=
  match t with TNil => TNil | TA a => TA (skel_atom a) | TRef n => TRef (skel n) | TCat l r => TCat (skel l) (skel r) end.
Definition skel_obs (o : obs) : obs :=
  match o with ORows k t => ORows k (skel t) | OSchema t => OSchema (skel t) | OErr => OErr end.

Lemma skel_r p t : skel (r_tx p (fun n => n) t) = skel t.
Proof. induction t as [|[]|n IH|l IHl r IHr]; simpl; congruence. Qed.

Lemma skel_obs_r p o : skel_obs (r_obs p (fun n => n) o) = skel_obs o.
Proof. destruct o; simpl; rewrite ?skel_r; reflexivity. Qed.

(** text that contains no random atom at all *)
Fixpoint closed (t : tx) : bool :=
  match t with
  | TNil => true
  | TA (AId _) | TA (AUu _) => false
  | TA _ => true
  | TRef n => closed n
  | TCat l r => closed l && closed r
  end.

Lemma closed_r p t : closed t = true -> r_tx p (fun n => n) t = t.
Proof.
  induction t as [|[]|n IH|l IHl r IHr]; simpl; intros H; try discriminate; auto.
  - rewrite IH; auto.
  - apply andb_true_iff in H as [H1 H2]. rewrite IHl, IHr; auto.
Qed.

(** the canonical annotation with prescribed VALUES-alias numbers *)
Definition canonC (cs : nat -> nat -> nat) : oracle := fun i k => if is_ctr_slot k then cs i k else to_nat (i, k).

Lemma annot_canonC A cs l : (forall i k, is_ctr_slot k = true -> A i k = cs i k) -> forall base,
  Forall2 ev_eq (annot_idx A (seq base (List.length l)) l)
          (map (r_ev (pi_of A [] 0) (fun n => n)) (annot_idx (canonC cs) (seq base (List.length l)) l)).
Proof.
  intros Hcs. induction l as [|[b s] t IH]; intros base; simpl; constructor; auto.
  unfold ev_eq, r_ev. cbn [who op dr]. repeat split. intros k. unfold rd, canonC, pi_of.
  destruct (is_ctr_slot k) eqn:E.
  - apply Hcs; auto.
  - rewrite cancel_of_to. simpl. destruct base; reflexivity.
Qed.

Lemma pi_of_nil_inj A : jointly_injective A -> forall a b, pi_of A [] 0 a = pi_of A [] 0 b -> a = b.
Proof. intros HA. apply pi_of_inj; auto; [constructor|intros i []]. Qed.

(** REPRODUCIBILITY.  Two sessions whose oracles are fresh and hand out the same VALUES-alias numbers (two fresh
    processes: the counter starts at 1 in both) observe, for the same program, texts that are renamings -- of the
    random atoms only -- of one and the same text.  Consequently the texts agree after erasing the payload of the
    random atoms, and texts without random atoms are identical. *)
Theorem text_oracle_independent : forall g (A1 A2 : oracle) l b,
  jointly_injective A1 -> jointly_injective A2 -> (forall i k, is_ctr_slot k = true -> A1 i k = A2 i k) ->
  exists C : list obs,
    obs_of b (run g (annotate A1 l)) = map (r_obs (pi_of A1 [] 0) (fun n => n)) C /\
    obs_of b (run g (annotate A2 l)) = map (r_obs (pi_of A2 [] 0) (fun n => n)) C.
Proof.
  intros g A1 A2 l b H1 H2 Hc.
  exists (obs_of b (run g (annotate (canonC A1) l))).
  split.
  - unfold annotate.
    rewrite (run_ext g _ _ (annot_canonC A1 A1 l (fun i k _ => eq_refl) 0)).
    rewrite run_equivariant; [|apply pi_of_nil_inj; auto|auto]. apply obs_of_r.
  - unfold annotate.
    rewrite (run_ext g _ _ (annot_canonC A2 A1 l (fun i k E => eq_sym (Hc i k E)) 0)).
    rewrite run_equivariant; [|apply pi_of_nil_inj; auto|auto]. apply obs_of_r.
Qed.

Corollary text_equal_upto_random_literals : forall g (A1 A2 : oracle) l b,
  jointly_injective A1 -> jointly_injective A2 -> (forall i k, is_ctr_slot k = true -> A1 i k = A2 i k) ->
  map skel_obs (obs_of b (run g (annotate A1 l))) = map skel_obs (obs_of b (run g (annotate A2 l))).
Proof.
  intros g A1 A2 l b H1 H2 Hc. destruct (text_oracle_independent g A1 A2 l b H1 H2 Hc) as [C [E1 E2]].
  rewrite E1, E2. rewrite !map_map. apply map_ext. intros o. rewrite !skel_obs_r. reflexivity.
Qed.

Definition closed_obs (o : obs) : bool :=
  match o with ORows _ t | OSchema t => closed t | OErr => true end.

Lemma closed_skel t : closed (skel t) = true -> closed t = true.
Proof.
  induction t as [|[]|n IH|l IHl r IHr]; simpl; intros H; try discriminate; auto.
  apply andb_true_iff in H as [A B]. rewrite IHl, IHr; auto.
Qed.

Lemma closed_r_inv p t : closed (r_tx p (fun n => n) t) = closed t.
Proof. induction t as [|[]|n IH|l IHl r IHr]; simpl; auto. rewrite IHl, IHr. reflexivity. Qed.

(** byte-identical text for programs that do not combine a DataFrame with a relative of itself (no random atom
    survives in the text): the two sessions' observations are equal *)
Corollary text_identical_when_closed : forall g (A1 A2 : oracle) l b,
  jointly_injective A1 -> jointly_injective A2 -> (forall i k, is_ctr_slot k = true -> A1 i k = A2 i k) ->
  forallb closed_obs (obs_of b (run g (annotate A1 l))) = true ->
  obs_of b (run g (annotate A1 l)) = obs_of b (run g (annotate A2 l)).
Proof.
  intros g A1 A2 l b H1 H2 Hc Hcl. destruct (text_oracle_independent g A1 A2 l b H1 H2 Hc) as [C [E1 E2]].
  rewrite E1, E2. rewrite E1 in Hcl. clear E1 E2.
  induction C as [|o C IH]; simpl in *; auto.
  apply andb_true_iff in Hcl as [Ho HC]. rewrite (IH HC). f_equal.
  destruct o as [k t|t|]; simpl in *; auto; rewrite closed_r_inv in Ho; rewrite !closed_r; auto.
Qed.

(* ---------------------------------------------------------------- history independence, final form *)
Fixpoint pick (idxs : list nat) (l : list (bool * step)) : list nat :=
  match idxs, l with
  | i :: is, (b, _) :: t => if b then i :: pick is t else pick is t
  | _, _ => []
  end.

Lemma filter_annot A : forall idxs l,
  filter who (annot_idx A idxs l) = annot_idx A (pick idxs l) (filter (fun x : bool * step => fst x) l).
Proof.
  induction idxs as [|i is IH]; intros [|[b s] t]; simpl; auto.
  destruct b; simpl; rewrite IH; reflexivity.
Qed.

Lemma pick_incl : forall idxs l i, In i (pick idxs l) -> In i idxs.
Proof.
  induction idxs as [|j is IH]; intros [|[b s] t] i H; simpl in *; try contradiction.
  destruct b; simpl in H; [destruct H; auto|]; right; eapply IH; eauto.
Qed.

Lemma pick_nodup : forall idxs l, NoDup idxs -> NoDup (pick idxs l).
Proof.
  induction idxs as [|j is IH]; intros [|[b s] t] H; simpl; try constructor.
  inversion H; subst. destruct b; [constructor|]; auto. intros Hin. apply pick_incl in Hin. auto.
Qed.

Lemma pick_length : forall idxs l, List.length idxs = List.length l ->
  List.length (pick idxs l) = List.length (filter (fun x : bool * step => fst x) l).
Proof.
  induction idxs as [|j is IH]; intros [|[b s] t] H; simpl in *; try discriminate; auto.
  destruct b; simpl; auto.
Qed.

Lemma in_annot A : forall idxs l e, In e (annot_idx A idxs l) -> exists i, In i idxs /\ dr e = A i.
Proof.
  induction idxs as [|j is IH]; intros [|[b s] t] e H; simpl in *; try contradiction.
  destruct H as [<-|H]; [exists j; auto|]. destruct (IH t e H) as [i [Hi E]]. exists i; auto.
Qed.

Lemma fresh_annot A : jointly_injective A -> forall idxs l, NoDup idxs -> fresh_PH (annot_idx A idxs l).
Proof.
  intros HA. induction idxs as [|j is IH]; intros [|[b s] t] Hn; unfold fresh_PH; simpl;
    try (intros x1 x2 k1 k2 F; contradiction).
  inversion Hn as [|? ? Hnotin Hnd]; subst. intros x1 x2 k1 k2 Hi1 Hi2 Hw1 Hw2 E.
  destruct Hi1 as [Hi1|Hi1]; destruct Hi2 as [Hi2|Hi2].
  - subst x1 x2. simpl in *. congruence.
  - subst x1. destruct (in_annot A is t x2 Hi2) as [i [Hi Ed]]. simpl in E. rewrite Ed in E. apply HA in E as [-> _]. auto.
  - subst x2. destruct (in_annot A is t x1 Hi1) as [i [Hi Ed]]. simpl in E. rewrite Ed in E. apply HA in E as [<- _]. auto.
  - apply (IH t Hnd x1 x2 k1 k2 Hi1 Hi2 Hw1 Hw2 E).
Qed.

(** HISTORY INDEPENDENCE, end to end: P's observations inside ANY interleaving with other work (oracle [A]) and P's
    observations when the same program is run alone in another session (oracle [A']) are both renamings, by injective
    functions, of one list of observations. *)
Theorem history_independent : forall g (A A' : oracle) prog,
  alias_scoped g = true -> jointly_injective A -> jointly_injective A' ->
  independent (annotate A prog) = true ->
  exists (C : list obs) (p1 p2 : nat -> nat),
    (forall a b, p1 a = p1 b -> a = b) /\ (forall a b, p2 a = p2 b -> a = b) /\
    obs_of true (run g (annotate A prog)) = map (r_obs p1 p1) C /\
    obs_of true (run g (annotate A' (filter (fun x : bool * step => fst x) prog))) = map (r_obs p2 p2) C.
Proof.
  intros g A A' prog Hg HA HA' Hi.
  set (progP := filter (fun x : bool * step => fst x) prog).
  set (n := List.length prog).
  assert (Hnd : NoDup (seq 0 n)) by apply seq_NoDup.
  assert (Hb : forall i, In i (seq 0 n) -> i < n) by (intros i Hin; apply in_seq in Hin; lia).
  exists (obs_of true (run g (annotate canon0 progP))).
  exists (pi_of A (pick (seq 0 n) prog) n), (pi_of A' (seq 0 (List.length progP)) (List.length progP)).
  assert (I1 : forall a b, pi_of A (pick (seq 0 n) prog) n a = pi_of A (pick (seq 0 n) prog) n b -> a = b).
  { apply pi_of_inj; auto. apply pick_nodup; auto. intros i Hin. apply Hb. eapply pick_incl; eauto. }
  assert (I2 : forall a b, pi_of A' (seq 0 (List.length progP)) (List.length progP) a =
                           pi_of A' (seq 0 (List.length progP)) (List.length progP) b -> a = b).
  { apply pi_of_inj; auto. apply seq_NoDup. intros i Hin. apply in_seq in Hin. lia. }
  split; [exact I1|]. split; [exact I2|]. split.
  - rewrite (non_interference g (annotate A prog) Hg (fresh_annot A HA _ _ Hnd) Hi).
    unfold annotate at 1. fold n. rewrite filter_annot. fold progP.
    rewrite (run_is_renamed_canonical g A (pick (seq 0 n) prog) n progP HA).
    + apply obs_of_r.
    + apply pick_nodup; auto.
    + intros i Hin. apply Hb. eapply pick_incl; eauto.
    + unfold progP. apply pick_length. rewrite seq_length. reflexivity.
  - unfold annotate at 1.
    rewrite (run_is_renamed_canonical g A' (seq 0 (List.length progP)) (List.length progP) progP HA').
    + apply obs_of_r.
    + apply seq_NoDup.
    + intros i Hin. apply in_seq in Hin. lia.
    + apply seq_length.
Qed.

(** ... hence every observer that does not depend on the names chosen for fresh things sees the same.  The engine's
    rows are such an observer (CTE names, VALUES aliases and the value of a `'u' = 'u'` literal do not influence the
    result of a query); that is an assumption about DuckDB, validated by the T3 runs. *)
Section Observer.
Variable R : Type.
Variable observe : obs -> R.
Hypothesis observe_invariant : forall p, (forall a b, p a = p b -> a = b) -> forall o, observe (r_obs p p o) = observe o.

Theorem history_independent_rows : forall g (A A' : oracle) prog,
  alias_scoped g = true -> jointly_injective A -> jointly_injective A' ->
  independent (annotate A prog) = true ->
  map observe (obs_of true (run g (annotate A prog))) =
  map observe (obs_of true (run g (annotate A' (filter (fun x : bool * step => fst x) prog)))).
Proof.
  intros g A A' prog Hg HA HA' Hi.
  destruct (history_independent g A A' prog Hg HA HA' Hi) as [C [p1 [p2 [I1 [I2 [E1 E2]]]]]].
  rewrite E1, E2, !map_map. apply map_ext. intros o. rewrite !observe_invariant; auto.
Qed.
End Observer.
