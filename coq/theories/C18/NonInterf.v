(** C18 -- non-interference: what the program under test (P) observes in a trace that interleaves its steps with
    arbitrary other work (H) in the same session equals what it observes when run alone, for EVERY interleaving of
    any length, provided P reads only its own frames and no view name that H registers ([independent]).
    The proof is a simulation between the full run and the run of P's events alone, by induction over the trace;
    the invariant says that the two sessions agree on everything that can be asked about ids drawn by P and about
    view names P reads ([resolve_local] turns that into equal resolution results). *)
From Coq Require Import List String ZArith Bool Arith Lia.
From SF Require Import C18.Session C18.Compile.
Import ListNotations.
Open Scope list_scope.

(* ---------------------------------------------------------------- syntactic side conditions *)
Definition uh_handles (u : ucolh) : list handle :=
  match u with mkUH (Some (inr h)) _ => [h] | _ => [] end.

Definition src_handles (p : step) : list handle :=
  match p with
  | SCreate _ _ _ => []
  | SSelect _ src cs => src :: flat_map uh_handles cs
  | SWhere _ src c _ => src :: uh_handles c
  | SAlias _ src _ => [src]
  | SJoin _ l r on => l :: r :: match on with OnExpr a b => uh_handles a ++ uh_handles b | OnNames _ => [] end
  | SView src _ => [src]
  | SSql _ _ _ => []
  | SAct _ src => [src]
  | SSchema src => [src]
  | SBad _ src => [src]
  end.

Definition vreads (p : step) : list string := match p with SSql _ v _ => [v] | _ => [] end.
Definition vwrites (p : step) : list string := match p with SView _ v => [v] | _ => [] end.

(** P reads only P's frames *)
Definition reads_own (e : ev) : bool := if who e then forallb (fun h : handle => fst h) (src_handles (op e)) else true.

Definition preads (l : list ev) : list string := flat_map (fun e => if who e then vreads (op e) else []) l.
Definition hwrites (l : list ev) : list string := flat_map (fun e => if who e then [] else vwrites (op e)) l.

(** the decidable domain of the theorem *)
Definition independent (l : list ev) : bool :=
  forallb reads_own l && forallb (fun v => negb (mem_str v (hwrites l))) (preads l).

(** freshness of the drawn values, as far as this theorem needs it: what P draws is never drawn by H *)
Definition fresh_PH (l : list ev) : Prop :=
  forall e1 e2 k1 k2, In e1 l -> In e2 l -> who e1 = true -> who e2 = false -> dr e1 k1 <> dr e2 k2.

Section NI.
Variable g : cfg.
Hypothesis g_scoped : alias_scoped g = true.
Variable PID : nat -> Prop.          (* "drawn by P" *)
Variable PV : string -> bool.        (* "view name P reads" *)

Definition ids_ok (l : list cte) : Prop := Forall (fun c => PID (c_br c) /\ PID (c_sq c)) l.
Definition fids_ok (f : frame) : Prop := ids_ok (f_ctes f) /\ PID (f_br f) /\ PID (f_sq f).
Definition col_ok (c : col) : Prop := match q c with QKeep (IId i) => PID i | _ => True end.

Definition ragree (r r' : regs) : Prop := forall i, PID i ->
  mem_nat i (known r) = mem_nat i (known r') /\
  mem_nat i (kbranch r) = mem_nat i (kbranch r') /\
  forall s, mem_nat i (amap_ids r s) = mem_nat i (amap_ids r' s).

(* ---- resolution agrees ---- *)
Lemma resolve_agree r r' x d :
  ragree r r' -> ids_ok (x_ctes x) -> (forall i, d = IId i -> PID i) ->
  resolve (alias_scoped g) r x d = resolve (alias_scoped g) r' x d.
Proof.
  intros Hr Hx Hd. rewrite g_scoped. apply resolve_local. destruct d as [s|i]; simpl.
  - intros i Hi. unfold ids_of in Hi. apply in_flat_map in Hi as [c [Hc Hi]].
    unfold ids_ok in Hx. rewrite Forall_forall in Hx. destruct (Hx c Hc) as [Hb Hs].
    simpl in Hi. destruct Hi as [<-|[<-|[]]]; [apply (Hr _ Hb)|apply (Hr _ Hs)].
  - destruct (Hr i (Hd i eq_refl)) as [H1 [H2 _]]. auto.
Qed.

Lemma norm_col_agree r r' x c :
  ragree r r' -> ids_ok (x_ctes x) -> col_ok c -> norm_col g r x c = norm_col g r' x c.
Proof.
  intros Hr Hx Hc. unfold norm_col, norm_q, norm_cap.
  rewrite (resolve_agree r r' x (IName (cn c)) Hr Hx) by (intros i E; discriminate).
  destruct (q c) as [|d|nm] eqn:Eq; auto.
  rewrite (resolve_agree r r' x d Hr Hx); auto.
  intros i ->. unfold col_ok in Hc. rewrite Eq in Hc. exact Hc.
Qed.

Lemma norm_col_ok r x c c' : norm_col g r x c = Some c' -> col_ok c -> col_ok c'.
Proof.
  unfold norm_col. intros H Hc.
  destruct (norm_q g r x (q c)) as [k|] eqn:Ek; [|discriminate].
  destruct (norm_cap g r x c) as [cp|]; [|discriminate].
  inversion H; subst. unfold col_ok in *. simpl.
  unfold norm_q in Ek. destruct (q c) as [|d|nm].
  - inversion Ek; exact I.
  - destruct (resolve (alias_scoped g) r x d); simpl in Ek; inversion Ek; auto.
  - inversion Ek; exact I.
Qed.

Lemma all_some_Forall {A} (P : A -> Prop) (l : list (option A)) l' :
  all_some l = Some l' -> (forall a, In (Some a) l -> P a) -> Forall P l'.
Proof.
  revert l'. induction l as [|[a|] l IH]; simpl; intros l' H HP.
  - inversion H. constructor.
  - destruct (all_some l) eqn:E; inversion H; subst. constructor; [apply HP; auto|apply IH; auto].
  - discriminate.
Qed.

Lemma ambig1_ok f m c : col_ok c -> col_ok (fst (ambig1 f m c)).
Proof.
  unfold ambig1. intros Hc.
  destruct (q c) eqn:Eq; auto. destruct (f_joins f); auto.
  destruct (nth_error _ _); simpl; [exact I|].
  destruct (match pos_of m (col_out c) with 0 => _ | S p' => _ end); simpl; auto. exact I.
Qed.

Lemma ambig_ok f cs : forall m, Forall col_ok cs -> Forall col_ok (ambig f m cs).
Proof.
  induction cs as [|c t IH]; intros m H; simpl; [constructor|].
  inversion H; subst. pose proof (ambig1_ok f m c H2) as Hk.
  destruct (ambig1 f m c) as [c' m']. simpl in Hk. constructor; auto.
Qed.

Lemma ensure_cols_agree r r' x f cs :
  ragree r r' -> ids_ok (x_ctes x) -> Forall col_ok cs -> ensure_cols g r x f cs = ensure_cols g r' x f cs.
Proof.
  intros Hr Hx Hc. unfold ensure_cols.
  replace (map (norm_col g r' x) cs) with (map (norm_col g r x) cs); auto.
  apply map_ext_in. intros c Hin. rewrite Forall_forall in Hc. apply norm_col_agree; auto.
Qed.

Lemma ensure_cols_ok r x f cs l :
  ensure_cols g r x f cs = Some l -> Forall col_ok cs -> Forall col_ok l.
Proof.
  unfold ensure_cols. intros H Hc.
  destruct (all_some (map (norm_col g r x) cs)) as [l0|] eqn:E; [|discriminate].
  inversion H; subst. apply ambig_ok.
  apply (all_some_Forall col_ok _ _ E). intros a Ha. apply in_map_iff in Ha as [c [Hn Hin]].
  rewrite Forall_forall in Hc. eapply norm_col_ok; eauto.
Qed.

Lemma plain_ok s : col_ok (plain s).
Proof. exact I. Qed.
Lemma plains_ok l : Forall col_ok (map plain l).
Proof. induction l; simpl; constructor; auto. exact I. Qed.

(* ---- ids of constructed frames ---- *)
Lemma ids_ok_app a b : ids_ok (a ++ b) <-> ids_ok a /\ ids_ok b.
Proof. unfold ids_ok. apply Forall_app. Qed.

Lemma convert_ok f s : fids_ok f -> PID s -> fids_ok (convert f s).
Proof.
  intros [Hc [Hb Hs]] Hp. unfold convert, fids_ok; simpl. repeat split; auto.
  apply ids_ok_app. split; auto. constructor; [simpl; auto|constructor].
Qed.

Lemma set_last_ok f z : fids_ok f -> fids_ok (set_last f z).
Proof. intros [A [B C]]. unfold set_last, fids_ok; simpl; auto. Qed.

Lemma wrap_ok o f : fids_ok f -> fids_ok (fst (wrap g o f)).
Proof.
  intros H. unfold wrap.
  set (f1 := if Z.eqb (f_last f) (op_init g) then _ else f).
  assert (H1 : fids_ok f1).
  { unfold f1. destruct (Z.eqb (f_last f) (op_init g)); auto.
    apply set_last_ok. apply convert_ok; auto. apply H. }
  simpl. destruct (wrap_needed g _ _); auto. apply convert_ok; auto. apply H1.
Qed.

Lemma add_cte_ids d a c :
  map (fun k => (c_br k, c_sq k)) (a_out (add_cte d a c)) = map (fun k => (c_br k, c_sq k)) (a_out a) ++ [(c_br c, c_sq c)].
Proof.
  unfold add_cte. destruct (mem_tx _ _); simpl; rewrite map_app; reflexivity.
Qed.

Lemma add_ctes_ids d ex new :
  map (fun k => (c_br k, c_sq k)) (a_out (add_ctes d ex new)) = map (fun k => (c_br k, c_sq k)) (ex ++ new).
Proof.
  unfold add_ctes.
  assert (G : forall a, map (fun k => (c_br k, c_sq k)) (a_out (fold_left (add_cte d) new a)) =
                        map (fun k => (c_br k, c_sq k)) (a_out a ++ new)).
  { induction new as [|c t IH]; intros a; simpl; [rewrite app_nil_r; auto|].
    rewrite IH. rewrite !map_app. rewrite add_cte_ids. rewrite <- app_assoc. reflexivity. }
  apply G.
Qed.

Lemma ids_ok_map l l' :
  map (fun k => (c_br k, c_sq k)) l = map (fun k => (c_br k, c_sq k)) l' -> ids_ok l' -> ids_ok l.
Proof.
  revert l'. induction l as [|c t IH]; intros [|c' t'] E H; simpl in E; try discriminate; [constructor|].
  inversion E. inversion H; subst. constructor; [rewrite H1, H2; auto|eapply IH; eauto].
Qed.

Lemma add_ctes_ok d ex new : ids_ok ex -> ids_ok new -> ids_ok (a_out (add_ctes d ex new)).
Proof.
  intros H1 H2. eapply ids_ok_map; [apply add_ctes_ids|]. apply ids_ok_app; auto.
Qed.

Lemma self_join_fix_ok l r' oju latest c : col_ok c -> col_ok (self_join_fix l r' oju latest c).
Proof.
  unfold self_join_fix. intros H. destruct (Nat.eqb _ _); auto. destruct (cju c); auto.
  destruct (mem_nat _ _ || _); auto. exact I.
Qed.

Lemma Forall_map_ok (f : col -> col) l : (forall c, col_ok c -> col_ok (f c)) -> Forall col_ok l -> Forall col_ok (map f l).
Proof. intros Hf H. induction H; simpl; constructor; auto. Qed.

(** the join: same result under agreeing registries, and the result carries only P's ids *)
Lemma join_finish_agree r r' d l fj names :
  ragree r r' -> ids_ok (f_ctes fj) -> join_finish g r d l fj names = join_finish g r' d l fj names.
Proof.
  intros Hr Hf. unfold join_finish.
  rewrite (ensure_cols_agree r r' (ctx_of fj) fj (map plain names) Hr); auto. apply plains_ok.
Qed.

Lemma join_finish_ok r d l fj names f :
  join_finish g r d l fj names = Some f -> ids_ok (f_ctes fj) -> fids_ok l -> fids_ok f.
Proof.
  unfold join_finish. intros H Hf Hl. destruct (ensure_cols _ _ _ _ _); inversion H; subst.
  unfold fids_ok; simpl. split; [auto|split; apply Hl].
Qed.

Lemma join_model_agree r r' d l rt on :
  ragree r r' -> fids_ok l -> fids_ok rt ->
  (forall ca cb, on = inl (Some (ca, cb)) -> col_ok ca /\ col_ok cb) ->
  join_model g r d l rt on = join_model g r' d l rt on.
Proof.
  intros Hr Hl Hrt Hon. unfold join_model.
  set (r1 := convert rt (f_sq rt)).
  assert (Hr1 : fids_ok r1) by (apply convert_ok; auto; apply Hrt).
  set (a := add_ctes d (f_ctes l) (f_ctes r1)).
  assert (Ha : ids_ok (a_out a)) by (apply add_ctes_ok; [apply Hl|apply Hr1]).
  destruct (last (map Some (a_out a)) None) as [jc|]; auto.
  destruct (a_last a) as [latest|]; auto. cbv zeta.
  destruct on as [[[ca cb]|]|cs]; auto.
  - destruct (Hon ca cb eq_refl) as [Hca Hcb].
    assert (Hcc : Forall col_ok [ca; cb]) by (repeat constructor; auto).
    rewrite (ensure_cols_agree r r' (ctx_of l) l [ca; cb] Hr); [|apply Hl|exact Hcc].
    destruct (ensure_cols g r' (ctx_of l) l [ca; cb]) as [cs1|] eqn:E1; auto.
    assert (H1 : Forall col_ok cs1) by (eapply ensure_cols_ok; eauto).
    rewrite (ensure_cols_agree r r' (ctx_of (join_frame l (a_out a) (c_name jc) [] (f_ok l && f_ok rt))) l
                               (map (self_join_fix l r1 (f_ju rt) latest) cs1) Hr);
      [|exact Ha|apply Forall_map_ok; auto; intros c Hc; apply self_join_fix_ok; auto].
    destruct (ensure_cols g r' _ l (map (self_join_fix l r1 (f_ju rt) latest) cs1)) as [[|ca' [|cb' [|]]]|]; auto.
    apply join_finish_agree; auto.
  - rewrite (ensure_cols_agree r r' (ctx_of l) l (map plain cs) Hr); [|apply Hl|apply plains_ok].
    destruct (ensure_cols g r' (ctx_of l) l (map plain cs)) as [ncs|]; auto.
    destruct (join_pairs _ latest ncs) as [ps|]; auto.
    apply join_finish_agree; auto.
Qed.

Lemma join_model_ok r d l rt on f :
  join_model g r d l rt on = Some f -> fids_ok l -> fids_ok rt -> fids_ok f.
Proof.
  intros H Hl Hrt. unfold join_model in H.
  set (r1 := convert rt (f_sq rt)) in *.
  assert (Hr1 : fids_ok r1) by (apply convert_ok; auto; apply Hrt).
  set (a := add_ctes d (f_ctes l) (f_ctes r1)) in *.
  assert (Ha : ids_ok (a_out a)) by (apply add_ctes_ok; [apply Hl|apply Hr1]).
  destruct (last (map Some (a_out a)) None) as [jc|]; [|discriminate].
  destruct (a_last a) as [latest|]; [|discriminate]. cbv zeta in H.
  destruct on as [[[ca cb]|]|cs]; try discriminate.
  - destruct (ensure_cols g r (ctx_of l) l [ca; cb]) as [cs1|]; [|discriminate].
    destruct (ensure_cols g r _ l (map (self_join_fix l r1 (f_ju rt) latest) cs1)) as [[|ca' [|cb' [|]]]|]; try discriminate.
    eapply join_finish_ok; eauto.
  - destruct (ensure_cols g r (ctx_of l) l (map plain cs)) as [ncs|]; [|discriminate].
    destruct (join_pairs _ latest ncs) as [ps|]; [|discriminate].
    eapply join_finish_ok; eauto.
Qed.

(* ---- environments, states ---- *)
Definition eagree (e e' : env) : Prop := forall n, get e (true, n) = get e' (true, n).
Definition env_ok (e : env) : Prop := forall n f, get e (true, n) = Some f -> fids_ok f.

Definition vagree (s s' : st) : Prop := forall v, PV v = true ->
  lookup (views s) v = lookup (views s') v /\ lookup (scache s) v = lookup (scache s') v.
Definition views_ok (s : st) : Prop := forall v f, PV v = true -> lookup (views s) v = Some f -> fids_ok f.

Record inv (w w' : world) : Prop := mkInv {
  i_env : eagree (w_env w) (w_env w');
  i_envok : env_ok (w_env w');
  i_regs : ragree (rg (w_st w)) (rg (w_st w'));
  i_views : vagree (w_st w) (w_st w');
  i_vok : views_ok (w_st w');
  i_obs : obs_of true w = obs_of true w'
}.

Lemma get_cons_other (e : env) b n f m : b = false -> get (((b, n), f) :: e) (true, m) = get e (true, m).
Proof. intros ->. unfold get. simpl. reflexivity. Qed.

Lemma get_cons_P (e : env) n f m :
  get (((true, n), f) :: e) (true, m) = if Nat.eqb n m then Some f else get e (true, m).
Proof. unfold get. simpl. unfold handle_eqb. simpl. destruct (Nat.eqb n m); reflexivity. Qed.

(* ---- membership under extension ---- *)
Lemma mem_nat_app x l l' : mem_nat x (l ++ l') = mem_nat x l || mem_nat x l'.
Proof. unfold mem_nat. apply existsb_app. Qed.

Lemma mem_nat_single_neq x y : x <> y -> mem_nat x [y] = false.
Proof. intros H. simpl. apply Nat.eqb_neq in H. rewrite H. reflexivity. Qed.

Lemma amap_ids_app r s s0 i :
  amap_ids (add_alias r s0 i) s = amap_ids r s ++ (if String.eqb s0 s then [i] else []).
Proof.
  unfold amap_ids, add_alias. simpl. rewrite filter_app, map_app. simpl.
  destruct (String.eqb s0 s); reflexivity.
Qed.

(** effect of adding a non-P id anywhere: invisible to P *)
Definition nonP (i : nat) : Prop := ~ PID i.

Lemma ragree_refl r : ragree r r.
Proof. intros i _. auto. Qed.

Lemma ragree_trans_l r1 r2 r' : (forall i, PID i ->
    mem_nat i (known r2) = mem_nat i (known r1) /\ mem_nat i (kbranch r2) = mem_nat i (kbranch r1) /\
    forall s, mem_nat i (amap_ids r2 s) = mem_nat i (amap_ids r1 s)) ->
  ragree r1 r' -> ragree r2 r'.
Proof.
  intros H Hr i Hi. destruct (H i Hi) as [A [B C]]. destruct (Hr i Hi) as [A' [B' C']].
  repeat split; try congruence. all: intros s; rewrite C; apply C'.
Qed.

Lemma invisible_known r j : nonP j -> forall i, PID i ->
    mem_nat i (known (add_known r j)) = mem_nat i (known r) /\ mem_nat i (kbranch (add_known r j)) = mem_nat i (kbranch r) /\
    forall s, mem_nat i (amap_ids (add_known r j) s) = mem_nat i (amap_ids r s).
Proof.
  intros Hj i Hi. simpl. rewrite mem_nat_app, mem_nat_single_neq, orb_false_r; [auto|]. intros ->; auto.
Qed.
Lemma invisible_branch r j : nonP j -> forall i, PID i ->
    mem_nat i (known (add_branch r j)) = mem_nat i (known r) /\ mem_nat i (kbranch (add_branch r j)) = mem_nat i (kbranch r) /\
    forall s, mem_nat i (amap_ids (add_branch r j) s) = mem_nat i (amap_ids r s).
Proof.
  intros Hj i Hi. simpl. assert (i <> j) by (intros ->; auto).
  rewrite !mem_nat_app, !mem_nat_single_neq, !orb_false_r; auto.
Qed.
Lemma invisible_seq r j : nonP j -> forall i, PID i ->
    mem_nat i (known (add_seq r j)) = mem_nat i (known r) /\ mem_nat i (kbranch (add_seq r j)) = mem_nat i (kbranch r) /\
    forall s, mem_nat i (amap_ids (add_seq r j) s) = mem_nat i (amap_ids r s).
Proof.
  intros Hj i Hi. simpl. assert (i <> j) by (intros ->; auto).
  rewrite !mem_nat_app, !mem_nat_single_neq, !orb_false_r; auto.
Qed.
Lemma invisible_alias r s0 j : nonP j -> forall i, PID i ->
    mem_nat i (known (add_alias r s0 j)) = mem_nat i (known r) /\ mem_nat i (kbranch (add_alias r s0 j)) = mem_nat i (kbranch r) /\
    forall s, mem_nat i (amap_ids (add_alias r s0 j) s) = mem_nat i (amap_ids r s).
Proof.
  intros Hj i Hi. assert (i <> j) by (intros ->; auto). repeat split; auto.
  intros s. rewrite amap_ids_app, mem_nat_app. destruct (String.eqb s0 s); simpl.
  - apply Nat.eqb_neq in H. rewrite H. simpl. apply orb_false_r.
  - apply orb_false_r.
Qed.

(** the same addition on both sides keeps agreement *)
Lemma ragree_known r r' j : ragree r r' -> ragree (add_known r j) (add_known r' j).
Proof. intros H i Hi. destruct (H i Hi) as [A [B C]]. simpl. rewrite !mem_nat_app, A. auto. Qed.
Lemma ragree_branch r r' j : ragree r r' -> ragree (add_branch r j) (add_branch r' j).
Proof. intros H i Hi. destruct (H i Hi) as [A [B C]]. simpl. rewrite !mem_nat_app, A, B. auto. Qed.
Lemma ragree_seq r r' j : ragree r r' -> ragree (add_seq r j) (add_seq r' j).
Proof. intros H i Hi. destruct (H i Hi) as [A [B C]]. simpl. rewrite !mem_nat_app, A. auto. Qed.
Lemma ragree_alias r r' s0 j : ragree r r' -> ragree (add_alias r s0 j) (add_alias r' s0 j).
Proof.
  intros H i Hi. destruct (H i Hi) as [A [B C]]. repeat split; auto.
  intros s. rewrite !amap_ids_app, !mem_nat_app, C. reflexivity.
Qed.

(* ---- views and the schema cache ---- *)
Lemma lookup_cons_neq {A} (m : list (string * A)) v v' (x : A) : String.eqb v v' = false -> lookup ((v, x) :: m) v' = lookup m v'.
Proof. intros H. unfold lookup. simpl. rewrite H. reflexivity. Qed.

Lemma lookup_cons_eq {A} (m : list (string * A)) v (x : A) : lookup ((v, x) :: m) v = Some x.
Proof. unfold lookup. simpl. rewrite String.eqb_refl. reflexivity. Qed.

Lemma lookup_app_neq {A} (m : list (string * A)) v v' (x : A) : String.eqb v v' = false -> lookup (m ++ [(v, x)]) v' = lookup m v'.
Proof.
  intros H. unfold lookup. induction m as [|p m IH]; simpl.
  - rewrite H. reflexivity.
  - destruct (String.eqb (fst p) v'); auto.
Qed.

Lemma cache_add_other sc v cols v' : String.eqb v v' = false -> lookup (cache_add g sc v cols) v' = lookup sc v'.
Proof.
  intros H. unfold cache_add. destruct (schema_aia g).
  - destruct (lookup sc v); auto. apply lookup_app_neq; auto.
  - apply lookup_cons_neq; auto.
Qed.

Lemma lookup_app_none {A} (m : list (string * A)) v (x : A) : lookup m v = None -> lookup (m ++ [(v, x)]) v = Some x.
Proof.
  unfold lookup. induction m as [|p m IH]; simpl.
  - rewrite String.eqb_refl. auto.
  - destruct (String.eqb (fst p) v); [discriminate|auto].
Qed.

Lemma cache_add_same sc sc' v cols :
  lookup sc v = lookup sc' v -> lookup (cache_add g sc v cols) v = lookup (cache_add g sc' v cols) v.
Proof.
  intros H. unfold cache_add. destruct (schema_aia g).
  - rewrite <- H. destruct (lookup sc v) eqn:E; cbv beta iota; [congruence|]. rewrite !lookup_app_none; auto; congruence.
  - rewrite !lookup_cons_eq. reflexivity.
Qed.


(* ---- ragree is an equivalence; additions of non-P ids are invisible ---- *)
Lemma ragree_sym r r' : ragree r r' -> ragree r' r.
Proof. intros H i Hi. destruct (H i Hi) as [A [B C]]. repeat split; auto. Qed.
Lemma ragree_trans r1 r2 r3 : ragree r1 r2 -> ragree r2 r3 -> ragree r1 r3.
Proof.
  intros H1 H2 i Hi. destruct (H1 i Hi) as [A [B C]]. destruct (H2 i Hi) as [A' [B' C']].
  repeat split; try congruence. all: intros s; rewrite C; apply C'.
Qed.

Ltac break :=
  repeat match goal with
         | |- context [match ?x with _ => _ end] => destruct x eqn:?
         | |- context [let '(_, _) := ?x in _] => destruct x eqn:?
         end.

Lemma run_step_regs_H s e d p : (forall k, nonP (d k)) ->
  ragree (rg (fst (fst (run_step g s e d p)))) (rg s).
Proof.
  intros Hd.
  assert (Hcr : ragree (add_seq (add_branch (rg s) (d 0)) (d 1)) (rg s)).
  { eapply ragree_trans; [exact (invisible_seq _ _ (Hd 1))|exact (invisible_branch _ _ (Hd 0))]. }
  assert (Hal : forall n, ragree (add_alias (add_seq (rg s) (d 1)) n (d 1)) (rg s)).
  { intros n. eapply ragree_trans; [exact (invisible_alias _ _ _ (Hd 1))|exact (invisible_seq _ _ (Hd 1))]. }
  assert (Hkn : ragree (add_known (rg s) (d 4)) (rg s)) by exact (invisible_known _ _ (Hd 4)).
  destruct p; simpl; break; simpl; auto using ragree_refl.
Qed.

Lemma run_step_views s e d p v : ~ In v (vwrites p) ->
  lookup (views (fst (fst (run_step g s e d p)))) v = lookup (views s) v /\
  lookup (scache (fst (fst (run_step g s e d p)))) v = lookup (scache s) v.
Proof.
  intros Hv. destruct p; simpl; break; simpl; auto.
  simpl in Hv. assert (E : String.eqb v0 v = false).
  { apply String.eqb_neq. intros ->. apply Hv. auto. }
  split; [apply lookup_cons_neq; auto|apply cache_add_other; auto].
Qed.

Lemma obs_of_app_other w o : filter (fun p : bool * obs => Bool.eqb (fst p) true) (w ++ [(false, o)]) =
                             filter (fun p : bool * obs => Bool.eqb (fst p) true) w.
Proof. rewrite filter_app. simpl. apply app_nil_r. Qed.

Lemma step_H w w' e :
  inv w w' -> who e = false -> (forall k, nonP (dr e k)) -> (forall v, In v (vwrites (op e)) -> PV v = false) ->
  inv (run_ev g w e) w'.
Proof.
  intros [He Hok Hr Hv Hvok Ho] Hw Hd Hwr.
  pose proof (run_step_regs_H (w_st w) (w_env w) (dr e) (op e) Hd) as Hrg.
  assert (Hvw : forall v, PV v = true ->
            lookup (views (fst (fst (run_step g (w_st w) (w_env w) (dr e) (op e))))) v = lookup (views (w_st w)) v /\
            lookup (scache (fst (fst (run_step g (w_st w) (w_env w) (dr e) (op e))))) v = lookup (scache (w_st w)) v).
  { intros v Hpv. apply run_step_views. intros Hin. rewrite (Hwr v Hin) in Hpv. discriminate. }
  unfold run_ev. destruct (run_step g (w_st w) (w_env w) (dr e) (op e)) as [[s1 b] o]. simpl in *.
  constructor; simpl; auto.
  - intros n. destruct b as [[dst f]|]; auto. rewrite Hw. rewrite get_cons_other; auto.
  - eapply ragree_trans; eauto.
  - intros v Hpv. destruct (Hvw v Hpv) as [A B]. destruct (Hv v Hpv) as [A' B']. split; congruence.
  - unfold obs_of in *. simpl. destruct o as [o|]; auto. rewrite Hw. rewrite obs_of_app_other. exact Ho.
Qed.

(* ---- a step of P sees the same and does the same in both sessions ---- *)
Arguments wrap : simpl never.
Arguments convert : simpl never.
Arguments join_model : simpl never.
Arguments ensure_cols : simpl never.
Arguments with_op : simpl never.
Arguments set_seq_ju : simpl never.
Arguments final_text : simpl never.
Arguments cache_add : simpl never.
Lemma get_agree e e' (h : handle) : eagree e e' -> fst h = true -> get e h = get e' h.
Proof. intros H Hh. destruct h as [b n]. simpl in Hh. subst. apply H. Qed.

Lemma resolve_h_agree e e' u :
  eagree e e' -> forallb (fun h : handle => fst h) (uh_handles u) = true -> resolve_h e u = resolve_h e' u.
Proof.
  intros H Hu. destruct u as [[[s|h]|] c]; simpl in *; auto.
  rewrite andb_true_r in Hu. rewrite (get_agree e e' h H Hu). reflexivity.
Qed.

Lemma resolve_h_ok e u c :
  env_ok e -> forallb (fun h : handle => fst h) (uh_handles u) = true -> resolve_h e u = Some c -> col_ok c.
Proof.
  intros H Hu Hc. destruct u as [[[s|h]|] c0]; simpl in *; try (inversion Hc; exact I).
  rewrite andb_true_r in Hu. destruct h as [b n]. simpl in Hu. subst.
  destruct (get e (true, n)) as [f|] eqn:E; inversion Hc. unfold col_ok. simpl.
  apply (H n f E).
Qed.

Lemma all_some_map_ext {A B} (f f' : A -> option B) l :
  (forall a, In a l -> f a = f' a) -> all_some (map f l) = all_some (map f' l).
Proof. intros H. rewrite (map_ext_in f f' l H). reflexivity. Qed.

Lemma forallb_flat_map {A B} (p : B -> bool) (f : A -> list B) l a :
  forallb p (flat_map f l) = true -> In a l -> forallb p (f a) = true.
Proof.
  intros H Hin. rewrite forallb_forall in *. intros x Hx. apply H. apply in_flat_map. exists a. auto.
Qed.

Lemma resolve_hs_agree e e' cs :
  eagree e e' -> forallb (fun h : handle => fst h) (flat_map uh_handles cs) = true ->
  all_some (map (resolve_h e) cs) = all_some (map (resolve_h e') cs).
Proof.
  intros H Hc. apply all_some_map_ext. intros u Hu. apply resolve_h_agree; auto.
  eapply forallb_flat_map; eauto.
Qed.

Lemma resolve_hs_ok e cs l :
  env_ok e -> forallb (fun h : handle => fst h) (flat_map uh_handles cs) = true ->
  all_some (map (resolve_h e) cs) = Some l -> Forall col_ok l.
Proof.
  intros H Hc E. apply (all_some_Forall col_ok _ _ E). intros c Hin.
  apply in_map_iff in Hin as [u [Hu Hin]]. eapply resolve_h_ok; eauto. eapply forallb_flat_map; eauto.
Qed.

Ltac four := split; [|split; [|split]].
Definition bind_ok (b : option (nat * frame)) : Prop := match b with Some (_, f) => fids_ok f | None => True end.

Record step_rel (s1 s1' : st) : Prop := mkRel {
  sr_regs : ragree (rg s1) (rg s1');
  sr_views : vagree s1 s1';
  sr_vok : views_ok s1'
}.

Lemma with_op_ok f ju last sel wh : fids_ok f -> fids_ok (with_op f ju last sel wh).
Proof. intros [A [B C]]. unfold with_op, fids_ok; simpl; auto. Qed.
Lemma set_seq_ju_ok f ju last : fids_ok f -> fids_ok (set_seq_ju f ju last).
Proof. intros [A [B C]]. unfold set_seq_ju, fids_ok; simpl; auto. Qed.

Lemma step_rel_regs s s' r r' :
  step_rel s s' -> ragree r r' -> step_rel (set_rg s r) (set_rg s' r').
Proof. intros [A B C] H. constructor; simpl; auto. Qed.

Lemma step_rel_counter s s' c c' :
  step_rel s s' -> step_rel (mkSt (rg s) (views s) (scache s) (eviews s) c) (mkSt (rg s') (views s') (scache s') (eviews s') c').
Proof. intros [A B C]. constructor; auto. Qed.

Lemma run_step_P s s' e e' d p :
  step_rel s s' -> eagree e e' -> env_ok e' ->
  forallb (fun h : handle => fst h) (src_handles p) = true ->
  (forall k, PID (d k)) -> (forall v, In v (vreads p) -> PV v = true) ->
  let out := run_step g s e d p in let out' := run_step g s' e' d p in
  snd (fst out) = snd (fst out') /\ snd out = snd out' /\
  step_rel (fst (fst out)) (fst (fst out')) /\ bind_ok (snd (fst out')).
Proof.
  intros Hs He Hok Hh Hd Hv. destruct Hs as [Hr Hvw Hvok].
  assert (Hs : step_rel s s') by (constructor; auto).
  destruct p; simpl in Hh; cbv zeta.
  - (* create *)
    simpl. split; [|split; [|split]]; simpl; auto.
    + constructor; simpl; auto. apply ragree_seq, ragree_branch; auto.
    + unfold fids_ok; simpl. split; [constructor|split; apply Hd].
  - (* select *)
    apply andb_true_iff in Hh as [Hsrc Hcs].
    unfold run_step. rewrite (get_agree e e' src He Hsrc). rewrite (resolve_hs_agree e e' cs He Hcs).
    destruct src as [b n]. simpl in Hsrc. subst b.
    destruct (get e' (true, n)) as [f0|] eqn:Ef; [|simpl; auto].
    destruct (all_some (map (resolve_h e') cs)) as [cols|] eqn:Ec; [|simpl; auto].
    pose proof (wrap_ok (op_select g) f0 (Hok n f0 Ef)) as Hw.
    destruct (wrap g (op_select g) f0) as [f new]. simpl in Hw. cbv beta iota.
    rewrite (ensure_cols_agree (rg s) (rg s') (ctx_of f) f cols Hr) by (try apply Hw; eapply resolve_hs_ok; eauto).
    destruct (ensure_cols g (rg s') (ctx_of f) f cols); simpl; auto.
    all: try (four; auto; apply with_op_ok; auto).
  - (* where *)
    apply andb_true_iff in Hh as [Hsrc Hc].
    unfold run_step. rewrite (get_agree e e' src He Hsrc). rewrite (resolve_h_agree e e' c He Hc).
    destruct src as [b n]. simpl in Hsrc. subst b.
    destruct (get e' (true, n)) as [f0|] eqn:Ef; [|simpl; auto].
    destruct (resolve_h e' c) as [c0|] eqn:Ec; [|simpl; auto].
    pose proof (wrap_ok (op_where g) f0 (Hok n f0 Ef)) as Hw.
    destruct (wrap g (op_where g) f0) as [f new]. simpl in Hw. cbv beta iota.
    rewrite (ensure_cols_agree (rg s) (rg s') (ctx_of f) f [c0] Hr);
      [|apply Hw|constructor; [eapply resolve_h_ok; eauto|constructor]].
    destruct (ensure_cols g (rg s') (ctx_of f) f [c0]) as [[|c1 [|]]|]; simpl; auto.
    all: try (four; auto; apply with_op_ok; auto).
  - (* alias *)
    rewrite andb_true_r in Hh.
    unfold run_step. rewrite (get_agree e e' src He Hh).
    destruct src as [b n]. simpl in Hh. subst b.
    destruct (get e' (true, n)) as [f0|] eqn:Ef; [|simpl; auto].
    pose proof (wrap_ok (op_noop g) f0 (Hok n f0 Ef)) as Hw.
    destruct (wrap g (op_noop g) f0) as [f new]. simpl in Hw. cbv beta iota. simpl.
    split; [|split; [|split]]; auto.
    + apply step_rel_regs; auto. apply ragree_alias, ragree_seq; auto.
    + apply set_seq_ju_ok. apply convert_ok; auto.
  - (* join *)
    apply andb_true_iff in Hh as [Hl Hh]. apply andb_true_iff in Hh as [Hrr Hon].
    unfold run_step. rewrite (get_agree e e' l He Hl), (get_agree e e' r He Hrr).
    destruct l as [b n]. simpl in Hl. subst b. destruct r as [b m]. simpl in Hrr. subst b.
    destruct (get e' (true, n)) as [fl0|] eqn:El; [|simpl; auto].
    destruct (get e' (true, m)) as [fr|] eqn:Er; [|simpl; auto].
    pose proof (wrap_ok (op_from g) fl0 (Hok n fl0 El)) as Hw.
    destruct (wrap g (op_from g) fl0) as [fl new]. simpl in Hw. cbv beta iota.
    assert (Hfr : fids_ok fr) by (apply (Hok m fr Er)).
    set (on1 := match on with
                | OnExpr a b => match resolve_h e a, resolve_h e b with Some ca, Some cb => inl (Some (ca, cb)) | _, _ => inl None end
                | OnNames cs => inr cs end).
    set (on2 := match on with
                | OnExpr a b => match resolve_h e' a, resolve_h e' b with Some ca, Some cb => inl (Some (ca, cb)) | _, _ => inl None end
                | OnNames cs => inr cs end).
    assert (E12 : on1 = on2).
    { unfold on1, on2. destruct on as [a b|cs]; auto.
      rewrite forallb_app in Hon. apply andb_true_iff in Hon as [Ha Hb].
      rewrite (resolve_h_agree e e' a He Ha), (resolve_h_agree e e' b He Hb). reflexivity. }
    rewrite E12.
    rewrite (join_model_agree (rg s) (rg s') d fl fr on2 Hr Hw Hfr).
    + cbv zeta. destruct (join_model g (rg s') d fl fr on2) as [f|] eqn:Ej; cbn [fst snd]; four; auto;
        try (apply step_rel_counter; auto); try exact I.
      cbn [bind_ok]. eapply join_model_ok; eauto.
    + intros ca cb E. unfold on2 in E. destruct on as [a b|cs]; [|discriminate].
      rewrite forallb_app in Hon. apply andb_true_iff in Hon as [Ha Hb].
      destruct (resolve_h e' a) as [ca0|] eqn:Ea; [|discriminate].
      destruct (resolve_h e' b) as [cb0|] eqn:Eb; [|discriminate].
      inversion E; subst. split; [apply (resolve_h_ok e' a _ Hok Ha Ea)|apply (resolve_h_ok e' b _ Hok Hb Eb)].
  - (* view *)
    rewrite andb_true_r in Hh.
    unfold run_step. rewrite (get_agree e e' src He Hh).
    destruct src as [b n]. simpl in Hh. subst b.
    destruct (get e' (true, n)) as [f|] eqn:Ef; [|simpl; auto].
    cbv beta iota. four; [reflexivity|reflexivity| |exact I].
    cbn [fst snd]. constructor; unfold vagree, views_ok; cbn [rg views scache]; auto.
    + intros v0 Hp. destruct (Hvw v0 Hp) as [A B].
      destruct (String.eqb v v0) eqn:E.
      * apply String.eqb_eq in E. subst v0. rewrite !lookup_cons_eq. split; auto. apply cache_add_same; auto.
      * rewrite !lookup_cons_neq by auto. rewrite !cache_add_other by auto. auto.
    + intros v0 f1 Hp Hl. destruct (String.eqb v v0) eqn:E.
      * apply String.eqb_eq in E. subst v0. rewrite lookup_cons_eq in Hl. inversion Hl; subst.
        apply convert_ok; [apply (Hok n f Ef)|apply (Hok n f Ef)].
      * rewrite lookup_cons_neq in Hl by auto. eapply Hvok; eauto.
  - (* sql *)
    unfold run_step. assert (Hp : PV v = true) by (apply Hv; simpl; auto).
    destruct (Hvw v Hp) as [A B]. rewrite A, B.
    destruct (lookup (views s') v) as [vf|] eqn:El; [|simpl; auto].
    pose proof (Hvok v vf Hp El) as Hvf. cbv zeta.
    destruct (sql_sel cols (lookup (scache s') v) (sel_names vf)) as [l|]; [|simpl; auto].
    destruct (last (map Some (f_ctes vf)) None) as [vc|]; [|simpl; auto].
    cbn [fst snd]. four; auto.
    + apply step_rel_regs; auto. apply ragree_seq, ragree_branch; auto.
    + cbn [bind_ok]. apply convert_ok; auto. unfold fids_ok; cbn [f_ctes f_br f_sq]. split; [apply Hvf|split; apply Hd].
  - (* action *)
    rewrite andb_true_r in Hh. unfold run_step. rewrite (get_agree e e' src He Hh).
    destruct (get e' src); simpl; auto.
  - (* schema *)
    rewrite andb_true_r in Hh. unfold run_step. rewrite (get_agree e e' src He Hh).
    destruct (get e' src); cbn [fst snd]; four; auto; try exact I.
    constructor; cbn [rg views scache]; auto. apply ragree_known; auto.
  - (* bad *)
    rewrite andb_true_r in Hh. unfold run_step. rewrite (get_agree e e' src He Hh).
    destruct k; destruct (get e' src); try destruct (wrap g (op_from g) f); cbn [fst snd]; four; auto; try exact I.
    all: try (apply step_rel_counter; auto).
    all: try (apply step_rel_regs; auto).
    all: try (apply ragree_alias, ragree_seq; auto).
    all: try (apply ragree_seq, ragree_branch; auto).
Qed.

Lemma obs_of_app_P (l : list (bool * obs)) o :
  map snd (filter (fun p : bool * obs => Bool.eqb (fst p) true) (l ++ [(true, o)])) =
  map snd (filter (fun p : bool * obs => Bool.eqb (fst p) true) l) ++ [o].
Proof. rewrite filter_app, map_app. reflexivity. Qed.

Lemma step_P w w' e :
  inv w w' -> who e = true -> reads_own e = true -> (forall k, PID (dr e k)) ->
  (forall v, In v (vreads (op e)) -> PV v = true) ->
  inv (run_ev g w e) (run_ev g w' e).
Proof.
  intros [He Hok Hr Hv Hvok Ho] Hw Hro Hd Hvr.
  unfold reads_own in Hro. rewrite Hw in Hro.
  pose proof (run_step_P (w_st w) (w_st w') (w_env w) (w_env w') (dr e) (op e)
                (mkRel _ _ Hr Hv Hvok) He Hok Hro Hd Hvr) as H.
  cbv zeta in H. unfold run_ev.
  destruct (run_step g (w_st w) (w_env w) (dr e) (op e)) as [[s1 b] o].
  destruct (run_step g (w_st w') (w_env w') (dr e) (op e)) as [[s1' b'] o'].
  cbn [fst snd] in H. destruct H as [Eb [Eo [[R1 R2 R3] Hb]]]. subst b' o'.
  constructor; cbn [w_st w_env w_obs]; auto.
  - intros n. destruct b as [[dst f]|]; auto. rewrite Hw. rewrite !get_cons_P. destruct (Nat.eqb dst n); auto.
  - intros n f0 Hg. destruct b as [[dst f]|]; [|eapply Hok; eauto].
    rewrite Hw in Hg. rewrite get_cons_P in Hg. destruct (Nat.eqb dst n).
    + inversion Hg; subst. exact Hb.
    + eapply Hok; eauto.
  - unfold obs_of in *. cbn [w_obs]. destruct o as [o|]; auto.
    rewrite Hw. rewrite !obs_of_app_P. rewrite Ho. reflexivity.
Qed.

Definition ev_ok (e : ev) : Prop :=
  if who e
  then reads_own e = true /\ (forall k, PID (dr e k)) /\ (forall v, In v (vreads (op e)) -> PV v = true)
  else (forall k, nonP (dr e k)) /\ (forall v, In v (vwrites (op e)) -> PV v = false).

Theorem projection_inv : forall l w w',
  inv w w' -> Forall ev_ok l -> inv (run_from g w l) (run_from g w' (filter who l)).
Proof.
  induction l as [|e l IH]; intros w w' Hi Hl; simpl; auto.
  inversion Hl as [|? ? He Hl']; subst. unfold ev_ok in He.
  destruct (who e) eqn:Hw; simpl.
  - destruct He as [A [B C]]. apply IH; auto. apply step_P; auto.
  - destruct He as [A B]. apply IH; auto. apply step_H; auto.
Qed.

Lemma inv0 : inv w0 w0.
Proof.
  constructor; simpl; auto.
  - intros n. reflexivity.
  - intros n f H. discriminate.
  - apply ragree_refl.
  - intros v _. auto.
  - intros v f _ H. discriminate.
Qed.

End NI.

(* ---------------------------------------------------------------- the theorem *)
Lemma mem_str_In x l : mem_str x l = true <-> In x l.
Proof.
  unfold mem_str. rewrite existsb_exists. split.
  - intros [y [Hy E]]. apply String.eqb_eq in E. subst; auto.
  - intros H. exists x. split; auto. apply String.eqb_refl.
Qed.

Theorem non_interference : forall g l,
  alias_scoped g = true -> fresh_PH l -> independent l = true ->
  obs_of true (run g l) = obs_of true (run g (filter who l)).
Proof.
  intros g l Hg Hf Hi.
  set (PID := fun i => exists e k, In e l /\ who e = true /\ dr e k = i).
  set (PV := fun v => mem_str v (preads l)).
  assert (H : Forall (ev_ok PID PV) l).
  { unfold independent in Hi. apply andb_true_iff in Hi as [H1 H2].
    rewrite forallb_forall in H1, H2. apply Forall_forall. intros e He. unfold ev_ok.
    destruct (who e) eqn:Hw.
    - split; [apply H1; auto|]. split.
      + intros k. exists e, k. auto.
      + intros v Hv. unfold PV. apply mem_str_In. unfold preads. apply in_flat_map. exists e. rewrite Hw. auto.
    - split.
      + intros k [e1 [k1 [Hin [Hw1 E]]]]. apply (Hf e1 e k1 k Hin He Hw1 Hw E).
      + intros v Hv. unfold PV. destruct (mem_str v (preads l)) eqn:E; auto.
        apply mem_str_In in E. pose proof (H2 v E) as H3. apply negb_true_iff in H3.
        assert (Hin : In v (hwrites l)).
        { unfold hwrites. apply in_flat_map. exists e. rewrite Hw. auto. }
        apply mem_str_In in Hin. congruence. }
  eapply i_obs. apply (projection_inv g Hg PID PV l w0 w0); [apply inv0|exact H].
Qed.
