(** C18 -- the policy the regenerated table of registry accesses must satisfy for the session model of
    C18.Compile to cover the code: who may read and who may write each registry, and in which way
    (append-only ids and aliases, a counter touched only by its property, views stored only by
    createOrReplaceTempView).  The table itself is Gen.C18Facts.registry_accesses. *)
From Coq Require Import List String Bool.
Import ListNotations.
Open Scope string_scope.

Definition access := (string * string * string)%type.      (* function, registry, kind of access *)

Definition one_of (x : string) (l : list string) : bool := existsb (String.eqb x) l.

Definition access_ok (a : access) : bool :=
  let '(f, r, k) := a in
  if one_of r ["known_ids"; "known_branch_ids"; "known_sequence_ids"] then
    (String.eqb k "init" && String.eqb f "_BaseSession.__init__")
    || (String.eqb k "member" && String.eqb f "normalize.replace_branch_and_sequence_ids_with_cte_name"
        && one_of r ["known_ids"; "known_branch_ids"])
    || (String.eqb k "add" &&
        ((String.eqb r "known_ids" && String.eqb f "_BaseSession._random_id")
         || (String.eqb r "known_branch_ids" && String.eqb f "_BaseSession._random_branch_id")
         || (String.eqb r "known_sequence_ids" && String.eqb f "_BaseSession._random_sequence_id")))
  else if String.eqb r "name_to_sequence_id_mapping" then
    (String.eqb k "init" && String.eqb f "_BaseSession.__init__")
    || (one_of k ["member"; "index"] &&
        one_of f ["normalize.replace_alias_name_with_cte_name"; "BaseDataFrame._resolve_pending_hints"])
    || (String.eqb k "append" && String.eqb f "_BaseSession._add_alias_to_mapping")
  else if String.eqb r "incrementing_id" then
    (String.eqb k "init" && String.eqb f "_BaseSession.__init__")
    || (one_of k ["read"; "incr"] && String.eqb f "_BaseSession._auto_incrementing_name")
  else if String.eqb r "temp_views" then
    (String.eqb k "init" && String.eqb f "_BaseSession.__init__")
    || String.eqb k "df_attr"
    || one_of k ["get"; "keys"; "truth"; "iter"; "member"; "index"; "items"; "values"]
    || (String.eqb k "store" && String.eqb f "BaseDataFrame.createOrReplaceTempView")
  else if String.eqb r "_random_id" then
    String.eqb k "draw" &&
    one_of f ["_BaseSession._random_branch_id"; "_BaseSession._random_sequence_id";
              "TypedColumnsFromTempViewMixin._typed_columns"]
  else if String.eqb r "_random_branch_id" then
    String.eqb k "draw" && String.eqb f "BaseDataFrame.__init__"
  else if String.eqb r "_random_sequence_id" then
    String.eqb k "draw" && one_of f ["BaseDataFrame.__init__"; "BaseDataFrame.alias"]
  else if String.eqb r "_auto_incrementing_name" then
    String.eqb k "draw" && one_of f ["_BaseSession.createDataFrame"; "BaseDataFrame._add_ctes_to_expression"]
  else if String.eqb r "_add_alias_to_mapping" then
    String.eqb k "call" && String.eqb f "BaseDataFrame.alias"
  else false.

Definition access_eqb (a b : access) : bool :=
  let '(f, r, k) := a in let '(f', r', k') := b in String.eqb f f' && String.eqb r r' && String.eqb k k'.

(** accesses without which the model would describe nothing *)
Definition required : list access := [
  ("_BaseSession._random_id", "known_ids", "add");
  ("_BaseSession._random_branch_id", "known_branch_ids", "add");
  ("_BaseSession._random_sequence_id", "known_sequence_ids", "add");
  ("_BaseSession._add_alias_to_mapping", "name_to_sequence_id_mapping", "append");
  ("normalize.replace_alias_name_with_cte_name", "name_to_sequence_id_mapping", "index");
  ("normalize.replace_branch_and_sequence_ids_with_cte_name", "known_ids", "member");
  ("BaseDataFrame.createOrReplaceTempView", "temp_views", "store");
  ("_BaseSession.sql", "temp_views", "get");
  ("BaseDataFrame.alias", "_add_alias_to_mapping", "call")
].

Definition accesses_ok (t : list access) : bool :=
  forallb access_ok t && forallb (fun q => existsb (access_eqb q) t) required.

(** session accessors: only the catalog (whose schema cache is session state by design) and the DB-API cursor may be
    cached; every accessor that hands out a builder with state (`read`), a per-call wrapper (`udf`) or draws a fresh
    value must be a plain property, so that nothing an earlier call chain set stays in force for a later one *)
Definition accessor_ok (a : string * string) : bool :=
  let '(n, k) := a in
  String.eqb k "property" ||
  (String.eqb k "cached_property" && one_of n ["_BaseSession.catalog"; "_BaseSession._cur"; "DuckDBSession._cur"]).

Definition accessors_ok (t : list (string * string)) : bool :=
  forallb accessor_ok t &&
  forallb (fun n => existsb (fun a => String.eqb (fst a) n && String.eqb (snd a) "property") t)
          ["_BaseSession.read"; "_BaseSession._random_id"; "_BaseSession._random_branch_id";
           "_BaseSession._random_sequence_id"; "_BaseSession._auto_incrementing_name"].

(** temporary views / tables that a reader or writer of ANY engine creates must be named freshly on every call (random
    identifier, uuid, session counter): a name that is a function of the arguments only makes a second read of the same
    source replace the object an earlier DataFrame still points to *)
Definition temp_names_ok (t : list (string * string)) : bool :=
  forallb (fun a => String.eqb (snd a) "fresh") t &&
  existsb (fun a => String.eqb (fst a) "spark/readwriter.SparkDataFrameReader.load:tmp_view_key") t.

(** what [accesses_ok] buys, stated: every write to an id registry is an [add] made by its own property, every write
    to the alias map an [append] made by [_add_alias_to_mapping] -- the registries are append-only *)
Lemma accesses_ok_append_only t : accesses_ok t = true ->
  forall f r k, In (f, r, k) t ->
  one_of r ["known_ids"; "known_branch_ids"; "known_sequence_ids"; "name_to_sequence_id_mapping"] = true ->
  one_of k ["init"; "member"; "index"; "add"; "append"] = true.
Proof.
  intros H f r k Hin Hr. unfold accesses_ok in H. apply andb_true_iff in H as [H _].
  rewrite forallb_forall in H. specialize (H _ Hin). unfold access_ok in H.
  destruct (one_of r ["known_ids"; "known_branch_ids"; "known_sequence_ids"]) eqn:E1.
  - repeat (apply orb_true_iff in H as [H|H]); repeat (apply andb_true_iff in H as [H ?]);
      apply String.eqb_eq in H; subst k; reflexivity.
  - destruct (String.eqb r "name_to_sequence_id_mapping") eqn:E2.
    + repeat (apply orb_true_iff in H as [H|H]); repeat (apply andb_true_iff in H as [H ?]).
      * apply String.eqb_eq in H; subst k; reflexivity.
      * unfold one_of in H. simpl in H. repeat (apply orb_true_iff in H as [H|H]); try discriminate;
          apply String.eqb_eq in H; subst k; reflexivity.
      * apply String.eqb_eq in H; subst k; reflexivity.
    + exfalso. unfold one_of in Hr, E1. simpl in Hr, E1. rewrite E2 in Hr.
      repeat (apply orb_false_iff in E1 as [? E1]). 
      repeat (apply orb_true_iff in Hr as [Hr|Hr]); congruence.
Qed.
