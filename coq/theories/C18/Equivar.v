(** C18 -- equivariance: renaming the fresh values a trace draws by an injective function renames the whole run
    (session, frames, observations) and changes nothing else.  Consequences: the SQL text of a program built in
    two sessions with different random ids is the same up to that renaming; text without fresh atoms is identical. *)
From Coq Require Import List String ZArith Bool Arith Lia.
From SF Require Import C18.Session C18.Compile.
Import ListNotations.
Open Scope list_scope.

(* ---------------------------------------------------------------- generic list lemmas *)
Lemma find_map {A B} (r : A -> B) (f : A -> bool) (f' : B -> bool) l :
  (forall a, f' (r a) = f a) -> find f' (map r l) = option_map r (find f l).
Proof.
  intros H. induction l as [|a l IH]; simpl; auto. rewrite H. destruct (f a); auto.
Qed.

Lemma filter_map_comm {A B} (r : A -> B) (f : A -> bool) (f' : B -> bool) l :
  (forall a, f' (r a) = f a) -> filter f' (map r l) = map r (filter f l).
Proof.
  intros H. induction l as [|a l IH]; simpl; auto. rewrite H. destruct (f a); simpl; congruence.
Qed.

Lemma existsb_map {A B} (r : A -> B) (f : A -> bool) (f' : B -> bool) l :
  (forall a, f' (r a) = f a) -> existsb f' (map r l) = existsb f l.
Proof. intros H. induction l as [|a l IH]; simpl; auto. rewrite H, IH. reflexivity. Qed.

Lemma last_map {A B} (r : A -> B) l d : last (map r l) (r d) = r (last l d).
Proof. induction l as [|a [|b l] IH]; simpl in *; auto. Qed.

Lemma last_map_some {A B} (r : A -> B) l :
  last (map Some (map r l)) None = option_map r (last (map Some l) None).
Proof. induction l as [|a [|b l] IH]; simpl in *; auto. Qed.

Lemma nth_error_map_r {A B} (r : A -> B) l n : nth_error (map r l) n = option_map r (nth_error l n).
Proof. revert n. induction l; destruct n; simpl; auto. Qed.

Section Ren.
Variable p : nat -> nat.       (* renaming of random ids, uuid literals, join uuids *)
Variable pc : nat -> nat.      (* renaming of the VALUES alias numbers *)
Hypothesis p_inj : forall a b, p a = p b -> a = b.
Hypothesis pc_inj : forall a b, pc a = pc b -> a = b.

(** the draws of a step under the renaming: slot 3 and the even slots from 6 on are VALUES alias numbers *)
Definition is_ctr_slot (k : nat) : bool := Nat.eqb k 3 || (Nat.leb 6 k && Nat.even k).
Definition rd (d : nat -> nat) : nat -> nat := fun k => if is_ctr_slot k then pc (d k) else p (d k).

Lemma slot_uu j : is_ctr_slot (5 + 2 * j) = false.
Proof.
  unfold is_ctr_slot. replace (Nat.even (5 + 2 * j)) with false by (rewrite Nat.even_add_mul_2; reflexivity).
  rewrite andb_false_r. reflexivity.
Qed.
Lemma slot_ct j : is_ctr_slot (6 + 2 * j) = true.
Proof.
  unfold is_ctr_slot. replace (Nat.even (6 + 2 * j)) with true by (rewrite Nat.even_add_mul_2; reflexivity).
  reflexivity.
Qed.
Lemma rd_uu d j : rd d (5 + 2 * j) = p (d (5 + 2 * j)).
Proof. unfold rd. rewrite slot_uu. reflexivity. Qed.
Lemma rd_ct d j : rd d (6 + 2 * j) = pc (d (6 + 2 * j)).
Proof. unfold rd. rewrite slot_ct. reflexivity. Qed.

Lemma p_eqb a b : Nat.eqb (p a) (p b) = Nat.eqb a b.
Proof.
  destruct (Nat.eqb a b) eqn:E.
  - apply Nat.eqb_eq in E. subst. apply Nat.eqb_refl.
  - apply Nat.eqb_neq. intros H. apply p_inj in H. apply Nat.eqb_neq in E. auto.
Qed.
Lemma pc_eqb a b : Nat.eqb (pc a) (pc b) = Nat.eqb a b.
Proof.
  destruct (Nat.eqb a b) eqn:E.
  - apply Nat.eqb_eq in E. subst. apply Nat.eqb_refl.
  - apply Nat.eqb_neq. intros H. apply pc_inj in H. apply Nat.eqb_neq in E. auto.
Qed.

(* ---------------------------------------------------------------- renaming *)
Definition r_atom (a : atom) : atom :=
  match a with AId n => AId (p n) | AUu n => AUu (p n) | ACt n => ACt (pc n) | AS s => AS s | AN n => AN n end.
Fixpoint r_tx (t : tx) : tx :=
  match t with TNil => TNil | TA a => TA (r_atom a) | TRef n => TRef (r_tx n) | TCat l r => TCat (r_tx l) (r_tx r) end.

Lemma r_atom_eqb a b : atom_eqb (r_atom a) (r_atom b) = atom_eqb a b.
Proof. destruct a, b; simpl; auto using p_eqb, pc_eqb. Qed.

Lemma r_tx_eqb a : forall b, tx_eqb (r_tx a) (r_tx b) = tx_eqb a b.
Proof.
  induction a as [|x|x IH|x1 IH1 x2 IH2]; intros [|y|y|y1 y2]; simpl; auto using r_atom_eqb.
  rewrite IH1, IH2. reflexivity.
Qed.

Lemma mem_nat_map x l : mem_nat (p x) (map p l) = mem_nat x l.
Proof. unfold mem_nat. apply existsb_map. intros a. apply p_eqb. Qed.

Lemma mem_tx_map x l : mem_tx (r_tx x) (map r_tx l) = mem_tx x l.
Proof. unfold mem_tx. apply existsb_map. intros a. apply r_tx_eqb. Qed.

Definition r_cte (c : cte) : cte := mkCte (r_tx (c_name c)) (p (c_br c)) (p (c_sq c)) (c_cols c) (r_tx (c_body c)).
Definition r_regs (r : regs) : regs :=
  mkRegs (map p (known r)) (map p (kbranch r)) (map p (kseq r)) (map (fun x => (fst x, p (snd x))) (amap r)).
Definition r_ident (d : ident) : ident := match d with IName s => IName s | IId i => IId (p i) end.
Definition r_res (r : res) : res := match r with Keep => Keep | Found nm => Found (r_tx nm) | Err => Err end.
Definition r_ctx (x : rctx) : rctx := mkCtx (map r_cte (x_ctes x)) (map r_tx (x_tables x)).

Lemma amap_has_r r s : amap_has (r_regs r) s = amap_has r s.
Proof. unfold amap_has. simpl. apply existsb_map. auto. Qed.

Lemma amap_ids_r r s : amap_ids (r_regs r) s = map p (amap_ids r s).
Proof.
  unfold amap_ids. simpl.
  rewrite (filter_map_comm (fun x : string * nat => (fst x, p (snd x))) (fun q => String.eqb (fst q) s)) by auto.
  rewrite !map_map. reflexivity.
Qed.

Lemma resolve_alias_r sc r x s :
  resolve_alias sc (r_regs r) (r_ctx x) s = r_res (resolve_alias sc r x s).
Proof.
  unfold resolve_alias. rewrite amap_has_r. destruct (amap_has r s); auto.
  destruct sc.
  - simpl. rewrite <- map_rev.
    rewrite (find_map r_cte (fun c => mem_nat (c_sq c) (amap_ids r s))).
    + destruct (find _ (rev (x_ctes x))); reflexivity.
    + intros c. simpl. rewrite amap_ids_r. apply mem_nat_map.
  - simpl. rewrite <- map_rev. destruct (rev (x_ctes x)); reflexivity.
Qed.

Lemma scan_ids_r x i : scan_ids (r_ctx x) (p i) = r_res (scan_ids x i).
Proof.
  unfold scan_ids. simpl. rewrite <- map_rev.
  rewrite (find_map r_cte (fun c => Nat.eqb i (c_br c) || Nat.eqb i (c_sq c))).
  - destruct (find _ (rev (x_ctes x))); reflexivity.
  - intros c. simpl. rewrite !p_eqb. reflexivity.
Qed.

Lemma resolve_id_r r x i : resolve_id (r_regs r) (r_ctx x) (p i) = r_res (resolve_id r x i).
Proof.
  unfold resolve_id. simpl (known (r_regs r)). simpl (kbranch (r_regs r)). rewrite !mem_nat_map.
  destruct (mem_nat i (known r)); auto.
  replace (match x_tables (r_ctx x) with [] => true | _ :: _ => false end)
    with (match x_tables x with [] => true | _ :: _ => false end) by (simpl; destruct (x_tables x); reflexivity).
  destruct (negb _ && mem_nat i (kbranch r)); [|apply scan_ids_r].
  simpl (x_ctes (r_ctx x)). simpl (x_tables (r_ctx x)).
  rewrite (filter_map_comm r_cte (fun c => mem_tx (c_name c) (x_tables x))) by (intros c; simpl; apply mem_tx_map).
  destruct (filter _ (x_ctes x)) as [|c0 [|c1 rest]]; simpl; auto.
  rewrite p_eqb. destruct (Nat.eqb (c_br c0) (c_br c1)); [|apply scan_ids_r].
  destruct rest; reflexivity.
Qed.

Lemma resolve_r sc r x d : resolve sc (r_regs r) (r_ctx x) (r_ident d) = r_res (resolve sc r x d).
Proof. destruct d; simpl; [apply resolve_alias_r|apply resolve_id_r]. Qed.

(* ---------------------------------------------------------------- columns and frames *)
Definition r_qual (k : qual) : qual := match k with QNone => QNone | QKeep x => QKeep (r_ident x) | QCte nm => QCte (r_tx nm) end.
Definition r_col (c : col) : col := mkCol (r_qual (q c)) (cn c) (option_map r_tx (cap c)) (option_map p (cju c)).
Definition r_source (s : source) : source :=
  match s with SrcValues t c => SrcValues t (pc c) | SrcCte nm => SrcCte (r_tx nm) | SrcCteAs nm v => SrcCteAs (r_tx nm) v end.
Definition r_pair (x : col * col) : col * col := (r_col (fst x), r_col (snd x)).
Definition r_join (j : tx * list (col * col)) : tx * list (col * col) := (r_tx (fst j), map r_pair (snd j)).
Definition r_pred (x : col * Z) : col * Z := (r_col (fst x), snd x).
Definition r_frame (f : frame) : frame :=
  mkFrame (map r_cte (f_ctes f)) (r_source (f_src f)) (map r_join (f_joins f)) (map r_pred (f_where f))
          (map r_col (f_sel f)) (p (f_br f)) (p (f_sq f)) (p (f_ju f)) (map p (f_ku f)) (f_last f) (f_ok f).

Lemma r_cat l : r_tx (cat l) = cat (map r_tx l).
Proof. induction l; simpl; congruence. Qed.

Lemma render_col_r c : render_col (r_col c) = r_tx (render_col c).
Proof.
  unfold render_col. simpl. destruct (q c) as [|[s|i]|nm]; destruct (cap c); reflexivity.
Qed.

Lemma render_src_r s : render_src (r_source s) = r_tx (render_src s).
Proof. destruct s; reflexivity. Qed.

Lemma map_render_col_r l : map render_col (map r_col l) = map r_tx (map render_col l).
Proof. rewrite !map_map. apply map_ext. intros. apply render_col_r. Qed.

Lemma render_on_r x : render_on (r_pair x) = r_tx (render_on x).
Proof. unfold render_on. simpl. rewrite !render_col_r. reflexivity. Qed.

Lemma render_join_r j : render_join (r_join j) = r_tx (render_join j).
Proof.
  unfold render_join. simpl. rewrite r_cat. rewrite !map_map.
  rewrite (map_ext (fun x => render_on (r_pair x)) (fun x => r_tx (render_on x))) by (intros; apply render_on_r).
  reflexivity.
Qed.

Lemma render_pred_r x : render_pred (r_pred x) = r_tx (render_pred x).
Proof. unfold render_pred. simpl. rewrite render_col_r. reflexivity. Qed.

Lemma render_leaf_r f : render_leaf (r_frame f) = r_tx (render_leaf f).
Proof.
  unfold render_leaf. simpl. rewrite !r_cat. rewrite render_src_r. rewrite !map_map.
  rewrite (map_ext (fun x => render_col (r_col x)) (fun x => r_tx (render_col x))) by (intros; apply render_col_r).
  rewrite (map_ext (fun x => render_join (r_join x)) (fun x => r_tx (render_join x))) by (intros; apply render_join_r).
  rewrite (map_ext (fun x => render_pred (r_pred x)) (fun x => r_tx (render_pred x))) by (intros; apply render_pred_r).
  reflexivity.
Qed.

Lemma col_out_r c : col_out (r_col c) = col_out c.
Proof. unfold col_out. simpl. destruct (cap c); reflexivity. Qed.

Lemma sel_names_r f : sel_names (r_frame f) = sel_names f.
Proof. unfold sel_names. simpl. rewrite map_map. apply map_ext. intros. apply col_out_r. Qed.

Lemma plain_r s : r_col (plain s) = plain s.
Proof. reflexivity. Qed.
Lemma map_plain_r l : map r_col (map plain l) = map plain l.
Proof. rewrite map_map. reflexivity. Qed.

Lemma src_name_r s : src_name (r_source s) = map r_tx (src_name s).
Proof. destruct s; reflexivity. Qed.

Lemma tables_r f : tables (r_frame f) = map r_tx (tables f).
Proof.
  unfold tables. simpl. destruct (f_joins f); simpl; auto.
  rewrite src_name_r, map_app. simpl. rewrite !map_map. reflexivity.
Qed.

Lemma ctx_of_r f : ctx_of (r_frame f) = r_ctx (ctx_of f).
Proof. unfold ctx_of, r_ctx. simpl. rewrite tables_r. reflexivity. Qed.

Lemma convert_r f s : convert (r_frame f) (p s) = r_frame (convert f s).
Proof.
  unfold convert. rewrite render_leaf_r, sel_names_r. unfold r_frame. simpl.
  rewrite map_app. simpl. rewrite map_plain_r. reflexivity.
Qed.

Lemma set_last_r f z : set_last (r_frame f) z = r_frame (set_last f z).
Proof. reflexivity. Qed.

Lemma wrap_r g o f : wrap g o (r_frame f) = (r_frame (fst (wrap g o f)), snd (wrap g o f)).
Proof.
  unfold wrap.
  set (f1 := if Z.eqb (f_last f) (op_init g) then set_last (convert f (f_sq f)) (op_noop g) else f).
  assert (E : (if Z.eqb (f_last (r_frame f)) (op_init g)
               then set_last (convert (r_frame f) (f_sq (r_frame f))) (op_noop g) else r_frame f) = r_frame f1).
  { unfold f1. change (f_last (r_frame f)) with (f_last f). change (f_sq (r_frame f)) with (p (f_sq f)).
    destruct (Z.eqb (f_last f) (op_init g)); auto. rewrite convert_r. apply set_last_r. }
  rewrite E. change (f_last (r_frame f1)) with (f_last f1). change (f_sq (r_frame f1)) with (p (f_sq f1)).
  cbn [fst snd]. destruct (wrap_needed g _ _); auto. rewrite convert_r. reflexivity.
Qed.


(* ---------------------------------------------------------------- normalisation *)
Lemma all_some_map_r {A} (r : A -> A) (l : list (option A)) :
  all_some (map (option_map r) l) = option_map (map r) (all_some l).
Proof.
  induction l as [|[a|] l IH]; simpl; auto. rewrite IH. destruct (all_some l); reflexivity.
Qed.

Arguments resolve : simpl never.

Lemma norm_q_r g r x k : norm_q g (r_regs r) (r_ctx x) (r_qual k) = option_map r_qual (norm_q g r x k).
Proof.
  destruct k as [|d|nm]; auto.
  unfold norm_q. cbn [r_qual]. rewrite resolve_r. destruct (resolve (alias_scoped g) r x d); reflexivity.
Qed.

Lemma norm_cap_r g r x c :
  norm_cap g (r_regs r) (r_ctx x) (r_col c) = option_map (option_map r_tx) (norm_cap g r x c).
Proof.
  unfold norm_cap. cbn [cap cn r_col]. destruct (cap c); auto. cbn [option_map].
  pose proof (resolve_r (alias_scoped g) r x (IName (cn c))) as R. cbn [r_ident] in R. rewrite R.
  destruct (resolve (alias_scoped g) r x (IName (cn c))); reflexivity.
Qed.

Lemma norm_col_r g r x c :
  norm_col g (r_regs r) (r_ctx x) (r_col c) = option_map r_col (norm_col g r x c).
Proof.
  unfold norm_col. rewrite norm_cap_r. change (q (r_col c)) with (r_qual (q c)). rewrite norm_q_r.
  destruct (norm_q g r x (q c)); destruct (norm_cap g r x c); reflexivity.
Qed.

Lemma ctes_with_r f c : ctes_with (r_frame f) c = map r_cte (ctes_with f c).
Proof.
  unfold ctes_with. simpl (f_ctes (r_frame f)). rewrite tables_r.
  apply filter_map_comm. intros k. simpl. rewrite mem_tx_map. reflexivity.
Qed.

Lemma ambig1_r f m c : ambig1 (r_frame f) m (r_col c) = (r_col (fst (ambig1 f m c)), snd (ambig1 f m c)).
Proof.
  unfold ambig1. rewrite col_out_r. simpl (q (r_col c)). simpl (cap (r_col c)). simpl (cn (r_col c)). simpl (cju (r_col c)).
  simpl (f_joins (r_frame f)).
  destruct (q c) as [|d|nm]; simpl; auto.
  destruct (f_joins f) as [|j js]; simpl; auto.
  rewrite ctes_with_r. rewrite nth_error_map_r.
  destruct (nth_error (ctes_with f (col_out c)) (pos_of m (col_out c))) as [k|]; simpl; auto.
  destruct (pos_of m (col_out c)) as [|p'].
  - rewrite last_map_some. destruct (last (map Some (ctes_with f (col_out c))) None); reflexivity.
  - rewrite nth_error_map_r. destruct (nth_error (ctes_with f (col_out c)) p'); reflexivity.
Qed.

Lemma ambig_r f cs : forall m, ambig (r_frame f) m (map r_col cs) = map r_col (ambig f m cs).
Proof.
  induction cs as [|c t IH]; intros m; simpl; auto.
  rewrite ambig1_r. destruct (ambig1 f m c) as [c' m']. simpl. rewrite IH. reflexivity.
Qed.

Lemma ensure_cols_r g r x f cs :
  ensure_cols g (r_regs r) (r_ctx x) (r_frame f) (map r_col cs) = option_map (map r_col) (ensure_cols g r x f cs).
Proof.
  unfold ensure_cols. rewrite map_map.
  rewrite (map_ext (fun c => norm_col g (r_regs r) (r_ctx x) (r_col c)) (fun c => option_map r_col (norm_col g r x c)))
    by (intros; apply norm_col_r).
  rewrite <- (map_map (norm_col g r x) (option_map r_col)). rewrite all_some_map_r.
  destruct (all_some (map (norm_col g r x) cs)); simpl; auto. rewrite ambig_r. reflexivity.
Qed.

(* ---------------------------------------------------------------- _add_ctes_to_expression *)
Definition r_map (m : list (tx * tx)) : list (tx * tx) := map (fun x => (r_tx (fst x), r_tx (snd x))) m.

Lemma subst_name_r m n : subst_name (r_map m) (r_tx n) = r_tx (subst_name m n).
Proof.
  unfold subst_name, r_map.
  rewrite (find_map (fun x : tx * tx => (r_tx (fst x), r_tx (snd x))) (fun q => tx_eqb (fst q) n))
    by (intros a; simpl; apply r_tx_eqb).
  destruct (find _ m); reflexivity.
Qed.

Lemma subst_r m t : subst (r_map m) (r_tx t) = r_tx (subst m t).
Proof.
  induction t as [|a|n IH|l IHl r IHr]; simpl; auto.
  - f_equal. apply subst_name_r.
  - rewrite IHl, IHr. reflexivity.
Qed.

Lemma with_uu_r body u : with_uu (r_tx body) (pc u) = r_tx (with_uu body u).
Proof. reflexivity. Qed.

Definition r_acc (a : acc) : acc :=
  mkAcc (map r_cte (a_out a)) (map r_tx (a_names a)) (r_map (a_map a)) (a_j a) (option_map r_tx (a_last a)) (a_nctr a).

Lemma is_marker_r t : is_marker (r_tx t) = is_marker t.
Proof. destruct t as [|[]| |]; reflexivity. Qed.

Lemma first_ctr_r t : first_ctr (r_tx t) = option_map pc (first_ctr t).
Proof.
  induction t as [|[]|n IH|l IHl r IHr]; simpl; auto.
  rewrite is_marker_r. destruct (is_marker l); auto.
  rewrite IHl, IHr. destruct (first_ctr l); reflexivity.
Qed.

Lemma subst_ctr_r o n t : subst_ctr (pc o) (pc n) (r_tx t) = r_tx (subst_ctr o n t).
Proof.
  induction t as [|[]|m IH|l IHl r IHr]; simpl; auto.
  - rewrite pc_eqb. destruct (Nat.eqb n0 o); reflexivity.
  - rewrite IHl, IHr. reflexivity.
Qed.

Lemma add_cte_r d a c :
  add_cte (rd d) (r_acc a) (r_cte c) = r_acc (add_cte d a c).
Proof.
  unfold add_cte. cbn [a_map a_names a_j a_out a_nctr r_acc c_name c_body c_br c_sq c_cols r_cte].
  rewrite subst_name_r, subst_r. rewrite mem_tx_map. rewrite !rd_ct.
  destruct (mem_tx (subst_name (a_map a) (c_name c)) (a_names a)).
  - rewrite first_ctr_r.
    destruct (first_ctr (subst (a_map a) (c_body c))) as [o|]; cbn [option_map].
    + rewrite subst_ctr_r. unfold r_acc. cbn [a_map a_names a_j a_out a_nctr a_last option_map].
      rewrite map_app. reflexivity.
    + unfold r_acc. cbn [a_map a_names a_j a_out a_nctr a_last option_map]. rewrite map_app. reflexivity.
  - unfold r_acc. cbn [a_map a_names a_j a_out a_nctr a_last option_map]. rewrite map_app. reflexivity.
Qed.

Lemma add_ctes_r d ex new :
  add_ctes (rd d) (map r_cte ex) (map r_cte new) = r_acc (add_ctes d ex new).
Proof.
  unfold add_ctes.
  assert (G : forall a, fold_left (add_cte (rd d)) (map r_cte new) (r_acc a) = r_acc (fold_left (add_cte d) new a)).
  { induction new as [|c t IH]; intros a; simpl; auto. rewrite add_cte_r. apply IH. }
  rewrite <- G. f_equal. unfold r_acc. simpl. rewrite !map_map. reflexivity.
Qed.

(* ---------------------------------------------------------------- join *)
Lemma minus_r a b : minus (map p a) (map p b) = map p (minus a b).
Proof.
  unfold minus. apply filter_map_comm. intros x. rewrite mem_nat_map. reflexivity.
Qed.

Lemma self_join_fix_r l r' oju latest c :
  self_join_fix (r_frame l) (r_frame r') (p oju) (r_tx latest) (r_col c) = r_col (self_join_fix l r' oju latest c).
Proof.
  unfold self_join_fix. cbn [f_br f_ku r_frame cju r_col]. rewrite p_eqb.
  destruct (Nat.eqb (f_br l) (f_br r')); auto.
  destruct (cju c) as [u|]; cbn [option_map]; auto.
  rewrite minus_r, mem_nat_map, p_eqb. destruct (mem_nat u (minus (f_ku r') (f_ku l)) || Nat.eqb u oju); reflexivity.
Qed.

Lemma join_frame_r l out jn onp ok :
  join_frame (r_frame l) (map r_cte out) (r_tx jn) (map r_pair onp) ok = r_frame (join_frame l out jn onp ok).
Proof. unfold join_frame, r_frame. simpl. rewrite map_app. reflexivity. Qed.

Lemma join_finish_r g r d l fj names :
  join_finish g (r_regs r) (rd d) (r_frame l) (r_frame fj) names = option_map r_frame (join_finish g r d l fj names).
Proof.
  unfold join_finish. rewrite ctx_of_r. rewrite <- (map_plain_r names) at 1. rewrite ensure_cols_r.
  destruct (ensure_cols g r (ctx_of fj) fj (map plain names)); reflexivity.
Qed.

Lemma join_pairs_r fj latest ncs :
  join_pairs (r_frame fj) (r_tx latest) (map r_col ncs) = option_map (map r_pair) (join_pairs fj latest ncs).
Proof.
  unfold join_pairs. cbv zeta. cbn [f_ctes r_frame]. rewrite tables_r.
  rewrite (filter_map_comm r_cte (fun k => mem_tx (c_name k) (tables fj) && negb (tx_eqb (c_name k) latest)))
    by (intros k; cbn [c_name r_cte]; rewrite mem_tx_map, r_tx_eqb; reflexivity).
  set (pot := filter _ (f_ctes fj)).
  rewrite map_map.
  rewrite (map_ext (fun nc => match cap (r_col nc), find (fun k => mem_str (cn (r_col nc)) (c_cols k)) (map r_cte pot) with
                              | None, Some k => Some (mkCol (QCte (c_name k)) (cn (r_col nc)) None None,
                                                      mkCol (QCte (r_tx latest)) (cn (r_col nc)) None None)
                              | _, _ => None end)
                   (fun nc => option_map r_pair
                                (match cap nc, find (fun k => mem_str (cn nc) (c_cols k)) pot with
                                 | None, Some k => Some (mkCol (QCte (c_name k)) (cn nc) None None,
                                                         mkCol (QCte latest) (cn nc) None None)
                                 | _, _ => None end))).
  - rewrite <- (map_map _ (option_map r_pair)). apply all_some_map_r.
  - intros nc. cbn [cap cn r_col].
    rewrite (find_map r_cte (fun k => mem_str (cn nc) (c_cols k))) by auto.
    destruct (cap nc); cbn [option_map]; auto.
    destruct (find _ pot); reflexivity.
Qed.

Definition r_on (on : option (col * col) + list string) : option (col * col) + list string :=
  match on with inl x => inl (option_map r_pair x) | inr cs => inr cs end.

Lemma a_out_r a : a_out (r_acc a) = map r_cte (a_out a). Proof. reflexivity. Qed.
Lemma a_last_r a : a_last (r_acc a) = option_map r_tx (a_last a). Proof. reflexivity. Qed.

Lemma join_model_r g r d l rt on :
  join_model g (r_regs r) (rd d) (r_frame l) (r_frame rt) (r_on on) = option_map r_frame (join_model g r d l rt on).
Proof.
  unfold join_model. cbv zeta.
  change (f_sq (r_frame rt)) with (p (f_sq rt)). rewrite convert_r.
  change (f_ctes (r_frame l)) with (map r_cte (f_ctes l)).
  change (f_ctes (r_frame (convert rt (f_sq rt)))) with (map r_cte (f_ctes (convert rt (f_sq rt)))).
  rewrite add_ctes_r. set (a := add_ctes d (f_ctes l) (f_ctes (convert rt (f_sq rt)))).
  rewrite a_out_r, a_last_r, last_map_some.
  destruct (last (map Some (a_out a)) None) as [jc|]; cbn [option_map]; auto.
  destruct (a_last a) as [latest|]; cbn [option_map]; auto.
  change (f_ok (r_frame l)) with (f_ok l). change (f_ok (r_frame rt)) with (f_ok rt).
  change (c_name (r_cte jc)) with (r_tx (c_name jc)).
  destruct on as [[[ca cb]|]|cs]; cbn [r_on option_map r_pair fst snd]; auto.
  - rewrite ctx_of_r. change [r_col ca; r_col cb] with (map r_col [ca; cb]). rewrite ensure_cols_r.
    destruct (ensure_cols g r (ctx_of l) l [ca; cb]) as [cs1|]; cbn [option_map]; auto.
    change (@nil (col * col)) with (map r_pair []). rewrite join_frame_r. rewrite ctx_of_r.
    rewrite map_map.
    change (f_ju (r_frame rt)) with (p (f_ju rt)).
    rewrite (map_ext (fun c => self_join_fix (r_frame l) (r_frame (convert rt (f_sq rt))) (p (f_ju rt)) (r_tx latest) (r_col c))
                     (fun c => r_col (self_join_fix l (convert rt (f_sq rt)) (f_ju rt) latest c)))
      by (intros; apply self_join_fix_r).
    rewrite <- (map_map _ r_col). rewrite ensure_cols_r.
    destruct (ensure_cols g r _ l (map (self_join_fix l (convert rt (f_sq rt)) (f_ju rt) latest) cs1)) as [[|ca' [|cb' [|]]]|];
      cbn [option_map map]; auto.
    change [(r_col ca', r_col cb')] with (map r_pair [(ca', cb')]). rewrite join_frame_r.
    rewrite !sel_names_r. apply join_finish_r.
  - rewrite ctx_of_r. rewrite <- (map_plain_r cs) at 1. rewrite ensure_cols_r.
    destruct (ensure_cols g r (ctx_of l) l (map plain cs)) as [ncs|]; cbn [option_map]; auto.
    change (@nil (col * col)) with (map r_pair []). rewrite join_frame_r. rewrite join_pairs_r.
    destruct (join_pairs _ latest ncs) as [ps|]; cbn [option_map]; auto.
    rewrite join_frame_r. rewrite !sel_names_r. apply join_finish_r.
Qed.

Lemma join_ctr_r d l rt : join_ctr (rd d) (r_frame l) (r_frame rt) = join_ctr d l rt.
Proof.
  unfold join_ctr. change (f_sq (r_frame rt)) with (p (f_sq rt)). rewrite convert_r.
  change (f_ctes (r_frame l)) with (map r_cte (f_ctes l)).
  change (f_ctes (r_frame (convert rt (f_sq rt)))) with (map r_cte (f_ctes (convert rt (f_sq rt)))).
  rewrite add_ctes_r. reflexivity.
Qed.

(* ---------------------------------------------------------------- session, environment, steps *)
Definition r_vf (x : string * frame) : string * frame := (fst x, r_frame (snd x)).
Definition r_hf (x : handle * frame) : handle * frame := (fst x, r_frame (snd x)).
Definition r_st (s : st) : st := mkSt (r_regs (rg s)) (map r_vf (views s)) (scache s) (map p (eviews s)) (counter s).
Definition r_env (e : env) : env := map r_hf e.
Definition r_obs (o : obs) : obs :=
  match o with ORows k t => ORows k (r_tx t) | OSchema t => OSchema (r_tx t) | OErr => OErr end.
Definition r_bo (x : bool * obs) : bool * obs := (fst x, r_obs (snd x)).
Definition r_world (w : world) : world := mkW (r_st (w_st w)) (r_env (w_env w)) (map r_bo (w_obs w)).
Definition r_bind (b : option (nat * frame)) : option (nat * frame) := option_map (fun x => (fst x, r_frame (snd x))) b.

Lemma get_r e h : get (r_env e) h = option_map r_frame (get e h).
Proof.
  unfold get, r_env. rewrite (find_map r_hf (fun q => handle_eqb (fst q) h)) by auto.
  destruct (find _ e); reflexivity.
Qed.

Lemma lookup_views_r vs v : lookup (map r_vf vs) v = option_map r_frame (lookup vs v).
Proof.
  unfold lookup. rewrite (find_map r_vf (fun q => String.eqb (fst q) v)) by auto.
  destruct (find _ vs); reflexivity.
Qed.

Lemma resolve_h_r e u : resolve_h (r_env e) u = option_map r_col (resolve_h e u).
Proof.
  destruct u as [[[s|h]|] c]; simpl; auto. rewrite get_r. destruct (get e h); reflexivity.
Qed.

Lemma resolve_hs_r e cs : all_some (map (resolve_h (r_env e)) cs) = option_map (map r_col) (all_some (map (resolve_h e) cs)).
Proof.
  rewrite (map_ext (resolve_h (r_env e)) (fun u => option_map r_col (resolve_h e u))) by (intros; apply resolve_h_r).
  rewrite <- (map_map (resolve_h e) (option_map r_col)). apply all_some_map_r.
Qed.

Lemma add_known_r r i : add_known (r_regs r) (p i) = r_regs (add_known r i).
Proof. unfold add_known, r_regs. simpl. rewrite map_app. reflexivity. Qed.
Lemma add_branch_r r i : add_branch (r_regs r) (p i) = r_regs (add_branch r i).
Proof. unfold add_branch, r_regs. simpl. rewrite !map_app. reflexivity. Qed.
Lemma add_seq_r r i : add_seq (r_regs r) (p i) = r_regs (add_seq r i).
Proof. unfold add_seq, r_regs. simpl. rewrite !map_app. reflexivity. Qed.
Lemma add_alias_r r s i : add_alias (r_regs r) s (p i) = r_regs (add_alias r s i).
Proof. unfold add_alias, r_regs. simpl. rewrite !map_app. reflexivity. Qed.

Lemma final_text_r f : final_text (r_frame f) = r_tx (final_text f).
Proof.
  unfold final_text. cbv zeta. cbn [f_ctes r_frame]. rewrite r_cat. rewrite map_app. cbn [map].
  rewrite render_leaf_r. rewrite !map_map.
  change (map (fun x => (c_name (r_cte x), c_body (r_cte x))) (f_ctes f))
    with (map (fun x => (r_tx (c_name x), r_tx (c_body x))) (f_ctes f)).
  assert (Em : map (fun x => (r_tx (c_name x), r_tx (c_body x))) (f_ctes f) =
               r_map (map (fun c => (c_name c, c_body c)) (f_ctes f))).
  { unfold r_map. rewrite map_map. reflexivity. }
  rewrite Em. rewrite subst_r.
  f_equal. f_equal. apply map_ext. intros c. cbn [c_body r_cte]. rewrite subst_r. reflexivity.
Qed.

Lemma with_op_r f ju last sel wh :
  with_op (r_frame f) (p ju) last (map r_col sel) (map r_pred wh) = r_frame (with_op f ju last sel wh).
Proof. reflexivity. Qed.
Lemma set_seq_ju_r f ju last : set_seq_ju (r_frame f) (p ju) last = r_frame (set_seq_ju f ju last).
Proof. reflexivity. Qed.

Arguments wrap : simpl never.
Arguments convert : simpl never.
Arguments join_model : simpl never.
Arguments ensure_cols : simpl never.
Arguments final_text : simpl never.
Arguments with_op : simpl never.
Arguments set_seq_ju : simpl never.

Lemma run_step_r g s e d st :
  run_step g (r_st s) (r_env e) (rd d) st =
  (r_st (fst (fst (run_step g s e d st))), r_bind (snd (fst (run_step g s e d st))), option_map r_obs (snd (run_step g s e d st))).
Proof.
  destruct st; unfold run_step.
  all: change (rd d 0) with (p (d 0)); change (rd d 1) with (p (d 1)); change (rd d 2) with (p (d 2));
       change (rd d 3) with (pc (d 3)); change (rd d 4) with (p (d 4)).
  - (* create *)
    cbn [rg r_st views scache eviews counter fst snd r_bind option_map].
    rewrite add_branch_r, add_seq_r. unfold r_st at 1. cbn [rg views scache eviews counter].
    f_equal. f_equal. f_equal. f_equal. unfold r_frame. simpl. rewrite map_plain_r. reflexivity.
  - (* select *)
    rewrite get_r, resolve_hs_r.
    destruct (get e src) as [f0|]; cbn [option_map]; auto.
    destruct (all_some (map (resolve_h e) cs)) as [cols|]; cbn [option_map]; auto.
    rewrite wrap_r. destruct (wrap g (op_select g) f0) as [f new]. cbn [fst snd].
    cbn [rg r_st]. rewrite ctx_of_r, ensure_cols_r.
    destruct (ensure_cols g (rg s) (ctx_of f) f cols) as [sel|]; cbn [option_map fst snd r_bind]; auto.
  - (* where *)
    rewrite get_r, resolve_h_r.
    destruct (get e src) as [f0|]; cbn [option_map]; auto.
    destruct (resolve_h e c) as [c0|]; cbn [option_map]; auto.
    rewrite wrap_r. destruct (wrap g (op_where g) f0) as [f new]. cbn [fst snd].
    cbn [rg r_st]. rewrite ctx_of_r. change [r_col c0] with (map r_col [c0]). rewrite ensure_cols_r.
    destruct (ensure_cols g (rg s) (ctx_of f) f [c0]) as [[|c1 [|]]|]; cbn [option_map map fst snd r_bind]; auto.
    f_equal. f_equal. f_equal. f_equal. unfold with_op, r_frame. simpl. rewrite map_app. reflexivity.
  - (* alias *)
    rewrite get_r. destruct (get e src) as [f0|]; cbn [option_map]; auto.
    rewrite wrap_r. destruct (wrap g (op_noop g) f0) as [f new]. cbn [fst snd r_bind option_map].
    cbn [rg r_st]. rewrite add_seq_r, add_alias_r. rewrite convert_r. rewrite set_seq_ju_r. reflexivity.
  - (* join *)
    rewrite !get_r.
    destruct (get e l) as [fl0|]; cbn [option_map]; auto.
    destruct (get e r) as [fr|]; cbn [option_map]; auto.
    rewrite wrap_r. destruct (wrap g (op_from g) fl0) as [fl new]. cbn [fst snd].
    set (on1 := match on with
                | OnExpr a b => match resolve_h e a, resolve_h e b with Some ca, Some cb => inl (Some (ca, cb)) | _, _ => inl None end
                | OnNames cs => inr cs end).
    replace (match on with
             | OnExpr a b => match resolve_h (r_env e) a, resolve_h (r_env e) b with
                             | Some ca, Some cb => inl (Some (ca, cb)) | _, _ => inl None end
             | OnNames cs => inr cs end) with (r_on on1).
    + cbv zeta. cbn [rg r_st views scache eviews counter]. rewrite join_model_r, join_ctr_r.
      destruct (join_model g (rg s) d fl fr on1); cbn [option_map fst snd r_bind]; reflexivity.
    + unfold on1. destruct on as [a b|cs]; auto. rewrite !resolve_h_r.
      destruct (resolve_h e a); destruct (resolve_h e b); reflexivity.
  - (* view *)
    rewrite get_r. destruct (get e src) as [f|]; cbn [option_map fst snd r_bind]; auto.
    change (f_sq (r_frame f)) with (p (f_sq f)). rewrite convert_r. rewrite sel_names_r. reflexivity.
  - (* sql *)
    cbn [views scache rg r_st]. rewrite lookup_views_r.
    destruct (lookup (views s) v) as [vf|]; cbn [option_map]; auto.
    cbv zeta. rewrite sel_names_r.
    destruct (sql_sel cols (lookup (scache s) v) (sel_names vf)) as [l|]; auto.
    cbn [f_ctes r_frame]. rewrite last_map_some.
    destruct (last (map Some (f_ctes vf)) None) as [vc|]; cbn [option_map fst snd r_bind]; auto.
    rewrite add_branch_r, add_seq_r.
    f_equal. f_equal. f_equal. rewrite <- convert_r. f_equal.
    unfold r_frame. simpl. rewrite map_map. reflexivity.
  - (* action *)
    rewrite get_r. destruct (get e src) as [f|]; cbn [option_map fst snd r_bind]; auto.
    change (f_ok (r_frame f)) with (f_ok f). rewrite final_text_r. destruct (f_ok f || negb (executes k)); reflexivity.
  - (* schema *)
    rewrite get_r. destruct (get e src) as [f|]; cbn [option_map fst snd r_bind]; auto.
    change (f_ok (r_frame f)) with (f_ok f). rewrite final_text_r.
    cbn [rg r_st views scache eviews counter]. rewrite add_known_r.
    unfold r_st. cbn [rg views scache eviews counter].
    destruct (schema_drops_view g || negb (f_ok f)); destruct (f_ok f); cbn [option_map r_obs]; try rewrite map_app; reflexivity.
  - (* bad *)
    rewrite get_r. destruct k; destruct (get e src) as [f|]; cbn [option_map fst snd r_bind]; auto.
    all: try (rewrite wrap_r; destruct (wrap g (op_from g) f) as [fl new]; cbn [fst snd]; rewrite join_ctr_r; reflexivity).
    all: unfold set_rg; cbn [rg r_st views scache eviews counter]; rewrite ?add_branch_r, ?add_seq_r, ?add_alias_r; reflexivity.
Qed.

(* ---------------------------------------------------------------- runs *)
Definition r_ev (e : ev) : ev := mkEv (who e) (op e) (rd (dr e)).

Lemma run_ev_r g w e : run_ev g (r_world w) (r_ev e) = r_world (run_ev g w e).
Proof.
  unfold run_ev. cbn [w_st w_env w_obs r_world dr op who r_ev]. rewrite run_step_r.
  destruct (run_step g (w_st w) (w_env w) (dr e) (op e)) as [[s1 b] o]. cbn [fst snd].
  unfold r_world. cbn [w_st w_env w_obs]. f_equal.
  - destruct b as [[dst f]|]; reflexivity.
  - destruct o as [o|]; cbn [option_map]; auto. rewrite map_app. reflexivity.
Qed.

Lemma run_from_r g l : forall w, run_from g (r_world w) (map r_ev l) = r_world (run_from g w l).
Proof.
  induction l as [|e l IH]; intros w; simpl; auto.
  unfold run_from in *. simpl. rewrite run_ev_r. apply IH.
Qed.

Lemma r_world_w0 : r_world w0 = w0.
Proof. reflexivity. Qed.

Theorem run_equivariant g l : run g (map r_ev l) = r_world (run g l).
Proof. unfold run. rewrite <- r_world_w0 at 1. apply (run_from_r g l w0). Qed.

Lemma obs_of_r b w : obs_of b (r_world w) = map r_obs (obs_of b w).
Proof.
  unfold obs_of. cbn [w_obs r_world].
  rewrite (filter_map_comm r_bo (fun q => Bool.eqb (fst q) b)) by auto.
  rewrite !map_map. reflexivity.
Qed.

End Ren.
