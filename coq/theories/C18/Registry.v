(** C18 -- what a step may do to the session: registries are append-only, a raising action writes nothing but
    (possibly) new ids, read-only actions leave the session as it was -- except the schema lookup. *)
From Coq Require Import List String ZArith Bool Arith Lia.
From SF Require Import C18.Session C18.Compile C18.NonInterf.
Import ListNotations.
Open Scope list_scope.

Definition grows (r r' : regs) : Prop :=
  (exists a, known r' = known r ++ a) /\ (exists a, kbranch r' = kbranch r ++ a) /\
  (exists a, kseq r' = kseq r ++ a) /\ (exists a, amap r' = amap r ++ a).

Lemma grows_refl r : grows r r.
Proof. repeat split; exists []; rewrite app_nil_r; reflexivity. Qed.

Lemma grows_trans r1 r2 r3 : grows r1 r2 -> grows r2 r3 -> grows r1 r3.
Proof.
  intros [[a1 A1] [[b1 B1] [[c1 C1] [d1 D1]]]] [[a2 A2] [[b2 B2] [[c2 C2] [d2 D2]]]].
  repeat split; [exists (a1 ++ a2)|exists (b1 ++ b2)|exists (c1 ++ c2)|exists (d1 ++ d2)];
    rewrite app_assoc; congruence.
Qed.

Lemma grows_known r i : grows r (add_known r i).
Proof. repeat split; simpl; [exists [i]|exists []|exists []|exists []]; rewrite ?app_nil_r; reflexivity. Qed.
Lemma grows_branch r i : grows r (add_branch r i).
Proof. repeat split; simpl; [exists [i]|exists [i]|exists []|exists []]; rewrite ?app_nil_r; reflexivity. Qed.
Lemma grows_seq r i : grows r (add_seq r i).
Proof. repeat split; simpl; [exists [i]|exists []|exists [i]|exists []]; rewrite ?app_nil_r; reflexivity. Qed.
Lemma grows_alias r s i : grows r (add_alias r s i).
Proof. repeat split; simpl; [exists []|exists []|exists []|exists [(s, i)]]; rewrite ?app_nil_r; reflexivity. Qed.

Ltac break_goal :=
  repeat match goal with
         | |- context [match ?x with _ => _ end] => destruct x eqn:?
         | |- context [let '(_, _) := ?x in _] => destruct x eqn:?
         end.

(** every step, whoever issues it and whether or not it raises: the id registries and the alias map only grow *)
Theorem registries_append_only : forall g s e d p, grows (rg s) (rg (fst (fst (run_step g s e d p)))).
Proof.
  intros g s e d p.
  assert (H1 : grows (rg s) (add_seq (add_branch (rg s) (d 0)) (d 1)))
    by (eapply grows_trans; [apply grows_branch|apply grows_seq]).
  assert (H2 : forall n, grows (rg s) (add_alias (add_seq (rg s) (d 1)) n (d 1)))
    by (intros n; eapply grows_trans; [apply grows_seq|apply grows_alias]).
  destruct p; simpl; break_goal; simpl; auto using grows_refl, grows_known.
Qed.

(** a raising action ([SBad]: missing column, missing view, bad join column, alias-then-missing) binds nothing and
    leaves views, schema cache and engine catalog untouched; the registries and the counter only grow *)
Theorem failed_action_no_write : forall g s e d k src,
  let out := run_step g s e d (SBad k src) in
  snd (fst out) = None /\ snd out = Some OErr /\
  views (fst (fst out)) = views s /\ scache (fst (fst out)) = scache s /\
  eviews (fst (fst out)) = eviews s /\ counter s <= counter (fst (fst out)) /\
  grows (rg s) (rg (fst (fst out))).
Proof.
  intros g s e d k src. cbv zeta.
  pose proof (registries_append_only g s e d (SBad k src)) as G.
  simpl in *. destruct k; destruct (get e src); try destruct (wrap g (op_from g) f);
    simpl in *; (repeat match goal with |- _ /\ _ => split end); auto; lia.
Qed.

(** the same for ANY step that raises while a frame is being constructed (nothing is bound and it is not an action):
    views, schema cache and the engine catalog are untouched *)
Theorem raising_construction_no_write : forall g s e d p,
  let out := run_step g s e d p in
  snd (fst out) = None -> snd out = None -> vwrites p = [] ->
  views (fst (fst out)) = views s /\ scache (fst (fst out)) = scache s /\ eviews (fst (fst out)) = eviews s.
Proof.
  intros g s e d p. cbv zeta. destruct p; simpl; break_goal; simpl; intros; auto; try discriminate.
Qed.

(** read-only actions other than the schema lookup leave the whole session unchanged *)
Theorem readonly_action_no_write : forall g s e d k src,
  fst (fst (run_step g s e d (SAct k src))) = s.
Proof. intros. simpl. destruct (get e src); reflexivity. Qed.

(** the schema lookup leaves an object behind in the engine catalog iff it does not drop its view *)
Theorem schema_lookup_leaves : forall g s e d src f,
  get e src = Some f -> f_ok f = true ->
  eviews (fst (fst (run_step g s e d (SSchema src)))) =
  if schema_drops_view g then eviews s else eviews s ++ [d 4].
Proof. intros g s e d src f H Hok. simpl. rewrite H. simpl. rewrite Hok. simpl. rewrite orb_false_r. reflexivity. Qed.

(** the schema cache: add-if-absent keeps the first registration, overwrite takes the last *)
Theorem cache_first_wins : forall g sc v c1 c2,
  schema_aia g = true -> lookup sc v = None ->
  lookup (cache_add g (cache_add g sc v c1) v c2) v = Some c1.
Proof.
  intros g sc v c1 c2 Hg Hn. unfold cache_add. rewrite Hg. rewrite Hn.
  rewrite (lookup_app_none sc v c1 Hn). apply lookup_app_none; auto.
Qed.

Theorem cache_last_wins : forall g sc v c1 c2,
  schema_aia g = false -> lookup (cache_add g (cache_add g sc v c1) v c2) v = Some c2.
Proof. intros g sc v c1 c2 Hg. unfold cache_add. rewrite Hg. apply lookup_cons_eq. Qed.
