(** C03 (iii), part 3: ORDER BY keys are compared by a lawful (total pre-order) comparison, hence the stable
    sort commutes with a filter; merging an ordered block, or a DISTINCT block, with the filter/projection
    block that reads it. *)
From SF Require Export C03.Canon.
From Coq Require Import Permutation OrderedTypeEx Lia.
Open Scope Z_scope.

(** * Lawful comparisons (total pre-orders given as a comparison function) *)
Record lawful {A} (c : A -> A -> comparison) : Prop := mkLawful {
  l_anti : forall x y, c y x = CompOpp (c x y);
  l_eq : forall x y z, c x y = Datatypes.Eq -> c x z = c y z;
  l_lt : forall x y z, c x y = Datatypes.Lt -> c y z = Datatypes.Lt -> c x z = Datatypes.Lt }.

Lemma lawful_gt {A} (c : A -> A -> comparison) : lawful c ->
  forall x y z, c x y = Datatypes.Gt -> c y z = Datatypes.Gt -> c x z = Datatypes.Gt.
Proof.
  intros [Ha He Hl] x y z H1 H2.
  assert (E1 : c y x = Datatypes.Lt) by (rewrite Ha, H1; reflexivity).
  assert (E2 : c z y = Datatypes.Lt) by (rewrite Ha, H2; reflexivity).
  pose proof (Hl z y x E2 E1) as E3. rewrite (Ha z x), E3. reflexivity.
Qed.

Lemma lawful_eq_r {A} (c : A -> A -> comparison) : lawful c ->
  forall x y z, c y z = Datatypes.Eq -> c x z = c x y.
Proof.
  intros [Ha He Hl] x y z H.
  assert (E : c z y = Datatypes.Eq) by (rewrite Ha, H; reflexivity).
  pose proof (He z y x E) as E2. rewrite (Ha z x), (Ha y x), E2. reflexivity.
Qed.

Definition leb_of {A} (c : A -> A -> comparison) (x y : A) : bool :=
  match c x y with Datatypes.Gt => false | _ => true end.

Lemma leb_of_trans {A} (c : A -> A -> comparison) : lawful c ->
  forall x y z, leb_of c x y = true -> leb_of c y z = true -> leb_of c x z = true.
Proof.
  intros L x y z. unfold leb_of.
  destruct (c x y) eqn:E1; try discriminate; destruct (c y z) eqn:E2; try discriminate; intros _ _.
  - rewrite (l_eq c L x y z E1), E2. reflexivity.
  - rewrite (l_eq c L x y z E1), E2. reflexivity.
  - rewrite (lawful_eq_r c L x y z E2), E1. reflexivity.
  - rewrite (l_lt c L x y z E1 E2). reflexivity.
Qed.

Lemma leb_of_total {A} (c : A -> A -> comparison) : lawful c ->
  forall x y, leb_of c x y = false -> leb_of c y x = true.
Proof.
  intros L x y. unfold leb_of. rewrite (l_anti c L x y). destruct (c x y); simpl; congruence.
Qed.

Lemma lawful_pull {A B} (f : B -> A) (c : A -> A -> comparison) : lawful c -> lawful (fun x y => c (f x) (f y)).
Proof.
  intros [Ha He Hl]. constructor; intros.
  - apply Ha.
  - apply He; assumption.
  - eapply Hl; eassumption.
Qed.

Lemma lawful_lexc {A} (c1 c2 : A -> A -> comparison) :
  lawful c1 -> lawful c2 -> lawful (fun x y => lexc (c1 x y) (c2 x y)).
Proof.
  intros L1 L2. constructor.
  - intros x y. rewrite (l_anti c1 L1 x y), (l_anti c2 L2 x y). destruct (c1 x y); reflexivity.
  - intros x y z H. unfold lexc in *. destruct (c1 x y) eqn:E1; try discriminate.
    rewrite (l_eq c1 L1 x y z E1). destruct (c1 y z); try reflexivity. apply (l_eq c2 L2); exact H.
  - intros x y z H1 H2. unfold lexc in *.
    destruct (c1 x y) eqn:E1; try discriminate; destruct (c1 y z) eqn:E2; try discriminate.
    + rewrite (l_eq c1 L1 x y z E1), E2. eapply (l_lt c2 L2); eassumption.
    + rewrite (l_eq c1 L1 x y z E1), E2. reflexivity.
    + rewrite (lawful_eq_r c1 L1 x y z E2), E1. reflexivity.
    + rewrite (l_lt c1 L1 x y z E1 E2). reflexivity.
Qed.

Lemma lawful_opp {A} (c : A -> A -> comparison) : lawful c -> lawful (fun x y => CompOpp (c x y)).
Proof.
  intro L. constructor.
  - intros x y. rewrite (l_anti c L x y). reflexivity.
  - intros x y z H. assert (E : c x y = Datatypes.Eq) by (destruct (c x y); simpl in H; congruence).
    rewrite (l_eq c L x y z E). reflexivity.
  - intros x y z H1 H2.
    assert (E1 : c x y = Datatypes.Gt) by (destruct (c x y); simpl in H1; congruence).
    assert (E2 : c y z = Datatypes.Gt) by (destruct (c y z); simpl in H2; congruence).
    rewrite (lawful_gt c L x y z E1 E2). reflexivity.
Qed.

(** ** the base comparisons *)
Lemma lawful_Z : lawful Z.compare.
Proof.
  constructor.
  - intros x y. apply Z.compare_antisym.
  - intros x y z H. apply Z.compare_eq in H. subst. reflexivity.
  - intros x y z H1 H2. rewrite Z.compare_lt_iff in *. lia.
Qed.

Lemma lawful_string : lawful String.compare.
Proof.
  constructor.
  - intros x y. apply String.compare_antisym.
  - intros x y z H. apply String.compare_eq_iff in H. subst. reflexivity.
  - intros x y z H1 H2. apply String_as_OT.cmp_lt. apply String_as_OT.cmp_lt in H1, H2.
    eapply String_as_OT.lt_trans; eassumption.
Qed.

Definition qcmp (a b : Z * positive) : comparison := Z.compare (fst a * Zpos (snd b)) (fst b * Zpos (snd a)).
Lemma lawful_q : lawful qcmp.
Proof.
  unfold qcmp. constructor.
  - intros [n d] [m e]. simpl. apply Z.compare_antisym.
  - intros [n d] [m e] [k f]. simpl. intro H. apply Z.compare_eq in H.
    destruct (Z.compare_spec (n * Zpos f) (k * Zpos d)) as [E|E|E];
      destruct (Z.compare_spec (m * Zpos f) (k * Zpos e)) as [E'|E'|E']; try reflexivity; exfalso; nia.
  - intros [n d] [m e] [k f]. simpl. rewrite !Z.compare_lt_iff. intros H1 H2. nia.
Qed.

(** [val_cmp] is the lexicographic comparison of (type tag, rational value, string) *)
Definition vkey (v : val) : Z * (Z * positive) * string :=
  match v with
  | VNull => (0, (0, 1%positive), EmptyString)
  | VBool b => (1, ((if b then 1 else 0), 1%positive), EmptyString)
  | VInt x => (2, (x, 1%positive), EmptyString)
  | VRat n d => (2, (n, d), EmptyString)
  | VStr s => (3, (0, 1%positive), s)
  end.
Definition kcmp (a b : Z * (Z * positive) * string) : comparison :=
  lexc (Z.compare (fst (fst a)) (fst (fst b))) (lexc (qcmp (snd (fst a)) (snd (fst b))) (String.compare (snd a) (snd b))).

Lemma val_cmp_key x y : val_cmp x y = kcmp (vkey x) (vkey y).
Proof.
  destruct x, y; unfold kcmp, qcmp; simpl; try reflexivity;
    rewrite ?Z.mul_1_r; try reflexivity.
  - destruct (Z.compare z z0); reflexivity.
  - destruct (Z.compare (z * Z.pos d) n); reflexivity.
  - destruct b, b0; reflexivity.
  - destruct (Z.compare n (z * Z.pos d)); reflexivity.
  - destruct (Z.compare (n * Z.pos d0) (n0 * Z.pos d)); reflexivity.
Qed.

Lemma lawful_kcmp : lawful kcmp.
Proof.
  unfold kcmp.
  apply (lawful_lexc (fun a b => Z.compare (fst (fst a)) (fst (fst b)))
                     (fun a b => lexc (qcmp (snd (fst a)) (snd (fst b))) (String.compare (snd a) (snd b)))).
  - exact (lawful_pull (fun a : Z * (Z * positive) * string => fst (fst a)) _ lawful_Z).
  - apply (lawful_lexc (fun a b : Z * (Z * positive) * string => qcmp (snd (fst a)) (snd (fst b)))
                       (fun a b => String.compare (snd a) (snd b))).
    + exact (lawful_pull (fun a : Z * (Z * positive) * string => snd (fst a)) _ lawful_q).
    + exact (lawful_pull (fun a : Z * (Z * positive) * string => snd a) _ lawful_string).
Qed.

Lemma lawful_val_cmp : lawful val_cmp.
Proof.
  pose proof (lawful_pull vkey kcmp lawful_kcmp) as L.
  constructor.
  - intros x y. rewrite !val_cmp_key. apply (l_anti _ L).
  - intros x y z. rewrite !val_cmp_key. apply (l_eq _ L).
  - intros x y z. rewrite !val_cmp_key. apply (l_lt _ L).
Qed.

(** ORDER BY on one key: NULL placement first, then the (possibly reversed) value order *)
Lemma lawful_cmp_one desc nf : lawful (cmp_one desc nf).
Proof.
  pose proof lawful_val_cmp as LV. pose proof (lawful_opp _ LV) as LO.
  constructor.
  - intros x y. unfold cmp_one.
    destruct x, y; cbv beta iota; try reflexivity; try (destruct nf; reflexivity);
      destruct desc; try (rewrite (l_anti _ LV); reflexivity); apply (l_anti _ LV).
  - intros x y z H. unfold cmp_one in *.
    destruct x, y; cbv beta iota in H; try (destruct nf; discriminate); try reflexivity;
      destruct z; cbv beta iota; try reflexivity;
      destruct desc; first [exact (l_eq _ LO _ _ _ H) | exact (l_eq _ LV _ _ _ H)].
  - intros x y z H1 H2. unfold cmp_one in *.
    destruct x, y; cbv beta iota in H1; try discriminate;
      destruct z; cbv beta iota in H2 |- *; try discriminate;
      try (destruct nf; solve [discriminate | reflexivity]);
      destruct desc; first [exact (l_lt _ LO _ _ _ H1 H2) | exact (l_lt _ LV _ _ _ H1 H2)].
Qed.

Lemma lawful_ext {A} (c c' : A -> A -> comparison) : (forall x y, c x y = c' x y) -> lawful c -> lawful c'.
Proof.
  intros E [Ha He Hl]. constructor; intros; rewrite <- ?E in *.
  - apply Ha.
  - apply He. assumption.
  - eapply Hl; eassumption.
Qed.

(** comparison of two items by a key list *)
Definition kv_of {A} (ev : A -> okey -> val) (ks : list okey) (a : A) : kv :=
  map (fun k => (ev a k, k_desc k, k_nf k)) ks.
Definition kcmp_by {A} (ev : A -> okey -> val) (ks : list okey) (a b : A) : comparison :=
  cmp_kv (kv_of ev ks a) (kv_of ev ks b).

Lemma lawful_kcmp_by {A} (ev : A -> okey -> val) ks : lawful (kcmp_by ev ks).
Proof.
  induction ks as [|k ks IH].
  - unfold kcmp_by. simpl. constructor; intros; try reflexivity; discriminate.
  - apply (lawful_ext (fun a b => lexc (cmp_one (k_desc k) (k_nf k) (ev a k) (ev b k)) (kcmp_by ev ks a b))).
    + intros a b. unfold kcmp_by. simpl. destruct (cmp_one (k_desc k) (k_nf k) (ev a k) (ev b k)); reflexivity.
    + apply (lawful_lexc (fun a b => cmp_one (k_desc k) (k_nf k) (ev a k) (ev b k)) (kcmp_by ev ks)).
      * exact (lawful_pull (fun a => ev a k) _ (lawful_cmp_one (k_desc k) (k_nf k))).
      * exact IH.
Qed.

Lemma le_kv_leb_of {A} (ev : A -> okey -> val) ks a b :
  le_kv (kv_of ev ks a) (kv_of ev ks b) = leb_of (kcmp_by ev ks) a b.
Proof. reflexivity. Qed.

(** * A stable sort commutes with a filter *)
Section SortFilter.
  Context {A : Type} (le : A -> A -> bool).
  Hypothesis le_trans : forall x y z, le x y = true -> le y z = true -> le x z = true.
  Hypothesis le_total : forall x y, le x y = false -> le y x = true.

  Fixpoint ssorted (l : list A) : Prop :=
    match l with [] => True | x :: l' => (forall y, In y l' -> le x y = true) /\ ssorted l' end.

  Lemma insert_in x l y : In y (insert le x l) -> y = x \/ In y l.
  Proof.
    intro H. apply (Permutation_in y (Permutation_sym (insert_perm le x l))) in H.
    destruct H as [H|H]; [left; symmetry; exact H | right; exact H].
  Qed.

  Lemma insert_ssorted x l : ssorted l -> ssorted (insert le x l).
  Proof.
    induction l as [|y l IH]; simpl; intro H; [split; [intros ? []|exact I]|].
    destruct H as [Hy Hl]. destruct (le x y) eqn:E.
    - split; [|split; assumption]. intros z [<-|Hz]; [exact E|]. eapply le_trans; [exact E | apply Hy; exact Hz].
    - split; [|apply IH; exact Hl]. intros z Hz. apply insert_in in Hz. destruct Hz as [->|Hz].
      + apply le_total. exact E.
      + apply Hy. exact Hz.
  Qed.

  Lemma sort_ssorted l : ssorted (Sort.sort le l).
  Proof. induction l as [|x l IH]; simpl; [exact I | apply insert_ssorted; exact IH]. Qed.

  Lemma insert_head x l : (forall y, In y l -> le x y = true) -> insert le x l = x :: l.
  Proof. destruct l as [|y l]; simpl; intro H; [reflexivity|]. rewrite (H y (or_introl eq_refl)). reflexivity. Qed.

  Lemma filter_insert p x l : ssorted l ->
    filter p (insert le x l) = if p x then insert le x (filter p l) else filter p l.
  Proof.
    induction l as [|y l IH]; simpl; intro H.
    - destruct (p x); reflexivity.
    - destruct H as [Hy Hl]. destruct (le x y) eqn:E.
      + simpl. destruct (p x) eqn:Px; [|reflexivity].
        symmetry. apply insert_head. intros z Hz.
        assert (Hin : In z (y :: l)).
        { destruct (p y); [|right; apply filter_In in Hz; tauto].
          destruct Hz as [<-|Hz]; [left; reflexivity | right; apply filter_In in Hz; tauto]. }
        destruct Hin as [<-|Hin]; [exact E | eapply le_trans; [exact E | apply Hy; exact Hin]].
      + simpl. rewrite (IH Hl). destruct (p y) eqn:Py; destruct (p x) eqn:Px; simpl; try reflexivity.
        rewrite E. reflexivity.
  Qed.

  Lemma filter_sort p l : filter p (Sort.sort le l) = Sort.sort le (filter p l).
  Proof.
    induction l as [|x l IH]; simpl; [reflexivity|].
    rewrite filter_insert by apply sort_ssorted. rewrite IH.
    destruct (p x); reflexivity.
  Qed.
End SortFilter.

Lemma filter_sort_on {A} (ev : A -> okey -> val) ks (p : A -> bool) l :
  filter p (sort_on (kv_of ev ks) l) = sort_on (kv_of ev ks) (filter p l).
Proof.
  unfold sort_on. apply filter_sort.
  - intros x y z. rewrite !le_kv_leb_of. apply leb_of_trans. apply lawful_kcmp_by.
  - intros x y. rewrite !le_kv_leb_of. apply leb_of_total. apply lawful_kcmp_by.
Qed.

(** * Merging an ordered block (no DISTINCT, no LIMIT) with the filter/projection block that reads it *)
Definition key_t (s1 : list (expr * string)) (k : okey) : expr :=
  if is_outcol (out_cols s1) (k_e k) then subst s1 (k_e k) else k_e k.
Definition ident_item (s : list (expr * string)) (e : expr) : bool :=
  match e with
  | ECol m => match find_item m s with Some (ECol m') => String.eqb m m' | _ => false end
  | _ => false
  end.
Definition ord_key_ok (cs : list string) (s1 s2' : list (expr * string)) (k : okey) : bool :=
  let t := key_t s1 k in cols_in cs t && (negb (is_outcol (out_cols s2') t) || ident_item s2' t).
Definition ord_key (s1 : list (expr * string)) (k : okey) : okey := mkKey (key_t s1 k) (k_desc k) (k_nf k).

Lemma ord_value_p cs s1 k (r : row) :
  cols_in cs (key_t s1 k) = true -> List.length r = List.length cs ->
  eval_okey cs (out_cols s1) (proj cs s1 r, r) k = eval cs r (key_t s1 k).
Proof.
  intros Hc Hl. unfold key_t in *. destruct k as [e d nf]. simpl in *.
  destruct (is_outcol (out_cols s1) e) eqn:Eo.
  - destruct e; simpl in Eo; try discriminate. rewrite eval_okey_outcol by exact Eo. simpl fst. apply subst_eval.
  - rewrite eval_okey_general by exact Eo. simpl. apply eval_app_l; assumption.
Qed.

Lemma ord_value_m cs s1 s2' k (r : row) :
  ord_key_ok cs s1 s2' k = true -> List.length r = List.length cs ->
  eval_okey cs (out_cols s2') (proj cs s2' r, r) (ord_key s1 k) = eval cs r (key_t s1 k).
Proof.
  unfold ord_key_ok, ord_key. intros H Hl. apply andb_true_iff in H. destruct H as [Hc H].
  set (t := key_t s1 k) in *.
  destruct (is_outcol (out_cols s2') t) eqn:Eo; simpl in H.
  - destruct t as [m| | | | | | |] eqn:Et; simpl in Eo, H; try discriminate.
    rewrite eval_okey_outcol by exact Eo. simpl. rewrite lookup_proj.
    destruct (find_item m s2') as [[m'| | | | | | |]|]; try discriminate.
    apply String.eqb_eq in H. subst m'. reflexivity.
  - rewrite eval_okey_general by exact Eo. simpl. apply eval_app_l; assumption.
Qed.

Definition can_ordmerge (cs : list string) (p b : block) : bool :=
  negb (b_distinct p) && match b_limit p with None => true | Some _ => false end && simple_blk b
  && forallb (ord_key_ok cs (b_sel p) (subst_sel (b_sel p) (b_sel b))) (b_order p).
Definition ordmerge (p b : block) : block :=
  mkBlock (b_where p ++ map (subst (b_sel p)) (b_where b)) (subst_sel (b_sel p) (b_sel b)) false
          (map (ord_key (b_sel p)) (b_order p)) None.

Lemma sorted_pairs_rows cs ocs ks (f : row -> row) (KT : row -> kv) (l : list row) :
  (forall r, In r l -> okeys cs ocs ks (f r, r) = KT r) ->
  map fst (sort_on (okeys cs ocs ks) (map (fun r => (f r, r)) l)) = map f (sort_on KT l).
Proof.
  intro H. set (g := fun r : row => (f r, r)).
  rewrite <- (map_sort_on g (fun r => okeys cs ocs ks (g r)) (okeys cs ocs ks) l) by reflexivity.
  rewrite map_map. simpl. f_equal. apply sort_on_ext_in. exact H.
Qed.

Theorem ordmerge_sound p b fr :
  can_ordmerge (cols fr) p b = true -> wf_frame fr ->
  eval_block b (eval_block p fr) = eval_block (ordmerge p b) fr.
Proof.
  intros Hc Hwf. unfold can_ordmerge in Hc.
  apply andb_true_iff in Hc. destruct Hc as [Hc Hk]. apply andb_true_iff in Hc. destruct Hc as [Hc Hsb].
  apply andb_true_iff in Hc. destruct Hc as [Hd Hl]. apply negb_true_iff in Hd.
  destruct (b_limit p) eqn:Elim; [discriminate|]. clear Hl.
  set (cs := cols fr) in *. set (s1 := b_sel p) in *. set (s2' := subst_sel s1 (b_sel b)) in *.
  set (KT := kv_of (fun (r : row) k => eval cs r (key_t s1 k)) (b_order p)).
  set (R1 := filter (all_hold cs (b_where p)) (rows fr)).
  set (R12 := filter (all_hold cs (b_where p ++ map (subst s1) (b_where b))) (rows fr)).
  rewrite forallb_forall in Hk.
  (* the ordered block *)
  assert (E1 : eval_block p fr = mkFrame (out_cols s1) (map (proj cs s1) (sort_on KT R1))).
  { unfold eval_block. rewrite Hd, Elim. fold cs s1 R1. f_equal.
    apply sorted_pairs_rows. intros r Hr. unfold okeys, KT, kv_of. apply map_ext_in. intros k Hkin.
    f_equal. f_equal. apply ord_value_p.
    - specialize (Hk k Hkin). unfold ord_key_ok in Hk. apply andb_true_iff in Hk. tauto.
    - apply Hwf. unfold R1 in Hr. apply filter_In in Hr. tauto. }
  rewrite E1. rewrite (eval_filterproj_block b _ Hsb). cbn [cols rows].
  (* the merged block *)
  assert (E2 : eval_block (ordmerge p b) fr = mkFrame (out_cols s2') (map (proj cs s2') (sort_on KT R12))).
  { unfold eval_block, ordmerge. cbn [b_where b_sel b_distinct b_order b_limit]. fold cs s1 s2' R12. f_equal.
    apply sorted_pairs_rows. intros r Hr. unfold okeys, KT, kv_of. rewrite map_map. apply map_ext_in. intros k Hkin.
    simpl. f_equal. f_equal. apply ord_value_m.
    - apply Hk. exact Hkin.
    - apply Hwf. unfold R12 in Hr. apply filter_In in Hr. tauto. }
  rewrite E2. unfold s2'. rewrite out_cols_subst_sel. f_equal.
  rewrite filter_map_comm, map_map.
  rewrite (filter_ext _ _ (fun r => all_hold_subst cs s1 r (b_where b))).
  unfold KT. rewrite filter_sort_on. fold KT. unfold R1. rewrite filter_filter_all. fold R12.
  apply map_ext. intro r. apply proj_subst.
Qed.

(** the consumer may also carry a LIMIT: it is the last step of both sides *)
Definition with_limit (b : block) (l : option nat) : block :=
  mkBlock (b_where b) (b_sel b) (b_distinct b) (b_order b) l.

Lemma with_limit_self b : with_limit b (b_limit b) = b.
Proof. destruct b; reflexivity. Qed.

Lemma eval_block_limit b n fr :
  eval_block (with_limit b (Some n)) fr
  = mkFrame (out_cols (b_sel b)) (firstn n (rows (eval_block (with_limit b None) fr))).
Proof. unfold eval_block, with_limit. cbn [b_where b_sel b_distinct b_order b_limit rows]. rewrite firstn_map. reflexivity. Qed.

Definition can_ordmerge_l (cs : list string) (p b : block) : bool := can_ordmerge cs p (with_limit b None).
Definition ordmerge_l (p b : block) : block := with_limit (ordmerge p (with_limit b None)) (b_limit b).

Theorem ordmerge_l_sound p b fr :
  can_ordmerge_l (cols fr) p b = true -> wf_frame fr ->
  eval_block b (eval_block p fr) = eval_block (ordmerge_l p b) fr.
Proof.
  unfold can_ordmerge_l, ordmerge_l. intros Hc Hwf.
  pose proof (ordmerge_sound p (with_limit b None) fr Hc Hwf) as E.
  rewrite <- (with_limit_self b) at 1. destruct (b_limit b) as [n|].
  - rewrite !eval_block_limit. rewrite E.
    assert (E0 : with_limit (ordmerge p (with_limit b None)) None = ordmerge p (with_limit b None)) by reflexivity.
    rewrite E0. f_equal. cbn [ordmerge b_sel with_limit]. symmetry. apply out_cols_subst_sel.
  - exact E.
Qed.

(** * A filter on the output columns commutes with DISTINCT *)
Lemma filter_dedup (q : row -> bool) (l : list row) : forall seenL seenR,
  (forall x, existsb (row_eqb x) seenR = true -> existsb (row_eqb x) seenL = true) ->
  (forall x, existsb (row_eqb x) seenL = true -> existsb (row_eqb x) seenR = true \/ q x = false) ->
  filter q (dedup_on (fun r => r) seenL l) = dedup_on (fun r => r) seenR (filter q l).
Proof.
  induction l as [|x l IH]; intros seenL seenR H1 H2; simpl; [reflexivity|].
  assert (Hx : forall y s, existsb (row_eqb y) (x :: s) = true -> y = x \/ existsb (row_eqb y) s = true).
  { intros y s H. simpl in H. apply orb_true_iff in H. destruct H as [H|H]; [left; apply row_eqb_eq; exact H | right; exact H]. }
  assert (Hrefl : forall s, existsb (row_eqb x) (x :: s) = true).
  { intro s. simpl. assert (E : row_eqb x x = true) by (apply row_eqb_eq; reflexivity). rewrite E. reflexivity. }
  destruct (q x) eqn:Qx.
  - simpl. destruct (existsb (row_eqb x) seenL) eqn:EL.
    + destruct (H2 x EL) as [ER|Hq]; [|congruence]. rewrite ER. apply IH; assumption.
    + assert (ER : existsb (row_eqb x) seenR = false).
      { destruct (existsb (row_eqb x) seenR) eqn:E; [|reflexivity]. rewrite (H1 x E) in EL. discriminate. }
      rewrite ER. simpl. rewrite Qx. f_equal. apply IH.
      * intros y Hy. destruct (Hx y seenR Hy) as [->|Hy']; [apply Hrefl|]. simpl. rewrite (H1 y Hy'). apply orb_true_r.
      * intros y Hy. destruct (Hx y seenL Hy) as [->|Hy']; [left; apply Hrefl|].
        destruct (H2 y Hy') as [E|E]; [left; simpl; rewrite E; apply orb_true_r | right; exact E].
  - destruct (existsb (row_eqb x) seenL) eqn:EL.
    + apply IH; assumption.
    + simpl. rewrite Qx. apply IH.
      * intros y Hy. simpl. rewrite (H1 y Hy). apply orb_true_r.
      * intros y Hy. destruct (Hx y seenL Hy) as [->|Hy']; [right; exact Qx | apply H2; exact Hy'].
Qed.

Definition is_filter_only (cols1 : list string) (b : block) : bool :=
  simple_blk b && list_eqb item_eqb (b_sel b) (passthrough cols1) && nodupb cols1.

Definition can_distmerge (p b : block) : bool :=
  b_distinct p && match b_order p with [] => true | _ => false end
  && match b_limit p with None => true | Some _ => false end
  && is_filter_only (out_cols (b_sel p)) b.
Definition distmerge (p b : block) : block :=
  mkBlock (b_where p ++ map (subst (b_sel p)) (b_where b)) (b_sel p) true [] None.

Lemma item_eqb_eq a b : item_eqb a b = true -> a = b.
Proof.
  destruct a as [e1 s1], b as [e2 s2]. unfold item_eqb. simpl. intro H. apply andb_true_iff in H. destruct H as [H1 H2].
  apply expr_eqb_eq in H1. apply String.eqb_eq in H2. congruence.
Qed.

Theorem distmerge_sound p b fr :
  can_distmerge p b = true -> eval_block b (eval_block p fr) = eval_block (distmerge p b) fr.
Proof.
  intro Hc. unfold can_distmerge in Hc.
  apply andb_true_iff in Hc. destruct Hc as [Hc Hf]. apply andb_true_iff in Hc. destruct Hc as [Hc Hl].
  apply andb_true_iff in Hc. destruct Hc as [Hd Ho].
  destruct (b_order p) eqn:Eo; [|discriminate]. destruct (b_limit p) eqn:El; [discriminate|].
  unfold is_filter_only in Hf. apply andb_true_iff in Hf. destruct Hf as [Hf Hnd].
  apply andb_true_iff in Hf. destruct Hf as [Hsb Hsel].
  apply (list_eqb_eq item_eqb item_eqb_eq) in Hsel. apply nodupb_sound in Hnd.
  set (cs := cols fr). set (s1 := b_sel p) in *.
  assert (E1 : eval_block p fr = mkFrame (out_cols s1)
                 (dedup_on (fun r => r) [] (map (proj cs s1) (filter (all_hold cs (b_where p)) (rows fr))))).
  { unfold eval_block. rewrite Hd, Eo, El. fold cs s1. f_equal.
    rewrite sort_on_nil_keys by reflexivity. rewrite map_fst_dedup_on, map_fst_pairs. reflexivity. }
  assert (E2 : eval_block (distmerge p b) fr = mkFrame (out_cols s1)
                 (dedup_on (fun r => r) []
                    (map (proj cs s1) (filter (all_hold cs (b_where p ++ map (subst s1) (b_where b))) (rows fr))))).
  { unfold eval_block, distmerge. cbn [b_where b_sel b_distinct b_order b_limit]. fold cs s1. f_equal.
    rewrite sort_on_nil_keys by reflexivity. rewrite map_fst_dedup_on, map_fst_pairs. reflexivity. }
  rewrite E1, E2.
  set (D := dedup_on (fun r => r) [] (map (proj cs s1) (filter (all_hold cs (b_where p)) (rows fr)))).
  assert (Hwf : wf_frame (mkFrame (out_cols s1) D)).
  { unfold D. rewrite <- E1. apply wf_eval_block. }
  rewrite (eval_simple_block b (mkFrame (out_cols s1) D)); cbn [cols rows]; auto.
  - f_equal. unfold D. rewrite (filter_dedup _ _ [] []); [|intros x H; exact H | intros x H; left; exact H].
    f_equal. rewrite filter_map_comm. f_equal. rewrite <- filter_filter_all.
    apply filter_ext. intro r. apply all_hold_subst.
  - unfold simple_blk in Hsb. apply andb_true_iff in Hsb. destruct Hsb as [Hsb _].
    apply andb_true_iff in Hsb. destruct Hsb as [Hsb _]. apply negb_true_iff in Hsb. exact Hsb.
  - unfold simple_blk in Hsb. apply andb_true_iff in Hsb. destruct Hsb as [Hsb _].
    apply andb_true_iff in Hsb. destruct Hsb as [_ Hsb]. destruct (b_order b); [reflexivity | discriminate].
  - unfold simple_blk in Hsb. apply andb_true_iff in Hsb. destruct Hsb as [_ Hsb].
    destruct (b_limit b); [discriminate | reflexivity].
Qed.
