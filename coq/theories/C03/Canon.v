(** C03 (iii), part 2: canonical form of expressions and of the WHERE / select list of one block. *)
From SF Require Export C03.Subst.
From Coq Require Import Permutation.
Open Scope Z_scope.

(** * Canonical form of expressions: constant folding, orientation, boolean units *)

(** an expression without column references has the same value on every row *)
Fixpoint closed (e : expr) : bool :=
  match e with
  | ECol _ => false
  | ELit _ => true
  | EBin _ a b => closed a && closed b
  | ENot a | ENeg a | EIsNull a => closed a
  | EIf c t e' => closed c && closed t && closed e'
  | ECoalesce a b => closed a && closed b
  end.

Lemma closed_eval e : closed e = true -> forall cs r, eval cs r e = eval [] [] e.
Proof.
  induction e; simpl; intros H cs r.
  - discriminate.
  - reflexivity.
  - apply andb_true_iff in H. destruct H as [H1 H2]. rewrite (IHe1 H1 cs r), (IHe2 H2 cs r). reflexivity.
  - rewrite (IHe H cs r). reflexivity.
  - rewrite (IHe H cs r). reflexivity.
  - rewrite (IHe H cs r). reflexivity.
  - apply andb_true_iff in H. destruct H as [H H3]. apply andb_true_iff in H. destruct H as [H1 H2].
    rewrite (IHe1 H1 cs r), (IHe2 H2 cs r), (IHe3 H3 cs r). reflexivity.
  - apply andb_true_iff in H. destruct H as [H1 H2]. rewrite (IHe1 H1 cs r), (IHe2 H2 cs r). reflexivity.
Qed.

Definition rw_fold (e : expr) : expr := if closed e then ELit (eval [] [] e) else e.
Lemma rw_fold_sound e cs r : eval cs r (rw_fold e) = eval cs r e.
Proof.
  unfold rw_fold. destruct (closed e) eqn:E; [|reflexivity]. simpl. symmetry. apply closed_eval. exact E.
Qed.

(** a total order on expressions, used only to pick a canonical orientation / conjunct order
    (soundness never depends on it) *)
Definition binop_rank (o : binop) : Z :=
  match o with Add => 0 | Sub => 1 | Mul => 2 | Eq => 3 | Neq => 4 | Lt => 5 | Le => 6 | Gt => 7 | Ge => 8
             | And => 9 | Or => 10 | NullSafeEq => 11 end.
Definition ctor_rank (e : expr) : Z :=
  match e with ECol _ => 1 | ELit _ => 0 | EBin _ _ _ => 2 | ENot _ => 3 | ENeg _ => 4 | EIsNull _ => 5
             | EIf _ _ _ => 6 | ECoalesce _ _ => 7 end.
Definition lexc (c d : comparison) : comparison := match c with Datatypes.Eq => d | _ => c end.
Definition lit_rank (a : val) : Z :=
  match a with VNull => 0 | VBool _ => 1 | VInt _ => 2 | VRat _ _ => 3 | VStr _ => 4 end.
Definition lit_cmp (a b : val) : comparison :=
  match a, b with
  | VInt x, VInt y => Z.compare x y
  | VStr x, VStr y => String.compare x y
  | VBool x, VBool y => Z.compare (if x then 1 else 0) (if y then 1 else 0)
  | VRat n d, VRat m e => lexc (Z.compare n m) (Pos.compare d e)
  | _, _ => Z.compare (lit_rank a) (lit_rank b)
  end.
Fixpoint expr_cmp (a b : expr) : comparison :=
  match a, b with
  | ECol x, ECol y => String.compare x y
  | ELit x, ELit y => lit_cmp x y
  | EBin o a1 a2, EBin p b1 b2 =>
      lexc (Z.compare (binop_rank o) (binop_rank p)) (lexc (expr_cmp a1 b1) (expr_cmp a2 b2))
  | ENot x, ENot y => expr_cmp x y
  | ENeg x, ENeg y => expr_cmp x y
  | EIsNull x, EIsNull y => expr_cmp x y
  | EIf c1 t1 e1, EIf c2 t2 e2 => lexc (expr_cmp c1 c2) (lexc (expr_cmp t1 t2) (expr_cmp e1 e2))
  | ECoalesce a1 a2, ECoalesce b1 b2 => lexc (expr_cmp a1 b1) (expr_cmp a2 b2)
  | _, _ => Z.compare (ctor_rank a) (ctor_rank b)
  end.
Definition expr_leb (a b : expr) : bool := match expr_cmp a b with Datatypes.Gt => false | _ => true end.

(** [val_cmp] is antisymmetric, so comparisons may be turned round *)
Lemma val_cmp_antisym x y : val_cmp y x = CompOpp (val_cmp x y).
Proof.
  destruct x, y; simpl; try reflexivity; try apply Z.compare_antisym; try apply String.compare_antisym.
Qed.

Lemma val_eqb_sym x y : val_eqb x y = val_eqb y x.
Proof.
  destruct x, y; simpl; try reflexivity.
  - apply Z.eqb_sym.
  - apply String.eqb_sym.
  - destruct b, b0; reflexivity.
  - rewrite Z.eqb_sym, Pos.eqb_sym. reflexivity.
Qed.

Definition flip_op (o : binop) : option binop :=
  match o with
  | Eq => Some Eq | Neq => Some Neq | Lt => Some Gt | Le => Some Ge | Gt => Some Lt | Ge => Some Le
  | Add => Some Add | Mul => Some Mul | And => Some And | Or => Some Or | NullSafeEq => Some NullSafeEq
  | Sub => None
  end.

Lemma cmp_flip o o' x y :
  match o with Eq | Neq | Lt | Le | Gt | Ge => True | _ => False end ->
  flip_op o = Some o' -> eval_bin o x y = eval_bin o' y x.
Proof.
  intros Hc Hf.
  assert (H : forall c, cmp_tv o c = cmp_tv o' (CompOpp c)).
  { intro c. destruct o; try contradiction; inversion Hf; subst; destruct c; reflexivity. }
  destruct o; try contradiction; inversion Hf; subst; cbn [eval_bin];
    destruct x, y; try reflexivity;
    match goal with |- VBool (cmp_tv _ (val_cmp ?a ?b)) = _ => rewrite (val_cmp_antisym a b), H; reflexivity end.
Qed.

Lemma flip_sound o o' x y : flip_op o = Some o' -> eval_bin o x y = eval_bin o' y x.
Proof.
  intro Hf. destruct o; try (apply cmp_flip; [exact I | exact Hf]); inversion Hf; subst; simpl.
  - destruct x, y; try reflexivity. rewrite Z.add_comm. reflexivity.
  - destruct x, y; try reflexivity. rewrite Z.mul_comm. reflexivity.
  - rewrite and3_comm. reflexivity.
  - rewrite or3_comm. reflexivity.
  - rewrite val_eqb_sym. reflexivity.
Qed.

Definition rw_flip (e : expr) : expr :=
  match e with
  | EBin o a b => match flip_op o with
                  | Some o' => if expr_leb a b then e else EBin o' b a
                  | None => e
                  end
  | _ => e
  end.
Lemma rw_flip_sound e cs r : eval cs r (rw_flip e) = eval cs r e.
Proof.
  destruct e; try reflexivity. simpl. destruct (flip_op o) as [o'|] eqn:Ef; [|reflexivity].
  destruct (expr_leb e1 e2); [reflexivity|]. simpl. symmetry. apply flip_sound. exact Ef.
Qed.

(** the result of a boolean-shaped expression is TRUE, FALSE or NULL *)
Definition boolish (e : expr) : bool :=
  match e with
  | ELit (VBool _) | ELit VNull => true
  | EBin o _ _ => match o with Add | Sub | Mul => false | _ => true end
  | ENot _ | EIsNull _ => true
  | _ => false
  end.
Definition is_tvval (v : val) : Prop := v = VNull \/ exists b, v = VBool b.
Lemma val_of_tv_is_tv t : is_tvval (val_of_tv t).
Proof. destruct t as [b|]; simpl; [right; exists b; reflexivity | left; reflexivity]. Qed.
Lemma boolish_tv e cs r : boolish e = true -> is_tvval (eval cs r e).
Proof.
  destruct e; simpl; try discriminate.
  - destruct v; try discriminate; intros _; [left; reflexivity | right; eauto].
  - destruct o; try discriminate; intros _; simpl; try apply val_of_tv_is_tv; try (right; eauto; fail);
      destruct (eval cs r e1), (eval cs r e2); try (left; reflexivity); right; eauto.
  - intros _. apply val_of_tv_is_tv.
  - intros _. right; eauto.
Qed.
Lemma tv_roundtrip v : is_tvval v -> val_of_tv (tv_of_val v) = v.
Proof. intros [->|[b ->]]; reflexivity. Qed.

(** NOT over a comparison / over NOT *)
Definition not_of_cmp (o : binop) : option binop :=
  match o with Eq => Some Neq | Neq => Some Eq | Lt => Some Ge | Le => Some Gt | Gt => Some Le | Ge => Some Lt
             | _ => None end.
Lemma cmp_not o o' x y : not_of_cmp o = Some o' ->
  val_of_tv (not3 (tv_of_val (eval_bin o x y))) = eval_bin o' x y.
Proof.
  intro Hn.
  assert (H : forall c, negb (cmp_tv o c) = cmp_tv o' c).
  { intro c. destruct o; try discriminate; inversion Hn; subst; destruct c; reflexivity. }
  destruct o; try discriminate; inversion Hn; subst; cbn [eval_bin];
    destruct x, y; try reflexivity; cbn [tv_of_val not3 option_map val_of_tv]; rewrite H; reflexivity.
Qed.

Definition rw_not (e : expr) : expr :=
  match e with
  | ENot (ENot a) => if boolish a then a else e
  | ENot (EBin o a b) => match not_of_cmp o with Some o' => EBin o' a b | None => e end
  | _ => e
  end.
Lemma rw_not_sound e cs r : eval cs r (rw_not e) = eval cs r e.
Proof.
  destruct e; try reflexivity. destruct e; try reflexivity.
  - simpl. destruct (not_of_cmp o) as [o'|] eqn:En; [|reflexivity]. simpl. symmetry. apply cmp_not. exact En.
  - simpl. destruct (boolish e) eqn:Eb; [|reflexivity]. simpl.
    destruct (boolish_tv e cs r Eb) as [->|[b ->]]; [reflexivity | destruct b; reflexivity].
Qed.

(** units and zeros of AND / OR, COALESCE and CASE on a literal *)
Definition is_lit_bool (b : bool) (e : expr) : bool :=
  match e with ELit (VBool c) => Bool.eqb b c | _ => false end.
Lemma is_lit_bool_eq b e : is_lit_bool b e = true -> e = ELit (VBool b).
Proof.
  destruct e; simpl; try discriminate. destruct v; try discriminate. intro H.
  apply Bool.eqb_prop in H. subst. reflexivity.
Qed.

Definition rw_unit (e : expr) : expr :=
  match e with
  | EBin And a b =>
      if is_lit_bool false a || is_lit_bool false b then ELit (VBool false)
      else if is_lit_bool true a && boolish b then b
      else if is_lit_bool true b && boolish a then a
      else e
  | EBin Or a b =>
      if is_lit_bool true a || is_lit_bool true b then ELit (VBool true)
      else if is_lit_bool false a && boolish b then b
      else if is_lit_bool false b && boolish a then a
      else e
  | ECoalesce (ELit VNull) b => b
  | ECoalesce (ELit v) _ => ELit v
  | EIf (ELit (VBool true)) t _ => t
  | EIf (ELit _) _ f => f
  | _ => e
  end.

Lemma rw_unit_sound e cs r : eval cs r (rw_unit e) = eval cs r e.
Proof.
  destruct e; try reflexivity.
  - destruct o; try reflexivity.
    + (* And *)
      cbn [rw_unit].
      destruct (is_lit_bool false e1) eqn:F1.
      { apply is_lit_bool_eq in F1. subst. simpl. destruct (tv_of_val (eval cs r e2)) as [[|]|]; reflexivity. }
      destruct (is_lit_bool false e2) eqn:F2.
      { apply is_lit_bool_eq in F2. subst. simpl. destruct (tv_of_val (eval cs r e1)) as [[|]|]; reflexivity. }
      cbn [orb].
      destruct (is_lit_bool true e1 && boolish e2) eqn:T1.
      { apply andb_true_iff in T1. destruct T1 as [T1 B]. apply is_lit_bool_eq in T1. subst. simpl.
        destruct (boolish_tv e2 cs r B) as [->|[b ->]]; [reflexivity | destruct b; reflexivity]. }
      destruct (is_lit_bool true e2 && boolish e1) eqn:T2; [|reflexivity].
      apply andb_true_iff in T2. destruct T2 as [T2 B]. apply is_lit_bool_eq in T2. subst. simpl.
      destruct (boolish_tv e1 cs r B) as [->|[b ->]]; [reflexivity | destruct b; reflexivity].
    + (* Or *)
      cbn [rw_unit].
      destruct (is_lit_bool true e1) eqn:F1.
      { apply is_lit_bool_eq in F1. subst. simpl. destruct (tv_of_val (eval cs r e2)) as [[|]|]; reflexivity. }
      destruct (is_lit_bool true e2) eqn:F2.
      { apply is_lit_bool_eq in F2. subst. simpl. destruct (tv_of_val (eval cs r e1)) as [[|]|]; reflexivity. }
      cbn [orb].
      destruct (is_lit_bool false e1 && boolish e2) eqn:T1.
      { apply andb_true_iff in T1. destruct T1 as [T1 B]. apply is_lit_bool_eq in T1. subst. simpl.
        destruct (boolish_tv e2 cs r B) as [->|[b ->]]; [reflexivity | destruct b; reflexivity]. }
      destruct (is_lit_bool false e2 && boolish e1) eqn:T2; [|reflexivity].
      apply andb_true_iff in T2. destruct T2 as [T2 B]. apply is_lit_bool_eq in T2. subst. simpl.
      destruct (boolish_tv e1 cs r B) as [->|[b ->]]; [reflexivity | destruct b; reflexivity].
  - (* EIf *)
    destruct e1; try reflexivity. destruct v; try reflexivity. destruct b; reflexivity.
  - (* ECoalesce *)
    destruct e1; try reflexivity. destruct v; reflexivity.
Qed.

Definition rw (e : expr) : expr := rw_flip (rw_not (rw_unit (rw_fold e))).
Lemma rw_sound e cs r : eval cs r (rw e) = eval cs r e.
Proof. unfold rw. rewrite rw_flip_sound, rw_not_sound, rw_unit_sound, rw_fold_sound. reflexivity. Qed.

Fixpoint enorm (e : expr) : expr :=
  match e with
  | ECol n => ECol n
  | ELit v => ELit v
  | EBin o a b => rw (EBin o (enorm a) (enorm b))
  | ENot a => rw (ENot (enorm a))
  | ENeg a => rw (ENeg (enorm a))
  | EIsNull a => rw (EIsNull (enorm a))
  | EIf c t f => rw (EIf (enorm c) (enorm t) (enorm f))
  | ECoalesce a b => rw (ECoalesce (enorm a) (enorm b))
  end.

Theorem enorm_sound e cs r : eval cs r (enorm e) = eval cs r e.
Proof.
  induction e; simpl; try reflexivity; rewrite rw_sound; simpl.
  - rewrite IHe1, IHe2. reflexivity.
  - rewrite IHe. reflexivity.
  - rewrite IHe. reflexivity.
  - rewrite IHe. reflexivity.
  - rewrite IHe1, IHe2, IHe3. reflexivity.
  - rewrite IHe1, IHe2. reflexivity.
Qed.

(** * Canonical form of a block *)
Definition is_true_lit (e : expr) : bool := is_lit_bool true e.
Fixpoint dedup_e (seen : list expr) (l : list expr) : list expr :=
  match l with
  | [] => []
  | x :: l' => if existsb (expr_eqb x) seen then dedup_e seen l' else x :: dedup_e (x :: seen) l'
  end.

Definition canon_where (ws : list expr) : list expr :=
  dedup_e [] (sort expr_leb (filter (fun e => negb (is_true_lit e))
                                    (flat_map conjuncts (map enorm (flat_map conjuncts ws))))).

Definition canon_blk (b : block) : block :=
  mkBlock (canon_where (b_where b)) (map (fun it => (enorm (fst it), snd it)) (b_sel b))
          (b_distinct b) (b_order b) (b_limit b).

Lemma forallb_set_ext {A} (f : A -> bool) a b :
  (forall x, In x a <-> In x b) -> forallb f a = forallb f b.
Proof.
  intro H. destruct (forallb f a) eqn:Ea; destruct (forallb f b) eqn:Eb; try reflexivity.
  - rewrite forallb_forall in Ea. assert (forallb f b = true); [|congruence].
    apply forallb_forall. intros x Hx. apply Ea. apply H. exact Hx.
  - rewrite forallb_forall in Eb. assert (forallb f a = true); [|congruence].
    apply forallb_forall. intros x Hx. apply Eb. apply H. exact Hx.
Qed.

Lemma dedup_e_in l : forall seen x, In x (dedup_e seen l) -> In x l.
Proof.
  induction l as [|y l IH]; intros seen x H; simpl in *; [contradiction|].
  destruct (existsb (expr_eqb y) seen); [right; eauto|].
  destruct H as [<-|H]; [left; reflexivity | right; eauto].
Qed.
Lemma dedup_e_complete l : forall seen x, In x l -> In x (dedup_e seen l) \/ In x seen.
Proof.
  induction l as [|y l IH]; intros seen x H; simpl in *; [contradiction|].
  destruct (existsb (expr_eqb y) seen) eqn:E.
  - destruct H as [<-|H]; [|eauto]. right. apply existsb_exists in E. destruct E as [z [Hz Ez]].
    apply expr_eqb_eq in Ez. subst. exact Hz.
  - destruct H as [<-|H]; [left; left; reflexivity|].
    destruct (IH (y :: seen) x H) as [H1|[<-|H1]]; [left; right; exact H1 | left; left; reflexivity | right; exact H1].
Qed.

Lemma all_hold_canon_where cs ws r : all_hold cs (canon_where ws) r = all_hold cs ws r.
Proof.
  unfold canon_where, all_hold.
  set (l0 := flat_map conjuncts ws).
  set (l1 := flat_map conjuncts (map enorm l0)).
  set (l2 := filter (fun e => negb (is_true_lit e)) l1).
  transitivity (forallb (holds cs r) l2).
  { apply forallb_set_ext. intro x. split.
    - intro H. apply dedup_e_in in H. eapply Permutation_in; [symmetry; apply sort_perm | exact H].
    - intro H. assert (H' : In x (sort expr_leb l2)) by (eapply Permutation_in; [apply sort_perm | exact H]).
      destruct (dedup_e_complete _ [] x H') as [H1|[]]. exact H1. }
  transitivity (forallb (holds cs r) l1).
  { unfold l2. induction l1 as [|e l IH]; simpl; [reflexivity|].
    destruct (is_true_lit e) eqn:Et; simpl.
    - apply is_lit_bool_eq in Et. subst. simpl. exact IH.
    - rewrite IH. reflexivity. }
  transitivity (forallb (holds cs r) (map enorm l0)).
  { exact (all_hold_flat cs (map enorm l0) r). }
  transitivity (forallb (holds cs r) l0).
  { induction l0 as [|e l IH]; simpl; [reflexivity|]. rewrite IH. f_equal.
    unfold holds. rewrite enorm_sound. reflexivity. }
  exact (all_hold_flat cs ws r).
Qed.

Lemma eval_canon_blk b fr : eval_block (canon_blk b) fr = eval_block b fr.
Proof.
  unfold eval_block, canon_blk. cbn [b_where b_sel b_distinct b_order b_limit].
  assert (Eo : out_cols (map (fun it : expr * string => (enorm (fst it), snd it)) (b_sel b)) = out_cols (b_sel b)).
  { unfold out_cols. rewrite map_map. reflexivity. }
  assert (Ep : forall r, proj (cols fr) (map (fun it : expr * string => (enorm (fst it), snd it)) (b_sel b)) r
                         = proj (cols fr) (b_sel b) r).
  { intro r. unfold proj. rewrite map_map. apply map_ext. intro it. simpl. apply enorm_sound. }
  rewrite Eo. rewrite (filter_ext _ _ (all_hold_canon_where (cols fr) (b_where b))).
  rewrite (map_ext _ _ (fun r => f_equal (fun x => (x, r)) (Ep r))). reflexivity.
Qed.

Lemma eval_chain_map_canon bs : forall fr, eval_chain (map canon_blk bs) fr = eval_chain bs fr.
Proof.
  induction bs as [|b bs IH]; intro fr; simpl; [reflexivity|]. rewrite eval_canon_blk. apply IH.
Qed.

