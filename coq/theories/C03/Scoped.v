(** C03 (i) -- self-containedness of the statement returned by df.sql().

    A query is abstracted to its CTE list WITH NAMES: every CTE has a name and the list of table
    names its body reads; the final SELECT has the list of table names it reads.  [Scoped q] is
    the property text's "every referenced CTE is defined, no name is defined twice" in the form
    the engine needs it (a non-recursive WITH sees only the CTEs defined before it).

    Modelled mechanisms of sqlframe/base/dataframe.py:
      [wrap]       _convert_leaf_to_cte      (the open SELECT becomes a CTE with a new name)
      [add_ctes]   _add_ctes_to_expression   (merge of another DataFrame's CTE list, including the
                                              rename-the-duplicate path)
      [njoin]      join                       [nsetop]  _set_operation
      [rename_q]   _replace_cte_names_with_hashes (simultaneous renaming; [seq_apply] is the literal
                                              sequential loop and is proved equal to it)
    The names the implementation draws from crc32 / uuid4 are ORACLE ANSWERS: they are arguments of
    the operations, and what the theorems need from them (freshness, injectivity on the names of
    ONE query) is a decidable side condition that the check evaluates on every real query. *)
From Coq Require Import List String Bool Arith Lia.
Import ListNotations.
Open Scope string_scope.
Open Scope list_scope.

Definition mem (n : string) (l : list string) : bool := existsb (String.eqb n) l.

Lemma mem_In n l : mem n l = true <-> In n l.
Proof.
  unfold mem. rewrite existsb_exists. split.
  - intros [x [H E]]. apply String.eqb_eq in E. subst. exact H.
  - intro H. exists n. split; [exact H | apply String.eqb_refl].
Qed.

Lemma mem_notIn n l : mem n l = false <-> ~ In n l.
Proof.
  split.
  - intros E H. apply mem_In in H. congruence.
  - intro H. destruct (mem n l) eqn:E; [|reflexivity]. apply mem_In in E. contradiction.
Qed.

Record cte := mkCte { c_name : string; c_refs : list string }.
Record query := mkQ { q_ctes : list cte; q_main : list string }.
Definition names (cs : list cte) : list string := map c_name cs.

Fixpoint scoped_from (seen : list string) (cs : list cte) : Prop :=
  match cs with
  | [] => True
  | c :: cs' => incl (c_refs c) seen /\ ~ In (c_name c) seen /\ scoped_from (c_name c :: seen) cs'
  end.

Definition Scoped (q : query) : Prop :=
  scoped_from [] (q_ctes q) /\ incl (q_main q) (names (q_ctes q)).

(** ** decidable form (evaluated on every statement the implementation returns) *)
Fixpoint scoped_fromb (seen : list string) (cs : list cte) : bool :=
  match cs with
  | [] => true
  | c :: cs' => forallb (fun r => mem r seen) (c_refs c) && negb (mem (c_name c) seen)
                && scoped_fromb (c_name c :: seen) cs'
  end.
Definition scopedb (q : query) : bool :=
  scoped_fromb [] (q_ctes q) && forallb (fun r => mem r (names (q_ctes q))) (q_main q).

Lemma forallb_mem_incl l s : forallb (fun r => mem r s) l = true <-> incl l s.
Proof.
  rewrite forallb_forall. unfold incl. split; intros H x Hx.
  - apply mem_In. auto.
  - apply mem_In. auto.
Qed.

Lemma scoped_fromb_iff cs : forall seen, scoped_fromb seen cs = true <-> scoped_from seen cs.
Proof.
  induction cs as [|c cs IH]; intro seen; simpl; [tauto|].
  rewrite !andb_true_iff, negb_true_iff, forallb_mem_incl, mem_notIn, IH. tauto.
Qed.

Lemma scopedb_iff q : scopedb q = true <-> Scoped q.
Proof.
  unfold scopedb, Scoped. rewrite andb_true_iff, scoped_fromb_iff, forallb_mem_incl. tauto.
Qed.

(** ** what [Scoped] says, in the words of the property *)
Lemma scoped_from_ext cs : forall s1 s2,
  (forall x, In x s1 <-> In x s2) -> scoped_from s1 cs -> scoped_from s2 cs.
Proof.
  induction cs as [|c cs IH]; intros s1 s2 E H; simpl in *; [exact I|].
  destruct H as (H1 & H2 & H3). repeat split.
  - intros x Hx. apply E. auto.
  - intro Hx. apply H2. apply E. exact Hx.
  - eapply IH; [|exact H3]. intro x. simpl. rewrite E. tauto.
Qed.

Lemma scoped_from_app a : forall seen b,
  scoped_from seen (a ++ b) <-> scoped_from seen a /\ scoped_from (rev (names a) ++ seen) b.
Proof.
  induction a as [|c a IH]; intros seen b; simpl; [tauto|].
  rewrite IH. rewrite <- app_assoc. simpl. tauto.
Qed.

Lemma scoped_from_fresh cs : forall seen, scoped_from seen cs ->
  forall n, In n (names cs) -> ~ In n seen.
Proof.
  induction cs as [|c cs IH]; intros seen H n Hn; simpl in *; [contradiction|].
  destruct H as (_ & H2 & H3). destruct Hn as [<-|Hn]; [exact H2|].
  intro Hs. eapply IH; eauto. right; exact Hs.
Qed.

Lemma scoped_from_nodup cs : forall seen, scoped_from seen cs -> NoDup (names cs).
Proof.
  induction cs as [|c cs IH]; intros seen H; simpl in *; [constructor|].
  destruct H as (_ & _ & H3). constructor; [|eauto].
  intro Hn. eapply scoped_from_fresh; eauto. left; reflexivity.
Qed.

Lemma scoped_from_refs cs : forall seen, scoped_from seen cs ->
  forall c, In c cs -> incl (c_refs c) (names cs ++ seen).
Proof.
  induction cs as [|c0 cs IH]; intros seen H c Hc; simpl in *; [contradiction|].
  destruct H as (H1 & _ & H3). destruct Hc as [<-|Hc].
  - intros x Hx. right. apply in_or_app. right. auto.
  - intros x Hx. specialize (IH _ H3 _ Hc x Hx). apply in_app_or in IH.
    destruct IH as [IH|[<-|IH]]; [right; apply in_or_app; left; exact IH | left; reflexivity
                                 | right; apply in_or_app; right; exact IH].
Qed.

(** no name is defined twice; every name a CTE or the final SELECT reads is defined *)
Theorem Scoped_self_contained q : Scoped q ->
  NoDup (names (q_ctes q))
  /\ (forall c, In c (q_ctes q) -> incl (c_refs c) (names (q_ctes q)))
  /\ incl (q_main q) (names (q_ctes q)).
Proof.
  intros [H1 H2]. split; [eapply scoped_from_nodup; eauto|]. split; [|exact H2].
  intros c Hc x Hx. pose proof (scoped_from_refs _ _ H1 c Hc x Hx) as H. rewrite app_nil_r in H. exact H.
Qed.

(** ** _convert_leaf_to_cte *)
Definition wrap (q : query) (n : string) : query :=
  mkQ (q_ctes q ++ [mkCte n (q_main q)]) [n].

Lemma names_app a b : names (a ++ b) = names a ++ names b.
Proof. apply map_app. Qed.

Lemma wrap_scoped q n : Scoped q -> ~ In n (names (q_ctes q)) -> Scoped (wrap q n).
Proof.
  intros [H1 H2] Hn. split; simpl.
  - apply scoped_from_app. split; [exact H1|]. simpl. rewrite app_nil_r. repeat split.
    + intros x Hx. apply in_rev. rewrite rev_involutive. auto.
    + intro Hx. apply in_rev in Hx. auto.
  - rewrite names_app. simpl. intros x [<-|[]]. apply in_or_app. right. left. reflexivity.
Qed.

(** ** _add_ctes_to_expression *)
Definition apply_ren (ren : list (string * string)) (x : string) : string :=
  match find (fun p => String.eqb (fst p) x) ren with Some p => snd p | None => x end.
Definition rename_cte (f : string -> string) (c : cte) : cte := mkCte (f (c_name c)) (map f (c_refs c)).

(** [seen] is the implementation's `existing_cte_names` (NOT extended by names that are appended
    unchanged), [ren] its `replaced_cte_names`, [fresh] the answers of the crc32-of-uuid4 oracle *)
Fixpoint add_ctes (ex : list cte) (seen : list string) (ren : list (string * string))
         (inc : list cte) (fresh : list string) : list cte :=
  match inc with
  | [] => ex
  | c :: inc' =>
      let c1 := rename_cte (apply_ren ren) c in
      if mem (c_name c1) seen then
        match fresh with
        | f :: fresh' =>
            add_ctes (ex ++ [mkCte f (c_refs c1)]) (f :: seen) ((c_name c1, f) :: ren) inc' fresh'
        | [] => add_ctes (ex ++ [c1]) seen ren inc' []
        end
      else add_ctes (ex ++ [c1]) seen ren inc' fresh
  end.

Lemma apply_ren_notkey ren x : ~ In x (map fst ren) -> apply_ren ren x = x.
Proof.
  unfold apply_ren. induction ren as [|[k v] ren IH]; simpl; intro H; [reflexivity|].
  destruct (String.eqb k x) eqn:E.
  - apply String.eqb_eq in E. exfalso. apply H. left. exact E.
  - apply IH. intro Hx. apply H. right. exact Hx.
Qed.

Lemma apply_ren_cons k v ren x :
  apply_ren ((k, v) :: ren) x = if String.eqb k x then v else apply_ren ren x.
Proof. unfold apply_ren. simpl. destruct (String.eqb k x); reflexivity. Qed.

Lemma add_ctes_inv : forall inc ex seen ren fresh pre,
  scoped_from [] ex ->
  scoped_from pre inc ->
  (forall x, In x seen -> In x (names ex)) ->
  (forall x, In x (names ex) -> In x seen \/ In x pre) ->
  (forall x, In x pre -> In (apply_ren ren x) (names ex)) ->
  (forall x, In x (map fst ren) -> In x pre) ->
  NoDup fresh ->
  (forall f, In f fresh -> ~ In f (names ex) /\ ~ In f pre /\ ~ In f (names inc)) ->
  List.length inc <= List.length fresh ->
  let res := add_ctes ex seen ren inc fresh in
  scoped_from [] res
  /\ (exists tl, res = ex ++ tl /\ List.length tl = List.length inc)
  /\ (forall x, In x (names inc) -> In x (names res)).
Proof.
  induction inc as [|c inc IH]; intros ex seen ren fresh pre Hex Hinc I2 I7 I3 I4 Hnd Hfr Hlen; simpl.
  - split; [exact Hex|]. split; [exists []; rewrite app_nil_r; auto | intros x []].
  - simpl in Hinc. destruct Hinc as (Hrefs & Hname & Hrest).
    assert (En : apply_ren ren (c_name c) = c_name c).
    { apply apply_ren_notkey. intro Hk. apply Hname. apply I4. exact Hk. }
    assert (Hrefs1 : incl (map (apply_ren ren) (c_refs c)) (names ex)).
    { intros y Hy. apply in_map_iff in Hy. destruct Hy as [x [<- Hx]]. apply I3. apply Hrefs. exact Hx. }
    rewrite En.
    assert (Happ : forall c', incl (c_refs c') (names ex) -> ~ In (c_name c') (names ex) ->
                              scoped_from [] (ex ++ [c'])).
    { intros c' Hr Hn. apply scoped_from_app. split; [exact Hex|]. simpl. rewrite app_nil_r.
      repeat split.
      - intros x Hx. apply in_rev. rewrite rev_involutive. auto.
      - intro Hx. apply in_rev in Hx. auto. }
    destruct (mem (c_name c) seen) eqn:Edup.
    + (* duplicate name: renamed to the oracle's answer *)
      destruct fresh as [|f fresh']; [simpl in Hlen; lia|].
      apply mem_In in Edup.
      destruct (Hfr f (or_introl eq_refl)) as (Hf1 & Hf2 & Hf3).
      inversion Hnd as [|? ? Hnf Hnd']; subst.
      specialize (IH (ex ++ [mkCte f (map (apply_ren ren) (c_refs c))]) (f :: seen)
                     ((c_name c, f) :: ren) fresh' (c_name c :: pre)).
      destruct IH as (R1 & (tl & R2 & R2l) & R3).
      * apply Happ; assumption.
      * exact Hrest.
      * intros x [<-|Hx]; rewrite names_app; apply in_or_app; [right; left; reflexivity | left; auto].
      * intros x Hx. rewrite names_app in Hx. apply in_app_or in Hx. destruct Hx as [Hx|[<-|[]]].
        -- destruct (I7 x Hx); [left; right; assumption | right; right; assumption].
        -- left; left; reflexivity.
      * intros x Hx. rewrite apply_ren_cons, names_app. apply in_or_app.
        destruct (String.eqb (c_name c) x) eqn:E.
        -- right; left; reflexivity.
        -- left. destruct Hx as [<-|Hx]; [rewrite String.eqb_refl in E; discriminate | auto].
      * intros x [<-|Hx]; [left; reflexivity | right; auto].
      * exact Hnd'.
      * intros g Hg. destruct (Hfr g (or_intror Hg)) as (G1 & G2 & G3). repeat split.
        -- rewrite names_app. intro H. apply in_app_or in H. destruct H as [H|[<-|[]]]; [auto | contradiction].
        -- intros [<-|H]; [apply G3; left; reflexivity | auto].
        -- intro H. apply G3. right. exact H.
      * simpl in Hlen. lia.
      * split; [exact R1|]. split.
        -- exists (mkCte f (map (apply_ren ren) (c_refs c)) :: tl). rewrite R2, <- app_assoc. simpl.
           split; [reflexivity | lia].
        -- intros x [<-|Hx]; [|auto]. rewrite R2, names_app. apply in_or_app. left.
           rewrite names_app. apply in_or_app. left. apply I2. exact Edup.
    + (* new name: appended unchanged (refs renamed) *)
      apply mem_notIn in Edup.
      assert (Hnew : ~ In (c_name c) (names ex)).
      { intro H. destruct (I7 _ H); contradiction. }
      assert (Hcommon : forall fr, NoDup fr ->
                (forall f, In f fr -> ~ In f (names ex) /\ ~ In f pre /\ ~ In f (names (c :: inc))) ->
                List.length inc <= List.length fr ->
                let res := add_ctes (ex ++ [rename_cte (apply_ren ren) c]) seen ren inc fr in
                scoped_from [] res
                /\ (exists tl, res = ex ++ tl /\ List.length tl = S (List.length inc))
                /\ (forall x, In x (names (c :: inc)) -> In x (names res))).
      { intros fr Hnd2 Hfr2 Hlen2.
        specialize (IH (ex ++ [rename_cte (apply_ren ren) c]) seen ren fr (c_name c :: pre)).
        destruct IH as (R1 & (tl & R2 & R2l) & R3).
        * apply Happ; simpl; [exact Hrefs1 | rewrite En; exact Hnew].
        * exact Hrest.
        * intros x Hx. rewrite names_app. apply in_or_app. left. auto.
        * intros x Hx. rewrite names_app in Hx. apply in_app_or in Hx. destruct Hx as [Hx|[Hx|[]]].
          -- destruct (I7 x Hx); [left; assumption | right; right; assumption].
          -- simpl in Hx. rewrite En in Hx. right; left; exact Hx.
        * intros x Hx. rewrite names_app. apply in_or_app. destruct Hx as [<-|Hx].
          -- right. simpl. rewrite En. left. reflexivity.
          -- left. auto.
        * intros x Hx. right. auto.
        * exact Hnd2.
        * intros g Hg. destruct (Hfr2 g Hg) as (G1 & G2 & G3). repeat split.
          -- rewrite names_app. intro H. apply in_app_or in H. destruct H as [H|[H|[]]]; [auto|].
             simpl in H. rewrite En in H. apply G3. left. exact H.
          -- intros [<-|H]; [apply G3; left; reflexivity | auto].
          -- intro H. apply G3. right. exact H.
        * exact Hlen2.
        * split; [exact R1|]. split.
          -- exists (rename_cte (apply_ren ren) c :: tl). rewrite R2, <- app_assoc. simpl.
             split; [reflexivity | lia].
          -- intros x [<-|Hx]; [|auto]. rewrite R2, !names_app. apply in_or_app. left.
             apply in_or_app. right. simpl. rewrite En. left. reflexivity. }
      destruct (Hcommon fresh Hnd Hfr) as (R1 & (tl & R2 & R2l) & R3); [simpl in Hlen; lia|].
      split; [exact R1|]. split; [exists tl; split; [exact R2 | simpl; lia] | exact R3].
Qed.

(** freshness of the oracle's answers, as a decidable condition *)
Fixpoint nodupb (l : list string) : bool :=
  match l with [] => true | x :: l' => negb (mem x l') && nodupb l' end.
Lemma nodupb_iff l : nodupb l = true <-> NoDup l.
Proof.
  induction l as [|x l IH]; simpl.
  - split; [constructor | reflexivity].
  - rewrite andb_true_iff, negb_true_iff, mem_notIn, IH. split.
    + intros [H1 H2]. constructor; assumption.
    + intro H. inversion H; subst. tauto.
Qed.
Definition disjointb (a b : list string) : bool := forallb (fun x => negb (mem x b)) a.
Lemma disjointb_spec a b : disjointb a b = true <-> forall x, In x a -> ~ In x b.
Proof.
  unfold disjointb. rewrite forallb_forall. split; intros H x Hx.
  - apply mem_notIn. apply negb_true_iff. auto.
  - apply negb_true_iff. apply mem_notIn. auto.
Qed.

Definition fresh_ok (ex inc : list cte) (fresh : list string) : bool :=
  nodupb fresh && disjointb fresh (names ex ++ names inc) && Nat.leb (List.length inc) (List.length fresh).

Definition merge_ctes (ex inc : list cte) (fresh : list string) : list cte :=
  add_ctes ex (names ex) [] inc fresh.

Lemma merge_ctes_scoped ex inc fresh :
  scoped_from [] ex -> scoped_from [] inc -> fresh_ok ex inc fresh = true ->
  let res := merge_ctes ex inc fresh in
  scoped_from [] res
  /\ (exists tl, res = ex ++ tl /\ List.length tl = List.length inc)
  /\ (forall x, In x (names inc) -> In x (names res)).
Proof.
  intros Hex Hinc Hf. unfold fresh_ok in Hf.
  apply andb_true_iff in Hf. destruct Hf as [Hf Hl]. apply andb_true_iff in Hf. destruct Hf as [Hn Hd].
  apply nodupb_iff in Hn. apply Nat.leb_le in Hl.
  pose proof (proj1 (disjointb_spec _ _) Hd) as Hd'.
  apply (add_ctes_inv inc ex (names ex) [] fresh []).
  - exact Hex.
  - exact Hinc.
  - intros x Hx. exact Hx.
  - intros x Hx. left. exact Hx.
  - intros x Hx. destruct Hx.
  - intros x Hx. destruct Hx.
  - exact Hn.
  - intros f Hf. specialize (Hd' f Hf). repeat split.
    + intro H. apply Hd'. apply in_or_app. left. exact H.
    + intro H. destruct H.
    + intro H. apply Hd'. apply in_or_app. right. exact H.
  - exact Hl.
Qed.

(** ** join and set operations *)
Definition last_name (cs : list cte) (d : string) : string :=
  match rev cs with c :: _ => c_name c | [] => d end.

Definition njoin (q other : query) (n_other : string) (fresh : list string) : query :=
  let cs := merge_ctes (q_ctes q) (q_ctes (wrap other n_other)) fresh in
  mkQ cs (q_main q ++ [last_name cs n_other]).

(** _set_operation: the right operand's final SELECT keeps reading its own last CTE by its
    ORIGINAL name (it is not passed through the renaming) *)
Definition nsetop (q other : query) (n_other : string) (fresh : list string) (n_res : string) : query :=
  let cs := merge_ctes (q_ctes q) (q_ctes (wrap other n_other)) fresh in
  wrap (mkQ cs (q_main q ++ [n_other])) n_res.

Lemma last_name_in cs d : cs <> [] -> In (last_name cs d) (names cs).
Proof.
  intro H. unfold last_name. destruct (rev cs) as [|c r] eqn:E.
  - exfalso. apply H. rewrite <- (rev_involutive cs), E. reflexivity.
  - apply in_map. apply in_rev. rewrite E. left. reflexivity.
Qed.

Lemma njoin_scoped q other n_other fresh :
  Scoped q -> Scoped other -> ~ In n_other (names (q_ctes other)) ->
  fresh_ok (q_ctes q) (q_ctes (wrap other n_other)) fresh = true ->
  Scoped (njoin q other n_other fresh).
Proof.
  intros [Hq1 Hq2] Ho Hn Hf.
  destruct (wrap_scoped _ _ Ho Hn) as [Hw _].
  destruct (merge_ctes_scoped _ _ _ Hq1 Hw Hf) as (R1 & (tl & R2 & R2l) & R3).
  unfold njoin. set (cs := merge_ctes (q_ctes q) (q_ctes (wrap other n_other)) fresh) in *.
  split; cbn [q_ctes q_main]; [exact R1|].
  intros x Hx. apply in_app_or in Hx. destruct Hx as [Hx|[<-|[]]].
  - rewrite R2, names_app. apply in_or_app. left. auto.
  - apply last_name_in. rewrite R2. simpl in R2l. rewrite app_length in R2l.
    destruct tl; [simpl in R2l; lia|]. intro H. apply app_eq_nil in H. destruct H; discriminate.
Qed.

Lemma nsetop_scoped q other n_other fresh n_res :
  Scoped q -> Scoped other -> ~ In n_other (names (q_ctes other)) ->
  fresh_ok (q_ctes q) (q_ctes (wrap other n_other)) fresh = true ->
  ~ In n_res (names (merge_ctes (q_ctes q) (q_ctes (wrap other n_other)) fresh)) ->
  Scoped (nsetop q other n_other fresh n_res).
Proof.
  intros [Hq1 Hq2] Ho Hn Hf Hres.
  destruct (wrap_scoped _ _ Ho Hn) as [Hw _].
  destruct (merge_ctes_scoped _ _ _ Hq1 Hw Hf) as (R1 & (tl & R2 & R2l) & R3).
  unfold nsetop. set (cs := merge_ctes (q_ctes q) (q_ctes (wrap other n_other)) fresh) in *.
  apply wrap_scoped; [|exact Hres].
  split; cbn [q_ctes q_main]; [exact R1|].
  intros x Hx. apply in_app_or in Hx. destruct Hx as [Hx|[<-|[]]].
  - rewrite R2, names_app. apply in_or_app. left. auto.
  - apply R3. simpl. rewrite names_app. apply in_or_app. right. left. reflexivity.
Qed.

(** ** the operations of a DataFrame program, as far as the CTE list is concerned *)
Inductive nop :=
| NLocal                                    (* a clause written into the open SELECT *)
| NWrap (n : string)                        (* _convert_leaf_to_cte *)
| NJoin (other : query) (n_other : string) (fresh : list string)
| NSetOp (other : query) (n_other : string) (fresh : list string) (n_res : string).

Definition nstep (q : query) (o : nop) : query :=
  match o with
  | NLocal => q
  | NWrap n => wrap q n
  | NJoin other n_other fresh => njoin q other n_other fresh
  | NSetOp other n_other fresh n_res => nsetop q other n_other fresh n_res
  end.

(** the oracle hypothesis of one step: the names drawn are new *)
Definition nop_ok (q : query) (o : nop) : bool :=
  match o with
  | NLocal => true
  | NWrap n => negb (mem n (names (q_ctes q)))
  | NJoin other n_other fresh =>
      scopedb other && negb (mem n_other (names (q_ctes other)))
      && fresh_ok (q_ctes q) (q_ctes (wrap other n_other)) fresh
  | NSetOp other n_other fresh n_res =>
      scopedb other && negb (mem n_other (names (q_ctes other)))
      && fresh_ok (q_ctes q) (q_ctes (wrap other n_other)) fresh
      && negb (mem n_res (names (merge_ctes (q_ctes q) (q_ctes (wrap other n_other)) fresh)))
  end.

Fixpoint nops_ok (q : query) (ops : list nop) : bool :=
  match ops with
  | [] => true
  | o :: ops' => nop_ok q o && nops_ok (nstep q o) ops'
  end.

Theorem step_scoped q o : Scoped q -> nop_ok q o = true -> Scoped (nstep q o).
Proof.
  intros Hq Hok. destruct o as [|n|other n_other fresh|other n_other fresh n_res]; cbn [nstep nop_ok] in *.
  - exact Hq.
  - apply wrap_scoped; [exact Hq|]. apply mem_notIn. apply negb_true_iff. exact Hok.
  - apply andb_true_iff in Hok. destruct Hok as [Hok H3].
    apply andb_true_iff in Hok. destruct Hok as [H1 H2].
    apply njoin_scoped.
    + exact Hq.
    + apply scopedb_iff. exact H1.
    + apply mem_notIn. apply negb_true_iff. exact H2.
    + exact H3.
  - apply andb_true_iff in Hok. destruct Hok as [Hok H4].
    apply andb_true_iff in Hok. destruct Hok as [Hok H3].
    apply andb_true_iff in Hok. destruct Hok as [H1 H2].
    apply nsetop_scoped.
    + exact Hq.
    + apply scopedb_iff. exact H1.
    + apply mem_notIn. apply negb_true_iff. exact H2.
    + exact H3.
    + apply mem_notIn. apply negb_true_iff. exact H4.
Qed.

Theorem run_scoped : forall ops q, Scoped q -> nops_ok q ops = true -> Scoped (fold_left nstep ops q).
Proof.
  induction ops as [|o ops IH]; intros q Hq Hok; simpl in *; [exact Hq|].
  apply andb_true_iff in Hok. destruct Hok as [H1 H2].
  apply IH; [apply step_scoped; assumption | exact H2].
Qed.

Definition q_init : query := mkQ [] [].
Lemma q_init_scoped : Scoped q_init.
Proof. split; simpl; [exact I | intros x []]. Qed.

(** ** _replace_cte_names_with_hashes *)
Definition rename_q (f : string -> string) (q : query) : query :=
  mkQ (map (rename_cte f) (q_ctes q)) (map f (q_main q)).
Definition injective_on (f : string -> string) (l : list string) : Prop :=
  forall x y, In x l -> In y l -> f x = f y -> x = y.

Lemma rename_scoped_from f cs : forall seen,
  scoped_from seen cs -> injective_on f (seen ++ names cs) ->
  scoped_from (map f seen) (map (rename_cte f) cs).
Proof.
  induction cs as [|c cs IH]; intros seen H Hinj; simpl in *; [exact I|].
  destruct H as (H1 & H2 & H3). repeat split.
  - intros y Hy. apply in_map_iff in Hy. destruct Hy as [x [<- Hx]]. apply in_map. auto.
  - intro Hy. apply in_map_iff in Hy. destruct Hy as [s [E Hs]].
    apply H2. rewrite <- (Hinj s (c_name c)); auto.
    + apply in_or_app. left. exact Hs.
    + apply in_or_app. right. left. reflexivity.
  - apply (IH (c_name c :: seen) H3). intros x y Hx Hy. apply Hinj.
    + simpl in Hx. destruct Hx as [<-|Hx]; [apply in_or_app; right; left; reflexivity|].
      apply in_app_or in Hx. apply in_or_app. destruct Hx; [left | right; right]; assumption.
    + simpl in Hy. destruct Hy as [<-|Hy]; [apply in_or_app; right; left; reflexivity|].
      apply in_app_or in Hy. apply in_or_app. destruct Hy; [left | right; right]; assumption.
Qed.

Theorem rename_scoped f q :
  Scoped q -> injective_on f (names (q_ctes q)) -> Scoped (rename_q f q).
Proof.
  intros [H1 H2] Hinj. split; simpl.
  - apply (rename_scoped_from f _ [] H1). exact Hinj.
  - unfold names. rewrite map_map. simpl. intros y Hy. apply in_map_iff in Hy.
    destruct Hy as [x [<- Hx]]. specialize (H2 x Hx). unfold names in H2. apply in_map_iff in H2.
    destruct H2 as [c [<- Hc]]. apply in_map_iff. exists c. split; [reflexivity | exact Hc].
Qed.

(** the hypothesis, decidably: the new names of ONE query are pairwise distinct *)
Definition injective_onb (f : string -> string) (l : list string) : bool := nodupb (map f l).
Lemma injective_onb_sound f l : injective_onb f l = true -> injective_on f l.
Proof.
  unfold injective_onb. rewrite nodupb_iff. induction l as [|a l IH]; simpl; intros Hnd x y Hx Hy E.
  - contradiction.
  - inversion Hnd as [|? ? Hna Hnd']; subst.
    destruct Hx as [<-|Hx], Hy as [<-|Hy].
    + reflexivity.
    + exfalso. apply Hna. rewrite E. apply in_map. exact Hy.
    + exfalso. apply Hna. rewrite <- E. apply in_map. exact Hx.
    + exact (IH Hnd' x y Hx Hy E).
Qed.

(** the loop as written: after the k-th CTE the WHOLE accumulated mapping is applied to every
    identifier of the current tree; with new names that are not old names this is the simultaneous
    renaming *)
Fixpoint seq_apply (acc pairs : list (string * string)) (x : string) : string :=
  match pairs with
  | [] => x
  | p :: ps => seq_apply (acc ++ [p]) ps (apply_ren (acc ++ [p]) x)
  end.

Lemma apply_ren_app_notkey a b x : ~ In x (map fst a) -> apply_ren (a ++ b) x = apply_ren b x.
Proof.
  induction a as [|[k v] a IH]; simpl; intro H; [reflexivity|].
  rewrite apply_ren_cons. destruct (String.eqb k x) eqn:E.
  - apply String.eqb_eq in E. exfalso. apply H. left. exact E.
  - apply IH. intro Hx. apply H. right. exact Hx.
Qed.

Lemma seq_apply_simultaneous : forall ps acc x,
  (forall h, In h (map snd (acc ++ ps)) -> ~ In h (map fst (acc ++ ps))) ->
  ~ In x (map fst acc) ->
  seq_apply acc ps x = apply_ren (acc ++ ps) x.
Proof.
  induction ps as [|[k v] ps IH]; intros acc x Hv Hx; simpl.
  - rewrite app_nil_r. symmetry. apply apply_ren_notkey. exact Hx.
  - assert (E1 : apply_ren (acc ++ [(k, v)]) x = if String.eqb k x then v else x).
    { rewrite apply_ren_app_notkey by exact Hx. rewrite apply_ren_cons. reflexivity. }
    rewrite E1.
    assert (Hv' : forall h, In h (map snd ((acc ++ [(k, v)]) ++ ps)) ->
                            ~ In h (map fst ((acc ++ [(k, v)]) ++ ps))).
    { rewrite <- app_assoc. simpl. exact Hv. }
    assert (Hvk : ~ In v (map fst (acc ++ (k, v) :: ps))).
    { apply Hv. rewrite map_app. apply in_or_app. right. left. reflexivity. }
    destruct (String.eqb k x) eqn:E.
    + apply String.eqb_eq in E. subst x.
      rewrite IH; [|exact Hv'|].
      * rewrite <- app_assoc. simpl.
        rewrite (apply_ren_notkey _ v) by exact Hvk.
        rewrite apply_ren_app_notkey by exact Hx. rewrite apply_ren_cons, String.eqb_refl. reflexivity.
      * intro H. apply Hvk. rewrite map_app in *. simpl. apply in_app_or in H. apply in_or_app.
        destruct H as [H|[H|[]]]; [left; exact H | right; left; exact H].
    + rewrite IH; [rewrite <- app_assoc; reflexivity | exact Hv' |].
      rewrite map_app. simpl. intro H. apply in_app_or in H. destruct H as [H|[H|[]]]; [auto|].
      simpl in H. subst. rewrite String.eqb_refl in E. discriminate.
Qed.

Corollary hash_loop_is_renaming pairs x :
  disjointb (map snd pairs) (map fst pairs) = true ->
  seq_apply [] pairs x = apply_ren pairs x.
Proof.
  intro H. apply (seq_apply_simultaneous pairs [] x); [|intros []].
  simpl. apply disjointb_spec. exact H.
Qed.

(** ** executable comparison used by the correspondence check *)
Fixpoint slist_eqb (a b : list string) : bool :=
  match a, b with
  | [], [] => true
  | x :: a', y :: b' => String.eqb x y && slist_eqb a' b'
  | _, _ => false
  end.
Definition cte_eqb (a b : cte) : bool := String.eqb (c_name a) (c_name b) && slist_eqb (c_refs a) (c_refs b).
Fixpoint ctes_eqb (a b : list cte) : bool :=
  match a, b with
  | [], [] => true
  | x :: a', y :: b' => cte_eqb x y && ctes_eqb a' b'
  | _, _ => false
  end.
Definition query_eqb (a b : query) : bool := ctes_eqb (q_ctes a) (q_ctes b) && slist_eqb (q_main a) (q_main b).

(** non-vacuity: a self-join (every incoming CTE is a duplicate) followed by a union *)
Example scoped_example :
  let d := mkQ [mkCte "t1" []; mkCte "t2" ["t1"]] ["t2"] in
  let ops := [NWrap "t3"; NJoin d "t4" ["u1"; "u2"; "u3"]; NLocal; NSetOp d "t4" ["v1"; "v2"; "v3"] "t9"] in
  nops_ok d ops = true /\ scopedb (fold_left nstep ops d) = true
  /\ names (q_ctes (fold_left nstep ops d)) = ["t1"; "t2"; "t3"; "u1"; "u2"; "t4"; "v1"; "v2"; "v3"; "t9"].
Proof. vm_compute. repeat split. Qed.
