(** C03 (iii) -- a checker WITH A SOUNDNESS THEOREM for "the optimised chain means what the raw chain
    means, on every input".  sqlglot's optimizer is environment and is not modelled: for each program
    the check exports the tree sqlframe built (raw) and the tree the optimizer returned (opt) and Coq
    decides [equiv_check cs raw opt]; [equiv_check_sound] turns a [true] into equality of the two
    chains' results for every well-formed input frame.

    The normaliser [nf'] extends Sql.Norm.nf by
      - [fuse]    inlining a filter/projection-only block into its consumer (substitution [subst];
                  lemma [subst_eval]; ORDER BY keys are carried over only when SQL's name resolution
                  provably gives them the same value -- [key_inl_ok]);
      - [canon_blk] flattening / constant-folding / sorting / de-duplicating WHERE conjuncts and
                  constant-folding + orienting expressions ([enorm]).
    Qualifier erasure and the CASTs of the VALUES layer are handled by the exporter (fail-closed). *)
From SF Require Export Sql.Norm.
From Coq Require Import Permutation.
Open Scope Z_scope.

(** * Substitution of a select list into an expression *)
Fixpoint find_item (n : string) (sel : list (expr * string)) : option expr :=
  match sel with
  | [] => None
  | (e, m) :: sel' => if String.eqb m n then Some e else find_item n sel'
  end.

Fixpoint subst (sel : list (expr * string)) (e : expr) : expr :=
  match e with
  | ECol n => match find_item n sel with Some e' => e' | None => ELit VNull end
  | ELit v => ELit v
  | EBin o a b => EBin o (subst sel a) (subst sel b)
  | ENot a => ENot (subst sel a)
  | ENeg a => ENeg (subst sel a)
  | EIsNull a => EIsNull (subst sel a)
  | EIf c t e' => EIf (subst sel c) (subst sel t) (subst sel e')
  | ECoalesce a b => ECoalesce (subst sel a) (subst sel b)
  end.

Lemma lookup_proj cs sel r n :
  lookup (out_cols sel) (proj cs sel r) n = option_map (eval cs r) (find_item n sel).
Proof.
  unfold lookup, out_cols, proj.
  induction sel as [|[e m] sel IH]; simpl; [reflexivity|].
  destruct (String.eqb m n); simpl; [reflexivity|].
  destruct (index_of n (map snd sel)) as [i|]; simpl in *.
  - exact IH.
  - destruct (find_item n sel); simpl in *; [discriminate IH || exact IH | reflexivity].
Qed.

(** projection then expression = substituted expression *)
Lemma subst_eval cs sel r e :
  eval (out_cols sel) (proj cs sel r) e = eval cs r (subst sel e).
Proof.
  induction e; simpl.
  - rewrite lookup_proj. destruct (find_item n sel); reflexivity.
  - reflexivity.
  - rewrite IHe1, IHe2. reflexivity.
  - rewrite IHe. reflexivity.
  - rewrite IHe. reflexivity.
  - rewrite IHe. reflexivity.
  - rewrite IHe1, IHe2, IHe3. reflexivity.
  - rewrite IHe1, IHe2. reflexivity.
Qed.

Lemma holds_subst cs sel r e : holds (out_cols sel) (proj cs sel r) e = holds cs r (subst sel e).
Proof. unfold holds. rewrite subst_eval. reflexivity. Qed.

Lemma all_hold_subst cs sel r ws :
  all_hold (out_cols sel) ws (proj cs sel r) = all_hold cs (map (subst sel) ws) r.
Proof.
  unfold all_hold. induction ws as [|w ws IH]; simpl; [reflexivity|].
  rewrite holds_subst, IH. reflexivity.
Qed.

Definition subst_sel (s1 s2 : list (expr * string)) : list (expr * string) :=
  map (fun it => (subst s1 (fst it), snd it)) s2.

Lemma out_cols_subst_sel s1 s2 : out_cols (subst_sel s1 s2) = out_cols s2.
Proof. unfold out_cols, subst_sel. rewrite map_map. reflexivity. Qed.

Lemma proj_subst cs s1 s2 r : proj (out_cols s1) s2 (proj cs s1 r) = proj cs (subst_sel s1 s2) r.
Proof.
  unfold proj at 1 3. unfold subst_sel. rewrite map_map. apply map_ext. intro it. simpl. apply subst_eval.
Qed.

(** * Looking a column up in "input columns ++ output aliases" *)
Lemma mem_index_of n cs : mem n cs = true -> exists i, index_of n cs = Some i.
Proof.
  unfold mem. induction cs as [|c cs IH]; simpl; [discriminate|].
  rewrite String.eqb_sym. destruct (String.eqb c n); simpl; [eauto|].
  intro H. destruct (IH H) as [i E]. rewrite E. simpl. eauto.
Qed.

Lemma index_of_app_l n cs o i : index_of n cs = Some i -> index_of n (cs ++ o) = Some i.
Proof.
  revert i. induction cs as [|c cs IH]; simpl; intros i H; [discriminate|].
  destruct (String.eqb c n); [exact H|].
  destruct (index_of n cs) as [j|]; simpl in *; [|discriminate].
  rewrite (IH j eq_refl). exact H.
Qed.

Lemma lookup_app_l cs o (r ro : row) n :
  mem n cs = true -> List.length r = List.length cs -> lookup (cs ++ o) (r ++ ro) n = lookup cs r n.
Proof.
  intros Hm Hl. destruct (mem_index_of _ _ Hm) as [i E]. unfold lookup.
  rewrite (index_of_app_l _ _ _ _ E), E. apply index_of_lt in E.
  apply nth_error_app1. lia.
Qed.

Lemma eval_app_l cs o (r ro : row) e :
  cols_in cs e = true -> List.length r = List.length cs -> eval (cs ++ o) (r ++ ro) e = eval cs r e.
Proof.
  intros Hc Hl. apply eval_ext. intros n Hn. apply lookup_app_l; [|exact Hl].
  unfold cols_in in Hc. rewrite forallb_forall in Hc. auto.
Qed.

(** * ORDER BY keys under inlining *)
Definition is_outcol (ocs : list string) (e : expr) : bool :=
  match e with ECol m => mem m ocs | _ => false end.

Lemma eval_okey_general cs ocs p e d nf :
  is_outcol ocs e = false ->
  eval_okey cs ocs p (mkKey e d nf) = eval (cs ++ ocs) (snd p ++ fst p) e.
Proof. unfold eval_okey. destruct e; simpl; intro H; try reflexivity. rewrite H. reflexivity. Qed.

Lemma eval_okey_outcol cs ocs p n d nf :
  mem n ocs = true -> eval_okey cs ocs p (mkKey (ECol n) d nf) = eval ocs (fst p) (ECol n).
Proof. unfold eval_okey. simpl. intro H. rewrite H. reflexivity. Qed.

Definition key_inl (s1 : list (expr * string)) (ocs2 : list string) (k : okey) : okey :=
  if is_outcol ocs2 (k_e k) then k else mkKey (subst s1 (k_e k)) (k_desc k) (k_nf k).

Definition key_inl_ok (cs : list string) (s1 : list (expr * string)) (ocs2 : list string) (k : okey) : bool :=
  is_outcol ocs2 (k_e k)
  || (cols_in (out_cols s1) (k_e k) && cols_in cs (subst s1 (k_e k))
      && negb (is_outcol ocs2 (subst s1 (k_e k)))).

Lemma key_inl_sound cs s1 ocs2 k (r out : row) :
  key_inl_ok cs s1 ocs2 k = true -> List.length r = List.length cs ->
  eval_okey (out_cols s1) ocs2 (out, proj cs s1 r) k = eval_okey cs ocs2 (out, r) (key_inl s1 ocs2 k).
Proof.
  intros Hok Hl. unfold key_inl_ok, key_inl in *. destruct k as [e d nf]. simpl in *.
  destruct (is_outcol ocs2 e) eqn:Eo; simpl in Hok.
  - destruct e; simpl in Eo; try discriminate. rewrite !eval_okey_outcol by exact Eo. reflexivity.
  - apply andb_true_iff in Hok. destruct Hok as [Hok H3]. apply andb_true_iff in Hok. destruct Hok as [H1 H2].
    apply negb_true_iff in H3.
    rewrite (eval_okey_general _ _ _ e) by exact Eo.
    rewrite (eval_okey_general _ _ _ (subst s1 e)) by exact H3. simpl.
    rewrite eval_app_l; [|exact H1 | unfold proj, out_cols; rewrite !map_length; reflexivity].
    rewrite eval_app_l; [|exact H2 | exact Hl].
    apply subst_eval.
Qed.

(** * Inlining a filter/projection-only block into its consumer *)
Definition simple_blk (b : block) : bool :=
  negb (b_distinct b) && match b_order b with [] => true | _ => false end
  && match b_limit b with None => true | Some _ => false end.

Definition can_inline (cs : list string) (b1 b2 : block) : bool :=
  simple_blk b1 && forallb (key_inl_ok cs (b_sel b1) (out_cols (b_sel b2))) (b_order b2).

Definition inline (b1 b2 : block) : block :=
  mkBlock (b_where b1 ++ map (subst (b_sel b1)) (b_where b2))
          (subst_sel (b_sel b1) (b_sel b2))
          (b_distinct b2)
          (map (key_inl (b_sel b1) (out_cols (b_sel b2))) (b_order b2))
          (b_limit b2).

Lemma eval_filterproj_block b fr :
  simple_blk b = true ->
  eval_block b fr = mkFrame (out_cols (b_sel b))
                            (map (proj (cols fr) (b_sel b)) (filter (all_hold (cols fr) (b_where b)) (rows fr))).
Proof.
  unfold simple_blk. intro H. apply andb_true_iff in H. destruct H as [H Hl].
  apply andb_true_iff in H. destruct H as [Hd Ho]. apply negb_true_iff in Hd.
  unfold eval_block. rewrite Hd. destruct (b_order b); [|discriminate]. destruct (b_limit b); [discriminate|].
  rewrite sort_on_nil_keys by reflexivity. rewrite map_fst_pairs. reflexivity.
Qed.

Lemma filter_map_comm {A B} (f : A -> B) (p : B -> bool) l :
  filter p (map f l) = map f (filter (fun x => p (f x)) l).
Proof.
  induction l as [|x l IH]; simpl; [reflexivity|]. destruct (p (f x)); simpl; rewrite IH; reflexivity.
Qed.

Lemma filter_filter_all cs ws1 ws2 (l : list row) :
  filter (all_hold cs ws2) (filter (all_hold cs ws1) l) = filter (all_hold cs (ws1 ++ ws2)) l.
Proof.
  induction l as [|r l IH]; simpl; [reflexivity|].
  assert (E : all_hold cs (ws1 ++ ws2) r = all_hold cs ws1 r && all_hold cs ws2 r)
    by (unfold all_hold; apply forallb_app).
  rewrite E. destruct (all_hold cs ws1 r); simpl; [|exact IH].
  destruct (all_hold cs ws2 r); simpl; rewrite IH; reflexivity.
Qed.

Lemma dedup_on_map_snd {A B C} (h : B -> C) (l : list (A * B)) (k : A -> row) : forall seen,
  dedup_on (fun p => k (fst p)) seen (map (fun p => (fst p, h (snd p))) l)
  = map (fun p => (fst p, h (snd p))) (dedup_on (fun p => k (fst p)) seen l).
Proof.
  induction l as [|x l IH]; intro seen; simpl; [reflexivity|].
  destruct (existsb (row_eqb (k (fst x))) seen); simpl; rewrite IH; reflexivity.
Qed.

Lemma dedup_on_incl {A} (k : A -> row) (l : list A) : forall seen x, In x (dedup_on k seen l) -> In x l.
Proof.
  induction l as [|y l IH]; intros seen x H; simpl in *; [contradiction|].
  destruct (existsb (row_eqb (k y)) seen).
  - right; eauto.
  - destruct H as [<-|H]; [left; reflexivity | right; eauto].
Qed.

Theorem inline_sound b1 b2 fr :
  can_inline (cols fr) b1 b2 = true -> wf_frame fr ->
  eval_block b2 (eval_block b1 fr) = eval_block (inline b1 b2) fr.
Proof.
  intros Hc Hwf. unfold can_inline in Hc. apply andb_true_iff in Hc. destruct Hc as [Hs Hk].
  rewrite (eval_filterproj_block b1 fr Hs).
  set (cs := cols fr) in *. set (s1 := b_sel b1) in *. set (f := proj cs s1).
  set (R' := filter (all_hold cs (b_where b1 ++ map (subst s1) (b_where b2))) (rows fr)).
  set (h := fun p : row * row => (fst p, f (snd p))).
  set (s2' := subst_sel s1 (b_sel b2)).
  set (ocs2 := out_cols (b_sel b2)) in *.
  unfold eval_block at 1. cbn [cols rows].
  unfold eval_block. cbn [inline b_where b_sel b_distinct b_order b_limit]. fold cs s1 s2' ocs2.
  assert (Eo : out_cols s2' = ocs2) by apply out_cols_subst_sel. rewrite Eo. f_equal.
  (* the rows after WHERE *)
  assert (E1 : filter (all_hold (out_cols s1) (b_where b2)) (map f (filter (all_hold cs (b_where b1)) (rows fr)))
               = map f R').
  { rewrite filter_map_comm. f_equal. unfold R'. rewrite <- filter_filter_all.
    apply filter_ext. intro r. unfold f. apply all_hold_subst. }
  rewrite E1.
  (* the (output, input) pairs *)
  set (ps' := map (fun r => (proj cs s2' r, r)) R').
  assert (E2 : map (fun r => (proj (out_cols s1) (b_sel b2) r, r)) (map f R') = map h ps').
  { unfold ps'. rewrite !map_map. apply map_ext. intro r. unfold h, f. simpl. rewrite proj_subst. reflexivity. }
  rewrite E2. fold ps'.
  (* DISTINCT *)
  set (d' := if b_distinct b2 then dedup_on fst [] ps' else ps').
  assert (E3 : (if b_distinct b2 then dedup_on fst [] (map h ps') else map h ps') = map h d').
  { unfold d'. destruct (b_distinct b2); [|reflexivity].
    exact (dedup_on_map_snd f ps' (fun r => r) []). }
  rewrite E3.
  assert (Hd' : forall a, In a d' -> exists r, In r (rows fr) /\ a = (proj cs s2' r, r)).
  { intros a Ha. assert (Hin : In a ps').
    { unfold d' in Ha. destruct (b_distinct b2); [eapply dedup_on_incl; eauto | exact Ha]. }
    unfold ps' in Hin. apply in_map_iff in Hin. destruct Hin as [r [<- Hr]].
    exists r. split; [|reflexivity]. unfold R' in Hr. apply filter_In in Hr. tauto. }
  (* ORDER BY *)
  set (K2 := okeys (out_cols s1) ocs2 (b_order b2)).
  set (K' := okeys cs ocs2 (map (key_inl s1 ocs2) (b_order b2))).
  assert (E4 : sort_on K2 (map h d') = map h (sort_on K' d')).
  { rewrite <- (map_sort_on h (fun a => K2 (h a)) K2 d') by reflexivity. f_equal.
    apply sort_on_ext_in. intros a Ha. destruct (Hd' a Ha) as [r [Hr ->]].
    unfold K2, K', okeys, h. simpl. rewrite map_map. apply map_ext_in. intros k Hkin.
    simpl. f_equal; [f_equal|].
    - apply key_inl_sound.
      + rewrite forallb_forall in Hk. apply Hk. exact Hkin.
      + apply Hwf. exact Hr.
    - unfold key_inl. destruct (is_outcol ocs2 (k_e k)); reflexivity.
    - unfold key_inl. destruct (is_outcol ocs2 (k_e k)); reflexivity. }
  rewrite E4.
  destruct (b_limit b2) as [n|].
  - rewrite firstn_map, map_map. reflexivity.
  - rewrite map_map. reflexivity.
Qed.

(** * Fusing a whole chain *)
Fixpoint fuse (cs : list string) (p : block) (bs : list block) : list block :=
  match bs with
  | [] => [p]
  | b :: bs' => if can_inline cs p b then fuse cs (inline p b) bs'
                else p :: fuse (out_cols (b_sel p)) b bs'
  end.
Definition fuse_chain (cs : list string) (bs : list block) : list block :=
  match bs with [] => [] | b :: bs' => fuse cs b bs' end.

Lemma fuse_sound bs : forall p fr, wf_frame fr ->
  eval_chain (fuse (cols fr) p bs) fr = eval_chain (p :: bs) fr.
Proof.
  induction bs as [|b bs IH]; intros p fr Hwf; simpl; [reflexivity|].
  destruct (can_inline (cols fr) p b) eqn:E.
  - rewrite IH by exact Hwf. simpl. rewrite <- inline_sound by assumption. reflexivity.
  - simpl. rewrite <- (cols_eval_block p fr). rewrite IH by apply wf_eval_block. reflexivity.
Qed.

Lemma fuse_chain_sound bs fr : wf_frame fr -> eval_chain (fuse_chain (cols fr) bs) fr = eval_chain bs fr.
Proof. destruct bs as [|b bs]; intro Hwf; [reflexivity | apply fuse_sound; exact Hwf]. Qed.

(** * Canonical form of expressions: constant folding, orientation, boolean units *)

(** an expression without column references has the same value on every row *)
Fixpoint closed (e : expr) : bool :=
  match e with
  | ECol _ => false
  | ELit _ => true
  | EBin _ a b => closed a && closed b
  | ENot a | ENeg a | EIsNull a => closed a
  | EIf c t e' => closed c && closed t && closed e'
  | ECoalesce a b => closed a && closed b
  end.

Lemma closed_eval e : closed e = true -> forall cs r, eval cs r e = eval [] [] e.
Proof.
  induction e; simpl; intros H cs r.
  - discriminate.
  - reflexivity.
  - apply andb_true_iff in H. destruct H as [H1 H2]. rewrite (IHe1 H1 cs r), (IHe2 H2 cs r). reflexivity.
  - rewrite (IHe H cs r). reflexivity.
  - rewrite (IHe H cs r). reflexivity.
  - rewrite (IHe H cs r). reflexivity.
  - apply andb_true_iff in H. destruct H as [H H3]. apply andb_true_iff in H. destruct H as [H1 H2].
    rewrite (IHe1 H1 cs r), (IHe2 H2 cs r), (IHe3 H3 cs r). reflexivity.
  - apply andb_true_iff in H. destruct H as [H1 H2]. rewrite (IHe1 H1 cs r), (IHe2 H2 cs r). reflexivity.
Qed.

Definition rw_fold (e : expr) : expr := if closed e then ELit (eval [] [] e) else e.
Lemma rw_fold_sound e cs r : eval cs r (rw_fold e) = eval cs r e.
Proof.
  unfold rw_fold. destruct (closed e) eqn:E; [|reflexivity]. simpl. symmetry. apply closed_eval. exact E.
Qed.

(** a total order on expressions, used only to pick a canonical orientation / conjunct order
    (soundness never depends on it) *)
Definition binop_rank (o : binop) : Z :=
  match o with Add => 0 | Sub => 1 | Mul => 2 | Eq => 3 | Neq => 4 | Lt => 5 | Le => 6 | Gt => 7 | Ge => 8
             | And => 9 | Or => 10 | NullSafeEq => 11 end.
Definition ctor_rank (e : expr) : Z :=
  match e with ECol _ => 1 | ELit _ => 0 | EBin _ _ _ => 2 | ENot _ => 3 | ENeg _ => 4 | EIsNull _ => 5
             | EIf _ _ _ => 6 | ECoalesce _ _ => 7 end.
Definition lexc (c d : comparison) : comparison := match c with Datatypes.Eq => d | _ => c end.
Definition lit_rank (a : val) : Z :=
  match a with VNull => 0 | VBool _ => 1 | VInt _ => 2 | VRat _ _ => 3 | VStr _ => 4 end.
Definition lit_cmp (a b : val) : comparison :=
  match a, b with
  | VInt x, VInt y => Z.compare x y
  | VStr x, VStr y => String.compare x y
  | VBool x, VBool y => Z.compare (if x then 1 else 0) (if y then 1 else 0)
  | VRat n d, VRat m e => lexc (Z.compare n m) (Pos.compare d e)
  | _, _ => Z.compare (lit_rank a) (lit_rank b)
  end.
Fixpoint expr_cmp (a b : expr) : comparison :=
  match a, b with
  | ECol x, ECol y => String.compare x y
  | ELit x, ELit y => lit_cmp x y
  | EBin o a1 a2, EBin p b1 b2 =>
      lexc (Z.compare (binop_rank o) (binop_rank p)) (lexc (expr_cmp a1 b1) (expr_cmp a2 b2))
  | ENot x, ENot y => expr_cmp x y
  | ENeg x, ENeg y => expr_cmp x y
  | EIsNull x, EIsNull y => expr_cmp x y
  | EIf c1 t1 e1, EIf c2 t2 e2 => lexc (expr_cmp c1 c2) (lexc (expr_cmp t1 t2) (expr_cmp e1 e2))
  | ECoalesce a1 a2, ECoalesce b1 b2 => lexc (expr_cmp a1 b1) (expr_cmp a2 b2)
  | _, _ => Z.compare (ctor_rank a) (ctor_rank b)
  end.
Definition expr_leb (a b : expr) : bool := match expr_cmp a b with Datatypes.Gt => false | _ => true end.

(** [val_cmp] is antisymmetric, so comparisons may be turned round *)
Lemma val_cmp_antisym x y : val_cmp y x = CompOpp (val_cmp x y).
Proof.
  destruct x, y; simpl; try reflexivity; try apply Z.compare_antisym; try apply String.compare_antisym.
Qed.

Lemma val_eqb_sym x y : val_eqb x y = val_eqb y x.
Proof.
  destruct x, y; simpl; try reflexivity.
  - apply Z.eqb_sym.
  - apply String.eqb_sym.
  - destruct b, b0; reflexivity.
  - rewrite Z.eqb_sym, Pos.eqb_sym. reflexivity.
Qed.

Definition flip_op (o : binop) : option binop :=
  match o with
  | Eq => Some Eq | Neq => Some Neq | Lt => Some Gt | Le => Some Ge | Gt => Some Lt | Ge => Some Le
  | Add => Some Add | Mul => Some Mul | And => Some And | Or => Some Or | NullSafeEq => Some NullSafeEq
  | Sub => None
  end.

Lemma cmp_flip o o' x y :
  match o with Eq | Neq | Lt | Le | Gt | Ge => True | _ => False end ->
  flip_op o = Some o' -> eval_bin o x y = eval_bin o' y x.
Proof.
  intros Hc Hf.
  assert (H : forall c, cmp_tv o c = cmp_tv o' (CompOpp c)).
  { intro c. destruct o; try contradiction; inversion Hf; subst; destruct c; reflexivity. }
  destruct o; try contradiction; inversion Hf; subst; cbn [eval_bin];
    destruct x, y; try reflexivity;
    match goal with |- VBool (cmp_tv _ (val_cmp ?a ?b)) = _ => rewrite (val_cmp_antisym a b), H; reflexivity end.
Qed.

Lemma flip_sound o o' x y : flip_op o = Some o' -> eval_bin o x y = eval_bin o' y x.
Proof.
  intro Hf. destruct o; try (apply cmp_flip; [exact I | exact Hf]); inversion Hf; subst; simpl.
  - destruct x, y; try reflexivity. rewrite Z.add_comm. reflexivity.
  - destruct x, y; try reflexivity. rewrite Z.mul_comm. reflexivity.
  - rewrite and3_comm. reflexivity.
  - rewrite or3_comm. reflexivity.
  - rewrite val_eqb_sym. reflexivity.
Qed.

Definition rw_flip (e : expr) : expr :=
  match e with
  | EBin o a b => match flip_op o with
                  | Some o' => if expr_leb a b then e else EBin o' b a
                  | None => e
                  end
  | _ => e
  end.
Lemma rw_flip_sound e cs r : eval cs r (rw_flip e) = eval cs r e.
Proof.
  destruct e; try reflexivity. simpl. destruct (flip_op o) as [o'|] eqn:Ef; [|reflexivity].
  destruct (expr_leb e1 e2); [reflexivity|]. simpl. symmetry. apply flip_sound. exact Ef.
Qed.

(** the result of a boolean-shaped expression is TRUE, FALSE or NULL *)
Definition boolish (e : expr) : bool :=
  match e with
  | ELit (VBool _) | ELit VNull => true
  | EBin o _ _ => match o with Add | Sub | Mul => false | _ => true end
  | ENot _ | EIsNull _ => true
  | _ => false
  end.
Definition is_tvval (v : val) : Prop := v = VNull \/ exists b, v = VBool b.
Lemma val_of_tv_is_tv t : is_tvval (val_of_tv t).
Proof. destruct t as [b|]; simpl; [right; exists b; reflexivity | left; reflexivity]. Qed.
Lemma boolish_tv e cs r : boolish e = true -> is_tvval (eval cs r e).
Proof.
  destruct e; simpl; try discriminate.
  - destruct v; try discriminate; intros _; [left; reflexivity | right; eauto].
  - destruct o; try discriminate; intros _; simpl; try apply val_of_tv_is_tv; try (right; eauto; fail);
      destruct (eval cs r e1), (eval cs r e2); try (left; reflexivity); right; eauto.
  - intros _. apply val_of_tv_is_tv.
  - intros _. right; eauto.
Qed.
Lemma tv_roundtrip v : is_tvval v -> val_of_tv (tv_of_val v) = v.
Proof. intros [->|[b ->]]; reflexivity. Qed.

(** NOT over a comparison / over NOT *)
Definition not_of_cmp (o : binop) : option binop :=
  match o with Eq => Some Neq | Neq => Some Eq | Lt => Some Ge | Le => Some Gt | Gt => Some Le | Ge => Some Lt
             | _ => None end.
Lemma cmp_not o o' x y : not_of_cmp o = Some o' ->
  val_of_tv (not3 (tv_of_val (eval_bin o x y))) = eval_bin o' x y.
Proof.
  intro Hn.
  assert (H : forall c, negb (cmp_tv o c) = cmp_tv o' c).
  { intro c. destruct o; try discriminate; inversion Hn; subst; destruct c; reflexivity. }
  destruct o; try discriminate; inversion Hn; subst; cbn [eval_bin];
    destruct x, y; try reflexivity; cbn [tv_of_val not3 option_map val_of_tv]; rewrite H; reflexivity.
Qed.

Definition rw_not (e : expr) : expr :=
  match e with
  | ENot (ENot a) => if boolish a then a else e
  | ENot (EBin o a b) => match not_of_cmp o with Some o' => EBin o' a b | None => e end
  | _ => e
  end.
Lemma rw_not_sound e cs r : eval cs r (rw_not e) = eval cs r e.
Proof.
  destruct e; try reflexivity. destruct e; try reflexivity.
  - simpl. destruct (not_of_cmp o) as [o'|] eqn:En; [|reflexivity]. simpl. symmetry. apply cmp_not. exact En.
  - simpl. destruct (boolish e) eqn:Eb; [|reflexivity]. simpl.
    destruct (boolish_tv e cs r Eb) as [->|[b ->]]; [reflexivity | destruct b; reflexivity].
Qed.

(** units and zeros of AND / OR, COALESCE and CASE on a literal *)
Definition is_lit_bool (b : bool) (e : expr) : bool :=
  match e with ELit (VBool c) => Bool.eqb b c | _ => false end.
Lemma is_lit_bool_eq b e : is_lit_bool b e = true -> e = ELit (VBool b).
Proof.
  destruct e; simpl; try discriminate. destruct v; try discriminate. intro H.
  apply Bool.eqb_prop in H. subst. reflexivity.
Qed.

Definition rw_unit (e : expr) : expr :=
  match e with
  | EBin And a b =>
      if is_lit_bool false a || is_lit_bool false b then ELit (VBool false)
      else if is_lit_bool true a && boolish b then b
      else if is_lit_bool true b && boolish a then a
      else e
  | EBin Or a b =>
      if is_lit_bool true a || is_lit_bool true b then ELit (VBool true)
      else if is_lit_bool false a && boolish b then b
      else if is_lit_bool false b && boolish a then a
      else e
  | ECoalesce (ELit VNull) b => b
  | ECoalesce (ELit v) _ => ELit v
  | EIf (ELit (VBool true)) t _ => t
  | EIf (ELit _) _ f => f
  | _ => e
  end.

Lemma rw_unit_sound e cs r : eval cs r (rw_unit e) = eval cs r e.
Proof.
  destruct e; try reflexivity.
  - destruct o; try reflexivity.
    + (* And *)
      cbn [rw_unit].
      destruct (is_lit_bool false e1) eqn:F1.
      { apply is_lit_bool_eq in F1. subst. simpl. destruct (tv_of_val (eval cs r e2)) as [[|]|]; reflexivity. }
      destruct (is_lit_bool false e2) eqn:F2.
      { apply is_lit_bool_eq in F2. subst. simpl. destruct (tv_of_val (eval cs r e1)) as [[|]|]; reflexivity. }
      cbn [orb].
      destruct (is_lit_bool true e1 && boolish e2) eqn:T1.
      { apply andb_true_iff in T1. destruct T1 as [T1 B]. apply is_lit_bool_eq in T1. subst. simpl.
        destruct (boolish_tv e2 cs r B) as [->|[b ->]]; [reflexivity | destruct b; reflexivity]. }
      destruct (is_lit_bool true e2 && boolish e1) eqn:T2; [|reflexivity].
      apply andb_true_iff in T2. destruct T2 as [T2 B]. apply is_lit_bool_eq in T2. subst. simpl.
      destruct (boolish_tv e1 cs r B) as [->|[b ->]]; [reflexivity | destruct b; reflexivity].
    + (* Or *)
      cbn [rw_unit].
      destruct (is_lit_bool true e1) eqn:F1.
      { apply is_lit_bool_eq in F1. subst. simpl. destruct (tv_of_val (eval cs r e2)) as [[|]|]; reflexivity. }
      destruct (is_lit_bool true e2) eqn:F2.
      { apply is_lit_bool_eq in F2. subst. simpl. destruct (tv_of_val (eval cs r e1)) as [[|]|]; reflexivity. }
      cbn [orb].
      destruct (is_lit_bool false e1 && boolish e2) eqn:T1.
      { apply andb_true_iff in T1. destruct T1 as [T1 B]. apply is_lit_bool_eq in T1. subst. simpl.
        destruct (boolish_tv e2 cs r B) as [->|[b ->]]; [reflexivity | destruct b; reflexivity]. }
      destruct (is_lit_bool false e2 && boolish e1) eqn:T2; [|reflexivity].
      apply andb_true_iff in T2. destruct T2 as [T2 B]. apply is_lit_bool_eq in T2. subst. simpl.
      destruct (boolish_tv e1 cs r B) as [->|[b ->]]; [reflexivity | destruct b; reflexivity].
  - (* EIf *)
    destruct e1; try reflexivity. destruct v; try reflexivity. destruct b; reflexivity.
  - (* ECoalesce *)
    destruct e1; try reflexivity. destruct v; reflexivity.
Qed.

Definition rw (e : expr) : expr := rw_flip (rw_not (rw_unit (rw_fold e))).
Lemma rw_sound e cs r : eval cs r (rw e) = eval cs r e.
Proof. unfold rw. rewrite rw_flip_sound, rw_not_sound, rw_unit_sound, rw_fold_sound. reflexivity. Qed.

Fixpoint enorm (e : expr) : expr :=
  match e with
  | ECol n => ECol n
  | ELit v => ELit v
  | EBin o a b => rw (EBin o (enorm a) (enorm b))
  | ENot a => rw (ENot (enorm a))
  | ENeg a => rw (ENeg (enorm a))
  | EIsNull a => rw (EIsNull (enorm a))
  | EIf c t f => rw (EIf (enorm c) (enorm t) (enorm f))
  | ECoalesce a b => rw (ECoalesce (enorm a) (enorm b))
  end.

Theorem enorm_sound e cs r : eval cs r (enorm e) = eval cs r e.
Proof.
  induction e; simpl; try reflexivity; rewrite rw_sound; simpl.
  - rewrite IHe1, IHe2. reflexivity.
  - rewrite IHe. reflexivity.
  - rewrite IHe. reflexivity.
  - rewrite IHe. reflexivity.
  - rewrite IHe1, IHe2, IHe3. reflexivity.
  - rewrite IHe1, IHe2. reflexivity.
Qed.

(** * Canonical form of a block *)
Definition is_true_lit (e : expr) : bool := is_lit_bool true e.
Fixpoint dedup_e (seen : list expr) (l : list expr) : list expr :=
  match l with
  | [] => []
  | x :: l' => if existsb (expr_eqb x) seen then dedup_e seen l' else x :: dedup_e (x :: seen) l'
  end.

Definition canon_where (ws : list expr) : list expr :=
  dedup_e [] (sort expr_leb (filter (fun e => negb (is_true_lit e))
                                    (flat_map conjuncts (map enorm (flat_map conjuncts ws))))).

Definition canon_blk (b : block) : block :=
  mkBlock (canon_where (b_where b)) (map (fun it => (enorm (fst it), snd it)) (b_sel b))
          (b_distinct b) (b_order b) (b_limit b).

Lemma forallb_set_ext {A} (f : A -> bool) a b :
  (forall x, In x a <-> In x b) -> forallb f a = forallb f b.
Proof.
  intro H. destruct (forallb f a) eqn:Ea; destruct (forallb f b) eqn:Eb; try reflexivity.
  - rewrite forallb_forall in Ea. assert (forallb f b = true); [|congruence].
    apply forallb_forall. intros x Hx. apply Ea. apply H. exact Hx.
  - rewrite forallb_forall in Eb. assert (forallb f a = true); [|congruence].
    apply forallb_forall. intros x Hx. apply Eb. apply H. exact Hx.
Qed.

Lemma dedup_e_in l : forall seen x, In x (dedup_e seen l) -> In x l.
Proof.
  induction l as [|y l IH]; intros seen x H; simpl in *; [contradiction|].
  destruct (existsb (expr_eqb y) seen); [right; eauto|].
  destruct H as [<-|H]; [left; reflexivity | right; eauto].
Qed.
Lemma dedup_e_complete l : forall seen x, In x l -> In x (dedup_e seen l) \/ In x seen.
Proof.
  induction l as [|y l IH]; intros seen x H; simpl in *; [contradiction|].
  destruct (existsb (expr_eqb y) seen) eqn:E.
  - destruct H as [<-|H]; [|eauto]. right. apply existsb_exists in E. destruct E as [z [Hz Ez]].
    apply expr_eqb_eq in Ez. subst. exact Hz.
  - destruct H as [<-|H]; [left; left; reflexivity|].
    destruct (IH (y :: seen) x H) as [H1|[<-|H1]]; [left; right; exact H1 | left; left; reflexivity | right; exact H1].
Qed.

Lemma all_hold_canon_where cs ws r : all_hold cs (canon_where ws) r = all_hold cs ws r.
Proof.
  unfold canon_where, all_hold.
  set (l0 := flat_map conjuncts ws).
  set (l1 := flat_map conjuncts (map enorm l0)).
  set (l2 := filter (fun e => negb (is_true_lit e)) l1).
  transitivity (forallb (holds cs r) l2).
  { apply forallb_set_ext. intro x. split.
    - intro H. apply dedup_e_in in H. eapply Permutation_in; [symmetry; apply sort_perm | exact H].
    - intro H. assert (H' : In x (sort expr_leb l2)) by (eapply Permutation_in; [apply sort_perm | exact H]).
      destruct (dedup_e_complete _ [] x H') as [H1|[]]. exact H1. }
  transitivity (forallb (holds cs r) l1).
  { unfold l2. induction l1 as [|e l IH]; simpl; [reflexivity|].
    destruct (is_true_lit e) eqn:Et; simpl.
    - apply is_lit_bool_eq in Et. subst. simpl. exact IH.
    - rewrite IH. reflexivity. }
  transitivity (forallb (holds cs r) (map enorm l0)).
  { exact (all_hold_flat cs (map enorm l0) r). }
  transitivity (forallb (holds cs r) l0).
  { induction l0 as [|e l IH]; simpl; [reflexivity|]. rewrite IH. f_equal.
    unfold holds. rewrite enorm_sound. reflexivity. }
  exact (all_hold_flat cs ws r).
Qed.

Lemma eval_canon_blk b fr : eval_block (canon_blk b) fr = eval_block b fr.
Proof.
  unfold eval_block, canon_blk. cbn [b_where b_sel b_distinct b_order b_limit].
  assert (Eo : out_cols (map (fun it : expr * string => (enorm (fst it), snd it)) (b_sel b)) = out_cols (b_sel b)).
  { unfold out_cols. rewrite map_map. reflexivity. }
  assert (Ep : forall r, proj (cols fr) (map (fun it : expr * string => (enorm (fst it), snd it)) (b_sel b)) r
                         = proj (cols fr) (b_sel b) r).
  { intro r. unfold proj. rewrite map_map. apply map_ext. intro it. simpl. apply enorm_sound. }
  rewrite Eo. rewrite (filter_ext _ _ (all_hold_canon_where (cols fr) (b_where b))).
  rewrite (map_ext _ _ (fun r => f_equal (fun x => (x, r)) (Ep r))). reflexivity.
Qed.

Lemma eval_chain_map_canon bs : forall fr, eval_chain (map canon_blk bs) fr = eval_chain bs fr.
Proof.
  induction bs as [|b bs IH]; intro fr; simpl; [reflexivity|]. rewrite eval_canon_blk. apply IH.
Qed.

(** * The normaliser and the checker *)
Definition nf' (cs : list string) (bs : list block) : list block :=
  nf cs (map canon_blk (fuse_chain cs (nf cs bs))).

Theorem nf'_sound bs input : wf_frame input -> eval_chain (nf' (cols input) bs) input = eval_chain bs input.
Proof.
  intro Hwf. unfold nf'. rewrite nf_sound by exact Hwf. rewrite eval_chain_map_canon.
  rewrite fuse_chain_sound by exact Hwf. apply nf_sound. exact Hwf.
Qed.

Definition equiv_check (cs : list string) (a b : list block) : bool :=
  list_eqb block_eqb (nf' cs a) (nf' cs b).

(** a [true] from the checker certifies the pair for EVERY well-formed input with these columns *)
Theorem equiv_check_sound a b input :
  wf_frame input -> equiv_check (cols input) a b = true -> eval_chain a input = eval_chain b input.
Proof.
  intros Hwf H. unfold equiv_check in H. apply (list_eqb_eq block_eqb block_eqb_eq) in H.
  rewrite <- (nf'_sound a input Hwf), <- (nf'_sound b input Hwf), H. reflexivity.
Qed.

(** the filter-below-LIMIT rewrite is NOT an equivalence: the checker must reject it, and a two-row
    table tells the two chains apart *)
Definition lim_then_filter : list block :=
  [mkBlock [] (passthrough ["a"%string]) false [mkKey (ECol "a") false true] (Some 1%nat);
   mkBlock [EBin Gt (ECol "a") (ELit (VInt 1))] (passthrough ["a"%string]) false [] None].
Definition filter_then_lim : list block :=
  [mkBlock [EBin Gt (ECol "a") (ELit (VInt 1))] (passthrough ["a"%string]) false
           [mkKey (ECol "a") false true] (Some 1%nat)].
Example pushdown_below_limit_rejected :
  equiv_check ["a"%string] lim_then_filter filter_then_lim = false
  /\ eval_chain lim_then_filter (mkFrame ["a"%string] [[VInt 1]; [VInt 2]])
     <> eval_chain filter_then_lim (mkFrame ["a"%string] [[VInt 1]; [VInt 2]]).
Proof. split; [vm_compute; reflexivity | vm_compute; discriminate]. Qed.

(** non-vacuity: where ; select ; where, as sqlframe writes it (3 blocks) and as the optimizer returns it (1 block) *)
Example certify_example :
  equiv_check ["a"; "b"]%string
    [pass_block ["a"; "b"]%string;
     mkBlock [EBin Gt (ECol "a") (ELit (VInt 0))]
             [(EBin Add (ECol "a") (ELit (VInt 1)), "c"%string); (ECol "b", "b"%string)] false [] None;
     mkBlock [EBin Eq (ELit (VInt 2)) (ECol "c")] (passthrough ["c"; "b"]%string) false
             [mkKey (ECol "b") true false] (Some 3%nat)]
    [mkBlock [EBin And (EBin Eq (EBin Add (ECol "a") (ELit (VInt 1))) (ELit (VInt 2)))
                       (EBin Gt (ECol "a") (ELit (VInt 0)))]
             [(EBin Add (ECol "a") (ELit (VInt 1)), "c"%string); (ECol "b", "b"%string)] false
             [mkKey (ECol "b") true false] (Some 3%nat)]
  = true.
Proof. vm_compute. reflexivity. Qed.
