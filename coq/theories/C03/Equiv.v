(** C03 (iii), part 4: fusing a whole chain, the normaliser [nf'], the checker and its soundness theorem. *)
From SF Require Export C03.Order.
From Coq Require Import Permutation.
Open Scope Z_scope.

(** * Fusing a whole chain: each block is merged into its consumer when one of the three rules applies *)
Definition try_merge (cs : list string) (p b : block) : option block :=
  if can_inline cs p b then Some (inline p b)
  else if can_ordmerge_l cs p b then Some (ordmerge_l p b)
  else if can_distmerge p b then Some (distmerge p b)
  else None.

Lemma try_merge_sound p b m fr :
  try_merge (cols fr) p b = Some m -> wf_frame fr -> eval_block b (eval_block p fr) = eval_block m fr.
Proof.
  unfold try_merge. intros H Hwf.
  destruct (can_inline (cols fr) p b) eqn:E1; [inversion H; subst; apply inline_sound; assumption|].
  destruct (can_ordmerge_l (cols fr) p b) eqn:E2; [inversion H; subst; apply ordmerge_l_sound; assumption|].
  destruct (can_distmerge p b) eqn:E3; [inversion H; subst; apply distmerge_sound; assumption|].
  discriminate.
Qed.

Fixpoint fuse (cs : list string) (p : block) (bs : list block) : list block :=
  match bs with
  | [] => [p]
  | b :: bs' => match try_merge cs p b with
                | Some m => fuse cs m bs'
                | None => p :: fuse (out_cols (b_sel p)) b bs'
                end
  end.
Definition fuse_chain (cs : list string) (bs : list block) : list block :=
  match bs with [] => [] | b :: bs' => fuse cs b bs' end.

Lemma fuse_sound bs : forall p fr, wf_frame fr ->
  eval_chain (fuse (cols fr) p bs) fr = eval_chain (p :: bs) fr.
Proof.
  induction bs as [|b bs IH]; intros p fr Hwf; simpl; [reflexivity|].
  destruct (try_merge (cols fr) p b) as [m|] eqn:E.
  - rewrite IH by exact Hwf. simpl. rewrite <- (try_merge_sound p b m fr E Hwf). reflexivity.
  - simpl. rewrite <- (cols_eval_block p fr). rewrite IH by apply wf_eval_block. reflexivity.
Qed.

Lemma fuse_chain_sound bs fr : wf_frame fr -> eval_chain (fuse_chain (cols fr) bs) fr = eval_chain bs fr.
Proof. destruct bs as [|b bs]; intro Hwf; [reflexivity | apply fuse_sound; exact Hwf]. Qed.

(** * The normaliser and the checker *)
Definition nf' (cs : list string) (bs : list block) : list block :=
  nf cs (map canon_blk (fuse_chain cs (nf cs bs))).

Theorem nf'_sound bs input : wf_frame input -> eval_chain (nf' (cols input) bs) input = eval_chain bs input.
Proof.
  intro Hwf. unfold nf'. rewrite nf_sound by exact Hwf. rewrite eval_chain_map_canon.
  rewrite fuse_chain_sound by exact Hwf. apply nf_sound. exact Hwf.
Qed.

Definition equiv_check (cs : list string) (a b : list block) : bool :=
  list_eqb block_eqb (nf' cs a) (nf' cs b).

(** a [true] from the checker certifies the pair for EVERY well-formed input with these columns *)
Theorem equiv_check_sound a b input :
  wf_frame input -> equiv_check (cols input) a b = true -> eval_chain a input = eval_chain b input.
Proof.
  intros Hwf H. unfold equiv_check in H. apply (list_eqb_eq block_eqb block_eqb_eq) in H.
  rewrite <- (nf'_sound a input Hwf), <- (nf'_sound b input Hwf), H. reflexivity.
Qed.

(** the filter-below-LIMIT rewrite is NOT an equivalence: the checker must reject it, and a two-row
    table tells the two chains apart *)
Definition lim_then_filter : list block :=
  [mkBlock [] (passthrough ["a"%string]) false [mkKey (ECol "a") false true] (Some 1%nat);
   mkBlock [EBin Gt (ECol "a") (ELit (VInt 1))] (passthrough ["a"%string]) false [] None].
Definition filter_then_lim : list block :=
  [mkBlock [EBin Gt (ECol "a") (ELit (VInt 1))] (passthrough ["a"%string]) false
           [mkKey (ECol "a") false true] (Some 1%nat)].
Example pushdown_below_limit_rejected :
  equiv_check ["a"%string] lim_then_filter filter_then_lim = false
  /\ eval_chain lim_then_filter (mkFrame ["a"%string] [[VInt 1]; [VInt 2]])
     <> eval_chain filter_then_lim (mkFrame ["a"%string] [[VInt 1]; [VInt 2]]).
Proof. split; [vm_compute; reflexivity | vm_compute; discriminate]. Qed.

(** non-vacuity: where ; select ; where, as sqlframe writes it (3 blocks) and as the optimizer returns it (1 block) *)
Example certify_example :
  equiv_check ["a"; "b"]%string
    [pass_block ["a"; "b"]%string;
     mkBlock [EBin Gt (ECol "a") (ELit (VInt 0))]
             [(EBin Add (ECol "a") (ELit (VInt 1)), "c"%string); (ECol "b", "b"%string)] false [] None;
     mkBlock [EBin Eq (ELit (VInt 2)) (ECol "c")] (passthrough ["c"; "b"]%string) false
             [mkKey (ECol "b") true false] (Some 3%nat)]
    [mkBlock [EBin And (EBin Eq (EBin Add (ECol "a") (ELit (VInt 1))) (ELit (VInt 2)))
                       (EBin Gt (ECol "a") (ELit (VInt 0)))]
             [(EBin Add (ECol "a") (ELit (VInt 1)), "c"%string); (ECol "b", "b"%string)] false
             [mkKey (ECol "b") true false] (Some 3%nat)]
  = true.
Proof. vm_compute. reflexivity. Qed.

(** the two further merge rules at work: an ordered CTE under a filter+projection (the optimizer returns one
    SELECT with WHERE and ORDER BY), and a filter above DISTINCT (the optimizer moves it below) *)
Example certify_order_then_filter :
  equiv_check ["a"; "b"]%string
    [pass_block ["a"; "b"]%string;
     mkBlock [] (passthrough ["a"; "b"]%string) false [mkKey (ECol "a") true true; mkKey (ECol "b") false true] None;
     mkBlock [EBin Gt (ECol "b") (ELit (VInt 1))] [(ECol "b", "b"%string); (ECol "a", "c"%string)] false [] None]
    [mkBlock [EBin Gt (ECol "b") (ELit (VInt 1))] [(ECol "b", "b"%string); (ECol "a", "c"%string)] false
             [mkKey (ECol "a") true true; mkKey (ECol "b") false true] None]
  = true.
Proof. vm_compute. reflexivity. Qed.

Example certify_filter_above_distinct :
  equiv_check ["a"; "b"]%string
    [mkBlock [] (passthrough ["a"; "b"]%string) true [] None;
     mkBlock [EIsNull (ECol "b")] (passthrough ["a"; "b"]%string) false [] None]
    [mkBlock [EIsNull (ECol "b")] (passthrough ["a"; "b"]%string) true [] None;
     pass_block ["a"; "b"]%string]
  = true.
Proof. vm_compute. reflexivity. Qed.

(** the ORDER BY key captured by a later alias is NOT an equivalence and is rejected:
    df.orderBy('a').withColumn('a', -a)  vs  SELECT -a AS a ... ORDER BY a *)
Example order_key_capture_rejected :
  let raw := [mkBlock [] (passthrough ["a"%string]) false [mkKey (ECol "a") false true] None;
              mkBlock [] [(ENeg (ECol "a"), "a"%string)] false [] None] in
  let opt := [mkBlock [] [(ENeg (ECol "a"), "a"%string)] false [mkKey (ECol "a") false true] None] in
  equiv_check ["a"%string] raw opt = false
  /\ eval_chain raw (mkFrame ["a"%string] [[VInt 1]; [VInt 2]]) <> eval_chain opt (mkFrame ["a"%string] [[VInt 1]; [VInt 2]]).
Proof. split; [vm_compute; reflexivity | vm_compute; discriminate]. Qed.
