(** C03 (ii) -- df.sql(optimize=False, ...) and df.collect() are the same function of the same tree up to
    the rendering arguments; and rendering identifiers without quotes is harmless exactly for "plain"
    identifiers.

    Part A (pipeline).  The four functions involved (BaseDataFrame.sql, BaseDataFrame._collect,
    _BaseSession._collect, _BaseSession._to_sql / BaseDataFrame._get_expressions) are modelled by the
    ARGUMENT PLUMBING between them: which argument each call site forwards, which constant it passes, which
    default applies.  That plumbing ([facts]) is regenerated from the source on every run (translate/
    c03_facts.py, tie T1); the environment functions (sqlglot's generator, the optimizer, the CTE re-hashing)
    are Section variables, i.e. the theorem holds for whatever they are.

    Part B (lexer).  A rendered statement is a list of pieces; an identifier piece is printed quoted or bare.
    [unquoted_ok]: if every identifier is plain (lower-case [a-z_][a-z0-9_]*, not in the engine's reserved
    set) the engine's lexer reads the bare rendering exactly as it reads the quoted one. *)
From Coq Require Import List String Ascii Bool Arith Lia.
Import ListNotations.
Open Scope string_scope.
Open Scope list_scope.

(** * Part A: argument plumbing *)
Inductive param := POptimize | PQuote | PPretty.
Inductive barg := Fwd (p : param) | Const (b : bool) | Default.

Record facts := mkFacts {
  (* BaseDataFrame.sql -> self._get_expressions(...) *)
  sql_ge_optimize : barg;
  sql_ge_quote : barg;
  (* BaseDataFrame.sql -> self.session._to_sql(...) *)
  sql_ts_quote : barg;
  sql_ts_pretty : barg;
  sql_ts_dialect_forwarded : bool;      (* dialect=dialect, where dialect is the caller's argument when given *)
  sql_dialect_default_is_output : bool; (* ... else self.session.output_dialect *)
  (* defaults of sql() itself: (optimize, quote_identifiers, pretty) *)
  sql_defaults : bool * bool * bool;
  (* BaseDataFrame._collect -> self._get_expressions(...) *)
  col_ge_optimize : barg;
  col_ge_quote : barg;
  (* _BaseSession._collect -> self._to_sql(expression, ...) on the path collect() takes *)
  col_ts_quote : barg;                  (* Fwd PQuote = session._collect's own quote_identifiers parameter *)
  col_ts_pretty : barg;
  col_ts_dialect_given : bool;          (* false: _to_sql's own default applies *)
  scollect_default_quote : bool;        (* default of _BaseSession._collect(quote_identifiers=...) *)
  collect_passes_kwargs : bool;         (* false: collect() calls _collect() with no arguments *)
  (* defaults of the callees *)
  ge_default_optimize : bool;
  ge_default_quote : bool;
  ts_default_quote : bool;
  ts_default_pretty : bool;
  ts_dialect_default_is_execution : bool;   (* to_dialect = dialect or self.execution_dialect *)
  (* inside _get_expressions: quote_identifiers is read only under `if optimize:` and optimize only as that test *)
  ge_quote_only_under_optimize : bool;
  ge_same_tail_for_both : bool              (* display names before, CTE re-hashing after, for both branches *)
}.

Definition resolve (a : barg) (env : param -> bool) (dflt : bool) : bool :=
  match a with Fwd p => env p | Const b => b | Default => dflt end.

Record cfg := mkCfg { c_optimize : bool; c_quote : bool; c_pretty : bool }.
Definition env_of (c : cfg) (p : param) : bool :=
  match p with POptimize => c_optimize c | PQuote => c_quote c | PPretty => c_pretty c end.
Definition all_cfgs : list cfg :=
  flat_map (fun o => flat_map (fun q => map (fun p => mkCfg o q p) [true; false]) [true; false]) [true; false].

(** the plumbing is right when sql() forwards its three switches unchanged, collect() asks for the
    un-optimised statements, and nothing reads quote_identifiers outside the optimizer branch *)
Definition cfg_ok (F : facts) (c : cfg) : bool :=
  Bool.eqb (resolve (sql_ge_optimize F) (env_of c) (ge_default_optimize F)) (c_optimize c)
  && Bool.eqb (resolve (sql_ge_quote F) (env_of c) (ge_default_quote F)) (c_quote c)
  && Bool.eqb (resolve (sql_ts_quote F) (env_of c) (ts_default_quote F)) (c_quote c)
  && Bool.eqb (resolve (sql_ts_pretty F) (env_of c) (ts_default_pretty F)) (c_pretty c)
  && negb (resolve (col_ge_optimize F) (env_of c) (ge_default_optimize F)).
Definition plumbing_ok (F : facts) : bool := forallb (cfg_ok F) all_cfgs.
Definition rest_ok (F : facts) : bool :=
  sql_ts_dialect_forwarded F && negb (col_ts_dialect_given F) && ts_dialect_default_is_execution F
  && negb (collect_passes_kwargs F)
  && ge_quote_only_under_optimize F && ge_same_tail_for_both F.
Definition facts_ok (F : facts) : bool := plumbing_ok F && rest_ok F.

Section Pipeline.
  Variables tree stmt dialect text : Type.
  Variable base : tree -> list stmt.                 (* statements without the optimizer *)
  Variable optimized : bool -> tree -> list stmt.    (* with it; the argument is quote_identifiers *)
  Variable render : stmt -> dialect -> bool -> bool -> text.   (* _to_sql: dialect, quote_identifiers, pretty *)
  Variable exec_dialect : dialect.
  Variable F : facts.

  (** _get_expressions, given the fact [ge_quote_only_under_optimize] *)
  Definition get_expressions (optimize quote : bool) (t : tree) : list stmt :=
    if optimize then optimized quote t else base t.

  (** df.sql(dialect=d, optimize=, quote_identifiers=, pretty=) *)
  Definition sql_stmts (c : cfg) (t : tree) : list stmt :=
    get_expressions (resolve (sql_ge_optimize F) (env_of c) (ge_default_optimize F))
                    (resolve (sql_ge_quote F) (env_of c) (ge_default_quote F)) t.
  Definition sql_texts (d : dialect) (c : cfg) (t : tree) : list text :=
    map (fun s => render s d (resolve (sql_ts_quote F) (env_of c) (ts_default_quote F))
                             (resolve (sql_ts_pretty F) (env_of c) (ts_default_pretty F)))
        (sql_stmts c t).

  (** df.collect(): the texts handed to the engine.  session._collect's quote_identifiers is its default
      because collect() passes nothing down. *)
  Definition collect_env (p : param) : bool :=
    match p with PQuote => scollect_default_quote F | _ => false end.
  Definition collect_quote : bool := resolve (col_ts_quote F) collect_env (ts_default_quote F).
  Definition collect_pretty : bool := resolve (col_ts_pretty F) collect_env (ts_default_pretty F).
  Definition collect_stmts (t : tree) : list stmt :=
    get_expressions (resolve (col_ge_optimize F) collect_env (ge_default_optimize F))
                    (resolve (col_ge_quote F) collect_env (ge_default_quote F)) t.
  Definition collect_texts (t : tree) : list text :=
    map (fun s => render s exec_dialect collect_quote collect_pretty) (collect_stmts t).

  Hypothesis Hok : facts_ok F = true.

  Lemma plumbing c : cfg_ok F c = true.
  Proof.
    unfold facts_ok in Hok. apply andb_true_iff in Hok. destruct Hok as [Hp _].
    unfold plumbing_ok in Hp. rewrite forallb_forall in Hp. apply Hp.
    destruct c as [[|] [|] [|]]; simpl; tauto.
  Qed.

  Lemma facts_ok_cfg c :
    resolve (sql_ge_optimize F) (env_of c) (ge_default_optimize F) = c_optimize c
    /\ resolve (sql_ge_quote F) (env_of c) (ge_default_quote F) = c_quote c
    /\ resolve (sql_ts_quote F) (env_of c) (ts_default_quote F) = c_quote c
    /\ resolve (sql_ts_pretty F) (env_of c) (ts_default_pretty F) = c_pretty c.
  Proof.
    pose proof (plumbing c) as H. unfold cfg_ok in H.
    apply andb_true_iff in H. destruct H as [H _].
    apply andb_true_iff in H. destruct H as [H H4].
    apply andb_true_iff in H. destruct H as [H H3].
    apply andb_true_iff in H. destruct H as [H1 H2].
    repeat split; apply Bool.eqb_prop; assumption.
  Qed.

  Lemma collect_unoptimised t : collect_stmts t = base t.
  Proof.
    (* the resolved value of collect's optimize does not depend on the cfg: take one whose environment
       agrees with collect_env on every parameter *)
    set (c0 := mkCfg false (scollect_default_quote F) false).
    pose proof (plumbing c0) as H. unfold cfg_ok in H. apply andb_true_iff in H. destruct H as [_ Hn].
    apply negb_true_iff in Hn.
    unfold collect_stmts, get_expressions.
    assert (E : resolve (col_ge_optimize F) collect_env (ge_default_optimize F)
                = resolve (col_ge_optimize F) (env_of c0) (ge_default_optimize F)).
    { destruct (col_ge_optimize F) as [[| |]| |]; reflexivity. }
    rewrite E, Hn. reflexivity.
  Qed.

  (** the statements: for EVERY quote_identifiers / pretty, sql(optimize=False) renders the statements
      collect() executes *)
  Theorem sql_unopt_same_statements q p t :
    sql_stmts (mkCfg false q p) t = collect_stmts t.
  Proof.
    rewrite collect_unoptimised. unfold sql_stmts, get_expressions.
    destruct (facts_ok_cfg (mkCfg false q p)) as (E1 & _). rewrite E1. reflexivity.
  Qed.

  (** the text: with collect()'s own rendering switches and the execution dialect it is the very text
      collect() hands to the engine *)
  Theorem sql_unopt_is_collect_text t :
    sql_texts exec_dialect (mkCfg false collect_quote collect_pretty) t = collect_texts t.
  Proof.
    unfold sql_texts, collect_texts. rewrite sql_unopt_same_statements.
    destruct (facts_ok_cfg (mkCfg false collect_quote collect_pretty)) as (_ & _ & E3 & E4).
    rewrite E3, E4. reflexivity.
  Qed.

  (** and for the other rendering switches the text differs from collect()'s only by the two arguments of
      the generator *)
  Theorem sql_unopt_texts q p d t :
    sql_texts d (mkCfg false q p) t = map (fun s => render s d q p) (collect_stmts t).
  Proof.
    unfold sql_texts. rewrite sql_unopt_same_statements.
    destruct (facts_ok_cfg (mkCfg false q p)) as (_ & _ & E3 & E4). rewrite E3, E4. reflexivity.
  Qed.
End Pipeline.

(** * Part B: identifiers at the lexer *)
Definition code (c : ascii) : nat := nat_of_ascii c.
Definition is_lower (c : ascii) : bool := (97 <=? code c)%nat && (code c <=? 122)%nat.
Definition is_upper (c : ascii) : bool := (65 <=? code c)%nat && (code c <=? 90)%nat.
Definition is_digit (c : ascii) : bool := (48 <=? code c)%nat && (code c <=? 57)%nat.
Definition is_us (c : ascii) : bool := (code c =? 95)%nat.

Fixpoint all_chars (f : ascii -> bool) (s : string) : bool :=
  match s with EmptyString => true | String c s' => f c && all_chars f s' end.

(** lower-case [a-z_][a-z0-9_]* *)
Definition ident_shape (s : string) : bool :=
  match s with
  | EmptyString => false
  | String c s' => (is_lower c || is_us c) && all_chars (fun c => is_lower c || is_us c || is_digit c) s'
  end.
(** what the engine's lexer accepts as one bare word: [A-Za-z_][A-Za-z0-9_]* *)
Definition word_shape (s : string) : bool :=
  match s with
  | EmptyString => false
  | String c s' => (is_lower c || is_upper c || is_us c)
                   && all_chars (fun c => is_lower c || is_upper c || is_us c || is_digit c) s'
  end.
Definition lower_char (c : ascii) : ascii := if is_upper c then ascii_of_nat (code c + 32) else c.
Fixpoint lower (s : string) : string :=
  match s with EmptyString => EmptyString | String c s' => String (lower_char c) (lower s') end.

Definition smem (n : string) (l : list string) : bool := existsb (String.eqb n) l.
Definition plain (reserved : list string) (s : string) : bool := ident_shape s && negb (smem s reserved).

Inductive tok := TIdent (s : string) | TKeyword (s : string) | TBad (s : string) | TRaw (w : string).

(** bare words are case-folded and looked up in the keyword table; a quoted identifier is taken verbatim *)
Definition lex_word (reserved : list string) (w : string) : tok :=
  if word_shape w then (let l := lower w in if smem l reserved then TKeyword l else TIdent l) else TBad w.

Inductive piece := PIdent (s : string) | PRaw (w : string).
Inductive rtok := RQuoted (s : string) | RBare (s : string) | RRaw (w : string).
Definition render_piece (quote : bool) (p : piece) : rtok :=
  match p with PIdent s => if quote then RQuoted s else RBare s | PRaw w => RRaw w end.
Definition lex (reserved : list string) (r : rtok) : tok :=
  match r with RQuoted s => TIdent s | RBare s => lex_word reserved s | RRaw w => TRaw w end.
Fixpoint idents (q : list piece) : list string :=
  match q with [] => [] | PIdent s :: q' => s :: idents q' | PRaw _ :: q' => idents q' end.

Lemma lower_not_upper c : is_upper c = false -> lower_char c = c.
Proof. unfold lower_char. intro H. rewrite H. reflexivity. Qed.

Lemma lower_is_not_upper c : is_lower c || is_us c || is_digit c = true -> is_upper c = false.
Proof.
  unfold is_lower, is_us, is_digit, is_upper. intro H.
  apply orb_true_iff in H. destruct H as [H|H]; [apply orb_true_iff in H; destruct H as [H|H]|].
  - apply andb_true_iff in H. destruct H as [H1 H2]. apply Nat.leb_le in H1.
    apply andb_false_iff. right. apply Nat.leb_gt. lia.
  - apply Nat.eqb_eq in H. apply andb_false_iff. right. apply Nat.leb_gt. lia.
  - apply andb_true_iff in H. destruct H as [H1 H2]. apply Nat.leb_le in H2.
    apply andb_false_iff. left. apply Nat.leb_gt. lia.
Qed.

Lemma lower_plain_tail s :
  all_chars (fun c => is_lower c || is_us c || is_digit c) s = true ->
  lower s = s /\ all_chars (fun c => is_lower c || is_upper c || is_us c || is_digit c) s = true.
Proof.
  induction s as [|c s IH]; simpl; intro H; [split; reflexivity|].
  apply andb_true_iff in H. destruct H as [Hc Hs]. destruct (IH Hs) as [E1 E2].
  rewrite E1, E2, (lower_not_upper c (lower_is_not_upper c Hc)). split; [reflexivity|].
  rewrite andb_true_r.
  apply orb_true_iff in Hc. destruct Hc as [Hc|Hc]; [apply orb_true_iff in Hc; destruct Hc as [Hc|Hc]|];
    rewrite Hc; repeat rewrite orb_true_r; reflexivity.
Qed.

Lemma ident_shape_word s : ident_shape s = true -> word_shape s = true /\ lower s = s.
Proof.
  destruct s as [|c s]; simpl; [discriminate|]. intro H.
  apply andb_true_iff in H. destruct H as [Hc Hs].
  destruct (lower_plain_tail s Hs) as [E1 E2]. rewrite E1, E2.
  assert (Hu : is_upper c = false).
  { apply lower_is_not_upper. rewrite Hc. reflexivity. }
  rewrite (lower_not_upper c Hu). split; [|reflexivity].
  rewrite andb_true_r. apply orb_true_iff in Hc. destruct Hc as [Hc|Hc]; rewrite Hc;
    repeat rewrite orb_true_r; reflexivity.
Qed.

Lemma plain_lex reserved s : plain reserved s = true -> lex_word reserved s = TIdent s.
Proof.
  unfold plain, lex_word. intro H. apply andb_true_iff in H. destruct H as [H1 H2].
  destruct (ident_shape_word s H1) as [Hw Hl]. rewrite Hw. cbv zeta. rewrite Hl.
  apply negb_true_iff in H2. rewrite H2. reflexivity.
Qed.

(** if every identifier of the statement is plain, the engine reads the unquoted text as the quoted one *)
Theorem unquoted_ok reserved (q : list piece) :
  forallb (plain reserved) (idents q) = true ->
  map (lex reserved) (map (render_piece false) q) = map (lex reserved) (map (render_piece true) q).
Proof.
  induction q as [|p q IH]; simpl; intro H; [reflexivity|].
  destruct p as [s|w]; simpl in *.
  - apply andb_true_iff in H. destruct H as [H1 H2]. rewrite (plain_lex _ _ H1), (IH H2). reflexivity.
  - rewrite (IH H). reflexivity.
Qed.

(** outside [plain] the statement fails: a reserved word or a name with a space is not read back as the
    identifier (needs only that the word is in the reserved list / has a space) *)
Lemma reserved_breaks reserved s :
  word_shape s = true -> smem (lower s) reserved = true ->
  lex reserved (render_piece false (PIdent s)) <> lex reserved (render_piece true (PIdent s)).
Proof. simpl. unfold lex_word. intros Hw Hr. rewrite Hw. cbv zeta. rewrite Hr. discriminate. Qed.

Lemma nonword_breaks reserved s :
  word_shape s = false ->
  lex reserved (render_piece false (PIdent s)) <> lex reserved (render_piece true (PIdent s)).
Proof. simpl. unfold lex_word. intro Hw. rewrite Hw. discriminate. Qed.

Example plain_example : plain ["select"; "order"] "t28858906" = true /\ plain ["select"; "order"] "a_1" = true
  /\ plain ["select"] "select" = false /\ plain [] "order by" = false /\ plain [] "A" = false.
Proof. vm_compute. repeat split. Qed.
