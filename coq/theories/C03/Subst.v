(** C03 (iii), part 1 of 4 (Subst, Canon, Order, Equiv) -- a checker WITH A SOUNDNESS THEOREM for "the optimised chain means what the raw chain
    means, on every input".  sqlglot's optimizer is environment and is not modelled: for each program
    the check exports the tree sqlframe built (raw) and the tree the optimizer returned (opt) and Coq
    decides [equiv_check cs raw opt]; [equiv_check_sound] turns a [true] into equality of the two
    chains' results for every well-formed input frame.

    The normaliser [nf'] extends Sql.Norm.nf by
      - [fuse]    inlining a filter/projection-only block into its consumer (substitution [subst];
                  lemma [subst_eval]; ORDER BY keys are carried over only when SQL's name resolution
                  provably gives them the same value -- [key_inl_ok]);
      - [canon_blk] flattening / constant-folding / sorting / de-duplicating WHERE conjuncts and
                  constant-folding + orienting expressions ([enorm]).
    Qualifier erasure and the CASTs of the VALUES layer are handled by the exporter (fail-closed). *)
From SF Require Export Sql.Norm.
From Coq Require Import Permutation.
Open Scope Z_scope.

(** * Substitution of a select list into an expression *)
Fixpoint find_item (n : string) (sel : list (expr * string)) : option expr :=
  match sel with
  | [] => None
  | (e, m) :: sel' => if String.eqb m n then Some e else find_item n sel'
  end.

Fixpoint subst (sel : list (expr * string)) (e : expr) : expr :=
  match e with
  | ECol n => match find_item n sel with Some e' => e' | None => ELit VNull end
  | ELit v => ELit v
  | EBin o a b => EBin o (subst sel a) (subst sel b)
  | ENot a => ENot (subst sel a)
  | ENeg a => ENeg (subst sel a)
  | EIsNull a => EIsNull (subst sel a)
  | EIf c t e' => EIf (subst sel c) (subst sel t) (subst sel e')
  | ECoalesce a b => ECoalesce (subst sel a) (subst sel b)
  end.

Lemma lookup_proj cs sel r n :
  lookup (out_cols sel) (proj cs sel r) n = option_map (eval cs r) (find_item n sel).
Proof.
  unfold lookup, out_cols, proj.
  induction sel as [|[e m] sel IH]; simpl; [reflexivity|].
  destruct (String.eqb m n); simpl; [reflexivity|].
  destruct (index_of n (map snd sel)) as [i|]; simpl in *.
  - exact IH.
  - destruct (find_item n sel); simpl in *; [discriminate IH || exact IH | reflexivity].
Qed.

(** projection then expression = substituted expression *)
Lemma subst_eval cs sel r e :
  eval (out_cols sel) (proj cs sel r) e = eval cs r (subst sel e).
Proof.
  induction e; simpl.
  - rewrite lookup_proj. destruct (find_item n sel); reflexivity.
  - reflexivity.
  - rewrite IHe1, IHe2. reflexivity.
  - rewrite IHe. reflexivity.
  - rewrite IHe. reflexivity.
  - rewrite IHe. reflexivity.
  - rewrite IHe1, IHe2, IHe3. reflexivity.
  - rewrite IHe1, IHe2. reflexivity.
Qed.

Lemma holds_subst cs sel r e : holds (out_cols sel) (proj cs sel r) e = holds cs r (subst sel e).
Proof. unfold holds. rewrite subst_eval. reflexivity. Qed.

Lemma all_hold_subst cs sel r ws :
  all_hold (out_cols sel) ws (proj cs sel r) = all_hold cs (map (subst sel) ws) r.
Proof.
  unfold all_hold. induction ws as [|w ws IH]; simpl; [reflexivity|].
  rewrite holds_subst, IH. reflexivity.
Qed.

Definition subst_sel (s1 s2 : list (expr * string)) : list (expr * string) :=
  map (fun it => (subst s1 (fst it), snd it)) s2.

Lemma out_cols_subst_sel s1 s2 : out_cols (subst_sel s1 s2) = out_cols s2.
Proof. unfold out_cols, subst_sel. rewrite map_map. reflexivity. Qed.

Lemma proj_subst cs s1 s2 r : proj (out_cols s1) s2 (proj cs s1 r) = proj cs (subst_sel s1 s2) r.
Proof.
  unfold proj at 1 3. unfold subst_sel. rewrite map_map. apply map_ext. intro it. simpl. apply subst_eval.
Qed.

(** * Looking a column up in "input columns ++ output aliases" *)
Lemma mem_index_of n cs : mem n cs = true -> exists i, index_of n cs = Some i.
Proof.
  unfold mem. induction cs as [|c cs IH]; simpl; [discriminate|].
  rewrite String.eqb_sym. destruct (String.eqb c n); simpl; [eauto|].
  intro H. destruct (IH H) as [i E]. rewrite E. simpl. eauto.
Qed.

Lemma index_of_app_l n cs o i : index_of n cs = Some i -> index_of n (cs ++ o) = Some i.
Proof.
  revert i. induction cs as [|c cs IH]; simpl; intros i H; [discriminate|].
  destruct (String.eqb c n); [exact H|].
  destruct (index_of n cs) as [j|]; simpl in *; [|discriminate].
  rewrite (IH j eq_refl). exact H.
Qed.

Lemma lookup_app_l cs o (r ro : row) n :
  mem n cs = true -> List.length r = List.length cs -> lookup (cs ++ o) (r ++ ro) n = lookup cs r n.
Proof.
  intros Hm Hl. destruct (mem_index_of _ _ Hm) as [i E]. unfold lookup.
  rewrite (index_of_app_l _ _ _ _ E), E. apply index_of_lt in E.
  apply nth_error_app1. lia.
Qed.

Lemma eval_app_l cs o (r ro : row) e :
  cols_in cs e = true -> List.length r = List.length cs -> eval (cs ++ o) (r ++ ro) e = eval cs r e.
Proof.
  intros Hc Hl. apply eval_ext. intros n Hn. apply lookup_app_l; [|exact Hl].
  unfold cols_in in Hc. rewrite forallb_forall in Hc. auto.
Qed.

(** * ORDER BY keys under inlining *)
Definition is_outcol (ocs : list string) (e : expr) : bool :=
  match e with ECol m => mem m ocs | _ => false end.

Lemma eval_okey_general cs ocs p e d nf :
  is_outcol ocs e = false ->
  eval_okey cs ocs p (mkKey e d nf) = eval (cs ++ ocs) (snd p ++ fst p) e.
Proof. unfold eval_okey. destruct e; simpl; intro H; try reflexivity. rewrite H. reflexivity. Qed.

Lemma eval_okey_outcol cs ocs p n d nf :
  mem n ocs = true -> eval_okey cs ocs p (mkKey (ECol n) d nf) = eval ocs (fst p) (ECol n).
Proof. unfold eval_okey. simpl. intro H. rewrite H. reflexivity. Qed.

Definition key_inl (s1 : list (expr * string)) (ocs2 : list string) (k : okey) : okey :=
  if is_outcol ocs2 (k_e k) then k else mkKey (subst s1 (k_e k)) (k_desc k) (k_nf k).

Definition key_inl_ok (cs : list string) (s1 : list (expr * string)) (ocs2 : list string) (k : okey) : bool :=
  is_outcol ocs2 (k_e k)
  || (cols_in (out_cols s1) (k_e k) && cols_in cs (subst s1 (k_e k))
      && negb (is_outcol ocs2 (subst s1 (k_e k)))).

Lemma key_inl_sound cs s1 ocs2 k (r out : row) :
  key_inl_ok cs s1 ocs2 k = true -> List.length r = List.length cs ->
  eval_okey (out_cols s1) ocs2 (out, proj cs s1 r) k = eval_okey cs ocs2 (out, r) (key_inl s1 ocs2 k).
Proof.
  intros Hok Hl. unfold key_inl_ok, key_inl in *. destruct k as [e d nf]. simpl in *.
  destruct (is_outcol ocs2 e) eqn:Eo; simpl in Hok.
  - destruct e; simpl in Eo; try discriminate. rewrite !eval_okey_outcol by exact Eo. reflexivity.
  - apply andb_true_iff in Hok. destruct Hok as [Hok H3]. apply andb_true_iff in Hok. destruct Hok as [H1 H2].
    apply negb_true_iff in H3.
    rewrite (eval_okey_general _ _ _ e) by exact Eo.
    rewrite (eval_okey_general _ _ _ (subst s1 e)) by exact H3. simpl.
    rewrite eval_app_l; [|exact H1 | unfold proj, out_cols; rewrite !map_length; reflexivity].
    rewrite eval_app_l; [|exact H2 | exact Hl].
    apply subst_eval.
Qed.

(** * Inlining a filter/projection-only block into its consumer *)
Definition simple_blk (b : block) : bool :=
  negb (b_distinct b) && match b_order b with [] => true | _ => false end
  && match b_limit b with None => true | Some _ => false end.

Definition can_inline (cs : list string) (b1 b2 : block) : bool :=
  simple_blk b1 && forallb (key_inl_ok cs (b_sel b1) (out_cols (b_sel b2))) (b_order b2).

Definition inline (b1 b2 : block) : block :=
  mkBlock (b_where b1 ++ map (subst (b_sel b1)) (b_where b2))
          (subst_sel (b_sel b1) (b_sel b2))
          (b_distinct b2)
          (map (key_inl (b_sel b1) (out_cols (b_sel b2))) (b_order b2))
          (b_limit b2).

Lemma eval_filterproj_block b fr :
  simple_blk b = true ->
  eval_block b fr = mkFrame (out_cols (b_sel b))
                            (map (proj (cols fr) (b_sel b)) (filter (all_hold (cols fr) (b_where b)) (rows fr))).
Proof.
  unfold simple_blk. intro H. apply andb_true_iff in H. destruct H as [H Hl].
  apply andb_true_iff in H. destruct H as [Hd Ho]. apply negb_true_iff in Hd.
  unfold eval_block. rewrite Hd. destruct (b_order b); [|discriminate]. destruct (b_limit b); [discriminate|].
  rewrite sort_on_nil_keys by reflexivity. rewrite map_fst_pairs. reflexivity.
Qed.

Lemma filter_map_comm {A B} (f : A -> B) (p : B -> bool) l :
  filter p (map f l) = map f (filter (fun x => p (f x)) l).
Proof.
  induction l as [|x l IH]; simpl; [reflexivity|]. destruct (p (f x)); simpl; rewrite IH; reflexivity.
Qed.

Lemma filter_filter_all cs ws1 ws2 (l : list row) :
  filter (all_hold cs ws2) (filter (all_hold cs ws1) l) = filter (all_hold cs (ws1 ++ ws2)) l.
Proof.
  induction l as [|r l IH]; simpl; [reflexivity|].
  assert (E : all_hold cs (ws1 ++ ws2) r = all_hold cs ws1 r && all_hold cs ws2 r)
    by (unfold all_hold; apply forallb_app).
  rewrite E. destruct (all_hold cs ws1 r); simpl; [|exact IH].
  destruct (all_hold cs ws2 r); simpl; rewrite IH; reflexivity.
Qed.

Lemma dedup_on_map_snd {A B C} (h : B -> C) (l : list (A * B)) (k : A -> row) : forall seen,
  dedup_on (fun p => k (fst p)) seen (map (fun p => (fst p, h (snd p))) l)
  = map (fun p => (fst p, h (snd p))) (dedup_on (fun p => k (fst p)) seen l).
Proof.
  induction l as [|x l IH]; intro seen; simpl; [reflexivity|].
  destruct (existsb (row_eqb (k (fst x))) seen); simpl; rewrite IH; reflexivity.
Qed.

Lemma dedup_on_incl {A} (k : A -> row) (l : list A) : forall seen x, In x (dedup_on k seen l) -> In x l.
Proof.
  induction l as [|y l IH]; intros seen x H; simpl in *; [contradiction|].
  destruct (existsb (row_eqb (k y)) seen).
  - right; eauto.
  - destruct H as [<-|H]; [left; reflexivity | right; eauto].
Qed.

Theorem inline_sound b1 b2 fr :
  can_inline (cols fr) b1 b2 = true -> wf_frame fr ->
  eval_block b2 (eval_block b1 fr) = eval_block (inline b1 b2) fr.
Proof.
  intros Hc Hwf. unfold can_inline in Hc. apply andb_true_iff in Hc. destruct Hc as [Hs Hk].
  rewrite (eval_filterproj_block b1 fr Hs).
  set (cs := cols fr) in *. set (s1 := b_sel b1) in *. set (f := proj cs s1).
  set (R' := filter (all_hold cs (b_where b1 ++ map (subst s1) (b_where b2))) (rows fr)).
  set (h := fun p : row * row => (fst p, f (snd p))).
  set (s2' := subst_sel s1 (b_sel b2)).
  set (ocs2 := out_cols (b_sel b2)) in *.
  unfold eval_block at 1. cbn [cols rows].
  unfold eval_block. cbn [inline b_where b_sel b_distinct b_order b_limit]. fold cs s1 s2' ocs2.
  assert (Eo : out_cols s2' = ocs2) by apply out_cols_subst_sel. rewrite Eo. f_equal.
  (* the rows after WHERE *)
  assert (E1 : filter (all_hold (out_cols s1) (b_where b2)) (map f (filter (all_hold cs (b_where b1)) (rows fr)))
               = map f R').
  { rewrite filter_map_comm. f_equal. unfold R'. rewrite <- filter_filter_all.
    apply filter_ext. intro r. unfold f. apply all_hold_subst. }
  rewrite E1.
  (* the (output, input) pairs *)
  set (ps' := map (fun r => (proj cs s2' r, r)) R').
  assert (E2 : map (fun r => (proj (out_cols s1) (b_sel b2) r, r)) (map f R') = map h ps').
  { unfold ps'. rewrite !map_map. apply map_ext. intro r. unfold h, f. simpl. rewrite proj_subst. reflexivity. }
  rewrite E2. fold ps'.
  (* DISTINCT *)
  set (d' := if b_distinct b2 then dedup_on fst [] ps' else ps').
  assert (E3 : (if b_distinct b2 then dedup_on fst [] (map h ps') else map h ps') = map h d').
  { unfold d'. destruct (b_distinct b2); [|reflexivity].
    exact (dedup_on_map_snd f ps' (fun r => r) []). }
  rewrite E3.
  assert (Hd' : forall a, In a d' -> exists r, In r (rows fr) /\ a = (proj cs s2' r, r)).
  { intros a Ha. assert (Hin : In a ps').
    { unfold d' in Ha. destruct (b_distinct b2); [eapply dedup_on_incl; eauto | exact Ha]. }
    unfold ps' in Hin. apply in_map_iff in Hin. destruct Hin as [r [<- Hr]].
    exists r. split; [|reflexivity]. unfold R' in Hr. apply filter_In in Hr. tauto. }
  (* ORDER BY *)
  set (K2 := okeys (out_cols s1) ocs2 (b_order b2)).
  set (K' := okeys cs ocs2 (map (key_inl s1 ocs2) (b_order b2))).
  assert (E4 : sort_on K2 (map h d') = map h (sort_on K' d')).
  { rewrite <- (map_sort_on h (fun a => K2 (h a)) K2 d') by reflexivity. f_equal.
    apply sort_on_ext_in. intros a Ha. destruct (Hd' a Ha) as [r [Hr ->]].
    unfold K2, K', okeys, h. simpl. rewrite map_map. apply map_ext_in. intros k Hkin.
    simpl. f_equal; [f_equal|].
    - apply key_inl_sound.
      + rewrite forallb_forall in Hk. apply Hk. exact Hkin.
      + apply Hwf. exact Hr.
    - unfold key_inl. destruct (is_outcol ocs2 (k_e k)); reflexivity.
    - unfold key_inl. destruct (is_outcol ocs2 (k_e k)); reflexivity. }
  rewrite E4.
  destruct (b_limit b2) as [n|].
  - rewrite firstn_map, map_map. reflexivity.
  - rewrite map_map. reflexivity.
Qed.

