(** C03 -- executable glue for the correspondence check (verdict strings computed by vm_compute). *)
From SF Require Export C03.Equiv.
From SF Require C03.Scoped C03.Render.
Open Scope Z_scope.

Definition b2s (b : bool) : string := if b then "1"%string else "0"%string.

(** * optimised vs raw chain, and both against what the engine returned *)
Inductive cmode := MSeq | MBag | MSub (n : nat) | MCount.

Definition cmp_rows (m : cmode) (ref pre got : list row) : bool :=
  match m with
  | MSeq => rows_eqb ref got
  | MBag => bag_eqb ref got
  | MSub n => Nat.eqb (List.length got) (Nat.min n (List.length pre)) && subbag got pre
  | MCount => Nat.eqb (List.length got) (List.length ref)
  end.

Record pcase := mkP {
  p_input : frame;
  p_raw : list block;                 (* exported from _get_expressions(optimize=False) *)
  p_opt : option (list block);        (* exported from _get_expressions(optimize=True); None: not exportable *)
  p_mode : cmode;
  p_collect : list string * list row;             (* df.collect() *)
  p_opttext : option (list string * list row) }.  (* rows of executing df.sql(optimize=True) *)

Definition frame_matches (m : cmode) (model : frame) (pre : list row) (got : list string * list row) : bool :=
  list_eqb String.eqb (cols model) (fst got) && cmp_rows m (rows model) pre (snd got).

(** verdict: certified | raw model = collect() | opt model = optimised text on the engine (1 when not applicable)
            | the same two comparisons as multisets (order ignored) *)
Definition check_pair (k : pcase) : string :=
  let cs := cols (p_input k) in
  let mraw := eval_chain (p_raw k) (p_input k) in
  let cert := match p_opt k with Some o => equiv_check cs (p_raw k) o | None => false end in
  let mr := frame_matches (p_mode k) mraw [] (p_collect k) in
  let mrb := frame_matches (match p_mode k with MSeq => MBag | m => m end) mraw [] (p_collect k) in
  let mo m := match p_opt k, p_opttext k with
              | Some o, Some got => frame_matches m (eval_chain o (p_input k)) [] got
              | _, _ => true end in
  (b2s cert ++ b2s mr ++ b2s (mo (p_mode k)) ++ b2s mrb ++ b2s (mo (match p_mode k with MSeq => MBag | m => m end)))%string.

(** certification only (one per program) *)
Definition check_equiv (c : list string * list block * list block) : bool :=
  let '(cs, a, b) := c in equiv_check cs a b.

(** * the CTE list with names *)
Import C03.Scoped.

Record scase := mkS {
  s_before : query;                       (* the DataFrame's tree before the step *)
  s_ops : list nop;                       (* the step, with the names the implementation drew *)
  s_after : query;                        (* the tree after the step *)
  s_pairs : list (string * string);       (* old -> new CTE names of the re-hashing (identity pairs dropped) *)
  s_hashed : option query;                (* the statement _get_expressions(optimize=False) returns; None: not checked *)
  s_texts : list query }.                 (* every statement df.sql() returned, parsed back *)

(** verdict: before scoped | oracle names fresh | model step = implementation | after scoped |
             re-hashing injective and new names not old | rename model = implementation | every returned text scoped *)
Fixpoint dedup_s (seen l : list string) : list string :=
  match l with
  | [] => []
  | x :: l' => if mem x seen then dedup_s seen l' else x :: dedup_s (x :: seen) l'
  end.
(** the exporter lists every table name a body reads once; so does the comparison *)
Definition dedup_q (q : query) : query :=
  mkQ (map (fun c => mkCte (c_name c) (dedup_s [] (c_refs c))) (q_ctes q)) (dedup_s [] (q_main q)).

Definition check_scope (k : scase) : string :=
  let model := dedup_q (fold_left nstep (s_ops k) (s_before k)) in
  let nm := names (q_ctes (s_after k)) in
  (b2s (scopedb (s_before k)) ++ b2s (nops_ok (s_before k) (s_ops k)) ++ b2s (query_eqb model (s_after k))
   ++ b2s (scopedb (s_after k))
   ++ b2s (injective_onb (apply_ren (s_pairs k)) nm && disjointb (map snd (s_pairs k)) (map fst (s_pairs k)))
   ++ b2s (match s_hashed k with
           | Some h => query_eqb (rename_q (apply_ren (s_pairs k)) (s_after k)) h
           | None => true end)
   ++ b2s (forallb scopedb (s_texts k)))%string.

(** * identifiers: which of them may be printed bare *)
Definition check_idents (reserved : list string) (ids : list string) : string :=
  String.concat "" (map (fun s => b2s (Render.plain reserved s)) ids).
