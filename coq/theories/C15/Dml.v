(** C15 -- table.update / table.delete: model of the statement builder in
    sqlframe/base/mixins/table_mixins.py (ensure_cte, _ensure_where_condition, UpdateSupportMixin.update,
    _ensure_and_normalize_update_set, DeleteSupportMixin.delete), of LazyExpression (sqlframe/base/table.py)
    and of the engine's UPDATE / DELETE semantics over a table (a list of rows in row-id order).

    Everything is parametric in a record [cfg] of facts that the T1 translator re-reads from the source on
    every run (translate/c15_facts.py -> Gen/C15Facts.v).  Nothing here depends on /repo. *)
From SF Require Import Base.Val Base.Expr.
Open Scope string_scope.

(** * User-level expressions: a column reference carries the qualifier the user wrote
      ([table['c']] gives the table object's branch id, [F.col('c')] none), and a Column built by a
      function ([F.when], [F.coalesce]) carries an automatic top-level alias. *)
Inductive qexpr :=
| QCol (q : option string) (n : string)
| QLit (v : val)
| QBin (o : binop) (a b : qexpr)
| QNot (a : qexpr)
| QNeg (a : qexpr)
| QIsNull (a : qexpr)
| QIf (c t e : qexpr)
| QCoalesce (a b : qexpr)
| QAlias (a : qexpr) (n : string).

(** what the expression means once every reference is read as a column of the one table *)
Fixpoint erase (e : qexpr) : expr :=
  match e with
  | QCol _ n => ECol n
  | QLit v => ELit v
  | QBin o a b => EBin o (erase a) (erase b)
  | QNot a => ENot (erase a)
  | QNeg a => ENeg (erase a)
  | QIsNull a => EIsNull (erase a)
  | QIf c t e' => EIf (erase c) (erase t) (erase e')
  | QCoalesce a b => ECoalesce (erase a) (erase b)
  | QAlias a _ => erase a
  end.

Fixpoint map_q (f : option string -> option string) (e : qexpr) : qexpr :=
  match e with
  | QCol q n => QCol (f q) n
  | QLit v => QLit v
  | QBin o a b => QBin o (map_q f a) (map_q f b)
  | QNot a => QNot (map_q f a)
  | QNeg a => QNeg (map_q f a)
  | QIsNull a => QIsNull (map_q f a)
  | QIf c t e' => QIf (map_q f c) (map_q f t) (map_q f e')
  | QCoalesce a b => QCoalesce (map_q f a) (map_q f b)
  | QAlias a n => QAlias (map_q f a) n
  end.

(** every column reference (qualifier, name) of the tree: what [find_all(exp.Column)] visits *)
Fixpoint qrefs (e : qexpr) : list (option string * string) :=
  match e with
  | QCol q n => [(q, n)]
  | QLit _ => []
  | QBin _ a b => qrefs a ++ qrefs b
  | QNot a | QNeg a | QIsNull a => qrefs a
  | QIf c t e' => qrefs c ++ qrefs t ++ qrefs e'
  | QCoalesce a b => qrefs a ++ qrefs b
  | QAlias a _ => qrefs a
  end.

Fixpoint has_alias (e : qexpr) : bool :=
  match e with
  | QCol _ _ | QLit _ => false
  | QBin _ a b => has_alias a || has_alias b
  | QNot a | QNeg a | QIsNull a => has_alias a
  | QIf c t e' => has_alias c || has_alias t || has_alias e'
  | QCoalesce a b => has_alias a || has_alias b
  | QAlias _ _ => true
  end.

(** [Column.column_expression] / [expression.unalias()] / [if isinstance(c, exp.Alias): c = c.this] *)
Definition strip_alias (e : qexpr) : qexpr := match e with QAlias a _ => a | _ => e end.

Definition oeqb (a b : option string) : bool :=
  match a, b with
  | None, None => true
  | Some x, Some y => String.eqb x y
  | _, _ => false
  end.

Fixpoint qexpr_eqb (a b : qexpr) : bool :=
  match a, b with
  | QCol q n, QCol q' n' => oeqb q q' && String.eqb n n'
  | QLit v, QLit v' => val_eqb v v'
  | QBin o a1 a2, QBin p b1 b2 => expr_eqb (EBin o (ELit VNull) (ELit VNull)) (EBin p (ELit VNull) (ELit VNull))
                                  && qexpr_eqb a1 b1 && qexpr_eqb a2 b2
  | QNot x, QNot y | QNeg x, QNeg y | QIsNull x, QIsNull y => qexpr_eqb x y
  | QIf c1 t1 e1, QIf c2 t2 e2 => qexpr_eqb c1 c2 && qexpr_eqb t1 t2 && qexpr_eqb e1 e2
  | QCoalesce a1 a2, QCoalesce b1 b2 => qexpr_eqb a1 b1 && qexpr_eqb a2 b2
  | QAlias x n, QAlias y m => qexpr_eqb x y && String.eqb n m
  | _, _ => false
  end.

(** * The table object *)
Record tstate := mkT {
  phys : string;     (* name of the physical table: ctes[0].this.args["from"].this.alias_or_name *)
  cte : string;      (* name of the CTE ensure_cte wraps the leaf into: expression.args["from"].this.alias_or_name *)
  branch : string;   (* branch id: the qualifier table['c'] produces; normalize() maps it to the CTE name *)
  tpath : list string (* schema / catalog.schema the table was opened with: session.table("archive.t") -> ["archive"] *)
}.
(** the table reference as written: qualifiers ++ [name] *)
Definition tref (st : tstate) : list string := (tpath st ++ [phys st])%list.

(** what the statement is aimed at *)
Inductive tkind :=
| TScan      (* the Table node scanned by the first CTE itself: keeps schema and catalog *)
| TBare      (* a table rebuilt from the bare name: schema and catalog dropped *)
| TCte.      (* the CTE the DataFrame selects from *)
Definition tkind_is_scan (k : tkind) : bool := match k with TScan => true | _ => false end.

(** * Facts read from the source (T1) *)
Record cfg := mkCfg {
  none_is_true : bool;            (* where=None -> exp.Boolean(this=True) *)
  list_op : binop;                (* reduce(lambda x, y: x & y, conditions) *)
  where_requalifies : bool;       (* every Column under the condition: table == CTE name -> physical name *)
  where_strips_alias : bool;      (* if isinstance(condition, exp.Alias): condition = condition.this *)
  where_str_is_sql : bool;        (* a str predicate is parsed as SQL (false: it is taken for a column NAME) *)
  set_requalifies : bool;         (* assigned values: table == CTE name -> physical name *)
  set_unqualified_raises : bool;  (* the else branch (ValueError) also catches unqualified references *)
  set_strips_alias : bool;        (* top-level alias of an assigned value removed *)
  target_update : tkind;          (* exp.Update(this = ctes[0].this.args["from"].this) is TScan *)
  target_delete : tkind;          (* exp.Delete(this = ctes[0].this.args["from"].this) is TScan *)
  update_has_where : bool;        (* where=exp.Where(this=condition) handed to exp.Update *)
  delete_has_where : bool;        (* where=exp.Where(this=condition) handed to exp.Delete *)
  ensure_cte_update : bool;       (* @ensure_cte() on update *)
  ensure_cte_delete : bool;       (* @ensure_cte() on delete *)
  build_session_calls : nat;      (* session._collect/_execute/... calls while BUILDING the lazy expression *)
  execute_session_calls : nat     (* session._collect calls in LazyExpression.execute *)
}.

Definition binop_is_and (o : binop) : bool := match o with And => true | _ => false end.

(** what the property needs of the facts; the three flags that only decide the accepted domain
    (where_str_is_sql, set_unqualified_raises, set_strips_alias) are deliberately not constrained *)
Definition cfg_ok (c : cfg) : bool :=
  none_is_true c && binop_is_and (list_op c) && where_requalifies c && where_strips_alias c
  && set_requalifies c && tkind_is_scan (target_update c) && tkind_is_scan (target_delete c) && update_has_where c
  && delete_has_where c && ensure_cte_update c && ensure_cte_delete c
  && Nat.eqb (build_session_calls c) 0 && Nat.eqb (execute_session_calls c) 1.

(** * Calls *)
Inductive wherearg :=
| WNone                                  (* where omitted *)
| WBool (b : bool)                       (* where=True / False *)
| WCols (l : list qexpr)                 (* a Column, or a list of Columns *)
| WStr (s : string) (parsed : qexpr).    (* a SQL string, with the expression it denotes *)

Inductive call :=
| CUpdate (set : list (qexpr * qexpr)) (w : wherearg)
| CDelete (w : wherearg).

Inductive err := EValue | EIndex | EParser | EBinder | ECatalog | EOther.
Definition err_eqb (a b : err) : bool :=
  match a, b with
  | EValue, EValue | EIndex, EIndex | EParser, EParser | EBinder, EBinder | ECatalog, ECatalog | EOther, EOther => true
  | _, _ => false
  end.

Inductive stmt :=
| SUpdate (tn : list string) (set : list (string * qexpr)) (w : option qexpr)
| SDelete (tn : list string) (w : option qexpr).

(** * The builder *)
(** normalize(): the branch id is replaced by the name of the CTE carrying it *)
Definition norm_q (st : tstate) (q : option string) : option string :=
  match q with Some s => if String.eqb s (branch st) then Some (cte st) else Some s | None => None end.
Definition normalize (st : tstate) : qexpr -> qexpr := map_q (norm_q st).
(** the re-qualification loop *)
Definition requal_q (st : tstate) (q : option string) : option string :=
  match q with Some s => if String.eqb s (cte st) then Some (phys st) else Some s | None => None end.

(** [x & y]: Column.binary_op works on the un-aliased operands *)
Definition conj_step (o : binop) (a b : qexpr) : qexpr := QBin o (strip_alias a) (strip_alias b).

Definition where_items (c : cfg) (w : wherearg) : list qexpr :=
  match w with
  | WNone => []
  | WBool b => [QLit (VBool b)]
  | WCols l => l
  | WStr s p => [if where_str_is_sql c then p else QCol None s]
  end.

Definition compile_items (c : cfg) (st : tstate) (l : list qexpr) : err + qexpr :=
  match map (normalize st) l with
  | [] => inl EIndex                                       (* condition_list[0] on an empty list *)
  | x :: rest =>
      let e := fold_left (conj_step (list_op c)) rest x in
      let e := if where_requalifies c then map_q (requal_q st) e else e in
      inr (if where_strips_alias c then strip_alias e else e)
  end.

Definition compile_where (c : cfg) (st : tstate) (w : wherearg) : err + qexpr :=
  match w with
  | WNone => inr (QLit (VBool (none_is_true c)))
  | _ => compile_items c st (where_items c w)
  end.

(** Python dict: assigning an existing key keeps its position *)
Fixpoint upsert {A} (n : string) (v : A) (l : list (string * A)) : list (string * A) :=
  match l with
  | [] => [(n, v)]
  | (m, w) :: l' => if String.eqb m n then (m, v) :: l' else (m, w) :: upsert n v l'
  end.

(** the [else: raise ValueError] of _ensure_and_normalize_update_set, on a normalised qualifier *)
Definition set_bad_q (c : cfg) (st : tstate) (q : option string) : bool :=
  match q with
  | None => set_unqualified_raises c
  | Some s => negb (String.eqb s (cte st))
  end.

Definition compile_set1 (c : cfg) (st : tstate) (kv : qexpr * qexpr) (us : list (string * qexpr))
  : err + list (string * qexpr) :=
  match qrefs (normalize st (fst kv)) with
  | [] => inl EIndex                                       (* key_expr[0] *)
  | [(_, n)] =>
      let v := normalize st (snd kv) in
      if existsb (fun qn => set_bad_q c st (fst qn)) (qrefs v) then inl EValue
      else
        let v := if set_requalifies c then map_q (requal_q st) v else v in
        let v := if set_strips_alias c then strip_alias v else v in
        inr (upsert n v us)
  | _ => inl EValue                                        (* "Can only update one a single column at a time." *)
  end.

Fixpoint compile_set_from (c : cfg) (st : tstate) (set : list (qexpr * qexpr)) (us : list (string * qexpr))
  : err + list (string * qexpr) :=
  match set with
  | [] => inr us
  | kv :: set' => match compile_set1 c st kv us with inl e => inl e | inr us' => compile_set_from c st set' us' end
  end.
Definition compile_set c st set := compile_set_from c st set [].

Definition target (k : tkind) (st : tstate) : list string :=
  match k with TScan => tref st | TBare => [phys st] | TCte => [cte st] end.
Definition wrap_where (has_where : bool) (p : qexpr) : option qexpr := if has_where then Some p else None.

Definition compile (c : cfg) (st : tstate) (k : call) : err + stmt :=
  match k with
  | CUpdate set w =>
      if negb (ensure_cte_update c) then inl EIndex         (* expression.ctes[0] on a leaf without CTE *)
      else match compile_where c st w with
           | inl e => inl e
           | inr p => match compile_set c st set with
                      | inl e => inl e
                      | inr us => inr (SUpdate (target (target_update c) st) us (wrap_where (update_has_where c) p))
                      end
           end
  | CDelete w =>
      if negb (ensure_cte_delete c) then inl EIndex
      else match compile_where c st w with
           | inl e => inl e
           | inr p => inr (SDelete (target (target_delete c) st) (wrap_where (delete_has_where c) p))
           end
  end.

(** * The engine (definitions of DuckDB's behaviour on the emitted fragment; validated by T3) *)
Fixpoint assoc {A} (n : string) (l : list (string * A)) : option A :=
  match l with
  | [] => None
  | (m, v) :: l' => if String.eqb m n then Some v else assoc n l'
  end.

(** every SET expression is evaluated on the row's OLD values *)
Definition assign_row (cs : list string) (look : string -> option expr) (r : row) : row :=
  map (fun cv => match look (fst cv) with Some e => eval cs r e | None => snd cv end) (combine cs r).

Definition ref_ok (tn : string) (cs : list string) (qn : option string * string) : bool :=
  match fst qn with None => true | Some q => String.eqb q tn end && mem (snd qn) cs.
Definition resolvable (tn : string) (cs : list string) (e : qexpr) : bool := forallb (ref_ok tn cs) (qrefs e).

Definition olist {A} (o : option A) : list A := match o with Some x => [x] | None => [] end.
Definition stmt_exprs (s : stmt) : list qexpr :=
  match s with SUpdate _ set w => map snd set ++ olist w | SDelete _ w => olist w end.
Definition stmt_keys (s : stmt) : list string :=
  match s with SUpdate _ set _ => map fst set | SDelete _ _ => [] end.
Definition stmt_target (s : stmt) : list string := match s with SUpdate tn _ _ | SDelete tn _ => tn end.
Definition stmt_where (s : stmt) : option qexpr := match s with SUpdate _ _ w | SDelete _ w => w end.

Fixpoint nodupb (l : list string) : bool :=
  match l with [] => true | x :: l' => negb (mem x l') && nodupb l' end.

(** a statement selects the rows on which its WHERE is TRUE (no WHERE: all rows) *)
Definition sel (cs : list string) (w : option qexpr) (r : row) : bool :=
  match w with None => true | Some p => holds cs r (erase p) end.

Definition erase_set (set : list (string * qexpr)) : list (string * expr) :=
  map (fun kv => (fst kv, erase (snd kv))) set.

Definition exec_rows (cs : list string) (rows : list row) (s : stmt) : list row :=
  match s with
  | SUpdate _ set w =>
      map (fun r => if sel cs w r then assign_row cs (fun n => assoc n (erase_set set)) r else r) rows
  | SDelete _ w => filter (fun r => negb (sel cs w r)) rows
  end.

(** the database side of a table: the connection's catalog and default schema, and the (schema, table) the
    rows live under.  A reference [t] means (default schema, t); [s.t] means (s, t); [c.s.t] means (s, t) when c
    is the connection's catalog, and nothing otherwise. *)
Record tabref := mkRef { r_cat : string; r_default : string; r_schema : string; r_table : string }.
Definition bare (name : tabref) : string := r_table name.
Definition resolve (cat dflt : string) (r : list string) : option (string * string) :=
  match r with
  | [t] => Some (dflt, t)
  | [s; t] => Some (s, t)
  | [c; s; t] => if String.eqb c cat then Some (s, t) else None
  | _ => None
  end.
Definition names_table (name : tabref) (r : list string) : bool :=
  match resolve (r_cat name) (r_default name) r with
  | Some (s, t) => String.eqb s (r_schema name) && String.eqb t (r_table name)
  | None => false
  end.
(** the table object was opened on the table [name] *)
Definition points_to (name : tabref) (st : tstate) : bool :=
  names_table name (tref st) && String.eqb (bare name) (phys st).

(** [name]: the table that exists; an [AS alias] inside SET/WHERE is a syntax error; a reference that
    does not resolve (or a SET column named twice) is a binder error; a failed statement changes nothing.
    Result: rows after, and the affected-row count the engine reports. *)
Definition stmt_syntax_ok (s : stmt) : bool := forallb (fun e => negb (has_alias e)) (stmt_exprs s).
Definition stmt_binds (name : string) (cs : list string) (s : stmt) : bool :=
  forallb (resolvable name cs) (stmt_exprs s) && forallb (fun k => mem k cs) (stmt_keys s) && nodupb (stmt_keys s).
Definition exec (name : tabref) (cs : list string) (rows : list row) (s : stmt) : err + (list row * nat) :=
  if negb (stmt_syntax_ok s) then inl EParser
  else if negb (names_table name (stmt_target s)) then inl ECatalog
  else if negb (stmt_binds (bare name) cs s) then inl EBinder
  else inr (exec_rows cs rows s, List.length (filter (sel cs (stmt_where s)) rows)).

Definition run (c : cfg) (st : tstate) (name : tabref) (cs : list string) (rows : list row) (k : call)
  : err + (list row * nat) :=
  match compile c st k with inl e => inl e | inr s => exec name cs rows s end.

(** * The property's meaning (independent of cfg) *)
Definition spec_sel (cs : list string) (w : wherearg) (r : row) : bool :=
  match w with
  | WNone => true
  | WBool b => b
  | WCols l => forallb (fun e => holds cs r (erase e)) l
  | WStr _ p => holds cs r (erase p)
  end.

Definition key_name (k : qexpr) : string := match qrefs k with (_, n) :: _ => n | [] => "" end.
(** the binding written LAST for a column wins (Python dict / one value per column) *)
Definition assoc_last {A} (n : string) (l : list (string * A)) : option A :=
  fold_left (fun acc kv => if String.eqb (fst kv) n then Some (snd kv) else acc) l None.
Definition spec_set (set : list (qexpr * qexpr)) : list (string * expr) :=
  map (fun kv => (key_name (fst kv), erase (snd kv))) set.

Definition spec_rows (cs : list string) (k : call) (rows : list row) : list row :=
  match k with
  | CUpdate set w =>
      map (fun r => if spec_sel cs w r then assign_row cs (fun n => assoc_last n (spec_set set)) r else r) rows
  | CDelete w => filter (fun r => negb (spec_sel cs w r)) rows
  end.
Definition call_where (k : call) : wherearg := match k with CUpdate _ w | CDelete w => w end.
Definition spec_count (cs : list string) (k : call) (rows : list row) : nat :=
  List.length (filter (spec_sel cs (call_where k)) rows).

(** * Domains *)
Definition omem (q : option string) (l : list (option string)) : bool := existsb (oeqb q) l.

(** the full property's domain: references name existing columns and are written as table['c'] or
    col('c'); aliases only where the API puts them (top level of a function-built Column) *)
Definition user_quals (st : tstate) : list (option string) := [None; Some (branch st)].
(** qualifiers that also reach the physical table (accepted in predicates, not named by the property) *)
Definition self_quals (st : tstate) : list (option string) :=
  [None; Some (branch st); Some (phys st); Some (cte st)].
Definition refs_in (allowed : list (option string)) (cs : list string) (e : qexpr) : bool :=
  forallb (fun qn => omem (fst qn) allowed && mem (snd qn) cs) (qrefs e).
Definition pred_in (allowed : list (option string)) (cs : list string) (e : qexpr) : bool :=
  negb (has_alias (strip_alias e)) && refs_in allowed cs e.
Definition pred_wf (st : tstate) (cs : list string) (e : qexpr) : bool := pred_in (user_quals st) cs e.
Definition pred_ok (st : tstate) (cs : list string) (e : qexpr) : bool := pred_in (self_quals st) cs e.
Definition is_nil {A} (l : list A) : bool := match l with [] => true | _ => false end.

Definition where_wf (st : tstate) (cs : list string) (w : wherearg) : bool :=
  match w with
  | WNone | WBool _ => true
  | WCols l => negb (is_nil l) && forallb (pred_wf st cs) l
  | WStr _ p => pred_wf st cs p
  end.
Definition key_wf (cs : list string) (k : qexpr) : bool :=
  match qrefs k with [(_, n)] => mem n cs | _ => false end.
Definition set_wf (st : tstate) (cs : list string) (set : list (qexpr * qexpr)) : bool :=
  forallb (fun kv => key_wf cs (fst kv) && pred_wf st cs (snd kv)) set.
Definition call_wf (st : tstate) (cs : list string) (k : call) : bool :=
  match k with
  | CUpdate set w => where_wf st cs w && set_wf st cs set
  | CDelete w => where_wf st cs w
  end.

(** the domain on which the implementation described by [c] is proved right *)
Definition where_ok (c : cfg) (st : tstate) (cs : list string) (w : wherearg) : bool :=
  match w with
  | WNone | WBool _ => true
  | WCols l => negb (is_nil l) && forallb (pred_ok st cs) l
  | WStr s p =>
      if where_str_is_sql c then pred_ok st cs p
      else match p with QCol None n => String.eqb n s && mem s cs | _ => false end
  end.
Definition val_ok (c : cfg) (st : tstate) (cs : list string) (v : qexpr) : bool :=
  negb (has_alias (if set_strips_alias c then strip_alias v else v))
  && forallb (fun qn => negb (set_bad_q c st (norm_q st (fst qn))) && mem (snd qn) cs) (qrefs v).
Definition set_ok (c : cfg) (st : tstate) (cs : list string) (set : list (qexpr * qexpr)) : bool :=
  forallb (fun kv => key_wf cs (fst kv) && val_ok c st cs (snd kv)) set.
Definition call_ok (c : cfg) (st : tstate) (cs : list string) (k : call) : bool :=
  match k with
  | CUpdate set w => where_ok c st cs w && set_ok c st cs set
  | CDelete w => where_ok c st cs w
  end.

(** * The whole database: a statement changes the one table its target resolves to, and no other *)
Definition db := list ((string * string) * list row).
Definition addr_eqb (a b : string * string) : bool := String.eqb (fst a) (fst b) && String.eqb (snd a) (snd b).
Fixpoint db_get (a : string * string) (d : db) : option (list row) :=
  match d with [] => None | (b, rows) :: d' => if addr_eqb b a then Some rows else db_get a d' end.
Fixpoint db_set (a : string * string) (rows : list row) (d : db) : db :=
  match d with
  | [] => []
  | (b, old) :: d' => if addr_eqb b a then (b, rows) :: d' else (b, old) :: db_set a rows d'
  end.
(** all tables of the database share the columns [cs] (enough for "a same-named table in another schema") *)
Definition exec_db (cat dflt : string) (cs : list string) (d : db) (s : stmt) : err + (db * nat) :=
  match resolve cat dflt (stmt_target s) with
  | None => inl ECatalog
  | Some a =>
      match db_get a d with
      | None => if stmt_syntax_ok s then inl ECatalog else inl EParser
      | Some rows =>
          match exec (mkRef cat dflt (fst a) (snd a)) cs rows s with
          | inl e => inl e
          | inr (rows', n) => inr (db_set a rows' d, n)
          end
      end
  end.
Definition run_db (c : cfg) (st : tstate) (cat dflt : string) (cs : list string) (d : db) (k : call) : err + (db * nat) :=
  match compile c st k with inl e => inl e | inr s => exec_db cat dflt cs d s end.

(** * Histories: lazy expressions are built and, later, executed in any order, any number of times *)
Inductive action :=
| ABuild (k : call)        (* le_i = table.update(...) / table.delete(...) *)
| AExec (i : nat).         (* le_i.execute() *)

Record world := mkW {
  w_rows : list row;
  w_sent : nat;                       (* statements that reached the connection *)
  w_built : list (err + stmt)
}.

Fixpoint exec_n (name : tabref) (cs : list string) (n : nat) (rows : list row) (s : stmt) : list row :=
  match n with
  | O => rows
  | S n' => exec_n name cs n' (match exec name cs rows s with inr (rs, _) => rs | inl _ => rows end) s
  end.

Definition step (c : cfg) (st : tstate) (name : tabref) (cs : list string) (w : world) (a : action) : world :=
  match a with
  | ABuild k =>
      let b := compile c st k in
      let rows' := match b with inr s => exec_n name cs (build_session_calls c) (w_rows w) s | inl _ => w_rows w end in
      mkW rows' (w_sent w + match b with inr _ => build_session_calls c | inl _ => 0 end) (w_built w ++ [b])
  | AExec i =>
      match nth_error (w_built w) i with
      | Some (inr s) => mkW (exec_n name cs (execute_session_calls c) (w_rows w) s)
                            (w_sent w + execute_session_calls c) (w_built w)
      | _ => w
      end
  end.
Definition run_hist c st name cs (w : world) (h : list action) : world := fold_left (step c st name cs) h w.

Fixpoint spec_hist (cs : list string) (built : list call) (rows : list row) (h : list action) : list row :=
  match h with
  | [] => rows
  | ABuild k :: h' => spec_hist cs (built ++ [k]) rows h'
  | AExec i :: h' =>
      match nth_error built i with
      | Some k => spec_hist cs built (spec_rows cs k rows) h'
      | None => spec_hist cs built rows h'
      end
  end.
Fixpoint hist_ok (c : cfg) (st : tstate) (cs : list string) (h : list action) : bool :=
  match h with
  | [] => true
  | ABuild k :: h' => call_ok c st cs k && hist_ok c st cs h'
  | AExec _ :: h' => hist_ok c st cs h'
  end.
Fixpoint execs_in (nbuilt : nat) (h : list action) : nat :=
  match h with
  | [] => 0
  | ABuild _ :: h' => execs_in (S nbuilt) h'
  | AExec i :: h' => (if Nat.ltb i nbuilt then 1 else 0) + execs_in nbuilt h'
  end.

Definition wf_rows (cs : list string) (rows : list row) : Prop :=
  forall r, In r rows -> List.length r = List.length cs.
