(** C15 -- executable comparison of one observed update()/delete() + execute() of the real
    implementation with the model and with the property's meaning (ties T2 and T3).  Evaluated by
    vm_compute inside the case files the harness writes. *)
From SF Require Import Base.Val Base.Expr Base.Sort C15.Dml.
Open Scope string_scope.

Fixpoint list_eqb {A} (eqb : A -> A -> bool) (a b : list A) : bool :=
  match a, b with
  | [], [] => true
  | x :: a', y :: b' => eqb x y && list_eqb eqb a' b'
  | _, _ => false
  end.
Definition opt_eqb {A} (eqb : A -> A -> bool) (a b : option A) : bool :=
  match a, b with None, None => true | Some x, Some y => eqb x y | _, _ => false end.

Definition entry_eqb (a b : string * qexpr) : bool := String.eqb (fst a) (fst b) && qexpr_eqb (snd a) (snd b).
Definition stmt_eqb (a b : stmt) : bool :=
  match a, b with
  | SUpdate t1 s1 w1, SUpdate t2 s2 w2 => String.eqb t1 t2 && list_eqb entry_eqb s1 s2 && opt_eqb qexpr_eqb w1 w2
  | SDelete t1 w1, SDelete t2 w2 => String.eqb t1 t2 && opt_eqb qexpr_eqb w1 w2
  | _, _ => false
  end.

Record execobs := mkExec {
  x_err : option err;          (* exception class of execute(), mapped to the small enum *)
  x_rows : list row;           (* table after execute(), in row-id order, read from the raw connection *)
  x_count : option nat;        (* the Count execute() returned *)
  x_sent : nat                 (* statements that reached the connection during execute() *)
}.

Record case := mkCase {
  k_st : tstate;
  k_name : string;             (* the table that exists in the database *)
  k_cols : list string;
  k_call : call;
  k_rows0 : list row;          (* table before update()/delete() is called *)
  k_rows1 : list row;          (* table after it returned or raised (nothing executed yet) *)
  k_sent_build : nat;          (* statements that reached the connection while building *)
  k_build_err : option err;
  k_exported : option stmt;    (* the sqlglot tree the implementation built, exported (tie T2) *)
  k_pre : list row;            (* table right before execute() (other statements may have run since the build) *)
  k_exec : option execobs      (* None: never executed because the build raised *)
}.

Definition b2s (b : bool) : string := if b then "1" else "0".

(** verdict string, one character per question:
    0 t2      exported tree = model's statement          ('x' = nothing exported)
    1 lazy    table unchanged and no statement sent by the build, as the model says
    2 build   build outcome (ok / error class) = model
    3 exec    execute() outcome (error class | rows in row-id order, Count, statements sent) = model
    4 spec    implementation = the property's meaning (no error, same bag of rows, same count)
    5 m=s     model = the property's meaning on this input
    6 dom     call_ok  (domain of C15_partial)
    7 wf      call_wf  (domain of C15_full) *)
Definition check (c : cfg) (k : case) : string :=
  let st := k_st k in
  let cs := k_cols k in
  let m := compile c st (k_call k) in
  let t2 := match k_exported k, m with
            | Some s, inr s' => b2s (stmt_eqb s s')
            | Some _, inl _ => "0"
            | None, _ => "x"
            end in
  let lazy := list_eqb row_eqb (k_rows0 k) (k_rows1 k)
              && Nat.eqb (k_sent_build k) (match m with inr _ => build_session_calls c | inl _ => 0 end) in
  let build := match k_build_err k, m with
               | None, inr _ => true
               | Some e, inl e' => err_eqb e e'
               | _, _ => false
               end in
  let exec_m := match m with inr s => Some (exec (k_name k) cs (k_pre k) s) | inl _ => None end in
  let ex := match k_exec k, exec_m with
            | None, None => true
            | Some x, Some (inl e) =>
                opt_eqb err_eqb (x_err x) (Some e) && list_eqb row_eqb (x_rows x) (k_pre k)
                && Nat.eqb (x_sent x) (execute_session_calls c)
            | Some x, Some (inr (rs, n)) =>
                opt_eqb err_eqb (x_err x) None && list_eqb row_eqb (x_rows x) rs
                && opt_eqb Nat.eqb (x_count x) (Some n) && Nat.eqb (x_sent x) (execute_session_calls c)
            | _, _ => false
            end in
  let sp_rows := spec_rows cs (k_call k) (k_pre k) in
  let sp_n := spec_count cs (k_call k) (k_pre k) in
  let spec := match k_exec k with
              | Some x => opt_eqb err_eqb (x_err x) None && bag_eqb (x_rows x) sp_rows
                          && opt_eqb Nat.eqb (x_count x) (Some sp_n)
                          && list_eqb row_eqb (k_rows0 k) (k_rows1 k)
              | None => false
              end in
  let ms := match run c st (k_name k) cs (k_pre k) (k_call k) with
            | inr (rs, n) => list_eqb row_eqb rs sp_rows && Nat.eqb n sp_n
            | inl _ => false
            end in
  t2 ++ b2s lazy ++ b2s build ++ b2s ex ++ b2s spec ++ b2s ms
     ++ b2s (call_ok c st cs (k_call k)) ++ b2s (call_wf st cs (k_call k)).

(** reference evaluation of the property's meaning alone (validated against an independent SELECT on
    DuckDB by the harness): rows the table should hold after the call, in order *)
Definition spec_matches (cs : list string) (k : call) (pre expected : list row) : bool :=
  list_eqb row_eqb (spec_rows cs k pre) expected.
