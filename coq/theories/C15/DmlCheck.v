(** C15 -- executable comparison of one observed update()/delete() + execute() of the real
    implementation with the model and with the property's meaning (ties T2 and T3).  Evaluated by
    vm_compute inside the case files the harness writes. *)
From SF Require Import Base.Val Base.Expr Base.Sort C15.Dml.
Open Scope string_scope.

Fixpoint list_eqb {A} (eqb : A -> A -> bool) (a b : list A) : bool :=
  match a, b with
  | [], [] => true
  | x :: a', y :: b' => eqb x y && list_eqb eqb a' b'
  | _, _ => false
  end.
Definition opt_eqb {A} (eqb : A -> A -> bool) (a b : option A) : bool :=
  match a, b with None, None => true | Some x, Some y => eqb x y | _, _ => false end.

Definition entry_eqb (a b : string * qexpr) : bool := String.eqb (fst a) (fst b) && qexpr_eqb (snd a) (snd b).
Definition stmt_eqb (a b : stmt) : bool :=
  match a, b with
  | SUpdate t1 s1 w1, SUpdate t2 s2 w2 => list_eqb String.eqb t1 t2 && list_eqb entry_eqb s1 s2 && opt_eqb qexpr_eqb w1 w2
  | SDelete t1 w1, SDelete t2 w2 => list_eqb String.eqb t1 t2 && opt_eqb qexpr_eqb w1 w2
  | _, _ => false
  end.

(** ** T2 up to meaning: two statements that parse, bind to the same table and agree once qualifiers are
       erased and negated integer literals folded ([- 3] is written Neg(Literal 3) by sqlglot's parser and by
       exp.convert alike, so the exporter cannot tell [QNeg (QLit 3)] from [QLit (-3)]) behave alike on EVERY
       table content -- an implementation that, say, qualifies more references than the model still agrees. *)
Fixpoint fold_neg (e : expr) : expr :=
  match e with
  | ECol _ | ELit _ => e
  | EBin o a b => EBin o (fold_neg a) (fold_neg b)
  | ENot a => ENot (fold_neg a)
  | ENeg a => match fold_neg a with ELit (VInt z) => ELit (VInt (- z)) | a' => ENeg a' end
  | EIsNull a => EIsNull (fold_neg a)
  | EIf c t e' => EIf (fold_neg c) (fold_neg t) (fold_neg e')
  | ECoalesce a b => ECoalesce (fold_neg a) (fold_neg b)
  end.

Lemma fold_neg_sound cs r e : eval cs r (fold_neg e) = eval cs r e.
Proof.
  induction e; cbn [fold_neg]; try reflexivity.
  - simpl. rewrite IHe1, IHe2. reflexivity.
  - simpl. rewrite IHe. reflexivity.
  - cbn [eval]. rewrite <- IHe. destruct (fold_neg e) as [|[| z | | |]| | | | | |]; reflexivity.
  - simpl. rewrite IHe. reflexivity.
  - simpl. rewrite IHe1, IHe2, IHe3. reflexivity.
  - simpl. rewrite IHe1, IHe2. reflexivity.
Qed.

Definition expr_equiv (a b : expr) : bool := expr_eqb (fold_neg a) (fold_neg b).
Lemma expr_equiv_eval a b : expr_equiv a b = true -> forall cs r, eval cs r a = eval cs r b.
Proof.
  unfold expr_equiv. intros H cs r. apply expr_eqb_eq in H.
  rewrite <- (fold_neg_sound cs r a), <- (fold_neg_sound cs r b), H. reflexivity.
Qed.

Definition entry_equiv (a b : string * qexpr) : bool :=
  String.eqb (fst a) (fst b) && expr_equiv (erase (snd a)) (erase (snd b)).
Definition where_equiv (a b : qexpr) : bool := expr_equiv (erase a) (erase b).
Definition stmt_equiv (name : tabref) (cs : list string) (a b : stmt) : bool :=
  stmt_syntax_ok a && stmt_syntax_ok b
  && names_table name (stmt_target a) && names_table name (stmt_target b)
  && stmt_binds (bare name) cs a && stmt_binds (bare name) cs b
  && match a, b with
     | SUpdate _ s1 w1, SUpdate _ s2 w2 => list_eqb entry_equiv s1 s2 && opt_eqb where_equiv w1 w2
     | SDelete _ w1, SDelete _ w2 => opt_eqb where_equiv w1 w2
     | _, _ => false
     end.

Lemma entries_equiv_look cs r s1 : forall s2, list_eqb entry_equiv s1 s2 = true -> forall n,
  option_map (eval cs r) (assoc n (erase_set s1)) = option_map (eval cs r) (assoc n (erase_set s2)).
Proof.
  induction s1 as [|[k1 v1] s1 IH]; intros [|[k2 v2] s2] H n; simpl in H; try discriminate; [reflexivity|].
  apply andb_true_iff in H. destruct H as [H1 H2]. unfold entry_equiv in H1. simpl in H1.
  apply andb_true_iff in H1. destruct H1 as [Hk Hv]. apply String.eqb_eq in Hk. subst k2.
  simpl. destruct (String.eqb k1 n); simpl.
  - rewrite (expr_equiv_eval _ _ Hv cs r). reflexivity.
  - apply IH. exact H2.
Qed.

Lemma where_equiv_sel cs w1 w2 : opt_eqb where_equiv w1 w2 = true -> forall r, sel cs w1 r = sel cs w2 r.
Proof.
  destruct w1 as [p1|], w2 as [p2|]; simpl; intros H r; try discriminate; [|reflexivity].
  unfold where_equiv in H. unfold holds. rewrite (expr_equiv_eval _ _ H cs r). reflexivity.
Qed.

Lemma filter_ext'' {A} (P Q : A -> bool) l : (forall x, P x = Q x) -> filter P l = filter Q l.
Proof. intro H. induction l as [|x l IH]; simpl; [reflexivity|]. rewrite H, IH. reflexivity. Qed.

Lemma assign_row_equiv cs s1 s2 r : list_eqb entry_equiv s1 s2 = true ->
  assign_row cs (fun n => assoc n (erase_set s1)) r = assign_row cs (fun n => assoc n (erase_set s2)) r.
Proof.
  intro H. unfold assign_row. apply map_ext. intros [cn v]. cbn [fst snd].
  pose proof (entries_equiv_look cs r s1 s2 H cn) as E.
  destruct (assoc cn (erase_set s1)), (assoc cn (erase_set s2)); simpl in E; try discriminate; try reflexivity.
  inversion E. reflexivity.
Qed.

Theorem stmt_equiv_sound name cs a b :
  stmt_equiv name cs a b = true -> forall rows, exec name cs rows a = exec name cs rows b.
Proof.
  unfold stmt_equiv. intros H rows.
  apply andb_true_iff in H. destruct H as [H Hm].
  apply andb_true_iff in H. destruct H as [H Hbb].
  apply andb_true_iff in H. destruct H as [H Hba].
  apply andb_true_iff in H. destruct H as [H Htb].
  apply andb_true_iff in H. destruct H as [H Hta].
  apply andb_true_iff in H. destruct H as [Hsa Hsb].
  unfold exec. rewrite Hsa, Hsb, Hta, Htb, Hba, Hbb. simpl.
  destruct a as [t1 s1 w1|t1 w1], b as [t2 s2 w2|t2 w2]; try discriminate; simpl in *.
  - apply andb_true_iff in Hm. destruct Hm as [Hs Hw]. f_equal. f_equal.
    + apply map_ext. intro r. rewrite (where_equiv_sel cs _ _ Hw r).
      destruct (sel cs w2 r); [|reflexivity]. apply assign_row_equiv. exact Hs.
    + f_equal. apply filter_ext''. apply (where_equiv_sel cs _ _ Hw).
  - f_equal. f_equal.
    + apply filter_ext''. intro r. rewrite (where_equiv_sel cs _ _ Hm r). reflexivity.
    + f_equal. apply filter_ext''. apply (where_equiv_sel cs _ _ Hm).
Qed.

Record execobs := mkExec {
  x_err : option err;          (* exception class of execute(), mapped to the small enum *)
  x_rows : list row;           (* table after execute(), in row-id order, read from the raw connection *)
  x_count : option nat;        (* the Count execute() returned *)
  x_sent : nat                 (* statements that reached the connection during execute() *)
}.

Record case := mkCase {
  k_st : tstate;
  k_name : tabref;             (* the table the object was opened on (connection catalog, default schema, schema, name) *)
  k_shadow : option ((string * string) * list row * list row);
                               (* another table (same name, default schema): its rows before / after execute() *)
  k_cols : list string;
  k_call : call;
  k_rows0 : list row;          (* table before update()/delete() is called *)
  k_rows1 : list row;          (* table after it returned or raised (nothing executed yet) *)
  k_sent_build : nat;          (* statements that reached the connection while building *)
  k_build_err : option err;
  k_exported : option stmt;    (* the sqlglot tree the implementation built, exported (tie T2) *)
  k_pre : list row;            (* table right before execute() (other statements may have run since the build) *)
  k_exec : option execobs      (* None: never executed because the build raised *)
}.

Definition b2s (b : bool) : string := if b then "1" else "0".

(** verdict string, one character per question:
    0 t2      exported tree = model's statement, or equivalent to it for all table contents
              (stmt_equiv_sound)                          ('x' = nothing exported)
    1 lazy    table unchanged and no statement sent by the build, as the model says
    2 build   build outcome (ok / error class) = model
    3 exec    execute() outcome (error class | rows in row-id order, Count, statements sent) = model
    4 spec    implementation = the property's meaning (no error, same bag of rows, same count)
    5 m=s     model = the property's meaning on this input
    6 dom     call_ok  (domain of C15_partial)
    7 wf      call_wf  (domain of C15_full) *)
Definition check (c : cfg) (k : case) : string :=
  let st := k_st k in
  let cs := k_cols k in
  let m := compile c st (k_call k) in
  let t2 := match k_exported k, m with
            | Some s, inr s' => b2s (stmt_eqb s s' || stmt_equiv (k_name k) cs s s')
            | Some _, inl _ => "0"
            | None, _ => "x"
            end in
  let lazy := list_eqb row_eqb (k_rows0 k) (k_rows1 k)
              && Nat.eqb (k_sent_build k) (match m with inr _ => build_session_calls c | inl _ => 0 end) in
  let build := match k_build_err k, m with
               | None, inr _ => true
               | Some e, inl e' => err_eqb e e'
               | _, _ => false
               end in
  let nm := k_name k in
  let addr := (r_schema nm, r_table nm) in
  let d := (addr, k_pre k) :: match k_shadow k with Some (a, pre, _) => [(a, pre)] | None => [] end in
  let shadow_same := match k_shadow k with Some (_, pre, post) => list_eqb row_eqb pre post | None => true end in
  let exec_m := match m with inr s => Some (exec_db (r_cat nm) (r_default nm) cs d s) | inl _ => None end in
  let ex := match k_exec k, exec_m with
            | None, None => true
            | Some x, Some (inl e) =>
                opt_eqb err_eqb (x_err x) (Some e) && list_eqb row_eqb (x_rows x) (k_pre k) && shadow_same
                && Nat.eqb (x_sent x) (execute_session_calls c)
            | Some x, Some (inr (d', n)) =>
                opt_eqb err_eqb (x_err x) None && opt_eqb (list_eqb row_eqb) (Some (x_rows x)) (db_get addr d')
                && match k_shadow k with
                   | Some (a, _, post) => opt_eqb (list_eqb row_eqb) (Some post) (db_get a d')
                   | None => true
                   end
                && opt_eqb Nat.eqb (x_count x) (Some n) && Nat.eqb (x_sent x) (execute_session_calls c)
            | _, _ => false
            end in
  let sp_rows := spec_rows cs (k_call k) (k_pre k) in
  let sp_n := spec_count cs (k_call k) (k_pre k) in
  let spec := match k_exec k with
              | Some x => opt_eqb err_eqb (x_err x) None && bag_eqb (x_rows x) sp_rows
                          && opt_eqb Nat.eqb (x_count x) (Some sp_n)
                          && list_eqb row_eqb (k_rows0 k) (k_rows1 k) && shadow_same
              | None => false
              end in
  let ms := match run c st (k_name k) cs (k_pre k) (k_call k) with
            | inr (rs, n) => list_eqb row_eqb rs sp_rows && Nat.eqb n sp_n
            | inl _ => false
            end in
  t2 ++ b2s lazy ++ b2s build ++ b2s ex ++ b2s spec ++ b2s ms
     ++ b2s (call_ok c st cs (k_call k)) ++ b2s (call_wf st cs (k_call k)).

(** reference evaluation of the property's meaning alone (validated against an independent SELECT on
    DuckDB by the harness): rows the table should hold after the call, in order *)
Definition spec_matches (cs : list string) (k : call) (pre expected : list row) : bool :=
  list_eqb row_eqb (spec_rows cs k pre) expected.
