(** C15 -- theorems about the update/delete builder model (all tables, all predicates, all assignment
    maps, all histories).  Parametric in the facts record [cfg]; the only premise on it is the
    decidable [cfg_ok c = true], re-checked against /repo's source in coq/props/C15.v. *)
From SF Require Import Base.Val Base.Expr C15.Dml.
Open Scope string_scope.

(** * Small list facts *)
Lemma forallb_map' {A B} (g : A -> B) (P : B -> bool) l : forallb P (map g l) = forallb (fun x => P (g x)) l.
Proof. induction l as [|x l IH]; simpl; [reflexivity|]. rewrite IH. reflexivity. Qed.

Lemma forallb_ext' {A} (P Q : A -> bool) l : (forall x, P x = Q x) -> forallb P l = forallb Q l.
Proof. intro H. induction l as [|x l IH]; simpl; [reflexivity|]. rewrite H, IH. reflexivity. Qed.

Lemma forallb_impl {A} (P Q : A -> bool) l :
  (forall x, P x = true -> Q x = true) -> forallb P l = true -> forallb Q l = true.
Proof.
  intros H. induction l as [|x l IH]; simpl; [reflexivity|]. intro HP.
  apply andb_true_iff in HP. destruct HP as [Hx Hl]. rewrite (H _ Hx), (IH Hl). reflexivity.
Qed.

Lemma filter_ext' {A} (P Q : A -> bool) l : (forall x, P x = Q x) -> filter P l = filter Q l.
Proof. intro H. induction l as [|x l IH]; simpl; [reflexivity|]. rewrite H, IH. reflexivity. Qed.

Lemma nth_error_map' {A B} (g : A -> B) l i : nth_error (map g l) i = option_map g (nth_error l i).
Proof. revert i. induction l as [|x l IH]; intros [|i]; simpl; auto. Qed.

Lemma nth_error_combine {A B} (l1 : list A) (l2 : list B) i :
  nth_error (combine l1 l2) i =
  match nth_error l1 i, nth_error l2 i with Some a, Some b => Some (a, b) | _, _ => None end.
Proof.
  revert l2 i. induction l1 as [|a l1 IH]; intros [|b l2] [|i]; simpl; auto.
  destruct (nth_error l1 i); reflexivity.
Qed.

(** * Structural facts about qexpr *)
Lemma erase_map_q f e : erase (map_q f e) = erase e.
Proof. induction e; simpl; congruence. Qed.

Lemma qrefs_map_q f e : qrefs (map_q f e) = map (fun qn => (f (fst qn), snd qn)) (qrefs e).
Proof. induction e; simpl; rewrite ?map_app; congruence. Qed.

Lemma has_alias_map_q f e : has_alias (map_q f e) = has_alias e.
Proof. induction e; simpl; congruence. Qed.

Lemma strip_map_q f e : strip_alias (map_q f e) = map_q f (strip_alias e).
Proof. destruct e; reflexivity. Qed.

Lemma erase_strip e : erase (strip_alias e) = erase e.
Proof. destruct e; reflexivity. Qed.

Lemma qrefs_strip e : qrefs (strip_alias e) = qrefs e.
Proof. destruct e; reflexivity. Qed.

Lemma has_alias_strip_le e : has_alias e = false -> has_alias (strip_alias e) = false.
Proof. destruct e; simpl; auto; discriminate. Qed.

(** * Three-valued conjunction selects a row iff every conjunct is TRUE *)
Lemma holds_and cs r a b : holds cs r (EBin And a b) = holds cs r a && holds cs r b.
Proof.
  unfold holds. simpl.
  destruct (eval cs r a) as [| | |[|]|]; destruct (eval cs r b) as [| | |[|]|]; reflexivity.
Qed.

Lemma fold_conj_holds cs r rest : forall x,
  holds cs r (erase (fold_left (conj_step And) rest x))
  = holds cs r (erase x) && forallb (fun e => holds cs r (erase e)) rest.
Proof.
  induction rest as [|y rest IH]; intro x; simpl.
  - rewrite andb_true_r. reflexivity.
  - rewrite IH. unfold conj_step. cbn [erase]. rewrite holds_and, !erase_strip, andb_assoc. reflexivity.
Qed.

Lemma fold_conj_refs o (P : option string * string -> bool) rest : forall x,
  forallb P (qrefs (fold_left (conj_step o) rest x))
  = forallb P (qrefs x) && forallb (fun e => forallb P (qrefs e)) rest.
Proof.
  induction rest as [|y rest IH]; intro x; simpl.
  - rewrite andb_true_r. reflexivity.
  - rewrite IH. unfold conj_step. cbn [qrefs]. rewrite forallb_app, !qrefs_strip, andb_assoc. reflexivity.
Qed.

Lemma fold_conj_noalias o rest : forall x,
  has_alias (strip_alias x) = false ->
  forallb (fun e => negb (has_alias (strip_alias e))) rest = true ->
  has_alias (strip_alias (fold_left (conj_step o) rest x)) = false.
Proof.
  induction rest as [|y rest IH]; intros x Hx Hr; simpl in *; [exact Hx|].
  apply andb_true_iff in Hr. destruct Hr as [Hy Hr].
  apply IH; [|exact Hr]. unfold conj_step. cbn [strip_alias has_alias].
  rewrite Hx. apply negb_true_iff in Hy. rewrite Hy. reflexivity.
Qed.

(** * The facts the property needs *)
Lemma cfg_ok_inv c : cfg_ok c = true ->
  none_is_true c = true /\ list_op c = And /\ where_requalifies c = true /\ where_strips_alias c = true
  /\ set_requalifies c = true /\ target_update c = TScan /\ target_delete c = TScan
  /\ update_has_where c = true /\ delete_has_where c = true
  /\ ensure_cte_update c = true /\ ensure_cte_delete c = true
  /\ build_session_calls c = 0%nat /\ execute_session_calls c = 1%nat.
Proof.
  unfold cfg_ok. intro H.
  repeat (apply andb_true_iff in H; destruct H as [H ?]).
  repeat split; auto.
  - destruct (list_op c); try discriminate; reflexivity.
  - destruct (target_update c); try discriminate; reflexivity.
  - destruct (target_delete c); try discriminate; reflexivity.
  - apply Nat.eqb_eq; assumption.
  - apply Nat.eqb_eq; assumption.
Qed.

(** * Re-qualification: every way of naming the table's own column ends unqualified or at the physical table *)
Definition final_q (st : tstate) (q : option string) : option string := requal_q st (norm_q st q).

Lemma self_qual_resolves st q :
  omem q (self_quals st) = true ->
  match final_q st q with None => true | Some s => String.eqb s (phys st) end = true.
Proof.
  unfold final_q, omem, self_quals. destruct q as [s|]; simpl; [|reflexivity].
  destruct (String.eqb s (branch st)) eqn:Eb; simpl.
  - rewrite String.eqb_refl. intros _. apply String.eqb_refl.
  - destruct (String.eqb s (cte st)) eqn:Ec; simpl.
    + intros _. apply String.eqb_refl.
    + rewrite orb_false_r. intro H. exact H.
Qed.

Lemma user_in_self st q : omem q (user_quals st) = true -> omem q (self_quals st) = true.
Proof.
  unfold omem, user_quals, self_quals. simpl. intro H.
  destruct (oeqb q None); [reflexivity|]. simpl in *.
  rewrite orb_false_r in H. rewrite H. reflexivity.
Qed.

Lemma pred_ok_resolves st cs e :
  refs_in (self_quals st) cs e = true ->
  forallb (fun qn => ref_ok (phys st) cs (final_q st (fst qn), snd qn)) (qrefs e) = true.
Proof.
  unfold refs_in. apply forallb_impl. intros [q n] H. simpl in *.
  apply andb_true_iff in H. destruct H as [Hq Hn]. unfold ref_ok. simpl.
  rewrite Hn, andb_true_r. apply self_qual_resolves. exact Hq.
Qed.

(** the compiled conjunction of a non-empty list of well-formed predicates *)
Lemma conj_sound st cs x0 rest0 :
  forallb (pred_ok st cs) (x0 :: rest0) = true ->
  let p := strip_alias (map_q (requal_q st)
             (fold_left (conj_step And) (map (normalize st) rest0) (normalize st x0))) in
  has_alias p = false /\ resolvable (phys st) cs p = true
  /\ forall r, holds cs r (erase p) = forallb (fun e => holds cs r (erase e)) (x0 :: rest0).
Proof.
  intros Hall p. simpl in Hall. apply andb_true_iff in Hall. destruct Hall as [Hx Hrest].
  unfold pred_ok, pred_in in Hx. apply andb_true_iff in Hx. destruct Hx as [Hxa Hxr].
  apply negb_true_iff in Hxa.
  split; [|split].
  - unfold p. rewrite strip_map_q, has_alias_map_q.
    apply fold_conj_noalias.
    + unfold normalize. rewrite strip_map_q, has_alias_map_q. exact Hxa.
    + rewrite forallb_map'. revert Hrest. apply forallb_impl. intros e He.
      unfold pred_ok, pred_in in He. apply andb_true_iff in He. destruct He as [He _].
      unfold normalize. rewrite strip_map_q, has_alias_map_q. exact He.
  - unfold resolvable, p. rewrite qrefs_strip, qrefs_map_q, forallb_map'. cbn [fst snd].
    rewrite (fold_conj_refs And (fun qn => ref_ok (phys st) cs (requal_q st (fst qn), snd qn))).
    apply andb_true_iff. split.
    + unfold normalize. rewrite qrefs_map_q, forallb_map'. cbn [fst snd].
      apply (pred_ok_resolves st cs x0 Hxr).
    + rewrite forallb_map'. revert Hrest. apply forallb_impl. intros e He.
      unfold pred_ok, pred_in in He. apply andb_true_iff in He. destruct He as [_ He].
      unfold normalize. rewrite qrefs_map_q, forallb_map'. cbn [fst snd].
      apply (pred_ok_resolves st cs e He).
  - intro r. unfold p. rewrite erase_strip, erase_map_q, fold_conj_holds.
    unfold normalize at 1. rewrite erase_map_q. simpl. f_equal.
    rewrite forallb_map'. apply forallb_ext'. intro e. unfold normalize. rewrite erase_map_q. reflexivity.
Qed.

Lemma compile_where_sound c st cs w :
  cfg_ok c = true -> where_ok c st cs w = true ->
  exists p, compile_where c st w = inr p /\ has_alias p = false /\ resolvable (phys st) cs p = true
            /\ forall r, holds cs r (erase p) = spec_sel cs w r.
Proof.
  intros Hc Hw. destruct (cfg_ok_inv c Hc) as (Hn & Hop & Hrq & Hsa & _).
  destruct w as [|b|l|s p].
  - exists (QLit (VBool true)). simpl. rewrite Hn. repeat split; reflexivity.
  - exists (QLit (VBool b)). unfold compile_where, compile_items. simpl. rewrite Hrq, Hsa. simpl.
    repeat split; try reflexivity. intro r. unfold holds. simpl. destruct b; reflexivity.
  - simpl in Hw. apply andb_true_iff in Hw. destruct Hw as [Hnil Hall].
    destruct l as [|x0 rest0]; [discriminate|].
    destruct (conj_sound st cs x0 rest0 Hall) as (Ha & Hr & Hh).
    eexists. unfold compile_where, compile_items. cbn [where_items map]. rewrite Hop, Hrq, Hsa.
    split; [reflexivity|]. split; [exact Ha|]. split; [exact Hr|]. intro r. rewrite Hh. reflexivity.
  - simpl in Hw. destruct (where_str_is_sql c) eqn:Es.
    + assert (Hall : forallb (pred_ok st cs) [p] = true) by (simpl; rewrite Hw; reflexivity).
      destruct (conj_sound st cs p [] Hall) as (Ha & Hr & Hh).
      eexists. unfold compile_where, compile_items. cbn [where_items map]. rewrite Es, Hop, Hrq, Hsa.
      split; [reflexivity|]. split; [exact Ha|]. split; [exact Hr|]. intro r. rewrite Hh. simpl.
      apply andb_true_r.
    + destruct p as [[q|] n| | | | | | | |]; try discriminate.
      apply andb_true_iff in Hw. destruct Hw as [Hns Hm]. apply String.eqb_eq in Hns. subst n.
      exists (QCol None s). unfold compile_where, compile_items. cbn [where_items map]. rewrite Es, Hrq, Hsa. simpl.
      split; [reflexivity|]. split; [reflexivity|]. split; [|reflexivity].
      unfold resolvable, ref_ok. simpl. rewrite Hm. reflexivity.
Qed.

(** * Assignment normalisation *)
Lemma assoc_upsert {A} n m (v : A) us :
  assoc n (upsert m v us) = if String.eqb m n then Some v else assoc n us.
Proof.
  induction us as [|[m' w] us IH]; simpl; [reflexivity|].
  destruct (String.eqb m' m) eqn:E1; simpl.
  - apply String.eqb_eq in E1. subst m'. destruct (String.eqb m n); reflexivity.
  - rewrite IH. destruct (String.eqb m' n) eqn:E2; [|reflexivity].
    destruct (String.eqb m n) eqn:E3; [|reflexivity].
    apply String.eqb_eq in E2, E3. subst. rewrite String.eqb_refl in E1. discriminate.
Qed.

Lemma erase_set_upsert m v us : erase_set (upsert m v us) = upsert m (erase v) (erase_set us).
Proof.
  induction us as [|[m' w] us IH]; simpl; [reflexivity|].
  destruct (String.eqb m' m); simpl; [reflexivity|]. rewrite IH. reflexivity.
Qed.

Lemma mem_keys_upsert {A} x m (v : A) us :
  mem x (map fst (upsert m v us)) = mem x (map fst us) || String.eqb x m.
Proof.
  unfold mem. induction us as [|[m' w] us IH]; simpl.
  - rewrite orb_false_r. reflexivity.
  - destruct (String.eqb m' m) eqn:E1; simpl.
    + apply String.eqb_eq in E1. subst m'.
      destruct (String.eqb x m); simpl; [reflexivity|]. rewrite orb_false_r. reflexivity.
    + rewrite IH. rewrite orb_assoc. reflexivity.
Qed.

Lemma nodupb_upsert {A} m (v : A) us :
  nodupb (map fst us) = true -> nodupb (map fst (upsert m v us)) = true.
Proof.
  induction us as [|[m' w] us IH]; simpl; intro H; [reflexivity|].
  apply andb_true_iff in H. destruct H as [Hm Hn].
  destruct (String.eqb m' m) eqn:E1; simpl.
  - rewrite Hm, Hn. reflexivity.
  - rewrite (IH Hn), andb_true_r. rewrite mem_keys_upsert. apply negb_true_iff in Hm. rewrite Hm, E1. reflexivity.
Qed.

Lemma forallb_upsert {A} (P : string * A -> bool) m v us :
  P (m, v) = true -> forallb P us = true -> forallb P (upsert m v us) = true.
Proof.
  intro Hp. induction us as [|[m' w] us IH]; simpl; intro H.
  - rewrite Hp. reflexivity.
  - apply andb_true_iff in H. destruct H as [H1 H2].
    destruct (String.eqb m' m) eqn:E1; simpl.
    + apply String.eqb_eq in E1. subst m'. rewrite Hp, H2. reflexivity.
    + rewrite H1, (IH H2). reflexivity.
Qed.

(** what a well-formed SET entry is in the emitted statement *)
Definition entry_good (st : tstate) (cs : list string) (kv : string * qexpr) : bool :=
  negb (has_alias (snd kv)) && resolvable (phys st) cs (snd kv) && mem (fst kv) cs.
Definition set_good (st : tstate) (cs : list string) (us : list (string * qexpr)) : Prop :=
  forallb (entry_good st cs) us = true /\ nodupb (map fst us) = true.

Lemma val_not_raising c st cs l :
  forallb (fun qn => negb (set_bad_q c st (norm_q st (fst qn))) && mem (snd qn) cs) l = true ->
  existsb (fun qn : option string * string => set_bad_q c st (fst qn))
          (map (fun qn => (norm_q st (fst qn), snd qn)) l) = false.
Proof.
  induction l as [|[q n] l IH]; simpl; intro H; [reflexivity|].
  apply andb_true_iff in H. destruct H as [H1 H2]. apply andb_true_iff in H1. destruct H1 as [H1 _].
  apply negb_true_iff in H1. rewrite H1, (IH H2). reflexivity.
Qed.

Lemma val_resolves c st cs l :
  forallb (fun qn => negb (set_bad_q c st (norm_q st (fst qn))) && mem (snd qn) cs) l = true ->
  forallb (fun qn => ref_ok (phys st) cs (final_q st (fst qn), snd qn)) l = true.
Proof.
  apply forallb_impl. intros [q n] H. simpl in *.
  apply andb_true_iff in H. destruct H as [Hq Hn]. apply negb_true_iff in Hq.
  unfold ref_ok, final_q. simpl. rewrite Hn, andb_true_r.
  destruct (norm_q st q) as [s|]; simpl in *; [|reflexivity].
  apply negb_false_iff in Hq. rewrite Hq. apply String.eqb_refl.
Qed.

Lemma compile_set1_sound c st cs kv us :
  cfg_ok c = true -> key_wf cs (fst kv) && val_ok c st cs (snd kv) = true ->
  exists v, compile_set1 c st kv us = inr (upsert (key_name (fst kv)) v us)
            /\ entry_good st cs (key_name (fst kv), v) = true /\ erase v = erase (snd kv).
Proof.
  intros Hc H. destruct (cfg_ok_inv c Hc) as (_ & _ & _ & _ & Hsr & _).
  apply andb_true_iff in H. destruct H as [Hk Hv]. destruct kv as [k v]. simpl in *.
  unfold key_wf in Hk. unfold compile_set1, key_name. cbn [fst snd].
  unfold normalize at 1. rewrite qrefs_map_q.
  destruct (qrefs k) as [|[q n] [|? ?]] eqn:Ek; try discriminate. cbn [map fst snd].
  unfold val_ok in Hv. apply andb_true_iff in Hv. destruct Hv as [Hva Hvr]. apply negb_true_iff in Hva.
  unfold normalize. rewrite qrefs_map_q, (val_not_raising c st cs _ Hvr), Hsr.
  eexists. split; [reflexivity|]. split.
  - unfold entry_good. cbn [fst snd]. rewrite Hk, andb_true_r. apply andb_true_iff. split.
    + apply negb_true_iff. destruct (set_strips_alias c).
      * rewrite !strip_map_q, !has_alias_map_q. exact Hva.
      * rewrite !has_alias_map_q. exact Hva.
    + unfold resolvable.
      assert (E : forall e, qrefs (if set_strips_alias c then strip_alias e else e) = qrefs e)
        by (intro e; destruct (set_strips_alias c); [apply qrefs_strip|reflexivity]).
      rewrite E, !qrefs_map_q, !forallb_map'. cbn [fst snd]. apply (val_resolves c st cs _ Hvr).
  - destruct (set_strips_alias c); rewrite ?erase_strip, !erase_map_q; reflexivity.
Qed.

Definition last_step (n : string) (acc : option expr) (kv : string * expr) : option expr :=
  if String.eqb (fst kv) n then Some (snd kv) else acc.

Lemma compile_set_from_sound c st cs set :
  cfg_ok c = true -> set_ok c st cs set = true -> forall us, set_good st cs us ->
  exists us', compile_set_from c st set us = inr us' /\ set_good st cs us'
    /\ forall n, assoc n (erase_set us') = fold_left (last_step n) (spec_set set) (assoc n (erase_set us)).
Proof.
  intros Hc. induction set as [|kv set IH]; intros Hs us Hg; simpl in *.
  - exists us. repeat split; try apply Hg.
  - apply andb_true_iff in Hs. destruct Hs as [Hkv Hs].
    destruct (compile_set1_sound c st cs kv us Hc Hkv) as (v & E1 & Hgood & Hev).
    rewrite E1.
    destruct (IH Hs (upsert (key_name (fst kv)) v us)) as (us' & E2 & Hg' & Hassoc).
    + destruct Hg as [Hg1 Hg2]. split; [apply forallb_upsert; assumption|apply nodupb_upsert; assumption].
    + exists us'. split; [exact E2|]. split; [exact Hg'|]. intro n. rewrite Hassoc.
      f_equal. rewrite erase_set_upsert, assoc_upsert. unfold last_step. cbn [fst snd]. rewrite Hev. reflexivity.
Qed.

(** * Main compiler-correctness statement: an in-domain call compiles, and executing the emitted
      statement on ANY table contents gives exactly the property's meaning *)
Lemma assign_row_ext cs look1 look2 r : (forall n, look1 n = look2 n) -> assign_row cs look1 r = assign_row cs look2 r.
Proof. intro H. unfold assign_row. apply map_ext. intro cv. rewrite H. reflexivity. Qed.

Lemma points_to_inv name st : points_to name st = true ->
  names_table name (tref st) = true /\ bare name = phys st.
Proof.
  unfold points_to. intro H. apply andb_true_iff in H. destruct H as [H1 H2].
  apply String.eqb_eq in H2. split; assumption.
Qed.

Theorem compile_exact c st cs k :
  cfg_ok c = true -> call_ok c st cs k = true ->
  exists s, compile c st k = inr s
    /\ stmt_target s = tref st
    /\ forallb (resolvable (phys st) cs) (stmt_exprs s) = true
    /\ forall name rows, points_to name st = true ->
         exec name cs rows s = inr (spec_rows cs k rows, spec_count cs k rows).
Proof.
  intros Hc Hk. destruct (cfg_ok_inv c Hc) as (_ & _ & _ & _ & _ & Htpu & Htpd & Hhwu & Hhwd & Heu & Hed & _).
  destruct k as [set w|w]; simpl in Hk.
  - apply andb_true_iff in Hk. destruct Hk as [Hw Hs].
    destruct (compile_where_sound c st cs w Hc Hw) as (p & Ep & Hpa & Hpr & Hph).
    destruct (compile_set_from_sound c st cs set Hc Hs []) as (us & Eus & [Hg1 Hg2] & Hassoc).
    { split; reflexivity. }
    exists (SUpdate (tref st) us (Some p)). unfold compile. rewrite Heu. simpl.
    rewrite Ep. unfold compile_set. rewrite Eus. unfold target, wrap_where. rewrite Htpu, Hhwu.
    split; [reflexivity|]. split; [reflexivity|].
    assert (Hres : forallb (resolvable (phys st) cs) (map snd us ++ [p]) = true).
    { rewrite forallb_app. simpl. rewrite Hpr, andb_true_r. rewrite forallb_map'.
      revert Hg1. apply forallb_impl. intros kv H. unfold entry_good in H.
      apply andb_true_iff in H. destruct H as [H _]. apply andb_true_iff in H. destruct H as [_ H]. exact H. }
    split; [exact Hres|]. intros name rows Hpt. destruct (points_to_inv name st Hpt) as [Hnt Hbare].
    unfold exec, stmt_syntax_ok, stmt_binds. cbn [stmt_exprs stmt_keys stmt_target stmt_where olist].
    rewrite Hnt, Hbare, Hres, Hg2.
    assert (Hsyn : forallb (fun e => negb (has_alias e)) (map snd us ++ [p]) = true).
    { rewrite forallb_app. simpl. rewrite Hpa. simpl. rewrite andb_true_r. rewrite forallb_map'.
      revert Hg1. apply forallb_impl. intros kv H. unfold entry_good in H.
      apply andb_true_iff in H. destruct H as [H _]. apply andb_true_iff in H. destruct H as [H _]. exact H. }
    assert (Hkeys : forallb (fun k => mem k cs) (map fst us) = true).
    { rewrite forallb_map'. revert Hg1. apply forallb_impl. intros kv H. unfold entry_good in H.
      apply andb_true_iff in H. destruct H as [_ H]. exact H. }
    rewrite Hsyn, Hkeys. simpl. f_equal. f_equal.
    + apply map_ext. intro r. unfold sel. rewrite Hph.
      destruct (spec_sel cs w r); [|reflexivity].
      apply assign_row_ext. intro n. rewrite Hassoc. reflexivity.
    + unfold spec_count. simpl. f_equal. apply filter_ext'. intro r. simpl. apply Hph.
  - destruct (compile_where_sound c st cs w Hc Hk) as (p & Ep & Hpa & Hpr & Hph).
    exists (SDelete (tref st) (Some p)). unfold compile. rewrite Hed. simpl.
    rewrite Ep. unfold target, wrap_where. rewrite Htpd, Hhwd.
    split; [reflexivity|]. split; [reflexivity|]. split; [simpl; rewrite Hpr; reflexivity|].
    intros name rows Hpt. destruct (points_to_inv name st Hpt) as [Hnt Hbare].
    unfold exec, stmt_syntax_ok, stmt_binds. cbn [stmt_exprs stmt_keys stmt_target stmt_where olist].
    rewrite Hnt, Hbare. simpl. rewrite Hpa, Hpr. simpl. f_equal. f_equal.
    + apply filter_ext'. intro r. rewrite Hph. reflexivity.
    + unfold spec_count. simpl. f_equal. apply filter_ext'. intro r. apply Hph.
Qed.

Theorem run_exact c st name cs rows k :
  cfg_ok c = true -> points_to name st = true -> call_ok c st cs k = true ->
  run c st name cs rows k = inr (spec_rows cs k rows, spec_count cs k rows).
Proof.
  intros Hc Hpt Hk. destruct (compile_exact c st cs k Hc Hk) as (s & Es & _ & _ & Hx).
  unfold run. rewrite Es. apply Hx. exact Hpt.
Qed.

(** ** The statements of DESIGN.md, as corollaries *)
Theorem update_exact c st name cs rows set w :
  cfg_ok c = true -> points_to name st = true -> call_ok c st cs (CUpdate set w) = true ->
  exists n, run c st name cs rows (CUpdate set w) =
    inr (map (fun r => if spec_sel cs w r
                       then assign_row cs (fun n => assoc_last n (spec_set set)) r else r) rows, n).
Proof. intros Hc Hpt Hk. eexists. apply (run_exact c st name cs rows _ Hc Hpt Hk). Qed.

Theorem delete_exact c st name cs rows w :
  cfg_ok c = true -> points_to name st = true -> call_ok c st cs (CDelete w) = true ->
  exists n, run c st name cs rows (CDelete w) = inr (filter (fun r => negb (spec_sel cs w r)) rows, n).
Proof. intros Hc Hpt Hk. eexists. apply (run_exact c st name cs rows _ Hc Hpt Hk). Qed.

(** a predicate that is NULL (or FALSE, or anything but TRUE) on a row does not select it *)
Theorem null_pred_selects_nothing cs l p r :
  In p l -> eval cs r (erase p) = VNull -> spec_sel cs (WCols l) r = false.
Proof.
  intros Hin Hnull. simpl. apply not_true_is_false. intro H.
  rewrite forallb_forall in H. specialize (H p Hin). unfold holds in H. rewrite Hnull in H. discriminate.
Qed.

Theorem omitted_pred_selects_all cs set rows :
  spec_rows cs (CDelete WNone) rows = []
  /\ spec_rows cs (CUpdate set WNone) rows = map (assign_row cs (fun n => assoc_last n (spec_set set))) rows.
Proof.
  split; simpl; [|reflexivity]. induction rows as [|r rows IH]; simpl; auto.
Qed.

(** ** untouched rows and columns; assigned columns read the OLD row *)
Lemma update_positions cs set w rows i :
  nth_error (spec_rows cs (CUpdate set w) rows) i =
  option_map (fun r => if spec_sel cs w r then assign_row cs (fun n => assoc_last n (spec_set set)) r else r)
             (nth_error rows i).
Proof. simpl. apply nth_error_map'. Qed.

Theorem update_untouched_row cs set w rows i r :
  nth_error rows i = Some r -> spec_sel cs w r = false ->
  nth_error (spec_rows cs (CUpdate set w) rows) i = Some r.
Proof. intros Hi Hs. rewrite update_positions, Hi. simpl. rewrite Hs. reflexivity. Qed.

Theorem update_keeps_length cs set w rows :
  List.length (spec_rows cs (CUpdate set w) rows) = List.length rows.
Proof. simpl. apply map_length. Qed.

Theorem assign_untouched_col cs look r j cn :
  List.length r = List.length cs -> nth_error cs j = Some cn -> look cn = None ->
  nth_error (assign_row cs look r) j = nth_error r j.
Proof.
  intros Hl Hj Hn. unfold assign_row. rewrite nth_error_map', nth_error_combine, Hj.
  destruct (nth_error r j) as [v|] eqn:Er; simpl; [rewrite Hn; reflexivity|reflexivity].
Qed.

Theorem assign_set_col cs look r j cn e v0 :
  nth_error cs j = Some cn -> nth_error r j = Some v0 -> look cn = Some e ->
  nth_error (assign_row cs look r) j = Some (eval cs r e).
Proof.
  intros Hj Hr He. unfold assign_row. rewrite nth_error_map', nth_error_combine, Hj, Hr. simpl.
  rewrite He. reflexivity.
Qed.

(** delete removes exactly the selected rows, with multiplicity *)
Theorem delete_membership cs w rows r :
  In r (spec_rows cs (CDelete w) rows) <-> In r rows /\ spec_sel cs w r = false.
Proof. simpl. rewrite filter_In. rewrite negb_true_iff. reflexivity. Qed.

Theorem delete_multiplicity cs w rows r :
  count_occ row_eq_dec (spec_rows cs (CDelete w) rows) r =
  if spec_sel cs w r then 0%nat else count_occ row_eq_dec rows r.
Proof.
  simpl. induction rows as [|x rows IH]; simpl.
  - destruct (spec_sel cs w r); reflexivity.
  - destruct (row_eq_dec x r) as [E|E].
    + subst x. destruct (spec_sel cs w r) eqn:Es; simpl.
      * exact IH.
      * destruct (row_eq_dec r r); [|congruence]. rewrite IH. reflexivity.
    + destruct (negb (spec_sel cs w x)); simpl; [|exact IH].
      destruct (row_eq_dec x r); [congruence|]. exact IH.
Qed.

(** * No reference to the DataFrame's CTE survives in the emitted statement *)
Lemma requal_no_cte st e q n :
  cte st <> phys st -> In (q, n) (qrefs (map_q (requal_q st) e)) -> q <> Some (cte st).
Proof.
  intros Hne Hin. rewrite qrefs_map_q in Hin. apply in_map_iff in Hin.
  destruct Hin as [[q0 n0] [E _]]. simpl in E. inversion E; subst. clear E.
  destruct q0 as [s|]; simpl; [|discriminate].
  destruct (String.eqb s (cte st)) eqn:Es.
  - intro H. inversion H. congruence.
  - intro H. inversion H. subst. rewrite String.eqb_refl in Es. discriminate.
Qed.

Definition no_cte_in (st : tstate) (e : qexpr) : Prop := forall q n, In (q, n) (qrefs e) -> q <> Some (cte st).

Lemma upsert_all {A} (P : A -> Prop) m v (us : list (string * A)) :
  P v -> (forall kv, In kv us -> P (snd kv)) -> forall kv, In kv (upsert m v us) -> P (snd kv).
Proof.
  intros Hv. induction us as [|[m' w] us IH]; simpl; intros H kv Hin.
  - destruct Hin as [<-|[]]. exact Hv.
  - destruct (String.eqb m' m); simpl in Hin.
    + destruct Hin as [<-|Hin]; [exact Hv|]. apply H. right. exact Hin.
    + destruct Hin as [<-|Hin]; [apply (H (m', w)); left; reflexivity|].
      apply IH; [|exact Hin]. intros kv' Hk. apply H. right. exact Hk.
Qed.

Lemma compile_set_no_cte c st set : cfg_ok c = true -> cte st <> phys st -> forall us us',
  (forall kv, In kv us -> no_cte_in st (snd kv)) ->
  compile_set_from c st set us = inr us' -> forall kv, In kv us' -> no_cte_in st (snd kv).
Proof.
  intros Hc Hne. destruct (cfg_ok_inv c Hc) as (_ & _ & _ & _ & Hsr & _).
  induction set as [|[k v] set IH]; intros us us' Hus E; simpl in E.
  - inversion E; subst. exact Hus.
  - destruct (compile_set1 c st (k, v) us) as [e|us1] eqn:E1; [discriminate|].
    apply (IH us1 us'); [|exact E]. clear IH E.
    unfold compile_set1 in E1. cbn [fst snd] in E1.
    destruct (qrefs (normalize st k)) as [|[q n] [|? ?]]; try discriminate.
    destruct (existsb _ _); [discriminate|]. inversion E1; subst. clear E1.
    apply upsert_all; [|exact Hus]. rewrite Hsr.
    intros q' n' Hin.
    assert (Hin' : In (q', n') (qrefs (map_q (requal_q st) (normalize st v)))).
    { destruct (set_strips_alias c); [rewrite qrefs_strip in Hin|]; exact Hin. }
    apply (requal_no_cte st _ q' n' Hne Hin').
Qed.

Theorem no_cte_qualifier_left c st k s :
  cfg_ok c = true -> cte st <> phys st -> compile c st k = inr s ->
  forall e, In e (stmt_exprs s) -> no_cte_in st e.
Proof.
  intros Hc Hne E. destruct (cfg_ok_inv c Hc) as (_ & _ & Hrq & Hsa & _ & _ & _ & Hhwu & Hhwd & _).
  assert (Hwhere : forall w p, compile_where c st w = inr p -> no_cte_in st p).
  { assert (Hgen : forall l p, compile_items c st l = inr p -> no_cte_in st p).
    { intros l p El. unfold compile_items in El.
      destruct (map (normalize st) l) as [|x rest]; [discriminate|].
      rewrite Hrq, Hsa in El. inversion El; subst. intros q n Hin. rewrite qrefs_strip in Hin.
      apply (requal_no_cte st _ q n Hne Hin). }
    intros w p Ew. destruct w as [|b|l|s' p']; simpl in Ew.
    - inversion Ew; subst. intros q n [].
    - apply (Hgen _ _ Ew).
    - apply (Hgen _ _ Ew).
    - apply (Hgen _ _ Ew). }
  destruct k as [set w|w]; simpl in E.
  - destruct (negb (ensure_cte_update c)); [discriminate|].
    destruct (compile_where c st w) as [?|p] eqn:Ew; [discriminate|].
    destruct (compile_set c st set) as [?|us] eqn:Es; [discriminate|].
    inversion E; subst. clear E. intros e Hin. simpl in Hin. apply in_app_or in Hin.
    destruct Hin as [Hin|Hin].
    + apply in_map_iff in Hin. destruct Hin as [kv [<- Hkv]].
      apply (compile_set_no_cte c st set Hc Hne [] us); [intros ? []|exact Es|exact Hkv].
    + unfold wrap_where in Hin. rewrite Hhwu in Hin. destruct Hin as [<-|[]]. apply (Hwhere w p Ew).
  - destruct (negb (ensure_cte_delete c)); [discriminate|].
    destruct (compile_where c st w) as [?|p] eqn:Ew; [discriminate|].
    inversion E; subst. clear E. intros e Hin. simpl in Hin.
    unfold wrap_where in Hin. rewrite Hhwd in Hin. destruct Hin as [<-|[]]. apply (Hwhere w p Ew).
Qed.

(** * Laziness and histories *)
Theorem lazy_until_execute c st name cs w k :
  cfg_ok c = true ->
  w_rows (step c st name cs w (ABuild k)) = w_rows w /\ w_sent (step c st name cs w (ABuild k)) = w_sent w.
Proof.
  intro Hc. destruct (cfg_ok_inv c Hc) as (_ & _ & _ & _ & _ & _ & _ & _ & _ & _ & _ & Hb & _).
  simpl. rewrite Hb. destruct (compile c st k); simpl; rewrite Nat.add_0_r; split; reflexivity.
Qed.

Lemma run_hist_cons c st name cs w a h :
  run_hist c st name cs w (a :: h) = run_hist c st name cs (step c st name cs w a) h.
Proof. reflexivity. Qed.

Theorem history_exact c st name cs :
  cfg_ok c = true -> points_to name st = true -> forall h calls w,
  hist_ok c st cs h = true -> forallb (call_ok c st cs) calls = true ->
  w_built w = map (compile c st) calls ->
  w_rows (run_hist c st name cs w h) = spec_hist cs calls (w_rows w) h
  /\ w_sent (run_hist c st name cs w h) = (w_sent w + execs_in (List.length calls) h)%nat.
Proof.
  intros Hc Hpt. destruct (cfg_ok_inv c Hc) as (_ & _ & _ & _ & _ & _ & _ & _ & _ & _ & _ & Hb & He).
  induction h as [|a h IH]; intros calls w Hh Hcalls Hbuilt.
  - simpl. rewrite Nat.add_0_r. split; reflexivity.
  - destruct a as [k|i]; simpl in Hh.
    + apply andb_true_iff in Hh. destruct Hh as [Hk Hh].
      rewrite run_hist_cons.
      destruct (lazy_until_execute c st name cs w k Hc) as [Er Es].
      specialize (IH (calls ++ [k])%list (step c st name cs w (ABuild k)) Hh).
      destruct IH as [IH1 IH2].
      * rewrite forallb_app. simpl. rewrite Hcalls, Hk. reflexivity.
      * simpl. rewrite Hbuilt, map_app. reflexivity.
      * rewrite IH1, IH2, Er, Es. rewrite app_length. simpl. rewrite Nat.add_1_r. split; reflexivity.
    + rewrite run_hist_cons.
      simpl step. cbn [spec_hist execs_in]. rewrite Hbuilt, nth_error_map'.
      destruct (nth_error calls i) as [k|] eqn:Ei; simpl.
      * assert (Hk : call_ok c st cs k = true).
        { rewrite forallb_forall in Hcalls. apply Hcalls. eapply nth_error_In. exact Ei. }
        destruct (compile_exact c st cs k Hc Hk) as (s & Es & _ & _ & Hx).
        rewrite Es, He. simpl. rewrite (Hx name _ Hpt).
        specialize (IH calls (mkW (spec_rows cs k (w_rows w)) (w_sent w + 1) (map (compile c st) calls)) Hh Hcalls eq_refl).
        simpl in IH. destruct IH as [IH1 IH2]. rewrite IH1, IH2.
        assert (Hlt : Nat.ltb i (List.length calls) = true).
        { apply Nat.ltb_lt. apply nth_error_Some. rewrite Ei. discriminate. }
        rewrite Hlt. split; [reflexivity|]. rewrite Nat.add_assoc. reflexivity.
      * specialize (IH calls w Hh Hcalls Hbuilt). destruct IH as [IH1 IH2]. rewrite IH1, IH2.
        assert (Hlt : Nat.ltb i (List.length calls) = false).
        { apply Nat.ltb_ge. apply nth_error_None. exact Ei. }
        rewrite Hlt. split; reflexivity.
Qed.

(** sequences of statements, each executed right after it is built *)
Fixpoint seq_actions (from : nat) (ks : list call) : list action :=
  match ks with [] => [] | k :: ks' => ABuild k :: AExec from :: seq_actions (S from) ks' end.
Definition spec_seq (cs : list string) (ks : list call) (rows : list row) : list row :=
  fold_left (fun rs k => spec_rows cs k rs) ks rows.

Lemma spec_hist_seq cs ks : forall built rows,
  spec_hist cs built rows (seq_actions (List.length built) ks) = spec_seq cs ks rows.
Proof.
  induction ks as [|k ks IH]; intros built rows; simpl; [reflexivity|].
  assert (E : nth_error (built ++ [k])%list (List.length built) = Some k).
  { rewrite nth_error_app2 by apply Nat.le_refl. rewrite Nat.sub_diag. reflexivity. }
  rewrite E. specialize (IH (built ++ [k])%list (spec_rows cs k rows)).
  rewrite app_length in IH. simpl in IH. rewrite Nat.add_1_r in IH. exact IH.
Qed.

Lemma hist_ok_seq c st cs ks from : forallb (call_ok c st cs) ks = true -> hist_ok c st cs (seq_actions from ks) = true.
Proof.
  revert from. induction ks as [|k ks IH]; intros from H; simpl in *; [reflexivity|].
  apply andb_true_iff in H. destruct H as [H1 H2]. rewrite H1. simpl. apply IH. exact H2.
Qed.

Theorem sequence_exact c st name cs ks rows :
  cfg_ok c = true -> points_to name st = true -> forallb (call_ok c st cs) ks = true ->
  w_rows (run_hist c st name cs (mkW rows 0 []) (seq_actions 0 ks)) = spec_seq cs ks rows.
Proof.
  intros Hc Hpt Hks.
  destruct (history_exact c st name cs Hc Hpt (seq_actions 0 ks) [] (mkW rows 0 []) (hist_ok_seq c st cs ks 0 Hks) eq_refl eq_refl) as [H _].
  rewrite H. simpl w_rows. apply (spec_hist_seq cs ks [] rows).
Qed.

(** * Relation between the domains *)
Lemma refs_in_mono (a b : list (option string)) cs e :
  (forall q, omem q a = true -> omem q b = true) -> refs_in a cs e = true -> refs_in b cs e = true.
Proof.
  intro H. unfold refs_in. apply forallb_impl. intros [q n] Hq. simpl in *.
  apply andb_true_iff in Hq. destruct Hq as [H1 H2]. rewrite (H _ H1), H2. reflexivity.
Qed.

Lemma pred_wf_ok st cs e : pred_wf st cs e = true -> pred_ok st cs e = true.
Proof.
  unfold pred_wf, pred_ok, pred_in. intro H. apply andb_true_iff in H. destruct H as [H1 H2].
  rewrite H1. simpl. revert H2. apply refs_in_mono. apply user_in_self.
Qed.

(** once SQL strings are parsed, unqualified references accepted and automatic aliases stripped in SET,
    the proved domain is the whole property *)
Theorem wf_is_ok_when_patched c st cs k :
  where_str_is_sql c = true -> set_unqualified_raises c = false -> set_strips_alias c = true ->
  call_wf st cs k = true -> call_ok c st cs k = true.
Proof.
  intros Hsql Hunq Hstrip.
  assert (Hw : forall w, where_wf st cs w = true -> where_ok c st cs w = true).
  { intros [|b|l|s p]; simpl; auto.
    - intro H. apply andb_true_iff in H. destruct H as [H1 H2]. rewrite H1. simpl.
      revert H2. apply forallb_impl. intro e. apply pred_wf_ok.
    - rewrite Hsql. apply pred_wf_ok. }
  assert (Hs : forall set, set_wf st cs set = true -> set_ok c st cs set = true).
  { intro set. unfold set_wf, set_ok. apply forallb_impl. intros [k0 v] H. simpl in *.
    apply andb_true_iff in H. destruct H as [H1 H2]. rewrite H1. simpl.
    unfold pred_wf, pred_in in H2. apply andb_true_iff in H2. destruct H2 as [Ha Hr].
    unfold val_ok. rewrite Hstrip, Ha. simpl. revert Hr. unfold refs_in. apply forallb_impl.
    intros [q n] Hq. simpl in *. apply andb_true_iff in Hq. destruct Hq as [Hq Hn]. rewrite Hn, andb_true_r.
    unfold omem, user_quals in Hq. simpl in Hq. rewrite orb_false_r in Hq.
    destruct q as [s|]; simpl in *.
    - rewrite Hq. simpl. rewrite String.eqb_refl. reflexivity.
    - rewrite Hunq. reflexivity. }
  destruct k as [set w|w]; simpl; intro H.
  - apply andb_true_iff in H. destruct H as [H1 H2]. rewrite (Hw _ H1), (Hs _ H2). reflexivity.
  - apply Hw. exact H.
Qed.

(** * The whole database: exactly the addressed table changes, every other table (in particular a table of
      the same name in the default schema) is left as it was *)
Lemma addr_eqb_eq a b : addr_eqb a b = true <-> a = b.
Proof.
  unfold addr_eqb. destruct a as [a1 a2], b as [b1 b2]. simpl. rewrite andb_true_iff, !String.eqb_eq.
  split; [intros [-> ->]; reflexivity|intro H; inversion H; auto].
Qed.

Lemma db_get_set_other a b rows d : a <> b -> db_get b (db_set a rows d) = db_get b d.
Proof.
  intro Hne. induction d as [|[x old] d IH]; simpl; [reflexivity|].
  destruct (addr_eqb x a) eqn:Exa; simpl.
  - destruct (addr_eqb x b) eqn:Exb; [|reflexivity].
    apply addr_eqb_eq in Exa, Exb. congruence.
  - rewrite IH. reflexivity.
Qed.

Lemma db_get_set_same a rows old d : db_get a d = Some old -> db_get a (db_set a rows d) = Some rows.
Proof.
  induction d as [|[x o] d IH]; simpl; [discriminate|].
  destruct (addr_eqb x a) eqn:Exa; simpl; rewrite Exa; auto.
Qed.

Theorem db_exact c st cat dflt cs d k a rows :
  cfg_ok c = true -> call_ok c st cs k = true ->
  resolve cat dflt (tref st) = Some a -> snd a = phys st -> db_get a d = Some rows ->
  exists d', run_db c st cat dflt cs d k = inr (d', spec_count cs k rows)
    /\ db_get a d' = Some (spec_rows cs k rows)
    /\ forall b, b <> a -> db_get b d' = db_get b d.
Proof.
  intros Hc Hk Hr Hn Hg. destruct (compile_exact c st cs k Hc Hk) as (s & Es & Ht & _ & Hx).
  unfold run_db, exec_db. rewrite Es, Ht, Hr, Hg.
  assert (Hpt : points_to (mkRef cat dflt (fst a) (snd a)) st = true).
  { unfold points_to, names_table, bare. simpl. rewrite Hr. destruct a as [a1 a2]. simpl in *.
    rewrite !String.eqb_refl. subst. rewrite String.eqb_refl. reflexivity. }
  rewrite (Hx _ rows Hpt). eexists. split; [reflexivity|]. split.
  - eapply db_get_set_same. exact Hg.
  - intros b Hb. apply db_get_set_other. congruence.
Qed.
