(** C19 -- method records, dynamic dispatch, the Row-operation script language, and the generic
    lifting theorems:  if two method-record transformers (generated from sqlframe's and from PySpark's
    source) are related pointwise, then every script / every helper call evaluates identically under
    both, at every recursion budget.  Nothing here depends on /repo. *)
From Coq Require Import ZArith String List Bool Ascii PrimFloat Lia.
From SF Require Import C19.PyVal.
Import ListNotations.
Open Scope string_scope.

Definition nl : string := String (ascii_of_nat 10) EmptyString.

(* ------------------------------------------------------------------------------------------ *)
(** * The methods of [Row] (and the module-level [_create_row]) as a record *)

Record rowm := {
  m_new : pyval -> pyval -> res pyval;             (* Row.__new__(cls, *args, ..kwargs): args tuple, kwargs dict *)
  m_create_row : pyval -> pyval -> res pyval;      (* _create_row(fields, values) *)
  m_call : pyval -> pyval -> res pyval;            (* Row.__call__(self, *args) *)
  m_asDict : pyval -> pyval -> res pyval;          (* Row.asDict(self, recursive) *)
  m_conv : pyval -> res pyval;                     (* the local function conv of asDict *)
  m_contains : pyval -> pyval -> res pyval;
  m_getitem : pyval -> pyval -> res pyval;
  m_getattr : pyval -> pyval -> res pyval;
  m_setattr : pyval -> pyval -> pyval -> res pyval;  (* returns self after the assignment *)
  m_reduce : pyval -> res pyval;
  m_repr : pyval -> res pyval
}.

Definition row_bottom : rowm := {|
  m_new := fun _ _ => Raise ERecursion; m_create_row := fun _ _ => Raise ERecursion;
  m_call := fun _ _ => Raise ERecursion; m_asDict := fun _ _ => Raise ERecursion;
  m_conv := fun _ => Raise ERecursion; m_contains := fun _ _ => Raise ERecursion;
  m_getitem := fun _ _ => Raise ERecursion; m_getattr := fun _ _ => Raise ERecursion;
  m_setattr := fun _ _ _ => Raise ERecursion; m_reduce := fun _ => Raise ERecursion;
  m_repr := fun _ => Raise ERecursion |}.

(** every call through the record costs one unit of budget (CPython: one stack frame) *)
Fixpoint tie (B : rowm -> rowm) (n : nat) : rowm :=
  match n with O => row_bottom | S k => B (tie B k) end.

(** ** CPython's dispatch of operators on values that may be Rows *)

(** [v.__fields__]: instance dict first, then the class's __getattr__ *)
Definition attr_fields (M : rowm) (v : pyval) : res pyval :=
  match inst_fields v with
  | Some f => Ok f
  | None => match v with VRow _ _ => m_getattr M v (VStr "__fields__") | _ => Raise EAttr end
  end.

(** [hasattr(v, "__fields__")]: getattr, AttributeError means False *)
Definition py_hasattr_fields (M : rowm) (v : pyval) : res pyval :=
  match attr_fields M v with
  | Ok _ => Ok (VBool true)
  | Raise EAttr => Ok (VBool false)
  | Raise e => Raise e
  end.

Definition py_in (M : rowm) (item cont : pyval) : res pyval :=
  match cont with
  | VRow _ _ => b <- m_contains M cont item ;; Ok (VBool (py_truth b))
  | VList l | VTuple l | VKeys l => Ok (VBool (existsb (fun y => py_eqb y item) l))
  | VDict kv => Ok (VBool (existsb (fun p => atom_eqb (fst p) item) kv))
  | _ => Raise EType
  end.

Definition py_getitem (M : rowm) (v k : pyval) : res pyval :=
  match v with
  | VRow _ _ => m_getitem M v k
  | _ => builtin_getitem v k
  end.

Definition call_asDict (M : rowm) (obj r : pyval) : res pyval :=
  match obj with VRow _ _ => m_asDict M obj r | _ => Raise EAttr end.

(* ------------------------------------------------------------------------------------------ *)
(** * The assertion helpers as a record *)

Record cmpm := {
  c_compare_vals : pyval -> pyval -> pyval -> pyval -> res pyval;          (* rtol atol val1 val2 *)
  c_compare_rows : pyval -> pyval -> pyval -> pyval -> res pyval;          (* rtol atol r1 r2 *)
  c_assert_rows_equal : pyval -> pyval -> pyval -> pyval -> res pyval;     (* rtol atol rows1 rows2 *)
  c_compare_schemas : pyval -> pyval -> res pyval;
  c_compare_structfields : pyval -> pyval -> res pyval;
  c_compare_datatypes : pyval -> pyval -> res pyval;
  c_assertSchemaEqual : pyval -> pyval -> res pyval;
  c_assertDataFrameEqual : pyval -> pyval -> pyval -> pyval -> pyval -> res pyval  (* actual expected checkRowOrder rtol atol *)
}.

Definition cmp_bottom : cmpm := {|
  c_compare_vals := fun _ _ _ _ => Raise ERecursion; c_compare_rows := fun _ _ _ _ => Raise ERecursion;
  c_assert_rows_equal := fun _ _ _ _ => Raise ERecursion; c_compare_schemas := fun _ _ => Raise ERecursion;
  c_compare_structfields := fun _ _ => Raise ERecursion; c_compare_datatypes := fun _ _ => Raise ERecursion;
  c_assertSchemaEqual := fun _ _ => Raise ERecursion;
  c_assertDataFrameEqual := fun _ _ _ _ _ => Raise ERecursion |}.

Fixpoint tiec (B : cmpm -> cmpm) (n : nat) : cmpm :=
  match n with O => cmp_bottom | S k => B (tiec B k) end.

(* ------------------------------------------------------------------------------------------ *)
(** * Scripts of Row operations *)

Inductive sx :=
| SLit (v : pyval)
| SNew (args : list sx) (kwargs : list (string * sx))    (* Row(.args, ..kwargs) *)
| SCall (r : sx) (args : list sx)                        (* r(.args) *)
| SGetItem (r k : sx)                                    (* r[k] *)
| SGetAttr (r : sx) (name : string)                      (* r.name *)
| SSetAttr (r : sx) (name : string) (v : sx)             (* r.name = v ; the value is r afterwards *)
| SContains (item r : sx)                                (* item in r *)
| SAsDict (r : sx) (recursive : bool)
| SRepr (r : sx)
| SPickle (r : sx)                                       (* pickle.loads(pickle.dumps(r)) *)
| SEq (a b : sx) | SLt (a b : sx)
| SHashEq (r : sx)                                       (* hash(r) == hash(tuple(r)) *)
| SLen (r : sx) | STuple (r : sx) | SFields (r : sx)     (* len(r), tuple(r), r.__fields__ *)
| SList (items : list sx)                                (* [e1, ..., en] *)
| SDict (items : list (string * sx)).                    (* {"k1": e1, ...} *)

(** the guard: sqlframe deliberately converts Decimal values placed directly in a Row to float (a listed
    deviation); guarded evaluation stops with [EOutOfDomain]-like marker [Raise EArg]?  No: a dedicated
    outcome is used so that it cannot be confused with a Python exception. *)
Inductive out := OVal (v : pyval) | OExc (e : exn) | OOutOfDomain.

Definition out_eqb_exn (a b : out) : bool :=
  match a, b with
  | OExc x, OExc y => exn_eqb x y
  | OOutOfDomain, OOutOfDomain => true
  | _, _ => false
  end.

Definition obind (m : out) (k : pyval -> out) : out :=
  match m with OVal v => k v | OExc e => OExc e | OOutOfDomain => OOutOfDomain end.
Definition lift (r : res pyval) : out := match r with Ok v => OVal v | Raise e => OExc e end.

Definition no_top_dec (l : list pyval) : bool := forallb (fun v => negb (is_dec v)) l.

(** attribute names found on the class before __getattr__ is consulted *)
Definition class_attr (name : string) : bool :=
  existsb (String.eqb name) ["count"; "index"; "asDict"].

(** unpickling: children first, then the callable returned by __reduce__ *)
Fixpoint unpickle (g : bool) (M : rowm) (n : nat) (v : pyval) {struct n} : out :=
  match n with
  | O => OExc ERecursion
  | S k =>
    let fix each (l : list pyval) : out :=     (* returns VList of rebuilt elements *)
      match l with
      | [] => OVal (VList [])
      | x :: t => obind (unpickle g M k x) (fun x' => obind (each t) (fun t' =>
                    match t' with VList t'' => OVal (VList (x' :: t'')) | _ => OExc EType end))
      end in
    let fix eachkv (l : list (pyval * pyval)) : out :=
      match l with
      | [] => OVal (VDict [])
      | (a, x) :: t => obind (unpickle g M k x) (fun x' => obind (eachkv t) (fun t' =>
                    match t' with VDict t'' => OVal (VDict ((a, x') :: t'')) | _ => OExc EType end))
      end in
    match v with
    | VList l => each l
    | VTuple l => obind (each l) (fun r => match r with VList l' => OVal (VTuple l') | _ => OExc EType end)
    | VDict kv => eachkv kv
    | VRow _ _ =>
        obind (lift (m_reduce M v)) (fun red =>
          match red with
          | VTuple [VFunc name; arg] =>
              if String.eqb name "_create_row" then
                match arg with
                | VTuple [f; VTuple vs] =>
                    obind (unpickle g M k f) (fun f' =>
                    obind (each vs) (fun vs' =>
                      match vs' with
                      | VList l' => if g && negb (no_top_dec l') then OOutOfDomain
                                    else lift (m_create_row M f' (VTuple l'))
                      | _ => OExc EType
                      end))
                | _ => OExc EType
                end
              else if String.eqb name "copyreg._reconstructor" then
                match arg with
                | VRow None l =>
                    obind (each l) (fun r => match r with VList l' => OVal (VRow None l') | _ => OExc EType end)
                | _ => OExc EType
                end
              else OExc EType
          | _ => OExc EType
          end)
    | _ => OVal v
    end
  end.

Definition as_list_val (v : pyval) : list pyval := match v with VList l => l | _ => [] end.

(** evaluation of argument lists / keyword lists, given the evaluator of one expression *)
Definition runs_with (f : sx -> out) : list sx -> out :=
  fix runs (l : list sx) : out :=          (* VList of the values, left to right *)
    match l with
    | [] => OVal (VList [])
    | x :: t => obind (f x) (fun v => obind (runs t) (fun vs => OVal (VList (v :: as_list_val vs))))
    end.
Definition runkv_with (f : sx -> out) : list (string * sx) -> out :=
  fix runkv (l : list (string * sx)) : out :=   (* VDict *)
    match l with
    | [] => OVal (VDict [])
    | (k, x) :: t => obind (f x) (fun v => obind (runkv t) (fun d =>
                       match d with VDict kv => OVal (VDict ((VStr k, v) :: kv)) | _ => OExc EType end))
    end.

(** [run g M n s]: g = guarded (stop with [OOutOfDomain] when a Decimal is about to be placed directly
    into a Row); n = budget of the pickler *)
Fixpoint run (g : bool) (M : rowm) (n : nat) (s : sx) {struct s} : out :=
  let runs := runs_with (run g M n) in
  let runkv := runkv_with (run g M n) in
  match s with
  | SLit v => OVal v
  | SNew args kwargs =>
      obind (runs args) (fun a => obind (runkv kwargs) (fun kw =>
        match kw with
        | VDict kv =>
            if g && negb (no_top_dec (map snd kv)) then OOutOfDomain
            else lift (m_new M (VTuple (as_list_val a)) (VDict kv))    (* keyword names are distinct (Python syntax) *)
        | _ => OExc EType
        end))
  | SCall r args =>
      obind (run g M n r) (fun rv => obind (runs args) (fun a =>
        match rv with
        | VRow _ _ => if g && negb (no_top_dec (as_list_val a)) then OOutOfDomain
                      else lift (m_call M rv (VTuple (as_list_val a)))
        | _ => OExc EType
        end))
  | SGetItem r k => obind (run g M n r) (fun rv => obind (run g M n k) (fun kv => lift (py_getitem M rv kv)))
  | SGetAttr r name =>
      obind (run g M n r) (fun rv =>
        match rv with
        | VRow _ _ =>
            if class_attr name then OVal (VFunc name)
            else if String.eqb name "__fields__" then lift (attr_fields M rv)
            else lift (m_getattr M rv (VStr name))
        | _ => OExc EAttr
        end)
  | SSetAttr r name v =>
      obind (run g M n r) (fun rv => obind (run g M n v) (fun vv =>
        match rv with
        | VRow _ _ => lift (m_setattr M rv (VStr name) vv)
        | _ => OExc EAttr
        end))
  | SContains item r => obind (run g M n item) (fun iv => obind (run g M n r) (fun rv => lift (py_in M iv rv)))
  | SAsDict r rec => obind (run g M n r) (fun rv => lift (call_asDict M rv (VBool rec)))
  | SRepr r => obind (run g M n r) (fun rv => lift (py_reprv (m_repr M) rv))
  | SPickle r => obind (run g M n r) (fun rv => unpickle g M n rv)
  | SEq a b => obind (run g M n a) (fun av => obind (run g M n b) (fun bv => OVal (py_eq av bv)))
  | SLt a b => obind (run g M n a) (fun av => obind (run g M n b) (fun bv => lift (py_ltv av bv)))
  | SHashEq r => obind (run g M n r) (fun rv => if py_hashable rv then OVal (VBool true) else OExc EType)
  | SLen r => obind (run g M n r) (fun rv => lift (py_len rv))
  | STuple r => obind (run g M n r) (fun rv => lift (py_tuple rv))
  | SFields r => obind (run g M n r) (fun rv => lift (attr_fields M rv))
  | SList items => runs items
  | SDict items => runkv items
  end.

(** induction principle for the nested type *)
Section SxInd.
  Variable P : sx -> Prop.
  Hypothesis HLit : forall v, P (SLit v).
  Hypothesis HNew : forall a kw, Forall P a -> Forall (fun p => P (snd p)) kw -> P (SNew a kw).
  Hypothesis HCall : forall r a, P r -> Forall P a -> P (SCall r a).
  Hypothesis HGetItem : forall r k, P r -> P k -> P (SGetItem r k).
  Hypothesis HGetAttr : forall r n, P r -> P (SGetAttr r n).
  Hypothesis HSetAttr : forall r n v, P r -> P v -> P (SSetAttr r n v).
  Hypothesis HContains : forall i r, P i -> P r -> P (SContains i r).
  Hypothesis HAsDict : forall r b, P r -> P (SAsDict r b).
  Hypothesis HRepr : forall r, P r -> P (SRepr r).
  Hypothesis HPickle : forall r, P r -> P (SPickle r).
  Hypothesis HEq : forall a b, P a -> P b -> P (SEq a b).
  Hypothesis HLt : forall a b, P a -> P b -> P (SLt a b).
  Hypothesis HHashEq : forall r, P r -> P (SHashEq r).
  Hypothesis HLen : forall r, P r -> P (SLen r).
  Hypothesis HTuple : forall r, P r -> P (STuple r).
  Hypothesis HFields : forall r, P r -> P (SFields r).
  Hypothesis HList : forall l, Forall P l -> P (SList l).
  Hypothesis HDict : forall l, Forall (fun p => P (snd p)) l -> P (SDict l).

  Fixpoint sx_ind2 (s : sx) : P s :=
    let fix all (l : list sx) : Forall P l :=
      match l with [] => Forall_nil _ | x :: t => Forall_cons _ (sx_ind2 x) (all t) end in
    let fix allkv (l : list (string * sx)) : Forall (fun p => P (snd p)) l :=
      match l with [] => Forall_nil _ | (k, x) :: t => Forall_cons (k, x) (sx_ind2 x) (allkv t) end in
    match s with
    | SLit v => HLit v
    | SNew a kw => HNew a kw (all a) (allkv kw)
    | SCall r a => HCall r a (sx_ind2 r) (all a)
    | SGetItem r k => HGetItem r k (sx_ind2 r) (sx_ind2 k)
    | SGetAttr r n => HGetAttr r n (sx_ind2 r)
    | SSetAttr r n v => HSetAttr r n v (sx_ind2 r) (sx_ind2 v)
    | SContains i r => HContains i r (sx_ind2 i) (sx_ind2 r)
    | SAsDict r b => HAsDict r b (sx_ind2 r)
    | SRepr r => HRepr r (sx_ind2 r)
    | SPickle r => HPickle r (sx_ind2 r)
    | SEq a b => HEq a b (sx_ind2 a) (sx_ind2 b)
    | SLt a b => HLt a b (sx_ind2 a) (sx_ind2 b)
    | SHashEq r => HHashEq r (sx_ind2 r)
    | SLen r => HLen r (sx_ind2 r)
    | STuple r => HTuple r (sx_ind2 r)
    | SFields r => HFields r (sx_ind2 r)
    | SList l => HList l (all l)
    | SDict l => HDict l (allkv l)
    end.
End SxInd.

Lemma runs_with_ext f1 f2 l : Forall (fun x => f1 x = f2 x) l -> runs_with f1 l = runs_with f2 l.
Proof. induction 1 as [|x t Hx _ IH]; cbn; [reflexivity|]. rewrite Hx, IH. reflexivity. Qed.
Lemma runkv_with_ext f1 f2 l : Forall (fun p => f1 (snd p) = f2 (snd p)) l -> runkv_with f1 l = runkv_with f2 l.
Proof. induction 1 as [|[k x] t Hx _ IH]; cbn in *; [reflexivity|]. rewrite Hx, IH. reflexivity. Qed.

(* ------------------------------------------------------------------------------------------ *)
(** * Relating two method records *)

(** pointwise agreement; the three constructing methods agree on value lists that satisfy [P]
    ([P] = [allok]: unconditionally;  [P] = [no_top_dec]: when no Decimal is placed directly into the Row,
    the form that was needed while sqlframe converted such Decimals to float) *)
Definition allok (l : list pyval) : bool := true.

Record rel {P : list pyval -> bool} (M1 M2 : rowm) : Prop := {
  r_new : forall a kv, P (map snd kv) = true -> m_new M1 a (VDict kv) = m_new M2 a (VDict kv);
  r_create_row : forall f l, P l = true -> m_create_row M1 f (VTuple l) = m_create_row M2 f (VTuple l);
  r_call : forall s l, P l = true -> m_call M1 s (VTuple l) = m_call M2 s (VTuple l);
  r_asDict : forall s r, m_asDict M1 s r = m_asDict M2 s r;
  r_conv : forall o, m_conv M1 o = m_conv M2 o;
  r_contains : forall s i, m_contains M1 s i = m_contains M2 s i;
  r_getitem : forall s i, m_getitem M1 s i = m_getitem M2 s i;
  r_getattr : forall s i, m_getattr M1 s i = m_getattr M2 s i;
  r_setattr : forall s k v, m_setattr M1 s k v = m_setattr M2 s k v;
  r_reduce : forall s, m_reduce M1 s = m_reduce M2 s;
  r_repr : forall s, m_repr M1 s = m_repr M2 s
}.

Notation relp P := (@rel P).
Notation relu := (@rel allok).

Lemma rel_bottom P : relp P row_bottom row_bottom.
Proof. constructor; reflexivity. Qed.

Theorem tie_rel P (B1 B2 : rowm -> rowm) :
  (forall M1 M2, relp P M1 M2 -> relp P (B1 M1) (B2 M2)) -> forall n, relp P (tie B1 n) (tie B2 n).
Proof. intros H n. induction n as [|k IH]; cbn; [apply rel_bottom | apply H, IH]. Qed.

Section Dispatch.
  Context {P : list pyval -> bool}.
  Variable g : bool.
  (** whenever the guard of [run g] lets a construction through, the precondition [P] of [rel] holds *)
  Hypothesis GP : forall l, g && negb (no_top_dec l) = false -> P l = true.
  Variables M1 M2 : rowm.
  Hypothesis R : relp P M1 M2.

  Lemma attr_fields_rel v : attr_fields M1 v = attr_fields M2 v.
  Proof. unfold attr_fields. destruct (inst_fields v); [reflexivity|]. destruct v; try reflexivity. apply (r_getattr _ _ R). Qed.
  Lemma py_hasattr_fields_rel v : py_hasattr_fields M1 v = py_hasattr_fields M2 v.
  Proof. unfold py_hasattr_fields. rewrite attr_fields_rel. reflexivity. Qed.
  Lemma py_in_rel i c : py_in M1 i c = py_in M2 i c.
  Proof. unfold py_in. destruct c; try reflexivity. rewrite (r_contains _ _ R). reflexivity. Qed.
  Lemma py_getitem_rel v k : py_getitem M1 v k = py_getitem M2 v k.
  Proof. unfold py_getitem. destruct v; try reflexivity. apply (r_getitem _ _ R). Qed.
  Lemma call_asDict_rel o r : call_asDict M1 o r = call_asDict M2 o r.
  Proof. unfold call_asDict. destruct o; try reflexivity. apply (r_asDict _ _ R). Qed.
  Lemma py_reprv_rel v : py_reprv (m_repr M1) v = py_reprv (m_repr M2) v.
  Proof. apply py_reprv_ext. apply (r_repr _ _ R). Qed.
  Lemma py_strv_rel v : py_strv (m_repr M1) v = py_strv (m_repr M2) v.
  Proof. apply py_strv_ext. apply (r_repr _ _ R). Qed.
  Lemma py_format_rel f a : py_format (m_repr M1) f a = py_format (m_repr M2) f a.
  Proof. apply py_format_ext. apply (r_repr _ _ R). Qed.

  Lemma obind_ext m1 m2 k1 k2 : m1 = m2 -> (forall v, k1 v = k2 v) -> obind m1 k1 = obind m2 k2.
  Proof. intros -> H. destruct m2; cbn; auto. Qed.

  Lemma unpickle_rel n : forall v, unpickle g M1 n v = unpickle g M2 n v.
  Proof.
    induction n as [|k IH]; intros v; [reflexivity|].
    cbn [unpickle].
    set (each1 := fix each (l : list pyval) : out := match l with
      | [] => OVal (VList [])
      | x :: t => obind (unpickle g M1 k x) (fun x' => obind (each t) (fun t' =>
                    match t' with VList t'' => OVal (VList (x' :: t'')) | _ => OExc EType end)) end).
    set (each2 := fix each (l : list pyval) : out := match l with
      | [] => OVal (VList [])
      | x :: t => obind (unpickle g M2 k x) (fun x' => obind (each t) (fun t' =>
                    match t' with VList t'' => OVal (VList (x' :: t'')) | _ => OExc EType end)) end).
    assert (Heach : forall l, each1 l = each2 l).
    { induction l as [|x t IHl]; [reflexivity|]. cbn. rewrite IH. apply obind_ext; [reflexivity|].
      intros x'. rewrite IHl. reflexivity. }
    destruct v; try reflexivity.
    - apply Heach.
    - rewrite Heach. reflexivity.
    - induction kv as [|[a x] t IHl]; [reflexivity|]. cbn. rewrite IH. apply obind_ext; [reflexivity|].
      intros x'. rewrite IHl. reflexivity.
    - rewrite (r_reduce _ _ R). apply obind_ext; [reflexivity|]. intros red.
      destruct red as [| | | | | | |l| | | | | | | |]; try reflexivity.
      destruct l as [|h1 l]; [reflexivity|]. destruct h1; try reflexivity.
      destruct l as [|h2 l]; try reflexivity.
      destruct l as [|h3 l]; [|reflexivity].
      destruct (String.eqb name "_create_row").
      + destruct h2 as [| | | | | | |l2| | | | | | | |]; try reflexivity.
        destruct l2 as [|f l2]; [reflexivity|]. destruct l2 as [|vt l2]; [reflexivity|].
        destruct vt as [| | | | | | |vs| | | | | | | |]; try reflexivity.
        destruct l2; [|reflexivity].
        rewrite IH. apply obind_ext; [reflexivity|]. intros f'.
        rewrite Heach. apply obind_ext; [reflexivity|]. intros vs'.
        destruct vs' as [| | | | | |l'| | | | | | | | |]; try reflexivity.
        destruct (g && negb (no_top_dec l')) eqn:Hg; [reflexivity|].
        rewrite (r_create_row _ _ R f' l' (GP _ Hg)). reflexivity.
      + destruct (String.eqb name "copyreg._reconstructor"); [|reflexivity].
        destruct h2 as [| | | | | | | | | |fl0 vl0| | | | |]; try reflexivity. destruct fl0; [reflexivity|]. rewrite Heach. reflexivity.
  Qed.
End Dispatch.

(* ------------------------------------------------------------------------------------------ *)
(** * Lifting: related method records give equal script outcomes (guarded evaluation) *)

Lemma run_rel P g (GP : forall l, g && negb (no_top_dec l) = false -> P l = true)
      M1 M2 (R : relp P M1 M2) n : forall s, run g M1 n s = run g M2 n s.
Proof.
  induction s using sx_ind2; cbn [run];
    repeat match goal with
           | H : Forall _ _ |- _ => first [apply runs_with_ext in H | apply runkv_with_ext in H]
           end;
    repeat match goal with H : _ = _ |- _ => rewrite H; clear H end;
    try reflexivity;
    repeat (apply obind_ext; [reflexivity | intro]);
    try reflexivity.
  - (* SNew *) destruct v0; try reflexivity.
    destruct (g && negb (no_top_dec (map snd kv))) eqn:Hg; [reflexivity|].
    rewrite (r_new _ _ R _ _ (GP _ Hg)). reflexivity.
  - (* SCall *) destruct v; try reflexivity.
    destruct (g && negb (no_top_dec (as_list_val v0))) eqn:Hg; [reflexivity|].
    rewrite (r_call _ _ R _ _ (GP _ Hg)). reflexivity.
  - rewrite (py_getitem_rel _ _ R). reflexivity.
  - (* SGetAttr *) destruct v; try reflexivity. destruct (class_attr n0); [reflexivity|].
    destruct (String.eqb n0 "__fields__"); [rewrite (attr_fields_rel _ _ R) | rewrite (r_getattr _ _ R)]; reflexivity.
  - (* SSetAttr *) destruct v; try reflexivity. rewrite (r_setattr _ _ R). reflexivity.
  - rewrite (py_in_rel _ _ R). reflexivity.
  - rewrite (call_asDict_rel _ _ R). reflexivity.
  - rewrite (py_reprv_rel _ _ R). reflexivity.
  - apply (unpickle_rel g GP _ _ R).
  - rewrite (attr_fields_rel _ _ R). reflexivity.
Qed.

Lemma GP_guarded : forall l, true && negb (no_top_dec l) = false -> no_top_dec l = true.
Proof. intros l H. cbn in H. destruct (no_top_dec l); [reflexivity | discriminate H]. Qed.
Lemma GP_unguarded : forall l, false && negb (no_top_dec l) = false -> allok l = true.
Proof. reflexivity. Qed.

(** unconditional agreement of the method records gives equal outcomes of plain evaluation *)
Theorem script_equal_all (B1 B2 : rowm -> rowm) :
  (forall M1 M2, relu M1 M2 -> relu (B1 M1) (B2 M2)) ->
  forall n k s, run false (tie B1 n) k s = run false (tie B2 n) k s.
Proof. intros H n k s. apply (run_rel allok false GP_unguarded), tie_rel, H. Qed.

(** agreement outside "Decimal placed directly into a Row" gives equal outcomes of guarded evaluation *)
Theorem script_equal_guarded (B1 B2 : rowm -> rowm) :
  (forall M1 M2, relp no_top_dec M1 M2 -> relp no_top_dec (B1 M1) (B2 M2)) ->
  forall n k s, run true (tie B1 n) k s = run true (tie B2 n) k s.
Proof. intros H n k s. apply (run_rel no_top_dec true GP_guarded), tie_rel, H. Qed.

(* ------------------------------------------------------------------------------------------ *)
(** * Guarded evaluation that stays in the domain is plain evaluation *)

Definition is_ood (o : out) : bool := match o with OOutOfDomain => true | _ => false end.

Lemma obind_ood m k : is_ood (obind m k) = false ->
  is_ood m = false /\ forall v, m = OVal v -> is_ood (k v) = false.
Proof. destruct m; cbn; intros H; split; try congruence; intros v0 E; inversion E; subst; exact H. Qed.

Ltac unguard_step :=
  match goal with
  | Hne : is_ood (obind ?X ?K) = false |- obind ?Y _ = obind ?X _ =>
      let H1 := fresh "H1" in let H2 := fresh "H2" in
      destruct (obind_ood X K Hne) as [H1 H2];
      match goal with
      | IH : is_ood X = false -> Y = X |- _ => rewrite (IH H1)
      | _ => idtac
      end;
      clear Hne;
      let v := fresh "v" in let E := fresh "E" in
      destruct X as [v| |] eqn:E; cbn [obind];
      [ specialize (H2 v eq_refl) | reflexivity | discriminate H1 ]
  end.

Ltac ood_absurd := exfalso; match goal with H : is_ood OOutOfDomain = false |- _ => discriminate H end.

Lemma unpickle_unguard M n : forall v,
  is_ood (unpickle true M n v) = false -> unpickle false M n v = unpickle true M n v.
Proof.
  induction n as [|k IH]; intros v Hne; [reflexivity|].
  cbn [unpickle] in *.
  set (eachT := fix each (l : list pyval) : out := match l with
      | [] => OVal (VList [])
      | x :: t => obind (unpickle true M k x) (fun x' => obind (each t) (fun t' =>
                    match t' with VList t'' => OVal (VList (x' :: t'')) | _ => OExc EType end)) end) in *.
  set (eachF := fix each (l : list pyval) : out := match l with
      | [] => OVal (VList [])
      | x :: t => obind (unpickle false M k x) (fun x' => obind (each t) (fun t' =>
                    match t' with VList t'' => OVal (VList (x' :: t'')) | _ => OExc EType end)) end).
  assert (Heach : forall l, is_ood (eachT l) = false -> eachF l = eachT l).
  { induction l as [|x t IHl]; intros Hl; [reflexivity|]. cbn in *.
    pose proof (IH x) as IHx.
    unguard_step. unguard_step. reflexivity. }
  destruct v; try reflexivity.
  - apply Heach, Hne.
  - pose proof (Heach l) as IHl. unguard_step. reflexivity.
  - induction kv as [|[a x] t IHl]; [reflexivity|]. cbn in *.
    pose proof (IH x) as IHx. unguard_step. unguard_step. reflexivity.
  - unguard_step.
    destruct v as [| | | | | | |l| | | | | | | |]; try reflexivity.
    destruct l as [|h1 l]; [reflexivity|]. destruct h1; try reflexivity.
    destruct l as [|h2 l]; try reflexivity.
    destruct l as [|h3 l]; [|reflexivity].
    destruct (String.eqb name "_create_row").
    + destruct h2 as [| | | | | | |l2| | | | | | | |]; try reflexivity.
      destruct l2 as [|f l2]; [reflexivity|]. destruct l2 as [|vt l2]; [reflexivity|].
      destruct vt as [| | | | | | |vs| | | | | | | |]; try reflexivity.
      destruct l2; [|reflexivity].
      pose proof (IH f) as IHf. unguard_step.
      pose proof (Heach vs) as IHvs. unguard_step.
      match goal with |- match ?x with _ => _ end = _ => destruct x; try reflexivity end.
      cbn [andb] in *. destruct (no_top_dec l); cbn [negb] in *; [reflexivity | ood_absurd].
    + destruct (String.eqb name "copyreg._reconstructor"); [|reflexivity].
      destruct h2 as [| | | | | | | | | |fl0 vl0| | | | |]; try reflexivity. destruct fl0; [reflexivity|].
      pose proof (Heach vl0) as IHvl. unguard_step. reflexivity.
Qed.

Lemma run_unguard M n : forall s,
  is_ood (run true M n s) = false -> run false M n s = run true M n s.
Proof.
  induction s using sx_ind2; cbn [run]; intros Hne; try reflexivity;
    repeat match goal with
    | H : Forall _ ?l |- _ =>
        first [ assert (is_ood (runs_with (run true M n) l) = false ->
                        runs_with (run false M n) l = runs_with (run true M n) l)
                  by (clear - H; induction H as [|x t Hx _ IHt]; cbn; intros Hl; [reflexivity|];
                      unguard_step; unguard_step; reflexivity)
              | assert (is_ood (runkv_with (run true M n) l) = false ->
                        runkv_with (run false M n) l = runkv_with (run true M n) l)
                  by (clear - H; induction H as [|[k x] t Hx _ IHt]; cbn in *; intros Hl; [reflexivity|];
                      unguard_step; unguard_step; reflexivity) ];
        clear H
    end;
    repeat unguard_step; try reflexivity; try (apply H; exact Hne).
  - (* SNew *) destruct v0; try reflexivity. cbn [andb] in *.
    destruct (no_top_dec (map snd kv)); cbn [negb] in *; [reflexivity | ood_absurd].
  - (* SCall *) destruct v; try reflexivity. cbn [andb] in *.
    destruct (no_top_dec (as_list_val v0)); cbn [negb] in *; [reflexivity | ood_absurd].
  - (* SPickle *) apply unpickle_unguard. assumption.
  - auto.
  - auto.
Qed.

(* ------------------------------------------------------------------------------------------ *)
(** * The helpers *)

Record relc (C1 C2 : cmpm) : Prop := {
  rc_compare_vals : forall r a x y, c_compare_vals C1 r a x y = c_compare_vals C2 r a x y;
  rc_compare_rows : forall r a x y, c_compare_rows C1 r a x y = c_compare_rows C2 r a x y;
  rc_assert_rows_equal : forall r a x y, c_assert_rows_equal C1 r a x y = c_assert_rows_equal C2 r a x y;
  rc_compare_schemas : forall x y, c_compare_schemas C1 x y = c_compare_schemas C2 x y;
  rc_compare_structfields : forall x y, c_compare_structfields C1 x y = c_compare_structfields C2 x y;
  rc_compare_datatypes : forall x y, c_compare_datatypes C1 x y = c_compare_datatypes C2 x y;
  rc_assertSchemaEqual : forall x y, c_assertSchemaEqual C1 x y = c_assertSchemaEqual C2 x y;
  rc_assertDataFrameEqual : forall x y o r a,
      c_assertDataFrameEqual C1 x y o r a = c_assertDataFrameEqual C2 x y o r a
}.

Lemma relc_bottom : relc cmp_bottom cmp_bottom.
Proof. constructor; reflexivity. Qed.

Theorem tiec_rel (B1 B2 : cmpm -> cmpm) :
  (forall C1 C2, relc C1 C2 -> relc (B1 C1) (B2 C2)) -> forall n, relc (tiec B1 n) (tiec B2 n).
Proof. intros H n. induction n as [|k IH]; cbn; [apply relc_bottom | apply H, IH]. Qed.

(** the one place where the two Row sources differ: [float(x) if isinstance(x, Decimal) else x] is the
    identity on a sequence without Decimal elements *)
Lemma isinstance_dec x : py_isinstance x [TDec] = is_dec x.
Proof. destruct x; reflexivity. Qed.

Lemma mapM_dec_id (f : pyval -> res pyval) l :
  (forall x, is_dec x = false -> f x = Ok x) -> no_top_dec l = true -> mapM f l = Ok l.
Proof.
  intros Hf. induction l as [|x t IH]; cbn; [reflexivity|]. intros H.
  apply andb_prop in H as [Hx Ht]. rewrite Hf by (destruct (is_dec x); [discriminate|reflexivity]).
  cbn. rewrite (IH Ht). reflexivity.
Qed.

Lemma comp1_dec_id (f : pyval -> res pyval) it l :
  as_iter it = Ok l -> (forall x, is_dec x = false -> f x = Ok x) -> no_top_dec l = true ->
  comp1 f it = Ok (VList l).
Proof. intros Hi Hf Hd. unfold comp1. rewrite Hi. cbn. rewrite (mapM_dec_id f l Hf Hd). reflexivity. Qed.

Theorem script_equal (B1 B2 : rowm -> rowm) :
  (forall M1 M2, relp no_top_dec M1 M2 -> relp no_top_dec (B1 M1) (B2 M2)) ->
  forall n k s, is_ood (run true (tie B2 n) k s) = false ->
    run false (tie B1 n) k s = run false (tie B2 n) k s.
Proof.
  intros H n k s Hd.
  pose proof (script_equal_guarded B1 B2 H n k s) as E.
  rewrite (run_unguard _ _ _ Hd). rewrite <- E in Hd. rewrite (run_unguard _ _ _ Hd). exact E.
Qed.

(** helpers: both method-record transformers take the Row methods as a parameter *)
Theorem helpers_equal P (B1 B2 : rowm -> rowm) (K1 K2 : rowm -> cmpm -> cmpm) :
  (forall M1 M2, relp P M1 M2 -> relp P (B1 M1) (B2 M2)) ->
  (forall M1 M2 C1 C2, relp P M1 M2 -> relc C1 C2 -> relc (K1 M1 C1) (K2 M2 C2)) ->
  forall n m, relc (tiec (K1 (tie B1 n)) m) (tiec (K2 (tie B2 n)) m).
Proof. intros HB HK n m. apply tiec_rel. intros C1 C2 HC. apply HK; [apply tie_rel, HB | exact HC]. Qed.

(* ------------------------------------------------------------------------------------------ *)
(** * Congruence tactic used by the instantiation lemmas on the generated definitions *)

Lemma if_ext {A} (c : bool) (a1 a2 b1 b2 : A) : a1 = a2 -> b1 = b2 -> (if c then a1 else b1) = (if c then a2 else b2).
Proof. intros -> ->. reflexivity. Qed.
Lemma try_ext {A} (m1 m2 : res A) hs : m1 = m2 -> try_ m1 hs = try_ m2 hs.
Proof. intros ->. reflexivity. Qed.

Ltac cong_leaf R :=
  first
  [ reflexivity
  | apply (attr_fields_rel _ _ R) | apply (py_hasattr_fields_rel _ _ R) | apply (py_in_rel _ _ R)
  | apply (py_getitem_rel _ _ R) | apply (call_asDict_rel _ _ R) | apply (py_reprv_rel _ _ R)
  | apply (py_strv_rel _ _ R) | apply (py_format_rel _ _ R)
  | apply (r_asDict _ _ R) | apply (r_conv _ _ R) | apply (r_contains _ _ R) | apply (r_getitem _ _ R)
  | apply (r_getattr _ _ R) | apply (r_setattr _ _ R) | apply (r_reduce _ _ R) | apply (r_repr _ _ R)
  | (apply (r_new _ _ R); reflexivity)
  | (apply (r_create_row _ _ R); assumption)
  | (apply (r_call _ _ R); assumption) ].

Ltac cong_leafc RC :=
  first
  [ apply (rc_compare_vals _ _ RC) | apply (rc_compare_rows _ _ RC) | apply (rc_assert_rows_equal _ _ RC)
  | apply (rc_compare_schemas _ _ RC) | apply (rc_compare_structfields _ _ RC)
  | apply (rc_compare_datatypes _ _ RC) | apply (rc_assertSchemaEqual _ _ RC)
  | apply (rc_assertDataFrameEqual _ _ RC) ].

Ltac cong_struct :=
  first
  [ apply dict_zip_lazy_ext; intro
  | apply comp1_ext; intro | apply comp2_ext; intros ? ?
  | apply all1_ext; intro | apply all2_ext; intros ? ?
  | apply sorted_by_str_ext; intro
  | apply for2_ext; intros ? ? ? | apply for1_ext; intros ? ?
  | apply try_ext
  | apply if_ext
  | apply bind_ext; [| intro]
  | progress cbv zeta
  | rewrite !bind_ret_r
  | match goal with |- (let '(_, _) := ?p in _) = _ => destruct p end
  | match goal with |- match ?x with _ => _ end = match ?x with _ => _ end => destruct x end ].

(** only when nothing structural applies: the two sides test the same thing in different words *)
Ltac cong_stuck :=
  first
  [ progress unfold py_not
  | progress cbn [negb andb orb]
  | match goal with |- context [py_truth ?t] => is_var t; destruct (py_truth t) eqn:? end
  | progress (unfold py_isinstance; cbn [existsb])
  | match goal with |- context [isinst1 ?v ?t] => destruct (isinst1 v t) eqn:? end
  | match goal with |- context [is_none ?v] => destruct (is_none v) eqn:? end ].

Ltac cong R := repeat first [ cong_leaf R | cong_struct | cong_stuck ].
Ltac congc R RC := repeat first [ cong_leaf R | cong_leafc RC | cong_struct | cong_stuck ].

Theorem script_equal_dom (B1 B2 : rowm -> rowm) :
  (forall M1 M2, relp no_top_dec M1 M2 -> relp no_top_dec (B1 M1) (B2 M2)) ->
  forall n k s, negb (is_ood (run true (tie B2 n) k s)) = true ->
    run false (tie B1 n) k s = run false (tie B2 n) k s.
Proof.
  intros H n k s Hd. apply (script_equal B1 B2 H).
  destruct (is_ood _); [discriminate Hd | reflexivity].
Qed.
