(** C19 -- the shared Python vocabulary: values, exceptions, and the meaning of the CPython primitives
    that [Row] and the assertion helpers call.  Both translations (sqlframe's source and PySpark's source)
    target exactly these definitions, so a theorem "sf = ps" says: the two sources are the same function
    of the primitives they call.  Whether these definitions describe CPython is NOT proved; it is tied by
    the correspondence run (T3: real classes vs these definitions evaluated by vm_compute).

    Floats are IEEE-754 binary64 ([PrimFloat], the same arithmetic as CPython's float); a float value
    carries CPython's [repr] text because shortest-round-trip printing is environment.  *)
From Coq Require Import ZArith String List Bool Ascii PrimFloat Uint63 DecimalString Lia.
Import ListNotations.
Open Scope string_scope.

(* ------------------------------------------------------------------------------------------ *)
(** * Exceptions and the result monad *)

Inductive exn :=
| EAttr | EKey | EIndex | EValue | EType | ERuntime
| ELib            (* the library's own Row error: sqlframe RowError / PySparkValueError, PySparkTypeError *)
| EArg            (* assert helper: bad argument *)
| ERowsDiffer | ESchemaDiffer
| ERecursion.     (* fuel exhausted = CPython RecursionError *)

Definition exn_eqb (a b : exn) : bool :=
  match a, b with
  | EAttr, EAttr | EKey, EKey | EIndex, EIndex | EValue, EValue | EType, EType | ERuntime, ERuntime
  | ELib, ELib | EArg, EArg | ERowsDiffer, ERowsDiffer | ESchemaDiffer, ESchemaDiffer
  | ERecursion, ERecursion => true
  | _, _ => false
  end.

Inductive res (A : Type) := Ok (a : A) | Raise (e : exn).
Arguments Ok {A} a.
Arguments Raise {A} e.

Definition bind {A B} (m : res A) (k : A -> res B) : res B :=
  match m with Ok a => k a | Raise e => Raise e end.
Notation "x <- m ;; k" := (bind m (fun x => k)) (at level 61, m at next level, right associativity).

(** try/except: handlers are tried in order *)
Fixpoint handle {A} (hs : list (exn * res A)) (e : exn) : res A :=
  match hs with
  | [] => Raise e
  | (e', r) :: hs' => if exn_eqb e e' then r else handle hs' e
  end.
Definition try_ {A} (m : res A) (hs : list (exn * res A)) : res A :=
  match m with Ok a => Ok a | Raise e => handle hs e end.

Fixpoint mapM {A B} (f : A -> res B) (l : list A) : res (list B) :=
  match l with
  | [] => Ok []
  | x :: t => y <- f x ;; ys <- mapM f t ;; Ok (y :: ys)
  end.

(* ------------------------------------------------------------------------------------------ *)
(** * Values *)

Inductive pyval :=
| VNone
| VBool (b : bool)
| VInt (z : Z)
| VFloat (f : float) (r : string)                 (* r = repr(f) as CPython prints it ("" if computed) *)
| VDec (r : string) (f : float) (fr : string)     (* decimal.Decimal: repr text, float(x), repr(float(x)) *)
| VStr (s : string)
| VList (l : list pyval)
| VTuple (l : list pyval)
| VDict (kv : list (pyval * pyval))               (* insertion order *)
| VKeys (l : list pyval)                          (* dict.keys() view *)
| VRow (flds : option pyval) (vals : list pyval)  (* Row: instance __dict__ has at most __fields__ *)
| VSlice (lo hi : option Z)
| VFunc (name : string)
| VType (name : string) (args : list pyval)       (* DataType: typeName(); array: [elementType]; struct: fields *)
| VField (name : string) (dt : pyval)             (* StructField (nullable not observed by the helpers) *)
| VDF (schema : pyval) (rows : list pyval).       (* a DataFrame as the helpers see it: .schema, .collect() *)

Inductive pyty := TList | TDict | TRow | TFloat | TInt | TSlice | TDec | TStruct | TTuple | TStr.

Definition isinst1 (v : pyval) (t : pyty) : bool :=
  match t, v with
  | TList, VList _ => true
  | TDict, VDict _ => true
  | TRow, VRow _ _ => true
  | TTuple, VTuple _ | TTuple, VRow _ _ => true
  | TFloat, VFloat _ _ => true
  | TInt, VInt _ | TInt, VBool _ => true
  | TSlice, VSlice _ _ => true
  | TDec, VDec _ _ _ => true
  | TStruct, VType "struct" _ => true
  | TStr, VStr _ => true
  | _, _ => false
  end.
Definition py_isinstance (v : pyval) (ts : list pyty) : bool := existsb (isinst1 v) ts.

Definition is_none (v : pyval) : bool := match v with VNone => true | _ => false end.
Definition is_dec (v : pyval) : bool := match v with VDec _ _ _ => true | _ => false end.

(* ------------------------------------------------------------------------------------------ *)
(** * Numbers *)

Definition Z2f (z : Z) : float :=
  if (z <? 0)%Z then PrimFloat.opp (PrimFloat.of_uint63 (Uint63.of_Z (- z)))
  else PrimFloat.of_uint63 (Uint63.of_Z z).

Inductive num := NZ (z : Z) | NF (f : float).
Definition as_num (v : pyval) : option num :=
  match v with
  | VBool b => Some (NZ (if b then 1 else 0)%Z)
  | VInt z => Some (NZ z)
  | VFloat f _ => Some (NF f)
  | VDec _ f _ => Some (NF f)
  | _ => None
  end.
Definition num_f (n : num) : float := match n with NZ z => Z2f z | NF f => f end.
Definition num_eqb (a b : num) : bool :=
  match a, b with
  | NZ x, NZ y => Z.eqb x y
  | _, _ => PrimFloat.eqb (num_f a) (num_f b)
  end.
Definition num_ltb (a b : num) : bool :=
  match a, b with
  | NZ x, NZ y => Z.ltb x y
  | _, _ => PrimFloat.ltb (num_f a) (num_f b)
  end.

(** arithmetic: Decimal mixed with float raises TypeError in CPython; Decimal is not an operand here *)
Definition arith_num (v : pyval) : option num :=
  match v with VDec _ _ _ => None | _ => as_num v end.
Definition of_num (n : num) : pyval := match n with NZ z => VInt z | NF f => VFloat f "" end.
Definition py_arith (fz : Z -> Z -> Z) (ff : float -> float -> float) (a b : pyval) : res pyval :=
  match arith_num a, arith_num b with
  | Some (NZ x), Some (NZ y) => Ok (VInt (fz x y))
  | Some x, Some y => Ok (VFloat (ff (num_f x) (num_f y)) "")
  | _, _ => Raise EType
  end.
Definition py_add := py_arith Z.add PrimFloat.add.
Definition py_sub := py_arith Z.sub PrimFloat.sub.
Definition py_mul := py_arith Z.mul PrimFloat.mul.
Definition py_abs (a : pyval) : res pyval :=
  match a with
  | VDec r f fr => Ok (VDec r (PrimFloat.abs f) fr)
  | _ => match as_num a with
         | Some (NZ x) => Ok (VInt (Z.abs x))
         | Some (NF f) => Ok (VFloat (PrimFloat.abs f) "")
         | None => Raise EType
         end
  end.
Definition py_float (a : pyval) : res pyval :=
  match a with
  | VDec _ f fr => Ok (VFloat f fr)
  | VFloat f r => Ok (VFloat f r)
  | _ => match as_num a with Some n => Ok (VFloat (num_f n) "") | None => Raise EType end
  end.

(* ------------------------------------------------------------------------------------------ *)
(** * Equality ([==]) and ordering ([<]) as CPython defines them on these values *)

Definition opt_eqb {A} (f : A -> A -> bool) (a b : option A) : bool :=
  match a, b with Some x, Some y => f x y | None, None => true | _, _ => false end.

(** keys of dicts are atoms (str / int / bool / None) in the modelled universe *)
Definition atom_eqb (a b : pyval) : bool :=
  match as_num a, as_num b with
  | Some x, Some y => num_eqb x y
  | _, _ => match a, b with
            | VNone, VNone => true
            | VStr s, VStr t => String.eqb s t
            | _, _ => false
            end
  end.

Fixpoint assoc (k : pyval) (kv : list (pyval * pyval)) : option pyval :=
  match kv with
  | [] => None
  | (k', v) :: t => if atom_eqb k k' then Some v else assoc k t
  end.

Fixpoint py_eqb (a b : pyval) {struct a} : bool :=
  let fix eql (la lb : list pyval) {struct la} : bool :=
    match la, lb with
    | [], [] => true
    | x :: ta, y :: tb => py_eqb x y && eql ta tb
    | _, _ => false
    end in
  let fix sub (la : list (pyval * pyval)) (lb : list (pyval * pyval)) {struct la} : bool :=
    match la with
    | [] => true
    | (k, v) :: ta => match assoc k lb with Some w => py_eqb v w | None => false end && sub ta lb
    end in
  match as_num a, as_num b with
  | Some x, Some y => num_eqb x y
  | _, _ =>
    match a, b with
    | VNone, VNone => true
    | VStr s, VStr t => String.eqb s t
    | VList la, VList lb => eql la lb
    | VTuple la, VTuple lb | VTuple la, VRow _ lb | VRow _ la, VTuple lb | VRow _ la, VRow _ lb => eql la lb
    | VDict ka, VDict kb => Nat.eqb (length ka) (length kb) && sub ka kb
    | VKeys la, VKeys lb =>
        Nat.eqb (length la) (length lb) && forallb (fun k => existsb (atom_eqb k) lb) la
    | VSlice a1 a2, VSlice b1 b2 => opt_eqb Z.eqb a1 b1 && opt_eqb Z.eqb a2 b2
    | VFunc s, VFunc t => String.eqb s t
    | _, _ => false
    end
  end.

Definition py_eq (a b : pyval) : pyval := VBool (py_eqb a b).
Definition py_ne (a b : pyval) : pyval := VBool (negb (py_eqb a b)).

(** [a < b]: numbers, strings, and sequences of the same kind lexicographically (first differing element) *)
Fixpoint py_lt (a b : pyval) {struct a} : res bool :=
  let fix ltl (la lb : list pyval) {struct la} : res bool :=
    match la, lb with
    | [], [] => Ok false
    | [], _ :: _ => Ok true
    | _ :: _, [] => Ok false
    | x :: ta, y :: tb => if py_eqb x y then ltl ta tb else py_lt x y
    end in
  match as_num a, as_num b with
  | Some x, Some y => Ok (num_ltb x y)
  | _, _ =>
    match a, b with
    | VStr s, VStr t => Ok (String.ltb s t)
    | VList la, VList lb => ltl la lb
    | VTuple la, VTuple lb | VTuple la, VRow _ lb | VRow _ la, VTuple lb | VRow _ la, VRow _ lb => ltl la lb
    | _, _ => Raise EType
    end
  end.

(** [a <= b] on numbers and strings (NaN-aware: not the negation of [b < a]) *)
Definition num_leb (a b : num) : bool :=
  match a, b with
  | NZ x, NZ y => Z.leb x y
  | _, _ => PrimFloat.leb (num_f a) (num_f b)
  end.
Definition py_le (a b : pyval) : res pyval :=
  match as_num a, as_num b with
  | Some x, Some y => Ok (VBool (num_leb x y))
  | _, _ => match a, b with
            | VStr s, VStr t => Ok (VBool (negb (String.ltb t s)))
            | _, _ => Raise EType
            end
  end.
Definition py_ge (a b : pyval) : res pyval := py_le b a.
Definition py_gt (a b : pyval) : res pyval := r <- py_lt b a ;; Ok (VBool r).
Definition py_ltv (a b : pyval) : res pyval := r <- py_lt a b ;; Ok (VBool r).

Definition py_truth (v : pyval) : bool :=
  match v with
  | VNone => false
  | VBool b => b
  | VInt z => negb (Z.eqb z 0)
  | VFloat f _ => negb (PrimFloat.eqb f 0)
  | VDec _ f _ => negb (PrimFloat.eqb f 0)
  | VStr s => negb (String.eqb s "")
  | VList l | VTuple l | VKeys l | VRow _ l => negb (Nat.eqb (length l) 0)
  | VDict kv => negb (Nat.eqb (length kv) 0)
  | _ => true
  end.
Definition py_not (v : pyval) : pyval := VBool (negb (py_truth v)).

(** hashable: no list / dict inside (tuple hash is structural) *)
Fixpoint py_hashable (v : pyval) : bool :=
  match v with
  | VList _ | VDict _ | VKeys _ | VSlice _ _ => false
  | VTuple l | VRow _ l => forallb py_hashable l
  | _ => true
  end.

(* ------------------------------------------------------------------------------------------ *)
(** * Iteration, sequences, dicts *)

Fixpoint str_chars (s : string) : list pyval :=
  match s with EmptyString => [] | String c t => VStr (String c EmptyString) :: str_chars t end.

(** what [iter(v)] yields *)
Definition as_iter (v : pyval) : res (list pyval) :=
  match v with
  | VList l | VTuple l | VKeys l | VRow _ l => Ok l
  | VStr s => Ok (str_chars s)
  | VDict kv => Ok (map fst kv)
  | VType "struct" fs => Ok fs
  | _ => Raise EType
  end.

Definition py_len (v : pyval) : res pyval :=
  match v with
  | VStr s => Ok (VInt (Z.of_nat (String.length s)))
  | VDict kv => Ok (VInt (Z.of_nat (length kv)))
  | _ => l <- as_iter v ;; Ok (VInt (Z.of_nat (length l)))
  end.

Definition py_list (v : pyval) : res pyval := l <- as_iter v ;; Ok (VList l).
Definition py_tuple (v : pyval) : res pyval := l <- as_iter v ;; Ok (VTuple l).

(** [tuple.__new__(cls, iterable)] with cls = Row: a Row without instance attributes *)
Definition tuple_new_row (v : pyval) : res pyval := l <- as_iter v ;; Ok (VRow None l).

Definition py_zip (a b : pyval) : res pyval :=
  la <- as_iter a ;; lb <- as_iter b ;;
  Ok (VList (map (fun p => VTuple [fst p; snd p]) (combine la lb))).

Fixpoint zip_longest_l (la lb : list pyval) : list pyval :=
  match la, lb with
  | [], [] => []
  | x :: ta, [] => VTuple [x; VNone] :: zip_longest_l ta []
  | [], y :: tb => VTuple [VNone; y] :: (fix rest (l : list pyval) := match l with [] => [] | z :: t => VTuple [VNone; z] :: rest t end) tb
  | x :: ta, y :: tb => VTuple [x; y] :: zip_longest_l ta tb
  end.
Definition py_zip_longest (a b : pyval) : res pyval :=
  la <- as_iter a ;; lb <- as_iter b ;; Ok (VList (zip_longest_l la lb)).

Definition dict_values (d : pyval) : res pyval :=
  match d with VDict kv => Ok (VList (map snd kv)) | _ => Raise EAttr end.
Definition dict_keys (d : pyval) : res pyval :=
  match d with VDict kv => Ok (VKeys (map fst kv)) | _ => Raise EAttr end.
Definition dict_items (d : pyval) : res pyval :=
  match d with VDict kv => Ok (VList (map (fun p => VTuple [fst p; snd p]) kv)) | _ => Raise EAttr end.

(** [dict(iterable of pairs)]: later duplicates overwrite the value, the key keeps its first position *)
Fixpoint dict_set (kv : list (pyval * pyval)) (k v : pyval) : list (pyval * pyval) :=
  match kv with
  | [] => [(k, v)]
  | (k', v') :: t => if atom_eqb k k' then (k', v) :: t else (k', v') :: dict_set t k v
  end.
Definition py_dict (v : pyval) : res pyval :=
  l <- as_iter v ;;
  kv <- fold_left (fun acc p => a <- acc ;;
                     match p with
                     | VTuple [k; x] => if py_hashable k then Ok (dict_set a k x) else Raise EType
                     | _ => Raise EType
                     end) l (Ok []) ;;
  Ok (VDict kv).

(** [dict(zip(a, (f(o) for o in b)))]: the generator is consumed lazily by zip, one pair at a time -- the key is
    taken from [a], then [f] runs on the next element of [b], then the pair is inserted (hashing the key).  So an
    unhashable key at position i raises before [f] is run on the elements after i. *)
Fixpoint dict_zip_lazy_l (f : pyval -> res pyval) (ks vs : list pyval) (acc : list (pyval * pyval))
  : res (list (pyval * pyval)) :=
  match ks, vs with
  | k :: ks', v :: vs' =>
      x <- f v ;;
      if py_hashable k then dict_zip_lazy_l f ks' vs' (dict_set acc k x) else Raise EType
  | _, _ => Ok acc
  end.
Definition dict_zip_lazy (f : pyval -> res pyval) (a b : pyval) : res pyval :=
  vs <- as_iter b ;; ks <- as_iter a ;; kv <- dict_zip_lazy_l f ks vs [] ;; Ok (VDict kv).


Fixpoint index_of (l : list pyval) (x : pyval) (i : Z) : option Z :=
  match l with
  | [] => None
  | y :: t => if py_eqb y x then Some i else index_of t x (i + 1)%Z
  end.
(** [seq.index(item)] for list / tuple (a Row is a tuple) *)
Definition py_index (s item : pyval) : res pyval :=
  match s with
  | VList l | VTuple l | VRow _ l =>
      match index_of l item 0 with Some i => Ok (VInt i) | None => Raise EValue end
  | _ => Raise EAttr
  end.

Definition norm_idx (n i : Z) : Z := if (i <? 0)%Z then (n + i)%Z else i.
Definition clamp (n i : Z) : Z := Z.max 0 (Z.min n (norm_idx n i)).
Definition slice_l (l : list pyval) (lo hi : option Z) : list pyval :=
  let n := Z.of_nat (length l) in
  let a := match lo with Some x => clamp n x | None => 0%Z end in
  let b := match hi with Some x => clamp n x | None => n end in
  firstn (Z.to_nat (b - a)) (skipn (Z.to_nat a) l).
Definition seq_getitem (l : list pyval) (item : pyval) (mk : list pyval -> pyval) : res pyval :=
  match item with
  | VSlice lo hi => Ok (mk (slice_l l lo hi))
  | _ =>
    match item, as_num item with
    | VFloat _ _, _ | VDec _ _ _, _ => Raise EType
    | _, Some (NZ i) =>
        let n := Z.of_nat (length l) in
        let j := norm_idx n i in
        if ((0 <=? j) && (j <? n))%Z then
          match nth_error l (Z.to_nat j) with Some x => Ok x | None => Raise EIndex end
        else Raise EIndex
    | _, _ => Raise EType
    end
  end.
(** [tuple.__getitem__(self, item)]: a slice of a Row is a plain tuple *)
Definition tuple_getitem (self item : pyval) : res pyval :=
  match self with
  | VTuple l | VRow _ l => seq_getitem l item VTuple
  | _ => Raise EType
  end.
Definition tuple_contains (self item : pyval) : res pyval :=
  match self with
  | VTuple l | VRow _ l => Ok (VBool (existsb (fun y => py_eqb y item) l))
  | _ => Raise EType
  end.
(** pickling a tuple subclass without state rebuilds the same value *)
Definition tuple_reduce (self : pyval) : res pyval := Ok (VTuple [VFunc "copyreg._reconstructor"; self]).

(** generic [v[k]] on builtin containers *)
Definition builtin_getitem (v k : pyval) : res pyval :=
  match v with
  | VDict kv => match assoc k kv with Some x => Ok x | None => Raise EKey end
  | VList l => seq_getitem l k VList
  | VTuple l => seq_getitem l k VTuple
  | _ => Raise EType
  end.

(** instance attribute [__fields__] of a Row ([self.__dict__]) *)
Definition has_fields (v : pyval) : bool := match v with VRow (Some _) _ => true | _ => false end.
Definition inst_fields (v : pyval) : option pyval := match v with VRow f _ => f | _ => None end.
(** [self.__dict__[key] = value] *)
Definition set_inst_dict (self key value : pyval) : res pyval :=
  match self, key with
  | VRow _ l, VStr "__fields__" => Ok (VRow (Some value) l)
  | _, _ => Raise EType
  end.

Definition str_startswith (s p : pyval) : res pyval :=
  match s, p with
  | VStr a, VStr b => Ok (VBool (String.prefix b a))
  | _, _ => Raise EAttr
  end.

(* ------------------------------------------------------------------------------------------ *)
(** * repr / str / % formatting *)

Definition Z2s (z : Z) : string := NilZero.string_of_int (Z.to_int z).

Fixpoint str_has (c : ascii) (s : string) : bool :=
  match s with EmptyString => false | String d t => Ascii.eqb c d || str_has c t end.
Fixpoint str_esc (q : ascii) (s : string) : string :=
  match s with
  | EmptyString => EmptyString
  | String c t =>
      if Ascii.eqb c "\"%char then String "\"%char (String "\"%char (str_esc q t))
      else if Ascii.eqb c q then String "\"%char (String c (str_esc q t))
      else String c (str_esc q t)
  end.
(** CPython's repr of an ASCII-printable str *)
Definition str_repr (s : string) : string :=
  let sq := "'"%char in
  let dq := """"%char in
  if str_has sq s && negb (str_has dq s) then String dq (str_esc dq s ++ String dq EmptyString)
  else String sq (str_esc sq s ++ String sq EmptyString).

Fixpoint join (sep : string) (l : list string) : string :=
  match l with
  | [] => ""
  | [x] => x
  | x :: t => x ++ sep ++ join sep t
  end.

Definition opt_repr (o : option Z) : string := match o with Some z => Z2s z | None => "None" end.

(** [rr] is Row.__repr__ as the implementation under consideration defines it (dynamic dispatch) *)
Fixpoint py_repr (rr : pyval -> res pyval) (v : pyval) {struct v} : res string :=
  let fix reprs (l : list pyval) {struct l} : res (list string) :=
    match l with
    | [] => Ok []
    | x :: t => s <- py_repr rr x ;; ss <- reprs t ;; Ok (s :: ss)
    end in
  let fix reprkv (l : list (pyval * pyval)) {struct l} : res (list string) :=
    match l with
    | [] => Ok []
    | (k, x) :: t => a <- py_repr rr k ;; b <- py_repr rr x ;; ss <- reprkv t ;; Ok ((a ++ ": " ++ b) :: ss)
    end in
  match v with
  | VNone => Ok "None"
  | VBool b => Ok (if b then "True" else "False")
  | VInt z => Ok (Z2s z)
  | VFloat _ r => Ok r
  | VDec r _ _ => Ok r
  | VStr s => Ok (str_repr s)
  | VList l => ss <- reprs l ;; Ok ("[" ++ join ", " ss ++ "]")
  | VTuple l => ss <- reprs l ;;
      Ok (match ss with [x] => "(" ++ x ++ ",)" | _ => "(" ++ join ", " ss ++ ")" end)
  | VDict kv => ss <- reprkv kv ;; Ok ("{" ++ join ", " ss ++ "}")
  | VKeys l => ss <- reprs l ;; Ok ("dict_keys([" ++ join ", " ss ++ "])")
  | VRow _ _ => r <- rr v ;; match r with VStr s => Ok s | _ => Raise EType end
  | VSlice lo hi => Ok ("slice(" ++ opt_repr lo ++ ", " ++ opt_repr hi ++ ", None)")
  | VFunc n => Ok ("<function " ++ n ++ ">")
  | VType n _ => Ok ("<type " ++ n ++ ">")
  | VField n _ => Ok ("<field " ++ n ++ ">")
  | VDF _ _ => Ok "<DataFrame>"
  end.

Definition py_reprv (rr : pyval -> res pyval) (v : pyval) : res pyval := s <- py_repr rr v ;; Ok (VStr s).
(** str(Decimal('1.5')) = "1.5": the repr text without its Decimal('...') wrapper *)
Definition dec_str (r : string) : string := String.substring 9 (String.length r - 11) r.
Definition py_str (rr : pyval -> res pyval) (v : pyval) : res string :=
  match v with VStr s => Ok s | VDec r _ _ => Ok (dec_str r) | _ => py_repr rr v end.
Definition py_strv (rr : pyval -> res pyval) (v : pyval) : res pyval := s <- py_str rr v ;; Ok (VStr s).

(** ["fmt" % args] with %s and %r only; [pct] = the previous character was an unconsumed '%' *)
Fixpoint fmt_go (rr : pyval -> res pyval) (fmt : string) (pct : bool) (args : list pyval) {struct fmt}
  : res string :=
  match fmt with
  | EmptyString => if pct then Raise EValue else match args with [] => Ok "" | _ => Raise EType end
  | String c t =>
      if pct then
        if Ascii.eqb c "%"%char then r <- fmt_go rr t false args ;; Ok (String "%"%char r)
        else match args with
             | [] => Raise EType
             | a :: rest =>
                 s <- (if Ascii.eqb c "s"%char then py_str rr a
                       else if Ascii.eqb c "r"%char then py_repr rr a else Raise EValue) ;;
                 r <- fmt_go rr t false rest ;; Ok (s ++ r)
             end
      else if Ascii.eqb c "%"%char then fmt_go rr t true args
      else r <- fmt_go rr t false args ;; Ok (String c r)
  end.
Definition py_format (rr : pyval -> res pyval) (fmt args : pyval) : res pyval :=
  match fmt with
  | VStr f =>
      s <- fmt_go rr f false (match args with VTuple l => l | VRow _ l => l | x => [x] end) ;; Ok (VStr s)
  | _ => Raise EType
  end.

Definition py_join (sep it : pyval) : res pyval :=
  match sep with
  | VStr s =>
      l <- as_iter it ;;
      ss <- mapM (fun x => match x with VStr t => Ok t | _ => Raise EType end) l ;;
      Ok (VStr (join s ss))
  | _ => Raise EAttr
  end.

(* ------------------------------------------------------------------------------------------ *)
(** * Comprehensions, all(), sorted() *)

Definition unpack2 (v : pyval) : res (pyval * pyval) :=
  match v with
  | VTuple [a; b] | VRow _ [a; b] | VList [a; b] => Ok (a, b)
  | VTuple _ | VRow _ _ | VList _ => Raise EValue
  | _ => Raise EType
  end.

(** [[f(x) for x in it]] (also used for generator expressions that are consumed entirely) *)
Definition comp1 (f : pyval -> res pyval) (it : pyval) : res pyval :=
  l <- as_iter it ;; r <- mapM f l ;; Ok (VList r).
Definition comp2 (f : pyval -> pyval -> res pyval) (it : pyval) : res pyval :=
  l <- as_iter it ;; r <- mapM (fun p => ab <- unpack2 p ;; f (fst ab) (snd ab)) l ;; Ok (VList r).

(** [all(f(x) for x in it)]: lazy, stops at the first falsy element *)
Fixpoint all_l (f : pyval -> res pyval) (l : list pyval) : res pyval :=
  match l with
  | [] => Ok (VBool true)
  | x :: t => b <- f x ;; if py_truth b then all_l f t else Ok (VBool false)
  end.
Definition all1 (f : pyval -> res pyval) (it : pyval) : res pyval := l <- as_iter it ;; all_l f l.
Definition all2 (f : pyval -> pyval -> res pyval) (it : pyval) : res pyval :=
  l <- as_iter it ;; all_l (fun p => ab <- unpack2 p ;; f (fst ab) (snd ab)) l.
Definition any_l (f : pyval -> res pyval) (l : list pyval) : res pyval :=
  b <- all_l (fun x => y <- f x ;; Ok (py_not y)) l ;; Ok (py_not b).

(** a [for a, b in it:] loop over a state [S]; the body may finish the function early ([inr]) *)
Fixpoint for2 {S} (body : S -> pyval -> pyval -> res (S + pyval)) (l : list pyval) (s : S) : res (S + pyval) :=
  match l with
  | [] => Ok (inl s)
  | p :: t =>
      ab <- unpack2 p ;;
      r <- body s (fst ab) (snd ab) ;;
      match r with inl s' => for2 body t s' | inr v => Ok (inr v) end
  end.
Fixpoint for1 {S} (body : S -> pyval -> res (S + pyval)) (l : list pyval) (s : S) : res (S + pyval) :=
  match l with
  | [] => Ok (inl s)
  | x :: t =>
      r <- body s x ;;
      match r with inl s' => for1 body t s' | inr v => Ok (inr v) end
  end.

(** [sorted(l, key=k)] with string keys: stable insertion sort by code-point order *)
Fixpoint ins_sorted (k : string) (x : pyval) (l : list (string * pyval)) : list (string * pyval) :=
  match l with
  | [] => [(k, x)]
  | (k', y) :: t => if String.ltb k k' then (k, x) :: l else (k', y) :: ins_sorted k x t
  end.
Definition sorted_by_str (key : pyval -> res pyval) (it : pyval) : res pyval :=
  l <- as_iter it ;;
  ks <- mapM (fun x => k <- key x ;; match k with VStr s => Ok (s, x) | _ => Raise EType end) l ;;
  Ok (VList (map snd (fold_left (fun acc p => ins_sorted (fst p) (snd p) acc) ks []))).

(* ------------------------------------------------------------------------------------------ *)
(** * DataType / DataFrame attributes the helpers read *)

Definition type_name (v : pyval) : res pyval :=
  match v with VType n _ => Ok (VStr n) | _ => Raise EAttr end.
Definition element_type (v : pyval) : res pyval :=
  match v with VType "array" [e] => Ok e | _ => Raise EAttr end.
Definition field_name (v : pyval) : res pyval :=
  match v with VField n _ => Ok (VStr n) | _ => Raise EAttr end.
Definition field_type (v : pyval) : res pyval :=
  match v with VField _ d => Ok d | _ => Raise EAttr end.
Definition df_schema (v : pyval) : res pyval :=
  match v with VDF s _ => Ok s | _ => Raise EAttr end.
Definition df_collect (v : pyval) : res pyval :=
  match v with VDF _ r => Ok (VList r) | _ => Raise EAttr end.

(* ------------------------------------------------------------------------------------------ *)
(** * Extensionality of the higher-order primitives (no functional-extensionality axiom is used) *)

Lemma bind_ext {A B} (m1 m2 : res A) (k1 k2 : A -> res B) :
  m1 = m2 -> (forall x, k1 x = k2 x) -> bind m1 k1 = bind m2 k2.
Proof. intros Hm Hk. subst m2. destruct m1 as [a|e]; cbn; [apply Hk | reflexivity]. Qed.

Lemma bind_ret_r {A} (m : res A) : bind m (fun x => Ok x) = m.
Proof. destruct m; reflexivity. Qed.

Lemma mapM_ext {A B} (f g : A -> res B) (l : list A) :
  (forall x, f x = g x) -> mapM f l = mapM g l.
Proof.
  intros H. induction l as [|x t IH]; cbn; [reflexivity|].
  rewrite H, IH. reflexivity.
Qed.

Lemma dict_zip_lazy_ext f g a b : (forall x, f x = g x) -> dict_zip_lazy f a b = dict_zip_lazy g a b.
Proof.
  intros H. unfold dict_zip_lazy. apply bind_ext; [reflexivity|]. intros vs.
  apply bind_ext; [reflexivity|]. intros ks.
  assert (E : forall acc, dict_zip_lazy_l f ks vs acc = dict_zip_lazy_l g ks vs acc).
  { revert vs. induction ks as [|k ks IH]; intros vs acc; [reflexivity|].
    destruct vs as [|v vs]; [reflexivity|]. cbn. rewrite H.
    apply bind_ext; [reflexivity|]. intros x. destruct (py_hashable k); [apply IH | reflexivity]. }
  rewrite E. reflexivity.
Qed.

Lemma comp1_ext f g it : (forall x, f x = g x) -> comp1 f it = comp1 g it.
Proof. intros H. unfold comp1. apply bind_ext; [reflexivity|]. intros l. rewrite (mapM_ext f g l H). reflexivity. Qed.

Lemma comp2_ext f g it : (forall x y, f x y = g x y) -> comp2 f it = comp2 g it.
Proof.
  intros H. unfold comp2. apply bind_ext; [reflexivity|]. intros l.
  rewrite (mapM_ext _ (fun p => ab <- unpack2 p ;; g (fst ab) (snd ab)) l); [reflexivity|].
  intros p. apply bind_ext; [reflexivity|]. intros ab. apply H.
Qed.

Lemma all_l_ext f g l : (forall x, f x = g x) -> all_l f l = all_l g l.
Proof.
  intros H. induction l as [|x t IH]; cbn; [reflexivity|].
  rewrite H. apply bind_ext; [reflexivity|]. intros b. destruct (py_truth b); [apply IH|reflexivity].
Qed.

Lemma all1_ext f g it : (forall x, f x = g x) -> all1 f it = all1 g it.
Proof. intros H. unfold all1. apply bind_ext; [reflexivity|]. intros l. apply all_l_ext, H. Qed.

Lemma all2_ext f g it : (forall x y, f x y = g x y) -> all2 f it = all2 g it.
Proof.
  intros H. unfold all2. apply bind_ext; [reflexivity|]. intros l. apply all_l_ext.
  intros p. apply bind_ext; [reflexivity|]. intros ab. apply H.
Qed.

Lemma for2_ext {S} (f g : S -> pyval -> pyval -> res (S + pyval)) l s :
  (forall s x y, f s x y = g s x y) -> for2 f l s = for2 g l s.
Proof.
  intros H. revert s. induction l as [|p t IH]; intros s; cbn; [reflexivity|].
  apply bind_ext; [reflexivity|]. intros ab. rewrite H.
  apply bind_ext; [reflexivity|]. intros [s'|v]; [apply IH|reflexivity].
Qed.

Lemma for1_ext {S} (f g : S -> pyval -> res (S + pyval)) l s :
  (forall s x, f s x = g s x) -> for1 f l s = for1 g l s.
Proof.
  intros H. revert s. induction l as [|p t IH]; intros s; cbn; [reflexivity|].
  rewrite H. apply bind_ext; [reflexivity|]. intros [s'|v]; [apply IH|reflexivity].
Qed.

Lemma sorted_by_str_ext f g it : (forall x, f x = g x) -> sorted_by_str f it = sorted_by_str g it.
Proof.
  intros H. unfold sorted_by_str. apply bind_ext; [reflexivity|]. intros l.
  rewrite (mapM_ext _ (fun x => k <- g x ;; match k with VStr s => Ok (s, x) | _ => Raise EType end) l);
    [reflexivity|].
  intros x. rewrite H. reflexivity.
Qed.

Lemma py_repr_ext rr1 rr2 : (forall x, rr1 x = rr2 x) -> forall v, py_repr rr1 v = py_repr rr2 v.
Proof.
  intros H.
  fix IH 1. intros v.
  destruct v as [| | | | | |l|l|kv|l| | | | | |]; cbn; try reflexivity.
  - apply bind_ext; [|reflexivity].
    induction l as [|x t IHl]; [reflexivity|]. rewrite (IH x), IHl. reflexivity.
  - apply bind_ext; [|reflexivity].
    induction l as [|x t IHl]; [reflexivity|]. rewrite (IH x), IHl. reflexivity.
  - apply bind_ext; [|reflexivity].
    induction kv as [|[k x] t IHl]; [reflexivity|]. rewrite (IH k), (IH x), IHl. reflexivity.
  - apply bind_ext; [|reflexivity].
    induction l as [|x t IHl]; [reflexivity|]. rewrite (IH x), IHl. reflexivity.
  - rewrite H. reflexivity.
Qed.

Lemma py_reprv_ext rr1 rr2 v : (forall x, rr1 x = rr2 x) -> py_reprv rr1 v = py_reprv rr2 v.
Proof. intros H. unfold py_reprv. rewrite (py_repr_ext rr1 rr2 H). reflexivity. Qed.
Lemma py_str_ext rr1 rr2 v : (forall x, rr1 x = rr2 x) -> py_str rr1 v = py_str rr2 v.
Proof. intros H. unfold py_str. destruct v; try reflexivity; apply (py_repr_ext rr1 rr2 H). Qed.
Lemma py_strv_ext rr1 rr2 v : (forall x, rr1 x = rr2 x) -> py_strv rr1 v = py_strv rr2 v.
Proof. intros H. unfold py_strv. rewrite (py_str_ext rr1 rr2 v H). reflexivity. Qed.

Lemma fmt_go_ext rr1 rr2 : (forall x, rr1 x = rr2 x) ->
  forall f pct args, fmt_go rr1 f pct args = fmt_go rr2 f pct args.
Proof.
  intros H.
  assert (Hr : forall v, py_repr rr1 v = py_repr rr2 v) by (apply py_repr_ext, H).
  assert (Hs : forall v, py_str rr1 v = py_str rr2 v) by (intros v; apply py_str_ext, H).
  induction f as [|c t IH]; intros pct args; cbn [fmt_go]; [reflexivity|].
  destruct pct.
  - destruct (Ascii.eqb c "%"%char); [rewrite IH; reflexivity|].
    destruct args as [|a rest]; [reflexivity|].
    rewrite Hs, Hr. apply bind_ext; [reflexivity|]. intros s. rewrite IH. reflexivity.
  - destruct (Ascii.eqb c "%"%char); rewrite IH; reflexivity.
Qed.

Lemma py_format_ext rr1 rr2 f a : (forall x, rr1 x = rr2 x) -> py_format rr1 f a = py_format rr2 f a.
Proof.
  intros H. unfold py_format. destruct f; try reflexivity.
  rewrite (fmt_go_ext rr1 rr2 H). reflexivity.
Qed.
