(** C19 -- executable comparison of the model with recorded outcomes of the real implementations
    (tie T3).  Generic: the two method-record transformers are parameters. *)
From Coq Require Import ZArith String List Bool Ascii PrimFloat.
From SF Require Import C19.PyVal C19.Script.
Import ListNotations.
Open Scope string_scope.

Definition is_nan (f : float) : bool := negb (PrimFloat.eqb f f).
Definition float_same (a b : float) : bool := PrimFloat.eqb a b || (is_nan a && is_nan b).

(** structural identity of observed values (dict order included; a float's repr text is not compared) *)
Fixpoint val_same (a b : pyval) {struct a} : bool :=
  let fix all2 (la lb : list pyval) {struct la} : bool :=
    match la, lb with
    | [], [] => true
    | x :: ta, y :: tb => val_same x y && all2 ta tb
    | _, _ => false
    end in
  let fix allkv (la lb : list (pyval * pyval)) {struct la} : bool :=
    match la, lb with
    | [], [] => true
    | (k, x) :: ta, (k', y) :: tb => val_same k k' && val_same x y && allkv ta tb
    | _, _ => false
    end in
  match a, b with
  | VNone, VNone => true
  | VBool x, VBool y => Bool.eqb x y
  | VInt x, VInt y => Z.eqb x y
  | VFloat x _, VFloat y _ => float_same x y
  | VDec r x _, VDec s y _ => String.eqb r s && float_same x y
  | VStr x, VStr y => String.eqb x y
  | VList x, VList y | VTuple x, VTuple y | VKeys x, VKeys y => all2 x y
  | VDict x, VDict y => allkv x y
  | VRow None x, VRow None y => all2 x y
  | VRow (Some f) x, VRow (Some g) y => val_same f g && all2 x y
  | VSlice a1 a2, VSlice b1 b2 => opt_eqb Z.eqb a1 b1 && opt_eqb Z.eqb a2 b2
  | VFunc x, VFunc y => String.eqb x y
  | VType n x, VType m y => String.eqb n m && all2 x y
  | VField n x, VField m y => String.eqb n m && val_same x y
  | VDF sx x, VDF sy y => val_same sx sy && all2 x y
  | _, _ => false
  end.

Definition out_same (a b : out) : bool :=
  match a, b with
  | OVal x, OVal y => val_same x y
  | OExc x, OExc y => exn_eqb x y
  | OOutOfDomain, OOutOfDomain => true
  | _, _ => false
  end.

Definition b2s (b : bool) : string := if b then "1" else "0".

Section Cases.
  Variables Bsf Bps : rowm -> rowm.
  Variables Ksf Kps : rowm -> cmpm -> cmpm.
  Definition FUEL := 48%nat.
  Definition Rsf := tie Bsf FUEL.
  Definition Rps := tie Bps FUEL.
  Definition Csf := tiec (Ksf Rsf) FUEL.
  Definition Cps := tiec (Kps Rps) FUEL.

  (** script case: the script and what the two real Row classes returned *)
  Record scase := { sc_script : sx; sc_sf : out; sc_ps : out }.

  (** flags: model_sf=impl_sf, model_ps=impl_ps, impl_sf=impl_ps, in theorem domain, model_sf=model_ps *)
  Definition check_script (c : scase) : string :=
    let ms := run false Rsf FUEL (sc_script c) in
    let mp := run false Rps FUEL (sc_script c) in
    b2s (out_same ms (sc_sf c)) ++ b2s (out_same mp (sc_ps c)) ++ b2s (out_same (sc_sf c) (sc_ps c))
    ++ b2s (negb (is_ood (run true Rps FUEL (sc_script c)))) ++ b2s (out_same ms mp).

  (** helper case: inputs as each library's constructors built them, options, the two real verdicts *)
  Record hcase := { h_act_sf : pyval; h_exp_sf : pyval; h_act_ps : pyval; h_exp_ps : pyval;
                    h_order : bool; h_rtol : pyval; h_atol : pyval; h_sf : out; h_ps : out }.

  Definition verdict (r : res pyval) : out := match r with Ok _ => OVal VNone | Raise e => OExc e end.

  (** flags: model_sf=impl_sf, model_ps=impl_ps, impl_sf=impl_ps, same inputs on both sides, model_sf=model_ps *)
  Definition check_helper (c : hcase) : string :=
    let ms := verdict (c_assertDataFrameEqual Csf (h_act_sf c) (h_exp_sf c) (VBool (h_order c)) (h_rtol c) (h_atol c)) in
    let mp := verdict (c_assertDataFrameEqual Cps (h_act_ps c) (h_exp_ps c) (VBool (h_order c)) (h_rtol c) (h_atol c)) in
    b2s (out_same ms (h_sf c)) ++ b2s (out_same mp (h_ps c)) ++ b2s (out_same (h_sf c) (h_ps c))
    ++ b2s (val_same (h_act_sf c) (h_act_ps c) && val_same (h_exp_sf c) (h_exp_ps c)) ++ b2s (out_same ms mp).

  Record schcase := { s_act : pyval; s_exp : pyval; s_sf : out; s_ps : out }.
  Definition check_schema (c : schcase) : string :=
    let ms := verdict (c_assertSchemaEqual Csf (s_act c) (s_exp c)) in
    let mp := verdict (c_assertSchemaEqual Cps (s_act c) (s_exp c)) in
    b2s (out_same ms (s_sf c)) ++ b2s (out_same mp (s_ps c)) ++ b2s (out_same (s_sf c) (s_ps c))
    ++ "1" ++ b2s (out_same ms mp).
End Cases.
