(** C10 -- the theorems for ASCII normalisation [anorm] (lower-casing of A-Z; every other code point unchanged). *)
From SF Require Export C10.Proofs.

Lemma starts_digit_anorm : forall n, starts_digit (anorm n) = starts_digit n.
Proof. intros [|x r]; [reflexivity|]. simpl. apply is_digit_alower. Qed.

Section Ascii.
  Variable wordu : N -> bool.
  Variable c : cfg.

  Definition a_lookup_case_insensitive :=
    lookup_case_insensitive anorm qspark_anorm.
  Definition a_ticks_optional := ticks_optional anorm.
  Definition a_views_agree :=
    views_agree anorm wordu c anorm_idem qspark_anorm plain_anorm starts_digit_anorm.
  Definition a_spelling_is_last_named :=
    spelling_is_last_named anorm wordu c anorm_idem qspark_anorm plain_anorm.
  Definition a_receiver_unchanged := receiver_unchanged anorm wordu c.
End Ascii.
