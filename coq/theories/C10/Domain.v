(** C10 -- decidable domains of the theorems, the invariant, and the reference key of a name. *)
From SF Require Export C10.Spec.

Section Domain.
  Variable norm : name -> name.
  Variable wordu : N -> bool.
  Variable c : cfg.

  (** the identifier a plain (back-tick free) name denotes *)
  Definition ident_p (n : name) : item := mkItem (norm n) (qspark n).

  (** the DuckDB-dialect re-parse of the normalised name quotes it exactly when the Spark-dialect parse did *)
  Definition duck_ok (n : name) : bool := Bool.eqb (qduck (norm n)) (qspark n).
  Definition good_name (n : name) : bool := plain n && duck_ok n.
  (** a reference: a good name, written bare or -- only if it needs quoting -- between back-ticks *)
  Definition ref_ok (x : name) : bool := good_name (attr x) && (plain x || qspark (attr x)).

  (** the key under which a reference is looked up among the select items / in the display-name map *)
  Definition refkey (x : name) : name := qp (ident norm x).
  Fixpoint positions (k : name) (l : list item) (i : nat) : list nat :=
    match l with
    | [] => []
    | it :: r => if neqb (qp it) k then i :: positions k r (S i) else positions k r (S i)
    end.
  Definition resolve (d : df) (x : name) : list nat := positions (refkey x) (sel d) 0.

  (** invariant: every select item is canonical and, if it needs quoting, recorded in the map *)
  Definition canon (it : item) : bool :=
    neqb (norm (text it)) (text it) && Bool.eqb (quoted it) (qspark (text it))
    && Bool.eqb (qduck (text it)) (qspark (text it)) && plain (text it).
  Definition inv_item (m : dmap_t) (it : item) : bool :=
    canon it && (negb (quoted it) || is_some (lookup (qp it) m)).
  Definition inv (d : df) : bool := forallb (inv_item (dmap d)) (sel d).

  Definition views_cfg_ok : bool :=
    v_columns_map c && v_sql_map c && v_schema_map c && v_collect_case c.
  Definition rk_records (k : rkind) : bool := match k with RNone => false | _ => true end.
  Definition cfg_ok : bool :=
    views_cfg_ok && rk_records (rec_of c MCreate) && rk_records (rec_of c MSelect)
    && rk_records (rec_of c MWithColumn) && rk_records (rec_of c MWithColumnRenamed) && rk_records (rec_of c MAgg)
    && col_disp_ident c && alias_disp_raw c.

  Definition null {A} (l : list A) : bool := match l with [] => true | _ => false end.
  Fixpoint nodupb (l : list name) : bool :=
    match l with [] => true | x :: r => negb (mem x r) && nodupb r end.

  (** * operations after which the four views provably agree (everything except toDF; unquoted names where a
        method does not record) *)
  Definition key_arg_ok (a : selarg) : bool :=
    match a with
    | SStr x | SCol x | SItem x => ref_ok x && negb (qspark (attr x))
    | SAlias _ _ => false
    end.
  Definition sel_arg_ok_v (a : selarg) : bool :=
    ref_ok (arg_ref a) && match a with SAlias _ al => good_name al | _ => true end.
  Definition bare_unquoted (n : name) : bool := good_name n && negb (qspark n).
  Definition views_ok_op (o : op) : bool :=
    match o with
    | OSelect args => forallb sel_arg_ok_v args
    | OWithColumn n => good_name n
    | OWithColumnRenamed o n => good_name n
    | OToDF _ => false
    | ODrop _ | OFillna _ | ODropna | ODropDuplicates _ | OWhere _ | OOrderBy _ | OLimit | ODistinct
    | OOrderByItems _ => true
    | OJoinOn rn _ _ => forallb bare_unquoted rn
    | OGroupAgg keys al => forallb key_arg_ok keys && forallb bare_unquoted al
    | OAgg al => forallb good_name al
    | OJoin rn keys => forallb bare_unquoted rn && forallb bare_unquoted keys
    end.

  (** * operations after which the names are provably Spark's (the recording alphabet + C01 steps) *)
  Definition sel_arg_ok (ns : list name) (a : selarg) : bool :=
    ref_ok (arg_ref a) && resolves norm ns (arg_ref a)
    && match a with SStr x => plain x | SCol _ | SItem _ => true | SAlias _ al => good_name al end.
  Definition good_op (ns : list name) (o : op) : bool :=
    match o with
    | OSelect args => forallb (sel_arg_ok ns) args && nodupb (map norm (map arg_name args)) && negb (null args)
    | OWithColumn n => good_name n
    | OWithColumnRenamed o n =>
        plain o && good_name n && forallb (fun x => same norm x o || negb (same norm x n)) ns
    | OAgg al => forallb good_name al && nodupb (map norm al)
    | OWhere v => resolves norm ns v
    | OOrderBy vs | OOrderByItems vs => forallb (resolves norm ns) vs
    | OLimit | ODistinct => true
    | _ => false
    end.
  Fixpoint good_prog (ns : list name) (ops : list op) : bool :=
    match ops with
    | [] => true
    | o :: r => good_op ns o && match spec_step norm o ns with Some ns' => good_prog ns' r | None => false end
    end.
  Definition create_ok (ns : list name) : bool := forallb good_name ns && nodupb (map norm ns).
End Domain.
