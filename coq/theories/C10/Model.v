(** C10 -- the implementation model: sqlframe's display-name map and the four views of a DataFrame's
    column names, for every naming operation, parametric in the facts regenerated from /repo (T1):
    which method records a spelling and on which object ([rec_of]), how drop/fillna/dropna re-select
    ([resel_of]), the decorator class of each method and the wrapper predicate ([kind_of], [wrap_needed] ...),
    what col()/alias()/a str argument remember as display name, and whether each view consults the map.

    State of a DataFrame, as far as names go:
    - [sel]    the select list: identifiers (text, quoted flag) as they stand in the sqlglot tree
    - [dmap]   display_name_mapping: key = quote-preserving normalised name, value = spelling to show
    - [last]   last_op (decides whether the wrapper freezes the open SELECT into a CTE; freezing re-reads
               the select list through col(), i.e. re-normalises it)
    - [base]   column names (raw) of the CTE the open SELECT reads from; [injoin] a join is open
               (both only matter for which orderBy/join calls raise). *)
From SF Require Export C10.Names.

Inductive opk := INIT | NO_OP | FROM | WHERE | GROUP_BY | HAVING | SELECT | ORDER_BY | LIMIT.
Definition opk_eqb (a b : opk) : bool :=
  match a, b with
  | INIT, INIT | NO_OP, NO_OP | FROM, FROM | WHERE, WHERE | GROUP_BY, GROUP_BY | HAVING, HAVING
  | SELECT, SELECT | ORDER_BY, ORDER_BY | LIMIT, LIMIT => true
  | _, _ => false
  end.
Definition all_opk := [INIT; NO_OP; FROM; WHERE; GROUP_BY; HAVING; SELECT; ORDER_BY; LIMIT].

Record item := mkItem { text : name; quoted : bool }.
Definition qp (it : item) : name := if quoted it then bt (text it) else text it.
Definition item_eqb (a b : item) : bool := neqb (text a) (text b) && Bool.eqb (quoted a) (quoted b).

Definition dmap_t := list (name * name).
Fixpoint lookup (k : name) (m : dmap_t) : option name :=
  match m with
  | [] => None
  | (k', v) :: r => if neqb k k' then Some v else lookup k r
  end.
Definition upd (k v : name) (m : dmap_t) : dmap_t := (k, v) :: m.
Definition upd_all (kvs : list (name * name)) (m : dmap_t) : dmap_t :=
  fold_left (fun m kv => upd (fst kv) (snd kv) m) kvs m.
Definition mem (k : name) (l : list name) : bool := existsb (neqb k) l.
Definition is_some {A} (o : option A) : bool := match o with Some _ => true | None => false end.

Record df := mkDf { sel : list item; dmap : dmap_t; last : opk; base : list name; injoin : bool }.
Definition set_sel d s := mkDf s (dmap d) (last d) (base d) (injoin d).
Definition set_dmap d m := mkDf (sel d) m (last d) (base d) (injoin d).
Definition set_last d k := mkDf (sel d) (dmap d) k (base d) (injoin d).

Inductive rkind := RNone | RRecv | RCopy.
Inductive rsel := SelPrivate | SelPublicCopy.
Inductive meth :=
| MCreate | MSelect | MWithColumn | MWithColumnRenamed | MToDF | MDrop | MGroupBy | MGroupAgg | MAgg | MJoin
| MFillna | MDropna | MDropDuplicates | MWhere | MOrderBy | MLimit | MDistinct.
Definition all_meth := [MCreate; MSelect; MWithColumn; MWithColumnRenamed; MToDF; MDrop; MGroupBy; MGroupAgg; MAgg;
                        MJoin; MFillna; MDropna; MDropDuplicates; MWhere; MOrderBy; MLimit; MDistinct].

Record cfg := mkCfg {
  rec_of : meth -> rkind;          (* direct call of _update_display_name_mapping: on self / on the new frame / none *)
  resel_of : meth -> rsel;         (* drop, fillna, dropna: the closing re-select is the public select on a copy, or private *)
  kind_of : meth -> option opk;    (* @operation(Operation.X); None = undecorated *)
  wrap_needed : opk -> opk -> bool;
  new_kind : opk -> opk -> opk;
  init_wraps : bool;
  wrap_needed_g : opk -> opk -> bool;   (* the same three for group_operation (GroupedData.agg) *)
  new_kind_g : opk -> opk -> opk;
  init_wraps_g : bool;
  group_agg_kind : option opk;
  col_disp_ident : bool;           (* col('x') remembers the identifier's text (case kept, back-ticks stripped) *)
  alias_disp_raw : bool;           (* Column.alias(n) remembers n as given *)
  str_disp_raw : bool;             (* a str argument of select is recorded as given (else: its identifier text) *)
  join_merges : bool;              (* join adds the right frame's display names (for names that are not left columns) *)
  join_key_bare : bool;            (* join(on=[names]) looks the key up by its bare text (else by the quote-preserving name) *)
  schema_key_spark : bool;         (* df.schema keys the map by the INPUT dialect's rendering of the reported bare name *)
  orderby_identify : bool;         (* orderBy renders its keys with quoted identifiers before re-parsing them *)
  groupby_unqualifies : bool;      (* groupBy drops the table qualifier of df[x] keys (no join open) *)
  orderby_follows_display : bool;  (* an unqualified ORDER BY key naming a renamed output column is rewritten to its display name *)
  v_columns_map : bool;            (* df.columns renames the select list through the map *)
  v_sql_map : bool;                (* the SQL of collect()/toPandas() carries the display names as case-sensitive aliases *)
  v_schema_map : bool;             (* df.schema looks reported names up in the map *)
  v_collect_case : bool }.         (* session._collect keeps the case of the names the engine reports *)

(** user-facing programs *)
Inductive selarg := SStr (x : name) | SCol (x : name) | SAlias (x a : name)
| SItem (x : name).       (* df[x] / df.x : a reference through the DataFrame object *)
Inductive op :=
| OSelect (args : list selarg)
| OWithColumn (n : name)                      (* withColumn(n, <expression over existing columns>) *)
| OWithColumnRenamed (o n : name)
| OToDF (ns : list name)
| ODrop (vs : list name)
| OGroupAgg (keys : list selarg) (aliases : list name)   (* groupBy(keys).agg(count('*').alias(a) ...) *)
| OAgg (aliases : list name)
| OJoin (rnames : list name) (keys : list name)          (* join(createDataFrame(rnames), on=keys, 'inner') *)
| OFillna (subset : option (list name))
| ODropna
| ODropDuplicates (vs : list name)
| OWhere (v : name)
| OOrderBy (vs : list name)
| OLimit
| ODistinct
| OOrderByItems (vs : list name)                          (* orderBy(df[v] ...) *)
| OJoinOn (rnames : list name) (l r : name).              (* join(other, df[l] == other[r], 'inner') *)

Definition meth_of (o : op) : meth :=
  match o with
  | OSelect _ => MSelect | OWithColumn _ => MWithColumn | OWithColumnRenamed _ _ => MWithColumnRenamed
  | OToDF _ => MToDF | ODrop _ => MDrop | OGroupAgg _ _ => MGroupBy | OAgg _ => MAgg | OJoin _ _ => MJoin
  | OFillna _ => MFillna | ODropna => MDropna | ODropDuplicates _ => MDropDuplicates | OWhere _ => MWhere
  | OOrderBy _ => MOrderBy | OLimit => MLimit | ODistinct => MDistinct
  | OOrderByItems _ => MOrderBy | OJoinOn _ _ _ => MJoin
  end.

(** Spark-dialect keywords that sqlframe's orderBy cannot re-parse as a bare ordering key (definition of
    sqlglot 26.14's behaviour, measured over all tokenizer keywords; validated by T3) *)
Definition kw_orderby : list name := map s
  ["alter"; "always"; "analyze"; "and"; "any"; "as"; "between"; "case"; "create"; "cross"; "distinct"; "drop";
   "else"; "except"; "fetch"; "for"; "from"; "glob"; "grant"; "having"; "ilike"; "in"; "inner"; "insert";
   "intersect"; "into"; "join"; "lateral"; "like"; "lock"; "minus"; "not"; "notnull"; "on"; "or"; "outer"; "over";
   "qualify"; "regexp"; "returning"; "rlike"; "rollback"; "select"; "serdeproperties"; "tablesample"; "then";
   "uncache"; "union"; "using"; "values"; "when"; "where"; "with"; "xor"; "nullable"]%string.

Section Model.
  Variable norm : name -> name.      (* identifier normalisation of the input dialect *)
  Variable wordu : N -> bool.        (* Python's \w on non-ASCII code points *)
  Variable c : cfg.

  (** the identifier col(x) / Column.alias(x) / parse_identifier(x) build, normalised *)
  Definition ident (x : name) : item := mkItem (norm (fst (user_ident x))) (snd (user_ident x)).
  (** what [_get_outer_select_columns] makes of a select item: col(<quote-preserving name>) *)
  Definition renorm (it : item) : item := ident (qp it).
  Definition attr (x : name) : name := fst (user_ident x).

  Definition convert (d : df) : df := mkDf (map renorm (sel d)) (dmap d) (last d) (map text (sel d)) false.

  (** the [operation] wrapper: (self as the method body sees it, kind of the result, was self replaced by a copy) *)
  Definition pre_with (wn : opk -> opk -> bool) (nkf : opk -> opk -> opk) (iw : bool) (k : option opk) (d : df)
    : df * opk * bool :=
    match k with
    | None => (d, last d, false)
    | Some k =>
        let d1 := if opk_eqb (last d) INIT then set_last (if iw then convert d else d) NO_OP else d in
        let cv1 := opk_eqb (last d) INIT && iw in
        let nk := nkf k (last d1) in
        if wn (last d1) nk then (convert d1, nk, true) else (d1, nk, cv1)
    end.
  Definition pre (m : meth) (d : df) := pre_with (wrap_needed c) (new_kind c) (init_wraps c) (kind_of c m) d.
  Definition pre_group (d : df) :=
    pre_with (wrap_needed_g c) (new_kind_g c) (init_wraps_g c) (group_agg_kind c) d.

  (** recording spellings: (receiver afterwards, frame the result is copied from) *)
  Definition record (rk : rkind) (kvs : list (name * name)) (d : df) : df * df :=
    match rk with
    | RNone => (d, d)
    | RRecv => (set_dmap d (upd_all kvs (dmap d)), set_dmap d (upd_all kvs (dmap d)))
    | RCopy => (d, set_dmap d (upd_all kvs (dmap d)))
    end.

  Definition arg_item (a : selarg) : item :=
    match a with SStr x | SCol x | SItem x => ident x | SAlias _ al => ident al end.
  Definition arg_disp (a : selarg) : name :=
    match a with
    | SStr x => if str_disp_raw c then x else attr x
    | SCol x | SItem x => if col_disp_ident c then attr x else x
    | SAlias _ al => if alias_disp_raw c then al else attr al
    end.
  Definition arg_rec (a : selarg) : name * name := (qp (arg_item a), arg_disp a).
  Definition arg_ref' (a : selarg) : name := match a with SStr x | SCol x | SItem x => x | SAlias _ al => al end.
  Definition alias_rec (a : name) : name * name := (qp (ident a), if alias_disp_raw c then a else attr a).

  (** the columns [_get_outer_select_columns] returns: (identifier, display name remembered by col()) *)
  Definition outer (d : df) : list (item * name) :=
    map (fun x => (renorm x, if col_disp_ident c then attr (qp x) else qp x)) (sel d).

  Definition somes {A} (l : list (option A)) : list A :=
    flat_map (fun o => match o with Some x => [x] | None => [] end) l.

  (** the public select called on a copy (drop, fillna, dropna end like this): it records through select's own rule *)
  Definition public_select_copy (d : df) (cols : list (item * option name)) : df :=
    let p := pre MSelect d in
    let kvs := somes (map (fun cd => match snd cd with Some v => Some (qp (fst cd), v) | None => None end) cols) in
    let r := record (rec_of c MSelect) kvs (fst (fst p)) in
    set_last (set_sel (snd r) (map fst cols)) (snd (fst p)).
  Definition reselect (m : meth) (d : df) (cols : list (item * option name)) : df :=
    match resel_of c m with
    | SelPublicCopy => public_select_copy d cols
    | SelPrivate => set_sel d (map fst cols)
    end.

  Fixpoint replace_first (k : name) (new : item) (l : list item) : list item :=
    match l with
    | [] => []
    | it :: r => if neqb (qp it) k then new :: r else it :: replace_first k new r
    end.

  Definition alower_name (n : name) : name := map alower n.

  (** display names a join takes over from the right frame (a fresh createDataFrame(rnames)) *)
  Definition join_dmap (d : df) (lcols : list item) (rnames : list name) : dmap_t :=
    if join_merges c then
      upd_all (filter (fun kv => negb (mem (fst kv) (map qp lcols)))
                      (map (fun n => (qp (ident n), if str_disp_raw c then n else attr n)) rnames)) (dmap d)
    else dmap d.

  (** does DuckDB bind an ORDER BY key written into the open SELECT?  an input column of the FROM (names compared after
      normalisation) or an output alias (DuckDB folds ASCII case only) *)
  Definition fields_raw (d : df) : list name :=
    map (fun it => if v_sql_map c then match lookup (qp it) (dmap d) with Some v => v | None => norm (text it) end
                   else norm (text it)) (sel d).
  Definition orderby_binds (d : df) (v : name) : bool :=
    let kt := norm (attr v) in
    mem kt (map norm (base d)) || existsb (fun a => neqb (alower_name a) (alower_name kt)) (fields_raw d)
    || (orderby_follows_display c && v_sql_map c
        && existsb (fun it => neqb (qp it) (qp (ident v)) && is_some (lookup (qp it) (dmap d))) (sel d)).
  Definition orderby_parses (d : df) (v : name) : bool :=
    orderby_identify c || injoin d || snd (user_ident v) || negb (mem (norm (attr v)) kw_orderby).
  Definition join_keys_found (d : df) (keys : list name) : bool :=
    forallb (fun k => mem (if join_key_bare c then text (ident k) else qp (ident k)) (base d)) keys.

  (** method bodies: self (after the wrapper) -> (self afterwards, result) ; None = the call raises *)
  Definition body (o : op) (d : df) : option (df * df) :=
    match o with
    | OSelect args =>
        let r := record (rec_of c MSelect) (map arg_rec args) d in
        Some (fst r, set_sel (snd r) (map arg_item args))
    | OWithColumn n =>
        let kI := ident n in
        let ex := map renorm (sel d) in
        let sel' := if mem (qp kI) (map qp ex) then replace_first (qp kI) (ident n) ex else ex ++ [ident n] in
        let r := record (rec_of c MWithColumn) [(qp kI, n)] d in
        Some (fst r, set_sel (snd r) sel')
    | OWithColumnRenamed o n =>
        let ek := qp (ident o) in
        let ex := map renorm (sel d) in
        if mem ek (map qp ex) then
          let sel' := map (fun it => if neqb (qp it) ek then ident n else it) ex in
          let r := record (rec_of c MWithColumnRenamed) [alias_rec n] d in
          Some (fst r, set_sel (snd r) sel')
        else None
    | OToDF ns =>
        if Nat.eqb (List.length ns) (List.length (sel d)) then
          match rec_of c MToDF with
          | RNone => Some (d, set_sel d (map (fun n => mkItem n (qsafe wordu n)) ns))   (* raw aliases, nothing recorded *)
          | rk => let r := record rk (map alias_rec ns) d in                             (* Column.alias + recorded *)
                  Some (fst r, set_sel (snd r) (map ident ns))
          end
        else None
    | ODrop vs =>
        let dk := map (fun v => qp (ident v)) vs in
        let kept := filter (fun cd => negb (mem (qp (fst cd)) dk)) (outer d) in
        Some (d, reselect MDrop d (map (fun cd => (fst cd, Some (snd cd))) kept))
    | OFillna sub =>
        let rk := match sub with Some vs => Some (map (fun v => qp (ident v)) vs) | None => None end in
        let cols := map (fun cd =>
                      if match rk with None => true | Some ks => mem (qp (fst cd)) ks end
                      then (ident (qp (fst cd)), Some (if alias_disp_raw c then qp (fst cd) else attr (qp (fst cd))))
                      else (fst cd, Some (snd cd))) (outer d) in
        Some (d, reselect MFillna d cols)
    | ODropna =>
        let cols := outer d in
        let nn := s "num_nulls" in
        let c1 := public_select_copy d (map (fun cd => (fst cd, None)) cols ++ [(ident nn, Some (snd (alias_rec nn)))]) in
        let p := pre MWhere c1 in
        let c2 := set_last (fst (fst p)) (snd (fst p)) in
        Some (d, reselect MDropna c2 (map (fun cd => (fst cd, Some (snd cd))) cols))
    | OGroupAgg keys aliases =>
        (* d is self after groupBy's wrapper; the grouped data holds a copy, agg runs its own wrapper on it *)
        let p := pre_group d in
        let g := fst (fst p) in
        (* a key written df[x] was bound to the CTE open when groupBy ran; if agg's own wrapper freezes once more, the
           qualified key points at a table that is no longer in the FROM: the engine raises *)
        if snd p && existsb (fun a => match a with SItem _ => true | _ => false end) keys
           && negb (groupby_unqualifies c) then None
        else
          (* keys are Columns by then: what is recorded for them is col()'s display name *)
          let kvs := map (fun a => (qp (arg_item a), if col_disp_ident c then attr (arg_ref' a) else arg_ref' a)) keys
                     ++ map alias_rec aliases in
          let r := record (rec_of c MGroupAgg) kvs g in
          Some (d, set_last (set_sel (snd r) (map arg_item keys ++ map ident aliases)) (snd (fst p)))
    | OAgg aliases =>
        let r := record (rec_of c MAgg) (map alias_rec aliases) d in
        Some (fst r, set_sel (snd r) (map ident aliases))
    | OJoin rnames keys =>
        let lcols := map renorm (sel d) in
        let rcols := map ident rnames in
        let kn := map (fun k => qp (ident k)) keys in
        if join_keys_found d keys then
          let names := kn ++ filter (fun n => negb (mem n kn)) (map qp (lcols ++ rcols)) in
          Some (d, mkDf (map ident names) (join_dmap d lcols rnames) (last d) (base d ++ map text rcols) true)
        else None
    | ODropDuplicates _ => None      (* composite: see [step] *)
    | OWhere _ | OLimit | ODistinct => Some (d, d)
    | OOrderBy vs =>
        if forallb (orderby_parses d) vs && forallb (orderby_binds d) vs then Some (d, d) else None
    | OOrderByItems vs =>
        (* the key is rendered table-qualified: it can only bind an input column of the FROM, never an alias of the
           open SELECT *)
        if forallb (fun v => (orderby_identify c || negb (mem (norm (attr v)) kw_orderby))
                             && mem (norm (attr v)) (map norm (base d))) vs
        then Some (d, d) else None
    | OJoinOn rnames _ _ =>
        let lcols := map renorm (sel d) in
        let rcols := map ident rnames in
        Some (d, mkDf (map ident (map qp (lcols ++ rcols))) (join_dmap d lcols rnames) (last d) (base d ++ map text rcols) true)
    end.

  (** one call on a frame: (the receiver as the user sees it afterwards, the result) *)
  Definition step_prim (o : op) (d0 : df) : option (df * df) :=
    let p := pre (meth_of o) d0 in
    let d := fst (fst p) in
    let nk := snd (fst p) in
    let cv := snd p in
    match body o d with
    | None => None
    | Some (self', res) =>
        let res' := match o with OGroupAgg _ _ => res | _ => set_last res nk end in
        let recv := match o with
                    | OGroupAgg _ _ => d0
                    | _ => if cv then d0 else set_dmap d0 (dmap self')
                    end in
        Some (recv, res')
    end.

  Definition bind {A B} (x : option A) (f : A -> option B) : option B :=
    match x with Some a => f a | None => None end.

  Definition step (o : op) (d0 : df) : option (df * df) :=
    match o with
    | ODropDuplicates vs =>
        let p := pre MDropDuplicates d0 in
        let d := fst (fst p) in
        let rn := s "row_num" in
        bind (step_prim (OWithColumn rn) d) (fun r1 =>
        bind (step_prim (OWhere rn) (snd r1)) (fun r2 =>
        bind (step_prim (ODrop [rn]) (snd r2)) (fun r3 =>
        Some (d0, set_last (snd r3) (snd (fst p))))))
    | _ => step_prim o d0
    end.

  Definition create (names : list name) : df :=
    let items := map ident names in
    let kvs := map (fun n => (qp (ident n), if str_disp_raw c then n else attr n)) names in
    let d := mkDf items [] INIT [] false in
    snd (record (match rec_of c MCreate with RNone => RNone | _ => RCopy end) kvs d).

  Fixpoint run (d : df) (ops : list op) : option df :=
    match ops with
    | [] => Some d
    | o :: r => match step o d with Some (_, d') => run d' r | None => None end
    end.

  (** all intermediate (receiver afterwards, result) pairs; stops at the first call that raises *)
  Fixpoint trace (d : df) (ops : list op) : list (option (df * df)) :=
    match ops with
    | [] => []
    | o :: r => match step o d with
                | Some (rv, d') => Some (rv, d') :: trace d' r
                | None => [None]
                end
    end.

  (** * the four views *)
  Definition requote (t : name) : name := if qduck t then bt t else t.

  Definition columns (d : df) : list name :=
    map (fun it => if v_columns_map c then match lookup (qp it) (dmap d) with Some v => v | None => text it end
                   else text it) (sel d).
  Definition pandas (d : df) : list name := fields_raw d.
  Definition fields (d : df) : list name :=
    if v_collect_case c then fields_raw d else map norm (fields_raw d).
  (** the name df.schema looks up / falls back to, for the (normalised) name the engine reports *)
  Definition schema_key (t : name) : name :=
    if schema_key_spark c then (if qspark t then bt t else t) else requote t.
  Definition schema_miss (t : name) : name := if schema_key_spark c then t else requote t.
  Definition schema (d : df) : list name :=
    map (fun it => let t := norm (text it) in
                   if v_schema_map c then match lookup (schema_key t) (dmap d) with Some v => v | None => schema_miss t end
                   else schema_miss t) (sel d).
End Model.
