(** C10 -- names as lists of Unicode code points, identifier normalisation, quoting classes.

    A name is the list of its code points ([N]); ASCII literals are written with [s "ab"].
    What is a *definition of the environment's behaviour* here (validated by the correspondence check T3,
    never proved about sqlglot/DuckDB themselves):
    - [qspark]  : does sqlglot's Spark-dialect parse of a user string give a quoted identifier
    - [qduck]   : the same for the DuckDB dialect (used when sqlframe re-parses names DuckDB reports)
    - [qsafe]   : [exp.to_identifier]'s rule ([SAFE_IDENTIFIER_RE]) used by [exp.alias_] (toDF)
    - [unbt]    : a string wrapped in back-ticks denotes the identifier between them
    The identifier normalisation [norm] of the Spark input dialect (lower-casing, also of quoted
    identifiers) is a PARAMETER of the theory with three hypotheses; [anorm] (ASCII lower-casing, all other
    code points unchanged) is the instance for which they are proved. *)
From Coq Require Export List NArith Bool Lia String Ascii.
Export ListNotations.
Open Scope N_scope.

Definition name := list N.

Fixpoint neqb (a b : name) : bool :=
  match a, b with
  | [], [] => true
  | x :: a', y :: b' => N.eqb x y && neqb a' b'
  | _, _ => false
  end.

Lemma neqb_eq : forall a b, neqb a b = true <-> a = b.
Proof.
  induction a as [|x a IH]; intros [|y b]; simpl; split; intro H; try reflexivity; try discriminate.
  - apply andb_true_iff in H. destruct H as [H1 H2]. apply N.eqb_eq in H1. apply IH in H2. congruence.
  - inversion H; subst. rewrite N.eqb_refl. simpl. apply IH. reflexivity.
Qed.

Lemma neqb_refl : forall a, neqb a a = true.
Proof. intro a. apply neqb_eq. reflexivity. Qed.

Lemma neqb_neq : forall a b, neqb a b = false <-> a <> b.
Proof.
  intros a b. split.
  - intros H E. apply neqb_eq in E. congruence.
  - intro H. destruct (neqb a b) eqn:E; [apply neqb_eq in E; contradiction | reflexivity].
Qed.

Lemma neqb_sym : forall a b, neqb a b = neqb b a.
Proof.
  intros a b. destruct (neqb a b) eqn:E.
  - apply neqb_eq in E. subst. symmetry. apply neqb_refl.
  - symmetry. apply neqb_neq. apply neqb_neq in E. congruence.
Qed.

(** ASCII literals *)
Fixpoint s (x : string) : name :=
  match x with
  | EmptyString => []
  | String a r => N_of_ascii a :: s r
  end.

(** * character classes *)
Definition tick : N := 96.
Definition is_tick (c : N) : bool := N.eqb c tick.
Definition is_digit (c : N) : bool := (48 <=? c) && (c <=? 57).
Definition is_upper (c : N) : bool := (65 <=? c) && (c <=? 90).
Definition is_lower (c : N) : bool := (97 <=? c) && (c <=? 122).
Definition is_alpha_us (c : N) : bool := is_upper c || is_lower c || N.eqb c 95.
(** a character the tokenizers read as part of a bare identifier: ASCII letters, digits, underscore and
    (for the generator's pool: letters, CJK, emoji) every non-ASCII code point *)
Definition is_word (c : N) : bool := is_digit c || is_alpha_us c || (128 <=? c).

Definition plain (n : name) : bool := negb (existsb is_tick n).

Definition qspark (n : name) : bool :=
  match n with [] => true | _ => negb (forallb is_word n) end.
Definition starts_digit (n : name) : bool :=
  match n with c :: _ => is_digit c | [] => false end.
Definition qduck (n : name) : bool := qspark n || starts_digit n.
(** [wordu c]: Python's [\w] on a non-ASCII code point (environment fact passed with each case) *)
Definition qsafe (wordu : N -> bool) (n : name) : bool :=
  match n with
  | [] => true
  | c :: r => negb (is_alpha_us c && forallb (fun x => if x <? 128 then is_word x else wordu x) r)
  end.

(** * back-ticks *)
Definition bt (t : name) : name := tick :: t ++ [tick].

Definition unbt (x : name) : option name :=
  match x with
  | c :: r =>
      if is_tick c then
        match rev r with
        | c' :: tr => if is_tick c' then (if plain (rev tr) then Some (rev tr) else None) else None
        | [] => None
        end
      else None
  | [] => None
  end.

Lemma unbt_bt : forall t, plain t = true -> unbt (bt t) = Some t.
Proof.
  intros t H. unfold unbt, bt. change (is_tick tick) with true. cbv iota.
  rewrite rev_app_distr. simpl rev. simpl app. change (is_tick tick) with true. cbv iota.
  rewrite rev_involutive. rewrite H. reflexivity.
Qed.

Lemma unbt_plain : forall x, plain x = true -> unbt x = None.
Proof.
  intros [|c r] H; [reflexivity|]. unfold unbt. unfold plain in H. simpl in H.
  destruct (is_tick c); [discriminate | reflexivity].
Qed.

Lemma bt_inj : forall a b, bt a = bt b -> a = b.
Proof.
  unfold bt. intros a b H. inversion H as [H1]. apply app_inj_tail in H1. tauto.
Qed.

Lemma bt_not_plain : forall t, plain (bt t) = false.
Proof. intro t. unfold plain, bt. simpl. reflexivity. Qed.

Lemma bt_neq_plain : forall t x, plain x = true -> bt t <> x.
Proof. intros t x H E. subst x. rewrite bt_not_plain in H. discriminate. Qed.

(** the identifier a user string denotes: (text, quoted) *)
Definition user_ident (x : name) : name * bool :=
  match unbt x with
  | Some t => (t, true)
  | None => (x, qspark x)
  end.

(** * the ASCII instance of the normalisation *)
Definition alower (c : N) : N := if is_upper c then c + 32 else c.
Definition anorm (n : name) : name := map alower n.

Lemma alower_idem : forall c, alower (alower c) = alower c.
Proof.
  intro c. unfold alower, is_upper.
  destruct ((65 <=? c) && (c <=? 90)) eqn:E; [|rewrite E; reflexivity].
  apply andb_true_iff in E. destruct E as [E1 E2]. apply N.leb_le in E1, E2.
  assert (H : (65 <=? c + 32) && (c + 32 <=? 90) = false).
  { apply andb_false_iff. right. apply N.leb_gt. lia. }
  rewrite H. reflexivity.
Qed.

Lemma anorm_idem : forall n, anorm (anorm n) = anorm n.
Proof. intro n. unfold anorm. rewrite map_map. apply map_ext. apply alower_idem. Qed.

Lemma is_word_alower : forall c, is_word (alower c) = is_word c.
Proof.
  intro c. unfold alower, is_upper.
  destruct ((65 <=? c) && (c <=? 90)) eqn:E; [|reflexivity].
  apply andb_true_iff in E. destruct E as [E1 E2]. apply N.leb_le in E1, E2.
  unfold is_word, is_alpha_us, is_digit, is_upper, is_lower.
  assert (A : (97 <=? c + 32) && (c + 32 <=? 122) = true).
  { apply andb_true_iff. split; apply N.leb_le; lia. }
  assert (B : (65 <=? c) && (c <=? 90) = true).
  { apply andb_true_iff. split; apply N.leb_le; lia. }
  rewrite A, B.
  repeat match goal with |- context [?x <=? ?y] => destruct (x <=? y) end;
  repeat match goal with |- context [?x =? ?y] => destruct (x =? y) end; reflexivity.
Qed.

Lemma qspark_anorm : forall n, qspark (anorm n) = qspark n.
Proof.
  assert (H : forall l, forallb is_word (map alower l) = forallb is_word l).
  { induction l as [|x l IH]; [reflexivity|]. simpl. rewrite is_word_alower, IH. reflexivity. }
  intros [|c r]; [reflexivity|]. unfold qspark, anorm. specialize (H (c :: r)). simpl map in *.
  rewrite H. reflexivity.
Qed.

Lemma is_tick_alower : forall c, is_tick (alower c) = is_tick c.
Proof.
  intro c. unfold alower, is_upper.
  destruct ((65 <=? c) && (c <=? 90)) eqn:E; [|reflexivity].
  apply andb_true_iff in E. destruct E as [E1 E2]. apply N.leb_le in E1, E2.
  unfold is_tick, tick.
  assert (A : (c + 32 =? 96) = false) by (apply N.eqb_neq; lia).
  assert (B : (c =? 96) = false) by (apply N.eqb_neq; lia).
  rewrite A, B. reflexivity.
Qed.

Lemma plain_anorm : forall n, plain (anorm n) = plain n.
Proof.
  intro n. unfold plain, anorm. f_equal.
  induction n as [|x l IH]; [reflexivity|]. simpl. rewrite is_tick_alower, IH. reflexivity.
Qed.

Lemma is_digit_alower : forall c, is_digit (alower c) = is_digit c.
Proof.
  intro c. unfold alower, is_upper.
  destruct ((65 <=? c) && (c <=? 90)) eqn:E; [|reflexivity].
  apply andb_true_iff in E. destruct E as [E1 E2]. apply N.leb_le in E1, E2.
  unfold is_digit.
  assert (A : (c + 32 <=? 57) = false) by (apply N.leb_gt; lia).
  assert (B : (c <=? 57) = false) by (apply N.leb_gt; lia).
  rewrite A, B, !andb_false_r. reflexivity.
Qed.

Lemma qduck_anorm : forall n, qduck (anorm n) = qduck n.
Proof.
  intro n. unfold qduck. rewrite qspark_anorm. f_equal.
  destruct n as [|c r]; [reflexivity|]. simpl. apply is_digit_alower.
Qed.

(** the normalisation used by the correspondence check: ASCII as above, non-ASCII code points through a
    finite table of CPython's [str.lower()] passed with each case *)
Fixpoint assocN {A} (c : N) (t : list (N * A)) : option A :=
  match t with
  | [] => None
  | (k, v) :: r => if N.eqb k c then Some v else assocN c r
  end.
Definition tnorm (tbl : list (N * list N)) (n : name) : name :=
  flat_map (fun c => if c <? 128 then [alower c]
                     else match assocN c tbl with Some l => l | None => [c] end) n.

Lemma tnorm_nil_is_anorm : forall n, tnorm [] n = anorm n.
Proof.
  induction n as [|c r IH]; [reflexivity|].
  change (tnorm [] (c :: r)) with ((if c <? 128 then [alower c] else [c]) ++ tnorm [] r).
  rewrite IH. change (anorm (c :: r)) with (alower c :: anorm r).
  destruct (c <? 128) eqn:E; [reflexivity|]. simpl. f_equal.
  unfold alower, is_upper. apply N.ltb_ge in E.
  assert (A : (c <=? 90) = false) by (apply N.leb_gt; lia). rewrite A, andb_false_r. reflexivity.
Qed.
