(** C10 -- theorems about the name model, for every normalisation [norm] that is idempotent and keeps the
    quoting class, the back-tick freeness and the leading-digit property of a name ([anorm] is such a one). *)
From SF Require Export C10.Domain.

Section Proofs.
  Variable norm : name -> name.
  Variable wordu : N -> bool.
  Variable c : cfg.
  Hypothesis norm_idem : forall n, norm (norm n) = norm n.
  Hypothesis norm_qspark : forall n, qspark (norm n) = qspark n.
  Hypothesis norm_plain : forall n, plain (norm n) = plain n.
  Hypothesis norm_digit : forall n, starts_digit (norm n) = starts_digit n.

  Notation ident := (ident norm).
  Notation ident_p := (ident_p norm).
  Notation renorm := (renorm norm).
  Notation good_name := (good_name norm).
  Notation ref_ok := (ref_ok norm).
  Notation canon := (canon norm).
  Notation inv_item := (inv_item norm).
  Notation inv := (inv norm).
  Notation same := (same norm).

  (** * 1. references are case-insensitive *)
  Lemma ident_plain : forall x, plain x = true -> ident x = ident_p x.
  Proof.
    intros x H. unfold Model.ident, Domain.ident_p, user_ident. rewrite (unbt_plain x H). reflexivity.
  Qed.

  Lemma ident_bt : forall t, plain t = true -> ident (bt t) = mkItem (norm t) true.
  Proof. intros t H. unfold Model.ident, user_ident. rewrite (unbt_bt t H). reflexivity. Qed.

  Lemma refkey_ci : forall v n, plain v = true -> plain n = true -> norm v = norm n ->
    refkey norm v = refkey norm n.
  Proof.
    intros v n Hv Hn E. unfold refkey. rewrite (ident_plain v Hv), (ident_plain n Hn).
    unfold Domain.ident_p, qp. simpl.
    rewrite <- (norm_qspark v), <- (norm_qspark n), E. reflexivity.
  Qed.

  Theorem lookup_case_insensitive : forall d v n,
    plain v = true -> plain n = true -> norm v = norm n -> resolve norm d v = resolve norm d n.
  Proof. intros d v n Hv Hn E. unfold resolve. rewrite (refkey_ci v n Hv Hn E). reflexivity. Qed.

  (** back-ticks around a name that needs them change nothing *)
  Theorem ticks_optional : forall d t, plain t = true -> qspark t = true ->
    resolve norm d (bt t) = resolve norm d t.
  Proof.
    intros d t Hp Hq. unfold resolve, refkey. rewrite (ident_bt t Hp), (ident_plain t Hp).
    unfold Domain.ident_p, qp. simpl. rewrite Hq. reflexivity.
  Qed.

  (** * 2. the four views agree under the invariant *)
  Lemma canon_spec : forall it, canon it = true ->
    norm (text it) = text it /\ quoted it = qspark (text it) /\ qduck (text it) = qspark (text it)
    /\ plain (text it) = true.
  Proof.
    intros it H. unfold Domain.canon in H.
    apply andb_true_iff in H. destruct H as [H H4].
    apply andb_true_iff in H. destruct H as [H H3].
    apply andb_true_iff in H. destruct H as [H1 H2].
    apply neqb_eq in H1. apply Bool.eqb_prop in H2. apply Bool.eqb_prop in H3. tauto.
  Qed.

  Lemma inv_item_spec : forall m it, inv_item m it = true ->
    canon it = true /\ (quoted it = false \/ is_some (lookup (qp it) m) = true).
  Proof.
    intros m it H. unfold Domain.inv_item in H. apply andb_true_iff in H. destruct H as [H1 H2].
    split; [exact H1|]. apply orb_true_iff in H2. destruct H2 as [H2|H2]; [left|right; exact H2].
    destruct (quoted it); [discriminate | reflexivity].
  Qed.

  Lemma requote_canon : forall it, canon it = true -> requote (norm (text it)) = qp it.
  Proof.
    intros it H. destruct (canon_spec it H) as (H1 & H2 & H3 & H4).
    rewrite H1. unfold requote, qp. rewrite H3, H2. reflexivity.
  Qed.
  Lemma schema_key_canon : forall it, canon it = true -> schema_key c (norm (text it)) = qp it.
  Proof.
    intros it H. unfold schema_key. destruct (schema_key_spark c); [|apply requote_canon, H].
    destruct (canon_spec it H) as (H1 & H2 & H3 & H4). rewrite H1. unfold qp. rewrite H2. reflexivity.
  Qed.

  Theorem views_agree_inv : forall d,
    views_cfg_ok c = true -> inv d = true ->
    columns c d = pandas norm c d /\ fields norm c d = pandas norm c d /\ schema norm c d = pandas norm c d.
  Proof.
    intros d Hc Hi. unfold views_cfg_ok in Hc.
    apply andb_true_iff in Hc. destruct Hc as [Hc V4].
    apply andb_true_iff in Hc. destruct Hc as [Hc V3].
    apply andb_true_iff in Hc. destruct Hc as [V1 V2].
    unfold Domain.inv in Hi. rewrite forallb_forall in Hi.
    unfold columns, pandas, fields, schema, fields_raw. rewrite V1, V2, V3, V4.
    split; [|split]; [apply map_ext_in | reflexivity | apply map_ext_in]; intros it Hin;
      destruct (inv_item_spec _ _ (Hi it Hin)) as [Hcan Hq];
      destruct (canon_spec it Hcan) as (H1 & H2 & H3 & H4).
    - destruct (lookup (qp it) (dmap d)); [reflexivity | symmetry; exact H1].
    - cbv zeta. rewrite (schema_key_canon it Hcan).
      destruct (lookup (qp it) (dmap d)) eqn:E; [reflexivity|].
      destruct Hq as [Hq|Hq]; [|discriminate].
      unfold schema_miss. destruct (schema_key_spark c); [reflexivity|].
      rewrite (requote_canon it Hcan). unfold qp. rewrite Hq. symmetry. exact H1.
  Qed.

  (** * 3. the invariant holds in every state reachable through the recording alphabet *)
  Lemma canon_renorm : forall it, canon it = true -> renorm it = it.
  Proof.
    intros [t q] H. destruct (canon_spec _ H) as (H1 & H2 & H3 & H4). simpl in *.
    unfold Model.renorm, qp. simpl. destruct q.
    - rewrite (ident_bt t H4). rewrite H1. reflexivity.
    - rewrite (ident_plain t H4). unfold Domain.ident_p. rewrite H1, <- H2. reflexivity.
  Qed.

  Definition Inv (m : dmap_t) (l : list item) : Prop := forall it, In it l -> inv_item m it = true.
  Lemma inv_Inv : forall d, inv d = true <-> Inv (dmap d) (sel d).
  Proof. intro d. unfold Domain.inv, Inv. apply forallb_forall. Qed.

  Lemma Inv_renorm : forall m l, Inv m l -> map renorm l = l.
  Proof.
    intros m l H. rewrite <- (map_id l) at 2. apply map_ext_in. intros it Hin.
    apply canon_renorm. exact (proj1 (inv_item_spec _ _ (H it Hin))).
  Qed.

  (** map extension *)
  Definition ext (m m' : dmap_t) : Prop := forall k, is_some (lookup k m) = true -> is_some (lookup k m') = true.
  Lemma ext_refl : forall m, ext m m.
  Proof. intros m k H. exact H. Qed.
  Lemma ext_trans : forall a b d, ext a b -> ext b d -> ext a d.
  Proof. intros a b d H1 H2 k H. apply H2, H1, H. Qed.
  Lemma ext_upd : forall k v m, ext m (upd k v m).
  Proof. intros k v m k' H. unfold upd. simpl. destruct (neqb k' k); [reflexivity | exact H]. Qed.
  Lemma ext_upd_all : forall kvs m, ext m (upd_all kvs m).
  Proof.
    unfold upd_all. induction kvs as [|kv r IH]; intro m; simpl; [apply ext_refl|].
    eapply ext_trans; [apply ext_upd | apply IH].
  Qed.
  Lemma hit_upd_all : forall kvs m k, In k (map fst kvs) -> is_some (lookup k (upd_all kvs m)) = true.
  Proof.
    unfold upd_all. induction kvs as [|[k1 v1] r IH]; intros m k H; simpl in *; [contradiction|].
    destruct (in_dec (list_eq_dec N.eq_dec) k (map fst r)) as [Hin|Hnin].
    - apply IH. exact Hin.
    - destruct H as [H|H]; [|contradiction]. subst k1.
      apply (ext_upd_all r (upd k v1 m)). unfold upd. simpl. rewrite neqb_refl. reflexivity.
  Qed.
  Lemma Inv_ext : forall m m' l, Inv m l -> ext m m' -> Inv m' l.
  Proof.
    intros m m' l H E it Hin. specialize (H it Hin). destruct (inv_item_spec _ _ H) as [Hc Hq].
    unfold Domain.inv_item. rewrite Hc. simpl. destruct Hq as [Hq|Hq].
    - rewrite Hq. reflexivity.
    - rewrite (E _ Hq). apply orb_true_r.
  Qed.
  Lemma Inv_sub : forall m l l', Inv m l -> (forall it, In it l' -> In it l) -> Inv m l'.
  Proof. intros m l l' H S it Hin. apply H, S, Hin. Qed.
  Lemma Inv_app : forall m l l', Inv m l -> Inv m l' -> Inv m (l ++ l').
  Proof. intros m l l' H H' it Hin. apply in_app_or in Hin. destruct Hin; auto. Qed.

  (** new items *)
  Lemma duck_ok_alt : forall n, duck_ok norm n = Bool.eqb (qduck n) (qspark n).
  Proof. intro n. unfold duck_ok, qduck. rewrite norm_qspark, norm_digit. reflexivity. Qed.

  Lemma good_name_spec : forall n, good_name n = true -> plain n = true /\ qduck (norm n) = qspark n.
  Proof.
    intros n H. unfold Domain.good_name in H. apply andb_true_iff in H. destruct H as [H1 H2].
    unfold duck_ok in H2. apply Bool.eqb_prop in H2. tauto.
  Qed.

  Lemma canon_ident_p : forall n, good_name n = true -> canon (ident_p n) = true.
  Proof.
    intros n H. destruct (good_name_spec n H) as [Hp Hd].
    unfold Domain.canon, Domain.ident_p. simpl.
    rewrite norm_idem, neqb_refl, norm_qspark, Hd, norm_plain, Hp, !Bool.eqb_reflx. reflexivity.
  Qed.

  Lemma ident_good : forall n, good_name n = true -> ident n = ident_p n.
  Proof. intros n H. apply ident_plain. exact (proj1 (good_name_spec n H)). Qed.

  Lemma ident_ref_ok : forall x, ref_ok x = true -> ident x = ident_p (attr x) /\ good_name (attr x) = true.
  Proof.
    intros x H. unfold Domain.ref_ok in H. apply andb_true_iff in H. destruct H as [Hg H].
    split; [|exact Hg]. destruct (good_name_spec _ Hg) as [Hp _].
    unfold attr, user_ident in *. destruct (unbt x) as [t|] eqn:E; simpl in *.
    - apply orb_true_iff in H. destruct H as [H|H].
      + rewrite (unbt_plain x H) in E. discriminate.
      + unfold Model.ident, user_ident. rewrite E. unfold Domain.ident_p. simpl. rewrite H. reflexivity.
    - unfold Model.ident, user_ident. rewrite E. reflexivity.
  Qed.

  Lemma inv_item_new_hit : forall m it, canon it = true -> is_some (lookup (qp it) m) = true -> inv_item m it = true.
  Proof. intros m it Hc Hh. unfold Domain.inv_item. rewrite Hc, Hh. simpl. apply orb_true_r. Qed.
  Lemma inv_item_new_unq : forall m it, canon it = true -> quoted it = false -> inv_item m it = true.
  Proof. intros m it Hc Hq. unfold Domain.inv_item. rewrite Hc, Hq. reflexivity. Qed.

  (** the wrapper changes neither the select list (of canonical items) nor the map *)
  Lemma dmap_pre_with : forall wn nkf iw k d, dmap (fst (fst (pre_with norm wn nkf iw k d))) = dmap d.
  Proof.
    intros wn nkf iw [k|] d; unfold pre_with; [|reflexivity].
    destruct (opk_eqb (last d) INIT); destruct iw; simpl;
      match goal with |- context [if ?b then _ else _] => destruct b end; reflexivity.
  Qed.
  Lemma sel_pre_with : forall wn nkf iw k d, Inv (dmap d) (sel d) ->
    sel (fst (fst (pre_with norm wn nkf iw k d))) = sel d.
  Proof.
    intros wn nkf iw [k|] d H; unfold pre_with; [|reflexivity].
    pose proof (Inv_renorm _ _ H) as R.
    destruct (opk_eqb (last d) INIT); destruct iw; simpl;
      match goal with |- context [if ?b then _ else _] => destruct b end; simpl; rewrite ?R, ?R; reflexivity.
  Qed.

  Lemma record_sel : forall rk kvs d, sel (snd (record rk kvs d)) = sel d.
  Proof. intros [] kvs d; reflexivity. Qed.
  Lemma record_ext : forall rk kvs d, ext (dmap d) (dmap (snd (record rk kvs d))).
  Proof. intros [] kvs d; simpl; try apply ext_refl; apply ext_upd_all. Qed.
  Lemma record_dmap : forall rk kvs d, rk_records rk = true ->
    dmap (snd (record rk kvs d)) = upd_all kvs (dmap d).
  Proof. intros [] kvs d H; try discriminate; reflexivity. Qed.

  Lemma psc_sel : forall d cols, sel (public_select_copy norm c d cols) = map fst cols.
  Proof. reflexivity. Qed.
  Lemma psc_ext : forall d cols, ext (dmap d) (dmap (public_select_copy norm c d cols)).
  Proof.
    intros d cols. unfold public_select_copy. simpl.
    eapply ext_trans; [|apply record_ext]. unfold pre. rewrite dmap_pre_with. apply ext_refl.
  Qed.
  Lemma resel_sel : forall m d cols, sel (reselect norm c m d cols) = map fst cols.
  Proof. intros m d cols. unfold reselect. destruct (resel_of c m); reflexivity. Qed.
  Lemma resel_ext : forall m d cols, ext (dmap d) (dmap (reselect norm c m d cols)).
  Proof. intros m d cols. unfold reselect. destruct (resel_of c m); [apply ext_refl | apply psc_ext]. Qed.

  Lemma join_dmap_ext : forall d l rn, ext (dmap d) (join_dmap norm c d l rn).
  Proof. intros d l rn. unfold join_dmap. destruct (join_merges c); [apply ext_upd_all | apply ext_refl]. Qed.

  Lemma In_replace_first : forall k new l x, In x (replace_first k new l) -> x = new \/ In x l.
  Proof.
    induction l as [|it r IH]; intros x H; simpl in *; [contradiction|].
    destruct (neqb (qp it) k); simpl in H.
    - destruct H as [H|H]; [left; congruence | right; right; exact H].
    - destruct H as [H|H]; [right; left; exact H|]. destruct (IH x H); [left|right; right]; assumption.
  Qed.

  Lemma cfg_ok_spec : cfg_ok c = true ->
    views_cfg_ok c = true /\ rk_records (rec_of c MCreate) = true /\ rk_records (rec_of c MSelect) = true
    /\ rk_records (rec_of c MWithColumn) = true /\ rk_records (rec_of c MWithColumnRenamed) = true
    /\ rk_records (rec_of c MAgg) = true /\ col_disp_ident c = true /\ alias_disp_raw c = true.
  Proof.
    unfold cfg_ok. intro H. do 7 (apply andb_true_iff in H; destruct H as [H ?]). tauto.
  Qed.

  Lemma sel_arg_item_v : forall a, sel_arg_ok_v norm a = true -> canon (arg_item norm a) = true.
  Proof.
    intros a H. unfold sel_arg_ok_v in H. apply andb_true_iff in H. destruct H as [H1 H2].
    destruct a as [x|x|x al|x]; simpl in *.
    - destruct (ident_ref_ok x H1) as [E G]. rewrite E. apply canon_ident_p, G.
    - destruct (ident_ref_ok x H1) as [E G]. rewrite E. apply canon_ident_p, G.
    - rewrite (ident_good al H2). apply canon_ident_p, H2.
    - destruct (ident_ref_ok x H1) as [E G]. rewrite E. apply canon_ident_p, G.
  Qed.

  Lemma outer_fst : forall d, Inv (dmap d) (sel d) -> map fst (outer norm c d) = sel d.
  Proof.
    intros d H. unfold outer. rewrite map_map. simpl. apply (Inv_renorm _ _ H).
  Qed.
  Lemma In_outer_fst : forall d cd, Inv (dmap d) (sel d) -> In cd (outer norm c d) -> In (fst cd) (sel d).
  Proof. intros d cd H Hin. rewrite <- (outer_fst d H). apply in_map, Hin. Qed.

  Lemma body_inv : forall o d self' res,
    cfg_ok c = true -> Inv (dmap d) (sel d) -> views_ok_op norm o = true ->
    body norm wordu c o d = Some (self', res) -> Inv (dmap res) (sel res).
  Proof.
    intros o d self' res Hc Hi Hv Hb.
    destruct (cfg_ok_spec Hc) as (_ & RC & RS & RW & RR & RA & CI & AR).
    destruct o; simpl in Hv, Hb.
    - (* select *)
      injection Hb as Hs Hr; subst self' res. simpl. rewrite (record_dmap _ _ _ RS).
      intros it Hin. apply in_map_iff in Hin. destruct Hin as [a [E Ha]]. subst it.
      rewrite forallb_forall in Hv.
      apply inv_item_new_hit; [apply sel_arg_item_v, Hv, Ha|].
      apply hit_upd_all. rewrite map_map. apply in_map_iff. exists a. split; [reflexivity | exact Ha].
    - (* withColumn *)
      injection Hb as Hs Hr; subst self' res. simpl. rewrite (record_dmap _ _ _ RW).
      rewrite (Inv_renorm _ _ Hi). rewrite (ident_good n Hv).
      assert (Hnew : inv_item (upd_all [(qp (ident_p n), n)] (dmap d)) (ident_p n) = true).
      { apply inv_item_new_hit; [apply canon_ident_p, Hv|]. apply hit_upd_all. left. reflexivity. }
      assert (Hold : Inv (upd_all [(qp (ident_p n), n)] (dmap d)) (sel d)).
      { eapply Inv_ext; [exact Hi | apply ext_upd_all]. }
      destruct (mem (qp (ident_p n)) (map qp (sel d))).
      + intros it Hin. apply In_replace_first in Hin. destruct Hin as [->|Hin]; [exact Hnew | apply Hold, Hin].
      + apply Inv_app; [exact Hold|]. intros it [<-|[]]. exact Hnew.
    - (* withColumnRenamed *)
      rewrite (Inv_renorm _ _ Hi) in Hb.
      destruct (mem (qp (ident o)) (map qp (sel d))); [|discriminate].
      injection Hb as Hs Hr; subst self' res. simpl. rewrite (record_dmap _ _ _ RR).
      unfold alias_rec. rewrite (ident_good n Hv).
      intros it Hin. apply in_map_iff in Hin. destruct Hin as [x [E Hx]].
      destruct (neqb (qp x) (qp (ident o))); subst it.
      + apply inv_item_new_hit; [apply canon_ident_p, Hv|]. apply hit_upd_all. left. reflexivity.
      + eapply Inv_ext; [exact Hi | apply ext_upd_all | exact Hx].
    - discriminate.
    - (* drop *)
      injection Hb as Hs Hr; subst self' res. rewrite resel_sel.
      eapply Inv_ext; [|apply resel_ext]. rewrite map_map. simpl.
      intros it Hin. apply in_map_iff in Hin. destruct Hin as [cd [E Hcd]]. subst it.
      apply filter_In in Hcd. apply Hi, In_outer_fst; tauto.
    - (* groupBy.agg *)
      match type of Hb with (if ?b then _ else _) = _ => destruct b end; [discriminate|].
      injection Hb as Hs Hr; subst self' res. simpl.
      apply andb_true_iff in Hv. destruct Hv as [Hk Ha]. rewrite forallb_forall in Hk, Ha.
      apply Inv_app; intros it Hin; apply in_map_iff in Hin; destruct Hin as [a [E Hin]]; subst it.
      + specialize (Hk a Hin). destruct a as [x|x|x al|x]; simpl in Hk; try discriminate;
          apply andb_true_iff in Hk; destruct Hk as [H1 H2]; destruct (ident_ref_ok x H1) as [E G]; simpl; rewrite E;
          (apply inv_item_new_unq; [apply canon_ident_p, G | simpl; destruct (qspark (attr x)); [discriminate|reflexivity]]).
      + specialize (Ha a Hin). unfold bare_unquoted in Ha. apply andb_true_iff in Ha. destruct Ha as [H1 H2].
        rewrite (ident_good a H1). apply inv_item_new_unq; [apply canon_ident_p, H1|].
        simpl. destruct (qspark a); [discriminate|reflexivity].
    - (* agg *)
      injection Hb as Hs Hr; subst self' res. simpl. rewrite (record_dmap _ _ _ RA).
      rewrite forallb_forall in Hv.
      intros it Hin. apply in_map_iff in Hin. destruct Hin as [a [E Ha]]. subst it.
      rewrite (ident_good a (Hv a Ha)).
      apply inv_item_new_hit; [apply canon_ident_p, Hv, Ha|].
      apply hit_upd_all. rewrite map_map. apply in_map_iff. exists a. split; [|exact Ha].
      unfold alias_rec. simpl. rewrite (ident_good a (Hv a Ha)). reflexivity.
    - (* join *)
      destruct (join_keys_found norm c d keys); [|discriminate].
      injection Hb as Hs Hr; subst self' res. simpl.
      apply (Inv_ext (dmap d)); [|apply join_dmap_ext].
      apply andb_true_iff in Hv. destruct Hv as [Hr Hk]. rewrite forallb_forall in Hr, Hk.
      rewrite (Inv_renorm _ _ Hi).
      assert (BU : forall n, bare_unquoted norm n = true ->
                   inv_item (dmap d) (ident n) = true /\ renorm (ident n) = ident n).
      { intros n H. unfold bare_unquoted in H. apply andb_true_iff in H. destruct H as [H1 H2].
        rewrite (ident_good n H1). split; [|apply canon_renorm, canon_ident_p, H1].
        apply inv_item_new_unq; [apply canon_ident_p, H1|]. simpl. destruct (qspark n); [discriminate|reflexivity]. }
      intros it Hin. apply in_map_iff in Hin. destruct Hin as [nmx [E Hin]]. subst it.
      apply in_app_or in Hin. destruct Hin as [Hin|Hin].
      + apply in_map_iff in Hin. destruct Hin as [k [E Hk']]. subst nmx.
        destruct (BU k (Hk k Hk')) as [B1 B2]. fold (renorm (ident k)). rewrite B2. exact B1.
      + apply filter_In in Hin. destruct Hin as [Hin _]. apply in_map_iff in Hin. destruct Hin as [x [E Hx]]. subst nmx.
        fold (renorm x). apply in_app_or in Hx. destruct Hx as [Hx|Hx].
        * rewrite (canon_renorm x (proj1 (inv_item_spec _ _ (Hi x Hx)))). apply Hi, Hx.
        * apply in_map_iff in Hx. destruct Hx as [n [E Hn]]. subst x.
          destruct (BU n (Hr n Hn)) as [B1 B2]. rewrite B2. exact B1.
    - (* fillna *)
      injection Hb as Hs Hr; subst self' res. rewrite resel_sel.
      eapply Inv_ext; [|apply resel_ext]. rewrite map_map.
      intros it Hin. apply in_map_iff in Hin. destruct Hin as [cd [E Hcd]]. subst it.
      pose proof (In_outer_fst d cd Hi Hcd) as Hf.
      match goal with |- context [if ?b then _ else _] => destruct b end; simpl.
      + fold (renorm (fst cd)). rewrite (canon_renorm _ (proj1 (inv_item_spec _ _ (Hi _ Hf)))). apply Hi, Hf.
      + apply Hi, Hf.
    - (* dropna *)
      injection Hb as Hs Hr; subst self' res. rewrite resel_sel.
      rewrite map_map. simpl. change (map (fun x => fst x) (outer norm c d)) with (map fst (outer norm c d)).
      rewrite (outer_fst d Hi).
      eapply Inv_ext; [exact Hi|].
      eapply ext_trans; [|apply resel_ext]. simpl. unfold pre. rewrite dmap_pre_with. apply psc_ext.
    - discriminate.
    - injection Hb as Hs Hr; subst self' res. exact Hi.
    - destruct (forallb (orderby_parses norm c d) vs && forallb (orderby_binds norm c d) vs); [|discriminate].
      injection Hb as Hs Hr; subst self' res. exact Hi.
    - injection Hb as Hs Hr; subst self' res. exact Hi.
    - injection Hb as Hs Hr; subst self' res. exact Hi.
    - match type of Hb with (if ?b then _ else _) = _ => destruct b end; [|discriminate].
      injection Hb as Hs Hr; subst self' res. exact Hi.
    - (* join on a condition *)
      injection Hb as Hs Hr; subst self' res. simpl.
      apply (Inv_ext (dmap d)); [|apply join_dmap_ext].
      rewrite forallb_forall in Hv. rewrite (Inv_renorm _ _ Hi).
      intros it Hin. apply in_map_iff in Hin. destruct Hin as [nmx [E Hin]]. subst it.
      apply in_map_iff in Hin. destruct Hin as [x [E Hx]]. subst nmx. fold (renorm x).
      apply in_app_or in Hx. destruct Hx as [Hx|Hx].
      + rewrite (canon_renorm x (proj1 (inv_item_spec _ _ (Hi x Hx)))). apply Hi, Hx.
      + apply in_map_iff in Hx. destruct Hx as [n [E Hn]]. subst x.
        specialize (Hv n Hn). unfold bare_unquoted in Hv. apply andb_true_iff in Hv. destruct Hv as [H1 H2].
        rewrite (ident_good n H1). rewrite (canon_renorm _ (canon_ident_p n H1)).
        apply inv_item_new_unq; [apply canon_ident_p, H1|]. simpl. destruct (qspark n); [discriminate|reflexivity].
  Qed.

  Lemma pre_Inv : forall m d, Inv (dmap d) (sel d) ->
    Inv (dmap (fst (fst (pre norm c m d)))) (sel (fst (fst (pre norm c m d)))).
  Proof. intros m d H. unfold pre. rewrite dmap_pre_with, (sel_pre_with _ _ _ _ d H). exact H. Qed.

  Lemma step_prim_inv : forall o d rv d',
    cfg_ok c = true -> Inv (dmap d) (sel d) -> views_ok_op norm o = true ->
    step_prim norm wordu c o d = Some (rv, d') -> Inv (dmap d') (sel d').
  Proof.
    intros o d rv d' Hc Hi Hv Hs. unfold step_prim in Hs.
    destruct (body norm wordu c o (fst (fst (pre norm c (meth_of o) d)))) as [[self' res]|] eqn:Hb; [|discriminate].
    pose proof (body_inv _ _ _ _ Hc (pre_Inv (meth_of o) d Hi) Hv Hb) as Hr.
    injection Hs as _ Hd. subst d'. destruct o; exact Hr.
  Qed.

  Lemma good_row_num : good_name (s "row_num") = true.
  Proof. unfold Domain.good_name. rewrite duck_ok_alt. reflexivity. Qed.

  Lemma step_inv : forall o d rv d',
    cfg_ok c = true -> Inv (dmap d) (sel d) -> views_ok_op norm o = true ->
    step norm wordu c o d = Some (rv, d') -> Inv (dmap d') (sel d').
  Proof.
    intros o d rv d' Hc Hi Hv Hs.
    destruct o; try exact (step_prim_inv _ _ _ _ Hc Hi Hv Hs).
    (* dropDuplicates: withColumn row_num / where / drop on a copy *)
    unfold step in Hs.
    set (d1 := fst (fst (pre norm c MDropDuplicates d))) in *.
    assert (H1 : Inv (dmap d1) (sel d1)) by (apply pre_Inv, Hi).
    destruct (step_prim norm wordu c (OWithColumn (s "row_num")) d1) as [[r1 e1]|] eqn:E1; [|discriminate].
    cbn [bind snd] in Hs.
    destruct (step_prim norm wordu c (OWhere (s "row_num")) e1) as [[r2 e2]|] eqn:E2; [|discriminate].
    cbn [bind snd] in Hs.
    destruct (step_prim norm wordu c (ODrop [s "row_num"]) e2) as [[r3 e3]|] eqn:E3; [|discriminate].
    cbn [bind snd] in Hs. injection Hs as _ Hd. subst d'.
    change (Inv (dmap e3) (sel e3)).
    pose proof (step_prim_inv (OWithColumn (s "row_num")) _ _ _ Hc H1 good_row_num E1) as I1.
    pose proof (step_prim_inv (OWhere (s "row_num")) _ _ _ Hc I1 eq_refl E2) as I2.
    exact (step_prim_inv (ODrop [s "row_num"]) _ _ _ Hc I2 eq_refl E3).
  Qed.

  Lemma create_inv : forall ns, cfg_ok c = true -> forallb good_name ns = true ->
    Inv (dmap (create norm c ns)) (sel (create norm c ns)).
  Proof.
    intros ns Hc Hg. destruct (cfg_ok_spec Hc) as (_ & RC & _).
    unfold create. destruct (rec_of c MCreate) eqn:ER; [discriminate| |]; simpl;
      intros it Hin; apply in_map_iff in Hin; destruct Hin as [n [E Hn]]; subst it;
      rewrite forallb_forall in Hg; rewrite (ident_good n (Hg n Hn));
      (apply inv_item_new_hit; [apply canon_ident_p, Hg, Hn|]);
      apply hit_upd_all; rewrite map_map; apply in_map_iff; exists n; (split; [|exact Hn]);
      simpl; rewrite (ident_good n (Hg n Hn)); reflexivity.
  Qed.

  Lemma run_inv : forall ops d d',
    cfg_ok c = true -> Inv (dmap d) (sel d) -> forallb (views_ok_op norm) ops = true ->
    run norm wordu c d ops = Some d' -> Inv (dmap d') (sel d').
  Proof.
    induction ops as [|o r IH]; intros d d' Hc Hi Hv Hr; simpl in *.
    - injection Hr as <-. exact Hi.
    - apply andb_true_iff in Hv. destruct Hv as [Ho Hv].
      destruct (step norm wordu c o d) as [[rv e]|] eqn:E; [|discriminate].
      exact (IH e d' Hc (step_inv _ _ _ _ Hc Hi Ho E) Hv Hr).
  Qed.

  (** every frame reachable from createDataFrame through any sequence of select / withColumn / withColumnRenamed /
      drop / fillna / dropna / dropDuplicates / agg / groupBy.agg / join / where / orderBy / limit / distinct
      (everything but toDF; unquoted names where the method does not record) shows the same names in all four views *)
  Theorem views_agree : forall ns ops d,
    cfg_ok c = true -> forallb good_name ns = true -> forallb (views_ok_op norm) ops = true ->
    run norm wordu c (create norm c ns) ops = Some d ->
    columns c d = pandas norm c d /\ fields norm c d = pandas norm c d /\ schema norm c d = pandas norm c d.
  Proof.
    intros ns ops d Hc Hg Hv Hr.
    apply views_agree_inv; [exact (proj1 (cfg_ok_spec Hc))|].
    apply inv_Inv. exact (run_inv ops _ d Hc (create_inv ns Hc Hg) Hv Hr).
  Qed.

  (** * 4. on the recording alphabet the names are Spark's *)
  Lemma mem_In : forall k l, mem k l = true <-> In k l.
  Proof.
    intros k l. unfold mem. rewrite existsb_exists. split.
    - intros [x [H1 H2]]. apply neqb_eq in H2. subst. exact H1.
    - intro H. exists k. split; [exact H | apply neqb_refl].
  Qed.
  Lemma mem_false : forall k l, mem k l = false <-> ~ In k l.
  Proof.
    intros k l. split.
    - intros H Hin. apply mem_In in Hin. congruence.
    - intro H. destruct (mem k l) eqn:E; [apply mem_In in E; contradiction | reflexivity].
  Qed.
  Lemma nodupb_NoDup : forall l, nodupb l = true -> NoDup l.
  Proof.
    induction l as [|x r IH]; intro H; simpl in H; [constructor|].
    apply andb_true_iff in H. destruct H as [H1 H2]. constructor; [|apply IH, H2].
    apply mem_false. destruct (mem x r); [discriminate | reflexivity].
  Qed.
  Lemma NoDup_snoc : forall (l : list name) x, NoDup l -> ~ In x l -> NoDup (l ++ [x]).
  Proof.
    induction l as [|y r IH]; intros x H Hn; simpl.
    - constructor; [intros []|constructor].
    - inversion H; subst. constructor.
      + intro Hin. apply in_app_or in Hin. destruct Hin as [Hin|[->|[]]]; [contradiction|]. apply Hn. left. reflexivity.
      + apply IH; [assumption|]. intro Hin. apply Hn. right. exact Hin.
  Qed.

  Lemma same_sym : forall a b, same a b = same b a.
  Proof. intros a b. unfold Spec.same. apply neqb_sym. Qed.
  Lemma same_true : forall a b, same a b = true <-> norm a = norm b.
  Proof. intros a b. unfold Spec.same. apply neqb_eq. Qed.

  Lemma key_eq : forall a b, plain a = true -> plain b = true ->
    (qp (ident_p a) = qp (ident_p b) <-> norm a = norm b).
  Proof.
    intros a b Ha Hb. unfold Domain.ident_p, qp. simpl. split.
    - intro H. destruct (qspark a) eqn:Qa; destruct (qspark b) eqn:Qb.
      + apply bt_inj, H.
      + exfalso. apply (bt_neq_plain (norm a) (norm b)); [rewrite norm_plain; exact Hb | exact H].
      + exfalso. apply (bt_neq_plain (norm b) (norm a)); [rewrite norm_plain; exact Ha | symmetry; exact H].
      + exact H.
    - intro H. rewrite <- (norm_qspark a), <- (norm_qspark b), H. reflexivity.
  Qed.
  Lemma key_neqb : forall a b, plain a = true -> plain b = true ->
    neqb (qp (ident_p a)) (qp (ident_p b)) = same a b.
  Proof.
    intros a b Ha Hb. destruct (same a b) eqn:E.
    - apply neqb_eq. apply key_eq; [assumption..|]. apply same_true, E.
    - apply neqb_neq. intro H. apply key_eq in H; [|assumption..]. apply same_true in H. congruence.
  Qed.

  Lemma lookup_upd_all_notin : forall kvs m k, ~ In k (map fst kvs) -> lookup k (upd_all kvs m) = lookup k m.
  Proof.
    unfold upd_all. induction kvs as [|[k1 v1] r IH]; intros m k H; simpl in *; [reflexivity|].
    rewrite IH; [|tauto]. unfold upd. simpl.
    destruct (neqb k k1) eqn:E; [|reflexivity]. apply neqb_eq in E. subst. tauto.
  Qed.

  Definition kv (n : name) : name * name := (qp (ident_p n), n).
  Lemma lookup_recorded : forall ns m n,
    (forall x, In x ns -> plain x = true) -> NoDup (map norm ns) -> In n ns ->
    lookup (qp (ident_p n)) (upd_all (map kv ns) m) = Some n.
  Proof.
    induction ns as [|x r IH]; intros m n Hp Hnd Hin; [contradiction|].
    simpl in Hnd. inversion Hnd as [|? ? Hx Hr]; subst.
    change (upd_all (map kv (x :: r)) m) with (upd_all (map kv r) (upd (qp (ident_p x)) x m)).
    destruct (in_dec (list_eq_dec N.eq_dec) n r) as [Hnr|Hnr].
    - apply IH; [intros y Hy; apply Hp; right; exact Hy | exact Hr | exact Hnr].
    - destruct Hin as [->|Hin]; [|contradiction].
      rewrite lookup_upd_all_notin.
      + unfold upd. simpl. rewrite neqb_refl. reflexivity.
      + rewrite map_map. simpl. intro Hin. apply in_map_iff in Hin. destruct Hin as [y [E Hy]].
        apply key_eq in E; [|apply Hp; right; exact Hy | apply Hp; left; reflexivity].
        apply Hx. rewrite <- E. apply in_map, Hy.
  Qed.

  Definition Rel (d : df) (ns : list name) : Prop :=
    sel d = map ident_p ns /\ (forall n, In n ns -> lookup (qp (ident_p n)) (dmap d) = Some n)
    /\ (forall n, In n ns -> good_name n = true) /\ NoDup (map norm ns).

  Lemma Rel_Inv : forall d ns, Rel d ns -> Inv (dmap d) (sel d).
  Proof.
    intros d ns (Hs & Hl & Hg & _) it Hin. rewrite Hs in Hin. apply in_map_iff in Hin.
    destruct Hin as [n [E Hn]]. subst it.
    apply inv_item_new_hit; [apply canon_ident_p, Hg, Hn|]. rewrite (Hl n Hn). reflexivity.
  Qed.

  Lemma Rel_columns : forall d ns, v_columns_map c = true -> Rel d ns -> columns c d = ns.
  Proof.
    intros d ns V (Hs & Hl & _). unfold columns. rewrite V, Hs, map_map.
    rewrite <- (map_id ns) at 2. apply map_ext_in. intros n Hn. rewrite (Hl n Hn). reflexivity.
  Qed.

  Lemma good_plain : forall n, good_name n = true -> plain n = true.
  Proof. intros n H. exact (proj1 (good_name_spec n H)). Qed.

  Lemma sel_arg_facts : forall ns a, cfg_ok c = true -> sel_arg_ok norm ns a = true ->
    arg_item norm a = ident_p (arg_name a) /\ good_name (arg_name a) = true
    /\ arg_rec norm c a = kv (arg_name a) /\ resolves norm ns (arg_ref a) = true.
  Proof.
    intros ns a Hc H. destruct (cfg_ok_spec Hc) as (_ & _ & _ & _ & _ & _ & CI & AR).
    unfold sel_arg_ok in H. apply andb_true_iff in H. destruct H as [H H3].
    apply andb_true_iff in H. destruct H as [H1 H2].
    unfold arg_rec, kv. destruct a as [x|x|x al|x]; simpl in *.
    - destruct (ident_ref_ok x H1) as [E G]. rewrite E.
      assert (A : attr x = x) by (unfold attr, user_ident; rewrite (unbt_plain x H3); reflexivity).
      rewrite A in *. destruct (str_disp_raw c); auto.
    - destruct (ident_ref_ok x H1) as [E G]. rewrite E, CI. auto.
    - rewrite (ident_good al H3), AR. auto.
    - destruct (ident_ref_ok x H1) as [E G]. rewrite E, CI. auto.
  Qed.

  Lemma mem_keys_same : forall ns n, (forall x, In x ns -> plain x = true) -> plain n = true ->
    mem (qp (ident_p n)) (map qp (map ident_p ns)) = existsb (fun x => same x n) ns.
  Proof.
    induction ns as [|x r IH]; intros n Hp Hn; [reflexivity|]. simpl.
    rewrite IH; [|intros y Hy; apply Hp; right; exact Hy | exact Hn].
    rewrite (key_neqb n x Hn (Hp x (or_introl eq_refl))), same_sym. reflexivity.
  Qed.

  Lemma replace_first_spec : forall ns n,
    (forall x, In x ns -> plain x = true) -> plain n = true -> NoDup (map norm ns) ->
    replace_first (qp (ident_p n)) (ident_p n) (map ident_p ns)
    = map ident_p (map (fun x => if same x n then n else x) ns).
  Proof.
    induction ns as [|x r IH]; intros n Hp Hn Hnd; [reflexivity|].
    simpl in *. inversion Hnd as [|? ? Hx Hr]; subst.
    rewrite (key_neqb x n (Hp x (or_introl eq_refl)) Hn).
    destruct (same x n) eqn:E.
    - f_equal. f_equal. rewrite <- (map_id r) at 1. apply map_ext_in. intros y Hy.
      destruct (same y n) eqn:E2; [|reflexivity]. exfalso. apply Hx.
      apply same_true in E, E2. rewrite E, <- E2. apply in_map, Hy.
    - f_equal. apply IH; [intros y Hy; apply Hp; right; exact Hy | exact Hn | exact Hr].
  Qed.

  Lemma rename_nodup : forall ns o n, NoDup (map norm ns) ->
    forallb (fun x => same x o || negb (same x n)) ns = true ->
    NoDup (map norm (map (fun x => if same x o then n else x) ns)).
  Proof.
    induction ns as [|x r IH]; intros o n Hnd Hf; [constructor|].
    simpl in *. inversion Hnd as [|? ? Hx Hr]; subst.
    apply andb_true_iff in Hf. destruct Hf as [Hfx Hfr].
    constructor; [|apply IH; assumption].
    rewrite forallb_forall in Hfr.
    intro Hin. rewrite map_map in Hin. apply in_map_iff in Hin. destruct Hin as [y [E Hy]].
    specialize (Hfr y Hy).
    destruct (same x o) eqn:Exo; destruct (same y o) eqn:Eyo; simpl in *.
    - apply Hx. apply same_true in Exo, Eyo. rewrite Exo, <- Eyo. apply in_map, Hy.
    - destruct (same y n) eqn:Eyn; [discriminate|]. apply same_true in E. congruence.
    - destruct (same x n) eqn:Exn; [discriminate|]. symmetry in E. apply same_true in E. congruence.
    - apply Hx. rewrite <- E. apply in_map, Hy.
  Qed.

  Lemma body_rel : forall o d ns self' res,
    cfg_ok c = true -> Rel d ns -> good_op norm ns o = true ->
    body norm wordu c o d = Some (self', res) ->
    exists ns', spec_step norm o ns = Some ns' /\ Rel res ns'.
  Proof.
    intros o d ns self' res Hc HR Hv Hb.
    destruct (cfg_ok_spec Hc) as (_ & RC & RS & RW & RR & RA & CI & AR).
    pose proof (Rel_Inv d ns HR) as Hi.
    destruct HR as (Hs & Hl & Hg & Hnd).
    assert (Hp : forall x, In x ns -> plain x = true) by (intros x Hx; apply good_plain, Hg, Hx).
    destruct o; simpl in Hv; try discriminate; simpl in Hb.
    - (* select *)
      apply andb_true_iff in Hv. destruct Hv as [Hv _].
      apply andb_true_iff in Hv. destruct Hv as [Ha Hn]. rewrite forallb_forall in Ha.
      injection Hb as _ Hr. subst res.
      exists (map (arg_name) args). split.
      + simpl. replace (forallb (fun a => resolves norm ns (arg_ref a)) args) with true; [reflexivity|].
        symmetry. apply forallb_forall. intros a Hin. exact (proj2 (proj2 (proj2 (sel_arg_facts ns a Hc (Ha a Hin))))).
      + assert (Hgn : forall n, In n (map arg_name args) -> good_name n = true).
        { intros n Hin. apply in_map_iff in Hin. destruct Hin as [a [E Hin]]. subst n.
          exact (proj1 (proj2 (sel_arg_facts ns a Hc (Ha a Hin)))). }
        split; [|split; [|split]].
        * simpl. rewrite map_map. apply map_ext_in. intros a Hin. exact (proj1 (sel_arg_facts ns a Hc (Ha a Hin))).
        * intros n Hin. simpl. rewrite (record_dmap _ _ _ RS).
          replace (map (arg_rec norm c) args) with (map kv (map arg_name args)).
          -- apply lookup_recorded; [intros x Hx; apply good_plain, Hgn, Hx | apply nodupb_NoDup, Hn | exact Hin].
          -- rewrite map_map. apply map_ext_in. intros a Ha'. symmetry.
             exact (proj1 (proj2 (proj2 (sel_arg_facts ns a Hc (Ha a Ha'))))).
        * exact Hgn.
        * apply nodupb_NoDup, Hn.
    - (* withColumn *)
      injection Hb as _ Hr. subst res. rewrite (Inv_renorm _ _ Hi), Hs in *.
      pose proof (good_plain n Hv) as Hpn.
      rewrite (ident_good n Hv). rewrite (mem_keys_same ns n Hp Hpn).
      eexists. split; [reflexivity|].
      destruct (existsb (fun x => same x n) ns) eqn:Ex.
      + split; [|split; [|split]].
        * simpl. apply replace_first_spec; assumption.
        * intros n' Hin. simpl. rewrite (record_dmap _ _ _ RW). unfold upd_all. simpl.
          apply in_map_iff in Hin. destruct Hin as [x [E Hx]].
          destruct (same x n) eqn:Exn; subst n'.
          -- rewrite neqb_refl. reflexivity.
          -- rewrite (key_neqb x n (Hp x Hx) Hpn), Exn. apply Hl, Hx.
        * intros n' Hin. apply in_map_iff in Hin. destruct Hin as [x [E Hx]].
          destruct (same x n); subst n'; [exact Hv | apply Hg, Hx].
        * replace (map norm (map (fun x => if same x n then n else x) ns)) with (map norm ns); [exact Hnd|].
          rewrite map_map. apply map_ext_in. intros x Hx. destruct (same x n) eqn:E; [|reflexivity].
          apply same_true in E. exact E.
      + assert (Hno : forall x, In x ns -> same x n = false).
        { intros x Hx. destruct (same x n) eqn:E; [|reflexivity].
          assert (existsb (fun x => same x n) ns = true) by (apply existsb_exists; exists x; tauto). congruence. }
        split; [|split; [|split]].
        * simpl. rewrite map_app. reflexivity.
        * intros n' Hin. simpl. rewrite (record_dmap _ _ _ RW). unfold upd_all. simpl.
          apply in_app_or in Hin. destruct Hin as [Hin|[<-|[]]].
          -- rewrite (key_neqb n' n (Hp n' Hin) Hpn), (Hno n' Hin). apply Hl, Hin.
          -- rewrite neqb_refl. reflexivity.
        * intros n' Hin. apply in_app_or in Hin. destruct Hin as [Hin|[<-|[]]]; [apply Hg, Hin | exact Hv].
        * rewrite map_app. simpl. apply NoDup_snoc; [exact Hnd|].
          intro Hin. apply in_map_iff in Hin. destruct Hin as [x [E Hx]].
          specialize (Hno x Hx). apply same_true in E. congruence.
    - (* withColumnRenamed *)
      apply andb_true_iff in Hv. destruct Hv as [Hv Hf].
      apply andb_true_iff in Hv. destruct Hv as [Hpo Hgn].
      rewrite (Inv_renorm _ _ Hi), Hs in Hb. rewrite (ident_plain o Hpo) in Hb.
      destruct (mem (qp (ident_p o)) (map qp (map ident_p ns))); [|discriminate].
      injection Hb as _ Hr. subst res.
      pose proof (good_plain n Hgn) as Hpn.
      eexists. split; [reflexivity|].
      rewrite forallb_forall in Hf.
      split; [|split; [|split]].
      + simpl. rewrite !map_map. apply map_ext_in. intros x Hx.
        rewrite (key_neqb x o (Hp x Hx) Hpo), (ident_good n Hgn). destruct (same x o); reflexivity.
      + intros n' Hin. simpl. rewrite (record_dmap _ _ _ RR). unfold upd_all, alias_rec. simpl.
        rewrite (ident_good n Hgn), AR.
        apply in_map_iff in Hin. destruct Hin as [x [E Hx]].
        destruct (same x o) eqn:Exo; subst n'.
        * rewrite neqb_refl. reflexivity.
        * specialize (Hf x Hx). simpl in Hf. rewrite Exo in Hf. simpl in Hf.
          rewrite (key_neqb x n (Hp x Hx) Hpn). destruct (same x n); [discriminate|]. apply Hl, Hx.
      + intros n' Hin. apply in_map_iff in Hin. destruct Hin as [x [E Hx]].
        destruct (same x o); subst n'; [exact Hgn | apply Hg, Hx].
      + apply rename_nodup; [exact Hnd|]. apply forallb_forall. exact Hf.
    - (* agg *)
      apply andb_true_iff in Hv. destruct Hv as [Ha Hn]. rewrite forallb_forall in Ha.
      injection Hb as _ Hr. subst res.
      exists aliases. split; [reflexivity|].
      split; [|split; [|split]].
      + simpl. apply map_ext_in. intros a Hin. apply ident_good, Ha, Hin.
      + intros n Hin. simpl. rewrite (record_dmap _ _ _ RA).
        replace (map (alias_rec norm c) aliases) with (map kv aliases).
        * apply lookup_recorded; [intros x Hx; apply good_plain, Ha, Hx | apply nodupb_NoDup, Hn | exact Hin].
        * apply map_ext_in. intros a Ha'. unfold kv, alias_rec. rewrite (ident_good a (Ha a Ha')), AR. reflexivity.
      + exact Ha.
      + apply nodupb_NoDup, Hn.
    - (* where *)
      injection Hb as _ Hr. subst res. exists ns. simpl. rewrite Hv. split; [reflexivity|]. repeat split; assumption.
    - (* orderBy *)
      destruct (forallb (orderby_parses norm c d) vs && forallb (orderby_binds norm c d) vs); [|discriminate].
      injection Hb as _ Hr. subst res. exists ns. simpl. rewrite Hv. split; [reflexivity|]. repeat split; assumption.
    - injection Hb as _ Hr. subst res. exists ns. split; [reflexivity|]. repeat split; assumption.
    - injection Hb as _ Hr. subst res. exists ns. split; [reflexivity|]. repeat split; assumption.
    - match type of Hb with (if ?b then _ else _) = _ => destruct b end; [|discriminate].
      injection Hb as _ Hr. subst res. exists ns. simpl. rewrite Hv. split; [reflexivity|]. repeat split; assumption.
  Qed.

  Lemma Rel_same : forall d d' ns, sel d' = sel d -> dmap d' = dmap d -> Rel d ns -> Rel d' ns.
  Proof. intros d d' ns Hs Hm (A & B & C & D). unfold Rel. rewrite Hs, Hm. tauto. Qed.

  Lemma step_rel : forall o d ns rv d',
    cfg_ok c = true -> Rel d ns -> good_op norm ns o = true ->
    step norm wordu c o d = Some (rv, d') ->
    exists ns', spec_step norm o ns = Some ns' /\ Rel d' ns'.
  Proof.
    intros o d ns rv d' Hc HR Hv Hs.
    assert (Hsp : step norm wordu c o d = step_prim norm wordu c o d) by (destruct o; try reflexivity; discriminate).
    rewrite Hsp in Hs. unfold step_prim in Hs.
    pose proof (Rel_Inv d ns HR) as Hi.
    assert (HR1 : Rel (fst (fst (pre norm c (meth_of o) d))) ns).
    { apply (Rel_same d); [unfold pre; apply sel_pre_with, Hi | unfold pre; apply dmap_pre_with | exact HR]. }
    destruct (body norm wordu c o (fst (fst (pre norm c (meth_of o) d)))) as [[self' res]|] eqn:Hb; [|discriminate].
    destruct (body_rel _ _ _ _ _ Hc HR1 Hv Hb) as [ns' [Hspec HR']].
    exists ns'. split; [exact Hspec|].
    injection Hs as _ Hd. subst d'. destruct o; try exact HR'; apply (Rel_same res); try reflexivity; exact HR'.
  Qed.

  Lemma create_rel : forall ns, cfg_ok c = true -> create_ok norm ns = true -> Rel (create norm c ns) ns.
  Proof.
    intros ns Hc Hok. destruct (cfg_ok_spec Hc) as (_ & RC & _).
    unfold create_ok in Hok. apply andb_true_iff in Hok. destruct Hok as [Hg Hn].
    rewrite forallb_forall in Hg.
    assert (Hd : dmap (create norm c ns) = upd_all (map kv ns) []).
    { unfold create.
      replace (map (fun n => (qp (ident n), if str_disp_raw c then n else attr n)) ns) with (map kv ns).
      - destruct (rec_of c MCreate); [discriminate|reflexivity|reflexivity].
      - apply map_ext_in. intros n Hin. unfold kv. rewrite (ident_good n (Hg n Hin)).
        assert (A : attr n = n) by (unfold attr, user_ident; rewrite (unbt_plain n (good_plain n (Hg n Hin))); reflexivity).
        rewrite A. destruct (str_disp_raw c); reflexivity. }
    split; [|split; [|split]].
    - unfold create. destruct (rec_of c MCreate); simpl; apply map_ext_in; intros n Hin; apply ident_good, Hg, Hin.
    - intros n Hin. rewrite Hd. apply lookup_recorded; [intros x Hx; apply good_plain, Hg, Hx | apply nodupb_NoDup, Hn | exact Hin].
    - exact Hg.
    - apply nodupb_NoDup, Hn.
  Qed.

  Lemma run_rel : forall ops d ns d',
    cfg_ok c = true -> Rel d ns -> good_prog norm ns ops = true ->
    run norm wordu c d ops = Some d' ->
    exists ns', spec_run norm ns ops = Some ns' /\ Rel d' ns'.
  Proof.
    induction ops as [|o r IH]; intros d ns d' Hc HR Hg Hr; simpl in *.
    - injection Hr as <-. exists ns. split; [reflexivity | exact HR].
    - apply andb_true_iff in Hg. destruct Hg as [Ho Hg].
      destruct (step norm wordu c o d) as [[rv e]|] eqn:E; [|discriminate].
      destruct (step_rel _ _ _ _ _ Hc HR Ho E) as [ns1 [Hs1 HR1]].
      rewrite Hs1 in *. exact (IH e ns1 d' Hc HR1 Hg Hr).
  Qed.

  (** model = spec: after any program of select / withColumn / withColumnRenamed / agg / where / orderBy / limit /
      distinct over good names (distinct result names), all four views show exactly the spelling PySpark reports *)
  Theorem spelling_is_last_named : forall ns ops d,
    cfg_ok c = true -> create_ok norm ns = true -> good_prog norm ns ops = true ->
    run norm wordu c (create norm c ns) ops = Some d ->
    exists ns', spec_run norm ns ops = Some ns'
      /\ columns c d = ns' /\ fields norm c d = ns' /\ schema norm c d = ns' /\ pandas norm c d = ns'.
  Proof.
    intros ns ops d Hc Hok Hg Hr.
    destruct (run_rel ops _ ns d Hc (create_rel ns Hc Hok) Hg Hr) as [ns' [Hs HR]].
    exists ns'. split; [exact Hs|].
    destruct (cfg_ok_spec Hc) as (V & _).
    destruct (views_agree_inv d V (proj2 (inv_Inv d) (Rel_Inv d ns' HR))) as (A & B & C).
    assert (V1 : v_columns_map c = true).
    { unfold views_cfg_ok in V. do 3 (apply andb_true_iff in V; destruct V as [V ?]). exact V. }
    pose proof (Rel_columns d ns' V1 HR) as Hcol.
    rewrite B, C, <- A. tauto.
  Qed.

  (** calls on a frame leave the receiver's names alone unless the method records on the receiver itself *)
  Theorem receiver_unchanged : forall o d rv d',
    (forall m, rec_of c m <> RRecv) -> step_prim norm wordu c o d = Some (rv, d') -> columns c rv = columns c d.
  Proof.
    intros o d rv d' Hn Hs. unfold step_prim in Hs.
    destruct (body norm wordu c o (fst (fst (pre norm c (meth_of o) d)))) as [[self' res]|] eqn:Hb; [|discriminate].
    injection Hs as Hrv _. subst rv.
    assert (Hd : dmap self' = dmap (fst (fst (pre norm c (meth_of o) d)))).
    { assert (R : forall m kvs x, dmap (fst (record (rec_of c m) kvs x)) = dmap x).
      { intros m kvs x. specialize (Hn m). destruct (rec_of c m); [reflexivity | contradiction | reflexivity]. }
      destruct o; simpl in Hb;
        repeat match type of Hb with context [if ?b then _ else _] => destruct b end;
        try (destruct (rec_of c MToDF) eqn:ET);
        try discriminate; injection Hb as Hs' _; subst self'; try reflexivity;
        try (exfalso; eapply Hn; eassumption); apply R. }
    destruct o; try reflexivity;
      (destruct (snd (pre norm c _ d)); [reflexivity|]); unfold columns; simpl; rewrite Hd; unfold pre;
      rewrite dmap_pre_with; reflexivity.
  Qed.
End Proofs.
