(** C10 -- Spark.names: the column names PySpark 3.5 reports after each naming operation -- "the spelling used
    where the column was last named or selected".  Validated against names recorded from live PySpark
    (oracle/c10_pyspark.jsonl) on every run.  References are resolved case-insensitively ([norm]-equality of the
    attribute name, back-ticks stripped). *)
From SF Require Export C10.Model.

Section Spec.
  Variable norm : name -> name.

  Definition same (a b : name) : bool := neqb (norm a) (norm b).
  Definition resolves (ns : list name) (v : name) : bool := existsb (same (attr v)) ns.

  Definition arg_name (a : selarg) : name :=
    match a with SStr x | SCol x | SItem x => attr x | SAlias _ al => al end.
  Definition arg_ref (a : selarg) : name :=
    match a with SStr x | SCol x | SAlias x _ | SItem x => x end.

  Fixpoint find_same (v : name) (ns : list name) : option name :=
    match ns with
    | [] => None
    | x :: r => if same x v then Some x else find_same v r
    end.

  Definition spec_step (o : op) (ns : list name) : option (list name) :=
    match o with
    | OSelect args =>
        if forallb (fun a => resolves ns (arg_ref a)) args then Some (map arg_name args) else None
    | OWithColumn n =>
        Some (if existsb (fun x => same x n) ns then map (fun x => if same x n then n else x) ns else ns ++ [n])
    | OWithColumnRenamed o n => Some (map (fun x => if same x o then n else x) ns)
    | OToDF l => if Nat.eqb (List.length l) (List.length ns) then Some l else None
    | ODrop vs => Some (filter (fun x => negb (existsb (fun v => same x v) vs)) ns)
    | OGroupAgg keys aliases =>
        if forallb (fun a => resolves ns (arg_ref a)) keys then Some (map arg_name keys ++ aliases) else None
    | OAgg aliases => Some aliases
    | OJoin rn keys =>
        if forallb (fun k => is_some (find_same k ns) && is_some (find_same k rn)) keys then
          Some (somes (map (fun k => find_same k ns) keys)
                ++ filter (fun x => negb (existsb (fun k => same x k) keys)) (ns ++ rn))
        else None
    | OFillna _ | ODropna | ODropDuplicates _ | OLimit | ODistinct => Some ns
    | OWhere v => if resolves ns v then Some ns else None
    | OOrderBy vs | OOrderByItems vs => if forallb (resolves ns) vs then Some ns else None
    | OJoinOn rn l r => if resolves ns l && resolves rn r then Some (ns ++ rn) else None
    end.

  Fixpoint spec_run (ns : list name) (ops : list op) : option (list name) :=
    match ops with
    | [] => Some ns
    | o :: r => match spec_step o ns with Some ns' => spec_run ns' r | None => None end
    end.

  Fixpoint spec_trace (ns : list name) (ops : list op) : list (option (list name)) :=
    match ops with
    | [] => []
    | o :: r => match spec_step o ns with
                | Some ns' => Some ns' :: spec_trace ns' r
                | None => [None]
                end
    end.
End Spec.
