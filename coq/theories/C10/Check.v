(** C10 -- executable glue for the correspondence check (T3). *)
From SF Require Export C10.Domain.
Open Scope string_scope.

Record obs := mkObs { o_cols : list name; o_fields : list name; o_schema : list name; o_pandas : list name;
                      o_recv : list name }.     (* o_recv: the receiver's columns after the call *)
Record tcase := mkCase {
  k_lower : list (N * list N);       (* CPython's str.lower() on the non-ASCII code points of the case *)
  k_word : list N;                   (* non-ASCII code points Python's \w accepts *)
  k_names : list name;               (* createDataFrame column names *)
  k_ops : list op;
  k_obs : list (option obs) }.       (* one per step incl. createDataFrame; None = the call (or a view) raised *)

Definition b2s (b : bool) : string := if b then "1" else "0".
Fixpoint lneqb (a b : list name) : bool :=
  match a, b with
  | [], [] => true
  | x :: a', y :: b' => neqb x y && lneqb a' b'
  | _, _ => false
  end.

Section Check.
  Variable c : cfg.

  Definition env_norm (k : tcase) := tnorm (k_lower k).
  Definition env_word (k : tcase) (x : N) := existsb (N.eqb x) (k_word k).

  (** per step: impl ok | model ok | spec ok | model=impl: columns fields schema pandas receiver |
      spec=impl: columns fields schema pandas | model=spec columns *)
  Definition step_flags (k : tcase) (io : option obs) (mo : option (df * df)) (so : option (list name)) : string :=
    let nm := env_norm k in
    let mcols := match mo with Some (_, d) => Some (columns c d) | None => None end in
    let cmp (f : df -> list name) (g : obs -> list name) :=
      match io, mo with Some o, Some (_, d) => lneqb (f d) (g o) | _, _ => false end in
    let cmps (g : obs -> list name) :=
      match io, so with Some o, Some ns => lneqb ns (g o) | _, _ => false end in
    b2s (is_some io) ++ b2s (is_some mo) ++ b2s (is_some so)
    ++ b2s (cmp (columns c) o_cols) ++ b2s (cmp (fields nm c) o_fields) ++ b2s (cmp (schema nm c) o_schema)
    ++ b2s (cmp (pandas nm c) o_pandas)
    ++ b2s (match io, mo with Some o, Some (r, _) => lneqb (columns c r) (o_recv o) | _, _ => false end)
    ++ b2s (cmps o_cols) ++ b2s (cmps o_fields) ++ b2s (cmps o_schema) ++ b2s (cmps o_pandas)
    ++ b2s (match mcols, so with Some a, Some b => lneqb a b | _, _ => false end).

  Fixpoint zip3 (k : tcase) (ios : list (option obs)) (mos : list (option (df * df))) (sos : list (option (list name)))
    : list string :=
    match ios with
    | [] => []
    | io :: ir =>
        let mo := match mos with m :: _ => m | [] => None end in
        let so := match sos with x :: _ => x | [] => None end in
        step_flags k io mo so :: zip3 k ir (tl mos) (tl sos)
    end.

  (** header: T-D domain | T-C domain | create_ok ; then one group per step *)
  Definition check (k : tcase) : string :=
    let nm := env_norm k in
    let wu := env_word k in
    let d0 := create nm c (k_names k) in
    let mos := Some (d0, d0) :: trace nm wu c d0 (k_ops k) in
    let sos := Some (k_names k) :: spec_trace nm (k_names k) (k_ops k) in
    b2s (create_ok nm (k_names k) && good_prog nm (k_names k) (k_ops k))
    ++ b2s (forallb (good_name nm) (k_names k) && forallb (views_ok_op nm) (k_ops k))
    ++ b2s (cfg_ok c)
    ++ ";" ++ String.concat "," (zip3 k (k_obs k) mos sos).
End Check.
