(** One SQL SELECT block over a single input frame, evaluated in SQL's fixed clause order:
    FROM -> WHERE -> SELECT list -> DISTINCT -> ORDER BY -> LIMIT. *)
From SF Require Export Base.Sort.
From Coq Require Import Permutation.
Open Scope Z_scope.

Record block := mkBlock {
  b_where : list expr;
  b_sel : list (expr * string);
  b_distinct : bool;
  b_order : list okey;
  b_limit : option nat }.

Definition proj (cs : list string) (sel : list (expr * string)) (r : row) : row :=
  map (fun p => eval cs r (fst p)) sel.
Definition out_cols (sel : list (expr * string)) : list string := map snd sel.
Definition all_hold (cs : list string) (ws : list expr) (r : row) : bool := forallb (holds cs r) ws.

(** ORDER BY name resolution (engine fact, validated by the engine-conformance part of T3):
    a bare name that is an output alias denotes the output column; anything else is evaluated
    over the input columns first and the output aliases second. *)
Definition eval_okey (cs ocs : list string) (p : row * row) (k : okey) : val :=
  match k_e k with
  | ECol n => if mem n ocs then eval ocs (fst p) (ECol n)
              else eval (cs ++ ocs) (snd p ++ fst p) (ECol n)
  | e => eval (cs ++ ocs) (snd p ++ fst p) e
  end.
Definition okeys (cs ocs : list string) (ks : list okey) (p : row * row) : kv :=
  map (fun k => (eval_okey cs ocs p k, k_desc k, k_nf k)) ks.

Definition eval_block (b : block) (fr : frame) : frame :=
  let cs := cols fr in
  let ocs := out_cols (b_sel b) in
  let r1 := filter (all_hold cs (b_where b)) (rows fr) in
  let ps := map (fun r => (proj cs (b_sel b) r, r)) r1 in
  let ps2 := if b_distinct b then dedup_on fst [] ps else ps in
  let ps3 := sort_on (okeys cs ocs (b_order b)) ps2 in
  let ps4 := match b_limit b with Some n => firstn n ps3 | None => ps3 end in
  mkFrame ocs (map fst ps4).

Definition passthrough (cs : list string) : list (expr * string) := map (fun n => (ECol n, n)) cs.
Definition pass_block (cs : list string) : block := mkBlock [] (passthrough cs) false [] None.

(** every row has one value per column *)
Definition wf_frame (fr : frame) : Prop := forall r, In r (rows fr) -> List.length r = List.length (cols fr).

Lemma out_cols_passthrough cs : out_cols (passthrough cs) = cs.
Proof. unfold out_cols, passthrough. rewrite map_map. simpl. apply map_id. Qed.

Lemma index_of_lt n cs i : index_of n cs = Some i -> (i < List.length cs)%nat.
Proof.
  revert i; induction cs as [|c cs IH]; simpl; intros i H; [discriminate|].
  destruct (String.eqb c n).
  - inversion H; lia.
  - destruct (index_of n cs) eqn:E; simpl in H; [|discriminate]. inversion H. specialize (IH _ eq_refl). lia.
Qed.

Lemma index_of_nth cs : NoDup cs -> forall i n, nth_error cs i = Some n -> index_of n cs = Some i.
Proof.
  induction 1 as [|c cs Hn Hd IH]; intros [|i] n H; simpl in *; try discriminate.
  - inversion H; subst. rewrite String.eqb_refl. reflexivity.
  - destruct (String.eqb c n) eqn:E.
    + apply String.eqb_eq in E; subst. exfalso; apply Hn. eapply nth_error_In; eauto.
    + rewrite (IH _ _ H). reflexivity.
Qed.

Lemma nth_error_ext_lists {A} (l1 l2 : list A) :
  (forall i, nth_error l1 i = nth_error l2 i) -> l1 = l2.
Proof.
  revert l2; induction l1 as [|x l1 IH]; intros [|y l2] H; auto.
  - specialize (H O); discriminate.
  - specialize (H O); discriminate.
  - f_equal. { specialize (H O); simpl in H; congruence. }
    apply IH. intro i. exact (H (S i)).
Qed.

(** selecting every column by name is the identity on well-shaped rows *)
Lemma proj_passthrough cs r : NoDup cs -> List.length r = List.length cs -> proj cs (passthrough cs) r = r.
Proof.
  intros Hd Hl. unfold proj, passthrough. rewrite map_map. simpl.
  apply nth_error_ext_lists. intro i.
  rewrite nth_error_map.
  destruct (nth_error cs i) as [n|] eqn:E; simpl.
  - unfold lookup. rewrite (index_of_nth _ Hd _ _ E).
    destruct (nth_error r i) eqn:E2; [reflexivity|].
    apply nth_error_None in E2. assert (i < List.length cs)%nat by (apply nth_error_Some; congruence). lia.
  - apply nth_error_None in E. symmetry. apply nth_error_None. lia.
Qed.

(** * Facts about [eval_block] used by every compiler-correctness proof *)

Lemma firstn_In_incl {A} n (l : list A) x : In x (firstn n l) -> In x l.
Proof.
  revert l; induction n as [|n IH]; intros [|y l] H; simpl in *; try contradiction.
  destruct H as [<-|H]; [left; reflexivity | right; auto].
Qed.

Lemma cols_eval_block b fr : cols (eval_block b fr) = out_cols (b_sel b).
Proof. reflexivity. Qed.

Lemma wf_eval_block b fr : wf_frame (eval_block b fr).
Proof.
  intros r Hr. rewrite cols_eval_block. simpl in Hr.
  assert (H : forall ps : list (row * row),
             (forall p, In p ps -> List.length (fst p) = List.length (out_cols (b_sel b))) ->
             In r (map fst ps) -> List.length r = List.length (out_cols (b_sel b))).
  { intros ps Hps Hin. apply in_map_iff in Hin. destruct Hin as [p [<- Hp]]. auto. }
  eapply H; [|exact Hr].
  intros p Hp.
  assert (Hbase : forall p, In p (map (fun r0 => (proj (cols fr) (b_sel b) r0, r0))
                                   (filter (all_hold (cols fr) (b_where b)) (rows fr))) ->
                            List.length (fst p) = List.length (out_cols (b_sel b))).
  { intros q Hq. apply in_map_iff in Hq. destruct Hq as [r0 [<- _]]. simpl.
    unfold proj, out_cols. rewrite !map_length. reflexivity. }
  assert (Hd : forall seen (l : list (row * row)) q, In q (dedup_on fst seen l) -> In q l).
  { intros seen l; revert seen; induction l as [|x l IH]; intros seen q Hq; simpl in *; [contradiction|].
    destruct (existsb (row_eqb (fst x)) seen).
    - right; eauto.
    - destruct Hq as [<-|Hq]; [left; reflexivity | right; eauto]. }
  apply Hbase.
  set (ps0 := map (fun r0 => (proj (cols fr) (b_sel b) r0, r0))
                  (filter (all_hold (cols fr) (b_where b)) (rows fr))) in *.
  assert (H2 : In p (if b_distinct b then dedup_on fst [] ps0 else ps0) -> In p ps0).
  { destruct (b_distinct b); [apply Hd | auto]. }
  apply H2.
  set (ps2 := if b_distinct b then dedup_on fst [] ps0 else ps0) in *.
  assert (H3 : In p (sort_on (okeys (cols fr) (out_cols (b_sel b)) (b_order b)) ps2)).
  { destruct (b_limit b); [eapply firstn_In_incl; exact Hp | exact Hp]. }
  eapply Permutation_in; [symmetry; apply sort_on_perm | exact H3].
Qed.

Lemma filter_true {A} (f : A -> bool) l : (forall x, In x l -> f x = true) -> filter f l = l.
Proof.
  induction l as [|x l IH]; simpl; intro H; [reflexivity|].
  rewrite H by auto. f_equal. apply IH. auto.
Qed.

Lemma filter_app_conj cs ws e (l : list row) :
  filter (all_hold cs (ws ++ [e])) l = filter (fun r => holds cs r e) (filter (all_hold cs ws) l).
Proof.
  induction l as [|r l IH]; simpl; [reflexivity|].
  assert (E0 : all_hold cs (ws ++ [e]) r = all_hold cs ws r && holds cs r e).
  { unfold all_hold. rewrite forallb_app. simpl. rewrite andb_true_r. reflexivity. }
  rewrite E0. destruct (all_hold cs ws r) eqn:E; simpl.
  - destruct (holds cs r e); simpl; [f_equal|]; apply IH.
  - apply IH.
Qed.

Lemma map_fst_pairs {A B} (f : A -> B) (l : list A) : map fst (map (fun r => (f r, r)) l) = map f l.
Proof. rewrite map_map. reflexivity. Qed.

(** a block whose select list is the identity and that has no DISTINCT/ORDER BY/LIMIT is a filter *)
Lemma eval_simple_block b fr :
  b_sel b = passthrough (cols fr) -> b_distinct b = false -> b_order b = [] -> b_limit b = None ->
  wf_frame fr -> NoDup (cols fr) ->
  eval_block b fr = mkFrame (cols fr) (filter (all_hold (cols fr) (b_where b)) (rows fr)).
Proof.
  intros Hs Hd Ho Hl Hwf Hnd. unfold eval_block. rewrite Hs, Hd, Ho, Hl, out_cols_passthrough.
  f_equal. rewrite sort_on_nil_keys by reflexivity. rewrite map_fst_pairs.
  rewrite <- (map_id (filter _ _)) at 2. apply map_ext_in.
  intros r Hr. apply filter_In in Hr. destruct Hr as [Hr _]. apply proj_passthrough; auto.
Qed.

Lemma eval_pass_block fr : wf_frame fr -> NoDup (cols fr) -> eval_block (pass_block (cols fr)) fr = fr.
Proof.
  intros Hwf Hnd. rewrite eval_simple_block; auto. simpl.
  rewrite filter_true by reflexivity. destruct fr; reflexivity.
Qed.

Lemma map_fst_dedup_on (ps : list (row * row)) : forall seen,
  map fst (dedup_on fst seen ps) = dedup_on (fun r => r) seen (map fst ps).
Proof.
  induction ps as [|p ps IH]; intro seen; simpl; [reflexivity|].
  destruct (existsb (row_eqb (fst p)) seen); simpl; [apply IH | f_equal; apply IH].
Qed.

Lemma map_insert {A B} (f : A -> B) (leA : A -> A -> bool) (leB : B -> B -> bool) x l :
  (forall a b, leA a b = leB (f a) (f b)) ->
  map f (insert leA x l) = insert leB (f x) (map f l).
Proof.
  intro H. induction l as [|y l IH]; simpl; [reflexivity|].
  rewrite H. destruct (leB (f x) (f y)); simpl; [reflexivity | f_equal; exact IH].
Qed.

Lemma map_sort_on {A B} (f : A -> B) (kA : A -> kv) (kB : B -> kv) l :
  (forall a, kA a = kB (f a)) -> map f (sort_on kA l) = sort_on kB (map f l).
Proof.
  intro H. unfold sort_on, sort. induction l as [|x l IH]; simpl; [reflexivity|].
  erewrite map_insert; [rewrite IH; reflexivity|].
  intros a b. simpl. rewrite !H. reflexivity.
Qed.

Lemma insert_ext_in {A} (le1 le2 : A -> A -> bool) x l :
  (forall y, In y l -> le1 x y = le2 x y) -> insert le1 x l = insert le2 x l.
Proof.
  induction l as [|y l IH]; simpl; intro H; [reflexivity|].
  rewrite (H y) by (left; reflexivity). destruct (le2 x y); [reflexivity|].
  f_equal. apply IH. intros z Hz. apply H. right; exact Hz.
Qed.

Lemma sort_on_ext_in {A} (k1 k2 : A -> kv) l :
  (forall a, In a l -> k1 a = k2 a) -> sort_on k1 l = sort_on k2 l.
Proof.
  unfold sort_on, sort. induction l as [|x l IH]; simpl; intro H; [reflexivity|].
  rewrite IH by auto.
  apply insert_ext_in. intros y Hy.
  assert (Hin : In y l).
  { eapply Permutation_in; [symmetry; apply (sort_perm (fun a b => le_kv (k2 a) (k2 b)))|exact Hy]. }
  rewrite (H x) by (left; reflexivity). rewrite (H y) by (right; exact Hin). reflexivity.
Qed.
