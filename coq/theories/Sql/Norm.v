(** Chains of blocks, structural equality, and a verified normaliser that drops identity blocks
    (tie T2: the tree the implementation built is compared with the model's up to this normal form). *)
From SF Require Export Sql.Block.
Open Scope Z_scope.

Definition eval_chain (bs : list block) (input : frame) : frame :=
  fold_left (fun fr b => eval_block b fr) bs input.

Definition okey_eqb (a b : okey) : bool :=
  expr_eqb (k_e a) (k_e b) && Bool.eqb (k_desc a) (k_desc b) && Bool.eqb (k_nf a) (k_nf b).
Fixpoint list_eqb {A} (eqb : A -> A -> bool) (a b : list A) : bool :=
  match a, b with
  | [], [] => true
  | x :: a', y :: b' => eqb x y && list_eqb eqb a' b'
  | _, _ => false
  end.
Definition item_eqb (a b : expr * string) : bool := expr_eqb (fst a) (fst b) && String.eqb (snd a) (snd b).
Definition opt_nat_eqb (a b : option nat) : bool :=
  match a, b with Some x, Some y => Nat.eqb x y | None, None => true | _, _ => false end.
Definition block_eqb (a b : block) : bool :=
  list_eqb expr_eqb (b_where a) (b_where b) && list_eqb item_eqb (b_sel a) (b_sel b)
  && Bool.eqb (b_distinct a) (b_distinct b) && list_eqb okey_eqb (b_order a) (b_order b)
  && opt_nat_eqb (b_limit a) (b_limit b).

Fixpoint nodupb (l : list string) : bool :=
  match l with [] => true | x :: l' => negb (mem x l') && nodupb l' end.

Lemma nodupb_sound l : nodupb l = true -> NoDup l.
Proof.
  induction l as [|x l IH]; simpl; intro H; [constructor|].
  apply andb_true_iff in H. destruct H as [H1 H2]. constructor; [|auto].
  intro Hin. unfold mem in H1. apply negb_true_iff in H1.
  assert (existsb (String.eqb x) l = true); [|congruence].
  apply existsb_exists. exists x. split; [exact Hin | apply String.eqb_refl].
Qed.

Definition is_pass (cs : list string) (b : block) : bool :=
  block_eqb b (pass_block cs) && nodupb cs.

(** WHERE is a conjunction: split every AND (sqlglot re-associates them when conditions are added) *)
Fixpoint conjuncts (e : expr) : list expr :=
  match e with EBin And a b => conjuncts a ++ conjuncts b | _ => [e] end.
Definition norm_block (b : block) : block :=
  mkBlock (flat_map conjuncts (b_where b)) (b_sel b) (b_distinct b) (b_order b) (b_limit b).

(** drop every block that selects exactly the columns it receives and does nothing else *)
Fixpoint nf (cs : list string) (bs : list block) : list block :=
  match bs with
  | [] => []
  | b :: bs' => if is_pass cs b then nf cs bs' else norm_block b :: nf (out_cols (b_sel b)) bs'
  end.

Lemma holds_and cs r a b : holds cs r (EBin And a b) = holds cs r a && holds cs r b.
Proof.
  unfold holds. simpl.
  destruct (eval cs r a) as [| | |[|]|]; destruct (eval cs r b) as [| | |[|]|]; reflexivity.
Qed.

Lemma all_hold_conjuncts cs r e : forallb (holds cs r) (conjuncts e) = holds cs r e.
Proof.
  induction e; try (simpl; rewrite andb_true_r; reflexivity).
  destruct o; try (simpl; rewrite andb_true_r; reflexivity).
  simpl. rewrite forallb_app, IHe1, IHe2. symmetry. apply holds_and.
Qed.

Lemma all_hold_flat cs ws r : all_hold cs (flat_map conjuncts ws) r = all_hold cs ws r.
Proof.
  unfold all_hold. induction ws as [|w ws IH]; simpl; [reflexivity|].
  rewrite forallb_app, all_hold_conjuncts, IH. reflexivity.
Qed.

Lemma eval_norm_block b fr : eval_block (norm_block b) fr = eval_block b fr.
Proof.
  unfold eval_block, norm_block; simpl.
  rewrite (filter_ext _ _ (all_hold_flat (cols fr) (b_where b))). reflexivity.
Qed.

Lemma list_eqb_eq {A} (eqb : A -> A -> bool) :
  (forall x y, eqb x y = true -> x = y) -> forall a b, list_eqb eqb a b = true -> a = b.
Proof.
  intros H a. induction a as [|x a IH]; intros [|y b] E; simpl in E; try discriminate; auto.
  apply andb_true_iff in E. destruct E as [E1 E2]. f_equal; auto.
Qed.

Lemma block_eqb_eq a b : block_eqb a b = true -> a = b.
Proof.
  unfold block_eqb. intro H.
  repeat (apply andb_true_iff in H; let H2 := fresh "H" in destruct H as [H H2]).
  destruct a, b; simpl in *. f_equal.
  - apply (list_eqb_eq expr_eqb); auto. intros x y; apply expr_eqb_eq.
  - apply (list_eqb_eq item_eqb); auto. intros [e1 s1] [e2 s2] E. unfold item_eqb in E; simpl in E.
    apply andb_true_iff in E. destruct E as [E1 E2]. apply expr_eqb_eq in E1. apply String.eqb_eq in E2.
    congruence.
  - apply Bool.eqb_prop; auto.
  - apply (list_eqb_eq okey_eqb); auto. intros [e1 d1 n1] [e2 d2 n2] E. unfold okey_eqb in E; simpl in E.
    apply andb_true_iff in E. destruct E as [E E3]. apply andb_true_iff in E. destruct E as [E1 E2].
    apply expr_eqb_eq in E1. apply Bool.eqb_prop in E2, E3. congruence.
  - destruct b_limit, b_limit0; simpl in *; try discriminate; auto.
    apply Nat.eqb_eq in H0. congruence.
Qed.

Theorem nf_sound bs : forall input,
  wf_frame input -> eval_chain (nf (cols input) bs) input = eval_chain bs input.
Proof.
  induction bs as [|b bs IH]; intros input Hwf; simpl; [reflexivity|].
  destruct (is_pass (cols input) b) eqn:E.
  - unfold is_pass in E. apply andb_true_iff in E. destruct E as [E1 E2].
    apply block_eqb_eq in E1. apply nodupb_sound in E2. subst b.
    rewrite eval_pass_block by assumption. apply IH; assumption.
  - simpl. rewrite eval_norm_block. rewrite <- cols_eval_block with (fr := input). apply IH. apply wf_eval_block.
Qed.

(** two chains with the same normal form denote the same function of the input, for every input *)
Corollary nf_equal_same_meaning bs1 bs2 input :
  wf_frame input -> list_eqb block_eqb (nf (cols input) bs1) (nf (cols input) bs2) = true ->
  eval_chain bs1 input = eval_chain bs2 input.
Proof.
  intros Hwf H. apply (list_eqb_eq block_eqb block_eqb_eq) in H.
  rewrite <- (nf_sound bs1), <- (nf_sound bs2) by assumption. rewrite H. reflexivity.
Qed.
