(** C06: executable glue for the correspondence check (T2 normal form of stage lists, user-level calls,
    per-case verdict). *)
From SF Require Export C06.AggChain C06.AggNames.
From SF Require Import Model.ChainCheck.
Open Scope Z_scope.

(** * structural equality of stages (tie T2) *)
Definition binop_eqb (o p : binop) : bool :=
  match o, p with
  | Add, Add | Sub, Sub | Mul, Mul | Eq, Eq | Neq, Neq | Lt, Lt | Le, Le | Gt, Gt | Ge, Ge
  | And, And | Or, Or | NullSafeEq, NullSafeEq => true
  | _, _ => false
  end.
Definition aggfn_eqb (a b : aggfn) : bool :=
  match a, b with
  | FCountStar, FCountStar => true
  | FCount x, FCount y | FSum x, FSum y | FAvg x, FAvg y | FMin x, FMin y | FMax x, FMax y
  | FCountDistinct x, FCountDistinct y => expr_eqb x y
  | FCountDistinctN x, FCountDistinctN y => list_eqb expr_eqb x y
  | _, _ => false
  end.
Fixpoint aexpr_eqb (a b : aexpr) : bool :=
  match a, b with
  | XAgg f, XAgg h => aggfn_eqb f h
  | XLit v, XLit w => val_eqb v w
  | XBin o a1 a2, XBin p b1 b2 => binop_eqb o p && aexpr_eqb a1 b1 && aexpr_eqb a2 b2
  | XNeg x, XNeg y => aexpr_eqb x y
  | XCoalesce a1 a2, XCoalesce b1 b2 => aexpr_eqb a1 b1 && aexpr_eqb a2 b2
  | XGroupingId x, XGroupingId y => list_eqb expr_eqb x y
  | _, _ => false
  end.
Definition sitem_eqb (a b : sitem) : bool :=
  match a, b with
  | SKey x, SKey y => expr_eqb x y
  | SAgg x, SAgg y => aexpr_eqb x y
  | _, _ => false
  end.
Definition gclause_eqb (a b : gclause) : bool :=
  match a, b with
  | GPlain x, GPlain y => list_eqb expr_eqb x y
  | GSets x, GSets y => list_eqb (list_eqb expr_eqb) x y
  | _, _ => false
  end.
Definition gblock_eqb (a b : gblock) : bool :=
  list_eqb expr_eqb (g_where a) (g_where b) && gclause_eqb (g_group a) (g_group b)
  && list_eqb (fun p q => sitem_eqb (fst p) (fst q) && String.eqb (snd p) (snd q)) (g_sel a) (g_sel b)
  && Bool.eqb (g_having a) (g_having b).
Definition stage_eqb (a b : stage) : bool :=
  match a, b with
  | SB x, SB y => block_eqb x y
  | SG x, SG y => gblock_eqb x y
  | _, _ => false
  end.

Lemma binop_eqb_eq o p : binop_eqb o p = true -> o = p.
Proof. destruct o, p; simpl; intro H; try discriminate; reflexivity. Qed.
Lemma aggfn_eqb_eq a b : aggfn_eqb a b = true -> a = b.
Proof.
  destruct a, b; simpl; intro H; try discriminate; try reflexivity;
    try (apply expr_eqb_eq in H; congruence).
  f_equal. apply (list_eqb_eq expr_eqb); auto. intros x y; apply expr_eqb_eq.
Qed.
Lemma aexpr_eqb_eq a : forall b, aexpr_eqb a b = true -> a = b.
Proof.
  induction a; intros [] H; simpl in H; try discriminate.
  - apply aggfn_eqb_eq in H. congruence.
  - apply val_eqb_eq in H. congruence.
  - apply andb_true_iff in H. destruct H as [H H2]. apply andb_true_iff in H. destruct H as [H0 H1].
    apply binop_eqb_eq in H0. apply IHa1 in H1. apply IHa2 in H2. congruence.
  - f_equal. auto.
  - apply andb_true_iff in H. destruct H as [H1 H2]. f_equal; auto.
  - f_equal. apply (list_eqb_eq expr_eqb); auto. intros x y; apply expr_eqb_eq.
Qed.
Lemma sitem_eqb_eq a b : sitem_eqb a b = true -> a = b.
Proof.
  destruct a, b; simpl; intro H; try discriminate.
  - apply expr_eqb_eq in H. congruence.
  - apply aexpr_eqb_eq in H. congruence.
Qed.
Lemma gclause_eqb_eq a b : gclause_eqb a b = true -> a = b.
Proof.
  destruct a, b; simpl; intro H; try discriminate; f_equal.
  - apply (list_eqb_eq expr_eqb); auto. intros x y; apply expr_eqb_eq.
  - apply (list_eqb_eq (list_eqb expr_eqb)); auto. intros x y. apply (list_eqb_eq expr_eqb). intros u v; apply expr_eqb_eq.
Qed.
Lemma gblock_eqb_eq a b : gblock_eqb a b = true -> a = b.
Proof.
  unfold gblock_eqb. intro H. apply andb_true_iff in H. destruct H as [H H4].
  apply andb_true_iff in H. destruct H as [H H3].
  apply andb_true_iff in H. destruct H as [H1 H2].
  destruct a, b; simpl in *. f_equal.
  - apply (list_eqb_eq expr_eqb); auto. intros x y; apply expr_eqb_eq.
  - apply gclause_eqb_eq; assumption.
  - eapply list_eqb_eq; [|exact H3]. intros [i1 s1] [i2 s2] E; simpl in E.
    apply andb_true_iff in E. destruct E as [E1 E2]. apply sitem_eqb_eq in E1. apply String.eqb_eq in E2. congruence.
  - apply Bool.eqb_prop. exact H4.
Qed.
Lemma stage_eqb_eq a b : stage_eqb a b = true -> a = b.
Proof.
  destruct a, b; simpl; intro H; try discriminate; f_equal; [apply block_eqb_eq | apply gblock_eqb_eq]; assumption.
Qed.

(** * verified normal form of stage lists: identity blocks dropped, WHERE split into conjuncts *)
Definition norm_g (g : gblock) : gblock := mkG (flat_map conjuncts (g_where g)) (g_group g) (g_sel g) (g_having g).
Fixpoint nfs (cs : list string) (ss : list stage) : list stage :=
  match ss with
  | [] => []
  | SB b :: r => if is_pass cs b then nfs cs r else SB (norm_block b) :: nfs (out_cols (b_sel b)) r
  | SG g :: r => SG (norm_g g) :: nfs (map snd (g_sel g)) r
  end.

Lemma eval_norm_g g fr : eval_gblock (norm_g g) fr = eval_gblock g fr.
Proof.
  unfold eval_gblock, norm_g; simpl.
  rewrite (filter_ext _ _ (all_hold_flat (cols fr) (g_where g))). reflexivity.
Qed.

Theorem nfs_sound ss : forall input,
  wf_frame input -> eval_stages (nfs (cols input) ss) input = eval_stages ss input.
Proof.
  induction ss as [|s ss IH]; intros input Hwf; [reflexivity|].
  destruct s as [b|g]; cbn [nfs].
  - destruct (is_pass (cols input) b) eqn:E.
    + unfold is_pass in E. apply andb_true_iff in E. destruct E as [E1 E2].
      apply block_eqb_eq in E1. apply nodupb_sound in E2. subst b.
      change (eval_stages (SB (pass_block (cols input)) :: ss) input)
        with (eval_stages ss (eval_block (pass_block (cols input)) input)).
      rewrite eval_pass_block by assumption. apply IH; assumption.
    + change (eval_stages (SB (norm_block b) :: nfs (out_cols (b_sel b)) ss) input)
        with (eval_stages (nfs (out_cols (b_sel b)) ss) (eval_block (norm_block b) input)).
      change (eval_stages (SB b :: ss) input) with (eval_stages ss (eval_block b input)).
      rewrite eval_norm_block. rewrite <- cols_eval_block with (fr := input). apply IH. apply wf_eval_block.
  - change (eval_stages (SG (norm_g g) :: nfs (map snd (g_sel g)) ss) input)
      with (eval_stages (nfs (map snd (g_sel g)) ss) (eval_gblock (norm_g g) input)).
    change (eval_stages (SG g :: ss) input) with (eval_stages ss (eval_gblock g input)).
    rewrite eval_norm_g.
    change (map snd (g_sel g)) with (cols (eval_gblock g input)). apply IH. apply wf_eval_gblock.
Qed.

Corollary nfs_equal_same_meaning ss1 ss2 input :
  wf_frame input -> list_eqb stage_eqb (nfs (cols input) ss1) (nfs (cols input) ss2) = true ->
  eval_stages ss1 input = eval_stages ss2 input.
Proof.
  intros Hwf H. apply (list_eqb_eq stage_eqb stage_eqb_eq) in H.
  rewrite <- (nfs_sound ss1), <- (nfs_sound ss2) by assumption. rewrite H. reflexivity.
Qed.

(** * user-level programs *)
Inductive ucall :=
| UAggC (e : entry) (keys : list (expr * string)) (aggs : list (aexpr * string))   (* aliased aggregates *)
| UShort (keys : list (expr * string)) (m : shortfn) (cs : list string)            (* groupBy(keys).sum('b', ...) *)
| UCount (keys : list (expr * string))                                             (* groupBy(keys).count() *)
| UDict (keys : list (expr * string)) (items : list (string * string)).            (* agg({col: fn}) *)

Inductive ustep :=
| UPlain (u : uop)                     (* C01's operations *)
| UCall (u : ucall)
| UCube (keys : list (expr * string)) (u : ucall)      (* cube(keys).<agg form> ; keys of [u] are ignored *)
| UJoinBack (k : string).              (* .join(original input, k): T3 only *)

Fixpoint sequence {A} (l : list (option A)) : option (list A) :=
  match l with
  | [] => Some []
  | None :: _ => None
  | Some x :: r => option_map (cons x) (sequence r)
  end.

Section Check.
  Variable c : cfg.
  Variable g : gcfg.
  Variable n : ncfg.
  Variable idxs : nat -> list nat.

  (** (entry, keys, aggregates as sqlframe builds them) ; None = sqlframe has no such function *)
  Definition model_call (u : ucall) : option (entry * list (expr * string) * list (aexpr * string)) :=
    match u with
    | UAggC e keys aggs => Some (e, keys, aggs)
    | UShort keys m cs => option_map (fun a => (ViaGroupBy, keys, a)) (sequence (map (short_item n m) cs))
    | UCount keys => Some (ViaGroupBy, keys, [count_item n])
    | UDict keys items => option_map (fun a => (ViaGroupBy, keys, a))
                                     (sequence (map (fun p => dict_item n (fst p) (snd p)) items))
    end.
  Definition spark_call (u : ucall) : option (list (expr * string) * list (aexpr * string)) :=
    match u with
    | UAggC _ keys aggs => Some (keys, aggs)
    | UShort keys m cs => Some (keys, map (spark_short m) cs)
    | UCount keys => Some (keys, [spark_count])
    | UDict keys items => option_map (fun a => (keys, a)) (sequence (map (fun p => spark_dict (fst p) (snd p)) items))
    end.

  (** the call is named and aggregated as PySpark does (C06_partial_names' domain, decided per case) *)
  Definition same_aggs (a b : list (aexpr * string)) : bool :=
    list_eqb (fun p q => aexpr_eqb (fst p) (fst q) && String.eqb (snd p) (snd q)) a b.

  Definition join_back (k : string) (l r : frame) : frame :=
    let rc := filter (fun c0 => negb (String.eqb c0 k)) (cols r) in
    let lc := filter (fun c0 => negb (String.eqb c0 k)) (cols l) in
    mkFrame (k :: lc ++ rc)
      (flat_map (fun lr =>
         flat_map (fun rr =>
            match lookup (cols l) lr k, lookup (cols r) rr k with
            | Some VNull, _ | _, Some VNull | None, _ | _, None => []
            | Some a, Some b =>
                if val_eqb a b
                then [a :: map (fun c0 => match lookup (cols l) lr c0 with Some v => v | None => VNull end) lc
                        ++ map (fun c0 => match lookup (cols r) rr c0 with Some v => v | None => VNull end) rc]
                else []
            end) (rows r)) (rows l)).

  (** state while running a user program: the compiled stages so far + C01 state, or a finished frame (after a
      T3-only step); and the spec frame *)
  Record run := mkRun {
    r_x : xdf;
    r_tail : option frame;        (* Some fr: the model result was computed directly (join) *)
    r_spec : frame;
    r_dom : bool;                 (* still inside the domain of agg_in_chain *)
    r_ok : bool }.                (* false: the model has no meaning for this call *)

  Definition model_frame (input : frame) (r : run) : frame :=
    match r_tail r with Some fr => fr | None => eval_stages (all_stages (r_x r)) input end.

  Definition run_step (input : frame) (r : run) (u : ustep) : run :=
    let X := r_x r in
    match u with
    | UPlain uo =>
        let o := desugar (cols (r_spec r)) uo in
        mkRun (xstep c g X (POp o)) (option_map (spec_step o) (r_tail r)) (spec_step o (r_spec r))
              (r_dom r && xop_ok c X (POp o)) (r_ok r)
    | UCall uc =>
        match model_call uc, spark_call uc with
        | Some (e, keys, aggs), Some (skeys, saggs) =>
            mkRun (xstep c g X (PAgg e keys aggs)) (option_map (spec_agg keys aggs) (r_tail r))
                  (spec_agg skeys saggs (r_spec r))
                  (r_dom r && xop_ok c X (PAgg e keys aggs) && same_aggs aggs saggs) (r_ok r)
        | _, _ => mkRun X (r_tail r) (r_spec r) false false
        end
    | UCube keys uc =>
        match model_call uc, spark_call uc with
        | Some (_, _, aggs), Some (_, saggs) =>
            let ss := cube_stage c g idxs (x_d X) keys aggs in
            mkRun (mkX (x_pre X ++ ss) (mkDf [] (pass_block (agg_names keys aggs)) (entry_fin c g ViaCube (last (x_d X))))
                       (agg_names keys aggs))
                  (r_tail r) (spec_cube keys saggs (r_spec r)) false (r_ok r)
        | _, _ => mkRun X (r_tail r) (r_spec r) false false
        end
    | UJoinBack k =>
        mkRun X (Some (join_back k (model_frame input r) input)) (join_back k (r_spec r) input) false (r_ok r)
    end.

  Record case := mkCase {
    c_input : frame;
    c_prog : list ustep;
    c_mode : cmp_mode;
    c_exported : option (list stage);
    c_impl : option (list string * list row) }.

  Definition b2s (b : bool) : string := if b then "1" else "0".

  (** verdict: t2 | impl=model | impl=spec | model=spec (bag) | in theorem domain | impl raised *)
  Definition check (k : case) : string :=
    let input := c_input k in
    let ics := cols input in
    let r0 := mkRun (init_x ics) None input true true in
    let r := fold_left (run_step input) (c_prog k) r0 in
    let model := model_frame input r in
    let spec := r_spec r in
    (* for CmpSubOf the reference is the result before the final limit (the spec's, resp. the model's) *)
    let rp := match c_mode k with
              | CmpSubOf _ => fold_left (run_step input) (removelast (c_prog k)) r0
              | _ => r0 end in
    let pre := match c_mode k with CmpSubOf _ => rows (r_spec rp) | _ => [] end in
    let pre_m := match c_mode k with CmpSubOf _ => rows (model_frame input rp) | _ => [] end in
    let t2 := match c_exported k, r_tail r with
              | Some ss, None => list_eqb stage_eqb (nfs ics ss) (nfs ics (all_stages (r_x r)))
              | _, _ => false end in
    let ms := list_eqb String.eqb (cols model) (cols spec) && bag_eqb (rows model) (rows spec) in
    match c_impl k with
    | Some (gcols, grows) =>
        b2s t2
        ++ b2s (r_ok r && list_eqb String.eqb gcols (cols model) && cmp_rows (c_mode k) (rows model) pre_m grows)
        ++ b2s (list_eqb String.eqb gcols (cols spec) && cmp_rows (c_mode k) (rows spec) pre grows)
        ++ b2s ms ++ b2s (r_dom r) ++ "0"
    | None => b2s t2 ++ "00" ++ b2s ms ++ b2s (r_dom r) ++ "1"
    end.

  (** the spec's answer alone (validated against PySpark recordings): cols + rows as a bag *)
  Definition spec_matches (k : case) : bool :=
    let input := c_input k in
    let r := fold_left (run_step input) (c_prog k) (mkRun (init_x (cols input)) None input true true) in
    match c_impl k with
    | Some (gcols, grows) =>
        list_eqb String.eqb gcols (cols (r_spec r)) && cmp_rows (c_mode k) (rows (r_spec r)) [] grows
    | None => false
    end.
End Check.
