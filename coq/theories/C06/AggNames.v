(** C06: how the GroupedData shortcuts, the dict form and count() are turned into aggregate columns and how
    they are NAMED; PySpark's naming as the reference.  All facts about sqlframe enter through [ncfg]
    (regenerated from /repo on every run) and a decidable side condition. *)
From SF Require Export C06.Agg.
From Coq Require Import Ascii.
Open Scope Z_scope.

Inductive shortfn := ShAvg | ShMean | ShMax | ShMin | ShSum.
Definition all_short := [ShAvg; ShMean; ShMax; ShMin; ShSum].

Definition sapp := String.append.

Record ncfg := mkNcfg {
  n_short_lit : shortfn -> string;        (* literal a shortcut hands to _get_function_applied_columns (mean -> avg()) *)
  n_canon : string -> string;             (* func_name after `if func_name == "mean": func_name = "avg"` (identity if absent) *)
  n_fmt : string -> string -> string;     (* the f-string that names the column *)
  n_through_sanitize : bool;              (* the name goes through session._sanitize_column_name *)
  n_sanitize_on : bool;                   (* SANITIZE_COLUMN_NAMES of the session class under test *)
  n_fn_class : string -> option string;   (* functions.py: function name -> sqlglot aggregate class *)
  n_count_star : bool;                    (* GroupedData.count() counts "*" *)
  n_count_alias : string;                 (* ... and calls the column so *)
  n_dict_key_is_col : bool }.             (* dict form: {column: function} *)

Definition replace_parens (s : string) : string :=
  string_of_list_ascii
    (map (fun ch => if (Ascii.eqb ch "("%char || Ascii.eqb ch ")"%char)%bool then "_"%char else ch)
         (list_ascii_of_string s)).
Definition sanitize (n : ncfg) (s : string) : string :=
  if (n_through_sanitize n && n_sanitize_on n)%bool then replace_parens s else s.

(** what a sqlglot aggregate class applied to a column name means (engine side of the function table) *)
Definition class_agg (cls arg : string) : option aggfn :=
  if String.eqb arg "*" then (if String.eqb cls "Count" then Some FCountStar else None)
  else if String.eqb cls "Count" then Some (FCount (ECol arg))
  else if String.eqb cls "Sum" then Some (FSum (ECol arg))
  else if String.eqb cls "Avg" then Some (FAvg (ECol arg))
  else if String.eqb cls "Min" then Some (FMin (ECol arg))
  else if String.eqb cls "Max" then Some (FMax (ECol arg))
  else None.

(** _get_function_applied_columns(func_name, [col]) *)
Definition applied (n : ncfg) (fn0 col : string) : option (aexpr * string) :=
  let fn := n_canon n fn0 in
  match n_fn_class n fn with
  | Some cls => match class_agg cls col with
                | Some f => Some (XAgg f, sanitize n (n_fmt n fn col))
                | None => None
                end
  | None => None
  end.
Definition short_item (n : ncfg) (m : shortfn) (col : string) : option (aexpr * string) :=
  applied n (n_short_lit n m) col.
Definition dict_item (n : ncfg) (col fn : string) : option (aexpr * string) :=
  if n_dict_key_is_col n then applied n fn col else applied n col fn.
Definition count_item (n : ncfg) : aexpr * string :=
  (XAgg (if n_count_star n then FCountStar else FCount (ECol "count")), n_count_alias n).

(** ** PySpark *)
Definition fmt_spark (fn col : string) : string := sapp fn (sapp "(" (sapp col ")")).
(** the repaired naming: "*" is displayed as 1 *)
Definition fmt_arg (fn col : string) : string := fmt_spark fn (if String.eqb col "*" then "1"%string else col).
Definition canon_ref (fn : string) : string := if String.eqb fn "mean" then "avg"%string else fn.
(** functions.py's table as the translator emits it *)
Definition ref_class (fn : string) : option string :=
  if String.eqb fn "count" then Some "Count"%string else if String.eqb fn "sum" then Some "Sum"%string
  else if String.eqb fn "avg" then Some "Avg"%string else if String.eqb fn "mean" then Some "Avg"%string
  else if String.eqb fn "min" then Some "Min"%string else if String.eqb fn "max" then Some "Max"%string
  else if String.eqb fn "count_distinct" then Some "CountDistinct"%string else None.
Definition spark_short (m : shortfn) (col : string) : aexpr * string :=
  match m with
  | ShAvg | ShMean => (XAgg (FAvg (ECol col)), fmt_spark "avg" col)
  | ShMax => (XAgg (FMax (ECol col)), fmt_spark "max" col)
  | ShMin => (XAgg (FMin (ECol col)), fmt_spark "min" col)
  | ShSum => (XAgg (FSum (ECol col)), fmt_spark "sum" col)
  end.
Definition spark_count : aexpr * string := (XAgg FCountStar, "count"%string).
(** agg({col: fn}): fn in sum/avg/mean/min/max/count; mean is displayed as avg, "*" as 1 *)
Definition spark_dict (col fn : string) : option (aexpr * string) :=
  let shown := if String.eqb fn "mean" then "avg"%string else fn in
  let arg := if String.eqb col "*" then "1"%string else col in
  match class_agg (if String.eqb shown "avg" then "Avg"
                   else if String.eqb shown "sum" then "Sum"
                   else if String.eqb shown "min" then "Min"
                   else if String.eqb shown "max" then "Max"
                   else if String.eqb shown "count" then "Count" else "") col with
  | Some f => Some (XAgg f, fmt_spark shown arg)
  | None => None
  end.

(** ** side condition on the generated naming facts (decidable part) *)
Definition short_expect (m : shortfn) : string * string :=
  match m with ShAvg | ShMean => ("avg", "Avg") | ShMax => ("max", "Max") | ShMin => ("min", "Min")
             | ShSum => ("sum", "Sum") end%string.
Definition opt_str_eqb (a : option string) (b : string) : bool :=
  match a with Some x => String.eqb x b | None => false end.
Definition ncfg_ok (n : ncfg) : bool :=
  forallb (fun m => String.eqb (n_short_lit n m) (fst (short_expect m))
                    && opt_str_eqb (n_fn_class n (fst (short_expect m))) (snd (short_expect m))) all_short
  && opt_str_eqb (n_fn_class n "count") "Count"
  && negb (n_through_sanitize n && n_sanitize_on n)
  && n_count_star n && String.eqb (n_count_alias n) "count" && n_dict_key_is_col n.

Section Names.
  Variable n : ncfg.
  Hypothesis Hok : ncfg_ok n = true.
  Hypothesis Hfmt : forall f c, n_fmt n f c = fmt_arg f c.
  Hypothesis Hcanon : forall f, n_canon n f = canon_ref f.

  Lemma ncfg_parts :
    (forall m, n_short_lit n m = fst (short_expect m) /\ n_fn_class n (fst (short_expect m)) = Some (snd (short_expect m)))
    /\ n_fn_class n "count" = Some "Count"%string
    /\ (forall s, sanitize n s = s) /\ n_count_star n = true /\ n_count_alias n = "count"%string
    /\ n_dict_key_is_col n = true.
  Proof.
    pose proof Hok as K. unfold ncfg_ok in K.
    apply andb_true_iff in K; destruct K as [K HF].
    apply andb_true_iff in K; destruct K as [K HE].
    apply andb_true_iff in K; destruct K as [K HD].
    apply andb_true_iff in K; destruct K as [K HC].
    apply andb_true_iff in K; destruct K as [HA HB].
    assert (Ho : forall a b, opt_str_eqb a b = true -> a = Some b).
    { intros [a|] b E; simpl in E; [apply String.eqb_eq in E; congruence | discriminate]. }
    rewrite forallb_forall in HA.
    split; [|split; [|split; [|split; [|split]]]].
    - intro m. assert (Hin : In m all_short) by (destruct m; simpl; tauto).
      apply HA in Hin. apply andb_true_iff in Hin. destruct Hin as [E1 E2]. apply String.eqb_eq in E1.
      split; [exact E1 | apply Ho; exact E2].
    - apply Ho. exact HB.
    - intro s. unfold sanitize. apply negb_true_iff in HC. rewrite HC. reflexivity.
    - exact HD.
    - apply String.eqb_eq. exact HE.
    - exact HF.
  Qed.

  (** every shortcut aggregates what PySpark aggregates and names the column as PySpark does, for every column name *)
  Theorem shortcut_is_sparks m col :
    String.eqb col "*" = false -> short_item n m col = Some (spark_short m col).
  Proof.
    intro Hc. destruct ncfg_parts as (Hs & _ & Hsan & _).
    unfold short_item, applied. destruct (Hs m) as [E1 E2]. rewrite E1, Hcanon.
    assert (Ec : canon_ref (fst (short_expect m)) = fst (short_expect m)) by (destruct m; reflexivity).
    rewrite Ec, E2.
    unfold class_agg. rewrite Hc. rewrite Hsan, Hfmt. unfold fmt_arg. rewrite Hc.
    destruct m; reflexivity.
  Qed.

  Theorem count_is_sparks : count_item n = spark_count.
  Proof.
    destruct ncfg_parts as (_ & _ & _ & H1 & H2 & _). unfold count_item, spark_count. rewrite H1, H2. reflexivity.
  Qed.

  (** dict form: the same aggregate and the same name as PySpark, for EVERY function name and EVERY column name
      (incl. 'mean', shown as avg, and '*', shown as 1; a function PySpark's dict form does not know gives no column
      on either side) *)
  Hypothesis Hcls : forall f, n_fn_class n f = ref_class f.
  Theorem dict_is_sparks col fn : dict_item n col fn = spark_dict col fn.
  Proof.
    destruct ncfg_parts as (_ & _ & Hsan & _ & _ & Hd).
    unfold dict_item. rewrite Hd. unfold applied, spark_dict.
    rewrite Hcanon, Hcls. unfold canon_ref, ref_class.
    destruct (String.eqb fn "mean") eqn:Emean.
    { apply String.eqb_eq in Emean. subst fn. cbn.
      destruct (class_agg "Avg" col); [rewrite Hsan, Hfmt; reflexivity | reflexivity]. }
    cbv beta iota. rewrite ?Emean.
    destruct (String.eqb fn "count") eqn:E1.
    { apply String.eqb_eq in E1. subst fn. cbn.
      destruct (class_agg "Count" col); [rewrite Hsan, Hfmt; reflexivity | reflexivity]. }
    destruct (String.eqb fn "sum") eqn:E2.
    { apply String.eqb_eq in E2. subst fn. cbn.
      destruct (class_agg "Sum" col); [rewrite Hsan, Hfmt; reflexivity | reflexivity]. }
    destruct (String.eqb fn "avg") eqn:E3.
    { apply String.eqb_eq in E3. subst fn. cbn.
      destruct (class_agg "Avg" col); [rewrite Hsan, Hfmt; reflexivity | reflexivity]. }
    destruct (String.eqb fn "min") eqn:E4.
    { apply String.eqb_eq in E4. subst fn. cbn.
      destruct (class_agg "Min" col); [rewrite Hsan, Hfmt; reflexivity | reflexivity]. }
    destruct (String.eqb fn "max") eqn:E5.
    { apply String.eqb_eq in E5. subst fn. cbn.
      destruct (class_agg "Max" col); [rewrite Hsan, Hfmt; reflexivity | reflexivity]. }
    (* not a function of PySpark's dict form: no column on either side *)
    unfold class_agg.
    destruct (String.eqb fn "count_distinct"); destruct (String.eqb col "*"); reflexivity.
  Qed.
End Names.
