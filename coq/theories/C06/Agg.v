(** C06 core: GROUP BY / aggregate semantics (Spark's meaning and the SQL block sqlframe emits),
    for every key list, aggregate list and input frame.

    - [spec_agg] / [spec_cube] : PySpark's meaning of groupBy(keys).agg(aggs) and cube(keys).agg(aggs)
      (one deterministic representative: groups in first-occurrence order; validated against PySpark 3.5.9
      recordings as multisets).
    - [gblock] / [eval_gblock] : a SQL SELECT with GROUP BY (plain or GROUPING SETS); my definition of the
      engine's evaluation on the fragment sqlframe emits (validated against DuckDB by T3).
    - [cube_sets] : sqlframe's loop `for i in <indices>: extend(combinations(cols, i))`. *)
From SF Require Export Sql.Norm.
From Coq Require Import Permutation.
Open Scope Z_scope.

(** * Aggregates *)
Inductive aggfn :=
| FCountStar
| FCount (e : expr)
| FSum (e : expr)
| FAvg (e : expr)
| FMin (e : expr)
| FMax (e : expr)
| FCountDistinct (e : expr)
| FCountDistinctN (es : list expr).      (* count(distinct e1, e2, ...): combinations in which no member is NULL *)

(** first-class expressions over aggregates, e.g. sum(b) + count( * ) *)
Inductive aexpr :=
| XAgg (f : aggfn)
| XLit (v : val)
| XBin (o : binop) (a b : aexpr)
| XNeg (a : aexpr)
| XCoalesce (a b : aexpr)
| XGroupingId (args : list expr).        (* GROUPING_ID(args); Spark's grouping_id() has no arguments = all keys *)

Definition is_null (v : val) : bool := match v with VNull => true | _ => false end.
Definition nonnull (vs : list val) : list val := filter (fun v => negb (is_null v)) vs.
Definition vals_of (cs : list string) (rs : list row) (e : expr) : list val := map (fun r => eval cs r e) rs.

Definition sum_vals (vs : list val) : Z :=
  fold_right (fun v acc => match v with VInt z => z + acc | _ => acc end) 0 vs.

(** exact rational in lowest terms (avg); the harness converts the engine's double with
    Fraction.limit_denominator, which is also in lowest terms *)
Definition mk_rat (a b : Z) : val :=
  if b =? 0 then VNull else
  let g := Z.gcd a b in
  let a' := a / g in let b' := b / g in
  match b' with Zpos p => VRat a' p | Zneg p => VRat (- a') p | Z0 => VNull end.

Definition better (pick_gt : bool) (acc v : val) : val :=
  match acc with
  | VNull => v
  | _ => match val_cmp v acc with
         | Datatypes.Gt => if pick_gt then v else acc
         | Datatypes.Lt => if pick_gt then acc else v
         | Datatypes.Eq => acc
         end
  end.
Definition best (pick_gt : bool) (vs : list val) : val := fold_left (better pick_gt) vs VNull.

Definition agg_vals (f : aggfn) (n_rows : nat) (vs : list val) : val :=
  match f with
  | FCountStar => VInt (Z.of_nat n_rows)
  | FCount _ => VInt (Z.of_nat (List.length vs))
  | FSum _ => match vs with [] => VNull | _ => VInt (sum_vals vs) end
  | FAvg _ => match vs with [] => VNull | _ => mk_rat (sum_vals vs) (Z.of_nat (List.length vs)) end
  | FMin _ => best false vs
  | FMax _ => best true vs
  | FCountDistinct _ => VInt (Z.of_nat (List.length (dedup (map (fun v => [v]) vs))))
  | FCountDistinctN _ => VNull          (* evaluated on tuples, see [eval_aggfn] *)
  end.

Definition agg_arg (f : aggfn) : option expr :=
  match f with
  | FCountStar => None
  | FCount e | FSum e | FAvg e | FMin e | FMax e | FCountDistinct e => Some e
  | FCountDistinctN _ => None
  end.

Definition all_nonnull (t : row) : bool := forallb (fun v => negb (is_null v)) t.
Definition tuples_of (cs : list string) (rs : list row) (es : list expr) : list row :=
  map (fun r => map (eval cs r) es) rs.

(** every aggregate sees only the non-NULL values of its argument; count( * ) sees the rows *)
Definition eval_aggfn (cs : list string) (rs : list row) (f : aggfn) : val :=
  match f with
  | FCountDistinctN es => VInt (Z.of_nat (List.length (dedup (filter all_nonnull (tuples_of cs rs es)))))
  | _ => agg_vals f (List.length rs)
                  (match agg_arg f with Some e => nonnull (vals_of cs rs e) | None => [] end)
  end.

Fixpoint eval_aexpr (cs : list string) (rs : list row) (x : aexpr) : val :=
  match x with
  | XAgg f => eval_aggfn cs rs f
  | XLit v => v
  | XBin o a b => eval_bin o (eval_aexpr cs rs a) (eval_aexpr cs rs b)
  | XNeg a => match eval_aexpr cs rs a with VInt z => VInt (- z) | _ => VNull end
  | XCoalesce a b => match eval_aexpr cs rs a with VNull => eval_aexpr cs rs b | v => v end
  | XGroupingId _ => VNull              (* has a value only inside a grouping set: see [resolve_gid] *)
  end.

(** ** What the property says about single aggregates *)
Definition arg_not_null (cs : list string) (e : expr) (r : row) : bool := negb (is_null (eval cs r e)).

Lemma nonnull_vals_filter cs e rs :
  nonnull (vals_of cs (filter (arg_not_null cs e) rs) e) = nonnull (vals_of cs rs e).
Proof.
  unfold nonnull, vals_of, arg_not_null. induction rs as [|r rs IH]; simpl; [reflexivity|].
  destruct (is_null (eval cs r e)) eqn:E; simpl; [exact IH|].
  rewrite E; simpl. f_equal. exact IH.
Qed.

(** aggregates skip NULL inputs: deleting the rows whose argument is NULL changes no aggregate of that
    argument (count( * ) is the one aggregate without an argument) *)
Theorem aggregates_skip_null cs rs f e :
  agg_arg f = Some e ->
  eval_aggfn cs (filter (arg_not_null cs e) rs) f = eval_aggfn cs rs f.
Proof.
  intro H. unfold eval_aggfn. rewrite H, nonnull_vals_filter.
  destruct f; try discriminate; reflexivity.
Qed.

(** count(distinct e1, .., en) skips every row in which SOME member is NULL *)
Definition members_not_null (cs : list string) (es : list expr) (r : row) : bool := all_nonnull (map (eval cs r) es).
Lemma filter_map_comm {A B} (p : B -> bool) (f : A -> B) l : filter p (map f l) = map f (filter (fun x => p (f x)) l).
Proof. induction l as [|x l IH]; simpl; [reflexivity|]. destruct (p (f x)); simpl; rewrite IH; reflexivity. Qed.
Theorem count_distinct_n_skips_null cs rs es :
  eval_aggfn cs (filter (members_not_null cs es) rs) (FCountDistinctN es) = eval_aggfn cs rs (FCountDistinctN es)
  /\ ((forall r, In r rs -> members_not_null cs es r = false) -> eval_aggfn cs rs (FCountDistinctN es) = VInt 0).
Proof.
  unfold eval_aggfn, tuples_of. split.
  - rewrite !filter_map_comm. fold (members_not_null cs es).
    assert (E : filter (members_not_null cs es) (filter (members_not_null cs es) rs) = filter (members_not_null cs es) rs).
    { induction rs as [|r rs IH]; simpl; [reflexivity|].
      destruct (members_not_null cs es r) eqn:E; simpl; [rewrite E; f_equal; exact IH | exact IH]. }
    rewrite E. reflexivity.
  - intro H. rewrite filter_map_comm. fold (members_not_null cs es).
    assert (E : filter (members_not_null cs es) rs = []).
    { induction rs as [|r rs IH]; simpl; [reflexivity|].
      rewrite (H r) by (left; reflexivity). apply IH. intros r' Hr'. apply H. right; exact Hr'. }
    rewrite E. reflexivity.
Qed.
(** with one member it is count(distinct e) *)
Theorem count_distinct_n_one cs rs e : eval_aggfn cs rs (FCountDistinctN [e]) = eval_aggfn cs rs (FCountDistinct e).
Proof.
  unfold eval_aggfn, tuples_of; simpl. 
  unfold nonnull, vals_of. rewrite (filter_map_comm _ (fun r => eval cs r e)), map_map.
  rewrite (filter_map_comm all_nonnull).
  rewrite (filter_ext (fun x : row => all_nonnull [eval cs x e]) (fun x => negb (is_null (eval cs x e)))); [reflexivity|].
  intro r. unfold all_nonnull. simpl. apply andb_true_r.
Qed.

Theorem count_star_counts_rows cs rs : eval_aggfn cs rs FCountStar = VInt (Z.of_nat (List.length rs)).
Proof. reflexivity. Qed.

Lemma length_nonnull_vals cs e rs :
  List.length (nonnull (vals_of cs rs e)) = List.length (filter (arg_not_null cs e) rs).
Proof.
  unfold nonnull, vals_of, arg_not_null. induction rs as [|r rs IH]; simpl; [reflexivity|].
  destruct (is_null (eval cs r e)); simpl; [exact IH | f_equal; exact IH].
Qed.

Theorem count_col_counts_nonnull cs rs e :
  eval_aggfn cs rs (FCount e) = VInt (Z.of_nat (List.length (filter (arg_not_null cs e) rs))).
Proof. unfold eval_aggfn; simpl. rewrite length_nonnull_vals. reflexivity. Qed.

(** a group whose argument values are all NULL: count = 0, count distinct = 0, the others are NULL *)
Theorem all_null_group cs rs e :
  (forall r, In r rs -> eval cs r e = VNull) ->
  eval_aggfn cs rs (FCount e) = VInt 0 /\ eval_aggfn cs rs (FCountDistinct e) = VInt 0 /\
  eval_aggfn cs rs (FSum e) = VNull /\ eval_aggfn cs rs (FAvg e) = VNull /\
  eval_aggfn cs rs (FMin e) = VNull /\ eval_aggfn cs rs (FMax e) = VNull.
Proof.
  intro H.
  assert (E : nonnull (vals_of cs rs e) = []).
  { unfold nonnull, vals_of. induction rs as [|r rs IH]; simpl; [reflexivity|].
    rewrite (H r) by (left; reflexivity). simpl. apply IH. intros r' Hr'. apply H. right; exact Hr'. }
  unfold eval_aggfn; simpl. rewrite E. simpl. repeat split; reflexivity.
Qed.

(** * Grouping: NULL is an ordinary key value ([row_eqb] / [dedup] compare VNull = VNull) *)
Definition keyvals (cs : list string) (ks : list expr) (r : row) : row := map (eval cs r) ks.
Definition members (cs : list string) (ks : list expr) (rs : list row) (k : row) : list row :=
  filter (fun r => row_eqb (keyvals cs ks r) k) rs.
Definition group_keys (cs : list string) (ks : list expr) (rs : list row) : list row :=
  dedup (map (keyvals cs ks) rs).

Lemma existsb_row_In (x : row) seen : existsb (row_eqb x) seen = true <-> In x seen.
Proof.
  rewrite existsb_exists. split.
  - intros [y [Hy E]]. apply row_eqb_eq in E. subst. exact Hy.
  - intro H. exists x. split; [exact H | apply row_eqb_eq; reflexivity].
Qed.

Lemma dedup_on_id_In (l : list row) : forall seen x,
  In x (dedup_on (fun r => r) seen l) <-> (In x l /\ ~ In x seen).
Proof.
  induction l as [|y l IH]; intros seen x; simpl.
  - tauto.
  - destruct (existsb (row_eqb y) seen) eqn:E.
    + apply existsb_row_In in E. rewrite IH. split.
      * intros [H1 H2]. tauto.
      * intros [[H|H] H2]; [subst; contradiction | tauto].
    + assert (Hn : ~ In y seen) by (intro H; apply existsb_row_In in H; congruence).
      simpl. rewrite IH. simpl. split.
      * intros [H|[H1 H2]]; [subst; tauto | tauto].
      * intros [[H|H] H2]; [left; exact H|].
        destruct (row_eq_dec y x) as [->|Hne]; [left; reflexivity|]. right. split; [exact H|].
        intros [H3|H3]; [contradiction | contradiction].
Qed.

Lemma dedup_on_id_NoDup (l : list row) : forall seen, NoDup (dedup_on (fun r => r) seen l).
Proof.
  induction l as [|y l IH]; intro seen; simpl; [constructor|].
  destruct (existsb (row_eqb y) seen); [apply IH|].
  constructor; [|apply IH]. intro H. apply dedup_on_id_In in H. destruct H as [_ H]. apply H. left; reflexivity.
Qed.

Lemma dedup_In (l : list row) x : In x (dedup l) <-> In x l.
Proof. unfold dedup. rewrite dedup_on_id_In. simpl. tauto. Qed.
Lemma dedup_NoDup (l : list row) : NoDup (dedup l).
Proof. apply dedup_on_id_NoDup. Qed.

Lemma group_keys_NoDup cs ks rs : NoDup (group_keys cs ks rs).
Proof. apply dedup_NoDup. Qed.
Lemma group_keys_In cs ks rs k : In k (group_keys cs ks rs) <-> exists r, In r rs /\ keyvals cs ks r = k.
Proof.
  unfold group_keys. rewrite dedup_In, in_map_iff. split; intros [r [H1 H2]]; exists r; tauto.
Qed.
Lemma members_In cs ks rs k r : In r (members cs ks rs k) <-> In r rs /\ keyvals cs ks r = k.
Proof. unfold members. rewrite filter_In, row_eqb_eq. tauto. Qed.

(** * PySpark's meaning *)
Definition agg_row (cs : list string) (rs : list row) (aggs : list aexpr) : row := map (eval_aexpr cs rs) aggs.

Definition spec_groupby (ks : list expr) (aggs : list aexpr) (cs : list string) (rs : list row) : list row :=
  match ks with
  | [] => [agg_row cs rs aggs]                       (* global aggregate: exactly one row, also on no input *)
  | _ => map (fun k => k ++ agg_row cs (members cs ks rs k) aggs) (group_keys cs ks rs)
  end.

Definition agg_names (keys : list (expr * string)) (aggs : list (aexpr * string)) : list string :=
  map snd keys ++ map snd aggs.

Definition spec_agg (keys : list (expr * string)) (aggs : list (aexpr * string)) (fr : frame) : frame :=
  mkFrame (agg_names keys aggs) (spec_groupby (map fst keys) (map fst aggs) (cols fr) (rows fr)).

(** ** one row per distinct key combination *)
Theorem one_row_per_distinct_key ks aggs cs rs :
  ks <> [] ->
  let out := spec_groupby ks aggs cs rs in
  map (firstn (List.length ks)) out = group_keys cs ks rs
  /\ NoDup (map (firstn (List.length ks)) out)
  /\ (forall r, In r rs -> In (keyvals cs ks r) (map (firstn (List.length ks)) out))
  /\ (forall k, In k (map (firstn (List.length ks)) out) -> exists r, In r rs /\ keyvals cs ks r = k)
  /\ List.length out = List.length (group_keys cs ks rs).
Proof.
  intros Hne out.
  assert (E : map (firstn (List.length ks)) out = group_keys cs ks rs).
  { subst out. unfold spec_groupby. destruct ks as [|k0 ks']; [congruence|].
    rewrite map_map. rewrite <- (map_id (group_keys cs (k0 :: ks') rs)) at 2.
    apply map_ext_in. intros k Hk. apply group_keys_In in Hk. destruct Hk as [r [_ <-]].
    assert (L : List.length (keyvals cs (k0 :: ks') r) = List.length (k0 :: ks'))
      by (unfold keyvals; apply map_length).
    rewrite <- L. rewrite firstn_app, Nat.sub_diag, firstn_all. cbn [firstn]. apply app_nil_r. }
  rewrite E. repeat split.
  - apply group_keys_NoDup.
  - intros r Hr. apply group_keys_In. exists r. tauto.
  - intros k Hk. apply group_keys_In. exact Hk.
  - rewrite <- E. symmetry. apply map_length.
Qed.

(** ** NULL is a key value like any other: two rows fall into the same output group exactly when their key
    tuples are equal with NULL = NULL; in particular the rows whose keys are all NULL form a group of
    their own, keyed by NULLs *)
Theorem null_is_a_key ks aggs cs rs r :
  ks <> [] -> In r rs ->
  let k := keyvals cs ks r in
  In (k ++ agg_row cs (members cs ks rs k) aggs) (spec_groupby ks aggs cs rs)
  /\ (forall r', In r' (members cs ks rs k) <-> In r' rs /\ row_eqb (keyvals cs ks r') k = true)
  /\ (k = repeat VNull (List.length ks) ->
      In (repeat VNull (List.length ks) ++ agg_row cs (members cs ks rs k) aggs) (spec_groupby ks aggs cs rs)).
Proof.
  intros Hne Hr k.
  assert (H1 : In (k ++ agg_row cs (members cs ks rs k) aggs) (spec_groupby ks aggs cs rs)).
  { unfold spec_groupby. destruct ks as [|k0 ks']; [congruence|].
    apply in_map_iff. exists k. split; [reflexivity|]. apply group_keys_In. exists r. tauto. }
  split; [exact H1|]. split.
  - intro r'. unfold members. rewrite filter_In. tauto.
  - intro E. rewrite <- E. exact H1.
Qed.

Theorem empty_global_one_row aggs cs :
  spec_groupby [] aggs cs [] = [agg_row cs [] aggs]
  /\ eval_aggfn cs [] FCountStar = VInt 0
  /\ (forall e, eval_aggfn cs [] (FCount e) = VInt 0 /\ eval_aggfn cs [] (FSum e) = VNull
                /\ eval_aggfn cs [] (FAvg e) = VNull /\ eval_aggfn cs [] (FMin e) = VNull
                /\ eval_aggfn cs [] (FMax e) = VNull /\ eval_aggfn cs [] (FCountDistinct e) = VInt 0).
Proof. repeat split; reflexivity. Qed.

Theorem empty_grouped_no_row ks aggs cs : ks <> [] -> spec_groupby ks aggs cs [] = [].
Proof. intro H. destruct ks; [congruence | reflexivity]. Qed.

(** ** output columns: the keys, then the aggregates, in the order given *)
Theorem agg_cols keys aggs fr :
  cols (spec_agg keys aggs fr) = map snd keys ++ map snd aggs
  /\ (forall row, In row (rows (spec_agg keys aggs fr)) ->
        exists k mem, row = k ++ map (eval_aexpr (cols fr) mem) (map fst aggs)
                      /\ List.length k = List.length keys
                      /\ List.length row = List.length (agg_names keys aggs)
                      /\ (forall r, In r mem -> In r (rows fr) /\ keyvals (cols fr) (map fst keys) r = k)).
Proof.
  split; [reflexivity|].
  intros row Hrow. unfold spec_agg in Hrow; simpl in Hrow. unfold spec_groupby in Hrow.
  destruct (map fst keys) as [|k0 ks'] eqn:Ek.
  - destruct Hrow as [<-|[]]. exists [], (rows fr). simpl.
    assert (keys = []) by (destruct keys; [reflexivity | discriminate]). subst keys.
    repeat split; auto.
    unfold agg_row, agg_names; simpl. rewrite !map_length. reflexivity.
  - apply in_map_iff in Hrow. destruct Hrow as [k [<- Hk]].
    apply group_keys_In in Hk. destruct Hk as [r [Hr Hkr]].
    exists k, (members (cols fr) (k0 :: ks') (rows fr) k).
    assert (Lk : List.length k = List.length keys).
    { rewrite <- Hkr. unfold keyvals. rewrite map_length, <- Ek, map_length. reflexivity. }
    repeat split; auto.
    + unfold agg_row, agg_names. rewrite !app_length, !map_length. lia.
    + apply members_In in H. tauto.
    + apply members_In in H. tauto.
Qed.

(** * The SQL block sqlframe emits *)
Inductive sitem := SKey (e : expr) | SAgg (x : aexpr).
Inductive gclause :=
| GPlain (ks : list expr)                 (* GROUP BY ks; [] = no GROUP BY clause at all (global aggregate) *)
| GSets (sets : list (list expr)).        (* GROUP BY GROUPING SETS (...) *)
(** [g_having] = the block carries HAVING COUNT( * ) > 0 (sqlframe adds it to GROUPING SETS blocks) *)
Record gblock := mkG { g_where : list expr; g_group : gclause; g_sel : list (sitem * string); g_having : bool }.

Fixpoint find_expr (e : expr) (gs : list expr) : option nat :=
  match gs with
  | [] => None
  | g :: gs' => if expr_eqb g e then Some O else option_map S (find_expr e gs')
  end.
(** a grouping expression in the select list denotes its group's key value; an expression that is not
    in the current grouping set is NULL (sub-total rows of GROUPING SETS) *)
Definition key_lookup (e : expr) (gs : list expr) (k : row) : val :=
  match find_expr e gs with Some i => nth i k VNull | None => VNull end.

(** GROUPING_ID(args) inside grouping set [gs]: one bit per argument, first argument = most significant, set
    when the argument is NOT grouped in this set *)
Definition mem_expr (e : expr) (gs : list expr) : bool := existsb (expr_eqb e) gs.
Definition gid_bits (args gs : list expr) : Z :=
  fold_left (fun acc e => 2 * acc + (if mem_expr e gs then 0 else 1)) args 0.
Fixpoint resolve_gid (gs : list expr) (x : aexpr) : aexpr :=
  match x with
  | XGroupingId args => XLit (VInt (gid_bits args gs))
  | XBin o a b => XBin o (resolve_gid gs a) (resolve_gid gs b)
  | XNeg a => XNeg (resolve_gid gs a)
  | XCoalesce a b => XCoalesce (resolve_gid gs a) (resolve_gid gs b)
  | _ => x
  end.
(** Spark: grouping_id() (any argument list it accepts equals the keys) is the level indicator over ALL keys *)
Fixpoint spark_gid (all gs : list expr) (x : aexpr) : aexpr :=
  match x with
  | XGroupingId _ => XLit (VInt (gid_bits all gs))
  | XBin o a b => XBin o (spark_gid all gs a) (spark_gid all gs b)
  | XNeg a => XNeg (spark_gid all gs a)
  | XCoalesce a b => XCoalesce (spark_gid all gs a) (spark_gid all gs b)
  | _ => x
  end.
Fixpoint no_gid (x : aexpr) : bool :=
  match x with
  | XGroupingId _ => false
  | XBin _ a b | XCoalesce a b => no_gid a && no_gid b
  | XNeg a => no_gid a
  | _ => true
  end.
(** sqlframe fills in the keys only when the WHOLE aggregate column is grouping_id() *)
Definition gid_top (x : aexpr) : bool := match x with XGroupingId _ => true | _ => no_gid x end.
(** the expansion in GroupedData.agg; [always] = the argument list is overwritten whatever it held before
    (the Column object is the user's and may have been through an earlier agg call) *)
Definition is_nil {A} (l : list A) : bool := match l with [] => true | _ => false end.
Definition expand_gid (always : bool) (keys : list expr) (x : aexpr) : aexpr :=
  match x with
  | XGroupingId args => if always || is_nil args then XGroupingId keys else x
  | _ => x
  end.

Lemma resolve_no_gid gs x : no_gid x = true -> resolve_gid gs x = x.
Proof.
  induction x; simpl; intro H; try reflexivity; try discriminate.
  - apply andb_true_iff in H. destruct H. rewrite IHx1, IHx2; auto.
  - rewrite IHx; auto.
  - apply andb_true_iff in H. destruct H. rewrite IHx1, IHx2; auto.
Qed.
Lemma spark_no_gid all gs x : no_gid x = true -> spark_gid all gs x = x.
Proof.
  induction x; simpl; intro H; try reflexivity; try discriminate.
  - apply andb_true_iff in H. destruct H. rewrite IHx1, IHx2; auto.
  - rewrite IHx; auto.
  - apply andb_true_iff in H. destruct H. rewrite IHx1, IHx2; auto.
Qed.
(** with the unconditional overwrite the expanded GROUPING_ID(keys) is Spark's grouping_id() at every level,
    whatever argument list the Column object carried before (history independence) *)
Lemma expand_is_spark keys gs x : gid_top x = true -> resolve_gid gs (expand_gid true keys x) = spark_gid keys gs x.
Proof.
  destruct x; simpl; intro H; try reflexivity.
  - apply andb_true_iff in H. destruct H. rewrite !resolve_no_gid, !spark_no_gid; auto.
  - rewrite resolve_no_gid, spark_no_gid; auto.
  - apply andb_true_iff in H. destruct H. rewrite !resolve_no_gid, !spark_no_gid; auto.
Qed.

Definition sel_row (cs : list string) (gs : list expr) (k : row) (mem : list row)
           (sel : list (sitem * string)) : row :=
  map (fun it => match fst it with
                 | SKey e => key_lookup e gs k
                 | SAgg x => eval_aexpr cs mem (resolve_gid gs x)
                 end) sel.

(** rows of one grouping set; the empty set is the grand total, which SQL defines as exactly one row even
    on no input (engine fact; Spark differs for cube -- see [spec_cube]) *)
Definition set_rows (cs : list string) (sel : list (sitem * string)) (rs : list row) (gs : list expr) : list row :=
  match gs with
  | [] => [sel_row cs [] [] rs sel]
  | _ => map (fun k => sel_row cs gs k (members cs gs rs k) sel) (group_keys cs gs rs)
  end.

Definition eval_gblock (g : gblock) (fr : frame) : frame :=
  let cs := cols fr in
  let rs := filter (all_hold cs (g_where g)) (rows fr) in
  mkFrame (map snd (g_sel g))
          (* HAVING COUNT( * ) > 0 drops the groups without rows: only the grand total of an empty input is one,
             and then no other grouping set has a group *)
          (if g_having g && (match rs with [] => true | _ => false end) then []
           else match g_group g with
                | GPlain ks => set_rows cs (g_sel g) rs ks
                | GSets sets => flat_map (set_rows cs (g_sel g) rs) sets
                end).

Lemma wf_eval_gblock g fr : wf_frame (eval_gblock g fr).
Proof.
  intros r Hr. unfold eval_gblock in *; simpl in *.
  assert (H : forall rs gs, In r (set_rows (cols fr) (g_sel g) rs gs) ->
                            List.length r = List.length (map snd (g_sel g))).
  { intros rs gs Hin. unfold set_rows in Hin. destruct gs as [|g0 gs'].
    - destruct Hin as [<-|[]]. unfold sel_row. rewrite !map_length. reflexivity.
    - apply in_map_iff in Hin. destruct Hin as [k [<- _]]. unfold sel_row. rewrite !map_length. reflexivity. }
  destruct (g_having g && _); [contradiction|].
  destruct (g_group g) as [ks|sets]; [eapply H; exact Hr|].
  apply in_flat_map in Hr. destruct Hr as [gs [_ Hin]]. eapply H; exact Hin.
Qed.

(** ** the block built by GroupedData.agg *)
Definition key_items (keys : list (expr * string)) : list (sitem * string) :=
  map (fun p => (SKey (fst p), snd p)) keys.
Definition agg_items (aggs : list (aexpr * string)) : list (sitem * string) :=
  map (fun p => (SAgg (fst p), snd p)) aggs.
(** [append] is the flag given to sqlglot's .select(): true would keep the select list already there *)
Definition agg_gblock (append : bool) (b : block) (keys : list (expr * string)) (aggs : list (aexpr * string)) : gblock :=
  mkG (b_where b) (GPlain (map fst keys))
      ((if append then map (fun p => (SKey (fst p), snd p)) (b_sel b) else []) ++ key_items keys ++ agg_items aggs) false.
Definition expand_aggs (always : bool) (keys : list (expr * string)) (aggs : list (aexpr * string)) :=
  map (fun p => (expand_gid always (map fst keys) (fst p), snd p)) aggs.
Definition cube_gblock (append having gid_always : bool) (sets : list (list expr)) (b : block)
           (keys : list (expr * string)) (aggs : list (aexpr * string)) : gblock :=
  mkG (b_where b) (GSets sets)
      ((if append then map (fun p => (SKey (fst p), snd p)) (b_sel b) else []) ++ key_items keys
       ++ agg_items (expand_aggs gid_always keys aggs)) having.
Definition no_gids (aggs : list (aexpr * string)) : bool := forallb (fun p => no_gid (fst p)) aggs.
Definition gids_top (aggs : list (aexpr * string)) : bool := forallb (fun p => gid_top (fst p)) aggs.

Lemma expr_eqb_refl e : expr_eqb e e = true.
Proof.
  induction e; simpl; try (rewrite ?IHe, ?IHe1, ?IHe2, ?IHe3; reflexivity).
  - apply String.eqb_refl.
  - apply val_eqb_refl.
  - rewrite IHe1, IHe2. destruct o; reflexivity.
Qed.

Lemma find_expr_In e gs : In e gs -> exists j, find_expr e gs = Some j /\ nth_error gs j = Some e.
Proof.
  induction gs as [|g gs IH]; simpl; intro H; [contradiction|].
  destruct (expr_eqb g e) eqn:E.
  - apply expr_eqb_eq in E. subst. exists O. split; reflexivity.
  - destruct H as [->|H]; [rewrite expr_eqb_refl in E; discriminate|].
    destruct (IH H) as [j [H1 H2]]. exists (S j). rewrite H1. split; [reflexivity | exact H2].
Qed.

Lemma key_lookup_keyvals cs ks r e : In e ks -> key_lookup e ks (keyvals cs ks r) = eval cs r e.
Proof.
  intro H. destruct (find_expr_In e ks H) as [j [H1 H2]]. unfold key_lookup. rewrite H1.
  unfold keyvals. apply nth_error_nth. rewrite nth_error_map, H2. reflexivity.
Qed.

Lemma sel_row_keys_aggs cs ks r mem keys aggs :
  ks = map fst keys ->
  sel_row cs ks (keyvals cs ks r) mem (key_items keys ++ agg_items aggs)
  = keyvals cs ks r ++ agg_row cs mem (map (resolve_gid ks) (map fst aggs)).
Proof.
  intro Hk. unfold sel_row. rewrite map_app. f_equal.
  - unfold key_items. rewrite map_map. simpl. subst ks. unfold keyvals at 2. rewrite map_map.
    apply map_ext_in. intros p Hp. apply key_lookup_keyvals. apply in_map. exact Hp.
  - unfold agg_items, agg_row. rewrite !map_map. reflexivity.
Qed.

Lemma map_resolve_no_gids gs aggs : no_gids aggs = true -> map (resolve_gid gs) (map fst aggs) = map fst aggs.
Proof.
  unfold no_gids. intro H. rewrite forallb_forall in H. rewrite <- (map_id (map fst aggs)) at 2.
  apply map_ext_in. intros x Hx. apply in_map_iff in Hx. destruct Hx as [p [<- Hp]]. apply resolve_no_gid. auto.
Qed.

(** the emitted block means what PySpark means, on every frame (grouping_id() belongs to cube, not to groupBy) *)
Theorem gblock_is_spec b keys aggs fr :
  no_gids aggs = true ->
  eval_gblock (agg_gblock false b keys aggs) fr
  = spec_agg keys aggs (mkFrame (cols fr) (filter (all_hold (cols fr) (b_where b)) (rows fr))).
Proof.
  intro Hng. unfold eval_gblock, agg_gblock, spec_agg; simpl. f_equal.
  - unfold agg_names, key_items, agg_items. rewrite map_app, !map_map. reflexivity.
  - set (rs := filter _ _). unfold set_rows, spec_groupby.
    destruct (map fst keys) as [|k0 ks'] eqn:Ek.
    + assert (keys = []) by (destruct keys; [reflexivity | discriminate]). subst keys. simpl.
      rewrite <- (map_resolve_no_gids [] aggs Hng).
      unfold sel_row, agg_items, agg_row. rewrite !map_map. reflexivity.
    + apply map_ext_in. intros k Hk. apply group_keys_In in Hk. destruct Hk as [r [_ <-]].
      rewrite <- Ek. rewrite (sel_row_keys_aggs _ _ _ _ keys aggs eq_refl).
      rewrite (map_resolve_no_gids _ aggs Hng). reflexivity.
Qed.

(** * cube: every sub-total level *)
Fixpoint combinations {A} (l : list A) (k : nat) : list (list A) :=
  match k, l with
  | O, _ => [[]]
  | S _, [] => []
  | S k', x :: l' => map (cons x) (combinations l' k') ++ combinations l' k
  end.
Fixpoint powerset {A} (l : list A) : list (list A) :=
  match l with
  | [] => [[]]
  | x :: l' => map (cons x) (powerset l') ++ powerset l'
  end.
(** sqlframe's loop: for i in idxs(len cols): sets.extend(combinations(cols, i)) *)
Definition cube_sets_with {A} (idxs : nat -> list nat) (ks : list A) : list (list A) :=
  flat_map (combinations ks) (idxs (List.length ks)).
(** the loop as it stands in the pinned source: i from n down to 0 *)
Definition cube_sets {A} (ks : list A) : list (list A) :=
  cube_sets_with (fun n => rev (seq 0 (n + 1))) ks.

Lemma combinations_too_many {A} (l : list A) : forall k, (List.length l < k)%nat -> combinations l k = [].
Proof.
  induction l as [|x l IH]; intros [|k] H; simpl in *; try lia; try reflexivity.
  rewrite (IH k) by lia. rewrite (IH (S k)) by lia. reflexivity.
Qed.

Lemma flat_map_app_perm {A B} (f g : A -> list B) l :
  Permutation (flat_map (fun x => f x ++ g x) l) (flat_map f l ++ flat_map g l).
Proof.
  induction l as [|x l IH]; simpl; [constructor|].
  rewrite <- !app_assoc. apply Permutation_app_head.
  etransitivity; [apply Permutation_app_head; exact IH|].
  rewrite !app_assoc. apply Permutation_app_tail. apply Permutation_app_comm.
Qed.

Lemma flat_map_map_cons {A B} (h : list B -> list B) (f : A -> list (list B)) l :
  flat_map (fun k => map h (f k)) l = map h (flat_map f l).
Proof. induction l as [|x l IH]; simpl; [reflexivity|]. rewrite map_app, IH. reflexivity. Qed.

Lemma flat_map_seq_shift {B} (f : nat -> list B) n :
  flat_map f (seq 1 n) = flat_map (fun k => f (S k)) (seq 0 n).
Proof. rewrite <- seq_shift. rewrite !flat_map_concat_map, map_map. reflexivity. Qed.

Lemma combinations_0 {A} (l : list A) : combinations l 0 = [[]].
Proof. destruct l; reflexivity. Qed.

Lemma comb_cons_shift {A} (x : A) l n :
  Permutation (flat_map (combinations (x :: l)) (seq 1 n))
              (map (cons x) (flat_map (combinations l) (seq 0 n)) ++ flat_map (combinations l) (seq 1 n)).
Proof.
  rewrite flat_map_seq_shift. cbn [combinations].
  etransitivity; [apply flat_map_app_perm|].
  rewrite flat_map_map_cons. apply Permutation_app_head.
  rewrite (flat_map_seq_shift (combinations l)). reflexivity.
Qed.

Lemma by_size_powerset {A} (l : list A) :
  Permutation (flat_map (combinations l) (seq 0 (S (List.length l)))) (powerset l).
Proof.
  induction l as [|x l IH].
  - simpl. constructor; constructor.
  - cbn [List.length powerset].
    set (n := List.length l) in *.
    change (seq 0 (S (S n))) with (O :: seq 1 (S n)). cbn [flat_map]. rewrite combinations_0.
    etransitivity; [apply Permutation_app_head; apply comb_cons_shift|].
    (* the last size class of l is empty *)
    assert (E1 : flat_map (combinations l) (seq 1 (S n)) = flat_map (combinations l) (seq 1 n)).
    { rewrite seq_S, flat_map_app. simpl. rewrite (combinations_too_many l (S n)) by (subst n; lia).
      simpl. apply app_nil_r. }
    rewrite E1.
    assert (E2 : Permutation (powerset l) ([[]] ++ flat_map (combinations l) (seq 1 n))).
    { etransitivity; [symmetry; exact IH|]. change (seq 0 (S n)) with (O :: seq 1 n). cbn [flat_map].
      rewrite combinations_0. reflexivity. }
    etransitivity; [|apply Permutation_app; [apply Permutation_map; exact IH | symmetry; exact E2]].
    etransitivity; [apply Permutation_app_comm|]. rewrite <- app_assoc.
    apply Permutation_app_head. apply Permutation_app_comm.
Qed.

(** any index list that enumerates 0..n once each yields every subset once *)
Theorem cube_sets_with_powerset {A} (idxs : nat -> list nat) :
  (forall n, Permutation (idxs n) (seq 0 (S n))) ->
  forall ks : list A, Permutation (cube_sets_with idxs ks) (powerset ks).
Proof.
  intros H ks. unfold cube_sets_with.
  etransitivity; [|apply by_size_powerset].
  apply Permutation_flat_map. apply H.
Qed.

Theorem cube_sets_are_powerset {A} (ks : list A) : Permutation (cube_sets ks) (powerset ks).
Proof.
  apply cube_sets_with_powerset. intro n. rewrite Nat.add_1_r. symmetry. apply Permutation_rev.
Qed.


(** ** PySpark's cube: one row per (subset of the keys, distinct combination of that subset's values);
    keys outside the subset are NULL; no input rows, no output rows *)
Definition level_rows (cs : list string) (all : list expr) (aggs : list aexpr) (rs : list row)
           (sub : list expr) : list row :=
  map (fun k => map (fun e => key_lookup e sub k) all
                ++ agg_row cs (members cs sub rs k) (map (spark_gid all sub) aggs))
      (group_keys cs sub rs).
Definition spec_cube (keys : list (expr * string)) (aggs : list (aexpr * string)) (fr : frame) : frame :=
  mkFrame (agg_names keys aggs)
          (flat_map (level_rows (cols fr) (map fst keys) (map fst aggs) (rows fr)) (powerset (map fst keys))).

(** cube adds every sub-total level: for each subset of the keys and each input row there is an output row
    carrying that row's values on the subset, NULL elsewhere, and the aggregates of its group *)
Theorem cube_has_every_subtotal keys aggs fr sub r :
  In sub (powerset (map fst keys)) -> In r (rows fr) ->
  let k := keyvals (cols fr) sub r in
  In (map (fun e => key_lookup e sub k) (map fst keys)
      ++ agg_row (cols fr) (members (cols fr) sub (rows fr) k) (map (spark_gid (map fst keys) sub) (map fst aggs)))
     (rows (spec_cube keys aggs fr)).
Proof.
  intros Hs Hr k. unfold spec_cube; simpl. apply in_flat_map. exists sub. split; [exact Hs|].
  unfold level_rows. apply in_map_iff. exists k. split; [reflexivity|].
  apply group_keys_In. exists r. tauto.
Qed.

Lemma sel_row_split cs gs k mem keys aggs :
  sel_row cs gs k mem (key_items keys ++ agg_items aggs)
  = map (fun e => key_lookup e gs k) (map fst keys) ++ agg_row cs mem (map (resolve_gid gs) (map fst aggs)).
Proof.
  unfold sel_row, key_items, agg_items, agg_row. rewrite map_app, !map_map. reflexivity.
Qed.

Lemma group_keys_nil cs rs : rs <> [] -> group_keys cs [] rs = [[]].
Proof.
  intro H. unfold group_keys, keyvals. simpl. destruct rs as [|r rs]; [congruence|]. simpl.
  unfold dedup. simpl. f_equal. clear H.
  induction rs as [|r' rs IH]; simpl; [reflexivity | exact IH].
Qed.
Lemma members_nil cs rs : members cs [] rs [] = rs.
Proof. unfold members. apply filter_true. reflexivity. Qed.

Lemma expand_map_is_spark keys gs aggs :
  gids_top aggs = true ->
  map (resolve_gid gs) (map fst (expand_aggs true keys aggs)) = map (spark_gid (map fst keys) gs) (map fst aggs).
Proof.
  unfold gids_top, expand_aggs. intro H. rewrite forallb_forall in H. rewrite !map_map.
  apply map_ext_in. intros p Hp. simpl. apply expand_is_spark. auto.
Qed.

Lemma set_rows_level cs keys aggs rs gs :
  rs <> [] -> gids_top aggs = true ->
  set_rows cs (key_items keys ++ agg_items (expand_aggs true keys aggs)) rs gs
  = level_rows cs (map fst keys) (map fst aggs) rs gs.
Proof.
  intros Hne Ht. unfold set_rows, level_rows. destruct gs as [|g0 gs'].
  - rewrite group_keys_nil by exact Hne. simpl. rewrite members_nil, sel_row_split, expand_map_is_spark by exact Ht.
    reflexivity.
  - apply map_ext. intro k. rewrite sel_row_split, expand_map_is_spark by exact Ht. reflexivity.
Qed.

Lemma level_rows_nil cs all aggs sub : level_rows cs all aggs [] sub = [].
Proof. reflexivity. Qed.

(** the GROUPING SETS block sqlframe emits for cube means PySpark's cube (as a multiset): on every input when the
    block carries HAVING COUNT( * ) > 0, otherwise whenever at least one row reaches the aggregation;
    [idxs] is the index list of sqlframe's loop *)
Theorem cube_block_is_spec (idxs : nat -> list nat) (having : bool) b keys aggs fr :
  (forall n, Permutation (idxs n) (seq 0 (S n))) -> gids_top aggs = true ->
  let fr' := mkFrame (cols fr) (filter (all_hold (cols fr) (b_where b)) (rows fr)) in
  having = true \/ rows fr' <> [] ->
  cols (eval_gblock (cube_gblock false having true (cube_sets_with idxs (map fst keys)) b keys aggs) fr)
  = cols (spec_cube keys aggs fr')
  /\ Permutation (rows (eval_gblock (cube_gblock false having true (cube_sets_with idxs (map fst keys)) b keys aggs) fr))
                 (rows (spec_cube keys aggs fr')).
Proof.
  intros Hidx Htop fr' Hdom. split.
  - unfold eval_gblock, cube_gblock, spec_cube, agg_names, key_items, agg_items, expand_aggs; simpl.
    rewrite map_app, !map_map. reflexivity.
  - subst fr'. unfold eval_gblock, cube_gblock, spec_cube. cbn [g_where g_group g_sel g_having rows cols] in *.
    set (rs := filter _ _) in *.
    destruct rs as [|r0 rs'] eqn:Ers.
    + (* no row reaches the aggregation *)
      assert (Hs : flat_map (level_rows (cols fr) (map fst keys) (map fst aggs) []) (powerset (map fst keys)) = []).
      { induction (powerset (map fst keys)) as [|x l IH]; simpl; [reflexivity | exact IH]. }
      rewrite Hs. destruct Hdom as [->|Hne]; [simpl; constructor | congruence].
    + rewrite andb_false_r. cbn [app].
      assert (Hne : r0 :: rs' <> []) by discriminate.
      rewrite (flat_map_ext _ _ (fun gs => set_rows_level (cols fr) keys aggs (r0 :: rs') gs Hne Htop)).
      apply Permutation_flat_map. apply cube_sets_with_powerset. exact Hidx.
Qed.
