(** C06, compiler side: the aggregation step inside C01's clause-ordering compiler.

    A DataFrame program is a list of [xop]: C01's operations and aggregation calls.  The compiled form is
    a list of stages (plain SELECT blocks and grouped SELECT blocks).  After an aggregation the state is
    again a C01 state whose input is the aggregate's result, so C01's [step_correct] applies unchanged to
    whatever follows (where/select/orderBy/limit/distinct/another aggregation).

    Generated from /repo (T1) and instantiated in props/C06.v: the two wrapper predicates, the INIT flags,
    the decorator of groupBy / cube / DataFrame.agg / GroupedData.agg, the append= flag of the select call. *)
From SF Require Export C06.Agg Model.Chain.
From SF Require Import Model.ChainProof.
From Coq Require Import Permutation.
Open Scope Z_scope.

Inductive stage := SB (b : block) | SG (g : gblock).
Definition eval_stage (s : stage) (fr : frame) : frame :=
  match s with SB b => eval_block b fr | SG g => eval_gblock g fr end.
Definition eval_stages (ss : list stage) (input : frame) : frame :=
  fold_left (fun fr s => eval_stage s fr) ss input.

Record gcfg := mkGcfg {
  g_wrap : opk -> opk -> bool;       (* the `if` of group_operation.wrapper *)
  g_init : bool;                     (* group_operation: INIT forces a CTE *)
  g_kind : option opk;               (* decorator argument of GroupedData.agg (None = undecorated) *)
  k_groupBy : option opk;            (* decorator of DataFrame.groupBy *)
  k_cube : option opk;               (* decorator of DataFrame.cube *)
  k_dfagg : option opk;              (* decorator of DataFrame.agg *)
  g_append : bool;                   (* append= given to .select() in GroupedData.agg *)
  g_cube_having : bool;              (* the GROUPING SETS block carries HAVING COUNT( * ) > 0 *)
  g_gid_always : bool }.             (* grouping_id()'s argument list is overwritten with the keys unconditionally *)

(** the three ways into GroupedData.agg *)
Inductive entry := ViaGroupBy | ViaCube | ViaDfAgg.
Definition all_entries := [ViaGroupBy; ViaCube; ViaDfAgg].

Definition nk (k l : opk) : opk := if opk_eqb k NO_OP then l else k.

(** what a decorated method's body receives as `self` (the wrapper may have frozen the open block) *)
Definition deco (wr : opk -> opk -> bool) (iw : bool) (k : option opk) (d : df) : df :=
  match k with
  | None => d
  | Some k =>
      let d0 := if opk_eqb (last d) INIT then set_last (if iw then wrap d else d) NO_OP else d in
      if wr (last d0) (nk k (last d0)) then wrap d0 else d0
  end.
(** the same on (last operation, "the open block is a fresh pass-through") *)
Definition deco_k (wr : opk -> opk -> bool) (iw : bool) (k : option opk) (st : opk * bool) : opk * bool :=
  match k with
  | None => st
  | Some k =>
      let st0 := if opk_eqb (fst st) INIT then (NO_OP, snd st || iw) else st in
      (fst st0, snd st0 || wr (fst st0) (nk k (fst st0)))
  end.

Section AggCompile.
  Variable c : cfg.
  Variable g : gcfg.

  Definition deco_df := deco (wrap_needed c) (init_wraps c).
  Definition deco_g := deco (g_wrap g) (g_init g) (g_kind g).
  Definition deco_df_k := deco_k (wrap_needed c) (init_wraps c).
  Definition deco_g_k := deco_k (g_wrap g) (g_init g) (g_kind g).

  (** the DataFrame GroupedData.agg's body works on *)
  Definition entry_self (e : entry) (d : df) : df :=
    match e with
    | ViaGroupBy => deco_g (deco_df (k_groupBy g) d)
    | ViaCube => deco_g (deco_df (k_cube g) d)
    | ViaDfAgg => deco_g (deco_df (k_groupBy g) (deco_df (k_dfagg g) d))
    end.
  Definition entry_k (e : entry) (st : opk * bool) : opk * bool :=
    match e with
    | ViaGroupBy => deco_g_k (deco_df_k (k_groupBy g) st)
    | ViaCube => deco_g_k (deco_df_k (k_cube g) st)
    | ViaDfAgg => deco_g_k (deco_df_k (k_groupBy g) (deco_df_k (k_dfagg g) st))
    end.
  (** last_op of the result: set by group_operation.wrapper, then (DataFrame.agg) by operation.wrapper *)
  Definition entry_fin (e : entry) (l : opk) : opk :=
    let lg := fst (entry_k e (l, false)) in
    let fg := match g_kind g with Some k => nk k lg | None => lg end in
    match e with
    | ViaDfAgg => match k_dfagg g with
                  | Some k => nk k (fst (deco_df_k (Some k) (l, false)))
                  | None => fg end
    | _ => fg
    end.

  Definition names_of (keys : list (expr * string)) (aggs : list (aexpr * string)) := agg_names keys aggs.

  Definition agg_stage (e : entry) (d : df) (keys : list (expr * string)) (aggs : list (aexpr * string))
    : list stage * df :=
    let d2 := entry_self e d in
    (map SB (done d2) ++ [SG (agg_gblock (g_append g) (cur d2) keys aggs)],
     mkDf [] (pass_block (agg_names keys aggs)) (entry_fin e (last d))).

  (** cube: the same entry, the GROUPING SETS block *)
  Definition cube_stage (idxs : nat -> list nat) (d : df) (keys : list (expr * string))
             (aggs : list (aexpr * string)) : list stage :=
    let d2 := entry_self ViaCube d in
    map SB (done d2) ++ [SG (cube_gblock (g_append g) (g_cube_having g) (g_gid_always g) (cube_sets_with idxs (map fst keys)) (cur d2) keys aggs)].

  (** ** decidable side condition on the generated facts *)
  Definition mem_opk (k : opk) (l : list opk) : bool := existsb (opk_eqb k) l.
  Definition entry_ok (e : entry) (l : opk) : bool :=
    let st := entry_k e (l, false) in
    (snd st || (claim (fst st) <? 5)) &&
    (5 <=? claim (entry_fin e l)) && mem_opk (entry_fin e l) (reach c).
  Definition gcfg_ok : bool :=
    negb (g_append g) && g_gid_always g && forallb (fun l => forallb (fun e => entry_ok e l) all_entries) (reach c).

  (** ** programs with aggregation steps *)
  Inductive xop :=
  | POp (o : op)
  | PAgg (e : entry) (keys : list (expr * string)) (aggs : list (aexpr * string)).

  Record xdf := mkX { x_pre : list stage; x_d : df; x_ics : list string }.

  Definition xstep (X : xdf) (xo : xop) : xdf :=
    match xo with
    | POp o => mkX (x_pre X) (step c (x_d X) o) (x_ics X)
    | PAgg e keys aggs =>
        let sd := agg_stage e (x_d X) keys aggs in
        mkX (x_pre X ++ fst sd) (snd sd) (agg_names keys aggs)
    end.
  Definition xcompile (xops : list xop) (X : xdf) : xdf := fold_left xstep xops X.
  Definition eval_x (X : xdf) (input : frame) : frame := eval_df (x_d X) (eval_stages (x_pre X) input).
  Definition all_stages (X : xdf) : list stage := x_pre X ++ map SB (done (x_d X) ++ [cur (x_d X)]).

  Definition xspec_step (fr : frame) (xo : xop) : frame :=
    match xo with POp o => spec_step o fr | PAgg _ keys aggs => spec_agg keys aggs fr end.
  Definition xspec_run (xops : list xop) (fr : frame) : frame := fold_left xspec_step xops fr.

  Definition xop_ok (X : xdf) (xo : xop) : bool :=
    match xo with
    | POp o => op_ok c (x_d X) (x_ics X) o
    | PAgg _ keys aggs => nodupb (agg_names keys aggs) && no_gids aggs
    end.
  Fixpoint xops_ok (X : xdf) (xops : list xop) : bool :=
    match xops with
    | [] => true
    | xo :: r => xop_ok X xo && xops_ok (xstep X xo) r
    end.

  Definition init_x (ics : list string) : xdf := mkX [] (init_df ics) ics.
End AggCompile.

(** * Correctness *)
Lemma eval_stages_app ss1 ss2 input : eval_stages (ss1 ++ ss2) input = eval_stages ss2 (eval_stages ss1 input).
Proof. unfold eval_stages. apply fold_left_app. Qed.

Lemma eval_stages_blocks bs input : eval_stages (map SB bs) input = fold_left (fun fr b => eval_block b fr) bs input.
Proof. revert input. induction bs as [|b bs IH]; intro input; simpl; [reflexivity | apply IH]. Qed.

Lemma wf_eval_stages ss : forall input, wf_frame input -> wf_frame (eval_stages ss input).
Proof.
  induction ss as [|s ss IH]; intros input H; simpl; [exact H|].
  apply IH. destruct s; [apply wf_eval_block | apply wf_eval_gblock].
Qed.

Section AggProof.
  Variable c : cfg.
  Variable g : gcfg.
  Hypothesis Hcfg : cfg_ok c = true.
  Hypothesis Hlim : limit_ok c.
  Hypothesis Hg : gcfg_ok c g = true.

  (** the open block is a bare filter over its source: GROUP BY and a new select list may be written into it *)
  Definition ReadyAgg (d : df) (ics : list string) : Prop := Simple (cur d) (src_cols d ics).

  Lemma ready_of_claim d ics : Inv d ics -> claim (last d) < 5 -> ReadyAgg d ics.
  Proof.
    intros (Ha & Hb & Hc & _ & _) H. unfold ReadyAgg, Simple.
    destruct (Ha H) as [H1 H2]. rewrite Hb, Hc by lia. tauto.
  Qed.

  Lemma ready_wrap' d ics : ReadyAgg (wrap d) ics.
  Proof.
    unfold ReadyAgg, Simple. rewrite src_cols_wrap. simpl. tauto.
  Qed.

  Lemma inv_wrap' d ics : Inv d ics -> Inv (wrap d) ics.
  Proof.
    intro H. pose proof (inv_wrap d ics (last d) H) as H2.
    unfold set_last in H2. simpl in H2. exact H2.
  Qed.

  Lemma inv_set_noop d ics : last d = INIT -> Inv d ics -> Inv (set_last d NO_OP) ics.
  Proof. intros E H. unfold Inv in *. rewrite E in H. exact H. Qed.

  (** a decorator keeps the meaning and the invariant, and the (last, fresh) abstraction follows it *)
  Lemma deco_sound wr iw k d ics input (f : bool) :
    Inv d ics -> (f = true -> ReadyAgg d ics) ->
    let d' := deco wr iw k d in
    let st := deco_k wr iw k (last d, f) in
    last d' = fst st /\ Inv d' ics /\ eval_df d' input = eval_df d input /\ (snd st = true -> ReadyAgg d' ics).
  Proof.
    intros HI Hf. destruct k as [k|]; simpl; [|tauto].
    (* INIT phase *)
    set (d0 := if opk_eqb (last d) INIT then set_last (if iw then wrap d else d) NO_OP else d).
    set (st0 := if opk_eqb (last d) INIT then (NO_OP, f || iw) else (last d, f)).
    assert (H0 : last d0 = fst st0 /\ Inv d0 ics /\ eval_df d0 input = eval_df d input
                 /\ (snd st0 = true -> ReadyAgg d0 ics)).
    { subst d0 st0. destruct (opk_eqb (last d) INIT) eqn:Ei; [|tauto].
      assert (El : last d = INIT) by (destruct (last d); try discriminate; reflexivity).
      destruct iw; simpl.
      - split; [reflexivity|]. split; [apply inv_set_noop; [exact El | apply inv_wrap'; exact HI]|].
        split; [|intros _; apply (ready_wrap' d ics)].
        apply wrap_eval. destruct HI as (_&_&_&_&Hn); exact Hn.
      - split; [reflexivity|]. split; [apply inv_set_noop; assumption|]. split; [reflexivity|].
        rewrite orb_false_r. exact Hf. }
    destruct H0 as (E0 & HI0 & He0 & Hr0).
    change (fst (if opk_eqb (last d) INIT then (NO_OP, f || iw) else (last d, f))) with (fst st0).
    change (snd (if opk_eqb (last d) INIT then (NO_OP, f || iw) else (last d, f))) with (snd st0).
    rewrite <- E0.
    destruct (wr (last d0) (nk k (last d0))) eqn:Ew.
    - split; [reflexivity|]. split; [apply inv_wrap'; exact HI0|]. split.
      + rewrite <- He0. apply wrap_eval. destruct HI0 as (_&_&_&_&Hn); exact Hn.
      + intros _. apply ready_wrap'.
    - split; [reflexivity|]. split; [exact HI0|]. split; [exact He0|].
      rewrite orb_false_r. exact Hr0.
  Qed.

  Lemma entry_sound e d ics input :
    Inv d ics ->
    let d' := entry_self c g e d in
    let st := entry_k c g e (last d, false) in
    last d' = fst st /\ Inv d' ics /\ eval_df d' input = eval_df d input /\ (snd st = true -> ReadyAgg d' ics).
  Proof.
    intro HI.
    assert (F : false = true -> ReadyAgg d ics) by discriminate.
    destruct e; simpl; unfold deco_g, deco_df, deco_g_k, deco_df_k.
    - destruct (deco_sound (wrap_needed c) (init_wraps c) (k_groupBy g) d ics input false HI F) as (E1 & I1 & V1 & R1).
      rewrite <- V1.
      set (d1 := deco (wrap_needed c) (init_wraps c) (k_groupBy g) d) in *.
      destruct (deco_k (wrap_needed c) (init_wraps c) (k_groupBy g) (last d, false)) as [l1 f1] eqn:Ek1.
      simpl in E1, R1. rewrite <- E1.
      apply (deco_sound (g_wrap g) (g_init g) (g_kind g) d1 ics input f1 I1 R1).
    - destruct (deco_sound (wrap_needed c) (init_wraps c) (k_cube g) d ics input false HI F) as (E1 & I1 & V1 & R1).
      rewrite <- V1.
      set (d1 := deco (wrap_needed c) (init_wraps c) (k_cube g) d) in *.
      destruct (deco_k (wrap_needed c) (init_wraps c) (k_cube g) (last d, false)) as [l1 f1] eqn:Ek1.
      simpl in E1, R1. rewrite <- E1.
      apply (deco_sound (g_wrap g) (g_init g) (g_kind g) d1 ics input f1 I1 R1).
    - destruct (deco_sound (wrap_needed c) (init_wraps c) (k_dfagg g) d ics input false HI F) as (E0 & I0 & V0 & R0).
      rewrite <- V0.
      set (d0 := deco (wrap_needed c) (init_wraps c) (k_dfagg g) d) in *.
      destruct (deco_k (wrap_needed c) (init_wraps c) (k_dfagg g) (last d, false)) as [l0 f0] eqn:Ek0.
      simpl in E0, R0. rewrite <- E0.
      destruct (deco_sound (wrap_needed c) (init_wraps c) (k_groupBy g) d0 ics input f0 I0 R0) as (E1 & I1 & V1 & R1).
      rewrite <- V1.
      set (d1 := deco (wrap_needed c) (init_wraps c) (k_groupBy g) d0) in *.
      destruct (deco_k (wrap_needed c) (init_wraps c) (k_groupBy g) (last d0, f0)) as [l1 f1] eqn:Ek1.
      simpl in E1, R1. rewrite <- E1.
      apply (deco_sound (g_wrap g) (g_init g) (g_kind g) d1 ics input f1 I1 R1).
  Qed.

  Lemma gcfg_gid : g_gid_always g = true.
  Proof.
    unfold gcfg_ok in Hg. apply andb_true_iff in Hg. destruct Hg as [Ha _].
    apply andb_true_iff in Ha. tauto.
  Qed.

  Lemma gcfg_entry e l : In l (reach c) -> entry_ok c g e l = true /\ g_append g = false.
  Proof.
    intro Hl. unfold gcfg_ok in Hg. apply andb_true_iff in Hg. destruct Hg as [Ha Hf].
    apply andb_true_iff in Ha. destruct Ha as [Ha _].
    apply negb_true_iff in Ha. split; [|exact Ha].
    rewrite forallb_forall in Hf. specialize (Hf l Hl). rewrite forallb_forall in Hf. apply Hf.
    destruct e; simpl; tauto.
  Qed.

  Lemma mem_opk_In k l : mem_opk k l = true -> In k l.
  Proof.
    unfold mem_opk. intro H. apply existsb_exists in H. destruct H as [x [Hx E]].
    destruct k, x; try discriminate; exact Hx.
  Qed.

  (** ** the aggregation step *)
  Theorem agg_step_correct e d ics input keys aggs :
    cols input = ics -> wf_frame input -> InvR c d ics ->
    nodupb (agg_names keys aggs) && no_gids aggs = true ->
    let sd := agg_stage c g e d keys aggs in
    let out := eval_stages (fst sd) input in
    out = spec_agg keys aggs (eval_df d input)
    /\ eval_df (snd sd) out = spec_agg keys aggs (eval_df d input)
    /\ InvR c (snd sd) (agg_names keys aggs)
    /\ cols out = agg_names keys aggs /\ wf_frame out
    /\ 5 <= claim (last (snd sd)).
  Proof.
    intros Hics Hwf [HI Hr] Hnd sd out.
    apply andb_true_iff in Hnd. destruct Hnd as [Hnd Hng].
    destruct (gcfg_entry e (last d) Hr) as [Hok Happ].
    unfold entry_ok in Hok. apply andb_true_iff in Hok. destruct Hok as [Hok Hmem].
    apply andb_true_iff in Hok. destruct Hok as [Hready Hfin]. apply Z.leb_le in Hfin.
    destruct (entry_sound e d ics input HI) as (El & HI2 & He2 & Hr2).
    set (d2 := entry_self c g e d) in *.
    assert (HR : ReadyAgg d2 ics).
    { apply orb_true_iff in Hready. destruct Hready as [H|H]; [apply Hr2; exact H|].
      apply Z.ltb_lt in H. apply ready_of_claim; [exact HI2 | rewrite El; exact H]. }
    destruct HR as (Hs & Hd & Ho & Hl).
    pose proof (cols_source d2 input) as Hcs. rewrite Hics in Hcs.
    pose proof (wf_source d2 input Hwf) as Hwfs.
    assert (Hnds : NoDup (cols (source d2 input))).
    { rewrite Hcs. destruct HI2 as (_&_&_&Hn&_); exact Hn. }
    assert (Eout : out = spec_agg keys aggs (eval_df d input)).
    { subst out sd. unfold agg_stage. fold d2. cbn [fst].
      rewrite eval_stages_app, eval_stages_blocks. fold (source d2 input). simpl.
      rewrite Happ, gblock_is_spec by exact Hng. rewrite <- He2. unfold eval_df at 1.
      rewrite (eval_simple_block (cur d2) (source d2 input)); auto.
      rewrite Hcs; exact Hs. }
    assert (Ec : cols out = agg_names keys aggs) by (rewrite Eout; reflexivity).
    assert (Hwo : wf_frame out) by (apply wf_eval_stages; exact Hwf).
    apply nodupb_sound in Hnd.
    split; [exact Eout|]. split.
    - rewrite <- Eout. subst sd. unfold agg_stage. cbn [snd]. unfold eval_df, source; simpl.
      rewrite <- Ec. apply eval_pass_block; [exact Hwo | rewrite Ec; exact Hnd].
    - subst sd. unfold agg_stage. cbn [snd last]. split; [|tauto].
      split; [|apply mem_opk_In; exact Hmem].
      unfold Inv. cbn [last cur done pass_block b_sel b_distinct b_order b_limit src_cols rev].
      rewrite out_cols_passthrough.
      split; [intro; lia|]. tauto.
  Qed.

  (** ** every program of operations and aggregation steps, every input *)
  Definition XInv (X : xdf) (input : frame) : Prop :=
    InvR c (x_d X) (x_ics X)
    /\ cols (eval_stages (x_pre X) input) = x_ics X /\ wf_frame (eval_stages (x_pre X) input).

  Theorem xstep_correct X input xo :
    XInv X input -> xop_ok c X xo = true ->
    eval_x (xstep c g X xo) input = xspec_step (eval_x X input) xo /\ XInv (xstep c g X xo) input.
  Proof.
    intros (HI & Hc & Hw) Hok. destruct xo as [o|e keys aggs]; simpl in *.
    - destruct (step_correct c Hcfg Hlim (x_d X) (x_ics X) (eval_stages (x_pre X) input) o Hc Hw HI Hok) as [He HI'].
      split; [exact He|]. unfold XInv; simpl. tauto.
    - destruct (agg_step_correct e (x_d X) (x_ics X) (eval_stages (x_pre X) input) keys aggs Hc Hw HI Hok)
        as (E1 & E2 & HI' & Hc' & Hw' & _).
      unfold eval_x; simpl. rewrite eval_stages_app. split; [exact E2|].
      unfold XInv; simpl. rewrite eval_stages_app. tauto.
  Qed.

  Theorem agg_in_chain xops : forall X input,
    XInv X input -> xops_ok c g X xops = true ->
    eval_x (xcompile c g xops X) input = xspec_run xops (eval_x X input).
  Proof.
    induction xops as [|xo xops IH]; intros X input HI Hok; simpl; [reflexivity|].
    simpl in Hok. apply andb_true_iff in Hok. destruct Hok as [H1 H2].
    destruct (xstep_correct X input xo HI H1) as [He HI'].
    rewrite <- He. apply IH; assumption.
  Qed.

  Lemma init_xinv input : wf_frame input -> NoDup (cols input) -> XInv (init_x (cols input)) input.
  Proof. intros Hw Hn. unfold XInv, init_x; simpl. split; [apply init_inv; exact Hn | tauto]. Qed.

  Corollary agg_chain_from_input xops input :
    wf_frame input -> NoDup (cols input) -> xops_ok c g (init_x (cols input)) xops = true ->
    eval_x (xcompile c g xops (init_x (cols input))) input = xspec_run xops input.
  Proof.
    intros Hw Hn Hok. rewrite (agg_in_chain xops _ input (init_xinv input Hw Hn) Hok).
    unfold eval_x, init_x; simpl. rewrite (eval_init input Hw Hn). reflexivity.
  Qed.

  (** what T2 compares is what the theorem speaks about *)
  Lemma eval_all_stages X input : eval_stages (all_stages X) input = eval_x X input.
  Proof.
    unfold all_stages, eval_x. rewrite eval_stages_app, eval_stages_blocks, fold_left_app. reflexivity.
  Qed.

  (** ** cube applied to a DataFrame state: PySpark's cube of that state's result, as a multiset -- on every input
      when the block carries HAVING COUNT( * ) > 0, otherwise whenever a row reaches the aggregation *)
  Theorem cube_step_correct (idxs : nat -> list nat) d ics input keys aggs :
    (forall n, Permutation (idxs n) (seq 0 (S n))) ->
    cols input = ics -> wf_frame input -> InvR c d ics ->
    gids_top aggs = true ->
    g_cube_having g = true \/ rows (eval_df d input) <> [] ->
    let out := eval_stages (cube_stage c g idxs d keys aggs) input in
    cols out = cols (spec_cube keys aggs (eval_df d input))
    /\ Permutation (rows out) (rows (spec_cube keys aggs (eval_df d input))).
  Proof.
    intros Hidx Hics Hwf [HI Hr] Htop Hne out.
    destruct (gcfg_entry ViaCube (last d) Hr) as [Hok Happ].
    unfold entry_ok in Hok. apply andb_true_iff in Hok. destruct Hok as [Hok _].
    apply andb_true_iff in Hok. destruct Hok as [Hready _].
    destruct (entry_sound ViaCube d ics input HI) as (El & HI2 & He2 & Hr2).
    set (d2 := entry_self c g ViaCube d) in *.
    assert (HR : ReadyAgg d2 ics).
    { apply orb_true_iff in Hready. destruct Hready as [H|H]; [apply Hr2; exact H|].
      apply Z.ltb_lt in H. apply ready_of_claim; [exact HI2 | rewrite El; exact H]. }
    destruct HR as (Hs & Hd & Ho & Hl).
    pose proof (cols_source d2 input) as Hcs. rewrite Hics in Hcs.
    pose proof (wf_source d2 input Hwf) as Hwfs.
    assert (Hnds : NoDup (cols (source d2 input))).
    { rewrite Hcs. destruct HI2 as (_&_&_&Hn&_); exact Hn. }
    assert (Eev : eval_df d input = mkFrame (cols (source d2 input))
                    (filter (all_hold (cols (source d2 input)) (b_where (cur d2))) (rows (source d2 input)))).
    { rewrite <- He2. unfold eval_df. apply eval_simple_block; auto. rewrite Hcs; exact Hs. }
    subst out. unfold cube_stage. fold d2.
    rewrite eval_stages_app, eval_stages_blocks. fold (source d2 input).
    cbn [eval_stages fold_left eval_stage]. rewrite Happ, gcfg_gid.
    rewrite Eev in Hne |- *.
    exact (cube_block_is_spec idxs (g_cube_having g) (cur d2) keys aggs (source d2 input) Hidx Htop Hne).
  Qed.
End AggProof.
