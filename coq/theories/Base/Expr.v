(** Scalar SQL expressions and their evaluation under three-valued logic. *)
From SF Require Export Base.Val.
Open Scope Z_scope.

Inductive binop := Add | Sub | Mul | Eq | Neq | Lt | Le | Gt | Ge | And | Or | NullSafeEq.

Inductive expr :=
| ECol (n : string)
| ELit (v : val)
| EBin (o : binop) (a b : expr)
| ENot (a : expr)
| ENeg (a : expr)
| EIsNull (a : expr)
| EIf (c t e : expr)           (* CASE WHEN c THEN t ELSE e END *)
| ECoalesce (a b : expr).

Definition cmp_tv (o : binop) (c : comparison) : bool :=
  match o, c with
  | Eq, Datatypes.Eq => true
  | Neq, Datatypes.Eq => false | Neq, _ => true
  | Lt, Datatypes.Lt => true
  | Le, Datatypes.Gt => false | Le, _ => true
  | Gt, Datatypes.Gt => true
  | Ge, Datatypes.Lt => false | Ge, _ => true
  | _, _ => false
  end.

Definition eval_bin (o : binop) (x y : val) : val :=
  match o with
  | And => val_of_tv (and3 (tv_of_val x) (tv_of_val y))
  | Or => val_of_tv (or3 (tv_of_val x) (tv_of_val y))
  | NullSafeEq => VBool (val_eqb x y)
  | Add | Sub | Mul =>
      match x, y with
      | VInt a, VInt b => VInt (match o with Add => a + b | Sub => a - b | _ => a * b end)
      | _, _ => VNull
      end
  | _ =>
      match x, y with
      | VNull, _ | _, VNull => VNull
      | _, _ => VBool (cmp_tv o (val_cmp x y))
      end
  end.

Fixpoint eval (cs : list string) (r : row) (e : expr) : val :=
  match e with
  | ECol n => match lookup cs r n with Some v => v | None => VNull end
  | ELit v => v
  | EBin o a b => eval_bin o (eval cs r a) (eval cs r b)
  | ENot a => val_of_tv (not3 (tv_of_val (eval cs r a)))
  | ENeg a => match eval cs r a with VInt z => VInt (- z) | _ => VNull end
  | EIsNull a => VBool (val_eqb (eval cs r a) VNull)
  | EIf c t e' => match eval cs r c with VBool true => eval cs r t | _ => eval cs r e' end
  | ECoalesce a b => match eval cs r a with VNull => eval cs r b | v => v end
  end.

(** a predicate holds for a row only when it evaluates to TRUE (UNKNOWN and FALSE reject) *)
Definition holds (cs : list string) (r : row) (e : expr) : bool :=
  match eval cs r e with VBool true => true | _ => false end.

Fixpoint expr_eqb (a b : expr) : bool :=
  match a, b with
  | ECol x, ECol y => String.eqb x y
  | ELit x, ELit y => val_eqb x y
  | EBin o a1 a2, EBin p b1 b2 =>
      (match o, p with
       | Add, Add | Sub, Sub | Mul, Mul | Eq, Eq | Neq, Neq | Lt, Lt | Le, Le | Gt, Gt | Ge, Ge
       | And, And | Or, Or | NullSafeEq, NullSafeEq => true | _, _ => false end)
      && expr_eqb a1 b1 && expr_eqb a2 b2
  | ENot x, ENot y => expr_eqb x y
  | ENeg x, ENeg y => expr_eqb x y
  | EIsNull x, EIsNull y => expr_eqb x y
  | EIf c1 t1 e1, EIf c2 t2 e2 => expr_eqb c1 c2 && expr_eqb t1 t2 && expr_eqb e1 e2
  | ECoalesce a1 a2, ECoalesce b1 b2 => expr_eqb a1 b1 && expr_eqb a2 b2
  | _, _ => false
  end.

Lemma expr_eqb_eq a : forall b, expr_eqb a b = true -> a = b.
Proof.
  induction a; intros [] H; simpl in H; try discriminate.
  - apply String.eqb_eq in H; congruence.
  - apply val_eqb_eq in H; congruence.
  - apply andb_true_iff in H; destruct H as [H H2]. apply andb_true_iff in H; destruct H as [H0 H1].
    apply IHa1 in H1; apply IHa2 in H2; subst.
    destruct o, o0; try discriminate; reflexivity.
  - f_equal; auto.
  - f_equal; auto.
  - f_equal; auto.
  - apply andb_true_iff in H; destruct H as [H H2]. apply andb_true_iff in H; destruct H as [H0 H1].
    f_equal; auto.
  - apply andb_true_iff in H; destruct H as [H0 H1]. f_equal; auto.
Qed.

(** columns an expression mentions *)
Fixpoint ecols (e : expr) : list string :=
  match e with
  | ECol n => [n]
  | ELit _ => []
  | EBin _ a b => ecols a ++ ecols b
  | ENot a | ENeg a | EIsNull a => ecols a
  | EIf c t e' => ecols c ++ ecols t ++ ecols e'
  | ECoalesce a b => ecols a ++ ecols b
  end.

Definition mem (n : string) (l : list string) : bool := existsb (String.eqb n) l.
Definition cols_in (cs : list string) (e : expr) : bool := forallb (fun n => mem n cs) (ecols e).

(** evaluation depends only on the values of the mentioned columns *)
Lemma eval_ext cs1 r1 cs2 r2 e :
  (forall n, In n (ecols e) -> lookup cs1 r1 n = lookup cs2 r2 n) ->
  eval cs1 r1 e = eval cs2 r2 e.
Proof.
  induction e; simpl; intro H; try reflexivity.
  - rewrite H by (left; reflexivity). reflexivity.
  - rewrite IHe1, IHe2; auto; intros; apply H; apply in_or_app; auto.
  - rewrite IHe; auto.
  - rewrite IHe; auto.
  - rewrite IHe; auto.
  - rewrite IHe1, IHe2, IHe3; auto; intros; apply H; rewrite !in_app_iff; auto.
  - rewrite IHe1, IHe2; auto; intros; apply H; apply in_or_app; auto.
Qed.
