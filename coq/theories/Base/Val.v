(** Values, SQL three-valued logic, rows and frames.  Shared by every relational property. *)
From Coq Require Export ZArith List String Bool Lia.
From Coq Require Import Ascii.
Export ListNotations.
Open Scope Z_scope.

Inductive val :=
| VNull
| VInt (z : Z)
| VStr (s : string)
| VBool (b : bool)
| VRat (n : Z) (d : positive).      (* exact rational, only produced by avg *)

Definition val_eqb (a b : val) : bool :=
  match a, b with
  | VNull, VNull => true
  | VInt x, VInt y => Z.eqb x y
  | VStr x, VStr y => String.eqb x y
  | VBool x, VBool y => Bool.eqb x y
  | VRat n d, VRat m e => Z.eqb n m && Pos.eqb d e
  | _, _ => false
  end.

Lemma val_eqb_eq a b : val_eqb a b = true <-> a = b.
Proof.
  destruct a, b; simpl; split; intro H; try discriminate; try reflexivity.
  - apply Z.eqb_eq in H; congruence.
  - inversion H; apply Z.eqb_refl.
  - apply String.eqb_eq in H; congruence.
  - inversion H; apply String.eqb_refl.
  - apply Bool.eqb_prop in H; congruence.
  - inversion H; apply Bool.eqb_reflx.
  - apply andb_true_iff in H; destruct H as [H1 H2].
    apply Z.eqb_eq in H1; apply Pos.eqb_eq in H2; congruence.
  - inversion H; rewrite Z.eqb_refl, Pos.eqb_refl; reflexivity.
Qed.

Lemma val_eqb_refl a : val_eqb a a = true.
Proof. apply val_eqb_eq; reflexivity. Qed.

Definition val_eq_dec (a b : val) : {a = b} + {a <> b}.
Proof.
  destruct (val_eqb a b) eqn:E.
  - left; apply val_eqb_eq; exact E.
  - right; intro H; apply val_eqb_eq in H; congruence.
Defined.

(** A total pre-order used for sorting and for canonical bag comparison.  NULL placement is
    decided by the caller; this compares non-NULL values (and puts NULL lowest as a default). *)
Definition tag (a : val) : Z :=
  match a with VNull => 0 | VBool _ => 1 | VInt _ => 2 | VRat _ _ => 2 | VStr _ => 3 end.

Definition val_cmp (a b : val) : comparison :=
  match a, b with
  | VNull, VNull => Eq
  | VInt x, VInt y => Z.compare x y
  | VInt x, VRat n d => Z.compare (x * Zpos d) n
  | VRat n d, VInt y => Z.compare n (y * Zpos d)
  | VRat n d, VRat m e => Z.compare (n * Zpos e) (m * Zpos d)
  | VStr x, VStr y => String.compare x y
  | VBool x, VBool y => Z.compare (if x then 1 else 0) (if y then 1 else 0)
  | _, _ => Z.compare (tag a) (tag b)
  end.

Definition row := list val.
Definition row_eqb (a b : row) : bool :=
  (Nat.eqb (List.length a) (List.length b)) && forallb (fun p => val_eqb (fst p) (snd p)) (combine a b).

Lemma row_eqb_eq a b : row_eqb a b = true <-> a = b.
Proof.
  unfold row_eqb. revert b; induction a as [|x a IH]; intros [|y b]; simpl; split; intro H;
    try discriminate; try reflexivity.
  - apply andb_true_iff in H; destruct H as [Hl H]. apply andb_true_iff in H; destruct H as [Hx H].
    apply val_eqb_eq in Hx; subst. f_equal. apply IH. rewrite Hl; exact H.
  - inversion H; subst. rewrite val_eqb_refl. simpl.
    assert (E : b = b) by reflexivity. apply IH in E. exact E.
Qed.

Definition row_eq_dec (a b : row) : {a = b} + {a <> b}.
Proof.
  destruct (row_eqb a b) eqn:E.
  - left; apply row_eqb_eq; exact E.
  - right; intro H; apply row_eqb_eq in H; congruence.
Defined.

Fixpoint row_cmp (a b : row) : comparison :=
  match a, b with
  | [], [] => Eq
  | [], _ => Lt
  | _, [] => Gt
  | x :: a', y :: b' => match val_cmp x y with Eq => row_cmp a' b' | c => c end
  end.

Record frame := mkFrame { cols : list string; rows : list row }.

(** position of the first column with that name *)
Fixpoint index_of (n : string) (l : list string) : option nat :=
  match l with
  | [] => None
  | x :: l' => if String.eqb x n then Some O else option_map S (index_of n l')
  end.

Definition lookup (cs : list string) (r : row) (n : string) : option val :=
  match index_of n cs with Some i => nth_error r i | None => None end.

(** three-valued logic: None is UNKNOWN *)
Definition tv := option bool.
Definition and3 (a b : tv) : tv :=
  match a, b with
  | Some false, _ | _, Some false => Some false
  | Some true, Some true => Some true
  | _, _ => None
  end.
Definition or3 (a b : tv) : tv :=
  match a, b with
  | Some true, _ | _, Some true => Some true
  | Some false, Some false => Some false
  | _, _ => None
  end.
Definition not3 (a : tv) : tv := option_map negb a.

Definition tv_of_val (v : val) : tv := match v with VBool b => Some b | _ => None end.
Definition val_of_tv (t : tv) : val := match t with Some b => VBool b | None => VNull end.

Lemma and3_comm a b : and3 a b = and3 b a.
Proof. destruct a as [[|]|], b as [[|]|]; reflexivity. Qed.
Lemma or3_comm a b : or3 a b = or3 b a.
Proof. destruct a as [[|]|], b as [[|]|]; reflexivity. Qed.
Lemma de_morgan3 a b : not3 (and3 a b) = or3 (not3 a) (not3 b).
Proof. destruct a as [[|]|], b as [[|]|]; reflexivity. Qed.
