(** Stable sorting by SQL order keys, de-duplication, bag comparison. *)
From SF Require Export Base.Expr.
From Coq Require Import Permutation.
Open Scope Z_scope.

Section Sorting.
  Context {A : Type} (le : A -> A -> bool).
  Fixpoint insert (x : A) (l : list A) : list A :=
    match l with
    | [] => [x]
    | y :: l' => if le x y then x :: l else y :: insert x l'
    end.
  Definition sort (l : list A) : list A := fold_right insert [] l.

  Lemma insert_perm x l : Permutation (x :: l) (insert x l).
  Proof.
    induction l as [|y l IH]; simpl; [reflexivity|].
    destruct (le x y); [reflexivity|].
    etransitivity; [apply perm_swap|]. apply perm_skip; exact IH.
  Qed.
  Lemma sort_perm l : Permutation l (sort l).
  Proof.
    induction l as [|x l IH]; simpl; [constructor|].
    etransitivity; [apply perm_skip; exact IH | apply insert_perm].
  Qed.
  Lemma sort_length l : List.length (sort l) = List.length l.
  Proof. symmetry; apply Permutation_length, sort_perm. Qed.
End Sorting.

(** one ORDER BY key *)
Record okey := mkKey { k_e : expr; k_desc : bool; k_nf : bool }.

Definition cmp_one (desc nf : bool) (a b : val) : comparison :=
  match a, b with
  | VNull, VNull => Datatypes.Eq
  | VNull, _ => if nf then Datatypes.Lt else Datatypes.Gt
  | _, VNull => if nf then Datatypes.Gt else Datatypes.Lt
  | _, _ => if desc then CompOpp (val_cmp a b) else val_cmp a b
  end.

(** a sort key already evaluated: values with their flags *)
Definition kv := list (val * bool * bool).
Fixpoint cmp_kv (a b : kv) : comparison :=
  match a, b with
  | (x, d, nf) :: a', (y, _, _) :: b' =>
      match cmp_one d nf x y with Datatypes.Eq => cmp_kv a' b' | c => c end
  | _, _ => Datatypes.Eq
  end.
Definition le_kv (a b : kv) : bool := match cmp_kv a b with Datatypes.Gt => false | _ => true end.

Definition eval_keys (cs : list string) (r : row) (ks : list okey) : kv :=
  map (fun k => (eval cs r (k_e k), k_desc k, k_nf k)) ks.

(** sort a list of items by a key function *)
Definition sort_on {A} (key : A -> kv) (l : list A) : list A :=
  sort (fun a b => le_kv (key a) (key b)) l.

Lemma sort_on_perm {A} (key : A -> kv) l : Permutation l (sort_on key l).
Proof. apply sort_perm. Qed.

Lemma sort_on_nil_keys {A} (key : A -> kv) l : (forall a, key a = []) -> sort_on key l = l.
Proof.
  intro H. unfold sort_on, sort. induction l as [|x l IH]; simpl; [reflexivity|].
  rewrite IH. destruct l as [|y l]; simpl; [reflexivity|].
  unfold le_kv. rewrite (H x). reflexivity.
Qed.

(** first occurrences *)
Fixpoint dedup_on {A} (k : A -> row) (seen : list row) (l : list A) : list A :=
  match l with
  | [] => []
  | x :: l' => if existsb (row_eqb (k x)) seen then dedup_on k seen l'
               else x :: dedup_on k (k x :: seen) l'
  end.
Definition dedup (l : list row) : list row := dedup_on (fun r => r) [] l.

(** canonical order for bag comparison *)
Definition canon (l : list row) : list row :=
  sort (fun a b => match row_cmp a b with Datatypes.Gt => false | _ => true end) l.
Definition rows_eqb (a b : list row) : bool :=
  Nat.eqb (List.length a) (List.length b) && forallb (fun p => row_eqb (fst p) (snd p)) (combine a b).
Definition bag_eqb (a b : list row) : bool := rows_eqb (canon a) (canon b).

Lemma rows_eqb_eq a : forall b, rows_eqb a b = true -> a = b.
Proof.
  unfold rows_eqb. induction a as [|x a IH]; intros [|y b]; simpl; intro H; try discriminate; auto.
  apply andb_true_iff in H; destruct H as [Hl H]. apply andb_true_iff in H; destruct H as [Hx H].
  apply row_eqb_eq in Hx; subst. f_equal. apply IH. rewrite Hl; exact H.
Qed.

(** bag_eqb is sound for multiset equality *)
Lemma bag_eqb_perm a b : bag_eqb a b = true -> Permutation a b.
Proof.
  unfold bag_eqb, canon. intro H. apply rows_eqb_eq in H.
  etransitivity; [apply sort_perm|]. rewrite H. symmetry; apply sort_perm.
Qed.

Fixpoint remove_one (r : row) (l : list row) : option (list row) :=
  match l with
  | [] => None
  | x :: l' => if row_eqb r x then Some l' else option_map (cons x) (remove_one r l')
  end.
(** a is a sub-multiset of b *)
Fixpoint subbag (a b : list row) : bool :=
  match a with
  | [] => true
  | x :: a' => match remove_one x b with Some b' => subbag a' b' | None => false end
  end.
