(** C07 -- model of sqlframe's set operations.

    - [tree]: what the user writes -- set operations over input DataFrames, nested to any depth, with
      ordinary DataFrame steps (C01's operations) in between.
    - [spark_eval]: the PySpark meaning (validated against PySpark 3.5.9 recordings).
    - [compile]: what sqlframe builds -- a WITH list of named CTEs plus a main SELECT.  CTE names are
      hashes of the query text in the implementation; here a name IS what it was hashed from ([node]:
      the body with the names it refers to, plus the uuid filters of the WITH list in front of it), so
      "same text => same name" (how common ancestors collide) and "different text => different name"
      (crc32 assumed collision-free inside one query) hold by construction.  [merge] restates
      [_add_ctes_to_expression] (rename + uuid filter on a name collision), [set_operation] restates
      [_set_operation], [byname_items] restates the loop of [unionByName].
    - [eval_query]: SQL meaning of the WITH list: names resolve through the list (duplicate name or
      unknown reference = error), operands of a set operator are matched by position and the result
      carries the first operand's names.

    What is regenerated from /repo on every run ([facts]): per method the sqlglot class and the
    distinct flag given to [_set_operation], the decorator's Operation, and which operand becomes
    [this] of the operator node. *)
From SF Require Export C07.Bag Model.Chain.
From Coq Require Import Permutation.
Open Scope nat_scope.

Inductive sclass := KUnion | KIntersect | KExcept.
Inductive meth := MUnion | MUnionAll | MUnionByName | MIntersect | MIntersectAll | MExceptAll.
Definition all_meth := [MUnion; MUnionAll; MUnionByName; MIntersect; MIntersectAll; MExceptAll].
Inductive call := CUnion | CUnionAll | CUnionByName (allow : bool) | CIntersect | CIntersectAll | CExceptAll.
Definition meth_of (c : call) : meth :=
  match c with
  | CUnion => MUnion | CUnionAll => MUnionAll | CUnionByName _ => MUnionByName
  | CIntersect => MIntersect | CIntersectAll => MIntersectAll | CExceptAll => MExceptAll
  end.

(** SQL meaning of an operator node (class, distinct flag) *)
Definition sql_sem (f : sclass * bool) : bagsem :=
  match f with
  | (KUnion, false) => SUnionAll | (KUnion, true) => SUnionD
  | (KIntersect, true) => SIntersectD | (KIntersect, false) => SIntersectAll
  | (KExcept, false) => SExceptAll | (KExcept, true) => SExceptD
  end.
(** PySpark meaning of each method *)
Definition spark_sem (m : meth) : bagsem :=
  match m with
  | MUnion | MUnionAll | MUnionByName => SUnionAll
  | MIntersect => SIntersectD | MIntersectAll => SIntersectAll | MExceptAll => SExceptAll
  end.

Record facts := mkFacts {
  f_flags : meth -> sclass * bool;   (* arguments of _set_operation in each method *)
  f_kind : meth -> opk;              (* @operation(Operation.X) of each method *)
  f_swap : bool }.                   (* true iff the operator node gets the OTHER DataFrame as [this] *)

Inductive tree :=
| TIn (i : nat)
| TOps (ops : list op) (t : tree)
| TSet (c : call) (l r : tree).

(** * PySpark meaning *)
Definition lookup_or_null (cs : list string) (r : row) (c : string) : val :=
  match lookup cs r c with Some v => v | None => VNull end.
Definition realign (target : list string) (f : frame) : list row :=
  map (fun r => map (lookup_or_null (cols f) r) target) (rows f).
Definition only_in (a b : list string) : list string := filter (fun c => negb (mem c b)) a.

Definition by_name (allow : bool) (L R : frame) : option frame :=
  if allow then
    let target := cols L ++ only_in (cols R) (cols L) in
    Some (mkFrame target (realign target L ++ realign target R))
  else if Nat.eqb (List.length (cols L)) (List.length (cols R)) && forallb (fun c => mem c (cols R)) (cols L)
       then Some (mkFrame (cols L) (rows L ++ realign (cols L) R))
       else None.

Definition spark_setop (c : call) (L R : frame) : option frame :=
  match c with
  | CUnionByName allow => by_name allow L R
  | _ => if Nat.eqb (List.length (cols L)) (List.length (cols R))
         then Some (mkFrame (cols L) (bag_by_law (spark_sem (meth_of c)) (rows L) (rows R)))
         else None
  end.

Fixpoint spark_eval (inputs : list frame) (t : tree) : option frame :=
  match t with
  | TIn i => nth_error inputs i
  | TOps ops t' => option_map (spec_run ops) (spark_eval inputs t')
  | TSet c l r => match spark_eval inputs l, spark_eval inputs r with
                  | Some L, Some R => spark_setop c L R
                  | _, _ => None
                  end
  end.

(** * The SQL that sqlframe builds *)
Inductive node :=
| NIn (i : nat)                                       (* VALUES of the i-th createDataFrame *)
| NSel (ctx : list nat) (b : block) (u : option nat) (from : node)
                                                      (* SELECT b FROM from [WHERE 'uuid' = 'uuid'] *)
| NSet (ctx : list nat) (k : sclass) (d : bool) (u : option nat) (bl : block) (fl : node) (br : block) (fr : node).
                                                      (* SELECT bl FROM fl <k> [ALL] SELECT br FROM fr;  with u = Some _ :
                                                         SELECT <its columns> FROM (that) AS _dedup WHERE 'uuid' = 'uuid' *)
(** [ctx]: a CTE is named by the hash of the text of the WHOLE query at that moment (WITH list included), so
    two CTEs with the same body get the same name only if their WITH lists agree as well.  WITH lists of
    equal bodies can differ only in the uuid filters they contain; [ctx] is the list of those uuids.  A node
    used as a CTE body (not as a name) has ctx = []. *)
Definition own_uuid (b : node) : list nat :=
  match b with NSel _ _ (Some u) _ => [u] | NSet _ _ _ (Some u) _ _ _ _ => [u] | _ => [] end.
Definition uuids_of (cs : list (node * node)) : list nat := flat_map (fun p => own_uuid (snd p)) cs.

Definition binop_eq_dec (a b : binop) : {a = b} + {a <> b}. Proof. decide equality. Defined.
Definition expr_eq_dec (a b : expr) : {a = b} + {a <> b}.
Proof. decide equality; auto using val_eq_dec, string_dec, binop_eq_dec. Defined.
Definition okey_eq_dec (a b : okey) : {a = b} + {a <> b}.
Proof. decide equality; auto using expr_eq_dec, bool_dec. Defined.
Definition block_eq_dec (a b : block) : {a = b} + {a <> b}.
Proof.
  decide equality.
  - decide equality. apply Nat.eq_dec.
  - apply list_eq_dec, okey_eq_dec.
  - apply bool_dec.
  - apply list_eq_dec. decide equality; auto using expr_eq_dec, string_dec.
  - apply list_eq_dec, expr_eq_dec.
Defined.
Definition sclass_eq_dec (a b : sclass) : {a = b} + {a <> b}. Proof. decide equality. Defined.
Definition optnat_eq_dec (a b : option nat) : {a = b} + {a <> b}.
Proof. decide equality. apply Nat.eq_dec. Defined.
Definition node_eq_dec (a b : node) : {a = b} + {a <> b}.
Proof.
  decide equality; auto using block_eq_dec, bool_dec, sclass_eq_dec, Nat.eq_dec, (list_eq_dec Nat.eq_dec), optnat_eq_dec.
Defined.

Definition setop_frames (s : bagsem) (L R : frame) : option frame :=
  if Nat.eqb (List.length (cols L)) (List.length (cols R))
  then Some (mkFrame (cols L) (bagop s (rows L) (rows R)))   (* positional; names of the first operand *)
  else None.

(** an ORDER BY / LIMIT written in an operand of a set operator does not belong to the operand in SQL (it
    binds to the whole set operation, or does not parse): such an operator node has no meaning here *)
Definition operand_ok (b : block) : bool :=
  match b_order b, b_limit b with [], None => true | _, _ => false end.

(** a set-operation CTE that was de-duplicated is read through SELECT <the first operand's names> FROM (..) *)
Definition dedup_select (u : option nat) (bl : block) (G : frame) : frame :=
  match u with Some _ => eval_block (pass_block (out_cols (b_sel bl))) G | None => G end.

(** intended meaning of a name = meaning of the text it was hashed from *)
Fixpoint den (inputs : list frame) (n : node) : option frame :=
  match n with
  | NIn i => nth_error inputs i
  | NSel _ b _ f => option_map (eval_block b) (den inputs f)
  | NSet _ k d u bl fl br fr =>
      match den inputs fl, den inputs fr with
      | Some L, Some R => if operand_ok bl && operand_ok br
                          then option_map (dedup_select u bl)
                                          (setop_frames (sql_sem (k, d)) (eval_block bl L) (eval_block br R)) else None
      | _, _ => None
      end
  end.

(** meaning of a WITH list: names resolve through the list *)
Definition env := list (node * frame).
Fixpoint assoc {A} (n : node) (e : list (node * A)) : option A :=
  match e with
  | [] => None
  | (m, f) :: e' => if node_eq_dec n m then Some f else assoc n e'
  end.
Definition memn (n : node) (l : list node) : bool := if in_dec node_eq_dec n l then true else false.
Definition resolve (inputs : list frame) (e : env) (n : node) : option frame :=
  match n with NIn i => nth_error inputs i | _ => assoc n e end.
Definition eval_body (inputs : list frame) (e : env) (b : node) : option frame :=
  match b with
  | NIn _ => None
  | NSel _ blk _ f => option_map (eval_block blk) (resolve inputs e f)
  | NSet _ k d u bl fl br fr =>
      match resolve inputs e fl, resolve inputs e fr with
      | Some L, Some R => if operand_ok bl && operand_ok br
                          then option_map (dedup_select u bl)
                                          (setop_frames (sql_sem (k, d)) (eval_block bl L) (eval_block br R)) else None
      | _, _ => None
      end
  end.
Fixpoint eval_ctes (inputs : list frame) (e : env) (cs : list (node * node)) : option env :=
  match cs with
  | [] => Some e
  | (n, b) :: cs' =>
      if memn n (map fst e) then None                    (* duplicate CTE name: the engine refuses *)
      else match eval_body inputs e b with
           | Some f => eval_ctes inputs (e ++ [(n, f)]) cs'
           | None => None
           end
  end.
Record query := mkQuery { q_ctes : list (node * node); q_main : node }.
Definition eval_query (inputs : list frame) (q : query) : option frame :=
  match eval_ctes inputs [] (q_ctes q) with
  | Some e => eval_body inputs e (q_main q)
  | None => None
  end.

(** * State of a DataFrame: WITH list = [s_pre] ++ the blocks frozen since [s_base]; open SELECT = cur *)
Record st := mkSt { s_pre : list (node * node); s_base : node; s_ics : list string; s_df : df }.

Fixpoint chain_ctes (us : list nat) (base : node) (bs : list block) : list (node * node) :=
  match bs with
  | [] => []
  | b :: bs' => let n := NSel us b None base in (n, NSel [] b None base) :: chain_ctes us n bs'
  end.
Definition chain_top (us : list nat) (base : node) (bs : list block) : node :=
  fold_left (fun n b => NSel us b None n) bs base.
(** the blocks frozen since [s_base] contain no uuid filter: all their names carry the uuids of [s_pre] *)
Definition all_ctes (s : st) : list (node * node) :=
  s_pre s ++ chain_ctes (uuids_of (s_pre s)) (s_base s) (done (s_df s)).
Definition top (s : st) : node := chain_top (uuids_of (s_pre s)) (s_base s) (done (s_df s)).
Definition main (s : st) : node := NSel [] (cur (s_df s)) None (top s).
Definition query_of (s : st) : query := mkQuery (all_ctes s) (main s).

Definition with_df (s : st) (d : df) : st := mkSt (s_pre s) (s_base s) (s_ics s) d.
Definition wrapS (s : st) : st := with_df s (wrap (s_df s)).

(** [_add_ctes_to_expression]: append the other side's CTEs; on a name collision the incoming CTE gets a
    uuid filter and a fresh hash name, and later incoming CTEs are re-pointed to it.  A set-operation CTE has
    no WHERE of its own: it is filtered through a SELECT of its columns over it. *)
Definition rn (ren : list (node * node)) (x : node) : node :=
  match assoc x ren with Some y => y | None => x end.
Definition rename (ren : list (node * node)) (b : node) : node :=
  match b with
  | NIn i => NIn i
  | NSel us blk u f => NSel us blk u (rn ren f)
  | NSet us k d u bl fl br fr => NSet us k d u bl (rn ren fl) br (rn ren fr)
  end.
(** the new name is the hash of the filtered body alone (no WITH list): ctx = [] *)
Definition add_uuid (u : nat) (b : node) : option node :=
  match b with
  | NSel _ blk _ f => Some (NSel [] blk (Some u) f)
  | NSet _ k d _ bl fl br fr => Some (NSet [] k d (Some u) bl fl br fr)
  | NIn _ => None
  end.
Fixpoint merge (u : nat) (names : list node) (ren : list (node * node)) (acc inc : list (node * node))
  : option (nat * list (node * node)) :=
  match inc with
  | [] => Some (u, acc)
  | (n, b) :: rest =>
      let b1 := rename ren b in
      if memn n names then
        match add_uuid u b1 with
        | Some b2 => merge (S u) (b2 :: names) ((n, b2) :: ren) (acc ++ [(b2, b2)]) rest
        | None => None
        end
      else merge u names ren (acc ++ [(n, b1)]) rest
  end.

Section Compile.
  Variable c : cfg.
  Variable f : facts.

  (** [_set_operation]: freeze the other side, merge its CTEs, build the operator node, freeze the result
      and select the first operand's output names from it *)
  Definition set_operation (m : meth) (u : nat) (nk : opk) (L R : st) : option (st * nat) :=
    let R1 := wrapS R in
    match merge u (map fst (all_ctes L)) [] (all_ctes L) (all_ctes R1) with
    | None => None
    | Some (u', cs) =>
        let '(k, d) := f_flags f m in
        let mk := fun us => if f_swap f then NSet us k d None (cur (s_df R1)) (top R1) (cur (s_df L)) (top L)
                            else NSet us k d None (cur (s_df L)) (top L) (cur (s_df R1)) (top R1) in
        let n := mk (uuids_of cs) in
        let names := out_cols (b_sel (if f_swap f then cur (s_df R1) else cur (s_df L))) in
        Some (mkSt (cs ++ [(n, mk [])]) n names (mkDf [] (pass_block names) nk), u')
    end.

  (** the loop of [unionByName]: select lists for the left and the right side *)
  Definition null_as (n : string) : expr * string := (ELit VNull, n).
  Definition byname_items (allow : bool) (lc rc : list string) : list (expr * string) * list (expr * string) :=
    if allow then
      let unused := only_in rc lc in
      (passthrough lc ++ map null_as unused,
       map (fun n => if mem n rc then (ECol n, n) else null_as n) lc ++ passthrough unused)
    else (passthrough lc, passthrough lc).

  Definition new_kind_k (k l : opk) : opk := if opk_eqb k NO_OP then l else k.

  (** the [@operation] wrapper applied to the receiver of a set operation *)
  Definition pre_set (m : meth) (d : df) : df * opk :=
    let d0 := pre_init c d in
    let nk := new_kind_k (f_kind f m) (last d0) in
    (if wrap_needed c (last d0) nk then wrap d0 else d0, nk).

  Fixpoint compile (ins : list (list string)) (t : tree) (u : nat) : option (st * nat) :=
    match t with
    | TIn i => match nth_error ins i with
               | Some cs => Some (mkSt [] (NIn i) cs (init_df cs), u)
               | None => None
               end
    | TOps ops t' =>
        match compile ins t' u with
        | Some (s, u') => Some (with_df s (Chain.compile c ops (s_df s)), u')
        | None => None
        end
    | TSet cl l r =>
        match compile ins l u with
        | None => None
        | Some (L, u1) =>
            match compile ins r u1 with
            | None => None
            | Some (R, u2) =>
                let m := meth_of cl in
                let '(dL, nk) := pre_set m (s_df L) in
                let L1 := with_df L dL in
                match cl with
                | CUnionByName allow =>
                    let '(li, ri) := byname_items allow (out_cols (b_sel (cur dL))) (out_cols (b_sel (cur (s_df R)))) in
                    let R2 := with_df R (step c (wrap (s_df R)) (OSelect ri)) in
                    let L2 := if allow then with_df L (step c (wrap dL) (OSelect li)) else L1 in
                    set_operation m u2 nk L2 R2
                | _ => set_operation m u2 nk L1 R
                end
            end
        end
    end.

  (** the open chain segment only (no names, no uuids): what [compile] leaves in [s_ics]/[s_df] *)
  Fixpoint seg (ins : list (list string)) (t : tree) : option (list string * df) :=
    match t with
    | TIn i => match nth_error ins i with Some cs => Some (cs, init_df cs) | None => None end
    | TOps ops t' => match seg ins t' with Some (ics, d) => Some (ics, Chain.compile c ops d) | None => None end
    | TSet cl l r =>
        match seg ins l, seg ins r with
        | Some (_, dl), Some (_, dr) =>
            let m := meth_of cl in
            let '(dL, nk) := pre_set m dl in
            let lcur := match cl with
                        | CUnionByName true =>
                            cur (step c (wrap dL) (OSelect (fst (byname_items true (out_cols (b_sel (cur dL)))
                                                                       (out_cols (b_sel (cur dr)))))))
                        | _ => cur dL
                        end in
            let rcur := match cl with
                        | CUnionByName allow =>
                            pass_block (out_cols (b_sel (cur (step c (wrap dr)
                               (OSelect (snd (byname_items allow (out_cols (b_sel (cur dL))) (out_cols (b_sel (cur dr))))))))))
                        | _ => pass_block (out_cols (b_sel (cur dr)))
                        end in
            let names := out_cols (b_sel (if f_swap f then rcur else lcur)) in
            Some (names, mkDf [] (pass_block names) nk)
        | _, _ => None
        end
    end.

  (** domain of the theorem: C01's domain for every chain of ordinary steps, and no LIMIT inside the tree
      (a LIMIT over an unordered bag is not determined, neither in Spark nor in SQL) *)
  Definition no_limit (o : op) : bool := match o with OLimit _ => false | _ => true end.
  Fixpoint tree_dom (ins : list (list string)) (t : tree) : bool :=
    match t with
    | TIn _ => true
    | TOps ops t' =>
        tree_dom ins t' && forallb no_limit ops &&
        match seg ins t' with Some (ics, d) => ops_ok c d ics ops | None => false end
    | TSet _ l r => tree_dom ins l && tree_dom ins r
    end.

  (** side condition on the regenerated facts (decidable; discharged by vm_compute in props/C07.v) *)
  Definition kind_ok (k : opk) : bool := opk_eqb k NO_OP || existsb (opk_eqb k) (reach c).
  (** the receiver is frozen whenever its open SELECT may carry an ORDER BY or a LIMIT *)
  Definition freeze_ok (k : opk) : bool :=
    forallb (fun l => wrap_needed c l (new_kind_k k l) || (claim l <? 6)%Z) (reach c).
  Definition facts_ok : bool :=
    forallb (fun m => bagsem_eqb (sql_sem (f_flags f m)) (spark_sem m) && kind_ok (f_kind f m)
                      && freeze_ok (f_kind f m)) all_meth
    && negb (f_swap f).
End Compile.

Definition sql_eval (c : cfg) (f : facts) (inputs : list frame) (t : tree) : option frame :=
  match compile c f (map cols inputs) t 0 with
  | Some (s, _) => eval_query inputs (query_of s)
  | None => None
  end.

(** column permutations, for [unionByName_perm] *)
Definition permute {A} (p : list nat) (l : list A) : list A :=
  flat_map (fun i => match nth_error l i with Some x => [x] | None => [] end) p.
Definition permute_frame (p : list nat) (f : frame) : frame :=
  mkFrame (permute p (cols f)) (map (permute p) (rows f)).
