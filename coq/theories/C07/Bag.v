(** C07 -- SQL / Spark bag (multiset) operators over rows and their multiplicity laws.

    Rows may contain NULL; row equality is [row_eq_dec] / [row_eqb], in which VNull = VNull (the
    equality SQL set operations, DISTINCT and GROUP BY use).  Every law is stated for ALL
    multiplicities with [count_occ row_eq_dec]. *)
From SF Require Export Base.Sort.
From Coq Require Import Permutation Arith Lia.
Open Scope nat_scope.

Notation count l r := (count_occ row_eq_dec l r).

Definition memr (r : row) (l : list row) : bool := existsb (row_eqb r) l.

(** * The six SQL set operators, operationally on lists *)
Definition union_all (a b : list row) : list row := a ++ b.
Definition union_d (a b : list row) : list row := dedup (a ++ b).
Definition intersect_d (a b : list row) : list row := dedup (filter (fun r => memr r b) a).
Definition except_d (a b : list row) : list row := dedup (filter (fun r => negb (memr r b)) a).
(** ALL variants: every row of [a] consumes at most one matching row of [b] *)
Fixpoint intersect_all (a b : list row) : list row :=
  match a with
  | [] => []
  | x :: a' => match remove_one x b with
               | Some b' => x :: intersect_all a' b'
               | None => intersect_all a' b
               end
  end.
Fixpoint except_all (a b : list row) : list row :=
  match a with
  | [] => []
  | x :: a' => match remove_one x b with
               | Some b' => except_all a' b'
               | None => x :: except_all a' b
               end
  end.

Inductive bagsem := SUnionAll | SUnionD | SIntersectD | SIntersectAll | SExceptAll | SExceptD.
Definition all_bagsem := [SUnionAll; SUnionD; SIntersectD; SIntersectAll; SExceptAll; SExceptD].
Definition bagsem_eqb (a b : bagsem) : bool :=
  match a, b with
  | SUnionAll, SUnionAll | SUnionD, SUnionD | SIntersectD, SIntersectD | SIntersectAll, SIntersectAll
  | SExceptAll, SExceptAll | SExceptD, SExceptD => true
  | _, _ => false
  end.
Lemma bagsem_eqb_eq a b : bagsem_eqb a b = true <-> a = b.
Proof. destruct a, b; simpl; split; intro H; try discriminate; reflexivity. Qed.

Definition bagop (s : bagsem) : list row -> list row -> list row :=
  match s with
  | SUnionAll => union_all | SUnionD => union_d | SIntersectD => intersect_d
  | SIntersectAll => intersect_all | SExceptAll => except_all | SExceptD => except_d
  end.

(** the multiplicity of a row in the result as a function of its multiplicities in the operands *)
Definition law (s : bagsem) (m n : nat) : nat :=
  match s with
  | SUnionAll => m + n
  | SUnionD => if 0 <? m + n then 1 else 0
  | SIntersectD => if (0 <? m) && (0 <? n) then 1 else 0
  | SIntersectAll => Nat.min m n
  | SExceptAll => m - n
  | SExceptD => if (0 <? m) && (n =? 0) then 1 else 0
  end.

(** * Counting lemmas *)
Lemma count_cons (x r : row) l :
  count (x :: l) r = (if row_eq_dec x r then 1 else 0) + count l r.
Proof. simpl. destruct (row_eq_dec x r); reflexivity. Qed.

Lemma row_eqb_refl r : row_eqb r r = true.
Proof. apply row_eqb_eq. reflexivity. Qed.

Lemma row_eqb_dec_true a b : row_eqb a b = true -> exists e, row_eq_dec a b = left e.
Proof. intro H. destruct (row_eq_dec a b) as [e|n]; [eauto|]. apply row_eqb_eq in H. contradiction. Qed.

Lemma row_eqb_false a b : row_eqb a b = false <-> a <> b.
Proof.
  split; intro H.
  - intro E. apply row_eqb_eq in E. congruence.
  - destruct (row_eqb a b) eqn:E; [|reflexivity]. apply row_eqb_eq in E. contradiction.
Qed.

Lemma memr_In r l : memr r l = true <-> In r l.
Proof.
  unfold memr. rewrite existsb_exists. split.
  - intros [x [Hin He]]. apply row_eqb_eq in He. subst. exact Hin.
  - intro Hin. exists r. split; [exact Hin | apply row_eqb_refl].
Qed.

Lemma memr_count r l : memr r l = (0 <? count l r).
Proof.
  destruct (memr r l) eqn:E.
  - apply memr_In in E. apply (count_occ_In row_eq_dec) in E. symmetry. apply Nat.ltb_lt. lia.
  - symmetry. apply Nat.ltb_ge.
    assert (H : ~ In r l) by (intro H; apply memr_In in H; congruence).
    apply (count_occ_not_In row_eq_dec) in H. lia.
Qed.

Lemma count_filter (f : row -> bool) l r :
  count (filter f l) r = if f r then count l r else 0.
Proof.
  induction l as [|x l IH]; simpl.
  - destruct (f r); reflexivity.
  - destruct (f x) eqn:Ef; simpl; destruct (row_eq_dec x r) as [->|Hn]; rewrite IH.
    + rewrite Ef. reflexivity.
    + reflexivity.
    + rewrite Ef. reflexivity.
    + reflexivity.
Qed.

Lemma count_dedup_on seen l r :
  count (dedup_on (fun x : row => x) seen l) r =
  if memr r seen then 0 else if 0 <? count l r then 1 else 0.
Proof.
  revert seen. induction l as [|x l IH]; intro seen.
  - simpl. destruct (memr r seen); reflexivity.
  - cbn [dedup_on]. fold (memr x seen).
    destruct (memr x seen) eqn:Ex.
    + rewrite IH. destruct (memr r seen) eqn:Er; [reflexivity|].
      rewrite count_cons. destruct (row_eq_dec x r) as [->|Hn]; [congruence|]. reflexivity.
    + rewrite count_cons, IH. rewrite (count_cons x r l).
      destruct (row_eq_dec x r) as [->|Hn].
      * rewrite Ex. simpl. rewrite row_eqb_refl. simpl. reflexivity.
      * simpl. apply row_eqb_false in Hn.
        assert (E : row_eqb r x = false).
        { apply row_eqb_false. intro E. subst. rewrite row_eqb_refl in Hn. discriminate. }
        rewrite E. simpl. fold (memr r seen). reflexivity.
Qed.

Lemma count_dedup l r : count (dedup l) r = if 0 <? count l r then 1 else 0.
Proof. unfold dedup. rewrite count_dedup_on. reflexivity. Qed.

Lemma remove_one_some x b b' r :
  remove_one x b = Some b' -> count b r = (if row_eq_dec x r then 1 else 0) + count b' r.
Proof.
  revert b'. induction b as [|y b IH]; intros b' H; simpl in H; [discriminate|].
  destruct (row_eqb x y) eqn:E.
  - inversion H; subst. apply row_eqb_eq in E. subst. apply count_cons.
  - destruct (remove_one x b) as [b2|]; [|discriminate]. inversion H; subst.
    rewrite !count_cons, (IH b2 eq_refl). lia.
Qed.

Lemma remove_one_none x b : remove_one x b = None -> count b x = 0.
Proof.
  induction b as [|y b IH]; intro H; simpl in H; [reflexivity|].
  destruct (row_eqb x y) eqn:E; [discriminate|].
  destruct (remove_one x b); [discriminate|].
  rewrite count_cons. apply row_eqb_false in E.
  destruct (row_eq_dec y x) as [->|_]; [contradiction|]. simpl. auto.
Qed.

(** * The multiset laws, for all multiplicities *)
Theorem count_union_all a b r : count (union_all a b) r = count a r + count b r.
Proof. apply count_occ_app. Qed.

Theorem count_union_d a b r :
  count (union_d a b) r = if 0 <? count a r + count b r then 1 else 0.
Proof. unfold union_d. rewrite count_dedup, count_occ_app. reflexivity. Qed.

Theorem count_intersect_d a b r :
  count (intersect_d a b) r = if (0 <? count a r) && (0 <? count b r) then 1 else 0.
Proof.
  unfold intersect_d. rewrite count_dedup, count_filter, memr_count.
  destruct (0 <? count b r); [|rewrite andb_false_r; reflexivity].
  rewrite andb_true_r. reflexivity.
Qed.

Theorem count_except_d a b r :
  count (except_d a b) r = if (0 <? count a r) && (count b r =? 0) then 1 else 0.
Proof.
  unfold except_d. rewrite count_dedup, count_filter, memr_count.
  destruct (count b r) as [|n] eqn:E; simpl.
  - rewrite andb_true_r. reflexivity.
  - rewrite andb_false_r. reflexivity.
Qed.

Theorem count_intersect_all a : forall b r,
  count (intersect_all a b) r = Nat.min (count a r) (count b r).
Proof.
  induction a as [|x a IH]; intros b r; [reflexivity|].
  cbn [intersect_all]. destruct (remove_one x b) as [b'|] eqn:E.
  - rewrite !count_cons, IH, (remove_one_some _ _ _ r E).
    destruct (row_eq_dec x r); lia.
  - rewrite IH, count_cons. apply remove_one_none in E.
    destruct (row_eq_dec x r) as [->|_]; [rewrite E; lia | reflexivity].
Qed.

Theorem count_except_all a : forall b r,
  count (except_all a b) r = count a r - count b r.
Proof.
  induction a as [|x a IH]; intros b r; [reflexivity|].
  cbn [except_all]. destruct (remove_one x b) as [b'|] eqn:E.
  - rewrite IH, count_cons, (remove_one_some _ _ _ r E).
    destruct (row_eq_dec x r); lia.
  - rewrite !count_cons, IH. apply remove_one_none in E.
    destruct (row_eq_dec x r) as [->|_]; [rewrite E; lia | reflexivity].
Qed.

Theorem bagop_law s a b r : count (bagop s a b) r = law s (count a r) (count b r).
Proof.
  destruct s; simpl.
  - apply count_union_all.
  - apply count_union_d.
  - apply count_intersect_d.
  - apply count_intersect_all.
  - apply count_except_all.
  - apply count_except_d.
Qed.

(** different operators have different laws: equality of the semantic tag is exactly equality of
    the multiplicity function (so the instantiation check on generated flags is neither too strict
    nor too loose) *)
Theorem law_injective s1 s2 : (forall m n, law s1 m n = law s2 m n) -> s1 = s2.
Proof.
  intro H.
  pose proof (H 2 1) as H21. pose proof (H 2 0) as H20. pose proof (H 0 2) as H02. pose proof (H 1 2) as H12. pose proof (H 2 2) as H22. clear H.
  destruct s1, s2; try reflexivity; simpl in *; congruence.
Qed.

(** * Bags: permutations, congruence *)
Lemma perm_count (a b : list row) : Permutation a b <-> forall r, count a r = count b r.
Proof. apply (Permutation_count_occ row_eq_dec). Qed.

Theorem bagop_perm s a a' b b' :
  Permutation a a' -> Permutation b b' -> Permutation (bagop s a b) (bagop s a' b').
Proof.
  intros Ha Hb. apply perm_count. intro r. rewrite !bagop_law.
  rewrite (proj1 (perm_count a a') Ha r), (proj1 (perm_count b b') Hb r). reflexivity.
Qed.

(** any list that satisfies the law is the operator's result up to order *)
Theorem law_determines_bag s a b res :
  (forall r, count res r = law s (count a r) (count b r)) -> Permutation res (bagop s a b).
Proof. intro H. apply perm_count. intro r. rewrite H, bagop_law. reflexivity. Qed.

Lemma dedup_on_In seen (l : list row) r :
  In r (dedup_on (fun x : row => x) seen l) <-> In r l /\ memr r seen = false.
Proof.
  rewrite (count_occ_In row_eq_dec), count_dedup_on.
  destruct (memr r seen) eqn:E.
  - split; [lia | intros [_ H]; discriminate].
  - rewrite (count_occ_In row_eq_dec). destruct (0 <? count l r) eqn:E2.
    + apply Nat.ltb_lt in E2. split; [intros _; split; [lia|reflexivity] | lia].
    + apply Nat.ltb_ge in E2. split; [lia | intros [H _]; lia].
Qed.

Lemma dedup_perm a b : Permutation a b -> Permutation (dedup a) (dedup b).
Proof.
  intro H. apply perm_count. intro r. rewrite !count_dedup.
  rewrite (proj1 (perm_count a b) H r). reflexivity.
Qed.

Lemma filter_perm (f : row -> bool) a b : Permutation a b -> Permutation (filter f a) (filter f b).
Proof.
  intro H. apply perm_count. intro r. rewrite !count_filter.
  rewrite (proj1 (perm_count a b) H r). reflexivity.
Qed.

Lemma dedup_NoDup l : NoDup (dedup l).
Proof.
  apply (NoDup_count_occ row_eq_dec). intro r. rewrite count_dedup.
  destruct (0 <? count l r); lia.
Qed.

(** * The declarative (Spark-side) operator: each distinct row of the operands is emitted as many
    times as the law says *)
Definition bag_by_law (s : bagsem) (a b : list row) : list row :=
  flat_map (fun r => repeat r (law s (count a r) (count b r))) (dedup (a ++ b)).

Lemma count_flat_map_repeat (f : row -> nat) (l : list row) r :
  NoDup l -> count (flat_map (fun x => repeat x (f x)) l) r = if memr r l then f r else 0.
Proof.
  induction 1 as [|x l Hn Hd IH]; [reflexivity|].
  cbn [flat_map]. rewrite count_occ_app, IH. unfold memr; cbn [existsb]. fold (memr r l).
  destruct (row_eq_dec x r) as [->|Hne].
  - rewrite row_eqb_refl. simpl.
    rewrite (count_occ_repeat_eq row_eq_dec) by reflexivity.
    destruct (memr r l) eqn:E; [apply memr_In in E; contradiction | lia].
  - rewrite (count_occ_repeat_neq row_eq_dec) by congruence.
    assert (E : row_eqb r x = false) by (apply row_eqb_false; congruence).
    rewrite E. reflexivity.
Qed.

Lemma law_zero s : law s 0 0 = 0.
Proof. destruct s; reflexivity. Qed.

Theorem count_bag_by_law s a b r :
  count (bag_by_law s a b) r = law s (count a r) (count b r).
Proof.
  unfold bag_by_law. rewrite count_flat_map_repeat by apply dedup_NoDup.
  destruct (memr r (dedup (a ++ b))) eqn:E; [reflexivity|].
  assert (H : ~ In r (dedup (a ++ b))) by (intro H; apply memr_In in H; congruence).
  apply (count_occ_not_In row_eq_dec) in H. rewrite count_dedup, count_occ_app in H.
  destruct (0 <? count a r + count b r) eqn:E2; [discriminate|].
  apply Nat.ltb_ge in E2.
  assert (Ea : count a r = 0) by lia. assert (Eb : count b r = 0) by lia.
  rewrite Ea, Eb. symmetry. apply law_zero.
Qed.

Theorem bagop_is_law_bag s a b : Permutation (bagop s a b) (bag_by_law s a b).
Proof. apply perm_count. intro r. rewrite bagop_law, count_bag_by_law. reflexivity. Qed.
