(** C07 -- unionByName: matching by name is insensitive to the column order of the other side, missing
    columns are NULL on the side that lacks them, and positional operations take the left names. *)
From SF Require Import C07.SetModel C07.SetProof.
From Coq Require Import Permutation Lia.
Open Scope nat_scope.

(** * permuting columns *)
Definition is_perm (p : list nat) (n : nat) : Prop := Permutation p (seq 0 n).

Lemma permute_perm {A} (p q : list nat) (l : list A) : Permutation p q -> Permutation (permute p l) (permute q l).
Proof. intro H. unfold permute. apply Permutation_flat_map. exact H. Qed.

Lemma permute_seq_gen {A} (l : list A) : forall pre,
  flat_map (fun i => match nth_error (pre ++ l) i with Some x => [x] | None => [] end)
           (seq (List.length pre) (List.length l)) = l.
Proof.
  induction l as [|x l IH]; intro pre; [reflexivity|].
  cbn [List.length seq flat_map].
  rewrite nth_error_app2 by lia. rewrite Nat.sub_diag. cbn [nth_error app]. f_equal.
  specialize (IH (pre ++ [x])). rewrite <- app_assoc in IH. cbn [app] in IH.
  rewrite app_length in IH. cbn [List.length] in IH. rewrite Nat.add_1_r in IH. exact IH.
Qed.

Lemma permute_id {A} (l : list A) : permute (seq 0 (List.length l)) l = l.
Proof. exact (permute_seq_gen l []). Qed.

Lemma permute_is_perm {A} p (l : list A) : is_perm p (List.length l) -> Permutation (permute p l) l.
Proof. intro H. rewrite <- (permute_id l) at 2. apply permute_perm. exact H. Qed.

Lemma perm_valid p n i : is_perm p n -> In i p -> i < n.
Proof. intros H Hi. apply (Permutation_in _ H) in Hi. apply in_seq in Hi. lia. Qed.

Lemma nth_error_permute {A} (l : list A) : forall p j,
  (forall i, In i p -> i < List.length l) ->
  nth_error (permute p l) j = match nth_error p j with Some i => nth_error l i | None => None end.
Proof.
  induction p as [|i p IH]; intros j Hv.
  - destruct j; reflexivity.
  - unfold permute. cbn [flat_map]. fold (permute p l).
    assert (Hi : i < List.length l) by (apply Hv; left; reflexivity).
    destruct (nth_error l i) as [x|] eqn:E; [|apply nth_error_None in E; lia].
    destruct j as [|j]; cbn [app nth_error]; [symmetry; exact E|].
    apply IH. intros k Hk. apply Hv. right; exact Hk.
Qed.

(** looking a column up by name in a consistently permuted frame finds the same value *)
Lemma lookup_permuted p cs (r : row) c :
  NoDup cs -> List.length r = List.length cs -> is_perm p (List.length cs) -> In c cs ->
  lookup (permute p cs) (permute p r) c = lookup cs r c.
Proof.
  intros Hnd Hl Hp Hc.
  apply In_nth_error in Hc. destruct Hc as [i Hi].
  assert (Hilt : i < List.length cs) by (apply nth_error_Some; congruence).
  assert (Hip : In i p).
  { apply (Permutation_in _ (Permutation_sym Hp)). apply in_seq. lia. }
  apply In_nth_error in Hip. destruct Hip as [j Hj].
  assert (Hv : forall k, In k p -> k < List.length cs) by (intros k Hk; eapply perm_valid; eauto).
  assert (Hnd' : NoDup (permute p cs)).
  { eapply Permutation_NoDup; [symmetry; apply permute_is_perm; exact Hp | exact Hnd]. }
  unfold lookup.
  rewrite (index_of_nth cs Hnd i c Hi).
  assert (E : nth_error (permute p cs) j = Some c) by (rewrite nth_error_permute by exact Hv; rewrite Hj; exact Hi).
  rewrite (index_of_nth _ Hnd' j c E).
  rewrite nth_error_permute by (rewrite Hl; exact Hv). rewrite Hj. reflexivity.
Qed.

Lemma realign_self cs (r : row) :
  NoDup cs -> List.length r = List.length cs -> map (lookup_or_null cs r) cs = r.
Proof.
  intros Hnd Hl. rewrite <- (proj_passthrough cs r Hnd Hl) at 2.
  unfold proj, passthrough. rewrite map_map. reflexivity.
Qed.

(** * unionByName a (b with its columns permuted) = union a b *)
Theorem unionByName_perm a b p :
  NoDup (cols a) -> cols b = cols a -> wf_frame b -> is_perm p (List.length (cols a)) ->
  by_name false a (permute_frame p b) = Some (mkFrame (cols a) (rows a ++ rows b)).
Proof.
  intros Hnd Hc Hwf Hp. unfold by_name, permute_frame. cbn [cols rows].
  assert (Hperm : Permutation (permute p (cols b)) (cols a)).
  { rewrite Hc. apply permute_is_perm. exact Hp. }
  assert (Hlen : Nat.eqb (List.length (cols a)) (List.length (permute p (cols b))) = true).
  { apply Nat.eqb_eq. symmetry. apply Permutation_length. exact Hperm. }
  assert (Hall : forallb (fun c => mem c (permute p (cols b))) (cols a) = true).
  { apply forallb_forall. intros c Hin. apply mem_In. apply (Permutation_in _ (Permutation_sym Hperm)). exact Hin. }
  rewrite Hlen, Hall. cbn [andb]. f_equal. f_equal. f_equal.
  unfold realign. cbn [cols rows]. rewrite map_map. rewrite <- (map_id (rows b)) at 2.
  apply map_ext_in. intros r Hr.
  assert (Hl : List.length r = List.length (cols a)) by (rewrite <- Hc; apply Hwf; exact Hr).
  rewrite <- (realign_self (cols a) r Hnd Hl) at 2.
  apply map_ext_in. intros c Hcin. unfold lookup_or_null.
  rewrite Hc. rewrite (lookup_permuted p (cols a) r c Hnd Hl Hp Hcin). reflexivity.
Qed.

(** the positional union of the same operands, for comparison: same columns, same bag *)
Corollary unionByName_perm_is_union a b p F :
  NoDup (cols a) -> cols b = cols a -> wf_frame b -> is_perm p (List.length (cols a)) ->
  spark_setop CUnion a b = Some F ->
  exists G, by_name false a (permute_frame p b) = Some G /\ cols G = cols F /\ Permutation (rows G) (rows F).
Proof.
  intros Hnd Hc Hwf Hp HF. exists (mkFrame (cols a) (rows a ++ rows b)).
  split; [apply unionByName_perm; assumption|].
  unfold spark_setop in HF. destruct (Nat.eqb _ _); [|discriminate]. inversion HF; subst F; clear HF.
  split; [reflexivity|]. cbn [rows meth_of spark_sem].
  change (rows a ++ rows b) with (bagop SUnionAll (rows a) (rows b)). apply bagop_is_law_bag.
Qed.

(** * allowMissingColumns: columns missing on either side are NULL there *)
Lemma realign_pad cs extra (r : row) :
  NoDup cs -> List.length r = List.length cs -> (forall c, In c extra -> ~ In c cs) ->
  map (lookup_or_null cs r) (cs ++ extra) = r ++ repeat VNull (List.length extra).
Proof.
  intros Hnd Hl Hex. rewrite map_app, (realign_self cs r Hnd Hl). f_equal.
  induction extra as [|c extra IH]; [reflexivity|]. cbn [map List.length repeat]. f_equal.
  - unfold lookup_or_null. rewrite lookup_notin; [reflexivity|]. apply mem_false. apply Hex. left; reflexivity.
  - apply IH. intros c0 H0. apply Hex. right; exact H0.
Qed.

Theorem unionByName_missing a b :
  NoDup (cols a) -> wf_frame a ->
  let extra := only_in (cols b) (cols a) in
  by_name true a b =
    Some (mkFrame (cols a ++ extra)
                  (map (fun r => r ++ repeat VNull (List.length extra)) (rows a)      (* left rows: NULL in the right-only columns *)
                   ++ realign (cols a ++ extra) b))
  /\ (forall r c, ~ In c (cols b) -> lookup_or_null (cols b) r c = VNull)                 (* right rows: NULL in the left-only columns *)
  /\ (forall r c v, lookup (cols b) r c = Some v -> lookup_or_null (cols b) r c = v).     (* and their own value elsewhere *)
Proof.
  intros Hnd Hwf extra. split; [|split].
  - unfold by_name. f_equal. f_equal. f_equal. unfold realign. apply map_ext_in. intros r Hr.
    apply realign_pad; [exact Hnd | apply Hwf; exact Hr |].
    intros c Hc. apply only_in_spec in Hc. tauto.
  - intros r c Hc. unfold lookup_or_null. rewrite lookup_notin; [reflexivity | apply mem_false; exact Hc].
  - intros r c v H. unfold lookup_or_null. rewrite H. reflexivity.
Qed.

(** * names come from the left operand *)
Theorem names_from_left c L R F :
  spark_setop c L R = Some F ->
  match c with
  | CUnionByName true => cols F = cols L ++ only_in (cols R) (cols L)
  | _ => cols F = cols L
  end.
Proof.
  destruct c as [| |allow| | |]; unfold spark_setop, by_name; intro H;
    try (destruct (Nat.eqb _ _); [inversion H; reflexivity | discriminate]).
  destruct allow; [inversion H; reflexivity|].
  destruct (_ && _); [inversion H; reflexivity | discriminate].
Qed.
