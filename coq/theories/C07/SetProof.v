(** C07 -- correctness of sqlframe's set-operation compiler ([SetModel.compile]) against the PySpark
    meaning ([SetModel.spark_eval]), for every tree and all inputs.

    Part I  (meaning): the intended meaning of the main SELECT (every name standing for the text it
            was hashed from) is Spark's bag with the left operand's column names.
    Part II (names): the WITH list really evaluates to that intended meaning -- names are unique, every
            reference is defined earlier in the list, a renamed (uuid-filtered) copy means what the
            original meant, and the old names the other side's main SELECT still uses are present. *)
From SF Require Import C07.SetModel Model.ChainProof.
From Coq Require Import Permutation Lia.
Open Scope nat_scope.

(** * Small facts *)
Lemma mem_In n l : mem n l = true <-> In n l.
Proof.
  unfold mem. rewrite existsb_exists. split.
  - intros [x [Hin He]]. apply String.eqb_eq in He. subst. exact Hin.
  - intro H. exists n. split; [exact H | apply String.eqb_refl].
Qed.

Lemma mem_false n l : mem n l = false <-> ~ In n l.
Proof.
  split; intro H.
  - intro Hin. apply mem_In in Hin. congruence.
  - destruct (mem n l) eqn:E; [|reflexivity]. apply mem_In in E. contradiction.
Qed.

Lemma nodupb_complete l : NoDup l -> nodupb l = true.
Proof.
  induction 1 as [|x l Hn Hd IH]; simpl; [reflexivity|].
  apply andb_true_iff. split; [|exact IH]. apply negb_true_iff. apply mem_false. exact Hn.
Qed.

Lemma nodup_app {A} (a b : list A) :
  NoDup a -> NoDup b -> (forall x, In x a -> ~ In x b) -> NoDup (a ++ b).
Proof.
  induction 1 as [|x a Hn Hd IH]; intros Hb Hdis; simpl; [exact Hb|].
  constructor.
  - intro Hin. apply in_app_or in Hin. destruct Hin as [Hin|Hin]; [contradiction|].
    apply (Hdis x); [left; reflexivity | exact Hin].
  - apply IH; [exact Hb|]. intros y Hy. apply Hdis. right; exact Hy.
Qed.

Lemma lookup_notin cs (r : row) n : mem n cs = false -> lookup cs r n = None.
Proof.
  intro H. unfold lookup.
  assert (E : index_of n cs = None).
  { induction cs as [|x cs IH]; simpl; [reflexivity|].
    unfold mem in H. simpl in H. apply orb_false_iff in H. destruct H as [H1 H2].
    rewrite String.eqb_sym, H1. fold (mem n cs) in H2. rewrite (IH H2). reflexivity. }
  rewrite E. reflexivity.
Qed.

(** * Equivalence of frames: same columns, same bag of rows *)
Definition frame_equiv (G F : frame) : Prop := cols G = cols F /\ Permutation (rows G) (rows F).

Lemma frame_equiv_refl F : frame_equiv F F.
Proof. split; reflexivity. Qed.

Lemma spec_step_equiv o G F :
  no_limit o = true -> frame_equiv G F -> frame_equiv (spec_step o G) (spec_step o F).
Proof.
  intros Hn [Hc Hp]. destruct o as [items|e|ks|n|]; simpl in *; try discriminate; unfold frame_equiv; simpl.
  - split; [reflexivity|]. rewrite Hc. apply Permutation_map. exact Hp.
  - split; [exact Hc|]. rewrite Hc. apply filter_perm. exact Hp.
  - split; [exact Hc|]. rewrite Hc.
    etransitivity; [symmetry; apply sort_on_perm|]. etransitivity; [exact Hp | apply sort_on_perm].
  - split; [exact Hc|]. apply dedup_perm. exact Hp.
Qed.

Lemma spec_run_equiv ops : forall G F,
  forallb no_limit ops = true -> frame_equiv G F -> frame_equiv (spec_run ops G) (spec_run ops F).
Proof.
  induction ops as [|o ops IH]; intros G F Hn He; simpl; [exact He|].
  simpl in Hn. apply andb_true_iff in Hn. destruct Hn as [Ho Hn].
  apply IH; [exact Hn|]. apply spec_step_equiv; assumption.
Qed.

(** * Meaning of names along a chain of frozen blocks *)
Lemma den_chain_top inputs us bs : forall base,
  den inputs (chain_top us base bs) =
  option_map (fun B => fold_left (fun fr b => eval_block b fr) bs B) (den inputs base).
Proof.
  induction bs as [|b bs IH]; intro base.
  - simpl. destruct (den inputs base); reflexivity.
  - unfold chain_top in *. simpl. rewrite IH. simpl. destruct (den inputs base); reflexivity.
Qed.

Lemma den_top inputs s :
  den inputs (top s) = option_map (source (s_df s)) (den inputs (s_base s)).
Proof. unfold top. rewrite den_chain_top. reflexivity. Qed.

Lemma den_main inputs s :
  den inputs (main s) = option_map (eval_df (s_df s)) (den inputs (s_base s)).
Proof.
  unfold main. cbn [den]. rewrite den_top. destruct (den inputs (s_base s)); reflexivity.
Qed.

(** * Set operators on frames *)
Lemma bagop_In s a b r : In r (bagop s a b) -> In r a \/ In r b.
Proof.
  intro H. apply (count_occ_In row_eq_dec) in H. rewrite bagop_law in H.
  destruct (count_occ row_eq_dec a r) eqn:Ea.
  - destruct (count_occ row_eq_dec b r) eqn:Eb.
    + rewrite law_zero in H. lia.
    + right. apply (count_occ_In row_eq_dec). lia.
  - left. apply (count_occ_In row_eq_dec). lia.
Qed.

Lemma setop_frames_wf s L R G :
  wf_frame L -> wf_frame R -> setop_frames s L R = Some G -> wf_frame G /\ cols G = cols L.
Proof.
  unfold setop_frames. intros HL HR H.
  destruct (Nat.eqb (List.length (cols L)) (List.length (cols R))) eqn:E; [|discriminate].
  inversion H; subst; clear H. split; [|reflexivity].
  intros r Hr. simpl in *. apply bagop_In in Hr. apply Nat.eqb_eq in E.
  destruct Hr as [Hr|Hr]; [apply HL; exact Hr | rewrite E; apply HR; exact Hr].
Qed.

(** * The unionByName select lists *)
Definition item_ok (cs : list string) (p : expr * string) : Prop :=
  match p with
  | (ECol m, n) => m = n
  | (ELit VNull, n) => mem n cs = false
  | _ => False
  end.

Lemma proj_items_ok cs items r :
  Forall (item_ok cs) items -> proj cs items r = map (lookup_or_null cs r) (out_cols items).
Proof.
  unfold proj, out_cols. induction 1 as [|[e n] items Hi Hf IH]; simpl; [reflexivity|].
  f_equal; [|exact IH]. unfold lookup_or_null.
  destruct e as [m|v| | | | | |]; simpl in Hi; try contradiction.
  - subst. reflexivity.
  - destruct v; try contradiction. rewrite (lookup_notin cs r n Hi). reflexivity.
Qed.

Lemma passthrough_items_ok cs l : Forall (item_ok cs) (passthrough l).
Proof. unfold passthrough. apply Forall_forall. intros p Hp. apply in_map_iff in Hp. destruct Hp as [n [<- _]]. reflexivity. Qed.

Lemma only_in_spec a b x : In x (only_in a b) <-> In x a /\ ~ In x b.
Proof.
  unfold only_in. rewrite filter_In. split; intros [H1 H2]; split; auto.
  - apply negb_true_iff in H2. apply mem_false. exact H2.
  - apply negb_true_iff. apply mem_false. exact H2.
Qed.

Lemma byname_left_ok lc rc : Forall (item_ok lc) (fst (byname_items true lc rc)).
Proof.
  simpl. apply Forall_app. split; [apply passthrough_items_ok|].
  apply Forall_forall. intros p Hp. apply in_map_iff in Hp. destruct Hp as [n [<- Hn]].
  apply only_in_spec in Hn. simpl. apply mem_false. tauto.
Qed.

Lemma byname_right_ok allow lc rc : Forall (item_ok rc) (snd (byname_items allow lc rc)).
Proof.
  destruct allow; simpl; [|apply passthrough_items_ok].
  apply Forall_app. split; [|apply passthrough_items_ok].
  apply Forall_forall. intros p Hp. apply in_map_iff in Hp. destruct Hp as [n [<- Hn]].
  destruct (mem n rc) eqn:E; simpl; [reflexivity | exact E].
Qed.

Lemma out_cols_app (a b : list (expr * string)) : out_cols (a ++ b) = out_cols a ++ out_cols b.
Proof. unfold out_cols. apply map_app. Qed.

Lemma byname_out_cols allow lc rc :
  out_cols (snd (byname_items allow lc rc)) = (if allow then lc ++ only_in rc lc else lc) /\
  (allow = true -> out_cols (fst (byname_items allow lc rc)) = lc ++ only_in rc lc).
Proof.
  destruct allow; simpl.
  - split; [|intros _].
    + rewrite out_cols_app, out_cols_passthrough. f_equal.
      unfold out_cols. rewrite map_map. rewrite <- (map_id lc) at 2. apply map_ext.
      intro n. destruct (mem n rc); reflexivity.
    + rewrite out_cols_app, out_cols_passthrough. f_equal.
      unfold out_cols. rewrite map_map. apply map_id.
  - split; [apply out_cols_passthrough | discriminate].
Qed.

Lemma nodup_target lc rc : NoDup lc -> NoDup rc -> NoDup (lc ++ only_in rc lc).
Proof.
  intros Hl Hr. apply nodup_app; [exact Hl | apply NoDup_filter; exact Hr |].
  intros x Hx Hin. apply only_in_spec in Hin. tauto.
Qed.

Section Meaning.
  Variable c : cfg.
  Variable f : facts.
  Hypothesis Hcfg : cfg_ok c = true.
  Hypothesis Hlim : limit_ok c.
  Hypothesis Hfacts : facts_ok c f = true.

  Lemma facts_sem m : sql_sem (f_flags f m) = spark_sem m.
  Proof.
    unfold facts_ok in Hfacts. apply andb_true_iff in Hfacts. destruct Hfacts as [H _].
    rewrite forallb_forall in H.
    assert (Hin : In m all_meth) by (destruct m; simpl; tauto).
    specialize (H m Hin). apply andb_true_iff in H. destruct H as [H _].
    apply andb_true_iff in H. destruct H as [H _].
    apply bagsem_eqb_eq. exact H.
  Qed.

  Lemma facts_kind m : kind_ok c (f_kind f m) = true.
  Proof.
    unfold facts_ok in Hfacts. apply andb_true_iff in Hfacts. destruct Hfacts as [H _].
    rewrite forallb_forall in H.
    assert (Hin : In m all_meth) by (destruct m; simpl; tauto).
    specialize (H m Hin). apply andb_true_iff in H. destruct H as [H _].
    apply andb_true_iff in H. tauto.
  Qed.

  Lemma facts_freeze m : freeze_ok c (f_kind f m) = true.
  Proof.
    unfold facts_ok in Hfacts. apply andb_true_iff in Hfacts. destruct Hfacts as [H _].
    rewrite forallb_forall in H.
    assert (Hin : In m all_meth) by (destruct m; simpl; tauto).
    specialize (H m Hin). apply andb_true_iff in H. tauto.
  Qed.

  Lemma facts_swap : f_swap f = false.
  Proof.
    unfold facts_ok in Hfacts. apply andb_true_iff in Hfacts. destruct Hfacts as [_ H].
    apply negb_true_iff in H. exact H.
  Qed.

  Lemma opk_eqb_eq a b : opk_eqb a b = true -> a = b.
  Proof. destruct a, b; simpl; intro H; try discriminate; reflexivity. Qed.

  (** ** The decorator's pre-steps keep meaning and invariant *)
  Lemma wrap_ok d ics B : InvR c d ics -> InvR c (wrap d) ics /\ eval_df (wrap d) B = eval_df d B.
  Proof.
    intros [HI Hr]. split.
    - split; [|exact Hr]. exact (inv_wrap d ics (last d) HI).
    - apply wrap_eval. destruct HI as (_&_&_&_&Hn). exact Hn.
  Qed.

  Lemma pre_init_ok d ics B :
    InvR c d ics -> InvR c (pre_init c d) ics /\ eval_df (pre_init c d) B = eval_df d B.
  Proof.
    intro HI. unfold pre_init. destruct (opk_eqb (last d) INIT) eqn:Ei; [|tauto].
    destruct HI as [HI Hr]. destruct (init_wraps c).
    - split; [split; [apply inv_wrap; exact HI | unfold reach; simpl; tauto]|].
      unfold eval_df; simpl. apply wrap_eval. destruct HI as (_&_&_&_&Hn); exact Hn.
    - split; [|reflexivity]. split; [|unfold reach; simpl; tauto].
      apply opk_eqb_eq in Ei. unfold Inv in *. rewrite Ei in HI. exact HI.
  Qed.

  Lemma pre_set_ok m d ics B :
    InvR c d ics ->
    InvR c (fst (pre_set c f m d)) ics /\ eval_df (fst (pre_set c f m d)) B = eval_df d B
    /\ In (snd (pre_set c f m d)) (reach c) /\ operand_ok (cur (fst (pre_set c f m d))) = true.
  Proof.
    intro HI. unfold pre_set. cbn [fst snd].
    destruct (pre_init_ok d ics B HI) as [HI0 He0].
    set (d0 := pre_init c d) in *.
    assert (Hnk : In (new_kind_k (f_kind f m) (last d0)) (reach c)).
    { unfold new_kind_k. pose proof (facts_kind m) as Hk. unfold kind_ok in Hk.
      destruct (opk_eqb (f_kind f m) NO_OP) eqn:E.
      - destruct HI0 as [_ Hr]. exact Hr.
      - cbn [orb] in Hk. apply existsb_exists in Hk. destruct Hk as [x [Hx He]].
        apply opk_eqb_eq in He. subst. exact Hx. }
    destruct (wrap_needed c (last d0) (new_kind_k (f_kind f m) (last d0))) eqn:Ew.
    - destruct (wrap_ok d0 ics B HI0) as [HI1 He1]. split; [exact HI1|]. split; [congruence|].
      split; [exact Hnk | reflexivity].
    - split; [exact HI0|]. split; [exact He0|]. split; [exact Hnk|].
      pose proof (facts_freeze m) as Hfr. unfold freeze_ok in Hfr. rewrite forallb_forall in Hfr.
      destruct HI0 as [(_ & Ho & Hl & _) Hr]. specialize (Hfr _ Hr). rewrite Ew in Hfr. cbn [orb] in Hfr.
      apply Z.ltb_lt in Hfr. unfold operand_ok. rewrite Ho, Hl by lia. reflexivity.
  Qed.

  Lemma select_step_operand d items : operand_ok (cur (step c (wrap d) (OSelect items))) = true.
  Proof.
    unfold step, pre_wrap, pre_init. cbn [wrap last cur done].
    destruct (opk_eqb (last d) INIT); [destruct (init_wraps c)|]; cbn [set_last wrap last cur done];
      match goal with |- context [wrap_needed c ?a ?b] => destruct (wrap_needed c a b) end; reflexivity.
  Qed.

  Lemma chain_ok ops : forall d ics B,
    cols B = ics -> wf_frame B -> InvR c d ics -> ops_ok c d ics ops = true ->
    eval_df (Chain.compile c ops d) B = spec_run ops (eval_df d B) /\ InvR c (Chain.compile c ops d) ics.
  Proof.
    induction ops as [|o ops IH]; intros d ics B Hc Hwf HI Hok; simpl; [tauto|].
    simpl in Hok. apply andb_true_iff in Hok. destruct Hok as [Ho Hops].
    destruct (step_correct c Hcfg Hlim d ics B o Hc Hwf HI Ho) as [He HI'].
    rewrite <- He. apply IH; assumption.
  Qed.

  Lemma select_step_ok d ics B items :
    cols B = ics -> wf_frame B -> InvR c d ics -> NoDup (out_cols items) ->
    eval_df (step c d (OSelect items)) B = mkFrame (out_cols items) (map (proj (cols (eval_df d B)) items) (rows (eval_df d B)))
    /\ InvR c (step c d (OSelect items)) ics.
  Proof.
    intros Hc Hwf HI Hnd.
    assert (Hok : op_ok c d ics (OSelect items) = true) by (simpl; apply nodupb_complete; exact Hnd).
    destruct (step_correct c Hcfg Hlim d ics B (OSelect items) Hc Hwf HI Hok) as [He HI'].
    split; [rewrite He; reflexivity | exact HI'].
  Qed.

  (** ** The state after [_set_operation] *)
  Lemma inv_fresh names nk : NoDup names -> In nk (reach c) -> InvR c (mkDf [] (pass_block names) nk) names.
  Proof.
    intros Hnd Hr. split; [|exact Hr]. unfold Inv. simpl. rewrite out_cols_passthrough. tauto.
  Qed.

  Lemma set_operation_sem inputs m u nk L R s' u' BL BR :
    set_operation f m u nk L R = Some (s', u') ->
    den inputs (s_base L) = Some BL -> den inputs (s_base R) = Some BR ->
    InvR c (s_df L) (s_ics L) -> InvR c (s_df R) (s_ics R) ->
    In nk (reach c) -> operand_ok (cur (s_df L)) = true ->
    Nat.eqb (List.length (cols (eval_df (s_df L) BL))) (List.length (cols (eval_df (s_df R) BR))) = true ->
    let G := mkFrame (cols (eval_df (s_df L) BL))
                     (bagop (spark_sem m) (rows (eval_df (s_df L) BL)) (rows (eval_df (s_df R) BR))) in
    den inputs (s_base s') = Some G /\ cols G = s_ics s' /\ wf_frame G /\ InvR c (s_df s') (s_ics s')
    /\ eval_df (s_df s') G = G.
  Proof.
    intros Hso HBL HBR HIL HIR Hnk Hop Hw G.
    unfold set_operation in Hso.
    destruct (merge u (map fst (all_ctes L)) [] (all_ctes L) (all_ctes (wrapS R))) as [[u2 cs]|]; [|discriminate].
    pose proof (facts_sem m) as Hsem. destruct (f_flags f m) as [k dflag].
    rewrite facts_swap in Hso. inversion Hso; subst s' u'; clear Hso. cbn [s_base s_ics s_df].
    destruct (wrap_ok (s_df R) (s_ics R) BR HIR) as [HIR1 HeR1].
    assert (Hden : den inputs (NSet (uuids_of cs) k dflag None (cur (s_df L)) (top L) (cur (s_df (wrapS R))) (top (wrapS R))) = Some G).
    { cbn [den]. rewrite !den_top, HBL. cbn [wrapS with_df s_base s_df]. rewrite HBR. cbn [option_map].
      change (eval_block (cur (s_df L)) (source (s_df L) BL)) with (eval_df (s_df L) BL).
      change (eval_block (cur (wrap (s_df R))) (source (wrap (s_df R)) BR)) with (eval_df (wrap (s_df R)) BR).
      rewrite Hop. cbn [andb wrap cur operand_ok pass_block b_order b_limit].
      rewrite HeR1, Hsem. unfold setop_frames. rewrite Hw. reflexivity. }
    cbn [dedup_select] in Hden.
    assert (HwfG : wf_frame G).
    { intros r Hr. subst G. simpl in *. apply bagop_In in Hr. apply Nat.eqb_eq in Hw.
      destruct Hr as [Hr|Hr].
      - apply (wf_eval_block (cur (s_df L)) (source (s_df L) BL)). exact Hr.
      - simpl in Hw. rewrite Hw. apply (wf_eval_block (cur (s_df R)) (source (s_df R) BR)). exact Hr. }
    assert (Hnd : NoDup (out_cols (b_sel (cur (s_df L))))).
    { destruct HIL as [(_&_&_&_&Hn) _]. exact Hn. }
    split; [exact Hden|]. split; [reflexivity|]. split; [exact HwfG|].
    split; [apply inv_fresh; assumption|].
    unfold eval_df, source. cbn [done cur fold_left].
    change (out_cols (b_sel (cur (s_df L)))) with (cols G).
    apply eval_pass_block; [exact HwfG | exact Hnd].
  Qed.

  (** ** Part I: the intended meaning of the compiled state is Spark's result *)
  Definition inputs_ok (inputs : list frame) : Prop :=
    forall fr, In fr inputs -> wf_frame fr /\ NoDup (cols fr).

  Definition SemI (inputs : list frame) (s : st) (F : frame) : Prop :=
    exists B, den inputs (s_base s) = Some B /\ cols B = s_ics s /\ wf_frame B /\ InvR c (s_df s) (s_ics s)
              /\ frame_equiv (eval_df (s_df s) B) F.

  Lemma compile_seg ins t : forall u s u',
    compile c f ins t u = Some (s, u') -> seg c f ins t = Some (s_ics s, s_df s).
  Proof.
    induction t as [i|ops t IH|cl l IHl r IHr]; intros u s u' H; cbn [compile seg] in *.
    - destruct (nth_error ins i); [|discriminate]. inversion H; subst. reflexivity.
    - destruct (compile c f ins t u) as [[s0 u0]|] eqn:E; [|discriminate].
      inversion H; subst. rewrite (IH _ _ _ E). reflexivity.
    - destruct (compile c f ins l u) as [[L u1]|] eqn:El; [|discriminate].
      destruct (compile c f ins r u1) as [[R u2]|] eqn:Er; [|discriminate].
      rewrite (IHl _ _ _ El), (IHr _ _ _ Er).
      destruct (pre_set c f (meth_of cl) (s_df L)) as [dL nk] eqn:Eps.
      assert (Hso : forall m L' R' s1 u1', set_operation f m u2 nk L' R' = Some (s1, u1') ->
                (s_ics s1, s_df s1) =
                (out_cols (b_sel (if f_swap f then pass_block (out_cols (b_sel (cur (s_df R')))) else cur (s_df L'))),
                 mkDf [] (pass_block (out_cols (b_sel (if f_swap f then pass_block (out_cols (b_sel (cur (s_df R')))) else cur (s_df L'))))) nk)).
      { intros m L' R' s1 u1' Hs. unfold set_operation in Hs.
        destruct (merge _ _ _ _ _) as [[u3 cs]|]; [|discriminate].
        destruct (f_flags f m) as [k dflag]. inversion Hs; subst. reflexivity. }
      destruct cl as [| |allow| | |]; try (rewrite (Hso _ _ _ _ _ H); reflexivity).
      destruct allow.
      + destruct (byname_items true _ _) as [li ri] eqn:Eb.
        rewrite (Hso _ _ _ _ _ H). cbn [with_df s_df fst snd]. reflexivity.
      + destruct (byname_items false _ _) as [li ri] eqn:Eb.
        rewrite (Hso _ _ _ _ _ H). cbn [with_df s_df fst snd]. reflexivity.
  Qed.

  Lemma realign_equiv target G F : frame_equiv G F -> Permutation (realign target G) (realign target F).
  Proof. intros [Hc Hp]. unfold realign. rewrite Hc. apply Permutation_map. exact Hp. Qed.

  Lemma semI_of_setop inputs s F G :
    den inputs (s_base s) = Some G -> cols G = s_ics s -> wf_frame G -> InvR c (s_df s) (s_ics s) ->
    eval_df (s_df s) G = G -> frame_equiv G F -> SemI inputs s F.
  Proof. intros H1 H2 H3 H4 H5 H6. exists G. rewrite H5. tauto. Qed.

  Lemma positional_sem inputs m u nk L dL R s u' BL BR FL FR F :
    set_operation f m u nk (with_df L dL) R = Some (s, u') ->
    den inputs (s_base L) = Some BL -> den inputs (s_base R) = Some BR ->
    InvR c dL (s_ics L) -> InvR c (s_df R) (s_ics R) -> In nk (reach c) -> operand_ok (cur dL) = true ->
    frame_equiv (eval_df dL BL) FL -> frame_equiv (eval_df (s_df R) BR) FR ->
    (if Nat.eqb (List.length (cols FL)) (List.length (cols FR))
     then Some (mkFrame (cols FL) (bag_by_law (spark_sem m) (rows FL) (rows FR))) else None) = Some F ->
    SemI inputs s F.
  Proof.
    intros Hso HBL HBR HIL HIR Hnk Hop [HcL HpL] [HcR HpR] HF.
    destruct (Nat.eqb (List.length (cols FL)) (List.length (cols FR))) eqn:Ew; [|discriminate].
    inversion HF; subst F; clear HF.
    destruct (set_operation_sem inputs m u nk (with_df L dL) R s u' BL BR Hso HBL HBR HIL HIR Hnk Hop) as (H1&H2&H3&H4&H5).
    { cbn [with_df s_df]. rewrite HcL, HcR. exact Ew. }
    cbn [with_df s_df] in *.
    eapply semI_of_setop; eauto. split; simpl; [exact HcL|].
    etransitivity; [apply bagop_perm; eassumption | apply bagop_is_law_bag].
  Qed.

  Lemma byname_sem inputs allow u nk L dL R s u' BL BR FL FR F :
    (let '(li, ri) := byname_items allow (out_cols (b_sel (cur dL))) (out_cols (b_sel (cur (s_df R)))) in
     set_operation f MUnionByName u nk
       (if allow then with_df L (step c (wrap dL) (OSelect li)) else with_df L dL)
       (with_df R (step c (wrap (s_df R)) (OSelect ri)))) = Some (s, u') ->
    den inputs (s_base L) = Some BL -> den inputs (s_base R) = Some BR ->
    cols BL = s_ics L -> wf_frame BL -> cols BR = s_ics R -> wf_frame BR ->
    InvR c dL (s_ics L) -> InvR c (s_df R) (s_ics R) -> In nk (reach c) -> operand_ok (cur dL) = true ->
    frame_equiv (eval_df dL BL) FL -> frame_equiv (eval_df (s_df R) BR) FR ->
    by_name allow FL FR = Some F ->
    SemI inputs s F.
  Proof.
    intros Hso HBL HBR HcBL HwBL HcBR HwBR HIL HIR Hnk Hop HeL HeR HF.
    set (lc := out_cols (b_sel (cur dL))) in *. set (rc := out_cols (b_sel (cur (s_df R)))) in *.
    assert (Hndl : NoDup lc) by (destruct HIL as [(_&_&_&_&Hn) _]; exact Hn).
    assert (Hndr : NoDup rc) by (destruct HIR as [(_&_&_&_&Hn) _]; exact Hn).
    pose proof (byname_right_ok allow lc rc) as Hrok.
    pose proof (byname_out_cols allow lc rc) as [Hocr Hocl].
    destruct (byname_items allow lc rc) as [li ri] eqn:Eb. cbn [fst snd] in *.
    (* the right side: freeze, then select by name *)
    destruct (wrap_ok (s_df R) (s_ics R) BR HIR) as [HIRw HeRw].
    assert (Hndri : NoDup (out_cols ri)).
    { rewrite Hocr. destruct allow; [apply nodup_target; assumption | exact Hndl]. }
    destruct (select_step_ok (wrap (s_df R)) (s_ics R) BR ri HcBR HwBR HIRw Hndri) as [HeR2 HIR2].
    rewrite HeRw in HeR2.
    assert (HrowsR : rows (eval_df (step c (wrap (s_df R)) (OSelect ri)) BR)
                     = realign (out_cols ri) (eval_df (s_df R) BR)).
    { rewrite HeR2. cbn [rows]. unfold realign. apply map_ext. intro r0.
      apply (proj_items_ok rc ri r0 Hrok). }
    destruct HeL as [HcL HpL]. destruct HeR as [HcR HpR].
    assert (HcL' : cols FL = lc) by (rewrite <- HcL; reflexivity).
    assert (HcR' : cols FR = rc) by (rewrite <- HcR; reflexivity).
    destruct allow.
    - (* allowMissingColumns: both sides are re-projected *)
      specialize (Hocl eq_refl).
      pose proof (byname_left_ok lc rc) as Hlok. rewrite Eb in Hlok. cbn [fst] in Hlok.
      destruct (wrap_ok dL (s_ics L) BL HIL) as [HILw HeLw].
      assert (Hndli : NoDup (out_cols li)) by (rewrite Hocl; apply nodup_target; assumption).
      destruct (select_step_ok (wrap dL) (s_ics L) BL li HcBL HwBL HILw Hndli) as [HeL2 HIL2].
      rewrite HeLw in HeL2.
      assert (HrowsL : rows (eval_df (step c (wrap dL) (OSelect li)) BL) = realign (out_cols li) (eval_df dL BL)).
      { rewrite HeL2. cbn [rows]. unfold realign. apply map_ext. intro r0.
        apply (proj_items_ok lc li r0 Hlok). }
      destruct (set_operation_sem inputs MUnionByName u nk _ _ s u' BL BR Hso HBL HBR HIL2 HIR2 Hnk) as (H1&H2&H3&H4&H5).
      { apply select_step_operand. }
      { cbn [with_df s_df]. rewrite HeL2, HeR2. cbn [cols]. rewrite Hocl, Hocr. apply Nat.eqb_refl. }
      cbn [with_df s_df] in *.
      eapply semI_of_setop; eauto.
      unfold by_name in HF. inversion HF; subst F; clear HF.
      split; cbn [cols rows].
      + rewrite HeL2. cbn [cols]. rewrite Hocl, HcL', HcR'. reflexivity.
      + cbn [spark_sem bagop]. unfold union_all. rewrite HrowsL, HrowsR, Hocl, Hocr, HcL', HcR'.
        apply Permutation_app; apply realign_equiv; split; assumption.
    - (* same column set: only the right side is re-projected *)
      destruct (set_operation_sem inputs MUnionByName u nk _ _ s u' BL BR Hso HBL HBR HIL HIR2 Hnk Hop) as (H1&H2&H3&H4&H5).
      { cbn [with_df s_df]. rewrite HeR2. cbn [cols]. rewrite Hocr. apply Nat.eqb_refl. }
      cbn [with_df s_df] in *.
      eapply semI_of_setop; eauto.
      unfold by_name in HF.
      destruct (Nat.eqb (List.length (cols FL)) (List.length (cols FR)) && forallb (fun c0 => mem c0 (cols FR)) (cols FL));
        [|discriminate].
      inversion HF; subst F; clear HF.
      split; cbn [cols rows]; [exact HcL|].
      cbn [spark_sem bagop]. unfold union_all. rewrite HrowsR, Hocr, HcL'.
      apply Permutation_app; [exact HpL | apply realign_equiv; split; assumption].
  Qed.

  Theorem sem_correct inputs (Hin : inputs_ok inputs) t : forall u s u' F,
    compile c f (map cols inputs) t u = Some (s, u') ->
    tree_dom c f (map cols inputs) t = true ->
    spark_eval inputs t = Some F ->
    SemI inputs s F.
  Proof.
    induction t as [i|ops t IH|cl l IHl r IHr]; intros u s u' F Hc Hd Hs; cbn [compile tree_dom spark_eval] in *.
    - (* input *)
      rewrite nth_error_map, Hs in Hc. simpl in Hc. inversion Hc; subst s u'; clear Hc.
      pose proof (nth_error_In _ _ Hs) as HinF. destruct (Hin F HinF) as [Hwf Hnd].
      exists F. cbn [s_base s_ics s_df den]. split; [exact Hs|]. split; [reflexivity|]. split; [exact Hwf|].
      split; [apply init_inv; exact Hnd|]. rewrite eval_init by assumption. apply frame_equiv_refl.
    - (* ordinary steps *)
      destruct (compile c f (map cols inputs) t u) as [[s0 u0]|] eqn:E; [|discriminate].
      inversion Hc; subst s u'; clear Hc.
      apply andb_true_iff in Hd. destruct Hd as [Hd Hok]. apply andb_true_iff in Hd. destruct Hd as [Hd Hnl].
      rewrite (compile_seg _ _ _ _ _ E) in Hok.
      destruct (spark_eval inputs t) as [F0|] eqn:Es; [|discriminate]. simpl in Hs. inversion Hs; subst F; clear Hs.
      destruct (IH _ _ _ _ E Hd eq_refl) as (B & HB & HcB & HwB & HI & He).
      destruct (chain_ok ops (s_df s0) (s_ics s0) B HcB HwB HI Hok) as [Hev HI'].
      exists B. cbn [with_df s_base s_ics s_df]. split; [exact HB|]. split; [exact HcB|]. split; [exact HwB|].
      split; [exact HI'|]. rewrite Hev. apply spec_run_equiv; assumption.
    - (* a set operation *)
      destruct (compile c f (map cols inputs) l u) as [[L u1]|] eqn:El; [|discriminate].
      destruct (compile c f (map cols inputs) r u1) as [[R u2]|] eqn:Er; [|discriminate].
      apply andb_true_iff in Hd. destruct Hd as [Hdl Hdr].
      destruct (spark_eval inputs l) as [FL|] eqn:Esl; [|discriminate].
      destruct (spark_eval inputs r) as [FR|] eqn:Esr; [|discriminate].
      destruct (IHl _ _ _ _ El Hdl eq_refl) as (BL & HBL & HcBL & HwBL & HIL & HeL).
      destruct (IHr _ _ _ _ Er Hdr eq_refl) as (BR & HBR & HcBR & HwBR & HIR & HeR).
      destruct (pre_set_ok (meth_of cl) (s_df L) (s_ics L) BL HIL) as (HIL1 & HeL1 & Hnk & Hop).
      destruct (pre_set c f (meth_of cl) (s_df L)) as [dL nk] eqn:Eps. cbn [fst snd] in *.
      rewrite <- HeL1 in HeL.
      destruct cl as [| |allow| | |]; cbn [meth_of spark_setop] in *;
        try (eapply positional_sem; eassumption).
      eapply (byname_sem inputs allow u2 nk L dL R s u' BL BR FL FR F); try eassumption.
  Qed.
End Meaning.

(** * Part II: the WITH list evaluates to the intended meaning *)
Definition is_name (n : node) : Prop := match n with NIn _ => False | _ => True end.
Definition refs (b : node) : list node :=
  match b with NIn _ => [] | NSel _ _ _ f0 => [f0] | NSet _ _ _ _ _ fl _ fr => [fl; fr] end.
Definition ref_ok (avail : list node) (r : node) : Prop := (exists i, r = NIn i) \/ In r avail.
Fixpoint size (n : node) : nat :=
  match n with
  | NIn _ => 0
  | NSel _ _ _ f0 => S (size f0)
  | NSet _ _ _ _ _ fl _ fr => S (Nat.max (size fl) (size fr))
  end.
(** strict upper bound of the uuids used in filters (the WITH-list context is not part of it) *)
Fixpoint ubound (n : node) : nat :=
  match n with
  | NIn _ => 0
  | NSel _ _ u f0 => Nat.max (match u with Some x => S x | None => 0 end) (ubound f0)
  | NSet _ _ _ u _ fl _ fr => Nat.max (match u with Some x => S x | None => 0 end) (Nat.max (ubound fl) (ubound fr))
  end.

(** a well-formed WITH list, given the names [avail] defined before it: fresh proper names, references
    to earlier names only, every body means what its name stands for, and every name means something *)
Fixpoint good (inputs : list frame) (avail : list node) (cs : list (node * node)) : Prop :=
  match cs with
  | [] => True
  | (n, b) :: cs' =>
      ~ In n avail /\ is_name n /\ is_name b /\ (forall r, In r (refs b) -> ref_ok avail r)
      /\ den inputs b = den inputs n /\ den inputs n <> None /\ good inputs (avail ++ [n]) cs'
  end.

Lemma good_app inputs a : forall avail b,
  good inputs avail (a ++ b) <-> good inputs avail a /\ good inputs (avail ++ map fst a) b.
Proof.
  induction a as [|[n bd] a IH]; intros avail b; simpl.
  - rewrite app_nil_r. tauto.
  - rewrite IH. rewrite <- app_assoc. simpl. tauto.
Qed.

Lemma good_isname inputs cs : forall avail n, good inputs avail cs -> In n (map fst cs) -> is_name n.
Proof.
  induction cs as [|[m bd] cs IH]; intros avail n Hg Hin; simpl in *; [contradiction|].
  destruct Hg as (_ & Hm & _ & _ & _ & _ & Hg). destruct Hin as [<-|Hin]; [exact Hm | eapply IH; eauto].
Qed.

Lemma good_fresh inputs cs : forall avail n, good inputs avail cs -> In n (map fst cs) -> ~ In n avail.
Proof.
  induction cs as [|[m bd] cs IH]; intros avail n Hg Hin; simpl in *; [contradiction|].
  destruct Hg as (Hm & _ & _ & _ & _ & _ & Hg). destruct Hin as [<-|Hin]; [exact Hm|].
  intro Ha. apply (IH _ _ Hg Hin). apply in_or_app. left; exact Ha.
Qed.

Lemma good_defined inputs cs : forall avail n, good inputs avail cs -> In n (map fst cs) -> den inputs n <> None.
Proof.
  induction cs as [|[m bd] cs IH]; intros avail n Hg Hin; simpl in *; [contradiction|].
  destruct Hg as (_ & _ & _ & _ & _ & Hm & Hg). destruct Hin as [<-|Hin]; [exact Hm | eapply IH; eauto].
Qed.

(** ** evaluation through the list = intended meaning *)
Definition env_ok (inputs : list frame) (e : env) : Prop := forall m fr, In (m, fr) e -> den inputs m = Some fr.

Lemma assoc_In {A} n (e : list (node * A)) v : assoc n e = Some v -> In (n, v) e.
Proof.
  induction e as [|[m x] e IH]; simpl; [discriminate|].
  destruct (node_eq_dec n m) as [->|Hne]; intro H; [inversion H; left; reflexivity | right; auto].
Qed.

Lemma assoc_of_In {A} n (e : list (node * A)) : In n (map fst e) -> exists v, assoc n e = Some v.
Proof.
  induction e as [|[m x] e IH]; simpl; [contradiction|].
  intros [E0|Hin].
  - subst m. destruct (node_eq_dec n n) as [_|Hne]; [eauto | contradiction].
  - destruct (node_eq_dec n m); eauto.
Qed.

Lemma assoc_notin {A} n (e : list (node * A)) : ~ In n (map fst e) -> assoc n e = None.
Proof.
  induction e as [|[m x] e IH]; simpl; [reflexivity|].
  intro H. destruct (node_eq_dec n m) as [->|Hne]; [exfalso; apply H; left; reflexivity|].
  apply IH. intro Hin. apply H. right; exact Hin.
Qed.

Lemma resolve_ok inputs e r :
  env_ok inputs e -> ref_ok (map fst e) r -> resolve inputs e r = den inputs r.
Proof.
  intros He [[i ->]|Hin]; [reflexivity|].
  destruct r as [i|us b u f0|us k d u0 bl fl br fr]; [reflexivity| |];
    (destruct (assoc_of_In _ e Hin) as [v Hv]; cbn [resolve]; rewrite Hv;
     symmetry; apply He; apply assoc_In; exact Hv).
Qed.

Lemma eval_body_ok inputs e b :
  env_ok inputs e -> is_name b -> (forall r, In r (refs b) -> ref_ok (map fst e) r) ->
  eval_body inputs e b = den inputs b.
Proof.
  intros He Hn Hr. destruct b as [i|us blk u f0|us k d u0 bl fl br fr]; [contradiction| |]; cbn [eval_body den].
  - rewrite (resolve_ok inputs e f0 He) by (apply Hr; left; reflexivity). reflexivity.
  - rewrite (resolve_ok inputs e fl He) by (apply Hr; left; reflexivity).
    rewrite (resolve_ok inputs e fr He) by (apply Hr; right; left; reflexivity). reflexivity.
Qed.

Lemma eval_ctes_ok inputs cs : forall e,
  good inputs (map fst e) cs -> env_ok inputs e ->
  exists e', eval_ctes inputs e cs = Some e' /\ env_ok inputs e' /\ map fst e' = map fst e ++ map fst cs.
Proof.
  induction cs as [|[n b] cs IH]; intros e Hg He; simpl.
  - exists e. rewrite app_nil_r. tauto.
  - simpl in Hg. destruct Hg as (Hfresh & Hn & Hb & Hrefs & Hden & Hdef & Hg).
    unfold memn. destruct (in_dec node_eq_dec n (map fst e)) as [Hin|_]; [contradiction|].
    rewrite (eval_body_ok inputs e b He Hb Hrefs), Hden.
    destruct (den inputs n) as [fr|] eqn:En; [|contradiction].
    destruct (IH (e ++ [(n, fr)])) as (e' & H1 & H2 & H3).
    + rewrite map_app. exact Hg.
    + intros m x Hx. apply in_app_or in Hx. destruct Hx as [Hx|[Hx|[]]]; [apply He; exact Hx|].
      inversion Hx; subst. exact En.
    + exists e'. split; [exact H1|]. split; [exact H2|]. rewrite H3, map_app, <- app_assoc. reflexivity.
Qed.

Theorem eval_query_ok inputs s :
  good inputs [] (all_ctes s) -> ref_ok (map fst (all_ctes s)) (top s) ->
  eval_query inputs (query_of s) = den inputs (main s).
Proof.
  intros Hg Hr. unfold eval_query, query_of. cbn [q_ctes q_main].
  destruct (eval_ctes_ok inputs (all_ctes s) [] Hg) as (e' & H1 & H2 & H3); [intros m x []|].
  rewrite H1. apply eval_body_ok; [exact H2 | exact I |].
  intros r [<-|[]]. rewrite H3. exact Hr.
Qed.

(** ** measures that keep names apart *)
Definition meas (u bound : nat) (cs : list (node * node)) : Prop :=
  forall n b, In (n, b) cs -> size b = size n /\ size n <= bound /\ ubound n <= u /\ ubound b <= u.

Lemma meas_weaken u u' bd bd' cs : u <= u' -> bd <= bd' -> meas u bd cs -> meas u' bd' cs.
Proof. intros Hu Hb H n b Hin. destruct (H n b Hin) as (H1 & H2 & H3 & H4). repeat split; lia. Qed.

Lemma meas_name u bd cs n : meas u bd cs -> In n (map fst cs) -> size n <= bd /\ ubound n <= u.
Proof.
  intros H Hin. apply in_map_iff in Hin. destruct Hin as [[m b] [<- Hin]].
  destruct (H m b Hin) as (_ & H2 & H3 & _). simpl. tauto.
Qed.

Definition body_ok (b : node) : Prop :=
  match b with NSet _ _ _ _ bl _ _ _ => NoDup (out_cols (b_sel bl)) | _ => True end.
Definition bok (cs : list (node * node)) : Prop := forall n b, In (n, b) cs -> body_ok b.

Definition Str (inputs : list frame) (s : st) (u : nat) : Prop :=
  good inputs [] (all_ctes s) /\ meas u (size (top s)) (all_ctes s)
  /\ ref_ok (map fst (all_ctes s)) (top s) /\ ubound (top s) <= u /\ den inputs (top s) <> None
  /\ bok (all_ctes s).

Lemma Str_weaken inputs s u u' : u <= u' -> Str inputs s u -> Str inputs s u'.
Proof.
  intros Hu (H1 & H2 & H3 & H4 & H5 & H6).
  split; [exact H1|]. split; [eapply meas_weaken; [exact Hu | apply Nat.le_refl | exact H2]|].
  split; [exact H3|]. split; [lia | split; [exact H5 | exact H6]].
Qed.

Lemma ref_ok_incl a b r : (forall x, In x a -> In x b) -> ref_ok a r -> ref_ok b r.
Proof. intros H [Hi|Hin]; [left; exact Hi | right; auto]. Qed.

(** ** freezing more blocks of the open chain *)
Lemma chain_ctes_app us a : forall base b,
  chain_ctes us base (a ++ b) = chain_ctes us base a ++ chain_ctes us (chain_top us base a) b.
Proof.
  induction a as [|x a IH]; intros base b; [reflexivity|].
  simpl. rewrite IH. reflexivity.
Qed.

Lemma chain_top_app us a base b : chain_top us base (a ++ b) = chain_top us (chain_top us base a) b.
Proof. unfold chain_top. apply fold_left_app. Qed.

Lemma chain_good inputs us u extra : forall avail prev,
  ref_ok avail prev -> den inputs prev <> None -> (forall x, In x avail -> size x <= size prev) -> ubound prev <= u ->
  good inputs avail (chain_ctes us prev extra)
  /\ meas u (size (chain_top us prev extra)) (chain_ctes us prev extra)
  /\ ref_ok (avail ++ map fst (chain_ctes us prev extra)) (chain_top us prev extra)
  /\ size prev <= size (chain_top us prev extra)
  /\ ubound (chain_top us prev extra) <= u /\ den inputs (chain_top us prev extra) <> None.
Proof.
  induction extra as [|b extra IH]; intros avail prev Hr Hd Hs Hu.
  - simpl. rewrite app_nil_r. split; [exact I|]. split; [intros n0 b0 []|]. split; [exact Hr|].
    split; [apply Nat.le_refl|]. split; assumption.
  - set (n := NSel us b None prev).
    assert (Hdn : den inputs n <> None).
    { subst n. cbn [den]. destruct (den inputs prev); [discriminate | contradiction]. }
    destruct (IH (avail ++ [n]) n) as (G1 & G2 & G3 & G4 & G5 & G6).
    + right. apply in_or_app. right. left. reflexivity.
    + exact Hdn.
    + intros x Hx. apply in_app_or in Hx. destruct Hx as [Hx|[<-|[]]]; [|apply Nat.le_refl].
      specialize (Hs x Hx). subst n. simpl. lia.
    + subst n. simpl. lia.
    + change (chain_top us prev (b :: extra)) with (chain_top us n extra).
      change (chain_ctes us prev (b :: extra)) with ((n, NSel [] b None prev) :: chain_ctes us n extra).
      split; [|split; [|split; [|split; [|split]]]]; auto.
      * simpl. split; [|split; [exact I | split; [exact I | split; [|split; [reflexivity | split; [exact Hdn | exact G1]]]]]].
        -- intro Hin. specialize (Hs _ Hin). subst n. simpl in Hs. lia.
        -- intros r [<-|[]]. exact Hr.
      * intros m bd [Hm|Hm]; [|apply G2; exact Hm]. inversion Hm; subst m bd.
        subst n. simpl in *. repeat split; lia.
      * simpl. rewrite <- app_assoc in G3. exact G3.
      * subst n. simpl in G4. lia.
Qed.

Lemma Str_extend inputs s u d' extra :
  done d' = done (s_df s) ++ extra -> Str inputs s u -> Str inputs (with_df s d') u.
Proof.
  intros Hd (H1 & H2 & H3 & H4 & H5 & H6).
  assert (Hall : all_ctes (with_df s d') = all_ctes s ++ chain_ctes (uuids_of (s_pre s)) (top s) extra).
  { unfold all_ctes, top. cbn [with_df s_pre s_base s_df]. rewrite Hd, chain_ctes_app, app_assoc. reflexivity. }
  assert (Htop : top (with_df s d') = chain_top (uuids_of (s_pre s)) (top s) extra).
  { unfold top. cbn [with_df s_pre s_base s_df]. rewrite Hd. apply chain_top_app. }
  destruct (chain_good inputs (uuids_of (s_pre s)) u extra (map fst (all_ctes s)) (top s) H3 H5) as (G1 & G2 & G3 & G4 & G5 & G6).
  { intros x Hx. apply (meas_name _ _ _ _ H2 Hx). }
  { exact H4. }
  assert (Hchain : forall us base bs, bok (chain_ctes us base bs)).
  { intros us base bs. revert base. induction bs as [|b0 bs IHb]; intros base n b Hin; simpl in Hin; [contradiction|].
    destruct Hin as [Hin|Hin]; [inversion Hin; exact I | eapply IHb; exact Hin]. }
  unfold Str. rewrite Hall, Htop. split; [|split; [|split; [|split; [|split]]]].
  - apply good_app. split; [exact H1 | exact G1].
  - intros n b Hin. apply in_app_or in Hin. destruct Hin as [Hin|Hin]; [|apply G2; exact Hin].
    destruct (H2 n b Hin) as (A1 & A2 & A3 & A4). repeat split; auto. lia.
  - rewrite map_app. exact G3.
  - exact G5.
  - exact G6.
  - intros n b Hin. apply in_app_or in Hin. destruct Hin as [Hin|Hin]; [eapply H6; exact Hin | eapply Hchain; exact Hin].
Qed.

Lemma pre_init_done c d : exists extra, done (pre_init c d) = done d ++ extra.
Proof.
  unfold pre_init. destruct (opk_eqb (last d) INIT); [|exists []; rewrite app_nil_r; reflexivity].
  destruct (init_wraps c); [exists [cur d]; reflexivity | exists []; simpl; rewrite app_nil_r; reflexivity].
Qed.

Lemma step_done c d o : exists extra, done (step c d o) = done d ++ extra.
Proof.
  unfold step. cbn [done]. destruct (pre_init_done c d) as [e1 H1].
  unfold pre_wrap. destruct (wrap_needed c _ _).
  - exists (e1 ++ [cur (pre_init c d)]). simpl. rewrite H1, app_assoc. reflexivity.
  - exists e1. exact H1.
Qed.

Lemma compile_done c ops : forall d, exists extra, done (Chain.compile c ops d) = done d ++ extra.
Proof.
  induction ops as [|o ops IH]; intro d; simpl; [exists []; rewrite app_nil_r; reflexivity|].
  destruct (step_done c d o) as [e1 H1]. destruct (IH (step c d o)) as [e2 H2].
  exists (e1 ++ e2). rewrite H2, H1, app_assoc. reflexivity.
Qed.

Lemma pre_set_done c f m d : exists extra, done (fst (pre_set c f m d)) = done d ++ extra.
Proof.
  unfold pre_set. cbn [fst]. destruct (pre_init_done c d) as [e1 H1].
  destruct (wrap_needed c _ _).
  - exists (e1 ++ [cur (pre_init c d)]). simpl. rewrite H1, app_assoc. reflexivity.
  - exists e1. exact H1.
Qed.

(** ** the uuid filter on a colliding CTE *)

(** reading a set operation through SELECT <its columns> FROM (..) changes nothing *)
Lemma den_dedup inputs us us' k d uo bl fl br fr :
  NoDup (out_cols (b_sel bl)) ->
  den inputs (NSet us k d uo bl fl br fr) = den inputs (NSet us' k d None bl fl br fr).
Proof.
  intro Hnd. cbn [den]. destruct (den inputs fl) as [L|]; [|reflexivity]. destruct (den inputs fr) as [R|]; [|reflexivity].
  destruct (operand_ok bl && operand_ok br); [|reflexivity].
  destruct (setop_frames (sql_sem (k, d)) (eval_block bl L) (eval_block br R)) as [G|] eqn:E; [|reflexivity].
  destruct uo as [x|]; [|reflexivity]. cbn [option_map dedup_select]. f_equal.
  destruct (setop_frames_wf _ _ _ _ (wf_eval_block bl L) (wf_eval_block br R) E) as [Hwf Hc].
  assert (Hc' : out_cols (b_sel bl) = cols G) by (rewrite Hc; reflexivity).
  rewrite Hc'. apply eval_pass_block; [exact Hwf | rewrite <- Hc'; exact Hnd].
Qed.

Lemma add_uuid_facts inputs u b1 b2 :
  add_uuid u b1 = Some b2 -> body_ok b1 -> ubound b1 <= u ->
  is_name b2 /\ refs b2 = refs b1 /\ den inputs b2 = den inputs b1 /\ size b2 = size b1 /\ ubound b2 = S u /\ body_ok b2.
Proof.
  destruct b1 as [i|us blk uo f0|us k d uo bl fl br fr]; cbn [add_uuid]; intros H Hb Hu; [discriminate| |];
    inversion H; subst b2; clear H.
  - cbn [ubound] in *. repeat split; lia.
  - cbn [body_ok] in *. split; [exact I|]. split; [reflexivity|].
    split; [rewrite (den_dedup inputs [] us k d (Some u)), (den_dedup inputs us us k d uo) by exact Hb; reflexivity|].
    split; [reflexivity|]. cbn [ubound] in *. split; [lia | exact Hb].
Qed.

Lemma rename_body_ok ren b : body_ok b -> body_ok (rename ren b).
Proof. destruct b; simpl; auto. Qed.

(** ** merging the other side's WITH list ([_add_ctes_to_expression]) *)
Record MInv (inputs : list frame) (bound u : nat) (names : list node) (ren acc done_ : list (node * node)) : Prop := {
  mi_good : good inputs [] acc;
  mi_names_in : forall x, In x names -> In x (map fst acc);
  mi_acc_from : forall x, In x (map fst acc) -> In x names \/ In x (map fst done_);
  mi_ren : forall x, In x (map fst done_) ->
             In (rn ren x) (map fst acc) /\ den inputs (rn ren x) = den inputs x /\ size (rn ren x) = size x;
  mi_ren_id : forall x, ~ In x (map fst done_) -> rn ren x = x;
  mi_old : forall x, In x (map fst done_) -> In x (map fst acc);
  mi_meas : meas u bound acc }.

Lemma rename_facts inputs ren (acc : list (node * node)) u b :
  is_name b ->
  (forall r, In r (refs b) ->
     ref_ok (map fst acc) (rn ren r) /\ den inputs (rn ren r) = den inputs r /\ size (rn ren r) = size r
     /\ ubound (rn ren r) <= u) ->
  ubound b <= u ->
  is_name (rename ren b) /\ (forall r, In r (refs (rename ren b)) -> ref_ok (map fst acc) r)
  /\ den inputs (rename ren b) = den inputs b /\ size (rename ren b) = size b /\ ubound (rename ren b) <= u.
Proof.
  intros Hn Hr Hu. destruct b as [i|us blk uo f0|us k d uo bl fl br fr]; [contradiction| |]; cbn [rename].
  - destruct (Hr f0 (or_introl eq_refl)) as (R1 & R2 & R3 & R4).
    split; [exact I|]. split; [intros r [<-|[]]; exact R1|]. cbn [den size ubound] in *.
    rewrite R2, R3. split; [reflexivity|]. split; [reflexivity|]. lia.
  - destruct (Hr fl (or_introl eq_refl)) as (R1 & R2 & R3 & R4).
    destruct (Hr fr (or_intror (or_introl eq_refl))) as (S1 & S2 & S3 & S4).
    split; [exact I|]. split; [intros r [<-|[<-|[]]]; assumption|]. cbn [den size ubound] in *.
    rewrite R2, R3, S2, S3. split; [reflexivity|]. split; [reflexivity|]. lia.
Qed.

Lemma in_map_fst_app {A B} (a b : list (A * B)) x :
  In x (map fst (a ++ b)) <-> In x (map fst a) \/ In x (map fst b).
Proof. rewrite map_app. apply in_app_iff. Qed.

Lemma merge_ok inputs bound u0 : forall inc u names ren acc done_ u' cs,
  merge u names ren acc inc = Some (u', cs) ->
  MInv inputs bound u names ren acc done_ ->
  good inputs [] (done_ ++ inc) -> meas u0 bound (done_ ++ inc) -> bok (done_ ++ inc) -> u0 <= u ->
  good inputs [] cs /\ meas u' bound cs /\ u <= u' /\ (exists rest, cs = acc ++ rest)
  /\ (forall x, In x (map fst (done_ ++ inc)) -> In x (map fst cs)).
Proof.
  induction inc as [|[n b] inc IH]; intros u names ren acc done_ u' cs Hm HI Hg Hms Hbk Hu0.
  - simpl in Hm. inversion Hm; subst u' cs; clear Hm. destruct HI.
    split; [assumption|]. split; [assumption|]. split; [apply Nat.le_refl|].
    split; [exists []; rewrite app_nil_r; reflexivity|].
    intros x Hx. rewrite app_nil_r in Hx. auto.
  - (* what the incoming entry satisfies in its own list *)
    pose proof Hg as Hg0. apply good_app in Hg0. destruct Hg0 as [Hgd Hgi]. simpl in Hgi.
    destruct Hgi as (Hfresh & Hnn & Hnb & Hrefs & Hden & Hdef & _).
    destruct (Hms n b) as (Ms1 & Ms2 & Ms3 & Ms4); [apply in_or_app; right; left; reflexivity|].
    assert (Hrel : (done_ ++ [(n, b)]) ++ inc = done_ ++ (n, b) :: inc) by (rewrite <- app_assoc; reflexivity).
    (* the re-pointed body *)
    destruct (rename_facts inputs ren acc u b Hnb) as (F1 & F2 & F3 & F4 & F5).
    { intros r Hr. destruct (Hrefs r Hr) as [[i ->]|Hin].
      - assert (E : rn ren (NIn i) = NIn i).
        { apply (mi_ren_id _ _ _ _ _ _ _ HI). intro Hin. apply (good_isname _ _ _ _ Hgd Hin). }
        rewrite E. split; [left; eexists; reflexivity|]. split; [reflexivity|]. split; [reflexivity|]. simpl. lia.
      - destruct (mi_ren _ _ _ _ _ _ _ HI r Hin) as (A1 & A2 & A3).
        split; [right; exact A1|]. split; [exact A2|]. split; [exact A3|].
        apply (meas_name _ _ _ _ (mi_meas _ _ _ _ _ _ _ HI) A1). }
    { lia. }
    cbn [merge] in Hm. unfold memn in Hm.
    destruct (in_dec node_eq_dec n names) as [Hcoll|Hnew].
    + (* name collision: uuid filter, fresh name, later references re-pointed *)
      destruct (add_uuid u (rename ren b)) as [b2|] eqn:Ea; [|discriminate].
      assert (Hbok1 : body_ok (rename ren b)).
      { apply rename_body_ok. apply (Hbk n b). apply in_or_app. right. left. reflexivity. }
      destruct (add_uuid_facts inputs u _ b2 Ea Hbok1 F5) as (U1 & U2 & U3 & U4 & Hub2 & U6).
      assert (Hd2 : den inputs b2 = den inputs n) by (rewrite U3, F3; exact Hden).
      assert (Hs2 : size b2 = size n) by (rewrite U4, F4; exact Ms1).
      destruct (IH (S u) (b2 :: names) ((n, b2) :: ren) (acc ++ [(b2, b2)]) (done_ ++ [(n, b)]) u' cs Hm) as (R1 & R2 & R3 & R4 & R5).
      * constructor.
        -- apply good_app. split; [apply (mi_good _ _ _ _ _ _ _ HI)|]. cbn [good app].
           split; [|split; [exact U1 | split; [exact U1 | split; [|split; [reflexivity | split; [|exact I]]]]]].
           ++ intro Hin. destruct (meas_name _ _ _ _ (mi_meas _ _ _ _ _ _ _ HI) Hin) as [_ Hb]. lia.
           ++ intros r Hr. apply F2. rewrite <- U2. exact Hr.
           ++ rewrite Hd2. exact Hdef.
        -- intros x [<-|Hx]; apply in_map_fst_app; [right; left; reflexivity | left; apply (mi_names_in _ _ _ _ _ _ _ HI); exact Hx].
        -- intros x Hx. apply in_map_fst_app in Hx. destruct Hx as [Hx|[<-|[]]]; [|left; left; reflexivity].
           destruct (mi_acc_from _ _ _ _ _ _ _ HI x Hx) as [H|H]; [left; right; exact H | right; apply in_map_fst_app; left; exact H].
        -- intros x Hx. apply in_map_fst_app in Hx. unfold rn. cbn [assoc].
           destruct (node_eq_dec x n) as [->|Hne].
           ++ split; [apply in_map_fst_app; right; left; reflexivity|].
              split; [exact Hd2 | exact Hs2].
           ++ destruct Hx as [Hx|[Hx|[]]]; [|simpl in Hx; congruence].
              destruct (mi_ren _ _ _ _ _ _ _ HI x Hx) as (A1 & A2 & A3). fold (rn ren x).
              split; [apply in_map_fst_app; left; exact A1 | split; assumption].
        -- intros x Hx. unfold rn. cbn [assoc]. destruct (node_eq_dec x n) as [->|Hne].
           ++ exfalso. apply Hx. apply in_map_fst_app. right. left. reflexivity.
           ++ fold (rn ren x). apply (mi_ren_id _ _ _ _ _ _ _ HI). intro Hin. apply Hx. apply in_map_fst_app. left. exact Hin.
        -- intros x Hx. apply in_map_fst_app in Hx. apply in_map_fst_app. left.
           destruct Hx as [Hx|[<-|[]]]; [apply (mi_old _ _ _ _ _ _ _ HI); exact Hx | apply (mi_names_in _ _ _ _ _ _ _ HI); exact Hcoll].
        -- intros m bd Hin. apply in_app_or in Hin. destruct Hin as [Hin|[Hin|[]]].
           ++ destruct (mi_meas _ _ _ _ _ _ _ HI m bd Hin) as (A1 & A2 & A3 & A4). repeat split; lia.
           ++ inversion Hin; subst m bd. rewrite Hub2, Hs2. repeat split; lia.
      * rewrite Hrel. exact Hg.
      * rewrite Hrel. exact Hms.
      * rewrite Hrel. exact Hbk.
      * lia.
      * split; [exact R1|]. split; [exact R2|]. split; [lia|].
        split; [destruct R4 as [rest ->]; exists ((b2, b2) :: rest); rewrite <- app_assoc; reflexivity|].
        intros x Hx. apply R5. rewrite Hrel. exact Hx.
    + (* new name: appended under its own name, with re-pointed references *)
      destruct (IH u names ren (acc ++ [(n, rename ren b)]) (done_ ++ [(n, b)]) u' cs Hm) as (R1 & R2 & R3 & R4 & R5).
      * constructor.
        -- apply good_app. split; [apply (mi_good _ _ _ _ _ _ _ HI)|]. cbn [good app].
           split; [|split; [exact Hnn | split; [exact F1 | split; [exact F2 | split; [|split; [exact Hdef | exact I]]]]]].
           ++ intro Hin. destruct (mi_acc_from _ _ _ _ _ _ _ HI n Hin) as [H|H]; [contradiction | apply Hfresh; exact H].
           ++ rewrite F3. exact Hden.
        -- intros x Hx. apply in_map_fst_app. left. apply (mi_names_in _ _ _ _ _ _ _ HI). exact Hx.
        -- intros x Hx. apply in_map_fst_app in Hx. destruct Hx as [Hx|[<-|[]]].
           ++ destruct (mi_acc_from _ _ _ _ _ _ _ HI x Hx) as [H|H]; [left; exact H | right; apply in_map_fst_app; left; exact H].
           ++ right. apply in_map_fst_app. right. left. reflexivity.
        -- intros x Hx. apply in_map_fst_app in Hx. destruct Hx as [Hx|[<-|[]]].
           ++ destruct (mi_ren _ _ _ _ _ _ _ HI x Hx) as (A1 & A2 & A3).
              split; [apply in_map_fst_app; left; exact A1 | split; assumption].
           ++ simpl. rewrite (mi_ren_id _ _ _ _ _ _ _ HI n Hfresh).
              split; [apply in_map_fst_app; right; left; reflexivity | split; reflexivity].
        -- intros x Hx. apply (mi_ren_id _ _ _ _ _ _ _ HI). intro Hin. apply Hx. apply in_map_fst_app. left. exact Hin.
        -- intros x Hx. apply in_map_fst_app in Hx. apply in_map_fst_app. destruct Hx as [Hx|[<-|[]]].
           ++ left. apply (mi_old _ _ _ _ _ _ _ HI). exact Hx.
           ++ right. left. reflexivity.
        -- intros m bd Hin. apply in_app_or in Hin. destruct Hin as [Hin|[Hin|[]]].
           ++ apply (mi_meas _ _ _ _ _ _ _ HI). exact Hin.
           ++ inversion Hin; subst m bd. rewrite F4. repeat split; lia.
      * rewrite Hrel. exact Hg.
      * rewrite Hrel. exact Hms.
      * rewrite Hrel. exact Hbk.
      * exact Hu0.
      * split; [exact R1|]. split; [exact R2|]. split; [exact R3|].
        split; [destruct R4 as [rest ->]; exists ((n, rename ren b) :: rest); rewrite <- app_assoc; reflexivity|].
        intros x Hx. apply R5. rewrite Hrel. exact Hx.
Qed.

(** ** [_set_operation] keeps the WITH list well-formed *)
Lemma str_add_entry inputs cs n bd u bound names nk :
  good inputs [] cs -> meas u bound cs ->
  is_name n -> is_name bd -> (forall r, In r (refs bd) -> ref_ok (map fst cs) r) ->
  den inputs bd = den inputs n -> den inputs n <> None ->
  size n = S bound -> size bd = size n -> ubound n <= u -> ubound bd <= u -> bok cs -> body_ok bd ->
  Str inputs (mkSt (cs ++ [(n, bd)]) n names (mkDf [] (pass_block names) nk)) u.
Proof.
  intros G1 G2 Hn Hb Hr Hd Hdef Hs1 Hs2 Hu1 Hu2 Hbk Hbo.
  unfold Str, all_ctes, top. cbn [s_pre s_base s_df done chain_ctes chain_top fold_left]. rewrite app_nil_r.
  split; [|split; [|split; [|split; [|split]]]].
  - apply good_app. split; [exact G1|]. cbn [good app].
    split; [|tauto]. intro Hin. destruct (meas_name _ _ _ _ G2 Hin) as [Hs _]. lia.
  - intros m b Hin. apply in_app_or in Hin. destruct Hin as [Hin|[Hin|[]]].
    + destruct (G2 m b Hin) as (A1 & A2 & A3 & A4). repeat split; lia.
    + inversion Hin; subst m b. repeat split; lia.
  - right. apply in_map_fst_app. right. left. reflexivity.
  - exact Hu1.
  - exact Hdef.
  - intros m b Hin. apply in_app_or in Hin. destruct Hin as [Hin|[Hin|[]]]; [eapply Hbk; exact Hin | inversion Hin; subst; exact Hbo].
Qed.

(** every body of the merged list is a re-pointed / uuid-filtered body of one of the two lists *)
Lemma merge_bodies (P : node -> Prop) :
  (forall ren b, P b -> P (rename ren b)) -> (forall u b b2, P b -> add_uuid u b = Some b2 -> P b2) ->
  forall inc u names ren acc u' cs,
    merge u names ren acc inc = Some (u', cs) ->
    (forall n b, In (n, b) acc -> P b) -> (forall n b, In (n, b) inc -> P b) -> forall n b, In (n, b) cs -> P b.
Proof.
  intros Hr Ha. induction inc as [|[n0 b0] inc IH]; intros u names ren acc u' cs Hm Hacc Hinc.
  - simpl in Hm. inversion Hm; subst. exact Hacc.
  - cbn [merge] in Hm.
    assert (H0 : P (rename ren b0)) by (apply Hr; apply (Hinc n0); left; reflexivity).
    assert (Hrest : forall n b, In (n, b) inc -> P b) by (intros n b Hin; apply (Hinc n); right; exact Hin).
    destruct (memn n0 names).
    + destruct (add_uuid u (rename ren b0)) as [b2|] eqn:Ea; [|discriminate].
      apply (IH _ _ _ _ _ _ Hm); [|exact Hrest].
      intros n b Hin. apply in_app_or in Hin. destruct Hin as [Hin|[Hin|[]]]; [eapply Hacc; exact Hin|].
      inversion Hin; subst. eapply Ha; eassumption.
    + apply (IH _ _ _ _ _ _ Hm); [|exact Hrest].
      intros n b Hin. apply in_app_or in Hin. destruct Hin as [Hin|[Hin|[]]]; [eapply Hacc; exact Hin|].
      inversion Hin; subst. exact H0.
Qed.

Lemma merge_bok inc u names ren acc u' cs :
  merge u names ren acc inc = Some (u', cs) -> bok acc -> bok inc -> bok cs.
Proof.
  intros Hm Hacc Hinc. unfold bok.
  refine (merge_bodies body_ok _ _ inc u names ren acc u' cs Hm Hacc Hinc).
  - intros ren0 b. apply rename_body_ok.
  - intros u0 b b2 Hb Ha. destruct b; cbn [add_uuid] in Ha; inversion Ha; subst; simpl in *; auto.
Qed.

(** [_add_ctes_to_expression] never fails on a list of proper bodies *)
Lemma merge_total inc : forall u names ren acc,
  (forall n b, In (n, b) inc -> is_name b) -> merge u names ren acc inc <> None.
Proof.
  induction inc as [|[n0 b0] inc IH]; intros u names ren acc Hinc; cbn [merge]; [discriminate|].
  assert (H0 : is_name (rename ren b0)).
  { specialize (Hinc n0 b0 (or_introl eq_refl)). destruct b0; simpl in *; auto. }
  assert (Hrest : forall n b, In (n, b) inc -> is_name b) by (intros n b Hin; apply (Hinc n); right; exact Hin).
  destruct (memn n0 names); [|apply IH; exact Hrest].
  destruct (rename ren b0); [contradiction| |]; cbn [add_uuid]; apply IH; exact Hrest.
Qed.

Lemma set_operation_str inputs f m u nk L R s' u' :
  set_operation f m u nk L R = Some (s', u') ->
  Str inputs L u -> Str inputs R u -> den inputs (s_base s') <> None ->
  NoDup (out_cols (b_sel (cur (s_df s')))) ->
  Str inputs s' u' /\ u <= u'.
Proof.
  intros Hso HL HR Hdef Hnd. unfold set_operation in Hso.
  assert (HR1 : Str inputs (wrapS R) u).
  { apply (Str_extend inputs R u (wrap (s_df R)) [cur (s_df R)]); [reflexivity | exact HR]. }
  set (R1 := wrapS R) in *.
  destruct (merge u (map fst (all_ctes L)) [] (all_ctes L) (all_ctes R1)) as [[u2 cs]|] eqn:Em; [|discriminate].
  destruct HL as (L1 & L2 & L3 & L4 & L5 & L6). destruct HR1 as (Q1 & Q2 & Q3 & Q4 & Q5 & Q6).
  set (bound := Nat.max (size (top L)) (size (top R1))).
  destruct (merge_ok inputs bound u (all_ctes R1) u (map fst (all_ctes L)) [] (all_ctes L) [] u2 cs Em)
    as (G1 & G2 & G3 & [rest G4] & G5).
  { constructor.
    - exact L1.
    - intros x Hx. exact Hx.
    - intros x Hx. left. exact Hx.
    - intros x [].
    - intros x _. reflexivity.
    - intros x [].
    - eapply meas_weaken; [apply Nat.le_refl | apply Nat.le_max_l | exact L2]. }
  { exact Q1. }
  { eapply meas_weaken; [apply Nat.le_refl | apply Nat.le_max_r | exact Q2]. }
  { exact Q6. }
  { apply Nat.le_refl. }
  pose proof (merge_bok _ _ _ _ _ _ _ Em L6 Q6) as Hbk.
  assert (HrefL : ref_ok (map fst cs) (top L)).
  { eapply ref_ok_incl; [|exact L3]. intros x Hx. rewrite G4. apply in_map_fst_app. left. exact Hx. }
  assert (HrefR : ref_ok (map fst cs) (top R1)).
  { eapply ref_ok_incl; [|exact Q3]. intros x Hx. apply G5. exact Hx. }
  destruct (f_flags f m) as [k d].
  destruct (f_swap f); inversion Hso; subst s' u'; clear Hso; cbn [s_base s_df cur pass_block b_sel] in Hdef, Hnd;
    rewrite out_cols_passthrough in Hnd; (split; [|exact G3]);
    apply (str_add_entry inputs cs _ _ u2 bound); auto; try exact I;
    try (intros r [<-|[<-|[]]]; assumption); try (subst bound; simpl; lia).
Qed.

Section Names.
  Variable c : cfg.
  Variable f : facts.
  Hypothesis Hcfg : cfg_ok c = true.
  Hypothesis Hlim : limit_ok c.
  Hypothesis Hfacts : facts_ok c f = true.

  Theorem str_correct inputs (Hin : inputs_ok inputs) t : forall u s u' F,
    compile c f (map cols inputs) t u = Some (s, u') ->
    tree_dom c f (map cols inputs) t = true ->
    spark_eval inputs t = Some F ->
    Str inputs s u' /\ u <= u'.
  Proof.
    induction t as [i|ops t IH|cl l IHl r IHr]; intros u s u' F Hc Hd Hs.
    - cbn [compile spark_eval] in *. rewrite nth_error_map, Hs in Hc. simpl in Hc. inversion Hc; subst s u'; clear Hc.
      split; [|apply Nat.le_refl]. unfold Str, all_ctes, top. simpl.
      split; [exact I|]. split; [intros n b []|]. split; [left; eexists; reflexivity|]. split; [apply Nat.le_0_l|].
      split; [rewrite Hs; discriminate | intros n b []].
    - cbn [compile tree_dom spark_eval] in *.
      destruct (compile c f (map cols inputs) t u) as [[s0 u0]|] eqn:E; [|discriminate].
      inversion Hc; subst s u'; clear Hc.
      apply andb_true_iff in Hd. destruct Hd as [Hd _]. apply andb_true_iff in Hd. destruct Hd as [Hd _].
      destruct (spark_eval inputs t) as [F0|] eqn:Es; [|discriminate].
      destruct (IH _ _ _ _ E Hd eq_refl) as [HS Hu]. split; [|exact Hu].
      destruct (compile_done c ops (s_df s0)) as [extra Hx].
      apply (Str_extend inputs s0 u0 _ extra Hx HS).
    - pose proof (sem_correct c f Hcfg Hlim Hfacts inputs Hin (TSet cl l r) u s u' F Hc Hd Hs) as (B & HB & _ & _ & HIs & _).
      cbn [compile tree_dom spark_eval] in *.
      destruct (compile c f (map cols inputs) l u) as [[L u1]|] eqn:El; [|discriminate].
      destruct (compile c f (map cols inputs) r u1) as [[R u2]|] eqn:Er; [|discriminate].
      apply andb_true_iff in Hd. destruct Hd as [Hdl Hdr].
      destruct (spark_eval inputs l) as [FL|] eqn:Esl; [|discriminate].
      destruct (spark_eval inputs r) as [FR|] eqn:Esr; [|discriminate].
      destruct (IHl _ _ _ _ El Hdl eq_refl) as [HSL Hu1].
      destruct (IHr _ _ _ _ Er Hdr eq_refl) as [HSR Hu2].
      apply (Str_weaken inputs L u1 u2 Hu2) in HSL.
      destruct (pre_set_done c f (meth_of cl) (s_df L)) as [e1 He1].
      destruct (pre_set c f (meth_of cl) (s_df L)) as [dL nk] eqn:Eps. cbn [fst] in He1.
      pose proof (Str_extend inputs L u2 dL e1 He1 HSL) as HSL1.
      assert (Hdef : den inputs (s_base s) <> None) by (rewrite HB; discriminate).
      assert (Hnds : NoDup (out_cols (b_sel (cur (s_df s))))) by (destruct HIs as [(_&_&_&_&Hn) _]; exact Hn).
      assert (Hfin : forall L' R', Str inputs L' u2 -> Str inputs R' u2 ->
                 set_operation f (meth_of cl) u2 nk L' R' = Some (s, u') -> Str inputs s u' /\ u <= u').
      { intros L' R' H1 H2 H3. destruct (set_operation_str inputs f _ u2 nk L' R' s u' H3 H1 H2 Hdef Hnds) as [A1 A2].
        split; [exact A1 | lia]. }
      destruct cl as [| |allow| | |]; try (apply (Hfin _ _ HSL1 HSR Hc)).
      destruct (byname_items allow _ _) as [li ri].
      destruct (step_done c (wrap (s_df R)) (OSelect ri)) as [e2 He2].
      assert (HSR2 : Str inputs (with_df R (step c (wrap (s_df R)) (OSelect ri))) u2).
      { apply (Str_extend inputs R u2 _ ([cur (s_df R)] ++ e2)); [|exact HSR]. rewrite He2. simpl. rewrite <- app_assoc. reflexivity. }
      destruct allow; [|apply (Hfin _ _ HSL1 HSR2 Hc)].
      destruct (step_done c (wrap dL) (OSelect li)) as [e3 He3].
      assert (HSL2 : Str inputs (with_df L (step c (wrap dL) (OSelect li))) u2).
      { apply (Str_extend inputs L u2 _ (e1 ++ [cur dL] ++ e3)); [|exact HSL]. rewrite He3. simpl. rewrite He1, <- !app_assoc. reflexivity. }
      apply (Hfin _ _ HSL2 HSR2 Hc).
  Qed.

  (** * The theorem: the SQL sqlframe builds for any tree of set operations evaluates to Spark's bag,
      with Spark's (= the left operand's) column names *)
  Theorem compile_correct inputs t u s u' F :
    inputs_ok inputs ->
    compile c f (map cols inputs) t u = Some (s, u') ->
    tree_dom c f (map cols inputs) t = true ->
    spark_eval inputs t = Some F ->
    exists G, eval_query inputs (query_of s) = Some G /\ cols G = cols F /\ Permutation (rows G) (rows F).
  Proof.
    intros Hin Hc Hd Hs.
    destruct (sem_correct c f Hcfg Hlim Hfacts inputs Hin t u s u' F Hc Hd Hs) as (B & HB & _ & _ & _ & He).
    destruct (str_correct inputs Hin t u s u' F Hc Hd Hs) as [(S1 & _ & S3 & _) _].
    exists (eval_df (s_df s) B). rewrite (eval_query_ok inputs s S1 S3), den_main, HB.
    destruct He as [E1 E2]. split; [reflexivity|]. split; assumption.
  Qed.

  Corollary sql_eval_correct inputs t F :
    inputs_ok inputs -> tree_dom c f (map cols inputs) t = true ->
    spark_eval inputs t = Some F ->
    compile c f (map cols inputs) t 0 <> None ->
    exists G, sql_eval c f inputs t = Some G /\ cols G = cols F /\ Permutation (rows G) (rows F).
  Proof.
    intros Hin Hd Hs Hc. unfold sql_eval.
    destruct (compile c f (map cols inputs) t 0) as [[s u']|] eqn:E; [|contradiction].
    eapply compile_correct; eassumption.
  Qed.
End Names.

(** * sqlframe builds a query for every tree (no operand combination makes the compiler fail) *)
Fixpoint leaves_ok (ins : list (list string)) (t : tree) : bool :=
  match t with
  | TIn i => match nth_error ins i with Some _ => true | None => false end
  | TOps _ t' => leaves_ok ins t'
  | TSet _ l r => leaves_ok ins l && leaves_ok ins r
  end.

Definition named (cs : list (node * node)) : Prop := forall n b, In (n, b) cs -> is_name b.

Lemma named_chain us bs : forall base, named (chain_ctes us base bs).
Proof.
  induction bs as [|b0 bs IH]; intros base n b Hin; simpl in Hin; [contradiction|].
  destruct Hin as [Hin|Hin]; [inversion Hin; exact I | eapply IH; exact Hin].
Qed.

Lemma named_all s : named (s_pre s) -> named (all_ctes s).
Proof.
  intros H n b Hin. unfold all_ctes in Hin. apply in_app_or in Hin.
  destruct Hin as [Hin|Hin]; [eapply H; exact Hin | eapply named_chain; exact Hin].
Qed.

Lemma set_operation_named f m u nk L R s' u' :
  set_operation f m u nk L R = Some (s', u') -> named (s_pre L) -> named (s_pre R) -> named (s_pre s').
Proof.
  unfold set_operation. intros H HL HR.
  destruct (merge u (map fst (all_ctes L)) [] (all_ctes L) (all_ctes (wrapS R))) as [[u2 cs]|] eqn:Em; [|discriminate].
  assert (Hcs : named cs).
  { refine (merge_bodies is_name _ _ _ _ _ _ _ _ _ Em (named_all L HL) (named_all (wrapS R) HR)).
    - intros ren b Hb. destruct b; simpl in *; auto.
    - intros u0 b b2 Hb Ha. destruct b; cbn [add_uuid] in Ha; inversion Ha; subst; exact I. }
  destruct (f_flags f m) as [k d]. inversion H; subst s' u'; clear H. cbn [s_pre].
  intros n b Hin. apply in_app_or in Hin. destruct Hin as [Hin|[Hin|[]]]; [eapply Hcs; exact Hin|].
  inversion Hin; subst. destruct (f_swap f); exact I.
Qed.

Lemma set_operation_total f m u nk L R : named (s_pre R) -> set_operation f m u nk L R <> None.
Proof.
  intro HR. unfold set_operation.
  pose proof (merge_total (all_ctes (wrapS R)) u (map fst (all_ctes L)) [] (all_ctes L) (named_all (wrapS R) HR)) as Hm.
  destruct (merge _ _ _ _ _) as [[u2 cs]|]; [|contradiction].
  destruct (f_flags f m). discriminate.
Qed.

Lemma compile_named c f ins t : forall u s u', compile c f ins t u = Some (s, u') -> named (s_pre s).
Proof.
  induction t as [i|ops t IH|cl l IHl r IHr]; intros u s u' H; cbn [compile] in H.
  - destruct (nth_error ins i); [|discriminate]. inversion H; subst. intros n b [].
  - destruct (compile c f ins t u) as [[s0 u0]|] eqn:E; [|discriminate]. inversion H; subst. exact (IH _ _ _ E).
  - destruct (compile c f ins l u) as [[L u1]|] eqn:El; [|discriminate].
    destruct (compile c f ins r u1) as [[R u2]|] eqn:Er; [|discriminate].
    pose proof (IHl _ _ _ El) as HL. pose proof (IHr _ _ _ Er) as HR.
    destruct (pre_set c f (meth_of cl) (s_df L)) as [dL nk].
    destruct cl as [| |allow| | |]; try (eapply set_operation_named; [exact H | exact HL | exact HR]).
    destruct (byname_items allow _ _) as [li ri].
    destruct allow; (eapply set_operation_named; [exact H | exact HL | exact HR]).
Qed.

Theorem compile_total c f ins t : leaves_ok ins t = true -> forall u, compile c f ins t u <> None.
Proof.
  induction t as [i|ops t IH|cl l IHl r IHr]; intros Hl u; cbn [compile leaves_ok] in *.
  - destruct (nth_error ins i); [discriminate | discriminate].
  - specialize (IH Hl u). destruct (compile c f ins t u) as [[s0 u0]|]; [discriminate | contradiction].
  - apply andb_true_iff in Hl. destruct Hl as [H1 H2].
    specialize (IHl H1 u). destruct (compile c f ins l u) as [[L u1]|] eqn:El; [|contradiction].
    specialize (IHr H2 u1). destruct (compile c f ins r u1) as [[R u2]|] eqn:Er; [|contradiction].
    pose proof (compile_named _ _ _ _ _ _ _ Er) as HR.
    destruct (pre_set c f (meth_of cl) (s_df L)) as [dL nk].
    destruct cl as [| |allow| | |]; try (apply set_operation_total; exact HR).
    destruct (byname_items allow _ _) as [li ri]. apply set_operation_total. exact HR.
Qed.

Lemma spark_leaves inputs t : forall F, spark_eval inputs t = Some F -> leaves_ok (map cols inputs) t = true.
Proof.
  induction t as [i|ops t IH|cl l IHl r IHr]; intros F H; cbn [spark_eval leaves_ok] in *.
  - rewrite nth_error_map, H. reflexivity.
  - destruct (spark_eval inputs t) as [F0|]; [|discriminate]. eapply IH. reflexivity.
  - destruct (spark_eval inputs l) as [FL|]; [|discriminate]. destruct (spark_eval inputs r) as [FR|]; [|discriminate].
    rewrite (IHl _ eq_refl), (IHr _ eq_refl). reflexivity.
Qed.

(** the theorem without a side condition on the compiler *)
Theorem sql_eval_total_correct c f :
  cfg_ok c = true -> limit_ok c -> facts_ok c f = true ->
  forall inputs t F, inputs_ok inputs -> tree_dom c f (map cols inputs) t = true ->
    spark_eval inputs t = Some F ->
    exists G, sql_eval c f inputs t = Some G /\ cols G = cols F /\ Permutation (rows G) (rows F).
Proof.
  intros Hc Hl Hf inputs t F Hin Hd Hs.
  apply (sql_eval_correct c f Hc Hl Hf inputs t F Hin Hd Hs).
  apply compile_total. eapply spark_leaves. exact Hs.
Qed.
