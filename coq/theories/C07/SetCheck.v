(** Executable glue for the C07 correspondence check (T2: exported WITH list vs model up to renaming of
    CTE names; T3: collect()/columns vs model vs Spark spec). *)
From SF Require Export C07.SetModel.
Open Scope nat_scope.

(** the tree the implementation built, with its own (crc32) CTE names *)
Inductive xref := XIn (i : nat) | XName (s : string).
Inductive xbody :=
| XSel (b : block) (uuid : bool) (from : xref)
| XSet (k : sclass) (d : bool) (uuid : bool) (bl : block) (fl : xref) (br : block) (fr : xref).
Record xquery := mkXQuery { x_ctes : list (string * xbody); x_main : xbody }.

Fixpoint index_node (n : node) (l : list node) : option nat :=
  match l with
  | [] => None
  | x :: l' => if node_eq_dec n x then Some O else option_map S (index_node n l')
  end.
Fixpoint nodup_nodes (l : list node) : bool :=
  match l with [] => true | x :: l' => negb (memn x l') && nodup_nodes l' end.

Definition opt_nat_eq (a b : option nat) : bool :=
  match a, b with Some x, Some y => Nat.eqb x y | _, _ => false end.

(** names correspond by position in the WITH list *)
Definition ref_match (xs : list string) (ns : list node) (x : xref) (n : node) : bool :=
  match x, n with
  | XIn i, NIn j => Nat.eqb i j
  | XName s, NIn _ => false
  | XName s, _ => opt_nat_eq (index_of s xs) (index_node n ns)
  | XIn _, _ => false
  end.
Definition blk_eqb (a b : block) : bool := block_eqb (norm_block a) (norm_block b).
Definition is_some {A} (o : option A) : bool := match o with Some _ => true | None => false end.
Definition body_match (xs : list string) (ns : list node) (x : xbody) (n : node) : bool :=
  match x, n with
  | XSel b u fx, NSel _ b' u' fn => blk_eqb b b' && Bool.eqb u (is_some u') && ref_match xs ns fx fn
  | XSet k d u bl fl br fr, NSet _ k' d' u' bl' fl' br' fr' =>
      (if sclass_eq_dec k k' then true else false) && Bool.eqb d d' && Bool.eqb u (is_some u') && blk_eqb bl bl' && blk_eqb br br'
      && ref_match xs ns fl fl' && ref_match xs ns fr fr'
  | _, _ => false
  end.
Definition alpha_eq (x : xquery) (q : query) : bool :=
  let xs := map fst (x_ctes x) in
  let ns := map fst (q_ctes q) in
  Nat.eqb (List.length xs) (List.length ns) && nodupb xs && nodup_nodes ns
  && forallb (fun p => body_match xs ns (snd (fst p)) (snd (snd p))) (combine (x_ctes x) (q_ctes q))
  && body_match xs ns (x_main x) (q_main q).

(** a final observation that is not part of the tree *)
Inductive post := PNone | PGroupCount.
Definition group_count (fr : frame) : frame :=
  mkFrame (cols fr ++ ["count"%string])
          (map (fun r => r ++ [VInt (Z.of_nat (count (rows fr) r))]) (dedup (rows fr))).
Definition observe (p : post) (fr : frame) : frame :=
  match p with PNone => fr | PGroupCount => group_count fr end.

Record scase := mkSCase {
  sc_inputs : list frame;
  sc_tree : tree;
  sc_post : post;
  sc_exported : option xquery;                     (* None: not exported (object-shared operands, post steps) *)
  sc_impl : option (list string * list row) }.     (* columns and collect() rows; None if it raised *)

Definition b2s (b : bool) : string := if b then "1" else "0".
Definition frame_eqb (a : frame) (gc : list string) (gr : list row) : bool :=
  list_eqb String.eqb gc (cols a) && bag_eqb (rows a) gr.
Definition oframe_eqb (a : option frame) (gc : list string) (gr : list row) : bool :=
  match a with Some fr => frame_eqb fr gc gr | None => false end.

Section Check.
  Variable c : cfg.
  Variable f : facts.
  (** verdict: t2 | impl=model | impl=spec | model=spec | in theorem domain | impl raised | model raises | spec defined *)
  Definition check (k : scase) : string :=
    let ins := map cols (sc_inputs k) in
    let comp := compile c f ins (sc_tree k) 0 in
    let model := match comp with
                 | Some (s, _) => option_map (observe (sc_post k)) (eval_query (sc_inputs k) (query_of s))
                 | None => None end in
    let spec := option_map (observe (sc_post k)) (spark_eval (sc_inputs k) (sc_tree k)) in
    let t2 := match sc_exported k, comp with
              | Some x, Some (s, _) => alpha_eq x (query_of s)
              | _, _ => false end in
    let ms := match model, spec with
              | Some m, Some s => frame_eqb m (cols s) (rows s)
              | _, _ => false end in
    let dom := tree_dom c f ins (sc_tree k) in
    match sc_impl k with
    | Some (gc, gr) =>
        b2s t2 ++ b2s (oframe_eqb model gc gr) ++ b2s (oframe_eqb spec gc gr) ++ b2s ms ++ b2s dom ++ "0"
            ++ b2s (negb (is_some comp)) ++ b2s (is_some spec)
    | None => b2s t2 ++ "00" ++ b2s ms ++ b2s dom ++ "1" ++ b2s (negb (is_some comp)) ++ b2s (is_some spec)
    end.
End Check.
