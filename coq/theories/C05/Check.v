(** C05 -- executable companions used by the correspondence harness (ties T2, T3): SQL text of the model's
    token stream, canonical string of the re-parsed tree, values of model and spec on the row pool. *)
From SF Require Export C05.Main.
Open Scope string_scope.

Definition cat (l : list string) : string := String.concat "" l.
Definition showv (v : val) : string :=
  match v with
  | VNull => "N"
  | VInt z => "i" ++ string_of_Z z
  | VStr s => "s" ++ s
  | VBool b => if b then "bT" else "bF"
  | VRat n d => cat ["r"; string_of_Z n; "/"; string_of_Z (Zpos d)]
  end.

(** ---- SQL text as sqlglot's generator writes it (compared modulo blanks and identifier quotes) ---- *)
Definition sqlv (v : val) : string :=
  match v with
  | VNull => "NULL"
  | VInt z => string_of_Z z
  | VStr s => cat ["'"; s; "'"]
  | VBool b => if b then "TRUE" else "FALSE"
  | VRat _ _ => "?"
  end.
Definition bop_sql (o : bop) : string :=
  match o with
  | Add => "+" | Sub => "-" | Mul => "*" | Div => "/" | Mod => "%"
  | Eq => "=" | Neq => "<>" | Lt => "<" | Le => "<=" | Gt => ">" | Ge => ">="
  | And => "AND" | Or => "OR" | Nse => "IS NOT DISTINCT FROM" | Like => "LIKE" | ILike => "ILIKE"
  end.
Definition tok_sql (t : tok) : string :=
  match t with
  | TCol n => n | TLit v => sqlv v
  | TLParen => "(" | TRParen => ")"
  | TOp o => bop_sql o
  | TNot => "NOT" | TMinus => "-"
  | TIsNull => "IS NULL"
  | TIn vs => cat ["IN ("; String.concat ", " (map sqlv vs); ")"]
  | TBetween => "BETWEEN"
  | TCase => "CASE" | TWhen => "WHEN" | TThen => "THEN" | TElse => "ELSE" | TEnd => "END"
  | TCast => "CAST(" | TAsType ty => cat ["AS "; ty; ")"]
  | TFun f => cat [f; "("] | TComma => ","
  | TLBrack => "[" | TRBrack => "]"
  end.
Definition render (ts : list tok) : string := String.concat " " (map tok_sql ts).

(** ---- canonical form of a parse tree (what DuckDB's transformer keeps of it) ----------------------- *)
Definition negcmp (o : bop) : option bop :=
  match o with Eq => Some Neq | Neq => Some Eq | Lt => Some Ge | Ge => Some Lt | Gt => Some Le | Le => Some Gt | _ => None end.

Fixpoint canon (e : sexpr) : sexpr :=
  match e with
  | SCol _ | SLit _ => e
  | SParen e => canon e
  | SBin o a b => SBin o (canon a) (canon b)
  | SNot e =>
      match canon e with
      | SBin o a b => match negcmp o with Some o' => SBin o' a b | None => SNot (SBin o a b) end
      | e' => SNot e'
      end
  | SNeg e => match canon e with SLit (VInt z) => SLit (VInt (- z)) | e' => SNeg e' end
  | SIsNull e => SIsNull (canon e)
  | SIn e vs => SIn (canon e) vs
  | SBetween e lo hi => SBetween (canon e) (canon lo) (canon hi)
  | SCase bs => SCase (canonb bs)
  | SCast e ty => SCast (canon e) ty
  | SCall2 f a b => SCall2 f (canon a) (canon b)
  | SCall3 f a b c => SCall3 f (canon a) (canon b) (canon c)
  | SBracket e i => SBracket (canon e) (canon i)
  end
with canonb (bs : branches) : branches :=
  match bs with
  | BEnd => BEnd
  | BElse e => BElse (canon e)
  | BWhen c v r => BWhen (canon c) (canon v) (canonb r)
  end.

Definition bop_name (o : bop) : string :=
  match o with
  | Add => "Add" | Sub => "Sub" | Mul => "Mul" | Div => "Div" | Mod => "Mod"
  | Eq => "Eq" | Neq => "Neq" | Lt => "Lt" | Le => "Le" | Gt => "Gt" | Ge => "Ge"
  | And => "And" | Or => "Or" | Nse => "Nse" | Like => "Like" | ILike => "ILike"
  end.

Fixpoint show (e : sexpr) : string :=
  match e with
  | SCol n => n
  | SLit v => showv v
  | SParen e => show e
  | SBin o a b => cat [bop_name o; "("; show a; ","; show b; ")"]
  | SNot e => cat ["Not("; show e; ")"]
  | SNeg e => cat ["Neg("; show e; ")"]
  | SIsNull e => cat ["IsNull("; show e; ")"]
  | SIn e vs => cat ["In("; show e; ","; String.concat "," (map showv vs); ")"]
  | SBetween e lo hi => cat ["Between("; show e; ","; show lo; ","; show hi; ")"]
  | SCase bs => cat ["Case("; showb bs; ")"]
  | SCast e ty => cat ["Cast["; ty; "]("; show e; ")"]
  | SCall2 f a b => cat [f; "("; show a; ","; show b; ")"]
  | SCall3 f a b c => cat [f; "("; show a; ","; show b; ","; show c; ")"]
  | SBracket e i => cat ["Item("; show e; ","; show i; ")"]
  end
with showb (bs : branches) : string :=
  match bs with
  | BEnd => "N"
  | BElse e => show e
  | BWhen c v r => cat [show c; ","; show v; ","; showb r]
  end.

(** ---- one case ------------------------------------------------------------------------------------ *)
Definition b01 (b : bool) : string := if b then "1" else "0".

Section Run.
Variable c : cfg.
Variable envs : list env.

Definition vals (f : env -> option val) : string :=
  String.concat "~" (map (fun en => match f en with Some v => showv v | None => "#" end) envs).

(** fields, separated by ";":
    0 SQL text of the model's tokens | 1 canonical tree of the engine's reading (ERR = syntax error)
    | 2 canonical intended tree | 3 flags: in_class, safe, known, reparse=build
    | 4 predicted engine values per row | 5 PySpark values per row ("#" = row outside the domain) *)
Definition check (t : uexpr) : string :=
  let b := build c t in
  let ts := print b in
  let r := reparse ts in
  let dom := fun en => udom en t && negb (divzero en (denote t)) in
  String.concat ";" [
    render ts;
    match r with ROk e _ => show (canon e) | RErr => "ERR" | RFuel => "FUEL" end;
    show (canon (denote t));
    cat [b01 (in_class c t); b01 (safe 1 false b); b01 (known b);
         b01 (match r with ROk e _ => String.eqb (show e) (show b) | _ => false end)];
    match r with
    | ROk e _ => if known e then vals (fun en => if dom en && negb (divzero en e) then Some (seval en e) else None)
                 else "UNKNOWNFN"
    | _ => "-"
    end;
    vals (fun en => if dom en then Some (ueval en t) else None)
  ].
End Run.
