(** C05 -- executable companions used by the correspondence harness (ties T2, T3): SQL text of the model's
    token stream, canonical string of the re-parsed tree, values of model and spec on the row pool. *)
From SF Require Export C05.Main.
Open Scope string_scope.

Definition cat (l : list string) : string := String.concat "" l.
Definition showv (v : val) : string :=
  match v with
  | VNull => "N"
  | VInt z => "i" ++ string_of_Z z
  | VStr s => "s" ++ s
  | VBool b => if b then "bT" else "bF"
  | VRat n d => cat ["r"; string_of_Z n; "/"; string_of_Z (Zpos d)]
  end.

(** ---- SQL text as sqlglot's generator writes it (compared modulo blanks and identifier quotes) ---- *)
Definition sqlv (v : val) : string :=
  match v with
  | VNull => "NULL"
  | VInt z => string_of_Z z
  | VStr s => cat ["'"; s; "'"]
  | VBool b => if b then "TRUE" else "FALSE"
  | VRat _ _ => "?"
  end.
Definition bop_sql (o : bop) : string :=
  match o with
  | Add => "+" | Sub => "-" | Mul => "*" | Div => "/" | Mod => "%"
  | Eq => "=" | Neq => "<>" | Lt => "<" | Le => "<=" | Gt => ">" | Ge => ">="
  | And => "AND" | Or => "OR" | Nse => "IS NOT DISTINCT FROM" | Like => "LIKE" | ILike => "ILIKE"
  end.
Definition tok_sql (t : tok) : string :=
  match t with
  | TCol n => n | TLit v => sqlv v
  | TLParen => "(" | TRParen => ")"
  | TOp o => bop_sql o
  | TNot => "NOT" | TMinus => "-"
  | TIsNull => "IS NULL"
  | TIn vs => cat ["IN ("; String.concat ", " (map sqlv vs); ")"]
  | TBetween => "BETWEEN"
  | TCase => "CASE" | TWhen => "WHEN" | TThen => "THEN" | TElse => "ELSE" | TEnd => "END"
  | TCast => "CAST(" | TAsType ty => cat ["AS "; ty; ")"]
  | TFun f => cat [f; "("] | TComma => ","
  | TLBrack => "[" | TRBrack => "]"
  end.
Definition render (ts : list tok) : string := String.concat " " (map tok_sql ts).

(** ---- canonical form of a parse tree (what DuckDB's transformer keeps of it) ----------------------- *)
Definition negcmp (o : bop) : option bop :=
  match o with Eq => Some Neq | Neq => Some Eq | Lt => Some Ge | Ge => Some Lt | Gt => Some Le | Le => Some Gt | _ => None end.

Fixpoint canon (e : sexpr) : sexpr :=
  match e with
  | SCol _ | SLit _ => e
  | SParen e => canon e
  | SBin o a b => SBin o (canon a) (canon b)
  | SNot e =>
      match canon e with
      | SBin o a b => match negcmp o with Some o' => SBin o' a b | None => SNot (SBin o a b) end
      | e' => SNot e'
      end
  | SNeg e => match canon e with SLit (VInt z) => SLit (VInt (- z)) | e' => SNeg e' end
  | SIsNull e => SIsNull (canon e)
  | SIn e vs => SIn (canon e) vs
  | SBetween e lo hi => SBetween (canon e) (canon lo) (canon hi)
  | SCase bs => SCase (canonb bs)
  | SCast e ty => SCast (canon e) ty
  | SCall2 f a b => SCall2 f (canon a) (canon b)
  | SCall3 f a b c => SCall3 f (canon a) (canon b) (canon c)
  | SBracket e i => SBracket (canon e) (canon i)
  end
with canonb (bs : branches) : branches :=
  match bs with
  | BEnd => BEnd
  | BElse e => BElse (canon e)
  | BWhen c v r => BWhen (canon c) (canon v) (canonb r)
  end.

Definition bop_name (o : bop) : string :=
  match o with
  | Add => "Add" | Sub => "Sub" | Mul => "Mul" | Div => "Div" | Mod => "Mod"
  | Eq => "Eq" | Neq => "Neq" | Lt => "Lt" | Le => "Le" | Gt => "Gt" | Ge => "Ge"
  | And => "And" | Or => "Or" | Nse => "Nse" | Like => "Like" | ILike => "ILike"
  end.

(** AND/OR chains are flattened (DuckDB's transformer merges nested conjunctions of the same kind) *)
Definition is_conj (o : bop) : bool := match o with And | Or => true | _ => false end.
Definition same_conj (ctx : option bop) (o : bop) : bool :=
  match ctx with Some o' => is_conj o && bop_eqb o o' | None => false end.

Fixpoint show_in (ctx : option bop) (e : sexpr) : string :=
  match e with
  | SCol n => n
  | SLit v => showv v
  | SParen e => show_in ctx e
  | SBin o a b =>
      let sub := if is_conj o then Some o else None in
      let inner := cat [show_in sub a; ","; show_in sub b] in
      if same_conj ctx o then inner else cat [bop_name o; "("; inner; ")"]
  | SNot e => cat ["Not("; show_in None e; ")"]
  | SNeg e => cat ["Neg("; show_in None e; ")"]
  | SIsNull e => cat ["IsNull("; show_in None e; ")"]
  | SIn e vs => cat ["In("; show_in None e; ","; String.concat "," (map showv vs); ")"]
  | SBetween e lo hi => cat ["Between("; show_in None e; ","; show_in None lo; ","; show_in None hi; ")"]
  | SCase bs => cat ["Case("; showb bs; ")"]
  | SCast e ty => cat ["Cast["; ty; "]("; show_in None e; ")"]
  | SCall2 f a b => cat [f; "("; show_in None a; ","; show_in None b; ")"]
  | SCall3 f a b c => cat [f; "("; show_in None a; ","; show_in None b; ","; show_in None c; ")"]
  | SBracket e i => cat ["Item("; show_in None e; ","; show_in None i; ")"]
  end
with showb (bs : branches) : string :=
  match bs with
  | BEnd => "N"
  | BElse e => show_in None e
  | BWhen c v r => cat [show_in None c; ","; show_in None v; ","; showb r]
  end.
Definition show (e : sexpr) : string := show_in None e.

(** exact structure (parentheses and nesting kept), used only to compare two model trees *)
Fixpoint raw (e : sexpr) : string :=
  match e with
  | SCol n => n
  | SLit v => showv v
  | SParen e => cat ["("; raw e; ")"]
  | SBin o a b => cat [bop_name o; "<"; raw a; ","; raw b; ">"]
  | SNot e => cat ["Not<"; raw e; ">"]
  | SNeg e => cat ["Neg<"; raw e; ">"]
  | SIsNull e => cat ["IsNull<"; raw e; ">"]
  | SIn e vs => cat ["In<"; raw e; ","; String.concat "," (map showv vs); ">"]
  | SBetween e lo hi => cat ["Between<"; raw e; ","; raw lo; ","; raw hi; ">"]
  | SCase bs => cat ["Case<"; rawb bs; ">"]
  | SCast e ty => cat ["Cast["; ty; "]<"; raw e; ">"]
  | SCall2 f a b => cat [f; "<"; raw a; ","; raw b; ">"]
  | SCall3 f a b c => cat [f; "<"; raw a; ","; raw b; ","; raw c; ">"]
  | SBracket e i => cat ["Item<"; raw e; ","; raw i; ">"]
  end
with rawb (bs : branches) : string :=
  match bs with
  | BEnd => "N"
  | BElse e => raw e
  | BWhen c v r => cat [raw c; ","; raw v; ","; rawb r]
  end.

(** ---- shape signature of a mis-grouped tree: the innermost subtree whose own text is not precedence-safe --- *)
Fixpoint ukind (t : uexpr) : string :=
  match t with
  | UCol _ | ULit _ | UPy _ => "leaf"
  | UExpr e => if bclosed e then "leaf" else "text"
  | UBin o _ _ => if is_arith o then "arith" else if is_logic o then "logic" else "cmp"
  | URBin o _ _ => if is_logic o then "rlogic" else "arith"
  | UNse _ _ => "nse" | UNeg _ => "neg" | UNot _ => "not"
  | UIsNull _ => "isnull" | UIsNotNull _ => "isnotnull"
  | UIsin _ _ => "isin" | UBetween _ _ _ => "between" | ULike _ _ | UILike _ _ => "like"
  | URlike _ _ | UStartsWith _ _ | UEndsWith _ _ | USubstr _ _ _ => "call"
  | UWhen _ => "when" | UCast _ _ => "cast" | UAlias a _ => ukind a
  | UGetItemLit _ _ | UGetItemCol _ _ => "item"
  end.
Definition kinds (l : list uexpr) : string := String.concat "," (map ukind l).

Section Culprit.
Variable c : cfg.
(** every subtree whose own text is not precedence-safe, innermost-leftmost first *)
Definition here (t : uexpr) (ops : list uexpr) : list string :=
  if safe 1 false (build c t) then [] else [cat [ukind t; "("; kinds ops; ")"]].
Fixpoint culprits (t : uexpr) : list string :=
  match t with
  | UCol _ | ULit _ | UPy _ | UExpr _ => []
  | UBin _ a b | UNse a b | UStartsWith a b | UEndsWith a b | UGetItemCol a b =>
      culprits a ++ culprits b ++ here t [a; b]
  | URBin _ _ a | UNeg a | UNot a | UIsNull a | UIsNotNull a | UIsin a _ | ULike a _ | UILike a _
  | URlike a _ | UCast a _ | UAlias a _ | UGetItemLit a _ => culprits a ++ here t [a]
  | UBetween a b d | USubstr a b d => culprits a ++ culprits b ++ culprits d ++ here t [a; b; d]
  | UWhen bs => culpritsb bs
  end
with culpritsb (bs : ubranches) : list string :=
  match bs with
  | UBEnd => []
  | UBElse e => culprits e
  | UBWhen cd v r => culprits cd ++ culprits v ++ culpritsb r
  end.
End Culprit.

(** ---- one case ------------------------------------------------------------------------------------ *)
Definition b01 (b : bool) : string := if b then "1" else "0".

(** node kinds at which the engine's and Spark's primitive differ on this row (see Build.agree) *)
Fixpoint disagree (en : env) (t : uexpr) : list string :=
  match t with
  | UCol _ | ULit _ | UPy _ | UExpr _ => []
  | UBin _ a b | UNse a b | UStartsWith a b | UEndsWith a b | UGetItemCol a b => disagree en a ++ disagree en b
  | URBin _ _ a | UNeg a | UNot a | UIsNull a | UIsNotNull a | UIsin a _ | ULike a _ | UILike a _
  | URlike a _ | UAlias a _ | UGetItemLit a _ => disagree en a
  | UCast a ty => disagree en a ++
      (if val_eqb (cast_to ty (ueval en a)) (cast_spark ty (ueval en a)) then [] else ["cast"])
  | UBetween a b d => disagree en a ++ disagree en b ++ disagree en d
  | USubstr a b d => disagree en a ++ disagree en b ++ disagree en d ++
      (if val_eqb (substr3 substr_duck (ueval en a) (if is_zero_start b then VInt 1 else ueval en b) (ueval en d))
                  (substr3 substr_spark (ueval en a) (ueval en b) (ueval en d)) then []
       else match ueval en b with VInt 0 => ["substr"] | _ => ["substrneg"] end)
  | UWhen bs => disagreeb en bs
  end
with disagreeb (en : env) (bs : ubranches) : list string :=
  match bs with
  | UBEnd => []
  | UBElse e => disagree en e
  | UBWhen c v r => disagree en c ++ disagree en v ++ disagreeb en r
  end.
Definition has_str (x : string) (l : list string) : bool := existsb (String.eqb x) l.

Section Run.
Variable c : cfg.
Variable envs : list env.

Definition vals (f : env -> option val) : string :=
  String.concat "~" (map (fun en => match f en with Some v => showv v | None => "#" end) envs).

(** fields, separated by ";":
    0 SQL text of the model's tokens | 1 canonical tree of the engine's reading (ERR = syntax error)
    | 2 canonical intended tree | 3 flags: in_class, safe, known, reparse=build
    | 4 predicted engine values per row | 5 PySpark values per row | 7 per row: primitives on which engine and Spark differ there (c = cast of a fraction, s = substring position 0, n = negative position before the string, - = none) | 6 unsafe subtrees kind(operand kinds), innermost first, joined by + ("#" = row outside the domain) *)
Definition check (t : uexpr) : string :=
  let b := build c t in
  let ts := print b in
  let r := reparse ts in
  let dom := fun en => udom en t && negb (divzero en (denote t)) in
  let sv := vals (fun en => if dom en then Some (ueval en t) else None) in
  let mv := match r with
            | ROk e _ => if known e then vals (fun en => if dom en && negb (divzero en e) then Some (seval en e) else None)
                         else "UNKNOWNFN"
            | _ => "-"
            end in
  String.concat ";" [
    render ts;
    match r with ROk e _ => show (canon e) | RErr => "ERR" | RFuel => "FUEL" end;
    show (canon (denote t));
    cat [b01 (in_class c t); b01 (safe 1 false b); b01 (known b);
         b01 (match r with ROk e _ => String.eqb (raw e) (raw b) | _ => false end)];
    (if String.eqb mv sv then "=" else mv);
    sv;
    String.concat "+" (culprits c t);
    String.concat "~" (map (fun en => let ds := disagree en t in
                                 cat [(if has_str "cast" ds then "c" else ""); (if has_str "substr" ds then "s" else ""); (if has_str "substrneg" ds then "n" else "");
                                      (match ds with [] => "-" | _ => "" end)]) envs)
  ].
End Run.
