(** C05 -- the generic theorems, parametric in the facts regenerated from column.py. *)
From SF Require Export C05.Safe.

Section WithCfg.
Variable c : cfg.
Hypothesis Hok : cfg_ok c = true.

(** the text sqlframe emits for a tree of the class is read back by the engine's grammar as the tree the
    user wrote: operand order, grouping and negation scope are preserved *)
Theorem c05_roundtrip : forall t, in_class c t = true ->
  reparse (print (build c t)) = ROk (build c t) [] /\ strip (build c t) = denote t.
Proof.
  intros t Hc. split.
  - apply roundtrip. apply (proj1 (build_safe_mut c Hok)). exact Hc.
  - apply (proj1 (build_shape_mut c Hok)). exact Hc.
Qed.

(** the engine knows every function the emitted text calls *)
Lemma known_wrap w e : known (wrap w e) = known e.
Proof. unfold wrap. destruct w; try destruct (is_open e); try destruct (is_open_conn e); reflexivity. Qed.
Lemma known_mkbin bf x y : known x = true -> known y = true -> known (mkbin bf x y) = true.
Proof.
  intros A B. unfold mkbin. destruct (bf_paren bf), (bf_self_left bf); cbn [known]; rewrite !known_wrap, A, B; reflexivity.
Qed.
Lemma known_pylit b v : known (pylit b v) = true.
Proof. destruct v, b; reflexivity. Qed.

Lemma build_known_mut :
  (forall t, in_class c t = true -> known (build c t) = true) /\
  (forall bs, in_classb c bs = true -> knownb (buildb c bs) = true).
Proof.
  destruct (ok_names c Hok) as (EL & EIL & ER & ES & ESub & EG).
  apply uexpr_ubranches_ind; intros; cbn [in_class in_classb build buildb] in *; bsplit; try reflexivity;
    repeat match goal with
           | IH : in_class c ?t = true -> _, D : in_class c ?t = true |- _ => specialize (IH D)
           | IH : in_classb c ?t = true -> _, D : in_classb c ?t = true |- _ => specialize (IH D)
           end.
  all: try (apply known_mkbin; auto using known_pylit; destruct b; auto using known_pylit; fail).
  all: try (unfold mkun; repeat match goal with |- context [if ?x then _ else _] => destruct x end;
            cbn [known]; rewrite ?known_wrap; auto; fail).
  all: try (match goal with E : String.eqb _ _ = true |- _ => apply String.eqb_eq in E; rewrite E end).
  all: try (destruct a; try discriminate; rewrite ?EG;
            try match goal with E : (_ =? _)%Z = true |- _ => apply Z.eqb_eq in E; rewrite E end;
            unfold offset_key; cbn [Z.eqb Z.ltb Z.compare Pos.compare known]; rewrite ?H0; reflexivity).
  all: rewrite ?ER, ?ES, ?ESub; cbn [known knownb call2 call3 String.eqb Ascii.eqb Bool.eqb]; rewrite ?known_wrap;
       try match goal with |- context [if ?x && is_zero_start ?p then _ else _] => destruct (x && is_zero_start p) end;
       repeat (apply andb_true_intro; split); auto.
Qed.

(** ... and its three-valued value on every row is PySpark's value of the user's tree *)
Theorem c05_value : forall t, in_class c t = true ->
  exists e, reparse (print (build c t)) = ROk e [] /\ strip e = denote t /\ known e = true /\
            forall en, udom en t = true -> agree en t = true -> seval en e = ueval en t.
Proof.
  intros t Hc. destruct (c05_roundtrip t Hc) as [R S].
  exists (build c t). split; [exact R|]. split; [exact S|].
  split; [apply (proj1 build_known_mut); exact Hc|].
  intros en Hd Ha. rewrite <- (proj1 seval_strip). rewrite S. apply (proj1 value_mut); assumption.
Qed.

End WithCfg.

(** trees a Python program can write: a reflected form exists only for arithmetic, & and | *)
Fixpoint uwf (t : uexpr) : bool :=
  match t with
  | UCol _ | ULit _ | UPy _ | UExpr _ => true
  | UBin _ a b | UNse a b | UStartsWith a b | UEndsWith a b | UGetItemCol a b => uwf a && uwf b
  | URBin o _ a => has_reflected o && uwf a
  | UNeg a | UNot a | UIsNull a | UIsNotNull a | UIsin a _ | ULike a _ | UILike a _
  | URlike a _ | UCast a _ | UAlias a _ | UGetItemLit a _ => uwf a
  | UBetween a b c | USubstr a b c => uwf a && uwf b && uwf c
  | UWhen bs => uwfb bs
  end
with uwfb (bs : ubranches) : bool :=
  match bs with
  | UBEnd => true
  | UBElse e => uwf e
  | UBWhen c v r => uwf c && uwf v && uwfb r
  end.


(** ---- the full-strength statement and how a concrete tree refutes it ------------------------------------ *)
Definition full_for (c : cfg) : Prop :=
  forall t, uwf t = true ->
    exists e, reparse (print (build c t)) = ROk e [] /\ known e = true /\
              forall en, udom en t = true -> seval en e = ueval en t.

(** decidable: on row [en] the emitted text of [t] is rejected by the grammar, calls an unknown function,
    or evaluates to something else than PySpark's value *)
Definition bad (c : cfg) (en : env) (t : uexpr) : bool :=
  match reparse (print (build c t)) with
  | ROk e [] => negb (known e) || negb (val_eqb (seval en e) (ueval en t))
  | _ => true
  end.

Lemma bad_refutes c t en : uwf t = true -> udom en t = true -> bad c en t = true -> ~ full_for c.
Proof.
  intros W D B F. destruct (F t W) as (e & R & K & V). unfold bad in B. rewrite R, K in B.
  rewrite (V en D), val_eqb_refl in B. discriminate.
Qed.
