(** C05 -- what the user wrote ([uexpr]), what sqlframe's Column builder makes of it ([build], driven
    by facts regenerated from column.py), what it is supposed to mean ([denote], [ueval]). *)
From SF Require Export C05.Sem.
Open Scope Z_scope.

Inductive uop := UAdd | USub | UMul | UDiv | UMod | UEq | UNeq | ULt | ULe | UGt | UGe | UAnd | UOr.

Inductive uexpr :=
| UCol (n : string)                      (* F.col(n) *)
| ULit (v : val)                         (* F.lit(v) *)
| UPy (v : val)                          (* a bare Python value given as an argument *)
| UBin (o : uop) (a b : uexpr)           (* a <op> b  through the forward dunder of a *)
| URBin (o : uop) (v : val) (b : uexpr)  (* v <op> b  with a bare Python value on the left: b.__r<op>__(v) *)
| UNse (a b : uexpr)                     (* a.eqNullSafe(b) *)
| UNeg (a : uexpr) | UNot (a : uexpr)
| UIsNull (a : uexpr) | UIsNotNull (a : uexpr)
| UIsin (a : uexpr) (vs : list val)
| UBetween (a lo hi : uexpr)
| ULike (a : uexpr) (p : string) | UILike (a : uexpr) (p : string) | URlike (a : uexpr) (p : string)
| UStartsWith (a b : uexpr) | UEndsWith (a b : uexpr)
| USubstr (a p l : uexpr)
| UWhen (bs : ubranches)                 (* F.when(c1,v1).when(c2,v2)...[.otherwise(d)] *)
| UCast (a : uexpr) (ty : string)
| UAlias (a : uexpr) (n : string)
| UGetItemLit (a : uexpr) (k : nat)      (* a.getItem(k) / a.getField *)
| UGetItemCol (a : uexpr) (c : uexpr)    (* a.getItem(<Column>) *)
| UExpr (e : sexpr)                      (* F.expr(text) / a SQL-string Column: e is the parse tree of the text *)
with ubranches :=
| UBEnd
| UBElse (e : uexpr)
| UBWhen (c v : uexpr) (r : ubranches).

Scheme uexpr_mut := Induction for uexpr Sort Prop
  with ubranches_mut := Induction for ubranches Sort Prop.
Combined Scheme uexpr_ubranches_ind from uexpr_mut, ubranches_mut.

Definition uop_bop (o : uop) : bop :=
  match o with
  | UAdd => Add | USub => Sub | UMul => Mul | UDiv => Div | UMod => Mod
  | UEq => Eq | UNeq => Neq | ULt => Lt | ULe => Le | UGt => Gt | UGe => Ge
  | UAnd => And | UOr => Or
  end.
Definition is_arith (o : uop) : bool := match o with UAdd | USub | UMul | UDiv | UMod => true | _ => false end.
Definition is_logic (o : uop) : bool := match o with UAnd | UOr => true | _ => false end.
(** PySpark has reflected forms for arithmetic only: `True & col` raises in PySpark (py4j: no and(Boolean)),
    so sqlframe's __rand__/__ror__ are outside the property *)
Definition has_reflected (o : uop) : bool := is_arith o.
Definition all_uop := [UAdd; USub; UMul; UDiv; UMod; UEq; UNeq; ULt; ULe; UGt; UGe; UAnd; UOr].

(** ---- facts regenerated from column.py (tie T1) ---------------------------------------------- *)
(** how an operator passes its operands on: untouched, through _operand, through _connector_operand *)
Inductive wmode := WNone | WAll | WConn.

Record binfact := mkBF {
  bf_cls : bop;             (* sqlglot class handed to binary_op / inverse_binary_op *)
  bf_self_left : bool;      (* the receiver ends up as the LEFT operand (this=) *)
  bf_paren : bool;          (* the result is wrapped in exp.Paren *)
  bf_strlit : bool;         (* a bare str operand becomes a string literal (not a column name) *)
  bf_opwrap : wmode }.      (* operands go through _operand / _connector_operand: a bare operator expression is parenthesised *)
Record unfact := mkUF { uf_not : bool; uf_paren : bool }.   (* exp.Not / exp.Neg ; operand wrapped in Paren *)

Record cfg := mkCfg {
  c_fwd : uop -> binfact;
  c_rev : uop -> binfact;
  c_nse : binfact;
  c_neg : unfact;
  c_not : unfact;
  c_isnotnull_paren : bool;       (* isNotNull: Not(Paren(Is ..)) instead of Not(Is ..) *)
  c_shapes_ok : bool;             (* isNull, isNotNull, isin, between, when/otherwise, cast, alias, like-family
                                     bodies have the modelled shape (translator verdict, see translate/c05_facts.py) *)
  c_like_cls : bop; c_ilike_cls : bop;
  c_rlike_fn : string; c_startswith_fn : string; c_endswith_fn : string; c_substr_fn : string;
  c_getitem_lit_off : Z;          (* amount added to a literal index k: emitted as (k + off) *)
  c_getitem_col_off : Z;          (* ... to a Column index that contains no numeric literal *)
  c_getitem_numkey_off : Z;       (* ... to a Column index that contains one (element_at_using_brackets) *)
  c_pred_opwrap : bool;           (* isNull isNotNull isin between like ilike pass their operands through _operand *)
  c_between_unalias : bool;       (* between takes its bounds with .column_expression (no Alias node survives) *)
  c_substr_zero_as_one : bool }.  (* substr: a bare Python int position 0 is written as 1 (Spark reads 0 as 1) *)

(** ---- sqlframe's builder ---------------------------------------------------------------------- *)
(** column.py's _operand: the expression classes that are written bare (every infix operator of the model, NOT,
    IS NULL, IN, BETWEEN); _connector_operand: under AND / OR only a bare AND / OR or arithmetic expression *)
Definition is_open (e : sexpr) : bool :=
  match e with
  | SBin _ _ _ | SNot _ | SIsNull _ | SIn _ _ | SBetween _ _ _ => true
  | _ => false
  end.
Definition is_open_conn (e : sexpr) : bool :=
  match e with
  | SBin o _ _ => match o with And | Or | Add | Sub | Mul | Div | Mod => true | _ => false end
  | _ => false
  end.
Definition wrap (w : wmode) (e : sexpr) : sexpr :=
  match w with
  | WNone => e
  | WAll => if is_open e then SParen e else e
  | WConn => if is_open_conn e then SParen e else e
  end.
Definition wb (b : bool) : wmode := if b then WAll else WNone.
Definition is_wall (w : wmode) : bool := match w with WAll => true | _ => false end.

(** results closed on both sides, at the SQL level *)
Definition bclosed (e : sexpr) : bool :=
  match e with
  | SCol _ | SLit _ | SParen _ | SCase _ | SCast _ _ | SCall2 _ _ _ | SCall3 _ _ _ _ => true
  | SNeg (SParen _) => true
  | SBracket (SCol _) _ => true
  | _ => false
  end.

Definition mkbin (bf : binfact) (self0 other0 : sexpr) : sexpr :=
  let self := wrap (bf_opwrap bf) self0 in
  let other := wrap (bf_opwrap bf) other0 in
  let core := if bf_self_left bf then SBin (bf_cls bf) self other else SBin (bf_cls bf) other self in
  if bf_paren bf then SParen core else core.
Definition mkun (uf : unfact) (x : sexpr) : sexpr :=
  let x' := if uf_paren uf then SParen x else x in
  if uf_not uf then SNot x' else SNeg x'.
(** substr(0, n): the position the engine must see is 1 *)
Definition is_zero_start (p : uexpr) : bool := match p with UPy (VInt 0) => true | _ => false end.

Definition pylit (strlit : bool) (v : val) : sexpr :=
  match v with VStr s => if strlit then SLit v else SCol s | _ => SLit v end.

(** does the index expression contain a numeric literal (what element_at_using_brackets looks for) *)
Definition is_numval (v : val) : bool := match v with VInt _ | VRat _ _ => true | _ => false end.
Fixpoint has_numlit (e : sexpr) : bool :=
  match e with
  | SCol _ => false
  | SLit v => is_numval v
  | SParen e | SNot e | SNeg e | SIsNull e | SCast e _ => has_numlit e
  | SIn e vs => has_numlit e || existsb is_numval vs
  | SBin _ a b | SCall2 _ a b | SBracket a b => has_numlit a || has_numlit b
  | SBetween a b d | SCall3 _ a b d => has_numlit a || has_numlit b || has_numlit d
  | SCase bs => has_numlitb bs
  end
with has_numlitb (bs : branches) : bool :=
  match bs with
  | BEnd => false
  | BElse e => has_numlit e
  | BWhen c v r => has_numlit c || has_numlit v || has_numlitb r
  end.
Definition getitem_off (c : cfg) (i : sexpr) : Z :=
  if has_numlit i then c_getitem_numkey_off c else c_getitem_col_off c.
Definition offset_key (z : Z) (i : sexpr) : sexpr :=
  if z =? 0 then i
  else if z <? 0 then SParen (SBin Sub i (SLit (VInt (- z))))
  else SParen (SBin Add i (SLit (VInt z))).

Fixpoint build (c : cfg) (t : uexpr) : sexpr :=
  match t with
  | UCol n => SCol n
  | ULit v => SLit v
  | UPy v => SLit v
  | UBin o a b =>
      let bf := c_fwd c o in
      mkbin bf (build c a) (match b with UPy v => pylit (bf_strlit bf) v | _ => build c b end)
  | URBin o v b => let bf := c_rev c o in mkbin bf (build c b) (pylit (bf_strlit bf) v)
  | UNse a b =>
      let bf := c_nse c in
      mkbin bf (build c a) (match b with UPy v => pylit (bf_strlit bf) v | _ => build c b end)
  | UNeg a => mkun (c_neg c) (build c a)
  | UNot a => mkun (c_not c) (build c a)
  | UIsNull a => SIsNull (wrap (wb (c_pred_opwrap c)) (build c a))
  | UIsNotNull a =>
      let x := SIsNull (wrap (wb (c_pred_opwrap c)) (build c a)) in
      SNot (if c_isnotnull_paren c then SParen x else x)
  | UIsin a vs => SIn (wrap (wb (c_pred_opwrap c)) (build c a)) vs
  | UBetween a lo hi =>
      let w := wb (c_pred_opwrap c) in SBetween (wrap w (build c a)) (wrap w (build c lo)) (wrap w (build c hi))
  | ULike a p => SBin (c_like_cls c) (wrap (wb (c_pred_opwrap c)) (build c a)) (SLit (VStr p))
  | UILike a p => SBin (c_ilike_cls c) (wrap (wb (c_pred_opwrap c)) (build c a)) (SLit (VStr p))
  | URlike a p => SCall2 (c_rlike_fn c) (build c a) (SLit (VStr p))
  | UStartsWith a b => SCall2 (c_startswith_fn c) (build c a) (build c b)
  | UEndsWith a b => SCall2 (c_endswith_fn c) (build c a) (build c b)
  | USubstr a p l =>
      SCall3 (c_substr_fn c) (build c a)
        (if c_substr_zero_as_one c && is_zero_start p then SLit (VInt 1) else build c p) (build c l)
  | UWhen bs => SCase (buildb c bs)
  | UCast a ty => SCast (build c a) ty
  | UAlias a _ => build c a
  | UGetItemLit a k => SBracket (build c a) (offset_key (c_getitem_lit_off c) (SLit (VInt (Z.of_nat k))))
  | UGetItemCol a i =>
      SBracket (build c a) (offset_key (getitem_off c (build c i)) (build c i))
  | UExpr e => e
  end
with buildb (c : cfg) (bs : ubranches) : branches :=
  match bs with
  | UBEnd => BEnd
  | UBElse e => BElse (build c e)
  | UBWhen cd v r => BWhen (build c cd) (build c v) (buildb c r)
  end.

(** ---- the tree the user's expression denotes (PySpark's reading), parenthesis-free ------------- *)
Fixpoint denote (t : uexpr) : sexpr :=
  match t with
  | UCol n => SCol n
  | ULit v | UPy v => SLit v
  | UBin o a b => SBin (uop_bop o) (denote a) (denote b)
  | URBin o v b => SBin (uop_bop o) (SLit v) (denote b)
  | UNse a b => SBin Nse (denote a) (denote b)
  | UNeg a => SNeg (denote a)
  | UNot a => SNot (denote a)
  | UIsNull a => SIsNull (denote a)
  | UIsNotNull a => SNot (SIsNull (denote a))
  | UIsin a vs => SIn (denote a) vs
  | UBetween a lo hi => SBetween (denote a) (denote lo) (denote hi)
  | ULike a p => SBin Like (denote a) (SLit (VStr p))
  | UILike a p => SBin ILike (denote a) (SLit (VStr p))
  | URlike a p => SCall2 "REGEXP_MATCHES" (denote a) (SLit (VStr p))
  | UStartsWith a b => SCall2 "STARTS_WITH" (denote a) (denote b)
  | UEndsWith a b => SCall2 "ENDS_WITH" (denote a) (denote b)
  | USubstr a p l => SCall3 "SUBSTRING" (denote a) (if is_zero_start p then SLit (VInt 1) else denote p) (denote l)
  | UWhen bs => SCase (denoteb bs)
  | UCast a ty => SCast (denote a) ty
  | UAlias a _ => denote a
  | UGetItemLit a k => SBracket (denote a) (SBin Add (SLit (VInt (Z.of_nat k))) (SLit (VInt 1)))
  | UGetItemCol a i => SBracket (denote a) (SBin Add (denote i) (SLit (VInt 1)))
  | UExpr e => strip e
  end
with denoteb (bs : ubranches) : branches :=
  match bs with
  | UBEnd => BEnd
  | UBElse e => BElse (denote e)
  | UBWhen c v r => BWhen (denote c) (denote v) (denoteb r)
  end.

(** ---- PySpark's evaluation of the user's tree (Spark 3.5, non-ANSI) --------------------------- *)
Definition index0 (l : list val) (k : Z) : val := if 0 <=? k then nth (Z.to_nat k) l VNull else VNull.

Fixpoint ubase (t : uexpr) : option string :=
  match t with UCol n => Some n | UAlias a _ => ubase a | UExpr e => abase e | _ => None end.

Fixpoint ueval (en : env) (t : uexpr) : val :=
  match t with
  | UCol n => match lookup (e_cols en) (e_row en) n with Some v => v | None => VNull end
  | ULit v | UPy v => v
  | UBin o a b => bin3 (uop_bop o) (ueval en a) (ueval en b)
  | URBin o v b => bin3 (uop_bop o) v (ueval en b)
  | UNse a b => nse (ueval en a) (ueval en b)
  | UNeg a => neg3 (ueval en a)
  | UNot a => not3v (ueval en a)
  | UIsNull a => VBool (match ueval en a with VNull => true | _ => false end)
  | UIsNotNull a => VBool (match ueval en a with VNull => false | _ => true end)
  | UIsin a vs => in3 (ueval en a) vs
  | UBetween a lo hi =>
      let x := ueval en a in
      val_of_tv (and3 (tv_of_val (cmp3 Ge x (ueval en lo))) (tv_of_val (cmp3 Le x (ueval en hi))))
  | ULike a p => str2 (fun s q => like_aux q s) (ueval en a) (VStr p)
  | UILike a p => str2 (fun s q => like_aux (lower q) (lower s)) (ueval en a) (VStr p)
  | URlike a p => str2 (fun s q => contains q s) (ueval en a) (VStr p)
  | UStartsWith a b => str2 (fun s q => is_prefix q s) (ueval en a) (ueval en b)
  | UEndsWith a b => str2 (fun s q => is_suffix q s) (ueval en a) (ueval en b)
  | USubstr a p l =>
      substr3 substr_spark (ueval en a) (ueval en p) (ueval en l)
  | UWhen bs => uevalb en bs
  | UCast a ty => cast_spark ty (ueval en a)
  | UAlias a _ => ueval en a
  | UGetItemLit a k =>
      match ubase a with
      | Some n => match arr_lookup (e_arrs en) n with Some l => index0 l (Z.of_nat k) | None => VNull end
      | None => VNull
      end
  | UGetItemCol a i =>
      match ubase a, ueval en i with
      | Some n, VInt k => match arr_lookup (e_arrs en) n with Some l => index0 l k | None => VNull end
      | _, _ => VNull
      end
  | UExpr e => seval en e        (* the text means what its parse tree means *)
  end
with uevalb (en : env) (bs : ubranches) : val :=
  match bs with
  | UBEnd => VNull
  | UBElse e => ueval en e
  | UBWhen c v r => match ueval en c with VBool true => ueval en v | _ => uevalb en r end
  end.

(** rows on which a Column index is negative are outside the domain (Spark: NULL; engines: from the end) *)
Fixpoint udom (en : env) (t : uexpr) : bool :=
  match t with
  | UCol _ | ULit _ | UPy _ | UExpr _ => true
  | UBin _ a b | UNse a b | UStartsWith a b | UEndsWith a b => udom en a && udom en b
  | URBin _ _ a | UNeg a | UNot a | UIsNull a | UIsNotNull a | UIsin a _ | ULike a _ | UILike a _
  | URlike a _ | UCast a _ | UAlias a _ | UGetItemLit a _ => udom en a
  | UBetween a b c | USubstr a b c => udom en a && udom en b && udom en c
  | UWhen bs => udomb en bs
  | UGetItemCol a i => udom en a && udom en i && match ueval en i with VInt k => 0 <=? k | _ => true end
  end
with udomb (en : env) (bs : ubranches) : bool :=
  match bs with
  | UBEnd => true
  | UBElse e => udom en e
  | UBWhen c v r => udom en c && udom en v && udomb en r
  end.

(** rows on which the ENGINE's primitive and SPARK's primitive give the same answer at every node where the two are
    defined differently (substring position 0; a fractional value cast to an integer type).  Outside it the
    implementation may differ from PySpark even when the tree is preserved: such rows are not excluded from the
    property, they are refutation material. *)
Fixpoint agree (en : env) (t : uexpr) : bool :=
  match t with
  | UCol _ | ULit _ | UPy _ | UExpr _ => true
  | UBin _ a b | UNse a b | UStartsWith a b | UEndsWith a b | UGetItemCol a b => agree en a && agree en b
  | URBin _ _ a | UNeg a | UNot a | UIsNull a | UIsNotNull a | UIsin a _ | ULike a _ | UILike a _
  | URlike a _ | UAlias a _ | UGetItemLit a _ => agree en a
  | UCast a ty => agree en a && val_eqb (cast_to ty (ueval en a)) (cast_spark ty (ueval en a))
  | UBetween a b c => agree en a && agree en b && agree en c
  | USubstr a b c => agree en a && agree en b && agree en c &&
      val_eqb (substr3 substr_duck (ueval en a) (if is_zero_start b then VInt 1 else ueval en b) (ueval en c))
              (substr3 substr_spark (ueval en a) (ueval en b) (ueval en c))
  | UWhen bs => agreeb en bs
  end
with agreeb (en : env) (bs : ubranches) : bool :=
  match bs with
  | UBEnd => true
  | UBElse e => agree en e
  | UBWhen c v r => agree en c && agree en v && agreeb en r
  end.

(** ---- value: the intended tree, evaluated by SQL's 3VL, is PySpark's value -------------------- *)
Lemma index_shift l k : 0 <= k -> index1 l (k + 1) = index0 l k.
Proof.
  intro H. unfold index1, index0.
  destruct (1 <=? k + 1) eqn:E1; [|apply Z.leb_gt in E1; lia].
  destruct (0 <=? k) eqn:E2; [|apply Z.leb_gt in E2; lia].
  replace (k + 1 - 1) with k by lia. reflexivity.
Qed.

Lemma abase_denote t : abase (denote t) = ubase t.
Proof. induction t; cbn [denote abase ubase]; auto. apply abase_strip. Qed.

Lemma value_mut :
  (forall t en, udom en t = true -> agree en t = true -> seval en (denote t) = ueval en t) /\
  (forall bs en, udomb en bs = true -> agreeb en bs = true -> sevalb en (denoteb bs) = uevalb en bs).
Proof.
  apply uexpr_ubranches_ind; intros; cbn [denote denoteb seval sevalb ueval uevalb udom udomb agree agreeb] in *;
    repeat match goal with
           | H : _ && _ = true |- _ => apply andb_prop in H; destruct H
           end;
    repeat match goal with
           | IH : forall en, udom en ?t = true -> agree en ?t = true -> _, D : udom ?en ?t = true, A : agree ?en ?t = true |- _ =>
               rewrite (IH en D A); clear IH
           | IH : forall en, udomb en ?t = true -> agreeb en ?t = true -> _, D : udomb ?en ?t = true, A : agreeb ?en ?t = true |- _ =>
               rewrite (IH en D A); clear IH
           end; try reflexivity;
    try (match goal with E : val_eqb _ _ = true |- _ => apply val_eqb_eq in E end; cbn [call3 String.eqb Ascii.eqb Bool.eqb]; assumption).
  - (* isNotNull *) destruct (ueval en a); reflexivity.
  - (* substr *)
    destruct (is_zero_start p);
      [| match goal with IH : forall en, udom en p = true -> _, D : udom _ p = true, A : agree _ p = true |- _ =>
           rewrite (IH _ D A) end];
      cbn [seval]; match goal with E : val_eqb _ _ = true |- _ => apply val_eqb_eq in E end;
      cbn [call3 String.eqb Ascii.eqb Bool.eqb]; assumption.
  - (* getItem literal *) rewrite abase_denote. destruct (ubase a); [|reflexivity].
    cbn [bin3 arith num_of is_int andb mk_num].
    destruct (arr_lookup (e_arrs en) s); [|reflexivity].
    replace (Z.of_nat k * Z.pos 1 + 1 * Z.pos 1) with (Z.of_nat k + 1) by lia. apply index_shift. lia.
  - (* getItem column *) rewrite abase_denote. destruct (ubase a); [|reflexivity].
    destruct (ueval en c) eqn:E; cbn [bin3 arith num_of is_int andb mk_num]; try reflexivity.
    destruct (arr_lookup (e_arrs en) s); [|reflexivity].
    replace (z * Z.pos 1 + 1 * Z.pos 1) with (z + 1) by lia. apply index_shift. apply Z.leb_le. assumption.
  - (* F.expr *) apply (proj1 seval_strip).
Qed.
