(** C05 -- the class of user trees sqlframe parenthesises correctly, and the two facts that make the
    round trip apply to it: [build_shape] (the built tree, stripped of parentheses, is the intended tree)
    and [build_safe] (every unparenthesised edge of the built tree is precedence-safe). *)
From SF Require Export C05.Build C05.RoundTrip.
From Coq Require Import Arith Lia.

Definition bop_eqb (a b : bop) : bool :=
  match a, b with
  | Add, Add | Sub, Sub | Mul, Mul | Div, Div | Mod, Mod | Eq, Eq | Neq, Neq | Lt, Lt | Le, Le
  | Gt, Gt | Ge, Ge | And, And | Or, Or | Nse, Nse | Like, Like | ILike, ILike => true
  | _, _ => false
  end.
Lemma bop_eqb_eq a b : bop_eqb a b = true -> a = b.
Proof. destruct a, b; simpl; intro H; try discriminate; reflexivity. Qed.

(** ---- decidable side condition on the generated facts ------------------------------------------ *)
Definition bf_ok (left : bool) (cls : bop) (need_paren : bool) (bf : binfact) : bool :=
  bop_eqb (bf_cls bf) cls && Bool.eqb (bf_self_left bf) left && bf_strlit bf && implb need_paren (bf_paren bf).

Definition fwd_ok (c : cfg) : bool :=
  forallb (fun o => bf_ok true (uop_bop o) (is_arith o || is_logic o) (c_fwd c o)) all_uop.
Definition rev_ok (c : cfg) : bool :=
  forallb (fun o => if has_reflected o then bf_ok false (uop_bop o) (is_arith o) (c_rev c o) else true) all_uop.
Definition un_ok (c : cfg) : bool :=
  negb (uf_not (c_neg c)) && uf_paren (c_neg c) && uf_not (c_not c) && uf_paren (c_not c).
Definition names_ok (c : cfg) : bool :=
  bop_eqb (c_like_cls c) Like && bop_eqb (c_ilike_cls c) ILike &&
  String.eqb (c_rlike_fn c) "REGEXP_MATCHES" && String.eqb (c_startswith_fn c) "STARTS_WITH" &&
  String.eqb (c_substr_fn c) "SUBSTRING" && Z.eqb (c_getitem_lit_off c) 1.

Definition cfg_ok (c : cfg) : bool :=
  fwd_ok c && rev_ok c && bf_ok true Nse false (c_nse c) && un_ok c && c_shapes_ok c && names_ok c.

(** ---- the class -------------------------------------------------------------------------------- *)
Definition is_cmp (o : uop) : bool := negb (is_arith o) && negb (is_logic o).
Definition is_col (t : uexpr) : bool := match t with UCol _ => true | _ => false end.
(** between's bounds are taken with `.expression`, which keeps an Alias
    node (the emitted "x AS z" inside an expression is not in the modelled fragment): excluded from the class *)
(** F.when(...) results carry an automatic alias (the @meta decorator), so they are excluded there as well *)
Definition noalias (t : uexpr) : bool := match t with UAlias _ _ | UWhen _ => false | _ => true end.

(** results that are closed on both sides: atoms, parenthesised results, -(x), calls, CASE, CAST, items *)
Fixpoint closed (t : uexpr) : bool :=
  match t with
  | UCol _ | ULit _ | UPy _ => true
  | UBin o _ _ => is_arith o || is_logic o
  | URBin o _ _ => is_arith o
  | UNeg _ | URlike _ _ | UStartsWith _ _ | UEndsWith _ _ | USubstr _ _ _ | UWhen _ | UCast _ _
  | UGetItemLit _ _ | UGetItemCol _ _ => true
  | UAlias a _ => closed a
  | UExpr e => bclosed e
  | _ => false
  end.

(** what may stand directly under & and |: closed results and the boolean operators written forward *)
Fixpoint andor_ok (t : uexpr) : bool :=
  match t with
  | UBin _ _ _ | UNse _ _ | UNot _ | UIsNull _ | UIsNotNull _ | UIsin _ _ | UBetween _ _ _
  | ULike _ _ | UILike _ _ => true
  | UAlias a _ => andor_ok a
  | _ => closed t
  end.

(** sqlglot's exp.cast returns its argument unchanged when it already is a CAST to the same type: such
    (idempotent) double casts are not in the modelled fragment *)
Fixpoint same_cast (ty : string) (t : uexpr) : bool :=
  match t with UCast _ ty' => String.eqb ty ty' | UAlias a _ => same_cast ty a | _ => false end.

Fixpoint in_class (c : cfg) (t : uexpr) : bool :=
  match t with
  | UCol _ | ULit _ | UPy _ => true
  | UBin o a b =>
      in_class c a && in_class c b &&
      (if is_logic o then andor_ok a && andor_ok b
       else (is_wall (bf_opwrap (c_fwd c o)) || closed a) && (is_wall (bf_opwrap (c_fwd c o)) || closed b))
  | URBin o _ b => has_reflected o && in_class c b &&
                   (if is_logic o then andor_ok b else is_wall (bf_opwrap (c_rev c o)) || closed b)
  | UNse a b => in_class c a && in_class c b && (is_wall (bf_opwrap (c_nse c)) || closed a) && (is_wall (bf_opwrap (c_nse c)) || closed b)
  | UNeg a | UNot a => in_class c a
  | UIsNull a | UIsNotNull a | UIsin a _ | ULike a _ | UILike a _ => in_class c a && (c_pred_opwrap c || closed a)
  | UBetween a lo hi => in_class c a && in_class c lo && in_class c hi
                         && (c_pred_opwrap c || closed a) && (c_pred_opwrap c || closed lo) && (c_pred_opwrap c || closed hi)
                         && (c_between_unalias c || noalias lo) && (c_between_unalias c || noalias hi)
  | URlike a _ | UAlias a _ => in_class c a
  | UCast a ty => in_class c a && negb (same_cast ty a)
  | UStartsWith a b => in_class c a && in_class c b
  | UEndsWith a b => in_class c a && in_class c b && String.eqb (c_endswith_fn c) "ENDS_WITH"
  | USubstr a p l => in_class c a && in_class c p && in_class c l && (c_substr_zero_as_one c || negb (is_zero_start p))
  | UWhen bs => in_classb c bs
  | UExpr e => safe 1 false e && known e && (bclosed e || is_open e)
  | UGetItemLit a _ => is_col a
  | UGetItemCol a i => is_col a && in_class c i && Z.eqb (getitem_off c (build c i)) 1 && closed i
  end
with in_classb (c : cfg) (bs : ubranches) : bool :=
  match bs with
  | UBEnd => true
  | UBElse e => in_class c e
  | UBWhen cd v r => in_class c cd && in_class c v && in_classb c r
  end.

(** ---- reading the side condition -------------------------------------------------------------- *)
Ltac bsplit :=
  repeat match goal with
         | H : _ && _ = true |- _ => apply andb_prop in H; destruct H
         end.

Lemma bf_ok_inv left cls np bf : bf_ok left cls np bf = true ->
  bf_cls bf = cls /\ bf_self_left bf = left /\ bf_strlit bf = true /\ (np = true -> bf_paren bf = true).
Proof.
  unfold bf_ok. intro H. bsplit. repeat split.
  - apply bop_eqb_eq; assumption.
  - apply Bool.eqb_prop; assumption.
  - assumption.
  - intro E; subst np. simpl in H0. assumption.
Qed.

Lemma all_uop_in o : In o all_uop.
Proof. destruct o; simpl; tauto. Qed.

Section WithCfg.
Variable c : cfg.
Hypothesis Hok : cfg_ok c = true.

Lemma ok_fwd o : bf_cls (c_fwd c o) = uop_bop o /\ bf_self_left (c_fwd c o) = true /\
  bf_strlit (c_fwd c o) = true /\ (is_arith o || is_logic o = true -> bf_paren (c_fwd c o) = true).
Proof.
  unfold cfg_ok in Hok. bsplit. unfold fwd_ok in H. rewrite forallb_forall in H.
  apply bf_ok_inv. apply H. apply all_uop_in.
Qed.

Lemma ok_rev o : has_reflected o = true -> bf_cls (c_rev c o) = uop_bop o /\ bf_self_left (c_rev c o) = false /\
  bf_strlit (c_rev c o) = true /\ (is_arith o = true -> bf_paren (c_rev c o) = true).
Proof.
  intro Hr. unfold cfg_ok in Hok. bsplit. unfold rev_ok in H4. rewrite forallb_forall in H4.
  specialize (H4 o (all_uop_in o)). rewrite Hr in H4. apply bf_ok_inv. exact H4.
Qed.

Lemma ok_nse : bf_cls (c_nse c) = Nse /\ bf_self_left (c_nse c) = true /\ bf_strlit (c_nse c) = true.
Proof.
  unfold cfg_ok in Hok. bsplit. apply bf_ok_inv in H3. tauto.
Qed.

Lemma ok_un : c_neg c = mkUF false true /\ c_not c = mkUF true true.
Proof.
  unfold cfg_ok in Hok. bsplit. unfold un_ok in H2. bsplit.
  destruct (c_neg c) as [n1 p1], (c_not c) as [n2 p2]. simpl in *.
  apply negb_true_iff in H2. subst. split; reflexivity.
Qed.

Lemma ok_names : c_like_cls c = Like /\ c_ilike_cls c = ILike /\ c_rlike_fn c = "REGEXP_MATCHES"%string /\
  c_startswith_fn c = "STARTS_WITH"%string /\ c_substr_fn c = "SUBSTRING"%string /\ c_getitem_lit_off c = 1%Z.
Proof.
  unfold cfg_ok in Hok. bsplit. unfold names_ok in H0. bsplit.
  repeat split; try (apply bop_eqb_eq; assumption); try (apply String.eqb_eq; assumption).
  apply Z.eqb_eq; assumption.
Qed.

Lemma pylit_true v : pylit true v = SLit v.
Proof. destruct v; reflexivity. Qed.

Lemma operand_eq b : (match b with UPy v => pylit true v | _ => build c b end) = build c b.
Proof. destruct b; try reflexivity. cbn [build]. apply pylit_true. Qed.

(** ---- BUILD_SHAPE: stripped of its parentheses, the built tree is the intended tree ------------- *)
Lemma strip_wrap w e : strip (wrap w e) = strip e.
Proof. unfold wrap. destruct w; try destruct (is_open e); try destruct (is_open_conn e); reflexivity. Qed.

Lemma strip_mkbin bf x y : strip (mkbin bf x y) =
  if bf_self_left bf then SBin (bf_cls bf) (strip x) (strip y) else SBin (bf_cls bf) (strip y) (strip x).
Proof. unfold mkbin. destruct (bf_paren bf), (bf_self_left bf); cbn [strip]; rewrite !strip_wrap; reflexivity. Qed.

Lemma build_shape_mut :
  (forall t, in_class c t = true -> strip (build c t) = denote t) /\
  (forall bs, in_classb c bs = true -> stripb (buildb c bs) = denoteb bs).
Proof.
  destruct ok_un as [Eneg Enot]. destruct ok_names as (EL & EIL & ER & ES & ESub & EG).
  destruct ok_nse as (N1 & N2 & N3).
  apply uexpr_ubranches_ind; intros; cbn [in_class in_classb build buildb denote denoteb] in *; bsplit;
    try reflexivity;
    repeat match goal with
           | IH : in_class c ?t = true -> _, D : in_class c ?t = true |- _ => specialize (IH D)
           | IH : in_classb c ?t = true -> _, D : in_classb c ?t = true |- _ => specialize (IH D)
           end.
  - (* UBin *) destruct (ok_fwd o) as (F1 & F2 & F3 & _).
    rewrite F3, operand_eq, strip_mkbin, F1, F2. congruence.
  - (* URBin *) destruct (ok_rev o ltac:(assumption)) as (F1 & F2 & F3 & _).
    rewrite F3, pylit_true, strip_mkbin, F1, F2. cbn [strip]. congruence.
  - (* UNse *) rewrite N3, operand_eq, strip_mkbin, N1, N2. congruence.
  - (* UNeg *) rewrite Eneg. cbn [mkun uf_paren uf_not strip]. congruence.
  - (* UNot *) rewrite Enot. cbn [mkun uf_paren uf_not strip]. congruence.
  - (* UIsNull *) cbn [strip]. rewrite ?strip_wrap. congruence.
  - (* UIsNotNull *) destruct (c_isnotnull_paren c); cbn [strip]; rewrite ?strip_wrap; congruence.
  - (* UIsin *) cbn [strip]. rewrite ?strip_wrap. congruence.
  - (* UBetween *) cbn [strip]. rewrite ?strip_wrap. congruence.
  - (* ULike *) rewrite EL. cbn [strip]. rewrite ?strip_wrap. congruence.
  - (* UILike *) rewrite EIL. cbn [strip]. rewrite ?strip_wrap. congruence.
  - (* URlike *) rewrite ER. cbn [strip]. congruence.
  - (* UStartsWith *) rewrite ES. cbn [strip]. congruence.
  - (* UEndsWith *) match goal with E : String.eqb _ _ = true |- _ => apply String.eqb_eq in E; rewrite E end.
    cbn [strip]. congruence.
  - (* USubstr *) rewrite ESub.
    destruct (is_zero_start p) eqn:Zp.
    + match goal with E : _ || negb true = true |- _ => cbn [negb] in E; rewrite orb_false_r in E; rewrite E end.
      cbn [andb strip]. congruence.
    + rewrite andb_false_r. cbn [strip]. congruence.
  - (* UWhen *) cbn [strip]. congruence.
  - (* UCast *) cbn [strip]. congruence.
  - (* UAlias *) auto.
  - (* UGetItemLit *) destruct a; try discriminate. rewrite EG. reflexivity.
  - (* UGetItemCol *) destruct a; try discriminate.
    match goal with E : (_ =? _)%Z = true |- _ => apply Z.eqb_eq in E; rewrite E end.
    unfold offset_key. cbn [Z.eqb Z.ltb Z.compare Pos.compare strip build denote]. congruence.
  - (* UBElse *) cbn [stripb]. congruence.
  - (* UBWhen *) cbn [stripb]. congruence.
Qed.

End WithCfg.
