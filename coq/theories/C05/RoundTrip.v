(** C05 -- the round-trip theorem: for every tree, [safe] implies that DuckDB's reading of the
    printed tokens is that tree (all trees, all sizes). *)
From SF Require Export C05.ParseProof.
From Coq Require Import Arith Lia.
Open Scope nat_scope.

Lemma ltb_false a b : b <= a -> (a <? b) = false.
Proof. intro H. apply Nat.ltb_ge. exact H. Qed.

Ltac start :=
  intros m s bm rest f e' r' Hs Hm Hsafe Hfol Hloop;
  pose proof (ploop_fuel _ _ _ _ _ _ _ _ Hloop) as Hf;
  cbn [safe rstop print sz] in *;
  repeat match goal with
         | H : _ && _ = true |- _ => apply andb_prop in H; destruct H
         | H : negb ?b = true |- _ => apply negb_true_iff in H; subst b
         | H : (_ <=? _) = true |- _ => apply Nat.leb_le in H
         | H : (_ <? _) = true |- _ => apply Nat.ltb_lt in H
         end.

Ltac rw_allowed := match goal with H : allowed _ _ = true |- _ => rewrite H end.
Ltac finish_loop Hloop := cbv beta match; eapply ploop_mono; [|exact Hloop]; lia.

Lemma P_col n : P (SCol n).
Proof.
  start. replace (f + 2) with (S (S f)) by lia. rewrite pexpr_S, poperand_S. cbn [app].
  finish_loop Hloop.
Qed.

Lemma P_lit v : P (SLit v).
Proof.
  start. replace (f + 2) with (S (S f)) by lia. rewrite pexpr_S, poperand_S. cbn [app].
  finish_loop Hloop.
Qed.

Lemma P_paren e : P e -> P (SParen e).
Proof.
  intro IH. start. cbn [app]. rewrite <- app_assoc. cbn [app].
  replace (f + (sz e + 3)) with (S (S (S f + sz e))) by lia.
  rewrite pexpr_S, poperand_S. rewrite (delim e IH TRParen rest f) by auto.
  finish_loop Hloop.
Qed.

Lemma P_bin o a b : P a -> P b -> P (SBin o a b).
Proof.
  intros IHa IHb. start. rewrite <- app_assoc. cbn [app].
  destruct (rs_bounds o) as (B1 & B2 & B3 & B4).
  replace (f + (sz a + sz b + 2)) with ((f + sz b + 2) + sz a) by lia.
  apply IHa; auto.
  - cbn [follow lbp]. rw_allowed. apply Nat.ltb_lt. assumption.
  - replace (f + sz b + 2) with (S (S f + sz b)) by lia. rewrite ploop_S. cbv zeta. cbn [lbp].
    rw_allowed. rewrite !ltb_false by lia.
    rewrite (whole b IHb (rm o) (rs o) bm rest f); auto.
    + finish_loop Hloop.
    + eapply follow_le; [|exact Hfol]. lia.
    + eapply follow_le; [|exact Hfol]. lia.
Qed.

Lemma P_not e : P e -> P (SNot e).
Proof.
  intro IH. start. cbn [app]. destruct f as [|f0]; [lia|].
  replace (S f0 + (sz e + 2)) with (S (S (S f0 + sz e))) by lia.
  rewrite pexpr_S, poperand_S.
  rewrite (whole e IH L_NOT L_NOT false rest f0); auto; unfold L_NOT in *; try lia.
  - finish_loop Hloop.
  - eapply follow_le; [|exact Hfol]. lia.
  - eapply follow_le; [|exact Hfol]. lia.
Qed.

Lemma P_neg e : P e -> P (SNeg e).
Proof.
  intro IH. start. cbn [app]. destruct f as [|f0]; [lia|].
  replace (S f0 + (sz e + 2)) with (S (S (S f0 + sz e))) by lia.
  rewrite pexpr_S, poperand_S.
  rewrite (whole e IH L_UMINUS L_UMINUS bm rest f0); auto; unfold L_UMINUS in *; try lia.
  - finish_loop Hloop.
  - eapply follow_le; [|exact Hfol]. lia.
  - eapply follow_le; [|exact Hfol]. lia.
Qed.

Lemma P_isnull e : P e -> P (SIsNull e).
Proof.
  intro IH. start. rewrite <- app_assoc. cbn [app].
  replace (f + (sz e + 2)) with ((f + 2) + sz e) by lia.
  apply IH; auto.
  - cbn [follow lbp]. apply Nat.ltb_lt. assumption.
  - replace (f + 2) with (S (S f)) by lia. rewrite ploop_S. cbv zeta. cbn [lbp].
    unfold L_IS in *. rewrite !ltb_false by lia. finish_loop Hloop.
Qed.

Lemma P_in e vs : P e -> P (SIn e vs).
Proof.
  intro IH. start. rewrite <- app_assoc. cbn [app].
  replace (f + (sz e + 2)) with ((f + 2) + sz e) by lia.
  apply IH; auto.
  - cbn [follow lbp]. apply Nat.ltb_lt. assumption.
  - replace (f + 2) with (S (S f)) by lia. rewrite ploop_S. cbv zeta. cbn [lbp].
    unfold L_BIL in *. rewrite !ltb_false by lia. finish_loop Hloop.
Qed.

Lemma P_between e lo hi : P e -> P lo -> P hi -> P (SBetween e lo hi).
Proof.
  intros IHe IHlo IHhi. start. rewrite <- !app_assoc. cbn [app]. rewrite <- !app_assoc. cbn [app].
  replace (f + (sz e + sz lo + sz hi + 3)) with ((f + sz lo + sz hi + 3) + sz e) by lia.
  apply IHe; auto.
  - cbn [follow lbp]. apply Nat.ltb_lt. assumption.
  - replace (f + sz lo + sz hi + 3) with (S (f + sz lo + sz hi + 2)) by lia.
    rewrite ploop_S. cbv zeta. cbn [lbp]. unfold L_BIL in *. rewrite !ltb_false by lia.
    assert (E1 : pexpr (f + sz lo + sz hi + 2) 1 1 true (print lo ++ TOp And :: print hi ++ rest)
                 = ROk lo (TOp And :: print hi ++ rest)).
    { apply pexpr_mono with (f := S f + sz lo); [lia|].
      apply (whole lo IHlo 1 1 true); auto.
      apply follow_term; [reflexivity|]. pose proof (rstop_ge lo). lia. }
    rewrite E1.
    assert (E2 : pexpr (f + sz lo + sz hi + 2) 7 6 false (print hi ++ rest) = ROk hi rest).
    { apply pexpr_mono with (f := S f + sz hi); [lia|].
      apply (whole hi IHhi 7 6 false); auto; try lia.
      - eapply follow_le; [|exact Hfol]. lia.
      - eapply follow_le; [|exact Hfol]. lia. }
    rewrite E2. finish_loop Hloop.
Qed.

Lemma P_case bs : Pb bs -> P (SCase bs).
Proof.
  intro IH. start. cbn [app].
  replace (f + (szb bs + 2)) with (S (S (f + szb bs))) by lia.
  rewrite pexpr_S, poperand_S. rewrite IH by assumption. finish_loop Hloop.
Qed.

Lemma P_cast e ty : P e -> P (SCast e ty).
Proof.
  intro IH. start. cbn [app]. rewrite <- app_assoc. cbn [app].
  replace (f + (sz e + 3)) with (S (S (S f + sz e))) by lia.
  rewrite pexpr_S, poperand_S. rewrite (delim e IH (TAsType ty) rest f) by auto.
  finish_loop Hloop.
Qed.

Lemma delim_mono e : P e -> forall t rest f g, lbp false t = 0 -> safe 1 false e = true ->
  S f + sz e <= g -> pexpr g 1 1 false (print e ++ t :: rest) = ROk e (t :: rest).
Proof.
  intros HP t rest f g Ht Hs Hle. apply pexpr_mono with (f := S f + sz e); [exact Hle|].
  apply delim; auto.
Qed.

Lemma P_call2 g a b : P a -> P b -> P (SCall2 g a b).
Proof.
  intros IHa IHb. start. cbn [app]. rewrite <- !app_assoc. cbn [app]. rewrite <- !app_assoc. cbn [app].
  replace (f + (sz a + sz b + 4)) with (S (S (f + sz a + sz b + 2))) by lia.
  rewrite pexpr_S, poperand_S.
  rewrite (delim_mono a IHa TComma _ f) by (auto; lia).
  rewrite (delim_mono b IHb TRParen _ f) by (auto; lia).
  finish_loop Hloop.
Qed.

Lemma P_call3 g a b c : P a -> P b -> P c -> P (SCall3 g a b c).
Proof.
  intros IHa IHb IHc. start. cbn [app]. rewrite <- !app_assoc. cbn [app]. rewrite <- !app_assoc. cbn [app].
  rewrite <- !app_assoc. cbn [app].
  replace (f + (sz a + sz b + sz c + 5)) with (S (S (f + sz a + sz b + sz c + 3))) by lia.
  rewrite pexpr_S, poperand_S.
  rewrite (delim_mono a IHa TComma _ f) by (auto; lia).
  rewrite (delim_mono b IHb TComma _ f) by (auto; lia).
  rewrite (delim_mono c IHc TRParen _ f) by (auto; lia).
  finish_loop Hloop.
Qed.

Lemma P_bracket e i : P e -> P i -> P (SBracket e i).
Proof.
  intros IHe IHi. start. rewrite <- !app_assoc. cbn [app]. rewrite <- !app_assoc. cbn [app].
  replace (f + (sz e + sz i + 3)) with ((f + sz i + 3) + sz e) by lia.
  apply IHe; auto.
  - cbn [follow lbp]. apply Nat.ltb_lt. assumption.
  - replace (f + sz i + 3) with (S (f + sz i + 2)) by lia.
    rewrite ploop_S. cbv zeta. cbn [lbp]. unfold L_BRACK in *. rewrite !ltb_false by lia.
    rewrite (delim_mono i IHi TRBrack _ f) by (auto; lia).
    finish_loop Hloop.
Qed.

Lemma printb_head bs : exists t tl, printb bs = t :: tl /\ lbp false t = 0.
Proof. destruct bs; cbn [printb]; eexists; eexists; split; reflexivity. Qed.

Lemma Pb_end : Pb BEnd.
Proof. intros rest f _. cbn [szb printb app]. replace (f + 2) with (S (S f)) by lia. reflexivity. Qed.

Lemma Pb_else e : P e -> Pb (BElse e).
Proof.
  intros IH rest f Hs. cbn [safeb szb printb app] in *. rewrite <- app_assoc. cbn [app].
  replace (f + (sz e + 3)) with (S (f + sz e + 2)) by lia. rewrite pcase_S.
  rewrite (delim_mono e IH TEnd _ f) by (auto; lia). reflexivity.
Qed.

Lemma Pb_when c v r : P c -> P v -> Pb r -> Pb (BWhen c v r).
Proof.
  intros IHc IHv IHr rest f Hs. cbn [safeb szb printb app] in *.
  apply andb_prop in Hs; destruct Hs as [Hs Hr]. apply andb_prop in Hs; destruct Hs as [Hc Hv].
  rewrite <- !app_assoc. cbn [app]. rewrite <- !app_assoc.
  replace (f + (sz c + sz v + szb r + 3)) with (S (f + sz c + sz v + szb r + 2)) by lia. rewrite pcase_S.
  rewrite (delim_mono c IHc TThen _ f) by (auto; lia).
  destruct (printb_head r) as (t & tl & Ep & Et).
  assert (E : pexpr (f + sz c + sz v + szb r + 2) 1 1 false (print v ++ printb r ++ rest)
              = ROk v (printb r ++ rest)).
  { rewrite Ep. cbn [app]. apply (delim_mono v IHv t _ f); auto. lia. }
  rewrite E.
  rewrite (pcase_mono (f + szb r) _ _ r rest) by (try lia; apply IHr; exact Hr).
  reflexivity.
Qed.

Lemma main : (forall e, P e) /\ (forall bs, Pb bs).
Proof.
  apply sexpr_branches_ind; intros.
  - apply P_col. - apply P_lit. - apply P_paren; auto. - apply P_bin; auto.
  - apply P_not; auto. - apply P_neg; auto. - apply P_isnull; auto. - apply P_in; auto.
  - apply P_between; auto. - apply P_case; auto. - apply P_cast; auto.
  - apply P_call2; auto. - apply P_call3; auto. - apply P_bracket; auto.
  - apply Pb_end. - apply Pb_else; auto. - apply Pb_when; auto.
Qed.

Lemma len_print :
  (forall e, sz e <= 2 * List.length (print e)) /\ (forall bs, szb bs <= 2 * List.length (printb bs)).
Proof.
  apply sexpr_branches_ind; intros; cbn [sz szb print printb List.length];
    repeat (rewrite ?app_length; cbn [List.length]); lia.
Qed.

(** ROUND TRIP: every safe tree is read back as itself -- all trees, all depths. *)
Theorem roundtrip : forall e, safe 1 false e = true -> reparse (print e) = ROk e [].
Proof.
  intros e Hs. unfold reparse.
  assert (E : pexpr (2 * List.length (print e) + 2) 1 1 false (print e) = ROk e []).
  { pose proof (proj1 len_print e) as L.
    apply pexpr_mono with (f := 1 + sz e); [lia|].
    rewrite <- (app_nil_r (print e)) at 1.
    apply (proj1 main e 1 1 false [] 1); auto. }
  rewrite E. reflexivity.
Qed.
