(** C05 -- BUILD_SAFE: for every tree of the class, the tree sqlframe builds is precedence-safe. *)
From SF Require Export C05.Class.
From Coq Require Import Arith Lia.
Open Scope nat_scope.

(** weakest operator on the left spine: the context [m] must not exceed it *)
Fixpoint lvl (e : sexpr) : nat :=
  match e with
  | SBin o a _ => Nat.min (blvl o) (lvl a)
  | SIsNull e => Nat.min L_IS (lvl e)
  | SIn e _ | SBetween e _ _ => Nat.min L_BIL (lvl e)
  | SBracket e _ => Nat.min L_BRACK (lvl e)
  | _ => L_CLOSED
  end.

Lemma safe_raise e : forall m0 m bm, safe m0 bm e = true -> m <= lvl e -> safe m bm e = true.
Proof.
  induction e; intros m0 m bm H L; cbn [safe lvl] in *; auto; bsplit;
    repeat (apply andb_true_intro; split); auto;
    try (apply Nat.leb_le; unfold L_IS, L_BIL, L_BRACK in *; lia);
    try (eapply IHe; [eassumption | lia]);
    try (eapply IHe1; [eassumption | lia]).
Qed.

Lemma bclosed_levels e : bclosed e = true -> 13 <= lvl e /\ 12 <= rstop e.
Proof.
  destruct e; cbn [bclosed]; intro H; try discriminate; cbn [lvl rstop]; unfold L_CLOSED, L_BRACK, L_UMINUS;
    try (split; lia).
  - destruct e; try discriminate. cbn [rstop]. unfold L_CLOSED. split; lia.
  - destruct e1; try discriminate. cbn [lvl]. unfold L_CLOSED. split; lia.
Qed.

Lemma bclosed_safe e : bclosed e = true -> safe 1 false e = true ->
  forall m bm, m <= 12 -> safe m bm e = true.
Proof.
  destruct e; cbn [bclosed]; intros H Hs m bm L; try discriminate; cbn [safe] in *; auto.
  - destruct e; try discriminate. cbn [safe] in *. assumption.
  - destruct e1; try discriminate. cbn [safe rstop] in *. bsplit.
    repeat (apply andb_true_intro; split); auto. apply Nat.leb_le. unfold L_BRACK. lia.
Qed.

Lemma rstop_le e : rstop e <= L_CLOSED.
Proof.
  induction e; cbn [rstop]; unfold L_CLOSED, L_NOT, L_UMINUS, L_BIL in *; try lia.
Qed.

Lemma bclosed_wrap_true e : bclosed e = true \/ is_open e = true -> bclosed (wrap WAll e) = true.
Proof.
  intros [H|H]; unfold wrap; destruct (is_open e) eqn:E; auto. discriminate.
Qed.

Lemma wrap_cases w e : wrap w e = e \/ wrap w e = SParen e.
Proof. unfold wrap. destruct w; try destruct (is_open e); try destruct (is_open_conn e); auto. Qed.

Lemma safe_wrap w e : safe 1 false e = true -> safe 1 false (wrap w e) = true.
Proof. intro H. destruct (wrap_cases w e) as [E|E]; rewrite E; auto. Qed.

Lemma wrap_keeps w e m : safe m false e = true -> safe 1 false e = true ->
  safe m false (wrap w e) = true /\ rstop e <= rstop (wrap w e) /\ lvl e <= lvl (wrap w e).
Proof.
  intros Hm H1. destruct (wrap_cases w e) as [E|E]; rewrite E.
  - repeat split; auto.
  - cbn [safe rstop lvl]. pose proof (rstop_le e). repeat split; auto.
    clear. induction e; cbn [lvl]; unfold L_CLOSED, L_IS, L_BIL, L_BRACK in *; lia.
Qed.

Lemma is_wall_wb b : is_wall (wb b) = b.
Proof. destruct b; reflexivity. Qed.

Section WithCfg.
Variable c : cfg.
Hypothesis Hok : cfg_ok c = true.

Lemma mkbin_paren bf x y : bf_paren bf = true -> bclosed (mkbin bf x y) = true.
Proof. intro H. unfold mkbin. rewrite H. reflexivity. Qed.

Lemma closed_bclosed t : closed t = true -> in_class c t = true -> bclosed (build c t) = true.
Proof.
  destruct (ok_un c Hok) as [Eneg Enot].
  induction t; cbn [closed in_class build]; intros Hc Hi; try discriminate; try reflexivity; bsplit.
  - destruct (ok_fwd c Hok o) as (_ & _ & _ & F4). apply mkbin_paren. apply F4. assumption.
  - destruct (ok_rev c Hok o ltac:(assumption)) as (_ & _ & _ & F4). apply mkbin_paren. apply F4. assumption.
  - rewrite Eneg. reflexivity.
  - auto.
  - destruct t; try discriminate. reflexivity.
  - destruct t1; try discriminate. reflexivity.
  - assumption.
Qed.

Lemma mkbin_kind bf x y : bclosed (mkbin bf x y) = true \/ is_open (mkbin bf x y) = true.
Proof.
  unfold mkbin. destruct (bf_paren bf); [left; reflexivity|]. right.
  destruct (bf_self_left bf); reflexivity.
Qed.

(** what the builder returns is either closed on both sides or one of the classes _operand parenthesises *)
Lemma built_kind t : in_class c t = true -> bclosed (build c t) = true \/ is_open (build c t) = true.
Proof.
  destruct (ok_un c Hok) as [Eneg Enot]. destruct (ok_names c Hok) as (EL & EIL & _).
  destruct (ok_nse c Hok) as (N1 & N2 & N3).
  induction t; cbn [in_class build]; intro Hi; bsplit; try (left; reflexivity); try (right; reflexivity).
  - apply mkbin_kind.
  - apply mkbin_kind.
  - apply mkbin_kind.
  - left. rewrite Eneg. reflexivity.
  - right. rewrite Enot. reflexivity.
  - auto.
  - left. destruct t; try discriminate. reflexivity.
  - left. destruct t1; try discriminate. reflexivity.
  - match goal with E : _ || _ = true |- _ => apply orb_true_iff in E; exact E end.
Qed.

Lemma bclosed_wrap_any w e : bclosed e = true -> bclosed (wrap w e) = true.
Proof. intro H. destruct (wrap_cases w e) as [E|E]; rewrite E; auto. Qed.

Lemma operand_bclosed w t : is_wall w || closed t = true -> in_class c t = true -> bclosed (wrap w (build c t)) = true.
Proof.
  intros H Hi. destruct (is_wall w) eqn:W.
  - destruct w; try discriminate. apply bclosed_wrap_true. apply built_kind. exact Hi.
  - cbn [orb] in H. apply bclosed_wrap_any. apply closed_bclosed; assumption.
Qed.

(** an operand that went through _operand, or is closed anyway: safe in every operand context *)
Lemma operand_ok w t : is_wall w || closed t = true -> in_class c t = true -> safe 1 false (build c t) = true ->
  forall m bm, m <= 12 ->
  safe m bm (wrap w (build c t)) = true /\ 12 <= rstop (wrap w (build c t)) /\ 13 <= lvl (wrap w (build c t)).
Proof.
  intros H Hi Hs m bm L. pose proof (operand_bclosed w t H Hi) as B.
  destruct (bclosed_levels _ B). repeat split; auto.
  apply bclosed_safe; auto. apply safe_wrap. exact Hs.
Qed.

Lemma mkbin_levels bf x y : bf_self_left bf = true ->
  bclosed (wrap (bf_opwrap bf) x) = true -> bclosed (wrap (bf_opwrap bf) y) = true ->
  Nat.min (blvl (bf_cls bf)) 13 <= lvl (mkbin bf x y) /\ Nat.min (rs (bf_cls bf)) 12 <= rstop (mkbin bf x y).
Proof.
  intros Hl Hx Hy. unfold mkbin. rewrite Hl.
  destruct (bclosed_levels _ Hx), (bclosed_levels _ Hy).
  destruct (bf_paren bf); cbn [lvl rstop]; unfold L_CLOSED.
  - destruct (bf_cls bf); unfold rs; simpl; split; lia.
  - split; lia.
Qed.

Lemma andor_levels t : andor_ok t = true -> in_class c t = true -> 3 <= lvl (build c t) /\ 3 <= rstop (build c t).
Proof.
  destruct (ok_un c Hok) as [Eneg Enot]. destruct (ok_names c Hok) as (EL & EIL & _).
  destruct (ok_nse c Hok) as (N1 & N2 & N3).
  assert (CL : forall t, closed t = true -> in_class c t = true -> 3 <= lvl (build c t) /\ 3 <= rstop (build c t)).
  { intros u Hc Hi. destruct (bclosed_levels _ (closed_bclosed u Hc Hi)). split; lia. }
  induction t; cbn [andor_ok]; intros Ha Hi; try (apply CL; assumption); cbn [in_class build] in *; bsplit.
  - (* UBin *) destruct (ok_fwd c Hok o) as (F1 & F2 & F3 & F4). rewrite F3, operand_eq.
    destruct (is_logic o) eqn:El.
    + assert (Hp : bf_paren (c_fwd c o) = true) by (apply F4; apply orb_true_r).
      unfold mkbin. rewrite Hp. cbn [lvl rstop]. unfold L_CLOSED. split; lia.
    + bsplit.
      destruct (mkbin_levels (c_fwd c o) (build c t1) (build c t2) F2) as [A B];
        try (apply operand_bclosed; assumption).
      rewrite F1 in A, B. destruct o; try discriminate; unfold rs in B; simpl in A, B; split; lia.
  - (* UNse *)
    rewrite N3, operand_eq.
    destruct (mkbin_levels (c_nse c) (build c t1) (build c t2) N2) as [A B];
      try (apply operand_bclosed; assumption).
    rewrite N1 in A, B. unfold rs in B; simpl in A, B; split; lia.
  - (* UNot *) rewrite Enot. cbn [mkun uf_paren uf_not lvl rstop]. unfold L_CLOSED, L_NOT. split; lia.
  - (* UIsNull *) destruct (bclosed_levels _ (operand_bclosed (wb (c_pred_opwrap c)) t ltac:(rewrite is_wall_wb; assumption) ltac:(assumption))).
    cbn [lvl rstop]. unfold L_CLOSED, L_IS. split; lia.
  - (* UIsNotNull *) destruct (c_isnotnull_paren c); cbn [lvl rstop]; unfold L_CLOSED, L_NOT; split; lia.
  - (* UIsin *) destruct (bclosed_levels _ (operand_bclosed (wb (c_pred_opwrap c)) t ltac:(rewrite is_wall_wb; assumption) ltac:(assumption))).
    cbn [lvl rstop]. unfold L_CLOSED, L_BIL. split; lia.
  - (* UBetween *)
    assert (B1 : bclosed (wrap (wb (c_pred_opwrap c)) (build c t1)) = true) by (apply operand_bclosed; [rewrite is_wall_wb|]; assumption).
    assert (B3 : bclosed (wrap (wb (c_pred_opwrap c)) (build c t3)) = true) by (apply operand_bclosed; [rewrite is_wall_wb|]; assumption).
    destruct (bclosed_levels _ B1), (bclosed_levels _ B3).
    cbn [lvl rstop]. unfold L_BIL. split; lia.
  - (* ULike *) destruct (bclosed_levels _ (operand_bclosed (wb (c_pred_opwrap c)) t ltac:(rewrite is_wall_wb; assumption) ltac:(assumption))). rewrite EL.
    cbn [lvl rstop]. unfold rs, L_CLOSED; cbn [blvl nonassoc]. split; lia.
  - (* UILike *) destruct (bclosed_levels _ (operand_bclosed (wb (c_pred_opwrap c)) t ltac:(rewrite is_wall_wb; assumption) ltac:(assumption))). rewrite EIL.
    cbn [lvl rstop]. unfold rs, L_CLOSED; cbn [blvl nonassoc]. split; lia.
  - (* UAlias *) auto.
Qed.

Lemma safe_mkbin bf x y : bf_self_left bf = true ->
  safe 1 false (mkbin bf x y) =
  (1 <=? blvl (bf_cls bf)) && allowed false (bf_cls bf) && safe 1 false (wrap (bf_opwrap bf) x)
  && (blvl (bf_cls bf) <? rstop (wrap (bf_opwrap bf) x)) && safe (rm (bf_cls bf)) false (wrap (bf_opwrap bf) y).
Proof. intro H. unfold mkbin. rewrite H. destruct (bf_paren bf); reflexivity. Qed.

Lemma safe_mkbin_rev bf x y : bf_self_left bf = false ->
  safe 1 false (mkbin bf x y) =
  (1 <=? blvl (bf_cls bf)) && allowed false (bf_cls bf) && safe 1 false (wrap (bf_opwrap bf) y)
  && (blvl (bf_cls bf) <? rstop (wrap (bf_opwrap bf) y)) && safe (rm (bf_cls bf)) false (wrap (bf_opwrap bf) x).
Proof. intro H. unfold mkbin. rewrite H. destruct (bf_paren bf); reflexivity. Qed.

Lemma blvl_pos o : 1 <= blvl o /\ blvl o <= 9.
Proof. destruct o; simpl; lia. Qed.

(** an operand of & or |: the wrapped form is at least as safe as the bare one *)
Lemma andor_operand w t : andor_ok t = true -> in_class c t = true -> safe 1 false (build c t) = true ->
  forall m, m <= 3 -> safe m false (wrap w (build c t)) = true /\ 3 <= rstop (wrap w (build c t)).
Proof.
  intros Ha Hi Hs m L. destruct (andor_levels t Ha Hi) as [A B].
  assert (Sm : safe m false (build c t) = true) by (eapply safe_raise; [eassumption | lia]).
  destruct (wrap_keeps w (build c t) m Sm Hs) as (S' & R' & _). split; [exact S' | lia].
Qed.

Ltac solve_and := repeat (apply andb_true_intro; split); auto.
Ltac ih IH name := pose proof (IH ltac:(assumption)) as name.
Ltac fin o := solve_and; try (apply Nat.leb_le; lia); try (destruct o; try discriminate; reflexivity);
              try (apply Nat.ltb_lt; destruct o; try discriminate; simpl in *; lia).

Lemma build_safe_mut :
  (forall t, in_class c t = true -> safe 1 false (build c t) = true) /\
  (forall bs, in_classb c bs = true -> safeb (buildb c bs) = true).
Proof.
  destruct (ok_un c Hok) as [Eneg Enot]. destruct (ok_names c Hok) as (EL & EIL & ER & ES & ESub & EG).
  destruct (ok_nse c Hok) as (N1 & N2 & N3).
  apply uexpr_ubranches_ind; intros; cbn [in_class in_classb build buildb] in *; bsplit; try reflexivity.
  - (* UBin *)
    destruct (ok_fwd c Hok o) as (F1 & F2 & F3 & F4). rewrite F3, operand_eq, safe_mkbin by assumption.
    rewrite F1. destruct (blvl_pos (uop_bop o)) as [P1 P2].
    ih H Sa. ih H0 Sb.
    destruct (is_logic o) eqn:El; bsplit.
    + destruct (andor_operand (bf_opwrap (c_fwd c o)) a ltac:(assumption) ltac:(assumption) Sa 1) as [Sa' Ra]; [lia|].
      destruct (andor_operand (bf_opwrap (c_fwd c o)) b ltac:(assumption) ltac:(assumption) Sb (rm (uop_bop o))) as [Sb' _];
        [destruct o; try discriminate; unfold rm; simpl; lia|].
      fin o.
    + destruct (operand_ok _ a ltac:(eassumption) ltac:(assumption) Sa 1 false) as (Sa' & Ra & _); [lia|].
      destruct (operand_ok _ b ltac:(eassumption) ltac:(assumption) Sb (rm (uop_bop o)) false) as (Sb' & _ & _);
        [unfold rm; lia|].
      fin o.
  - (* URBin *)
    destruct (ok_rev c Hok o ltac:(assumption)) as (F1 & F2 & F3 & F4).
    rewrite F3, pylit_true, safe_mkbin_rev by assumption.
    rewrite F1. destruct (blvl_pos (uop_bop o)) as [P1 P2]. ih H Sb.
    assert (Wl : forall w0 v0, wrap w0 (SLit v0) = SLit v0) by (intros w0 v0; destruct w0; reflexivity).
    rewrite Wl. cbn [safe rstop].
    destruct (is_logic o) eqn:El.
    + destruct (andor_operand (bf_opwrap (c_rev c o)) b ltac:(assumption) ltac:(assumption) Sb (rm (uop_bop o))) as [Sb' _];
        [destruct o; try discriminate; unfold rm; simpl; lia|].
      unfold L_CLOSED. fin o.
    + destruct (operand_ok (bf_opwrap (c_rev c o)) b) with (m := rm (uop_bop o)) (bm := false) as (Sb' & _ & _);
        try assumption; [unfold rm; lia|].
      unfold L_CLOSED. fin o.
  - (* UNse *)
    rewrite N3, operand_eq, safe_mkbin by assumption. rewrite N1.
    ih H Sa. ih H0 Sb.
    destruct (operand_ok _ a ltac:(eassumption) ltac:(assumption) Sa 1 false) as (Sa' & Ra & _); [lia|].
    destruct (operand_ok _ b ltac:(eassumption) ltac:(assumption) Sb (rm Nse) false) as (Sb' & _ & _);
      [unfold rm; simpl; lia|].
    solve_and. apply Nat.ltb_lt. simpl. lia.
  - (* UNeg *) rewrite Eneg. cbn [mkun uf_paren uf_not safe]. auto.
  - (* UNot *) rewrite Enot. cbn [mkun uf_paren uf_not safe negb andb]. auto.
  - (* UIsNull *) ih H Sa.
    destruct (operand_ok (wb (c_pred_opwrap c)) a ltac:(rewrite is_wall_wb; assumption) ltac:(assumption) Sa 1 false) as (Sa' & Ra & _); [lia|].
    cbn [safe]. solve_and. apply Nat.ltb_lt. unfold L_IS. lia.
  - (* UIsNotNull *) ih H Sa.
    destruct (operand_ok (wb (c_pred_opwrap c)) a ltac:(rewrite is_wall_wb; assumption) ltac:(assumption) Sa L_NOT false) as (Sa' & Ra & _); [unfold L_NOT; lia|].
    destruct (operand_ok (wb (c_pred_opwrap c)) a ltac:(rewrite is_wall_wb; assumption) ltac:(assumption) Sa 1 false) as (Sa1 & _ & _); [lia|].
    destruct (c_isnotnull_paren c); cbn [safe negb andb].
    + solve_and. apply Nat.ltb_lt. unfold L_IS. lia.
    + solve_and. apply Nat.ltb_lt. unfold L_IS. lia.
  - (* UIsin *) ih H Sa.
    destruct (operand_ok (wb (c_pred_opwrap c)) a ltac:(rewrite is_wall_wb; assumption) ltac:(assumption) Sa 1 false) as (Sa' & Ra & _); [lia|].
    cbn [safe]. solve_and. apply Nat.ltb_lt. unfold L_BIL. lia.
  - (* UBetween *) ih H Sa. ih H0 Slo. ih H1 Shi.
    destruct (operand_ok (wb (c_pred_opwrap c)) a) with (m := 1) (bm := false) as (Sa' & Ra & _); try assumption; try (rewrite is_wall_wb; assumption); [lia|].
    destruct (operand_ok (wb (c_pred_opwrap c)) lo) with (m := 1) (bm := true) as (Slo' & _ & _); try assumption; try (rewrite is_wall_wb; assumption); [lia|].
    destruct (operand_ok (wb (c_pred_opwrap c)) hi) with (m := S L_BIL) (bm := false) as (Shi' & _ & _); try assumption; try (rewrite is_wall_wb; assumption);
      [unfold L_BIL; lia|].
    cbn [safe]. solve_and. apply Nat.ltb_lt. unfold L_BIL. lia.
  - (* ULike *) ih H Sa.
    destruct (operand_ok (wb (c_pred_opwrap c)) a ltac:(rewrite is_wall_wb; assumption) ltac:(assumption) Sa 1 false) as (Sa' & Ra & _); [lia|].
    rewrite EL. cbn [safe]. solve_and. apply Nat.ltb_lt. simpl. lia.
  - (* UILike *) ih H Sa.
    destruct (operand_ok (wb (c_pred_opwrap c)) a ltac:(rewrite is_wall_wb; assumption) ltac:(assumption) Sa 1 false) as (Sa' & Ra & _); [lia|].
    rewrite EIL. cbn [safe]. solve_and. apply Nat.ltb_lt. simpl. lia.
  - (* URlike *) cbn [safe]. solve_and.
  - (* UStartsWith *) cbn [safe]. solve_and.
  - (* UEndsWith *) cbn [safe]. solve_and.
  - (* USubstr *) cbn [safe]. destruct (c_substr_zero_as_one c && is_zero_start p); solve_and.
  - (* UWhen *) cbn [safe]. auto.
  - (* UCast *) cbn [safe]. auto.
  - (* UAlias *) auto.
  - (* UGetItemLit *) destruct a; try discriminate. rewrite EG. reflexivity.
  - (* UGetItemCol *) destruct a; try discriminate.
    match goal with E : (_ =? _)%Z = true |- _ => apply Z.eqb_eq in E; rewrite E end.
    unfold offset_key. cbn [Z.eqb Z.ltb Z.compare Pos.compare build safe rstop andb]. ih H0 Si.
    destruct (operand_ok WNone c0) with (m := 1) (bm := false) as (_ & Ri & _); try assumption; [lia|].
    cbn [wrap] in Ri.
    solve_and. apply Nat.ltb_lt. simpl. lia.
  - (* UExpr *) assumption.
  - (* UBElse *) cbn [safeb]. auto.
  - (* UBWhen *) cbn [safeb]. solve_and.
Qed.

End WithCfg.
