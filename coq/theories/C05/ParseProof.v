(** C05 -- round trip: the token stream of a [safe] tree is read back by DuckDB's grammar as that tree. *)
From SF Require Export C05.Parse.
From Coq Require Import Arith Lia.
Open Scope nat_scope.

(** one-step unfoldings (the definitions, restated) *)
Lemma pexpr_S (f : nat) (m s : nat) (bm : bool) (ts : list tok) :
  pexpr (S f) m s bm ts =

    match poperand f bm ts with
    | ROk lhs r => ploop f m s bm lhs r
    | x => x
    end.
Proof. reflexivity. Qed.

Lemma poperand_S (f : nat) (bm : bool) (ts : list tok) :
  poperand (S f) bm ts =

    match ts with
    | TCol n :: r => ROk (SCol n) r
    | TLit v :: r => ROk (SLit v) r
    | TLParen :: r =>
        match pexpr f 1 1 false r with
        | ROk e (TRParen :: r2) => ROk (SParen e) r2
        | ROk _ _ => RErr
        | x => x
        end
    | TNot :: r =>
        if bm then RErr else
        match pexpr f L_NOT L_NOT false r with
        | ROk e r2 => ROk (SNot e) r2
        | x => x
        end
    | TMinus :: r =>
        match pexpr f L_UMINUS L_UMINUS bm r with
        | ROk e r2 => ROk (SNeg e) r2
        | x => x
        end
    | TCase :: r =>
        match pcase f r with
        | ROk bs r2 => ROk (SCase bs) r2
        | RErr => RErr
        | RFuel => RFuel
        end
    | TCast :: r =>
        match pexpr f 1 1 false r with
        | ROk e (TAsType ty :: r2) => ROk (SCast e ty) r2
        | ROk _ _ => RErr
        | x => x
        end
    | TFun g :: r =>
        match pexpr f 1 1 false r with
        | ROk a (TComma :: r2) =>
            match pexpr f 1 1 false r2 with
            | ROk b (TRParen :: r3) => ROk (SCall2 g a b) r3
            | ROk b (TComma :: r3) =>
                match pexpr f 1 1 false r3 with
                | ROk c (TRParen :: r4) => ROk (SCall3 g a b c) r4
                | ROk _ _ => RErr
                | x => x
                end
            | ROk _ _ => RErr
            | x => x
            end
        | ROk _ _ => RErr
        | x => x
        end
    | _ => RErr
    end.
Proof. reflexivity. Qed.

Lemma ploop_S (f : nat) (m s : nat) (bm : bool) (lhs : sexpr) (ts : list tok) :
  ploop (S f) m s bm lhs ts =

    match ts with
    | [] => ROk lhs []
    | t :: r =>
        let p := lbp bm t in
        if p <? s then ROk lhs ts
        else if p <? m then RErr
        else
          match t with
          | TOp o =>
              match pexpr f (rm o) (rs o) bm r with
              | ROk rhs r2 => ploop f m s bm (SBin o lhs rhs) r2
              | x => x
              end
          | TIsNull => ploop f m s bm (SIsNull lhs) r
          | TIn vs => ploop f m s bm (SIn lhs vs) r
          | TBetween =>
              match pexpr f 1 1 true r with
              | ROk lo (TOp And :: r2) =>
                  match pexpr f (S L_BIL) L_BIL bm r2 with
                  | ROk hi r3 => ploop f m s bm (SBetween lhs lo hi) r3
                  | x => x
                  end
              | ROk _ _ => RErr
              | x => x
              end
          | TLBrack =>
              match pexpr f 1 1 false r with
              | ROk i (TRBrack :: r2) => ploop f m s bm (SBracket lhs i) r2
              | ROk _ _ => RErr
              | x => x
              end
          | _ => RErr
          end
    end.
Proof. reflexivity. Qed.

Lemma pcase_S (f : nat) (ts : list tok) :
  pcase (S f) ts =

    match ts with
    | TEnd :: r => ROk BEnd r
    | TElse :: r =>
        match pexpr f 1 1 false r with
        | ROk e (TEnd :: r2) => ROk (BElse e) r2
        | ROk _ _ => RErr
        | RErr => RErr
        | RFuel => RFuel
        end
    | TWhen :: r =>
        match pexpr f 1 1 false r with
        | ROk c (TThen :: r2) =>
            match pexpr f 1 1 false r2 with
            | ROk v r3 =>
                match pcase f r3 with
                | ROk bs r4 => ROk (BWhen c v bs) r4
                | x => x
                end
            | RErr => RErr
            | RFuel => RFuel
            end
        | ROk _ _ => RErr
        | RErr => RErr
        | RFuel => RFuel
        end
    | _ => RErr
    end.
Proof. reflexivity. Qed.

(** ---- more fuel never changes an answer -------------------------------------------------- *)
Ltac go IHe IHl IHc :=
  repeat (cbv beta zeta match in *;
  match goal with
  | H : RErr = ROk _ _ |- _ => discriminate H
  | H : RFuel = ROk _ _ |- _ => discriminate H
  | H : ROk _ _ = ROk _ _ |- _ => exact H
  | H : ploop ?f _ _ _ _ _ = ROk _ _ |- ploop (S ?f) _ _ _ _ _ = ROk _ _ => apply IHl; exact H
  | H : context [match pexpr ?f ?m ?s ?bm ?ts with _ => _ end] |- _ =>
      let E := fresh "E" in destruct (pexpr f m s bm ts) eqn:E; [apply IHe in E; rewrite E | | ]
  | H : context [match pcase ?f ?ts with _ => _ end] |- _ =>
      let E := fresh "E" in destruct (pcase f ts) eqn:E; [apply IHc in E; rewrite E | | ]
  | H : context [match ?x with _ => _ end] |- _ => is_var x; destruct x
  | H : context [if ?b then _ else _] |- _ => destruct b eqn:?
  end).

Lemma mono_step : forall f,
  (forall m s bm ts e r, pexpr f m s bm ts = ROk e r -> pexpr (S f) m s bm ts = ROk e r) /\
  (forall bm ts e r, poperand f bm ts = ROk e r -> poperand (S f) bm ts = ROk e r) /\
  (forall m s bm l ts e r, ploop f m s bm l ts = ROk e r -> ploop (S f) m s bm l ts = ROk e r) /\
  (forall ts bs r, pcase f ts = ROk bs r -> pcase (S f) ts = ROk bs r).
Proof.
  induction f as [|f IH].
  - repeat split; intros; discriminate.
  - destruct IH as (IHe & IHo & IHl & IHc). repeat split.
    + intros m s bm ts e r H. rewrite pexpr_S in H. rewrite pexpr_S.
      destruct (poperand f bm ts) eqn:E; try discriminate.
      apply IHo in E. rewrite E. apply IHl. exact H.
    + intros bm ts e r H. rewrite poperand_S in H. rewrite poperand_S. go IHe IHl IHc.
    + intros m s bm l ts e r H. rewrite ploop_S in H. rewrite ploop_S. go IHe IHl IHc.
    + intros ts bs r H. rewrite pcase_S in H. rewrite pcase_S. go IHe IHl IHc.
Qed.

Lemma mono_le f f' : f <= f' ->
  (forall m s bm ts e r, pexpr f m s bm ts = ROk e r -> pexpr f' m s bm ts = ROk e r) /\
  (forall m s bm l ts e r, ploop f m s bm l ts = ROk e r -> ploop f' m s bm l ts = ROk e r) /\
  (forall ts bs r, pcase f ts = ROk bs r -> pcase f' ts = ROk bs r).
Proof.
  induction 1 as [|f' Hle IH].
  - repeat split; auto.
  - destruct IH as (A & B & C). destruct (mono_step f') as (A' & _ & B' & C').
    repeat split; intros; auto.
Qed.

(** ---- the follow condition --------------------------------------------------------------- *)
Definition follow (q : nat) (bm : bool) (rest : list tok) : bool :=
  match rest with [] => true | t :: _ => lbp bm t <? q end.

Lemma follow_le q q' bm rest : q <= q' -> follow q bm rest = true -> follow q' bm rest = true.
Proof.
  destruct rest as [|t r]; simpl; auto. intros L H. apply Nat.ltb_lt in H. apply Nat.ltb_lt. lia.
Qed.

Lemma follow_term q bm t r : lbp bm t = 0 -> 1 <= q -> follow q bm (t :: r) = true.
Proof. intros E L. simpl. rewrite E. apply Nat.ltb_lt. lia. Qed.

Lemma rstop_ge e : 2 <= rstop e.
Proof.
  induction e; cbn [rstop]; unfold L_CLOSED, L_NOT, L_UMINUS, L_BIL; try lia.
  assert (2 <= rs o) by (destruct o; unfold rs; simpl; lia). lia.
Qed.

Lemma rs_bounds o : 1 <= rs o /\ rs o <= rm o /\ blvl o < rm o /\ blvl o <= rs o.
Proof. destruct o; unfold rs, rm; simpl; lia. Qed.

Lemma loop_stop f m s bm x rest :
  follow s bm rest = true -> ploop (S f) m s bm x rest = ROk x rest.
Proof.
  intro H. rewrite ploop_S. destruct rest as [|t r]; [reflexivity|].
  simpl in H. cbv zeta. rewrite H. reflexivity.
Qed.

Lemma sz_pos e : 2 <= sz e.
Proof. destruct e; simpl; lia. Qed.

Lemma ploop_fuel f m s bm x rest e r : ploop f m s bm x rest = ROk e r -> 1 <= f.
Proof. destruct f; [discriminate | lia]. Qed.

Lemma pexpr_mono f f' m s bm ts e r : f <= f' -> pexpr f m s bm ts = ROk e r -> pexpr f' m s bm ts = ROk e r.
Proof. intros L. apply (mono_le f f' L). Qed.
Lemma ploop_mono f f' m s bm l ts e r : f <= f' -> ploop f m s bm l ts = ROk e r -> ploop f' m s bm l ts = ROk e r.
Proof. intros L. apply (mono_le f f' L). Qed.
Lemma pcase_mono f f' ts bs r : f <= f' -> pcase f ts = ROk bs r -> pcase f' ts = ROk bs r.
Proof. intros L. apply (mono_le f f' L). Qed.

(** ---- main lemma --------------------------------------------------------------------------- *)
Definition P (e : sexpr) : Prop :=
  forall m s bm rest f e' r', 1 <= s -> s <= m ->
    safe m bm e = true -> follow (rstop e) bm rest = true ->
    ploop f m s bm e rest = ROk e' r' ->
    pexpr (f + sz e) m s bm (print e ++ rest) = ROk e' r'.
Definition Pb (bs : branches) : Prop :=
  forall rest f, safeb bs = true -> pcase (f + szb bs) (printb bs ++ rest) = ROk bs rest.

(** a whole operand: context that stops at the next token *)
Lemma whole e : P e -> forall m s bm rest f, 1 <= s -> s <= m ->
  safe m bm e = true -> follow (rstop e) bm rest = true -> follow s bm rest = true ->
  pexpr (S f + sz e) m s bm (print e ++ rest) = ROk e rest.
Proof.
  intros HP m s bm rest f Hs Hm Hsafe Hf1 Hf2.
  apply HP; auto. apply loop_stop; exact Hf2.
Qed.

(** delimited operand: context (1,1,false), next token is a terminator *)
Lemma delim e : P e -> forall t rest f, lbp false t = 0 ->
  safe 1 false e = true -> pexpr (S f + sz e) 1 1 false (print e ++ t :: rest) = ROk e (t :: rest).
Proof.
  intros HP t rest f Ht Hsafe.
  apply whole; auto; apply follow_term; auto. pose proof (rstop_ge e). lia.
Qed.
