(** C05 -- SQL scalar expressions exactly as sqlframe's Column builder constructs them (explicit
    [SParen] nodes), the token stream sqlglot's generator writes for them (binary = l OP r, no
    automatic parentheses), and the operator table of DuckDB's grammar (Postgres-derived yacc
    precedence declarations; facts read off [json_serialize_sql], re-validated by tie T2 on every run). *)
From SF Require Export Base.Val.
From Coq Require Import Arith.
Open Scope nat_scope.

Inductive bop :=
| Add | Sub | Mul | Div | Mod
| Eq | Neq | Lt | Le | Gt | Ge
| And | Or
| Nse            (* IS NOT DISTINCT FROM  (exp.NullSafeEQ) *)
| Like | ILike.

Inductive sexpr :=
| SCol (n : string)
| SLit (v : val)
| SParen (e : sexpr)
| SBin (o : bop) (a b : sexpr)
| SNot (e : sexpr)
| SNeg (e : sexpr)
| SIsNull (e : sexpr)
| SIn (e : sexpr) (vs : list val)
| SBetween (e lo hi : sexpr)
| SCase (bs : branches)
| SCast (e : sexpr) (ty : string)
| SCall2 (f : string) (a b : sexpr)
| SCall3 (f : string) (a b c : sexpr)
| SBracket (e i : sexpr)
with branches :=
| BEnd
| BElse (e : sexpr)
| BWhen (c v : sexpr) (r : branches).

Scheme sexpr_mut := Induction for sexpr Sort Prop
  with branches_mut := Induction for branches Sort Prop.
Combined Scheme sexpr_branches_ind from sexpr_mut, branches_mut.

(** tokens (lexing of identifiers, numbers and quoted strings is not modelled: one token per leaf;
    [IN (v1, ..., vn)] is one token because sqlframe only puts literals there) *)
Inductive tok :=
| TCol (n : string) | TLit (v : val)
| TLParen | TRParen
| TOp (o : bop)
| TNot | TMinus
| TIsNull
| TIn (vs : list val)
| TBetween
| TCase | TWhen | TThen | TElse | TEnd
| TCast | TAsType (ty : string)          (* "CAST("   and   "AS ty)" *)
| TFun (f : string) | TComma             (* "f("  *)
| TLBrack | TRBrack.

Fixpoint print (e : sexpr) : list tok :=
  match e with
  | SCol n => [TCol n]
  | SLit v => [TLit v]
  | SParen e => TLParen :: print e ++ [TRParen]
  | SBin o a b => print a ++ TOp o :: print b
  | SNot e => TNot :: print e
  | SNeg e => TMinus :: print e
  | SIsNull e => print e ++ [TIsNull]
  | SIn e vs => print e ++ [TIn vs]
  | SBetween e lo hi => print e ++ TBetween :: print lo ++ TOp And :: print hi
  | SCase bs => TCase :: printb bs
  | SCast e ty => TCast :: print e ++ [TAsType ty]
  | SCall2 f a b => TFun f :: print a ++ TComma :: print b ++ [TRParen]
  | SCall3 f a b c => TFun f :: print a ++ TComma :: print b ++ TComma :: print c ++ [TRParen]
  | SBracket e i => print e ++ TLBrack :: print i ++ [TRBrack]
  end
with printb (bs : branches) : list tok :=
  match bs with
  | BEnd => [TEnd]
  | BElse e => TElse :: print e ++ [TEnd]
  | BWhen c v r => TWhen :: print c ++ TThen :: print v ++ printb r
  end.

(** ---- DuckDB's operator table ------------------------------------------------------------- *)
(**  %left OR < %left AND < %right NOT < %nonassoc IS < %nonassoc comparison
     < %nonassoc BETWEEN IN LIKE ILIKE < %left + - < %left * / %  < %right UMINUS < '['          *)
Definition blvl (o : bop) : nat :=
  match o with
  | Or => 1 | And => 2 | Nse => 4
  | Eq | Neq | Lt | Le | Gt | Ge => 5
  | Like | ILike => 6
  | Add | Sub => 8
  | Mul | Div | Mod => 9
  end.
Definition nonassoc (o : bop) : bool :=
  match o with Nse | Eq | Neq | Lt | Le | Gt | Ge | Like | ILike => true | _ => false end.
Definition L_NOT := 3.  Definition L_IS := 4.  Definition L_BIL := 6.
Definition L_UMINUS := 12.  Definition L_BRACK := 13.  Definition L_CLOSED := 100.

(** right operand of [o] is parsed with context (rm o, rs o): tokens binding >= rm continue the
    operand, tokens binding < rs end it, tokens in between are the %nonassoc syntax error *)
Definition rm (o : bop) : nat := S (blvl o).
Definition rs (o : bop) : nat := if nonassoc o then blvl o else S (blvl o).

(** b_expr (the lower bound of BETWEEN) has no AND OR NOT IS-NULL IN BETWEEN LIKE *)
Definition allowed (bm : bool) (o : bop) : bool :=
  if bm then match o with And | Or | Like | ILike => false | _ => true end else true.

(** binding power of a token met where an infix/postfix operator may stand (0 = ends the expression) *)
Definition lbp (bm : bool) (t : tok) : nat :=
  match t with
  | TOp o => if allowed bm o then blvl o else 0
  | TIsNull => if bm then 0 else L_IS
  | TIn _ | TBetween => if bm then 0 else L_BIL
  | TLBrack => L_BRACK
  | _ => 0
  end.

(** what may follow [e] without being swallowed by (or clashing with) an operand still open at its
    right edge: the next token must bind weaker than [rstop e] *)
Fixpoint rstop (e : sexpr) : nat :=
  match e with
  | SBin o _ b => Nat.min (rs o) (rstop b)
  | SNot e => Nat.min L_NOT (rstop e)
  | SNeg e => Nat.min L_UMINUS (rstop e)
  | SBetween _ _ hi => Nat.min L_BIL (rstop hi)
  | _ => L_CLOSED
  end.

(** [safe m bm e]: read in a context that accepts operators binding >= m (b_expr mode when bm), the
    text of [e] groups as [e]: every unparenthesised parent/child edge is precedence-safe *)
Fixpoint safe (m : nat) (bm : bool) (e : sexpr) : bool :=
  match e with
  | SCol _ | SLit _ => true
  | SParen e => safe 1 false e
  | SBin o a b => (m <=? blvl o) && allowed bm o && safe m bm a && (blvl o <? rstop a) && safe (rm o) bm b
  | SNot e => negb bm && safe L_NOT false e
  | SNeg e => safe L_UMINUS bm e
  | SIsNull e => (m <=? L_IS) && negb bm && safe m bm e && (L_IS <? rstop e)
  | SIn e _ => (m <=? L_BIL) && negb bm && safe m bm e && (L_BIL <? rstop e)
  | SBetween e lo hi => (m <=? L_BIL) && negb bm && safe m bm e && (L_BIL <? rstop e)
                        && safe 1 true lo && safe (S L_BIL) bm hi
  | SCase bs => safeb bs
  | SCast e _ => safe 1 false e
  | SCall2 _ a b => safe 1 false a && safe 1 false b
  | SCall3 _ a b c => safe 1 false a && safe 1 false b && safe 1 false c
  | SBracket e i => (m <=? L_BRACK) && safe m bm e && (L_BRACK <? rstop e) && safe 1 false i
  end
with safeb (bs : branches) : bool :=
  match bs with
  | BEnd => true
  | BElse e => safe 1 false e
  | BWhen c v r => safe 1 false c && safe 1 false v && safeb r
  end.

(** the tree without its parentheses = the grouping the text denotes *)
Fixpoint strip (e : sexpr) : sexpr :=
  match e with
  | SCol _ | SLit _ => e
  | SParen e => strip e
  | SBin o a b => SBin o (strip a) (strip b)
  | SNot e => SNot (strip e)
  | SNeg e => SNeg (strip e)
  | SIsNull e => SIsNull (strip e)
  | SIn e vs => SIn (strip e) vs
  | SBetween e lo hi => SBetween (strip e) (strip lo) (strip hi)
  | SCase bs => SCase (stripb bs)
  | SCast e ty => SCast (strip e) ty
  | SCall2 f a b => SCall2 f (strip a) (strip b)
  | SCall3 f a b c => SCall3 f (strip a) (strip b) (strip c)
  | SBracket e i => SBracket (strip e) (strip i)
  end
with stripb (bs : branches) : branches :=
  match bs with
  | BEnd => BEnd
  | BElse e => BElse (strip e)
  | BWhen c v r => BWhen (strip c) (strip v) (stripb r)
  end.

(** fuel measure: generous per-node constant, bounded by the token count (lemma [sz_le]) *)
Fixpoint sz (e : sexpr) : nat :=
  match e with
  | SCol _ | SLit _ => 2
  | SParen e => sz e + 3
  | SBin _ a b => sz a + sz b + 2
  | SNot e | SNeg e => sz e + 2
  | SIsNull e | SIn e _ => sz e + 2
  | SBetween e lo hi => sz e + sz lo + sz hi + 3
  | SCase bs => szb bs + 2
  | SCast e _ => sz e + 3
  | SCall2 _ a b => sz a + sz b + 4
  | SCall3 _ a b c => sz a + sz b + sz c + 5
  | SBracket e i => sz e + sz i + 3
  end
with szb (bs : branches) : nat :=
  match bs with
  | BEnd => 2
  | BElse e => sz e + 3
  | BWhen c v r => sz c + sz v + szb r + 3
  end.
