(** C05 -- how DuckDB's grammar groups a token stream: an operator-precedence (Pratt) reading of the
    yacc precedence declarations.  Context (m, s, bm): an operator token binding >= m continues the
    current operand, one binding < s ends it, one in [s, m) is the %nonassoc syntax error; bm = the
    restricted b_expr mode of BETWEEN's lower bound.  Total by fuel; [RFuel] is kept apart from
    [RErr] so that "syntax error" is never confused with "ran out of fuel". *)
From SF Require Export C05.Syntax.
From Coq Require Import Arith Lia.
Open Scope nat_scope.

Inductive res (A : Type) := ROk (x : A) (rest : list tok) | RErr | RFuel.
Arguments ROk {A}. Arguments RErr {A}. Arguments RFuel {A}.

Fixpoint pexpr (f : nat) (m s : nat) (bm : bool) (ts : list tok) : res sexpr :=
  match f with O => RFuel | S f =>
    match poperand f bm ts with
    | ROk lhs r => ploop f m s bm lhs r
    | x => x
    end
  end
with poperand (f : nat) (bm : bool) (ts : list tok) : res sexpr :=
  match f with O => RFuel | S f =>
    match ts with
    | TCol n :: r => ROk (SCol n) r
    | TLit v :: r => ROk (SLit v) r
    | TLParen :: r =>
        match pexpr f 1 1 false r with
        | ROk e (TRParen :: r2) => ROk (SParen e) r2
        | ROk _ _ => RErr
        | x => x
        end
    | TNot :: r =>
        if bm then RErr else
        match pexpr f L_NOT L_NOT false r with
        | ROk e r2 => ROk (SNot e) r2
        | x => x
        end
    | TMinus :: r =>
        match pexpr f L_UMINUS L_UMINUS bm r with
        | ROk e r2 => ROk (SNeg e) r2
        | x => x
        end
    | TCase :: r =>
        match pcase f r with
        | ROk bs r2 => ROk (SCase bs) r2
        | RErr => RErr
        | RFuel => RFuel
        end
    | TCast :: r =>
        match pexpr f 1 1 false r with
        | ROk e (TAsType ty :: r2) => ROk (SCast e ty) r2
        | ROk _ _ => RErr
        | x => x
        end
    | TFun g :: r =>
        match pexpr f 1 1 false r with
        | ROk a (TComma :: r2) =>
            match pexpr f 1 1 false r2 with
            | ROk b (TRParen :: r3) => ROk (SCall2 g a b) r3
            | ROk b (TComma :: r3) =>
                match pexpr f 1 1 false r3 with
                | ROk c (TRParen :: r4) => ROk (SCall3 g a b c) r4
                | ROk _ _ => RErr
                | x => x
                end
            | ROk _ _ => RErr
            | x => x
            end
        | ROk _ _ => RErr
        | x => x
        end
    | _ => RErr
    end
  end
with ploop (f : nat) (m s : nat) (bm : bool) (lhs : sexpr) (ts : list tok) : res sexpr :=
  match f with O => RFuel | S f =>
    match ts with
    | [] => ROk lhs []
    | t :: r =>
        let p := lbp bm t in
        if p <? s then ROk lhs ts
        else if p <? m then RErr
        else
          match t with
          | TOp o =>
              match pexpr f (rm o) (rs o) bm r with
              | ROk rhs r2 => ploop f m s bm (SBin o lhs rhs) r2
              | x => x
              end
          | TIsNull => ploop f m s bm (SIsNull lhs) r
          | TIn vs => ploop f m s bm (SIn lhs vs) r
          | TBetween =>
              match pexpr f 1 1 true r with
              | ROk lo (TOp And :: r2) =>
                  match pexpr f (S L_BIL) L_BIL bm r2 with
                  | ROk hi r3 => ploop f m s bm (SBetween lhs lo hi) r3
                  | x => x
                  end
              | ROk _ _ => RErr
              | x => x
              end
          | TLBrack =>
              match pexpr f 1 1 false r with
              | ROk i (TRBrack :: r2) => ploop f m s bm (SBracket lhs i) r2
              | ROk _ _ => RErr
              | x => x
              end
          | _ => RErr
          end
    end
  end
with pcase (f : nat) (ts : list tok) : res branches :=
  match f with O => RFuel | S f =>
    match ts with
    | TEnd :: r => ROk BEnd r
    | TElse :: r =>
        match pexpr f 1 1 false r with
        | ROk e (TEnd :: r2) => ROk (BElse e) r2
        | ROk _ _ => RErr
        | RErr => RErr
        | RFuel => RFuel
        end
    | TWhen :: r =>
        match pexpr f 1 1 false r with
        | ROk c (TThen :: r2) =>
            match pexpr f 1 1 false r2 with
            | ROk v r3 =>
                match pcase f r3 with
                | ROk bs r4 => ROk (BWhen c v bs) r4
                | x => x
                end
            | RErr => RErr
            | RFuel => RFuel
            end
        | ROk _ _ => RErr
        | RErr => RErr
        | RFuel => RFuel
        end
    | _ => RErr
    end
  end.

(** the whole text must be one expression *)
Definition reparse (ts : list tok) : res sexpr :=
  match pexpr (2 * List.length ts + 2) 1 1 false ts with
  | ROk e [] => ROk e []
  | ROk _ _ => RErr
  | x => x
  end.
