(** C05 -- SQL three-valued evaluation of the scalar expressions of Syntax.v (engine side).
    Numbers are exact (Z, and rationals for "/"); overflow and division by zero are outside the
    property's domain ([divzero] detects the latter so that the harness can skip such rows). *)
From SF Require Export C05.Syntax.
From Coq Require Import Ascii.
Open Scope Z_scope.

Record env := mkEnv { e_cols : list string; e_row : row; e_arrs : list (string * list val) }.

(** ---- numbers ------------------------------------------------------------------------------ *)
Definition num := (Z * positive)%type.
Definition num_of (v : val) : option num :=
  match v with VInt z => Some (z, 1%positive) | VRat n d => Some (n, d) | _ => None end.
Definition is_int (v : val) : bool := match v with VInt _ => true | _ => false end.
Definition mk_num (both_int : bool) (n : Z) (d : positive) : val :=
  if both_int then VInt n else VRat n d.

Definition arith (o : bop) (x y : val) : val :=
  match num_of x, num_of y with
  | Some (a, d), Some (b, e) =>
      let ii := is_int x && is_int y in
      match o with
      | Add => mk_num ii (a * Zpos e + b * Zpos d) (d * e)
      | Sub => mk_num ii (a * Zpos e - b * Zpos d) (d * e)
      | Mul => mk_num ii (a * b) (d * e)
      | Div => match b with
               | Z0 => VNull
               | Zpos bp => VRat (a * Zpos e) (d * bp)
               | Zneg bp => VRat (- (a * Zpos e)) (d * bp)
               end
      | Mod => if ii then (if b =? 0 then VNull else VInt (Z.rem a b)) else VNull
      | _ => VNull
      end
  | _, _ => VNull
  end.

(** equality / order on non-NULL values of the same kind (rationals by cross-multiplication) *)
Definition veq (a b : val) : bool := match val_cmp a b with Datatypes.Eq => true | _ => false end.

Definition cmp3 (o : bop) (x y : val) : val :=
  match x, y with
  | VNull, _ | _, VNull => VNull
  | _, _ =>
      let c := val_cmp x y in
      VBool (match o, c with
             | Eq, Datatypes.Eq => true
             | Neq, Datatypes.Eq => false | Neq, _ => true
             | Lt, Datatypes.Lt => true
             | Le, Datatypes.Gt => false | Le, _ => true
             | Gt, Datatypes.Gt => true
             | Ge, Datatypes.Lt => false | Ge, _ => true
             | _, _ => false
             end)
  end.

Definition nse (x y : val) : val :=
  match x, y with
  | VNull, VNull => VBool true
  | VNull, _ | _, VNull => VBool false
  | _, _ => VBool (veq x y)
  end.

(** ---- strings ------------------------------------------------------------------------------ *)
Fixpoint like_aux (p : string) : string -> bool :=
  match p with
  | EmptyString => fun s => match s with EmptyString => true | _ => false end
  | String c p' =>
      if Ascii.eqb c "%"%char then
        (fix star (s : string) : bool :=
           like_aux p' s || match s with EmptyString => false | String _ s' => star s' end)
      else if Ascii.eqb c "_"%char then
        fun s => match s with EmptyString => false | String _ s' => like_aux p' s' end
      else
        fun s => match s with EmptyString => false | String d s' => Ascii.eqb c d && like_aux p' s' end
  end.

Definition lower_ascii (c : ascii) : ascii :=
  let n := nat_of_ascii c in
  if (65 <=? n)%nat && (n <=? 90)%nat then ascii_of_nat (n + 32) else c.
Fixpoint lower (s : string) : string :=
  match s with EmptyString => EmptyString | String c s' => String (lower_ascii c) (lower s') end.

Fixpoint is_prefix (p s : string) : bool :=
  match p, s with
  | EmptyString, _ => true
  | String c p', String d s' => Ascii.eqb c d && is_prefix p' s'
  | _, EmptyString => false
  end.
Fixpoint contains (p s : string) : bool :=
  is_prefix p s || match s with EmptyString => false | String _ s' => contains p s' end.
Fixpoint srev_acc (s acc : string) : string :=
  match s with EmptyString => acc | String c s' => srev_acc s' (String c acc) end.
Definition srev (s : string) : string := srev_acc s EmptyString.
Definition is_suffix (p s : string) : bool := is_prefix (srev p) (srev s).

Fixpoint sdrop (n : nat) (s : string) : string :=
  match n, s with O, _ => s | S n', String _ s' => sdrop n' s' | _, EmptyString => EmptyString end.
Fixpoint stake (n : nat) (s : string) : string :=
  match n, s with O, _ => EmptyString | S n', String c s' => String c (stake n' s') | _, EmptyString => EmptyString end.

(** decimal rendering of integers (CAST(int AS TEXT)) *)
Definition digit (n : Z) : ascii := ascii_of_nat (48 + Z.to_nat n).
Fixpoint digits (fuel : nat) (n : Z) (acc : string) : string :=
  match fuel with
  | O => acc
  | S f => if n <? 10 then String (digit n) acc else digits f (n / 10) (String (digit (n mod 10)) acc)
  end.
Definition string_of_Z (z : Z) : string :=
  match z with
  | Z0 => "0"%string
  | Zpos p => digits (S (Pos.size_nat p)) z EmptyString
  | Zneg p => String "-"%char (digits (S (Pos.size_nat p)) (Zpos p) EmptyString)
  end.

Definition str2 (f : string -> string -> bool) (x y : val) : val :=
  match x, y with
  | VStr a, VStr b => VBool (f a b)
  | _, _ => VNull
  end.

(** functions the engine knows (DuckDB catalog, as far as sqlframe's Column methods reach it) *)
Definition call2 (f : string) (x y : val) : option val :=
  if String.eqb f "STARTS_WITH" then Some (str2 (fun a b => is_prefix b a) x y)
  else if String.eqb f "ENDS_WITH" then Some (str2 (fun a b => is_suffix b a) x y)
  else if String.eqb f "REGEXP_MATCHES" then Some (str2 (fun a b => contains b a) x y)   (* plain patterns only *)
  else None.
(** characters with 0-based index in [start, start + l) *)
Definition sub_from (start l : Z) (s : string) : string :=
  let n := Z.of_nat (String.length s) in
  let e := start + l in
  if (e <=? start) || (n <=? start) then EmptyString
  else stake (Z.to_nat (e - Z.max start 0)) (sdrop (Z.to_nat (Z.max start 0)) s).
(** DuckDB 1.2 (SubstringStartEnd, the path taken for ASCII column data): 1-based; position 0 lies BEFORE the string
    (one character fewer); a negative position counts from the end and, when it falls before the string, is
    moved to its start WITHOUT shortening the length *)
Definition substr_duck (s : string) (p l : Z) : string :=
  let n := Z.of_nat (String.length s) in
  if l =? 0 then EmptyString
  else if 0 <? p then sub_from (p - 1) l s
  else if p <? 0 then sub_from (Z.max (n + p) 0) l s
  else sub_from 0 (l - 1) s.
(** Spark (UTF8String.substringSQL): the same, except that position 0 is read as position 1 *)
Definition substr_spark (s : string) (p l : Z) : string :=
  sub_from (if 0 <? p then p - 1 else if p <? 0 then Z.of_nat (String.length s) + p else 0) l s.
Definition substr3 (f : string -> Z -> Z -> string) (x y z : val) : val :=
  match x, y, z with
  | VStr s, VInt p, VInt l => if 0 <=? l then VStr (f s p l) else VNull
  | _, _, _ => VNull
  end.
Definition call3 (f : string) (x y z : val) : option val :=
  if String.eqb f "SUBSTRING" then Some (substr3 substr_duck x y z) else None.

(** a fractional value cast to an integer type: DuckDB rounds half to even, Spark truncates *)
Definition round_half_even (n : Z) (d : positive) : Z :=
  let fl := n / Zpos d in
  let r2 := 2 * (n - fl * Zpos d) in
  if r2 <? Zpos d then fl else if Zpos d <? r2 then fl + 1 else if Z.even fl then fl else fl + 1.

Definition cast_to (ty : string) (v : val) : val :=
  if String.eqb ty "TEXT" then
    match v with
    | VInt z => VStr (string_of_Z z)
    | VBool b => VStr (if b then "true" else "false")
    | VStr s => VStr s
    | _ => VNull
    end
  else if String.eqb ty "BIGINT" || String.eqb ty "INT" then
    match v with
    | VInt z => VInt z | VBool b => VInt (if b then 1 else 0)
    | VRat n d => VInt (round_half_even n d)
    | _ => VNull
    end
  else if String.eqb ty "DOUBLE" then
    match v with VInt z => VRat z 1 | VRat n d => VRat n d | _ => VNull end
  else if String.eqb ty "BOOLEAN" then
    match v with VBool b => VBool b | VInt z => VBool (negb (z =? 0)) | VRat n _ => VBool (negb (n =? 0)) | _ => VNull end
  else VNull.

(** Spark's cast: as the engine's, except that a fractional value is truncated towards zero *)
Definition cast_spark (ty : string) (v : val) : val :=
  match v with
  | VRat n d => if String.eqb ty "BIGINT" || String.eqb ty "INT" then VInt (Z.quot n (Zpos d)) else cast_to ty v
  | _ => cast_to ty v
  end.

Definition in3 (x : val) (vs : list val) : val :=
  match x with
  | VNull => VNull
  | _ => if existsb (fun v => match v with VNull => false | _ => veq x v end) vs then VBool true
         else if existsb (fun v => match v with VNull => true | _ => false end) vs then VNull
         else VBool false
  end.

Definition between3 (x lo hi : val) : val :=
  val_of_tv (and3 (tv_of_val (cmp3 Ge x lo)) (tv_of_val (cmp3 Le x hi))).

(** DuckDB list indexing: 1-based, 0 -> NULL, negative from the end, out of range -> NULL *)
Definition arr_lookup (arrs : list (string * list val)) (n : string) : option (list val) :=
  match find (fun p => String.eqb (fst p) n) arrs with Some p => Some (snd p) | None => None end.
Definition index1 (l : list val) (i : Z) : val :=
  if 1 <=? i then nth (Z.to_nat (i - 1)) l VNull
  else if i <? 0 then (if 0 <=? Z.of_nat (List.length l) + i then nth (Z.to_nat (Z.of_nat (List.length l) + i)) l VNull else VNull)
  else VNull.

Definition bin3 (o : bop) (x y : val) : val :=
  match o with
  | Add | Sub | Mul | Div | Mod => arith o x y
  | Eq | Neq | Lt | Le | Gt | Ge => cmp3 o x y
  | And => val_of_tv (and3 (tv_of_val x) (tv_of_val y))
  | Or => val_of_tv (or3 (tv_of_val x) (tv_of_val y))
  | Nse => nse x y
  | Like => str2 (fun a b => like_aux b a) x y
  | ILike => str2 (fun a b => like_aux (lower b) (lower a)) x y
  end.

Definition neg3 (v : val) : val :=
  match v with VInt z => VInt (- z) | VRat n d => VRat (- n) d | _ => VNull end.
Definition not3v (v : val) : val := val_of_tv (not3 (tv_of_val v)).
Definition isnull3 (v : val) : val := VBool (match v with VNull => true | _ => false end).

(** the array column a bracket is applied to (through parentheses) *)
Fixpoint abase (e : sexpr) : option string :=
  match e with SCol n => Some n | SParen e => abase e | _ => None end.

Fixpoint seval (en : env) (e : sexpr) : val :=
  match e with
  | SCol n => match lookup (e_cols en) (e_row en) n with Some v => v | None => VNull end
  | SLit v => v
  | SParen e => seval en e
  | SBin o a b => bin3 o (seval en a) (seval en b)
  | SNot e => not3v (seval en e)
  | SNeg e => neg3 (seval en e)
  | SIsNull e => isnull3 (seval en e)
  | SIn e vs => in3 (seval en e) vs
  | SBetween e lo hi => between3 (seval en e) (seval en lo) (seval en hi)
  | SCase bs => sevalb en bs
  | SCast e ty => cast_to ty (seval en e)
  | SCall2 f a b => match call2 f (seval en a) (seval en b) with Some v => v | None => VNull end
  | SCall3 f a b c => match call3 f (seval en a) (seval en b) (seval en c) with Some v => v | None => VNull end
  | SBracket e i =>
      match abase e, seval en i with
      | Some n, VInt k => match arr_lookup (e_arrs en) n with Some l => index1 l k | None => VNull end
      | _, _ => VNull
      end
  end
with sevalb (en : env) (bs : branches) : val :=
  match bs with
  | BEnd => VNull
  | BElse e => seval en e
  | BWhen c v r => match seval en c with VBool true => seval en v | _ => sevalb en r end
  end.

(** the engine rejects a query that calls a function it does not have *)
Fixpoint known (e : sexpr) : bool :=
  match e with
  | SCol _ | SLit _ => true
  | SParen e | SNot e | SNeg e | SIsNull e | SIn e _ | SCast e _ => known e
  | SBin _ a b | SBracket a b => known a && known b
  | SBetween a b c => known a && known b && known c
  | SCase bs => knownb bs
  | SCall2 f a b => (match call2 f VNull VNull with Some _ => true | None => false end) && known a && known b
  | SCall3 f a b c => (match call3 f VNull VNull VNull with Some _ => true | None => false end)
                      && known a && known b && known c
  end
with knownb (bs : branches) : bool :=
  match bs with
  | BEnd => true
  | BElse e => known e
  | BWhen c v r => known c && known v && knownb r
  end.

(** some "/" or "%" somewhere in the tree has a zero divisor on this row (outside the property's domain) *)
Fixpoint divzero (en : env) (e : sexpr) : bool :=
  match e with
  | SCol _ | SLit _ => false
  | SParen e | SNot e | SNeg e | SIsNull e | SIn e _ | SCast e _ => divzero en e
  | SBin o a b =>
      divzero en a || divzero en b ||
      match o with
      | Div | Mod => match num_of (seval en b) with Some (0, _) => true | _ => false end
      | _ => false
      end
  | SBracket a b | SCall2 _ a b => divzero en a || divzero en b
  | SBetween a b c | SCall3 _ a b c => divzero en a || divzero en b || divzero en c
  | SCase bs => divzerob en bs
  end
with divzerob (en : env) (bs : branches) : bool :=
  match bs with
  | BEnd => false
  | BElse e => divzero en e
  | BWhen c v r => divzero en c || divzero en v || divzerob en r
  end.

Lemma abase_strip e : abase (strip e) = abase e.
Proof. induction e; cbn [strip abase]; auto. Qed.

Lemma seval_strip :
  (forall e en, seval en (strip e) = seval en e) /\ (forall bs en, sevalb en (stripb bs) = sevalb en bs).
Proof.
  apply sexpr_branches_ind; intros; cbn [strip stripb seval sevalb]; try reflexivity;
    rewrite ?abase_strip;
    repeat match goal with H : forall en, _ = _ |- _ => rewrite H; clear H end; try reflexivity.
Qed.
