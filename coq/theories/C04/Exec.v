(** C04 -- executable model of one DataFrame call on the heap of Heap.v, and the proof that it is one of the
    behaviours allowed by [sstep] (so the frame theorems of Heap.v speak about exactly the function that the
    correspondence check T3 runs against the implementation).

    The model follows the SOURCE-DERIVED summary for every decision that matters to immutability:
    - whether the body of a decorated method works on the receiver or on a copy   ([f_wraps], generated)
    - whether the display-name update is applied to the receiver                  (open WDisplay write, generated)
    - whether hint objects shared with the receiver / the argument are rewritten  (WHintObj write, generated)
    The content of a NEW DataFrame (its expression and its initial display map) is an input: building
    expressions is the subject of C01/C10.  Its hint LIST is computed here (copies share hint objects). *)
From Coq Require Import List String Ascii Bool Arith Lia PeanoNat.
From SF Require Import C04.Heap.
Import ListNotations.

Definition upd (f : loc -> cellv) (l : loc) (v : cellv) : loc -> cellv := fun x => if Nat.eqb x l then v else f x.
Definition set_cell (h : heap) (l : loc) (v : cellv) : heap := mkH (upd (cells h) l v) (next h) (stmts h).
Definition alloc (h : heap) (v : cellv) : heap * loc := (mkH (upd (cells h) (next h) v) (S (next h)) (stmts h), next h).

(** ** display names *)
Definition lower_ascii (a : ascii) : ascii :=
  let n := nat_of_ascii a in if (65 <=? n) && (n <=? 90) then ascii_of_nat (n + 32) else a.
Fixpoint lower (s : string) : string :=
  match s with EmptyString => EmptyString | String a r => String (lower_ascii a) (lower r) end.
Fixpoint map_set (m : dmap) (k v : string) : dmap :=
  match m with
  | [] => [(k, v)]
  | (k', v') :: t => if String.eqb k' k then (k, v) :: t else (k', v') :: map_set t k v
  end.
Definition map_update (m : dmap) (ps : list (string * string)) : dmap := fold_left (fun m p => map_set m (fst p) (snd p)) ps m.
Fixpoint map_get (m : dmap) (k : string) : option string :=
  match m with [] => None | (k', v) :: t => if String.eqb k' k then Some v else map_get t k end.
Definition mem_str (s : string) (l : list string) : bool := existsb (String.eqb s) l.

(** what the user passed to select()/agg(): 'B' | col('A') | (expr).alias('N') | lit(..)/unnamed expression | '*' *)
Inductive carg := CStr (s : string) | CCol (s : string) | CAliased (s : string) | CLit | CStar.
Definition carg_pair (a : carg) : list (string * string) :=
  match a with CStr s | CCol s | CAliased s => [(lower s, s)] | CLit | CStar => [] end.
Inductive dsrc := DNone | DArgs (a : list carg) | DNames (n : list string) | DRename (o n : string).
(** (normalised alias, display name) pairs that _update_display_name_mapping receives *)
Definition pairs_of (d : dsrc) (cols : list string) : list (string * string) :=
  match d with
  | DNone => []
  | DArgs a => flat_map carg_pair a
  | DNames n => map (fun s => (lower s, s)) n
  | DRename o n => if mem_str (lower o) cols then [(lower n, n)] else []
  end.

(** ** pending hints *)
Definition mem_nat (n : nat) (l : list nat) : bool := existsb (Nat.eqb n) l.
Definition htgt_eqb (a b : htgt) : bool :=
  match a, b with TSeq x, TSeq y | TCte x, TCte y => Nat.eqb x y | _, _ => false end.
Definition hintv_eqb (a b : hintv) : bool := Bool.eqb (hv_join a) (hv_join b) && htgt_eqb (hv_tgt a) (hv_tgt b).
(** _resolve_pending_hints on one join hint: the sequence id is replaced by the name of the latest CTE with that
    sequence id that takes part in the join (in place, on the shared object) *)
Definition resolve_tgt (ctes : list (nat * nat)) (joins : list nat) (hv : hintv) : hintv :=
  if hv_join hv then
    match hv_tgt hv with
    | TSeq s => match find (fun p => Nat.eqb (snd p) s && mem_nat (fst p) joins) (rev ctes) with
                | Some p => mkHv true (TCte (fst p))
                | None => hv
                end
    | TCte _ => hv
    end
  else hv.
(** which hints stay in the COPY's list: partition hints move into the expression, matched join hints too *)
Definition keep_after (ctes : list (nat * nat)) (joins : list nat) (hv : hintv) : bool :=
  if hv_join hv then hintv_eqb (resolve_tgt ctes joins hv) hv else false.
Definition set_all (h : heap) (f : heap -> loc -> cellv) (ls : list loc) : heap :=
  fold_left (fun h l => set_cell h l (f h l)) ls h.
Definition resolve_on (h : heap) (e : exprv) (cur : list loc) : heap * list loc :=
  match cur with
  | [] => (h, cur)
  | _ => (set_all h (fun h l => VHobj (resolve_tgt (e_ctes e) (e_joins e) (get_hobj h l))) cur,
          filter (fun l => keep_after (e_ctes e) (e_joins e) (get_hobj h l)) cur)
  end.
(** alias(): join hints that name the receiver's sequence id are pointed to the new one (in place) *)
Definition alias_on (h : heap) (oldseq newseq : nat) (cur : list loc) : heap :=
  set_all h (fun h l => let hv := get_hobj h l in
                        if hv_join hv && htgt_eqb (hv_tgt hv) (TSeq oldseq) then VHobj (mkHv true (TSeq newseq))
                        else cells h l) cur.

(** ** calls *)
Inductive rmode := RNever | RIfWrapped | RAlways.
Record ekind := mkK { k_disp : dsrc;              (* display-name pairs the body writes *)
                      k_resolve : rmode;          (* when _resolve_pending_hints runs against the receiver's block *)
                      k_other : bool;             (* other._convert_leaf_to_cte() *)
                      k_alias : option nat;       (* alias(): the new sequence id *)
                      k_addhint : option bool;    (* hint()/repartition(): join hint? *)
                      k_join : bool;              (* result also carries the argument's remaining hints *)
                      k_setop : bool;             (* result is wrapped once more without joins *)
                      k_retself : bool;           (* the body returns its `self` (select() without columns) *)
                      k_rebuilt : bool }.         (* the result is rebuilt from the receiver's own hint list (unpivot) *)
Record resinfo := mkR { r_expr : exprv; r_dnm : dmap; r_seq : nat }.
Record ecall := mkEC { ec_name : string; ec_kind : ekind; ec_recv : loc; ec_other : option loc; ec_res : option resinfo }.
Definition call_of (ec : ecall) : call := mkC (ec_name ec) (ec_recv ec) (ec_other ec).

Definition root_eqb (a b : root) : bool := match a, b with RSelf, RSelf | ROther, ROther => true | _, _ => false end.
Definition open_write (F : facts) (h : heap) (c : call) (mi : minfo) (r : root) (t : wt) : bool :=
  existsb (fun w => root_eqb (gw_root w) r && wt_eqb (gw_t w) t && w_open F h c w) (mi_writes mi).

Definition new_df (h : heap) (ri : resinfo) (hl : list loc) (lastk : opk) : heap * loc :=
  let (h1, le) := alloc h (VExpr (r_expr ri)) in
  let (h2, lm) := alloc h1 (VMap (r_dnm ri)) in
  let (h3, ll) := alloc h2 (VList hl) in
  let (h4, lu) := alloc h3 (VSet []) in
  let (h5, lk) := alloc h4 (VLast lastk) in
  alloc h5 (VDf (mkO le lm ll lu lk (r_seq ri))).

Definition wrapped_now (F : facts) (mi : minfo) (last : opk) : bool := existsb (fun op => f_wraps F op last) (mi_wops mi).

Definition result_last (F : facts) (mi : minfo) (last : opk) : opk :=
  match mi_res mi with Some op => f_result_kind F op last | None => last end.

(** copy() under the fixed source: every hint object is copied too *)
Fixpoint clone_all (h0 h : heap) (ls : list loc) : heap * list loc :=
  match ls with
  | [] => (h, [])
  | l :: t => let (h1, n) := alloc h (cells h0 l) in let (h2, ns) := clone_all h0 h1 t in (h2, n :: ns)
  end.

(** the hint objects the body works on (receiver side, argument side) and whether it may rewrite them:
    the very objects of the receiver / argument while copy() shares them (then only if the summary has the write),
    fresh clones otherwise *)
Definition prep (F : facts) (h : heap) (ec : ecall) (mi : minfo) : heap * list loc * list loc * bool * bool :=
  let c := call_of ec in
  let hs := hobjs h (ec_recv ec) in
  let ho := match ec_other ec with Some ol => hobjs h ol | None => [] end in
  if f_shares F then (h, hs, ho, open_write F h c mi RSelf WHintObj, open_write F h c mi ROther WHintObj)
  else let (h1, hs') := clone_all h h hs in let (h2, ho') := clone_all h h1 ho in (h2, hs', ho', true, true).

(** in-place writes; returns the heap, the receiver-side hint list of the result, the argument-side one *)
Definition inplace (F : facts) (h hA : heap) (ec : ecall) (mi : minfo) (hs0 hso : list loc) (can_h can_o : bool)
  : heap * list loc * list loc :=
  let c := call_of ec in
  let k := ec_kind ec in
  let o := get_df h (ec_recv ec) in
  let e := get_expr h (o_expr o) in
  let last := last_of h (ec_recv ec) in
  let wrapped := wrapped_now F mi last in
  let do1 := can_h && match k_resolve k with RNever => false | RIfWrapped => wrapped | RAlways => true end in
  let (h1, cur1) := if do1 then resolve_on hA e hs0 else (hA, hs0) in
  let h2 := if open_write F h c mi RSelf WDisplay
            then set_cell h1 (o_dnm o) (VMap (map_update (get_map h1 (o_dnm o)) (pairs_of (k_disp k) (e_cols e))))
            else h1 in
  let h2 := if k_retself k && negb wrapped && open_write F h c mi RSelf WLast
            then set_cell h2 (o_last o) (VLast (result_last F mi last)) else h2 in
  let (h3, cur3) := match k_alias k with
                    | Some ns => if can_h
                                 then resolve_on (alias_on h2 (o_seq o) ns cur1)
                                                 (if wrapped then mkE (e_cols e) (e_ctes e) [] else e) cur1
                                 else (h2, cur1)
                    | None => (h2, cur1)
                    end in
  let cur3 := if k_rebuilt k then hs0 else cur3 in
  let cur4 := if k_setop k then filter (fun l => hv_join (get_hobj h3 l)) cur3 else cur3 in
  match ec_other ec with
  | Some ol => let (h5, ocur) := if k_other k && can_o
                                 then resolve_on h3 (get_expr h (o_expr (get_df h ol))) hso else (h3, hso) in
               (h5, cur4, ocur)
  | None => (h3, cur4, [])
  end.

Definition run (F : facts) (h : heap) (ec : ecall) : heap * option loc :=
  match find_m F (ec_name ec) with
  | None => (h, None)
  | Some mi =>
    let '(hA, hs0, hso, can_h, can_o) := prep F h ec mi in
    let '(h5, cur4, ocur) := inplace F h hA ec mi hs0 hso can_h can_o in
    let h6 := mkH (cells h5) (next h5) (stmts h5 + if mi_exec mi then 1 else 0) in
    match ec_res ec with
    | None => (h6, None)
    | Some ri =>
      let o := get_df h (ec_recv ec) in
      let (h7, extra) := match k_addhint (ec_kind ec) with
                         | Some j => let (hh, l) := alloc h6 (VHobj (mkHv j (TSeq (if j then o_seq o else 0)))) in (hh, [l])
                         | None => (h6, [])
                         end in
      let hl := cur4 ++ (if k_join (ec_kind ec) then ocur else []) ++ extra in
      let (h8, r) := new_df h7 ri hl (result_last F mi (last_of h (ec_recv ec))) in
      (h8, Some r)
    end
  end.

(** session.createDataFrame: a fresh object with last_op = INIT and no hints *)
Definition run_create (h : heap) (ri : resinfo) : heap * loc := new_df h ri [] INIT.

(** * The executable model is an instance of [sstep] *)
Lemma upd_same : forall f l v, upd f l v l = v.
Proof. intros. unfold upd. rewrite Nat.eqb_refl. reflexivity. Qed.
Lemma upd_other : forall f l v x, x <> l -> upd f l v x = f x.
Proof. intros f l v x H. unfold upd. destruct (Nat.eqb x l) eqn:E; [apply Nat.eqb_eq in E; contradiction | reflexivity]. Qed.

Lemma set_all_frame : forall f ls h, next (set_all h f ls) = next h /\ stmts (set_all h f ls) = stmts h /\
  forall l, ~ In l ls -> cells (set_all h f ls) l = cells h l.
Proof.
  intros f ls. unfold set_all. induction ls as [|a ls IH]; intros h; simpl.
  - auto.
  - destruct (IH (set_cell h a (f h a))) as [E1 [E2 E3]]. rewrite E1, E2. simpl. repeat split; auto.
    intros l Hn. rewrite E3 by tauto. simpl. apply upd_other. intros E. apply Hn. left. auto.
Qed.

Lemma resolve_on_frame : forall h e cur, let r := resolve_on h e cur in
  next (fst r) = next h /\ stmts (fst r) = stmts h /\ (forall l, ~ In l cur -> cells (fst r) l = cells h l) /\
  incl (snd r) cur.
Proof.
  intros h e cur. unfold resolve_on. destruct cur as [|a cur']; simpl.
  - repeat split; auto. apply incl_refl.
  - set (ls := a :: cur').
    destruct (set_all_frame (fun h l => VHobj (resolve_tgt (e_ctes e) (e_joins e) (get_hobj h l))) ls h) as [E1 [E2 E3]].
    repeat split; auto.
    change (incl (filter (fun l : loc => keep_after (e_ctes e) (e_joins e) (get_hobj h l)) ls) ls).
    intros x Hx. apply filter_In in Hx. tauto.
Qed.

Lemma alias_on_frame : forall h o n ls, next (alias_on h o n ls) = next h /\ stmts (alias_on h o n ls) = stmts h /\
  forall l, ~ In l ls -> cells (alias_on h o n ls) l = cells h l.
Proof. intros. unfold alias_on. apply set_all_frame. Qed.

Lemma open_write_mw : forall F h c mi r t rl, open_write F h c mi r t = true ->
  match r with RSelf => Some (c_recv c) | ROther => c_other c end = Some rl ->
  incl (tcells h rl t) (mw F h c mi).
Proof.
  intros F h c mi r t rl H Hr x Hx. unfold open_write in H. apply existsb_exists in H. destruct H as [w [Hw Hc]].
  apply andb_true_iff in Hc. destruct Hc as [Hc Ho]. apply andb_true_iff in Hc. destruct Hc as [Hroot Ht].
  apply wt_eqb_eq in Ht. unfold mw. apply in_flat_map. exists w. split; [exact Hw|].
  unfold w_cells. rewrite Ho. unfold w_root.
  destruct (gw_root w), r; simpl in Hroot, Hr; try discriminate Hroot; simpl.
  - inversion Hr; subst. exact Hx.
  - rewrite Hr, Ht. exact Hx.
Qed.

Lemma inplace_frame : forall F h hA ec mi hs0 hso can_h can_o (W : loc -> Prop),
  let c := call_of ec in let o := get_df h (ec_recv ec) in
  (open_write F h c mi RSelf WDisplay = true -> W (o_dnm o)) ->
  (open_write F h c mi RSelf WLast = true -> W (o_last o)) ->
  (can_h = true -> forall l, In l hs0 -> W l) ->
  (can_o = true -> forall l, In l hso -> W l) ->
  let r := inplace F h hA ec mi hs0 hso can_h can_o in
  next (fst (fst r)) = next hA /\ stmts (fst (fst r)) = stmts hA /\
  (forall l, ~ W l -> cells (fst (fst r)) l = cells hA l) /\
  incl (snd (fst r)) hs0 /\
  (ec_other ec <> None -> incl (snd r) hso) /\
  (ec_other ec = None -> snd r = []).
Proof.
  intros F h hA ec mi hs0 hso can_h can_o W c o WD WL Hcan Hcano. unfold inplace. fold c. fold o.
  set (k := ec_kind ec). set (e := get_expr h (o_expr o)).
  set (wrapped := wrapped_now F mi (last_of h (ec_recv ec))).
  (* phase 1 *)
  set (do1 := can_h && _).
  assert (P1 : exists h1 cur1, (if do1 then resolve_on hA e hs0 else (hA, hs0)) = (h1, cur1) /\
            next h1 = next hA /\ stmts h1 = stmts hA /\ (forall l, ~ W l -> cells h1 l = cells hA l) /\ incl cur1 hs0).
  { destruct do1 eqn:Ed.
    - destruct (resolve_on hA e hs0) as [h1 cur1] eqn:Er. exists h1, cur1. split; [reflexivity|].
      pose proof (resolve_on_frame hA e hs0) as R. rewrite Er in R. simpl in R. destruct R as [R1 [R2 [R3 R4]]].
      repeat split; auto. intros l Hl. apply R3. intros Hin. apply Hl. apply Hcan; [|exact Hin].
      unfold do1 in Ed. apply andb_true_iff in Ed. tauto.
    - exists hA, hs0. repeat split; auto. apply incl_refl. }
  destruct P1 as [h1 [cur1 [E1 [N1 [S1 [C1 I1]]]]]]. rewrite E1.
  (* phase 2 *)
  set (h2 := if open_write F h c mi RSelf WDisplay then _ else h1).
  assert (P2 : next h2 = next hA /\ stmts h2 = stmts hA /\ (forall l, ~ W l -> cells h2 l = cells hA l)).
  { unfold h2. destruct (open_write F h c mi RSelf WDisplay) eqn:Ed; [|auto]. simpl. repeat split; auto.
    intros l Hl. rewrite upd_other; [auto|]. intros E. apply Hl. subst l. apply WD. reflexivity. }
  destruct P2 as [N2 [S2 C2]].
  (* phase 2b: select() returned the receiver itself and the wrapper stamped last_op on it *)
  set (h2b := if k_retself k && negb wrapped && open_write F h c mi RSelf WLast then _ else h2).
  assert (P2b : next h2b = next hA /\ stmts h2b = stmts hA /\ (forall l, ~ W l -> cells h2b l = cells hA l)).
  { unfold h2b. destruct (k_retself k && negb wrapped && open_write F h c mi RSelf WLast) eqn:Ed; [|auto].
    apply andb_true_iff in Ed. destruct Ed as [_ Ed]. simpl. repeat split; auto.
    intros l Hl. rewrite upd_other; [auto|]. intros E. apply Hl. subst l. apply WL. exact Ed. }
  clearbody h2b. clear N2 S2 C2. destruct P2b as [N2 [S2 C2]]. clear h2. rename h2b into h2.
  (* phase 3 *)
  assert (P3 : exists h3 cur3,
            match k_alias k with
            | Some ns => if can_h then resolve_on (alias_on h2 (o_seq o) ns cur1) (if wrapped then mkE (e_cols e) (e_ctes e) [] else e) cur1
                         else (h2, cur1)
            | None => (h2, cur1) end = (h3, cur3) /\
            next h3 = next hA /\ stmts h3 = stmts hA /\ (forall l, ~ W l -> cells h3 l = cells hA l) /\ incl cur3 hs0).
  { destruct (k_alias k) as [ns|]; [|exists h2, cur1; repeat split; auto].
    destruct can_h eqn:Ec; [|exists h2, cur1; repeat split; auto].
    set (ha := alias_on h2 (o_seq o) ns cur1). set (e' := if wrapped then _ else e).
    destruct (resolve_on ha e' cur1) as [h3 cur3] eqn:Er. exists h3, cur3. split; [reflexivity|].
    pose proof (resolve_on_frame ha e' cur1) as R. rewrite Er in R. simpl in R. destruct R as [R1 [R2 [R3 R4]]].
    destruct (alias_on_frame h2 (o_seq o) ns cur1) as [A1 [A2 A3]]. fold ha in A1, A2, A3.
    repeat split.
    - rewrite R1, A1. exact N2.
    - rewrite R2, A2. exact S2.
    - intros l Hl. assert (Hn : ~ In l cur1) by (intros Hin; apply Hl; apply Hcan; [reflexivity | apply I1; exact Hin]).
      rewrite R3 by exact Hn. rewrite A3 by exact Hn. auto.
    - eapply incl_tran; eauto. }
  destruct P3 as [h3 [cur3 [E3 [N3 [S3 [C3 I3]]]]]]. rewrite E3.
  set (cur3' := if k_rebuilt k then hs0 else cur3).
  assert (I3' : incl cur3' hs0) by (unfold cur3'; destruct (k_rebuilt k); [apply incl_refl | exact I3]).
  set (cur4 := if k_setop k then _ else cur3').
  assert (I4 : incl cur4 hs0).
  { unfold cur4. destruct (k_setop k); [|exact I3']. intros x Hx. apply filter_In in Hx. apply I3'. tauto. }
  destruct (ec_other ec) as [ol|] eqn:Eo.
  - set (g := k_other k && can_o).
    assert (P5 : exists h5 ocur, (if g then resolve_on h3 (get_expr h (o_expr (get_df h ol))) hso else (h3, hso)) = (h5, ocur) /\
               next h5 = next hA /\ stmts h5 = stmts hA /\ (forall l, ~ W l -> cells h5 l = cells hA l) /\ incl ocur hso).
    { destruct g eqn:Eg.
      - destruct (resolve_on h3 (get_expr h (o_expr (get_df h ol))) hso) as [h5 ocur] eqn:Er. exists h5, ocur.
        split; [reflexivity|].
        pose proof (resolve_on_frame h3 (get_expr h (o_expr (get_df h ol))) hso) as R. rewrite Er in R. simpl in R.
        destruct R as [R1 [R2 [R3 R4]]]. repeat split; try congruence; auto.
        intros l Hl. rewrite R3; [auto|]. intros Hin. apply Hl. unfold g in Eg. apply andb_true_iff in Eg.
        apply Hcano; [exact (proj2 Eg) | exact Hin].
      - exists h3, hso. repeat split; auto. apply incl_refl. }
    destruct P5 as [h5 [ocur [E5 [N5 [S5 [C5 I5]]]]]]. rewrite E5. simpl.
    repeat split; auto. intros H. discriminate H.
  - simpl. repeat split; auto. intros H. contradiction H. reflexivity.
Qed.

Lemma alloc_frame : forall h v, let r := alloc h v in
  next (fst r) = S (next h) /\ stmts (fst r) = stmts h /\ snd r = next h /\
  cells (fst r) (next h) = v /\ (forall l, l <> next h -> cells (fst r) l = cells h l).
Proof. intros h v. unfold alloc. simpl. repeat split; auto. apply upd_same. intros l H. apply upd_other. exact H. Qed.

Lemma new_df_spec : forall h ri hl lastk, let r := new_df h ri hl lastk in
  next (fst r) = 6 + next h /\ stmts (fst r) = stmts h /\ snd r = 5 + next h /\
  (forall l, l < next h -> cells (fst r) l = cells h l) /\
  own (fst r) (snd r) = [5 + next h; next h; 1 + next h; 2 + next h; 3 + next h; 4 + next h] /\
  hobjs (fst r) (snd r) = hl.
Proof.
  intros h ri hl lastk. unfold new_df.
  destruct (alloc h (VExpr (r_expr ri))) as [h1 le] eqn:A1. pose proof (alloc_frame h (VExpr (r_expr ri))) as F1. rewrite A1 in F1. simpl in F1.
  destruct F1 as [N1 [S1 [L1 [V1 O1]]]].
  destruct (alloc h1 (VMap (r_dnm ri))) as [h2 lm] eqn:A2. pose proof (alloc_frame h1 (VMap (r_dnm ri))) as F2. rewrite A2 in F2. simpl in F2.
  destruct F2 as [N2 [S2 [L2 [V2 O2]]]].
  destruct (alloc h2 (VList hl)) as [h3 ll] eqn:A3. pose proof (alloc_frame h2 (VList hl)) as F3. rewrite A3 in F3. simpl in F3.
  destruct F3 as [N3 [S3 [L3 [V3 O3]]]].
  destruct (alloc h3 (VSet [])) as [h4 lu] eqn:A4. pose proof (alloc_frame h3 (VSet [])) as F4. rewrite A4 in F4. simpl in F4.
  destruct F4 as [N4 [S4 [L4 [V4 O4]]]].
  destruct (alloc h4 (VLast lastk)) as [h5 lk] eqn:A5. pose proof (alloc_frame h4 (VLast lastk)) as F5. rewrite A5 in F5. simpl in F5.
  destruct F5 as [N5 [S5 [L5 [V5 O5]]]].
  set (ob := mkO le lm ll lu lk (r_seq ri)).
  pose proof (alloc_frame h5 (VDf ob)) as F6. destruct (alloc h5 (VDf ob)) as [h6 r] eqn:A6. simpl in F6.
  destruct F6 as [N6 [S6 [L6 [V6 O6]]]]. simpl.
  assert (Er : r = 5 + next h) by lia.
  assert (Hdf : get_df h6 r = ob) by (unfold get_df; rewrite L6, V6; reflexivity).
  repeat split.
  - lia.
  - congruence.
  - exact Er.
  - intros l Hl. rewrite O6 by lia. rewrite O5 by lia. rewrite O4 by lia. rewrite O3 by lia. rewrite O2 by lia. apply O1. lia.
  - unfold own. rewrite Hdf. unfold ob. simpl. subst. repeat f_equal; lia.
  - unfold hobjs. rewrite Hdf. unfold ob. simpl. unfold get_list. rewrite L3.
    rewrite O6 by lia. rewrite O5 by lia. rewrite O4 by lia. rewrite V3. reflexivity.
Qed.

Lemma nodup6 : forall n, NoDup [5 + n; n; 1 + n; 2 + n; 3 + n; 4 + n].
Proof.
  intros n. repeat constructor; simpl; intuition lia.
Qed.

Theorem run_create_screate : forall h live ri, wf (h, live) ->
  screate (h, live) (fst (run_create h ri), snd (run_create h ri) :: live).
Proof.
  intros h live ri Hwf. unfold run_create. pose proof (new_df_spec h ri [] INIT) as S.
  destruct (new_df h ri [] INIT) as [h' r]. simpl in *. destruct S as [N [St [R [O [Ow Hb]]]]].
  unfold screate. repeat split; auto; try lia.
  exists r. split; [reflexivity|]. unfold fresh_obj. rewrite Ow, Hb. repeat split.
  - simpl in H. intuition lia.
  - simpl in H. intuition lia.
  - apply nodup6.
  - intros l [].
  - intros l [].
Qed.

Lemma clone_all_frame : forall h0 ls h, let r := clone_all h0 h ls in
  next h <= next (fst r) /\ stmts (fst r) = stmts h /\ (forall l, l < next h -> cells (fst r) l = cells h l) /\
  (forall l, In l (snd r) -> next h <= l < next (fst r)).
Proof.
  intros h0 ls. induction ls as [|x t IH]; intros h; cbn [clone_all].
  - cbn [fst snd]. split; [lia|]. split; [reflexivity|]. split; [auto|]. intros l [].
  - pose proof (alloc_frame h (cells h0 x)) as AF. destruct (alloc h (cells h0 x)) as [h1 n]. cbn [fst snd] in AF.
    destruct AF as [A1 [A2 [A3 [A4 A5]]]]. specialize (IH h1). destruct (clone_all h0 h1 t) as [h2 ns]. cbn [fst snd] in *.
    destruct IH as [I1 [I2 [I3 I4]]]. split; [lia|]. split; [congruence|]. split.
    + intros l Hl. rewrite I3 by lia. apply A5. lia.
    + intros l [<-|H]; [lia | apply I4 in H; lia].
Qed.

Lemma prep_spec : forall F h ec mi, let c := call_of ec in
  let ho := match ec_other ec with Some ol => hobjs h ol | None => [] end in
  match prep F h ec mi with
  | (hA, hs0, hso, can_h, can_o) =>
      next h <= next hA /\ stmts hA = stmts h /\ (forall l, l < next h -> cells hA l = cells h l) /\
      ((hs0 = hobjs h (ec_recv ec) /\ hso = ho /\ can_h = open_write F h c mi RSelf WHintObj /\
        can_o = open_write F h c mi ROther WHintObj) \/
       (forall l, In l (hs0 ++ hso) -> next h <= l < next hA))
  end.
Proof.
  intros F h ec mi c ho. unfold prep. fold c. fold ho. destruct (f_shares F).
  - repeat split; auto.
  - pose proof (clone_all_frame h (hobjs h (ec_recv ec)) h) as C1. destruct (clone_all h h (hobjs h (ec_recv ec))) as [h1 hs'].
    pose proof (clone_all_frame h ho h1) as C2. destruct (clone_all h h1 ho) as [h2 ho']. simpl in *.
    destruct C1 as [A1 [A2 [A3 A4]]]. destruct C2 as [B1 [B2 [B3 B4]]]. repeat split.
    + lia.
    + congruence.
    + intros l Hl. rewrite B3 by lia. apply A3. exact Hl.
    + right. intros l Hl. apply in_app_or in Hl. destruct Hl as [Hl|Hl]; [apply A4 in Hl | apply B4 in Hl]; lia.
Qed.

(** the model's call is one of the behaviours [sstep] allows *)
Theorem run_sstep : forall F h live ec, wf (h, live) -> In (ec_recv ec) live ->
  (forall o, ec_other ec = Some o -> In o live) -> find_m F (ec_name ec) <> None ->
  sstep F (h, live) (call_of ec) (fst (run F h ec), match snd (run F h ec) with Some r => r :: live | None => live end).
Proof.
  intros F h live ec Hwf Hr Ho Hf. unfold run. destruct (find_m F (ec_name ec)) as [mi|] eqn:Ef; [|contradiction Hf; reflexivity].
  destruct Hwf as [HA [HD [HB HC]]].
  pose proof (prep_spec F h ec mi) as PS. destruct (prep F h ec mi) as [[[[hA hs0] hso] can_h] can_o]. simpl in PS.
  destruct PS as [NA [SA [CA Hmode]]].
  set (c := call_of ec) in *.
  set (W := fun l => In l (mw F h c mi) \/ next h <= l).
  (* where the hint objects the body touches live *)
  assert (Hhs : forall l, In l hs0 -> (In l (hobjs h (ec_recv ec)) /\ (can_h = true -> In l (mw F h c mi))) \/ next h <= l < next hA).
  { intros l Hl. destruct Hmode as [[-> [_ [-> _]]]|Hfresh].
    - left. split; [exact Hl|]. intros Hc. exact (open_write_mw F h c mi RSelf WHintObj (c_recv c) Hc eq_refl l Hl).
    - right. apply Hfresh. apply in_or_app. left. exact Hl. }
  assert (Hho : forall l, In l hso -> (exists ol, ec_other ec = Some ol /\ In l (hobjs h ol) /\ (can_o = true -> In l (mw F h c mi))) \/ next h <= l < next hA).
  { intros l Hl. destruct Hmode as [[_ [-> [_ ->]]]|Hfresh].
    - destruct (ec_other ec) as [ol|] eqn:Eo; [|destruct Hl]. left. exists ol. split; [reflexivity|]. split; [exact Hl|].
      intros Hc. exact (open_write_mw F h c mi ROther WHintObj ol Hc Eo l Hl).
    - right. apply Hfresh. apply in_or_app. right. exact Hl. }
  pose proof (inplace_frame F h hA ec mi hs0 hso can_h can_o W) as IF. simpl in IF.
  assert (IF' := IF
     (fun Hd => or_introl (open_write_mw F h c mi RSelf WDisplay (c_recv c) Hd eq_refl _ (or_introl eq_refl)))
     (fun Hd => or_introl (open_write_mw F h c mi RSelf WLast (c_recv c) Hd eq_refl _ (or_introl eq_refl)))).
  clear IF.
  assert (IF := IF'
     (fun Hc l Hl => match Hhs l Hl with or_introl (conj _ Hm) => or_introl (Hm Hc) | or_intror Hfr => or_intror (proj1 Hfr) end)
     (fun Hc l Hl => match Hho l Hl with
                     | or_introl (ex_intro _ ol (conj _ (conj _ Hm))) => or_introl (Hm Hc)
                     | or_intror Hfr => or_intror (proj1 Hfr) end)).
  clear IF'.
  destruct (inplace F h hA ec mi hs0 hso can_h can_o) as [[h5 cur4] ocur]. simpl in IF.
  destruct IF as [N5 [S5 [C5 [I4 [Io Ion]]]]].
  set (h6 := mkH (cells h5) (next h5) (stmts h5 + (if mi_exec mi then 1 else 0))).
  assert (N6 : next h6 = next hA) by exact N5.
  assert (S6 : stmts h6 = stmts h + (if mi_exec mi then 1 else 0)) by (unfold h6; simpl; rewrite S5, SA; reflexivity).
  assert (C6 : forall l, cells h6 l = cells h5 l) by reflexivity.
  clearbody h6.
  assert (Hstep6 : forall h', next h6 <= next h' -> stmts h' = stmts h6 -> (forall l, l < next h6 -> cells h' l = cells h6 l) ->
                   step F h c h').
  { intros h' Hn Hs Hc. exists mi. split; [exact Ef|]. split; [lia|]. split; [|split].
    - intros l Hl Hm. rewrite Hc by lia. rewrite C6. rewrite C5; [apply CA; exact Hl|].
      unfold W. intros [Hx|Hx]; [exact (Hm Hx) | lia].
    - lia.
    - intros Hx. rewrite Hx in S6. lia. }
  (* every hint object of the result: shared with a source of the call, or fresh *)
  assert (Hcur : forall l, In l cur4 -> In l (hobjs h (ec_recv ec)) \/ next h <= l < next hA).
  { intros l Hl. destruct (Hhs l (I4 l Hl)) as [[H _]|H]; auto. }
  assert (Hocur : forall l, In l ocur -> (exists ol, ec_other ec = Some ol /\ In l (hobjs h ol)) \/ next h <= l < next hA).
  { intros l Hl. destruct (ec_other ec) as [ol|] eqn:Eo.
    - assert (Hne : Some ol <> None) by discriminate. destruct (Hho l (Io Hne l Hl)) as [[ol' [E [H _]]]|H]; [left; exists ol'; auto | right; exact H].
    - rewrite (Ion eq_refl) in Hl. destruct Hl. }
  destruct (ec_res ec) as [ri|].
  - set (o := get_df h (ec_recv ec)).
    assert (PX : exists h7 extra, match k_addhint (ec_kind ec) with
                  | Some j => let (hh, l) := alloc h6 (VHobj (mkHv j (TSeq (if j then o_seq o else 0)))) in (hh, [l])
                  | None => (h6, []) end = (h7, extra) /\ next h6 <= next h7 /\ stmts h7 = stmts h6 /\
                  (forall l, l < next h6 -> cells h7 l = cells h6 l) /\ (forall l, In l extra -> next h6 <= l < next h7)).
    { destruct (k_addhint (ec_kind ec)) as [j|].
      - pose proof (alloc_frame h6 (VHobj (mkHv j (TSeq (if j then o_seq o else 0))))) as AF.
        destruct (alloc h6 (VHobj (mkHv j (TSeq (if j then o_seq o else 0))))) as [hh l]. simpl in AF. destruct AF as [A1 [A2 [A3 [A4 A5]]]].
        exists hh, [l]. split; [reflexivity|]. split; [lia|]. split; [exact A2|]. split.
        + intros x Hx. apply A5. lia.
        + intros x [<-|[]]. lia.
      - exists h6, []. split; [reflexivity|]. split; [lia|]. split; [reflexivity|]. split; [auto | intros l []]. }
    destruct PX as [h7 [extra [E7 [N7 [S7 [C7 X7]]]]]]. rewrite E7.
    set (hl := cur4 ++ (if k_join (ec_kind ec) then ocur else []) ++ extra).
    pose proof (new_df_spec h7 ri hl (result_last F mi (last_of h (ec_recv ec)))) as NS.
    destruct (new_df h7 ri hl (result_last F mi (last_of h (ec_recv ec)))) as [h8 r]. simpl in NS.
    destruct NS as [N8 [S8 [R8 [C8 [Ow Hb]]]]]. simpl.
    unfold sstep. split; [exact Hr|]. split; [exact Ho|]. split.
    + apply Hstep6; [lia | congruence |]. intros l Hl. rewrite C8 by lia. apply C7. exact Hl.
    + right. exists r. split; [reflexivity|].
      unfold fresh_obj. rewrite Ow, Hb. repeat split.
      * simpl in H. intuition lia.
      * simpl in H. intuition lia.
      * apply nodup6.
      * intros l Hl. unfold hl in Hl. apply in_app_or in Hl. destruct Hl as [Hl|Hl].
        { destruct (Hcur l Hl) as [H|H]; [right; exists (ec_recv ec); split; [simpl; auto | exact H] | left; lia]. }
        apply in_app_or in Hl. destruct Hl as [Hl|Hl].
        { destruct (k_join (ec_kind ec)); [|destruct Hl]. destruct (Hocur l Hl) as [[ol [Eo H]]|H]; [|left; lia].
          right. exists ol. split; [unfold srcs_of, c, call_of; simpl; rewrite Eo; simpl; auto | exact H]. }
        left. apply X7 in Hl. lia.
      * intros l Hl Hown. assert (Hge : next h7 <= l) by (simpl in Hown; intuition lia).
        unfold hl in Hl. apply in_app_or in Hl. destruct Hl as [Hl|Hl].
        { destruct (Hcur l Hl) as [H|H]; [|lia].
          assert (l < next h) by (apply HA with (ec_recv ec); [exact Hr | apply in_or_app; right; exact H]). lia. }
        apply in_app_or in Hl. destruct Hl as [Hl|Hl].
        { destruct (k_join (ec_kind ec)); [|destruct Hl]. destruct (Hocur l Hl) as [[ol [Eo H]]|H]; [|lia].
          assert (l < next h) by (apply HA with ol; [apply Ho; exact Eo | apply in_or_app; right; exact H]). lia. }
        apply X7 in Hl. lia.
  - unfold sstep. split; [exact Hr|]. split; [exact Ho|]. split; [|left; reflexivity].
    apply Hstep6; auto.
Qed.

(** * Observables computed from a DataFrame's value *)
Definition columns_of (v : exprv * dmap * list hintv) : list string :=
  let '(e, m, _) := v in map (fun c => match map_get m c with Some d => d | None => c end) (e_cols e).
(** the hint comment that sql(dialect='spark') shows: partition hints always, join hints when the block joins *)
Definition emitted_hints (v : exprv * dmap * list hintv) : list hintv :=
  let '(e, _, hs) := v in
  filter (fun hv => negb (hv_join hv)) hs ++
  match e_joins e with [] => [] | _ => map (resolve_tgt (e_ctes e) (e_joins e)) (filter hv_join hs) end.

(** * Scripts: every heap the executable model produces from the empty heap is [reachable] *)
Inductive rstep :=
| SCreate (ri : resinfo)
| SCall (name : string) (k : ekind) (recv : nat) (other : option nat) (res : option resinfo).
(** variables are numbered in creation order; the live list has the newest first *)
Definition var_of (live : list loc) (v : nat) : option loc := nth_error (rev live) v.
Definition exec1 (F : facts) (st : state) (s : rstep) : option state :=
  let (h, live) := st in
  match s with
  | SCreate ri => let r := run_create h ri in Some (fst r, snd r :: live)
  | SCall name k recv other res =>
      match var_of live recv, find_m F name with
      | Some rl, Some _ =>
          match other with
          | None => let r := run F h (mkEC name k rl None res) in
                    Some (fst r, match snd r with Some l => l :: live | None => live end)
          | Some ov => match var_of live ov with
                       | Some ol => let r := run F h (mkEC name k rl (Some ol) res) in
                                    Some (fst r, match snd r with Some l => l :: live | None => live end)
                       | None => None
                       end
          end
      | _, _ => None
      end
  end.
Fixpoint exec_prog (F : facts) (st : state) (p : list rstep) : option state :=
  match p with
  | [] => Some st
  | s :: p' => match exec1 F st s with Some st' => exec_prog F st' p' | None => None end
  end.

Lemma var_of_in : forall live v l, var_of live v = Some l -> In l live.
Proof. intros live v l H. unfold var_of in H. apply nth_error_In in H. apply in_rev. exact H. Qed.

(** one script step is a [screate] or an [sstep] *)
Lemma exec1_call_sstep : forall F h live name k recv other res st', wf (h, live) ->
  exec1 F (h, live) (SCall name k recv other res) = Some st' ->
  exists c, sstep F (h, live) c st' /\ c_name c = name /\ var_of live recv = Some (c_recv c).
Proof.
  intros F h live name k recv other res st' Hwf H. simpl in H.
  destruct (var_of live recv) as [rl|] eqn:Er; [|discriminate H].
  destruct (find_m F name) as [mi|] eqn:Ef; [|discriminate H].
  destruct other as [ov|].
  - destruct (var_of live ov) as [ol|] eqn:Eo; [|discriminate H]. inversion H; subst; clear H.
    exists (call_of (mkEC name k rl (Some ol) res)). split; [|split; reflexivity].
    apply run_sstep; simpl; auto.
    + eapply var_of_in; eauto.
    + intros o Ho. inversion Ho; subst. eapply var_of_in; eauto.
    + rewrite Ef. discriminate.
  - inversion H; subst; clear H.
    exists (call_of (mkEC name k rl None res)). split; [|split; reflexivity].
    apply run_sstep; simpl; auto.
    + eapply var_of_in; eauto.
    + intros o Ho. discriminate Ho.
    + rewrite Ef. discriminate.
Qed.

Lemma exec1_reachable : forall F st s st', facts_struct_ok F = true -> reachable F st -> exec1 F st s = Some st' -> reachable F st'.
Proof.
  intros F [h live] s st' Hs Hr H. assert (Hwf := reachable_wf Hs Hr). destruct s as [ri|name k recv other res].
  - simpl in H. inversion H; subst. eapply Rcreate; [exact Hr|]. apply run_create_screate. exact Hwf.
  - destruct (exec1_call_sstep F h live name k recv other res st' Hwf H) as [c [Hc _]]. eapply Rcall; eauto.
Qed.

Theorem exec_prog_reachable : forall F p st st', facts_struct_ok F = true -> reachable F st -> exec_prog F st p = Some st' ->
  reachable F st'.
Proof.
  intros F p. induction p as [|s p IH]; intros st st' Hs Hr H; simpl in H.
  - inversion H; subst. exact Hr.
  - destruct (exec1 F st s) as [st1|] eqn:E; [|discriminate H]. apply (IH st1 st' Hs); [|exact H].
    exact (exec1_reachable F st s st1 Hs Hr E).
Qed.

(** a refutation witness: a script, then one more call that changes the value of a DataFrame that existed before *)
Definition witness (F : facts) (p : list rstep) (last : rstep) (v : nat) : Prop :=
  exists st st' d0, exec_prog F (h0, []) p = Some st /\ exec1 F st last = Some st' /\
                    var_of (snd st) v = Some d0 /\ value (fst st') d0 <> value (fst st) d0.

Theorem witness_refutes : forall F p name k recv other res v, facts_struct_ok F = true ->
  witness F p (SCall name k recv other res) v ->
  exists st c st' d0, reachable F st /\ sstep F st c st' /\ c_name c = name /\ In d0 (snd st) /\
                      value (fst st') d0 <> value (fst st) d0.
Proof.
  intros F p name k recv other res v Hs [st [st' [d0 [Hp [H1 [Hv Hne]]]]]].
  assert (Hr : reachable F st) by (apply (exec_prog_reachable F p (h0, []) st Hs (R0 F) Hp)).
  destruct st as [h live]. destruct (exec1_call_sstep F h live name k recv other res st' (reachable_wf Hs Hr) H1) as [c [Hc [Hn _]]].
  exists (h, live), c, st', d0. repeat split; auto. eapply var_of_in; eauto.
Qed.

(** boolean form of [witness], so that a refutation is closed by vm_compute *)
Fixpoint list_eqb {A} (eqb : A -> A -> bool) (a b : list A) : bool :=
  match a, b with
  | [], [] => true
  | x :: a', y :: b' => eqb x y && list_eqb eqb a' b'
  | _, _ => false
  end.
Definition pair_eqb (a b : string * string) : bool := String.eqb (fst a) (fst b) && String.eqb (snd a) (snd b).
Definition value_eqb (a b : exprv * dmap * list hintv) : bool :=
  list_eqb String.eqb (e_cols (fst (fst a))) (e_cols (fst (fst b))) &&
  list_eqb pair_eqb (snd (fst a)) (snd (fst b)) && list_eqb hintv_eqb (snd a) (snd b).
Lemma list_eqb_refl : forall A (eqb : A -> A -> bool), (forall x, eqb x x = true) -> forall l, list_eqb eqb l l = true.
Proof. intros A eqb H l. induction l as [|x l IH]; simpl; [reflexivity | rewrite H, IH; reflexivity]. Qed.
Lemma hintv_eqb_refl : forall x, hintv_eqb x x = true.
Proof.
  intros [j t]. unfold hintv_eqb. simpl. rewrite Bool.eqb_reflx. destruct t; simpl; apply Nat.eqb_refl.
Qed.
Lemma value_eqb_refl : forall v, value_eqb v v = true.
Proof.
  intros [[e m] hs]. unfold value_eqb. simpl.
  rewrite (list_eqb_refl _ String.eqb String.eqb_refl).
  rewrite (list_eqb_refl _ pair_eqb) by (intros [a b]; unfold pair_eqb; simpl; rewrite !String.eqb_refl; reflexivity).
  rewrite (list_eqb_refl _ hintv_eqb hintv_eqb_refl). reflexivity.
Qed.
Definition witness_b (F : facts) (p : list rstep) (last : rstep) (v : nat) : bool :=
  match exec_prog F (h0, []) p with
  | Some st => match exec1 F st last, var_of (snd st) v with
               | Some st', Some d0 => negb (value_eqb (value (fst st') d0) (value (fst st) d0))
               | _, _ => false
               end
  | None => false
  end.
Lemma witness_b_sound : forall F p last v, witness_b F p last v = true -> witness F p last v.
Proof.
  intros F p last v H. unfold witness_b in H. destruct (exec_prog F (h0, []) p) as [st|] eqn:E1; [|discriminate H].
  destruct (exec1 F st last) as [st'|] eqn:E2; [|discriminate H].
  destruct (var_of (snd st) v) as [d0|] eqn:E3; [|discriminate H].
  exists st, st', d0. repeat split; auto. intros Heq. rewrite Heq in H. rewrite value_eqb_refl in H. discriminate H.
Qed.
