(** C04 -- object-heap model of DataFrame immutability (generic part: independent of /repo).

    Every Python object that matters is a CELL at a location: the DataFrame object itself (its attribute
    pointers), its expression tree, its display-name dict, its pending-hint LIST, every hint OBJECT, its
    known-uuid set and its last_op field.  `copy()` allocates fresh cells for everything except the hint
    objects (object_to_dict copies the list shallowly), so two DataFrames may share hint-object cells.

    A method call is described by the *receiver-write summary* regenerated from the source (Gen.C04Facts):
    which kinds of cells may be written through the receiver / the DataFrame argument, each with the guard
    chain of @operation kinds that must not wrap for the write to reach the receiver itself.  [step] is the
    most liberal behaviour compatible with a summary; the frame theorems below hold for every such
    behaviour, hence for the executable model of Exec.v (lemma [run_sstep] there) that T3 compares with the
    implementation. *)
From Coq Require Import List String Bool Arith Lia PeanoNat.
Import ListNotations.
Set Implicit Arguments.

(** * Facts regenerated from the source *)
Inductive opk := INIT | NO_OP | FROM | WHERE | GROUP_BY | HAVING | SELECT | ORDER_BY | LIMIT.
Definition opk_eqb (a b : opk) : bool :=
  match a, b with
  | INIT, INIT | NO_OP, NO_OP | FROM, FROM | WHERE, WHERE | GROUP_BY, GROUP_BY | HAVING, HAVING
  | SELECT, SELECT | ORDER_BY, ORDER_BY | LIMIT, LIMIT => true
  | _, _ => false
  end.
Definition all_opk := [INIT; NO_OP; FROM; WHERE; GROUP_BY; HAVING; SELECT; ORDER_BY; LIMIT].

(** kinds of cells a write can hit *)
Inductive wt := WDisplay | WHintList | WHintObj | WUuids | WExpr | WLast | WAttr | WOther.
Definition wt_eqb (a b : wt) : bool :=
  match a, b with
  | WDisplay, WDisplay | WHintList, WHintList | WHintObj, WHintObj | WUuids, WUuids | WExpr, WExpr
  | WLast, WLast | WAttr, WAttr | WOther, WOther => true
  | _, _ => false
  end.
Lemma wt_eqb_eq : forall a b, wt_eqb a b = true -> a = b.
Proof. destruct a, b; simpl; intros H; try reflexivity; discriminate H. Qed.
(** writes that change which cells an object points to (the separation invariant does not survive them) *)
Definition is_struct (t : wt) : bool := match t with WHintList | WAttr | WOther => true | _ => false end.
(** writes that reach the receiver even when the body got a copy: hint objects are shared by copies *)
Definition shared_t (t : wt) : bool := match t with WHintObj => true | _ => false end.

Inductive root := RSelf | ROther.
Record gwrite := mkW { gw_guard : list opk; gw_root : root; gw_t : wt }.
Inductive rkind := RetDF | RetGrouped | RetOther.
Record minfo := mkM { mi_name : string;
                      mi_op : option opk;        (* its own @operation decorator *)
                      mi_wops : list opk;        (* kinds of all wrappers the call passes the receiver through *)
                      mi_res : option opk;       (* kind of the wrapper that stamps last_op on the result *)
                      mi_writes : list gwrite; mi_exec : bool; mi_ret : rkind; mi_retself : bool }.
Record facts := mkF { f_methods : list minfo;
                      f_wraps : opk -> opk -> bool;        (* decorator kind, receiver's last_op -> body gets a copy *)
                      f_result_kind : opk -> opk -> opk;   (* last_op given to the result *)
                      f_shares : bool }.                   (* copy() keeps the very hint objects (shallow list copy) *)

(** * Heap *)
Definition loc := nat.
Definition dmap := list (string * string).
Record exprv := mkE { e_cols : list string;          (* normalised names of the outer SELECT *)
                      e_ctes : list (nat * nat);      (* (cte name, sequence id) in order *)
                      e_joins : list nat }.           (* cte names in FROM/JOIN when the block has a join *)
Inductive htgt := TSeq (n : nat) | TCte (n : nat).
Record hintv := mkHv { hv_join : bool; hv_tgt : htgt }.
Record dfobj := mkO { o_expr : loc; o_dnm : loc; o_hints : loc; o_uuids : loc; o_last : loc; o_seq : nat }.
Inductive cellv :=
| VNone | VDf (o : dfobj) | VExpr (e : exprv) | VMap (m : dmap) | VList (l : list loc) | VHobj (v : hintv)
| VSet (s : list nat) | VLast (k : opk).
Record heap := mkH { cells : loc -> cellv; next : loc; stmts : nat }.

Definition dflt_o := mkO 0 0 0 0 0 0.
Definition get_df (h : heap) l := match cells h l with VDf o => o | _ => dflt_o end.
Definition get_expr (h : heap) l := match cells h l with VExpr e => e | _ => mkE [] [] [] end.
Definition get_map (h : heap) l := match cells h l with VMap m => m | _ => [] end.
Definition get_list (h : heap) l := match cells h l with VList m => m | _ => [] end.
Definition get_hobj (h : heap) l := match cells h l with VHobj v => v | _ => mkHv false (TSeq 0) end.
Definition get_last (h : heap) l := match cells h l with VLast k => k | _ => INIT end.

(** cells owned by one DataFrame object, and the (possibly shared) hint objects it reaches *)
Definition own (h : heap) (d : loc) : list loc :=
  let o := get_df h d in [d; o_expr o; o_dnm o; o_hints o; o_uuids o; o_last o].
Definition hobjs (h : heap) (d : loc) : list loc := get_list h (o_hints (get_df h d)).
(** everything the observables of [d] are computed from *)
Definition vfoot (h : heap) (d : loc) : list loc :=
  let o := get_df h d in [d; o_expr o; o_dnm o; o_hints o] ++ hobjs h d.
Definition value (h : heap) (d : loc) : exprv * dmap * list hintv :=
  let o := get_df h d in (get_expr h (o_expr o), get_map h (o_dnm o), map (get_hobj h) (hobjs h d)).
Definition last_of (h : heap) (d : loc) : opk := get_last h (o_last (get_df h d)).

Lemma value_same : forall h h' d,
  (forall l, In l (vfoot h d) -> cells h' l = cells h l) -> value h' d = value h d.
Proof.
  intros h h' d H. unfold value, vfoot in *.
  assert (Hd : get_df h' d = get_df h d) by (unfold get_df; rewrite H; [reflexivity | simpl; auto]).
  rewrite Hd. set (o := get_df h d) in *.
  assert (He : get_expr h' (o_expr o) = get_expr h (o_expr o)) by (unfold get_expr; rewrite H; [reflexivity | simpl; auto]).
  assert (Hm : get_map h' (o_dnm o) = get_map h (o_dnm o)) by (unfold get_map; rewrite H; [reflexivity | simpl; auto]).
  assert (Hl : hobjs h' d = hobjs h d).
  { unfold hobjs. rewrite Hd. fold o. unfold get_list. rewrite H; [reflexivity | simpl; auto]. }
  rewrite He, Hm, Hl. f_equal. apply map_ext_in. intros l Hin.
  unfold get_hobj. rewrite H; [reflexivity|]. simpl. right; right; right; right. exact Hin.
Qed.

(** * Calls and the may-write set *)
Record call := mkC { c_name : string; c_recv : loc; c_other : option loc }.
Definition find_m (F : facts) (name : string) : option minfo :=
  find (fun mi => String.eqb (mi_name mi) name) (f_methods F).

Definition tcells (h : heap) (d : loc) (t : wt) : list loc :=
  let o := get_df h d in
  match t with
  | WDisplay => [o_dnm o] | WHintList => [o_hints o] | WHintObj => hobjs h d | WUuids => [o_uuids o]
  | WExpr => [o_expr o] | WLast => [o_last o] | WAttr | WOther => [d]
  end.
Definition guard_open (F : facts) (g : list opk) (l : opk) : bool := forallb (fun op => negb (f_wraps F op l)) g.
(** does the write reach an existing object?  through the receiver: iff no wrapper on the way made a copy,
    or the target is shared by copies anyway; through the DataFrame argument: always (no guard is known) *)
Definition w_open (F : facts) (h : heap) (c : call) (w : gwrite) : bool :=
  match gw_root w with
  | RSelf => shared_t (gw_t w) || guard_open F (gw_guard w) (last_of h (c_recv c))
  | ROther => true
  end.
Definition w_root (c : call) (w : gwrite) : option loc :=
  match gw_root w with RSelf => Some (c_recv c) | ROther => c_other c end.
Definition w_cells (F : facts) (h : heap) (c : call) (w : gwrite) : list loc :=
  if w_open F h c w then match w_root c w with Some r => tcells h r (gw_t w) | None => [] end else [].
Definition mw (F : facts) (h : heap) (c : call) (mi : minfo) : list loc := flat_map (w_cells F h c) (mi_writes mi).

(** the most liberal heap transition compatible with the summary: allocated cells outside the may-write set
    keep their content; nothing reaches the engine unless the summary says the method executes *)
Definition step (F : facts) (h : heap) (c : call) (h' : heap) : Prop :=
  exists mi, find_m F (c_name c) = Some mi /\
    next h <= next h' /\
    (forall l, l < next h -> ~ In l (mw F h c mi) -> cells h' l = cells h l) /\
    stmts h <= stmts h' /\
    (mi_exec mi = false -> stmts h' = stmts h).

(** decidable domain of the frame theorem: the may-write set of this call in this state is empty *)
Definition call_safe (F : facts) (h : heap) (c : call) : bool :=
  match find_m F (c_name c) with
  | Some mi => forallb (fun w => match w_cells F h c w with [] => true | _ => false end) (mi_writes mi)
  | None => false
  end.
(** all open writes go through the receiver into cells it owns alone *)
Definition self_only (F : facts) (h : heap) (c : call) : bool :=
  match find_m F (c_name c) with
  | Some mi => forallb (fun w => match w_cells F h c w with
                                 | [] => true
                                 | _ => match gw_root w with RSelf => negb (shared_t (gw_t w)) | ROther => false end
                                 end) (mi_writes mi)
  | None => false
  end.
Definition facts_struct_ok (F : facts) : bool :=
  forallb (fun mi => forallb (fun w => negb (is_struct (gw_t w))) (mi_writes mi)) (f_methods F).

Lemma find_m_in : forall F n mi, find_m F n = Some mi -> In mi (f_methods F).
Proof. unfold find_m. intros F n mi H. apply find_some in H. tauto. Qed.

Lemma flat_map_nil : forall (A B : Type) (f : A -> list B) l,
  forallb (fun a => match f a with [] => true | _ => false end) l = true -> flat_map f l = [].
Proof.
  induction l as [|a l IH]; simpl; intros H; [reflexivity|].
  apply andb_true_iff in H. destruct H as [Ha Hl]. destruct (f a) eqn:E; [|discriminate Ha].
  simpl. auto.
Qed.

Lemma call_safe_mw : forall F h c mi, find_m F (c_name c) = Some mi -> call_safe F h c = true -> mw F h c mi = [].
Proof. intros F h c mi Hf H. unfold call_safe in H. rewrite Hf in H. unfold mw. apply flat_map_nil. exact H. Qed.

(** * States, well-formedness *)
Definition state := (heap * list loc)%type.

Definition wf (st : state) : Prop :=
  let (h, live) := st in
  (forall d, In d live -> forall l, In l (own h d ++ hobjs h d) -> l < next h) /\
  (forall d, In d live -> NoDup (own h d)) /\
  (forall d d', In d live -> In d' live -> d <> d' -> forall l, In l (own h d) -> ~ In l (own h d')) /\
  (forall d d', In d live -> In d' live -> forall l, In l (hobjs h d) -> ~ In l (own h d')).

(** a freshly allocated DataFrame object: all its own cells are new; its hint objects are new or shared with
    one of the source DataFrames of the call (this is what copy() does) *)
Definition fresh_obj (h h' : heap) (srcs : list loc) (r : loc) : Prop :=
  (forall l, In l (own h' r) -> next h <= l < next h') /\
  NoDup (own h' r) /\
  (forall l, In l (hobjs h' r) -> (next h <= l < next h') \/ exists s, In s srcs /\ In l (hobjs h s)) /\
  (forall l, In l (hobjs h' r) -> ~ In l (own h' r)).
Definition srcs_of (c : call) : list loc := c_recv c :: match c_other c with Some o => [o] | None => [] end.

Definition sstep (F : facts) (st : state) (c : call) (st' : state) : Prop :=
  let (h, live) := st in let (h', live') := st' in
  In (c_recv c) live /\ (forall o, c_other c = Some o -> In o live) /\ step F h c h' /\
  (live' = live \/ exists r, live' = r :: live /\ fresh_obj h h' (srcs_of c) r).
(** session.createDataFrame / read: a new object that shares nothing *)
Definition screate (st st' : state) : Prop :=
  let (h, live) := st in let (h', live') := st' in
  next h <= next h' /\ (forall l, l < next h -> cells h' l = cells h l) /\ stmts h' = stmts h /\
  exists r, live' = r :: live /\ fresh_obj h h' [] r.

Definition h0 : heap := mkH (fun _ => VNone) 1 0.

Inductive reachable (F : facts) : state -> Prop :=
| R0 : reachable F (h0, [])
| Rcreate : forall st st', reachable F st -> screate st st' -> reachable F st'
| Rcall : forall st c st', reachable F st -> sstep F st c st' -> reachable F st'.

(** ** every cell in a may-write set belongs to a source of the call *)
Lemma in_mw : forall F h c mi l, In l (mw F h c mi) ->
  exists w r, In w (mi_writes mi) /\ w_open F h c w = true /\ w_root c w = Some r /\ In l (tcells h r (gw_t w)).
Proof.
  intros F h c mi l H. unfold mw in H. apply in_flat_map in H. destruct H as [w [Hw Hl]].
  unfold w_cells in Hl. destruct (w_open F h c w) eqn:Eo; [|destruct Hl].
  destruct (w_root c w) as [r|] eqn:Er; [|destruct Hl]. exists w, r. auto.
Qed.

Lemma w_root_src : forall c w r, w_root c w = Some r -> In r (srcs_of c).
Proof.
  intros c w r H. unfold w_root in H. unfold srcs_of. destruct (gw_root w).
  - inversion H. left. reflexivity.
  - right. rewrite H. left. reflexivity.
Qed.

Lemma tcells_nonstruct : forall h r t l, NoDup (own h r) -> is_struct t = false -> In l (tcells h r t) ->
  In l (hobjs h r) \/ (In l (own h r) /\ l <> r /\ l <> o_hints (get_df h r)).
Proof.
  intros h r t l Hnd Hs Hin. unfold own in *. set (o := get_df h r) in *.
  inversion Hnd as [|x1 l1 N1 T1]; subst. inversion T1 as [|x2 l2 N2 T2]; subst.
  inversion T2 as [|x3 l3 N3 T3]; subst. inversion T3 as [|x4 l4 N4 T4]; subst.
  inversion T4 as [|x5 l5 N5 T5]; subst.
  unfold tcells in Hin. fold o in Hin. simpl in *.
  destruct t; simpl in Hs; try discriminate Hs; simpl in Hin.
  - destruct Hin as [<-|[]]. right. repeat split; [tauto| |]; intros E; [apply N1 | apply N3]; rewrite <- E; simpl; tauto.
  - left. exact Hin.
  - destruct Hin as [<-|[]]. right. repeat split; [tauto| |]; intros E; [apply N1 | apply N4]; rewrite E; simpl; tauto.
  - destruct Hin as [<-|[]]. right. repeat split; [tauto| |]; intros E; [apply N1 | apply N2]; rewrite <- E; simpl; tauto.
  - destruct Hin as [<-|[]]. right. repeat split; [tauto| |]; intros E; [apply N1 | apply N4]; rewrite E; simpl; tauto.
Qed.

Lemma struct_ok_write : forall F n mi w, facts_struct_ok F = true -> find_m F n = Some mi -> In w (mi_writes mi) ->
  is_struct (gw_t w) = false.
Proof.
  intros F n mi w H Hf Hw. unfold facts_struct_ok in H. rewrite forallb_forall in H.
  specialize (H mi (find_m_in _ _ Hf)). rewrite forallb_forall in H. specialize (H w Hw).
  destruct (is_struct (gw_t w)); [discriminate H | reflexivity].
Qed.

(** ** a call whose summary has no structural write leaves every live object's shape alone *)
Lemma shape_kept : forall F h live c h',
  wf (h, live) -> facts_struct_ok F = true -> In (c_recv c) live -> (forall o, c_other c = Some o -> In o live) ->
  step F h c h' -> forall d, In d live -> cells h' d = cells h d /\
     cells h' (o_hints (get_df h d)) = cells h (o_hints (get_df h d)).
Proof.
  intros F h live c h' [HA [HD [HB HC]]] Hs Hr Ho [mi [Hf [Hn [Hk _]]]] d Hd.
  assert (Hsrc : forall r, In r (srcs_of c) -> In r live).
  { intros r Hin. unfold srcs_of in Hin. destruct Hin as [<-|Hin]; [exact Hr|].
    destruct (c_other c) as [o|] eqn:Eo; [|destruct Hin]. destruct Hin as [<-|[]]. apply Ho. reflexivity. }
  assert (Hno : forall l, In l (own h d) -> (l = d \/ l = o_hints (get_df h d)) -> ~ In l (mw F h c mi)).
  { intros l Hown Hl Hin. apply in_mw in Hin. destruct Hin as [w [r [Hw [_ [Hroot Hin]]]]].
    assert (Hrl : In r live) by (apply Hsrc; eapply w_root_src; eauto).
    apply tcells_nonstruct in Hin; [| apply HD; exact Hrl | eapply struct_ok_write; eauto].
    destruct Hin as [Hin | [Hin [N1 N2]]].
    - exact (HC r d Hrl Hd l Hin Hown).
    - destruct (Nat.eq_dec r d) as [->|Ne].
      + destruct Hl as [->| ->]; [apply N1 | apply N2]; reflexivity.
      + exact (HB r d Hrl Hd Ne l Hin Hown). }
  split; apply Hk.
  - apply HA with d; [exact Hd|]. apply in_or_app. left. unfold own. simpl. auto.
  - apply Hno; [unfold own; simpl; auto | left; reflexivity].
  - apply HA with d; [exact Hd|]. apply in_or_app. left. unfold own. simpl. auto.
  - apply Hno; [unfold own; simpl; auto | right; reflexivity].
Qed.

Lemma own_kept : forall h h' d, cells h' d = cells h d -> own h' d = own h d.
Proof. intros h h' d H. unfold own, get_df. rewrite H. reflexivity. Qed.
Lemma hobjs_kept : forall h h' d, cells h' d = cells h d ->
  cells h' (o_hints (get_df h d)) = cells h (o_hints (get_df h d)) -> hobjs h' d = hobjs h d.
Proof.
  intros h h' d H1 H2. unfold hobjs. assert (E : get_df h' d = get_df h d) by (unfold get_df; rewrite H1; reflexivity).
  rewrite E. unfold get_list. rewrite H2. reflexivity.
Qed.

Lemma wf_extend : forall h h' live r srcs,
  wf (h, live) -> next h <= next h' ->
  (forall d, In d live -> own h' d = own h d /\ hobjs h' d = hobjs h d) ->
  (forall s, In s srcs -> In s live) -> fresh_obj h h' srcs r -> wf (h', r :: live).
Proof.
  intros h h' live r srcs [HA [HD [HB HC]]] Hn Hk Hsrc [F1 [F2 [F3 F4]]].
  assert (Hold : forall d l, In d live -> In l (own h d ++ hobjs h d) -> l < next h) by (intros; eapply HA; eauto).
  repeat split.
  - intros d [<-|Hd] l Hin.
    + apply in_app_or in Hin. destruct Hin as [Hin|Hin]; [apply F1 in Hin; lia|].
      apply F3 in Hin. destruct Hin as [Hin|[s [Hs Hin]]]; [lia|].
      assert (l < next h) by (apply Hold with s; [auto | apply in_or_app; right; exact Hin]). lia.
    + destruct (Hk d Hd) as [E1 E2]. rewrite E1, E2 in Hin. specialize (Hold d l Hd Hin). lia.
  - intros d [<-|Hd]; [exact F2|]. destruct (Hk d Hd) as [E1 _]. rewrite E1. apply HD. exact Hd.
  - intros d d' [<-|Hd] [<-|Hd'] Ne l Hin Hin'.
    + apply Ne. reflexivity.
    + destruct (Hk d' Hd') as [E1 _]. rewrite E1 in Hin'. apply F1 in Hin.
      assert (l < next h) by (apply Hold with d'; [auto | apply in_or_app; left; exact Hin']). lia.
    + destruct (Hk d Hd) as [E1 _]. rewrite E1 in Hin. apply F1 in Hin'.
      assert (l < next h) by (apply Hold with d; [auto | apply in_or_app; left; exact Hin]). lia.
    + destruct (Hk d Hd) as [E1 _]. destruct (Hk d' Hd') as [E1' _]. rewrite E1 in Hin. rewrite E1' in Hin'.
      exact (HB d d' Hd Hd' Ne l Hin Hin').
  - intros d d' [<-|Hd] [<-|Hd'] l Hin Hin'.
    + exact (F4 l Hin Hin').
    + destruct (Hk d' Hd') as [E1 _]. rewrite E1 in Hin'.
      assert (l < next h) by (apply Hold with d'; [auto | apply in_or_app; left; exact Hin']).
      apply F3 in Hin. destruct Hin as [Hin|[s [Hs Hin]]]; [lia|].
      exact (HC s d' (Hsrc s Hs) Hd' l Hin Hin').
    + destruct (Hk d Hd) as [_ E2]. rewrite E2 in Hin. apply F1 in Hin'.
      assert (l < next h) by (apply Hold with d; [auto | apply in_or_app; right; exact Hin]). lia.
    + destruct (Hk d Hd) as [_ E2]. destruct (Hk d' Hd') as [E1' _]. rewrite E2 in Hin. rewrite E1' in Hin'.
      exact (HC d d' Hd Hd' l Hin Hin').
Qed.

Lemma wf_same_live : forall h h' live,
  wf (h, live) -> next h <= next h' ->
  (forall d, In d live -> own h' d = own h d /\ hobjs h' d = hobjs h d) -> wf (h', live).
Proof.
  intros h h' live [HA [HD [HB HC]]] Hn Hk. repeat split.
  - intros d Hd l Hin. destruct (Hk d Hd) as [E1 E2]. rewrite E1, E2 in Hin. specialize (HA d Hd l Hin). lia.
  - intros d Hd. destruct (Hk d Hd) as [E1 _]. rewrite E1. auto.
  - intros d d' Hd Hd' Ne l Hin Hin'. destruct (Hk d Hd) as [E1 _]. destruct (Hk d' Hd') as [E1' _].
    rewrite E1 in Hin. rewrite E1' in Hin'. exact (HB d d' Hd Hd' Ne l Hin Hin').
  - intros d d' Hd Hd' l Hin Hin'. destruct (Hk d Hd) as [_ E2]. destruct (Hk d' Hd') as [E1' _].
    rewrite E2 in Hin. rewrite E1' in Hin'. exact (HC d d' Hd Hd' l Hin Hin').
Qed.

Theorem sstep_wf : forall F st c st', facts_struct_ok F = true -> wf st -> sstep F st c st' -> wf st'.
Proof.
  intros F [h live] c [h' live'] Hs Hwf [Hr [Ho [Hst Hlive]]].
  assert (Hk : forall d, In d live -> own h' d = own h d /\ hobjs h' d = hobjs h d).
  { intros d Hd. destruct (shape_kept Hwf Hs Hr Ho Hst d Hd) as [E1 E2].
    split; [apply own_kept; exact E1 | apply hobjs_kept; assumption]. }
  assert (Hn : next h <= next h') by (destruct Hst as [mi [_ [Hn _]]]; exact Hn).
  destruct Hlive as [->|[r [-> Hfr]]].
  - eapply wf_same_live; eauto.
  - apply wf_extend with (h := h) (srcs := srcs_of c); auto. intros s Hin. unfold srcs_of in Hin. destruct Hin as [<-|Hin]; [exact Hr|].
    destruct (c_other c) as [o|] eqn:Eo; [|destruct Hin]. destruct Hin as [<-|[]]. apply Ho. reflexivity.
Qed.

Theorem screate_wf : forall st st', wf st -> screate st st' -> wf st'.
Proof.
  intros [h live] [h' live'] Hwf [Hn [Hk [_ [r [-> Hfr]]]]].
  assert (HA := Hwf). destruct HA as [HA _].
  apply wf_extend with (h := h) (srcs := @nil loc); auto.
  - intros d Hd.
    assert (E1 : cells h' d = cells h d).
    { apply Hk. apply HA with d; [exact Hd | apply in_or_app; left; unfold own; simpl; auto]. }
    split; [apply own_kept; exact E1 | apply hobjs_kept; [exact E1|]].
    apply Hk. apply HA with d; [exact Hd | apply in_or_app; left; unfold own; simpl; auto].
  - intros s [].
Qed.

Lemma wf_h0 : wf (h0, []).
Proof. repeat split; intros; contradiction. Qed.

Theorem reachable_wf : forall F st, facts_struct_ok F = true -> reachable F st -> wf st.
Proof.
  intros F st Hs H. induction H as [|st st' _ IH Hc|st c st' _ IH Hc].
  - exact wf_h0.
  - eapply screate_wf; eauto.
  - eapply sstep_wf; eauto.
Qed.

(** * Frame theorems *)
Lemma vfoot_alloc : forall h live d, wf (h, live) -> In d live -> forall l, In l (vfoot h d) -> l < next h.
Proof.
  intros h live d [HA _] Hd l Hin. apply HA with d; [exact Hd|]. unfold vfoot in Hin.
  apply in_app_or in Hin. apply in_or_app. destruct Hin as [Hin|Hin]; [left|right; exact Hin].
  unfold own. simpl in *. intuition.
Qed.

(** the call cannot write any existing cell => every live DataFrame keeps its value *)
Theorem frame_step : forall F h live c h', wf (h, live) -> step F h c h' -> call_safe F h c = true ->
  forall d0, In d0 live -> value h' d0 = value h d0.
Proof.
  intros F h live c h' Hwf [mi [Hf [_ [Hk _]]]] Hsafe d0 Hd. apply value_same. intros l Hin. apply Hk.
  - eapply vfoot_alloc; eauto.
  - rewrite (@call_safe_mw F h c mi Hf Hsafe). intros [].
Qed.

Lemma self_only_mw : forall F h c mi l, find_m F (c_name c) = Some mi -> self_only F h c = true ->
  In l (mw F h c mi) -> exists t, shared_t t = false /\ In l (tcells h (c_recv c) t).
Proof.
  intros F h c mi l Hf Hs Hin. unfold self_only in Hs. rewrite Hf in Hs. rewrite forallb_forall in Hs.
  unfold mw in Hin. apply in_flat_map in Hin. destruct Hin as [w [Hw Hl]]. specialize (Hs w Hw).
  destruct (w_cells F h c w) as [|x xs] eqn:E; [destruct Hl|].
  unfold w_cells in E. destruct (w_open F h c w); [|discriminate E]. unfold w_root in E.
  destruct (gw_root w); [|discriminate Hs]. exists (gw_t w). split.
  - destruct (shared_t (gw_t w)); [discriminate Hs | reflexivity].
  - rewrite E. exact Hl.
Qed.

Lemma tcells_own : forall h d t l, shared_t t = false -> In l (tcells h d t) -> In l (own h d).
Proof.
  intros h d t l Hs Hin. unfold tcells in Hin. unfold own. destruct t; simpl in *; try discriminate Hs;
    destruct Hin as [<-|[]]; auto 10.
Qed.

(** writes that go only through the receiver into cells it owns cannot change any OTHER live DataFrame *)
Theorem frame_others : forall F h live c h', wf (h, live) -> In (c_recv c) live -> step F h c h' ->
  self_only F h c = true -> forall d0, In d0 live -> d0 <> c_recv c -> value h' d0 = value h d0.
Proof.
  intros F h live c h' Hwf Hr [mi [Hf [_ [Hk _]]]] Hso d0 Hd Hne. apply value_same. intros l Hin. apply Hk.
  - eapply vfoot_alloc; eauto.
  - intros Hm. destruct (@self_only_mw F h c mi l Hf Hso Hm) as [t [Ht Hc]]. apply tcells_own in Hc; [|exact Ht].
    destruct Hwf as [_ [_ [HB HC]]]. unfold vfoot in Hin. apply in_app_or in Hin. destruct Hin as [Hin|Hin].
    + apply (HB d0 (c_recv c) Hd Hr Hne l); [|exact Hc]. unfold own. simpl in *. intuition.
    + exact (HC d0 (c_recv c) Hd Hr l Hin Hc).
Qed.

(** the property over all call sequences (the summary has no structural write) *)
Theorem frame : forall F st c st', facts_struct_ok F = true -> reachable F st -> sstep F st c st' ->
  call_safe F (fst st) c = true -> forall d0, In d0 (snd st) -> value (fst st') d0 = value (fst st) d0.
Proof.
  intros F [h live] c [h' live'] Hs Hr [_ [_ [Hst _]]] Hsafe d0 Hd. simpl in *.
  eapply frame_step; eauto. eapply reachable_wf; eauto.
Qed.

Theorem frame_receiver_only : forall F st c st', facts_struct_ok F = true -> reachable F st -> sstep F st c st' ->
  self_only F (fst st) c = true -> forall d0, In d0 (snd st) -> d0 <> c_recv c -> value (fst st') d0 = value (fst st) d0.
Proof.
  intros F [h live] c [h' live'] Hs Hr [Hin [_ [Hst _]]] Hso d0 Hd Hne. simpl in *.
  eapply frame_others; eauto. eapply reachable_wf; eauto.
Qed.

Lemma sstep_live : forall F st c st' d, sstep F st c st' -> In d (snd st) -> In d (snd st').
Proof.
  intros F [h live] c [h' live'] d [_ [_ [_ Hl]]] Hd. simpl in *. destruct Hl as [->|[r [-> _]]]; simpl; auto.
Qed.

(** repeating a call (e.g. an action) from a safe state: nothing changes, so whatever the call returns as a
    function of the DataFrame's value is returned again *)
Theorem repeat_call : forall F st c st1 st2, facts_struct_ok F = true -> reachable F st ->
  sstep F st c st1 -> sstep F st1 c st2 ->
  call_safe F (fst st) c = true -> call_safe F (fst st1) c = true ->
  forall d0, In d0 (snd st) -> value (fst st1) d0 = value (fst st) d0 /\ value (fst st2) d0 = value (fst st) d0.
Proof.
  intros F st c st1 st2 Hs Hr H1 H2 S1 S2 d0 Hd.
  assert (E1 : value (fst st1) d0 = value (fst st) d0) by (eapply frame; eauto).
  split; [exact E1|]. rewrite <- E1. eapply frame; eauto.
  - eapply Rcall; eauto.
  - eapply sstep_live; eauto.
Qed.

(** laziness: a method whose summary does not reach the engine sends nothing *)
Theorem lazy_step : forall F h c h' mi, step F h c h' -> find_m F (c_name c) = Some mi -> mi_exec mi = false ->
  stmts h' = stmts h.
Proof.
  intros F h c h' mi [mi' [Hf [_ [_ [_ He]]]]] Hf' Hx. rewrite Hf in Hf'. inversion Hf'; subst. auto.
Qed.

(** readable sufficient condition for [call_safe]: every write is either behind a wrapper that wraps in this
    state, or goes into hint objects while the DataFrame concerned has no pending hint *)
Definition hint_free (h : heap) (d : loc) : bool := match hobjs h d with [] => true | _ => false end.
Definition write_harmless (F : facts) (h : heap) (c : call) (w : gwrite) : bool :=
  match w_root c w with
  | None => true
  | Some r => if shared_t (gw_t w) then hint_free h r
              else match gw_root w with RSelf => negb (guard_open F (gw_guard w) (last_of h (c_recv c))) | ROther => false end
  end.
Lemma harmless_safe : forall F h c mi, find_m F (c_name c) = Some mi ->
  forallb (write_harmless F h c) (mi_writes mi) = true -> call_safe F h c = true.
Proof.
  intros F h c mi Hf H. unfold call_safe. rewrite Hf. rewrite forallb_forall in *. intros w Hw. specialize (H w Hw).
  unfold write_harmless in H. unfold w_cells. destruct (w_root c w) as [r|] eqn:Er.
  - destruct (shared_t (gw_t w)) eqn:Es.
    + destruct (w_open F h c w); [|reflexivity]. destruct (gw_t w); simpl in Es; try discriminate Es.
      unfold tcells. unfold hint_free in H. destruct (hobjs h r); [reflexivity | discriminate H].
    + unfold w_open. unfold w_root in Er. destruct (gw_root w); [|discriminate H]. rewrite Es. simpl.
      destruct (guard_open F (gw_guard w) (last_of h (c_recv c))); [discriminate H | reflexivity].
  - destruct (w_open F h c w); reflexivity.
Qed.

(** methods whose summary only writes into hint objects are safe on DataFrames without pending hints *)
Lemma shared_only_safe : forall F h c mi, find_m F (c_name c) = Some mi ->
  forallb (fun w => shared_t (gw_t w)) (mi_writes mi) = true ->
  hint_free h (c_recv c) = true -> (forall o, c_other c = Some o -> hint_free h o = true) ->
  call_safe F h c = true.
Proof.
  intros F h c mi Hf Hall Hr Ho. apply harmless_safe with mi; [exact Hf|].
  rewrite forallb_forall in *. intros w Hw. specialize (Hall w Hw). unfold write_harmless.
  destruct (w_root c w) as [r|] eqn:Er; [|reflexivity]. rewrite Hall.
  unfold w_root in Er. destruct (gw_root w).
  - inversion Er; subst. exact Hr.
  - apply Ho. exact Er.
Qed.

(** every non-shared write is behind a wrapper of kind [op]; if that wrapper wraps in this state the body got a copy *)
Lemma guarded_safe : forall F h c mi op, find_m F (c_name c) = Some mi ->
  forallb (fun w => shared_t (gw_t w) ||
                    (match gw_root w with RSelf => true | ROther => false end && existsb (opk_eqb op) (gw_guard w))) (mi_writes mi) = true ->
  f_wraps F op (last_of h (c_recv c)) = true ->
  hint_free h (c_recv c) = true -> (forall o, c_other c = Some o -> hint_free h o = true) ->
  call_safe F h c = true.
Proof.
  intros F h c mi op Hf Hall Hw Hr Ho. apply harmless_safe with mi; [exact Hf|].
  rewrite forallb_forall in *. intros w Hin. specialize (Hall w Hin). unfold write_harmless.
  destruct (w_root c w) as [r|] eqn:Er; [|reflexivity].
  destruct (shared_t (gw_t w)) eqn:Es.
  - unfold w_root in Er. destruct (gw_root w); [inversion Er; subst; exact Hr | apply Ho; exact Er].
  - simpl in Hall. apply andb_true_iff in Hall. destruct Hall as [Hroot Hg]. destruct (gw_root w); [|discriminate Hroot].
    apply negb_true_iff. unfold guard_open. apply not_true_iff_false. intros Hopen. rewrite forallb_forall in Hopen.
    apply existsb_exists in Hg. destruct Hg as [x [Hx Hxe]].
    assert (x = op) by (destruct op, x; simpl in Hxe; try discriminate Hxe; reflexivity). subst x.
    specialize (Hopen op Hx). rewrite Hw in Hopen. discriminate Hopen.
Qed.

(** * last_op is not an observable: writes into the receiver's own last_op cell (select() without columns returns
      its receiver and the wrapper stamps last_op on it) cannot change any DataFrame's value *)
Definition value_safe (F : facts) (h : heap) (c : call) : bool :=
  match find_m F (c_name c) with
  | Some mi => forallb (fun w => wt_eqb (gw_t w) WLast || match w_cells F h c w with [] => true | _ => false end) (mi_writes mi)
  | None => false
  end.

Lemma value_safe_mw : forall F h c mi l, find_m F (c_name c) = Some mi -> value_safe F h c = true ->
  In l (mw F h c mi) -> exists r, In r (srcs_of c) /\ l = o_last (get_df h r).
Proof.
  intros F h c mi l Hf Hs Hin. unfold value_safe in Hs. rewrite Hf in Hs. rewrite forallb_forall in Hs.
  unfold mw in Hin. apply in_flat_map in Hin. destruct Hin as [w [Hw Hl]]. specialize (Hs w Hw).
  destruct (w_cells F h c w) as [|x xs] eqn:E; [destruct Hl|].
  rewrite orb_false_r in Hs. apply wt_eqb_eq in Hs.
  unfold w_cells in E. destruct (w_open F h c w); [|discriminate E].
  destruct (w_root c w) as [r|] eqn:Er; [|discriminate E]. exists r. split; [eapply w_root_src; eauto|].
  rewrite Hs in E. unfold tcells in E. inversion E; subst. destruct Hl as [<-|[]]. reflexivity.
Qed.

Lemma last_not_in_vfoot : forall h live r d0, wf (h, live) -> In r live -> In d0 live ->
  ~ In (o_last (get_df h r)) (vfoot h d0).
Proof.
  intros h live r d0 [_ [HD [HB HC]]] Hr Hd Hin. unfold vfoot in Hin. apply in_app_or in Hin.
  assert (Hl : In (o_last (get_df h r)) (own h r)) by (unfold own; simpl; auto 10).
  destruct Hin as [Hin|Hin]; [|exact (HC d0 r Hd Hr _ Hin Hl)].
  destruct (Nat.eq_dec d0 r) as [->|Ne].
  - specialize (HD r Hr). unfold own in HD. set (o := get_df h r) in *.
    inversion HD as [|x1 l1 N1 T1]; subst. inversion T1 as [|x2 l2 N2 T2]; subst.
    inversion T2 as [|x3 l3 N3 T3]; subst. inversion T3 as [|x4 l4 N4 T4]; subst.
    simpl in *. destruct Hin as [E|[E|[E|[E|[]]]]].
    + apply N1. rewrite E. auto 10.
    + apply N2. rewrite E. auto 10.
    + apply N3. rewrite E. auto 10.
    + apply N4. rewrite E. auto 10.
  - apply (HB d0 r Hd Hr Ne (o_last (get_df h r))); [|exact Hl]. unfold own. simpl in *. intuition.
Qed.

Theorem frame_value_step : forall F h live c h', wf (h, live) -> In (c_recv c) live -> (forall o, c_other c = Some o -> In o live) ->
  step F h c h' -> value_safe F h c = true -> forall d0, In d0 live -> value h' d0 = value h d0.
Proof.
  intros F h live c h' Hwf Hr Ho [mi [Hf [_ [Hk _]]]] Hsafe d0 Hd. apply value_same. intros l Hin. apply Hk.
  - eapply vfoot_alloc; eauto.
  - intros Hm. destruct (@value_safe_mw F h c mi l Hf Hsafe Hm) as [r [Hsrc ->]].
    apply (@last_not_in_vfoot h live r d0 Hwf); auto.
    unfold srcs_of in Hsrc. destruct Hsrc as [<-|Hsrc]; [exact Hr|].
    destruct (c_other c) as [o|] eqn:Eo; [|destruct Hsrc]. destruct Hsrc as [<-|[]]. apply Ho. reflexivity.
Qed.

(** the frame theorem on the domain [value_safe], over all call sequences *)
Theorem frame_value : forall F st c st', facts_struct_ok F = true -> reachable F st -> sstep F st c st' ->
  value_safe F (fst st) c = true -> forall d0, In d0 (snd st) -> value (fst st') d0 = value (fst st) d0.
Proof.
  intros F [h live] c [h' live'] Hs Hr [Hin [Ho [Hst _]]] Hsafe d0 Hd. simpl in *.
  eapply frame_value_step; eauto. eapply reachable_wf; eauto.
Qed.

(** when every write of every method is a last_op stamp, every call is in the domain *)
Definition only_last_writes (F : facts) : bool :=
  forallb (fun mi => forallb (fun w => wt_eqb (gw_t w) WLast) (mi_writes mi)) (f_methods F).
Lemma only_last_value_safe : forall F h c mi, only_last_writes F = true -> find_m F (c_name c) = Some mi -> value_safe F h c = true.
Proof.
  intros F h c mi H Hf. unfold value_safe. rewrite Hf. unfold only_last_writes in H. rewrite forallb_forall in H.
  specialize (H mi (find_m_in _ _ Hf)). rewrite forallb_forall in *. intros w Hw. rewrite (H w Hw). reflexivity.
Qed.
(** when the only other writes go into shared hint objects, every call on DataFrames without pending hints is *)
Definition only_last_or_shared (F : facts) : bool :=
  forallb (fun mi => forallb (fun w => wt_eqb (gw_t w) WLast || shared_t (gw_t w)) (mi_writes mi)) (f_methods F).
Lemma hint_free_value_safe : forall F h c mi, only_last_or_shared F = true -> find_m F (c_name c) = Some mi ->
  hint_free h (c_recv c) = true -> (forall o, c_other c = Some o -> hint_free h o = true) -> value_safe F h c = true.
Proof.
  intros F h c mi H Hf Hr Ho. unfold value_safe. rewrite Hf. unfold only_last_or_shared in H. rewrite forallb_forall in H.
  specialize (H mi (find_m_in _ _ Hf)). rewrite forallb_forall in *. intros w Hw. specialize (H w Hw).
  destruct (wt_eqb (gw_t w) WLast); [reflexivity|]. simpl in *.
  unfold w_cells. destruct (w_open F h c w); [|reflexivity].
  destruct (w_root c w) as [r|] eqn:Er; [|reflexivity].
  destruct (gw_t w); simpl in H; try discriminate H. unfold tcells.
  assert (Hf' : hint_free h r = true).
  { unfold w_root in Er. destruct (gw_root w); [inversion Er; subst; exact Hr | apply Ho; exact Er]. }
  unfold hint_free in Hf'. destruct (hobjs h r); [reflexivity | discriminate Hf'].
Qed.

Theorem repeat_value : forall F st c st1 st2, facts_struct_ok F = true -> reachable F st ->
  sstep F st c st1 -> sstep F st1 c st2 ->
  value_safe F (fst st) c = true -> value_safe F (fst st1) c = true ->
  forall d0, In d0 (snd st) -> value (fst st1) d0 = value (fst st) d0 /\ value (fst st2) d0 = value (fst st) d0.
Proof.
  intros F st c st1 st2 Hs Hr H1 H2 S1 S2 d0 Hd.
  assert (E1 : value (fst st1) d0 = value (fst st) d0) by (eapply frame_value; eauto).
  split; [exact E1|]. rewrite <- E1. eapply frame_value; eauto.
  - eapply Rcall; eauto.
  - eapply sstep_live; eauto.
Qed.
