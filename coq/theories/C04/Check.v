(** C04 -- correspondence harness side (T3): run a call script on the executable model and compare, after every
    step, what the implementation showed for every DataFrame alive (columns, contents and IDENTITY of pending
    hint objects, last_op, "did a statement reach the engine"); report which existing DataFrames the model
    says a designated follow-up call changes, and whether that call is in the domain of the frame theorem. *)
From Coq Require Import List String Ascii Bool Arith PeanoNat.
From SF Require Import C04.Heap C04.Exec.
Import ListNotations.
Open Scope string_scope.
Open Scope list_scope.
Notation "a +++ b" := (String.append a b) (at level 60, right associativity).

Inductive pstep :=
| PCreate (ri : resinfo)
| PCall (name : string) (k : ekind) (recv : nat) (other : option nat) (res : option resinfo)
| PObs (v : nat).   (* black-box observation of one DataFrame: columns, sql(), collect() -- modelled as one `collect` *)

(** what the implementation showed for one DataFrame *)
Record vsnap := mkS { s_cols : list string;                    (* d.columns *)
                      s_hints : list hintv;                    (* contents of d.pending_hints *)
                      s_refs : list (option (nat * nat));      (* is-identity: (variable, index) of an earlier holder *)
                      s_last : opk }.                          (* d.last_op *)
Record expect := mkX { x_snaps : list vsnap; x_exec : bool }.
Record tcase := mkCase { t_prog : list (pstep * option expect); t_follow : nat; t_nfollow : nat }.

Definition digit (n : nat) : string := String (ascii_of_nat (48 + n)) EmptyString.
Fixpoint nat_str_aux (fuel n : nat) (acc : string) : string :=
  match fuel with
  | 0 => acc
  | S f => let acc' := digit (n mod 10) +++ acc in if Nat.eqb (n / 10) 0 then acc' else nat_str_aux f (n / 10) acc'
  end.
Definition nat_str (n : nat) : string := nat_str_aux 8 n "".

Definition var_loc (vars : list loc) (v : nat) : loc := nth v vars 0.

Definition refs_ok (h : heap) (vars : list loc) (d : loc) (refs : list (option (nat * nat))) : bool :=
  let hl := hobjs h d in
  Nat.eqb (List.length hl) (List.length refs) &&
  forallb (fun p => match snd p with
                    | None => true
                    | Some (v, j) => Nat.eqb (nth (fst p) hl 0) (nth j (hobjs h (var_loc vars v)) 0)
                    end) (combine (seq 0 (List.length refs)) refs).

(** first mismatch of one DataFrame against its snapshot: "" = agreement *)
Definition snap_diff (h : heap) (vars : list loc) (d : loc) (s : vsnap) : string :=
  let v := value h d in
  if negb (list_eqb String.eqb (columns_of v) (s_cols s)) then "columns"
  else if negb (list_eqb hintv_eqb (snd v) (s_hints s)) then "hints"
  else if negb (refs_ok h vars d (s_refs s)) then "sharing"
  else if negb (opk_eqb (last_of h d) (s_last s)) then "last_op"
  else "".

Fixpoint snaps_diff (h : heap) (vars : list loc) (i : nat) (ds : list loc) (ss : list vsnap) : string :=
  match ds, ss with
  | [], [] => ""
  | d :: ds', s :: ss' => match snap_diff h vars d s with
                          | "" => snaps_diff h vars (S i) ds' ss'
                          | w => "v" +++ nat_str i +++ ":" +++ w
                          end
  | _, _ => "count"
  end.

(** what an observation shows, in a form that does not depend on generated names: display names, and for every
    emitted hint P(artition) / K<position of the CTE it names> / F(oreign CTE name) / U(nresolved sequence id) *)
Fixpoint index_of (c : nat) (l : list (nat * nat)) (i : nat) : option nat :=
  match l with [] => None | p :: t => if Nat.eqb (fst p) c then Some i else index_of c t (S i) end.
Definition hint_view (e : exprv) (hv : hintv) : string :=
  if hv_join hv then
    match hv_tgt hv with
    | TCte c => match index_of c (e_ctes e) 0 with Some i => "K" +++ nat_str i | None => "F" end
    | TSeq _ => "U"
    end
  else "P".
Definition digest (h : heap) (d : loc) : string :=
  let v := value h d in
  String.concat "," (columns_of v) +++ "/" +++ String.concat "," (map (hint_view (fst (fst v))) (emitted_hints v)).

Definition changed_vars {A} (eqb : A -> A -> bool) (f : heap -> loc -> A) (h h' : heap) (vars : list loc) : list nat :=
  map fst (filter (fun p => negb (eqb (f h (snd p)) (f h' (snd p)))) (combine (seq 0 (List.length vars)) vars)).

Definition kobs : ekind := mkK DNone RAlways false None None false false false false.

Record rstate := mkRS { rs_h : heap; rs_vars : list loc; rs_i : nat; rs_diff : string;
                        rs_safe : bool; rs_selfonly : bool; rs_h0 : heap; rs_vars0 : list loc;
                        rs_recv : nat; rs_digests : list string }.

Definition run_step (F : facts) (fol nfol : nat) (st : rstate) (pe : pstep * option expect) : rstate :=
  let h := rs_h st in let vars := rs_vars st in
  let '(h', vars', ec, dg) :=
    match fst pe with
    | PCreate ri => let (h1, r) := run_create h ri in (h1, vars ++ [r], None, [])
    | PCall name k recv other res =>
        let e := mkEC name k (var_loc vars recv) (option_map (var_loc vars) other) res in
        let (h1, r) := run F h e in (h1, match r with Some l => vars ++ [l] | None => vars end, Some (e, recv), [])
    | PObs v =>
        let e := mkEC "collect" kobs (var_loc vars v) None None in
        let (h1, _) := run F h e in (h1, vars, None, [digest h1 (var_loc vars v)])
    end in
  let diff := match rs_diff st, snd pe with
              | "", Some x =>
                  match snaps_diff h' vars' 0 vars' (x_snaps x) with
                  | "" => if Bool.eqb (Nat.ltb (stmts h) (stmts h')) (x_exec x) then "" else "s" +++ nat_str (rs_i st) +++ ":executes"
                  | w => "s" +++ nat_str (rs_i st) +++ ":" +++ w
                  end
              | d, _ => d
              end in
  let infol := Nat.leb fol (rs_i st) && Nat.ltb (rs_i st) (fol + nfol) in
  let first := Nat.eqb (rs_i st) fol in
  match ec with
  | Some (e, recv) =>
      if infol then
        mkRS h' vars' (S (rs_i st)) diff (rs_safe st && value_safe F h (call_of e)) (rs_selfonly st && self_only F h (call_of e))
             (if first then h else rs_h0 st) (if first then vars else rs_vars0 st) (if first then recv else rs_recv st)
             (rs_digests st ++ dg)
      else mkRS h' vars' (S (rs_i st)) diff (rs_safe st) (rs_selfonly st) (rs_h0 st) (rs_vars0 st) (rs_recv st) (rs_digests st ++ dg)
  | None => mkRS h' vars' (S (rs_i st)) diff (rs_safe st) (rs_selfonly st)
                 (if first then h else rs_h0 st) (if first then vars else rs_vars0 st) (rs_recv st) (rs_digests st ++ dg)
  end.

Definition join_nats (l : list nat) : string := String.concat "," (map nat_str l).
Definition b2s (b : bool) : string := if b then "1" else "0".

(** result: white-box agreement ; first mismatch ; all follow-up calls in the frame theorem's domain ;
            variables whose raw value differs between the heap before the first and after the last follow-up ;
            theorems agree with this evaluation ; digest of every observation, in order (separated by "!") *)
Definition check (F : facts) (t : tcase) : string :=
  let st := fold_left (run_step F (t_follow t) (t_nfollow t)) (t_prog t) (mkRS h0 [] 0 "" true true h0 [] 0 []) in
  (* heap after the last follow-up = heap before the first observation that follows; recompute by replaying the prefix *)
  let pre := fold_left (run_step F (t_follow t) (t_nfollow t)) (firstn (t_follow t + t_nfollow t) (t_prog t))
                       (mkRS h0 [] 0 "" true true h0 [] 0 []) in
  let raw := changed_vars value_eqb value (rs_h0 pre) (rs_h pre) (rs_vars0 pre) in
  let single := Nat.eqb (t_nfollow t) 1 in
  let thm_ok := (if rs_safe pre then match raw with [] => true | _ => false end else true) &&
                (if single && rs_selfonly pre then forallb (fun v => Nat.eqb v (rs_recv pre)) raw else true) in
  b2s (match rs_diff st with "" => true | _ => false end) +++ ";" +++
  (match rs_diff st with "" => "-" | w => w end) +++ ";" +++ b2s (rs_safe pre) +++ ";" +++
  join_nats raw +++ ";" +++ b2s thm_ok +++ ";" +++ String.concat "!" (rs_digests st).
