(** C01, wider alphabet: toDF, fillna, replace, dropna, dropDuplicates(subset), unpivot and
    groupBy().agg() used as a step.  Specs are the PySpark meaning; the model restates what the composite
    DataFrame methods do (nested decorated calls); both are executable and are compared with the
    implementation by the correspondence check.  [step_x] models the methods whose SQL is a chain of SELECT
    blocks (toDF, fillna, replace, dropna); dropDuplicates(subset), unpivot and agg need GROUP BY / UNION ALL /
    ROW_NUMBER and are modelled by [ChainStages.step_y], which falls back to [step_x] for everything else.
    Theorems here: the NA emulations agree with their specs (row level); the chain theorems are in
    ChainExtProof.v and ChainStages.v. *)
From SF Require Export Model.ChainCheck.
From Coq Require Import Lia.
Open Scope Z_scope.

Inductive aggfn := ASum | ACount | AMin | AMax | ACountStar | AAvg.

Inductive xop :=
| XCore (u : uop)
| XToDF (ns : list string)
| XFillna (kvs : list (string * val))
| XReplace (cs : list string) (pairs : list (val * val))
| XDropna (how_any : bool) (thresh : option Z) (subset : list string)
| XDropDup (subset : list string)
| XUnpivot (ids vals : list string) (var vl : string)
| XAgg (keys : list string) (aggs : list (aggfn * string * string))
| XOrderFlags (ks : list (string * bool)).     (* orderBy(names..., ascending=flags): name, ascending? *)

(** * Specs *)
Fixpoint assoc {B} (n : string) (l : list (string * B)) : option B :=
  match l with [] => None | (k, v) :: l' => if String.eqb k n then Some v else assoc n l' end.

Definition fill_items (cs : list string) (kvs : list (string * val)) : list (expr * string) :=
  map (fun c => match assoc c kvs with
                | Some v => (EIf (EIsNull (ECol c)) (ELit v) (ECol c), c)
                | None => (ECol c, c) end) cs.

Fixpoint replace_expr (c : string) (pairs : list (val * val)) : expr :=
  match pairs with
  | [] => ECol c
  | (o, n) :: ps => EIf (EBin Eq (ECol c) (ELit o)) (ELit n) (replace_expr c ps)
  end.
Definition replace_items (cs : list string) (tgt : list string) (pairs : list (val * val)) :=
  map (fun c => if mem c tgt then (replace_expr c pairs, c) else (ECol c, c)) cs.

Definition null_count (cs : list string) (r : row) (chk : list string) : Z :=
  Z.of_nat (List.length (filter (fun c => val_eqb (eval cs r (ECol c)) VNull) chk)).
Definition dropna_keep (cs : list string) (how_any : bool) (thresh : option Z) (chk : list string) (r : row) : bool :=
  let n := Z.of_nat (List.length chk) in
  let nulls := null_count cs r chk in
  match thresh with
  | Some t => t <=? n - nulls                    (* at least t non-NULL values *)
  | None => if how_any then nulls =? 0 else nulls <? n
  end.

Definition key_of (cs : list string) (ks : list string) (r : row) : row := map (fun k => eval cs r (ECol k)) ks.

Definition agg_val (cs : list string) (f : aggfn) (c : string) (rs : list row) : val :=
  let vs := filter (fun v => negb (val_eqb v VNull)) (map (fun r => eval cs r (ECol c)) rs) in
  let sumz := fold_left (fun a v => match v with VInt z => a + z | _ => a end) vs 0 in
  let best (gt : bool) := fold_left (fun acc v => match acc with
                   | VNull => v
                   | _ => match val_cmp v acc with
                          | Datatypes.Gt => if gt then v else acc
                          | Datatypes.Lt => if gt then acc else v
                          | Datatypes.Eq => acc end end) vs VNull in
  match f with
  | ACountStar => VInt (Z.of_nat (List.length rs))
  | ACount => VInt (Z.of_nat (List.length vs))
  | ASum => match vs with [] => VNull | _ => VInt sumz end
  | AMin => best false
  | AMax => best true
  | AAvg => match vs with
            | [] => VNull
            | _ => let n := Z.of_nat (List.length vs) in
                   let g := Z.gcd sumz n in
                   match n / g with Zpos p => VRat (sumz / g) p | _ => VNull end
            end
  end.

Fixpoint add_group (k : row) (r : row) (gs : list (row * list row)) : list (row * list row) :=
  match gs with
  | [] => [(k, [r])]
  | (k', rs) :: gs' => if row_eqb k k' then (k', rs ++ [r]) :: gs' else (k', rs) :: add_group k r gs'
  end.
Definition groups (cs : list string) (ks : list string) (rs : list row) : list (row * list row) :=
  fold_left (fun gs r => add_group (key_of cs ks r) r gs) rs [].

Definition spec_agg (keys : list string) (aggs : list (aggfn * string * string)) (fr : frame) : frame :=
  let cs := cols fr in
  let gs := match keys with
            | [] => [([], rows fr)]                     (* a global aggregate always has its one group *)
            | _ => groups cs keys (rows fr) end in
  mkFrame (keys ++ map snd aggs)
          (map (fun g : row * list row =>
                  fst g ++ map (fun a : aggfn * string * string => agg_val cs (fst (fst a)) (snd (fst a)) (snd g)) aggs)
               gs).

(** ORDER BY terms of orderBy(names, ascending=flags), given how a flag becomes a direction and a NULL placement *)
Definition flag_keys (fdesc fnf : bool -> bool) (ks : list (string * bool)) : list okey :=
  map (fun p : string * bool => mkKey (ECol (fst p)) (fdesc (snd p)) (fnf (snd p))) ks.

Definition spec_x (x : xop) (fr : frame) : frame :=
  let cs := cols fr in
  match x with
  | XCore u => spec_step (desugar cs u) fr
  | XToDF ns => mkFrame ns (rows fr)
  | XFillna kvs => spec_step (OSelect (fill_items cs kvs)) fr
  | XReplace tgt pairs => spec_step (OSelect (replace_items cs tgt pairs)) fr
  | XDropna how thresh subset =>
      let chk := match subset with [] => cs | _ => subset end in
      mkFrame cs (filter (dropna_keep cs how thresh chk) (rows fr))
  | XDropDup subset => mkFrame cs (dedup_on (key_of cs subset) [] (rows fr))
  | XUnpivot ids vals var vl =>
      mkFrame (ids ++ [var; vl])
              (flat_map (fun r => map (fun v => key_of cs ids r ++ [VStr v; eval cs r (ECol v)]) vals) (rows fr))
  | XAgg keys aggs => spec_agg keys aggs fr
  | XOrderFlags ks => spec_step (OOrderBy (flag_keys negb (fun asc => asc) ks)) fr     (* Spark: ASC NULLS FIRST, DESC NULLS LAST *)
  end.
Definition spec_xrun (xs : list xop) (fr : frame) : frame := fold_left (fun f x => spec_x x f) xs fr.

(** * Model: what the composite methods build *)
Definition one : expr := ELit (VInt 1).
Definition zero : expr := ELit (VInt 0).
Definition num_nulls_expr (chk : list string) : expr :=
  match map (fun c => EIf (EIsNull (ECol c)) one zero) chk with
  | [] => zero
  | e :: es => fold_left (fun acc x => EBin Add acc x) es e
  end.
Definition min_num_nulls (how_any : bool) (thresh : option Z) (nchk : Z) : Z :=
  match thresh with
  | Some t => nchk - t + 1
  | None => if how_any then 1 else nchk
  end.

(** `_unused_column_name`: the name, with underscores appended until it is not one of the given names
    (at most [length used] underscores are ever needed) *)
Fixpoint fresh_aux (fuel : nat) (name : string) (used : list string) : string :=
  if mem name used then match fuel with O => name | S f => fresh_aux f (name ++ "_")%string used end else name.
Definition fresh_name (base : string) (used : list string) : string := fresh_aux (List.length used) base used.

Section ModelX.
  Variable c : cfg.
  Variable deco : string -> option opk.      (* decorator of each DataFrame method, generated *)

  Definition cur_cols (d : df) : list string := out_cols (b_sel (cur d)).

  (** outer wrapper of a composite method decorated with kind k: INIT handling and the wrap decision *)
  Definition outer_pre (k : opk) (d : df) : df * opk :=
    let d0 := pre_init c d in
    let new := if opk_eqb k NO_OP then last d0 else k in
    ((if wrap_needed c (last d0) new then wrap d0 else d0), new).

  Definition step_x (d : df) (x : xop) : option df :=
    match x with
    | XCore u => Some (step c d (desugar (cur_cols d) u))
    | XToDF ns =>
        (* no decorator: re-alias the open SELECT's items in place *)
        match deco "toDF" with
        | None => Some (mkDf (done d)
                             (set_sel (cur d) (map (fun p => (fst (fst p), snd p)) (combine (b_sel (cur d)) ns)))
                             (last d))
        | Some k =>
            let '(d1, new) := outer_pre k d in
            Some (mkDf (done d1)
                       (set_sel (cur d1) (map (fun p => (fst (fst p), snd p)) (combine (b_sel (cur d1)) ns)))
                       new)
        end
    | XFillna kvs =>
        match deco "fillna" with
        | Some k => let '(d1, new) := outer_pre k d in
                    Some (set_last (step c d1 (OSelect (fill_items (cur_cols d1) kvs))) new)
        | None => None
        end
    | XReplace tgt pairs =>
        match deco "replace" with
        | Some k => let '(d1, new) := outer_pre k d in
                    Some (set_last (step c d1 (OSelect (replace_items (cur_cols d1) tgt pairs))) new)
        | None => None
        end
    | XDropna how thresh subset =>
        match deco "dropna" with
        | Some k =>
            let '(d1, new) := outer_pre k d in
            let all := cur_cols d1 in
            let chk := match subset with [] => all | _ => subset end in
            (* new_df.select(num_nulls, append=True): the wrapper decides first, then the item is appended *)
            let d2 := pre_wrap c (OSelect []) (pre_init c d1) in
            let nn := fresh_name "num_nulls" all in         (* a helper name that is not a current column *)
            let d3 := mkDf (done d2) (set_sel (cur d2) (b_sel (cur d2) ++ [(num_nulls_expr chk, nn)]))
                           (new_kind c (OSelect []) (last d1)) in
            let d4 := step c d3 (OWhere (EBin Lt (ECol nn)
                                           (ELit (VInt (min_num_nulls how thresh (Z.of_nat (List.length chk))))))) in
            let d5 := step c d4 (OSelect (passthrough all)) in
            Some (set_last d5 new)
        | None => None
        end
    | XDropDup _ | XUnpivot _ _ _ _ | XAgg _ _ => None      (* not a chain of SELECT blocks: ChainStages.step_y *)
    | XOrderFlags _ => None                                 (* needs the generated flag functions: ChainStages.step_y *)
    end.

  Fixpoint run_x (d : df) (xs : list xop) : option df :=
    match xs with
    | [] => Some d
    | x :: xs' => match step_x d x with Some d' => run_x d' xs' | None => None end
    end.
End ModelX.

(** * The NA emulation is the NA meaning *)
Lemma eval_null_ind cs r c :
  eval cs r (EIf (EIsNull (ECol c)) one zero) = VInt (if val_eqb (eval cs r (ECol c)) VNull then 1 else 0).
Proof.
  simpl. match goal with |- context [val_eqb ?x VNull] => destruct (val_eqb x VNull) end; reflexivity.
Qed.

Lemma eval_num_nulls cs r chk :
  eval cs r (num_nulls_expr chk) = VInt (null_count cs r chk).
Proof.
  unfold num_nulls_expr, null_count.
  destruct chk as [|c0 chk]; [reflexivity|]. cbn [map].
  assert (H : forall es acc z,
             eval cs r acc = VInt z ->
             eval cs r (fold_left (fun a x => EBin Add a x) (map (fun c => EIf (EIsNull (ECol c)) one zero) es) acc)
             = VInt (z + Z.of_nat (List.length (filter (fun c => val_eqb (eval cs r (ECol c)) VNull) es)))).
  { induction es as [|e es IH]; intros acc z Hacc; cbn [map fold_left filter].
    - rewrite Hacc. f_equal. cbn [List.length]. lia.
    - rewrite (IH _ (z + (if val_eqb (eval cs r (ECol e)) VNull then 1 else 0))).
      + f_equal. destruct (val_eqb (eval cs r (ECol e)) VNull); cbn [List.length]; lia.
      + change (eval cs r (EBin Add acc (EIf (EIsNull (ECol e)) one zero)))
          with (eval_bin Add (eval cs r acc) (eval cs r (EIf (EIsNull (ECol e)) one zero))).
        rewrite Hacc, eval_null_ind. reflexivity. }
  rewrite (H chk _ (if val_eqb (eval cs r (ECol c0)) VNull then 1 else 0)).
  - f_equal. cbn [filter]. destruct (val_eqb (eval cs r (ECol c0)) VNull); cbn [List.length]; lia.
  - apply eval_null_ind.
Qed.

Lemma filter_len_le {A} (f : A -> bool) l : (List.length (filter f l) <= List.length l)%nat.
Proof. induction l as [|a l IH]; simpl; [lia|]. destruct (f a); simpl; lia. Qed.

(** dropna's "num_nulls < minimum" filter keeps exactly the rows PySpark keeps, for every how/thresh/subset *)
Theorem dropna_emulation_ok cs r how thresh chk :
  holds cs r (EBin Lt (num_nulls_expr chk)
                 (ELit (VInt (min_num_nulls how thresh (Z.of_nat (List.length chk))))))
  = dropna_keep cs how thresh chk r.
Proof.
  unfold holds. simpl eval. rewrite eval_num_nulls. unfold dropna_keep, min_num_nulls. simpl.
  set (n := Z.of_nat (List.length chk)). set (k := null_count cs r chk).
  assert (Hk : 0 <= k <= n).
  { subst k n. unfold null_count. split; [lia|]. apply inj_le. apply filter_len_le. }
  destruct thresh as [t|].
  - destruct (Z.compare_spec k (n - t + 1)); destruct (Z.leb_spec t (n - k)); simpl; try reflexivity; lia.
  - destruct how.
    + destruct (Z.compare_spec k 1); destruct (Z.eqb_spec k 0); simpl; try reflexivity; lia.
    + destruct (Z.compare_spec k n); destruct (Z.ltb_spec k n); simpl; try reflexivity; lia.
Qed.

(** fillna's CASE item has the filled value *)
Theorem fillna_item_ok cs r c v :
  eval cs r (EIf (EIsNull (ECol c)) (ELit v) (ECol c)) =
  match eval cs r (ECol c) with VNull => v | x => x end.
Proof. simpl. destruct (match lookup cs r c with Some v0 => v0 | None => VNull end); reflexivity. Qed.
