(** C01: correctness of the composite operations that are SELECT-class rewrites of the frame
    (fillna, replace, toDF): for every reachable state and every input they evaluate to their PySpark meaning
    and re-establish the chain invariant -- PROVIDED the method's decorator claims at least SELECT
    ([composite_ok], a decidable side condition on the generated decorator table).  This is the obligation
    that fails for a fillna/replace tagged Operation.FROM (the defect repaired in /repo). *)
From SF Require Import Model.Chain Model.ChainProof Model.ChainExt.
From Coq Require Import Lia.
Open Scope Z_scope.

Definition mem_opk (k : opk) (l : list opk) : bool := existsb (opk_eqb k) l.
Lemma opk_eqb_eq a b : opk_eqb a b = true -> a = b.
Proof. destruct a, b; simpl; congruence. Qed.
Lemma mem_opk_in k l : mem_opk k l = true -> In k l.
Proof.
  unfold mem_opk. intro H. apply existsb_exists in H. destruct H as [x [Hx E]].
  apply opk_eqb_eq in E. subst. exact Hx.
Qed.

Section ExtProof.
  Variable c : cfg.
  Hypothesis Hcfg : cfg_ok c = true.
  Hypothesis Hlim : limit_ok c.

  (** side condition for a composite method decorated with kind [k] that leaves a real projection behind *)
  Definition composite_ok (k : opk) : bool :=
    forallb (fun l =>
      let new := if opk_eqb k NO_OP then l else k in
      (5 <=? claim new) && mem_opk new (reach c) &&
      (wrap_needed c l new || (claim l <? 5))) (reach c).

  Lemma pre_init_inv d ics input :
    InvR c d ics ->
    InvR c (pre_init c d) ics /\ eval_df (pre_init c d) input = eval_df d input.
  Proof.
    intros HI. unfold pre_init. destruct (opk_eqb (last d) INIT) eqn:Ei; [|tauto].
    destruct HI as [HI Hr]. destruct (init_wraps c).
    - split; [split; [apply inv_wrap; exact HI | unfold reach; simpl; tauto]|].
      unfold eval_df; simpl. apply wrap_eval. destruct HI as (_&_&_&_&Hn); exact Hn.
    - split; [|reflexivity]. split; [|unfold reach; simpl; tauto].
      destruct (last d) eqn:El; try discriminate.
      unfold Inv in *. rewrite El in HI. exact HI.
  Qed.

  Lemma ready_select d0 ics input new :
    InvR c d0 ics ->
    (wrap_needed c (last d0) new || (claim (last d0) <? 5)) = true ->
    let d1 := if wrap_needed c (last d0) new then wrap d0 else d0 in
    Simple (cur d1) (src_cols d1 ics) /\ eval_df d1 input = eval_df d0 input /\ InvR c d1 ics.
  Proof.
    intros [HI Hr] Hw. destruct (wrap_needed c (last d0) new) eqn:Ew; simpl.
    - pose proof (ready_wrap d0 ics NSelect (last d0) HI) as HR.
      change (set_last (wrap d0) (last d0)) with (wrap d0) in HR.
      destruct HR as (HS & _ & _ & _).
      split; [apply HS; simpl; lia|]. split.
      + apply wrap_eval. destruct HI as (_&_&_&_&Hn); exact Hn.
      + split; [|exact Hr]. pose proof (inv_wrap d0 ics (last d0) HI) as H.
        change (set_last (wrap d0) (last d0)) with (wrap d0) in H. exact H.
    - simpl in Hw. apply Z.ltb_lt in Hw.
      destruct HI as (Ha & Hb & Hc & Hn1 & Hn2).
      destruct (Ha Hw) as [Ha1 Ha2].
      split; [unfold Simple; rewrite Hb, Hc by lia; tauto|]. split; [reflexivity|].
      split; [|exact Hr]. unfold Inv; tauto.
  Qed.

  (** after a select step the open block has exactly the new list and no later clause *)
  Lemma step_select_post d ics items :
    InvR c d ics ->
    let d2 := step c d (OSelect items) in
    b_sel (cur d2) = items /\ b_distinct (cur d2) = false /\ b_order (cur d2) = [] /\ b_limit (cur d2) = None.
  Proof.
    intros HI. destruct (pre_init_inv d ics (mkFrame ics []) HI) as [HI0 _].
    unfold step. set (d0 := pre_init c d) in *. clearbody d0.
    pose proof (pair_ok_of c Hcfg d0 ics (OSelect items) HI0) as Hp.
    unfold pair_ok in Hp. fold (new_kind c (OSelect items) (last d0)) in Hp.
    set (new := new_kind c (OSelect items) (last d0)) in *.
    apply andb_true_iff in Hp. destruct Hp as [_ Hp].
    assert (Hw : (wrap_needed c (last d0) new || (claim (last d0) <? 5)) = true).
    { destruct (wrap_needed c (last d0) new); [reflexivity|]. simpl in *.
      apply andb_true_iff in Hp. destruct Hp as [_ Hsel]. simpl in Hsel. exact Hsel. }
    destruct (ready_select d0 ics (mkFrame ics []) new HI0 Hw) as ((Hs & Hd & Ho & Hl) & _ & _).
    unfold pre_wrap. fold new.
    destruct (wrap_needed c (last d0) new); simpl in *; auto.
  Qed.

  Lemma nodupb_complete l : NoDup l -> nodupb l = true.
  Proof.
    induction 1 as [|x l Hn Hd IH]; simpl; [reflexivity|].
    rewrite IH, andb_true_r. apply negb_true_iff.
    destruct (mem x l) eqn:E; [|reflexivity].
    unfold mem in E. apply existsb_exists in E. destruct E as [y [Hy Ey]].
    apply String.eqb_eq in Ey. subst. contradiction.
  Qed.

  Lemma out_cols_fill cs kvs : out_cols (fill_items cs kvs) = cs.
  Proof.
    unfold out_cols, fill_items. rewrite map_map. rewrite <- (map_id cs) at 2.
    apply map_ext. intro a. destruct (assoc a kvs); reflexivity.
  Qed.
  Lemma out_cols_replace cs tgt ps : out_cols (replace_items cs tgt ps) = cs.
  Proof.
    unfold out_cols, replace_items. rewrite map_map. rewrite <- (map_id cs) at 2.
    apply map_ext. intro a. destruct (mem a tgt); reflexivity.
  Qed.

  (** a SELECT-class composite: outer wrapper of kind [k], inner select of [items_of (current columns)] *)
  Definition composite (k : opk) (items_of : list string -> list (expr * string)) (d : df) : df :=
    let '(d1, new) := outer_pre c k d in
    set_last (step c d1 (OSelect (items_of (cur_cols d1)))) new.

  Theorem composite_correct k items_of d ics input :
    composite_ok k = true ->
    (forall cs, out_cols (items_of cs) = cs) ->
    cols input = ics -> wf_frame input -> InvR c d ics ->
    eval_df (composite k items_of d) input
      = spec_step (OSelect (items_of (cols (eval_df d input)))) (eval_df d input)
    /\ InvR c (composite k items_of d) ics.
  Proof.
    intros Hk Hcols Hics Hwf HI.
    destruct (pre_init_inv d ics input HI) as [HI0 He0].
    unfold composite, outer_pre. set (d0 := pre_init c d) in *.
    set (new := if opk_eqb k NO_OP then last d0 else k).
    unfold composite_ok in Hk. rewrite forallb_forall in Hk.
    destruct HI0 as [HIa Hr0]. specialize (Hk _ Hr0). fold new in Hk.
    apply andb_true_iff in Hk. destruct Hk as [Hk Hw].
    apply andb_true_iff in Hk. destruct Hk as [H5 Hmem]. apply Z.leb_le in H5. apply mem_opk_in in Hmem.
    destruct (ready_select d0 ics input new (conj HIa Hr0) Hw) as (_ & He1 & HI1).
    set (d1 := if wrap_needed c (last d0) new then wrap d0 else d0) in *.
    assert (Hnd : NoDup (cur_cols d1)) by (destruct HI1 as [(_&_&_&_&Hn) _]; exact Hn).
    assert (Hok : op_ok c d1 ics (OSelect (items_of (cur_cols d1))) = true).
    { unfold op_ok. rewrite Hcols. apply nodupb_complete. exact Hnd. }
    destruct (step_correct c Hcfg Hlim d1 ics input _ Hics Hwf HI1 Hok) as [He2 HI2].
    destruct (step_select_post d1 ics (items_of (cur_cols d1)) HI1) as (Ps & Pd & Po & Pl).
    set (d2 := step c d1 (OSelect (items_of (cur_cols d1)))) in *.
    split.
    - change (eval_df (set_last d2 new) input) with (eval_df d2 input).
      assert (Hc1 : cur_cols d1 = cols (eval_df d input)) by (rewrite <- He0, <- He1; reflexivity).
      rewrite He2, He1, He0, Hc1. reflexivity.
    - destruct HI2 as [(_ & _ & _ & Hn1 & Hn2) _].
      split; [|exact Hmem].
      unfold Inv. change (cur (set_last d2 new)) with (cur d2).
      change (last (set_last d2 new)) with new.
      change (src_cols (set_last d2 new) ics) with (src_cols d2 ics).
      refine (conj _ (conj _ (conj _ (conj _ _)))).
      + intro; lia.
      + intro; exact Po.
      + intro; exact Pl.
      + exact Hn1.
      + exact Hn2.
  Qed.

  Variable deco : string -> option opk.

  Theorem fillna_correct k d ics input kvs :
    deco "fillna"%string = Some k -> composite_ok k = true ->
    cols input = ics -> wf_frame input -> InvR c d ics ->
    exists d', step_x c deco d (XFillna kvs) = Some d' /\
               eval_df d' input = spec_x (XFillna kvs) (eval_df d input) /\ InvR c d' ics.
  Proof.
    intros Hd Hk Hics Hwf HI.
    exists (composite k (fun cs => fill_items cs kvs) d). split.
    - unfold step_x, composite. rewrite Hd. destruct (outer_pre c k d). reflexivity.
    - apply composite_correct; auto. intro cs. apply out_cols_fill.
  Qed.

  Theorem replace_correct k d ics input tgt ps :
    deco "replace"%string = Some k -> composite_ok k = true ->
    cols input = ics -> wf_frame input -> InvR c d ics ->
    exists d', step_x c deco d (XReplace tgt ps) = Some d' /\
               eval_df d' input = spec_x (XReplace tgt ps) (eval_df d input) /\ InvR c d' ics.
  Proof.
    intros Hd Hk Hics Hwf HI.
    exists (composite k (fun cs => replace_items cs tgt ps) d). split.
    - unfold step_x, composite. rewrite Hd. destruct (outer_pre c k d). reflexivity.
    - apply composite_correct; auto. intro cs. apply out_cols_replace.
  Qed.

  (** ** Every list over select/where/orderBy/limit/distinct/withColumn/withColumnRenamed/drop/fillna/replace *)
  Definition x_ok (d : df) (ics : list string) (x : xop) : bool :=
    match x with
    | XCore u => op_ok c d ics (desugar (cur_cols d) u)
    | XFillna _ | XReplace _ _ => true
    | _ => false
    end.
  Fixpoint xs_ok (d : df) (ics : list string) (xs : list xop) : bool :=
    match xs with
    | [] => true
    | x :: xs' => x_ok d ics x &&
                  match step_x c deco d x with Some d' => xs_ok d' ics xs' | None => false end
    end.

  Theorem xchain_correct kf kr xs : forall d ics input,
    deco "fillna"%string = Some kf -> composite_ok kf = true ->
    deco "replace"%string = Some kr -> composite_ok kr = true ->
    cols input = ics -> wf_frame input -> InvR c d ics -> xs_ok d ics xs = true ->
    exists d', run_x c deco d xs = Some d' /\ eval_df d' input = spec_xrun xs (eval_df d input).
  Proof.
    induction xs as [|x xs IH]; intros d ics input Hf Hkf Hr Hkr Hics Hwf HI Hok; simpl.
    - exists d. split; reflexivity.
    - simpl in Hok. apply andb_true_iff in Hok. destruct Hok as [Hx Hrest].
      assert (Hstep : exists d1, step_x c deco d x = Some d1 /\
                                 eval_df d1 input = spec_x x (eval_df d input) /\ InvR c d1 ics).
      { destruct x; simpl in Hx; try discriminate.
        - exists (step c d (desugar (cur_cols d) u)). split; [reflexivity|].
          destruct (step_correct c Hcfg Hlim d ics input _ Hics Hwf HI Hx) as [He HI'].
          split; [|exact HI']. rewrite He. reflexivity.
        - apply (fillna_correct kf); auto.
        - apply (replace_correct kr); auto. }
      destruct Hstep as (d1 & Hs & He & HI1). rewrite Hs in Hrest |- *.
      destruct (IH d1 ics input Hf Hkf Hr Hkr Hics Hwf HI1 Hrest) as (d' & Hrun & Hev).
      exists d'. split; [exact Hrun|]. rewrite Hev, He. reflexivity.
  Qed.
End ExtProof.
