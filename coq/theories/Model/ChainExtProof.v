(** C01: correctness of the composite operations inside chains, for every reachable state and every input:
    fillna / replace (CASE projections), toDF (re-aliasing of the open SELECT) and dropna (append num_nulls;
    WHERE num_nulls < k in a fresh block; SELECT the original columns) evaluate to their PySpark meaning and
    re-establish the (generalised, [ChainG.GInv]) chain invariant -- PROVIDED the decorators of fillna, replace
    and toDF claim at least SELECT ([composite_ok], decidable side condition on the generated decorator table;
    the obligation that fails for a fillna/replace tagged Operation.FROM or an undecorated toDF, the defects
    repaired in /repo).  [xchain_correct]: every list over the core operations, withColumn / withColumnRenamed /
    drop, fillna, replace, toDF and dropna, on the decidable domain [xs_ok]. *)
From SF Require Import Model.Chain Model.ChainProof Model.ChainG Model.ChainExt.
From Coq Require Import Lia.
Open Scope Z_scope.

Definition mem_opk (k : opk) (l : list opk) : bool := existsb (opk_eqb k) l.
Lemma opk_eqb_eq a b : opk_eqb a b = true -> a = b.
Proof. destruct a, b; simpl; congruence. Qed.
Lemma mem_opk_in k l : mem_opk k l = true -> In k l.
Proof.
  unfold mem_opk. intro H. apply existsb_exists in H. destruct H as [x [Hx E]].
  apply opk_eqb_eq in E. subst. exact Hx.
Qed.

Lemma nodupb_complete l : NoDup l -> nodupb l = true.
Proof.
  induction 1 as [|x l Hn Hd IH]; simpl; [reflexivity|].
  rewrite IH, andb_true_r. apply negb_true_iff.
  destruct (mem x l) eqn:E; [|reflexivity]. apply mem_In in E. contradiction.
Qed.

Lemma NoDup_app_snoc {A} (l : list A) x : NoDup l -> ~ In x l -> NoDup (l ++ [x]).
Proof.
  induction 1 as [|y l Hy Hd IH]; simpl; intro Hx.
  - constructor; [simpl; tauto | constructor].
  - constructor.
    + rewrite in_app_iff. simpl. intros [H|[H|[]]]; [contradiction | subst; apply Hx; left; reflexivity].
    + apply IH. intro H. apply Hx. right. exact H.
Qed.

Lemma out_cols_app a b : out_cols (a ++ b) = out_cols a ++ out_cols b.
Proof. unfold out_cols. apply map_app. Qed.

(** ** Lookups in a frame extended on the right *)
Lemma index_of_app_left n cs ex : In n cs -> index_of n (cs ++ ex) = index_of n cs.
Proof.
  induction cs as [|x cs IH]; simpl; intro H; [contradiction|].
  destruct (String.eqb x n) eqn:E; [reflexivity|].
  destruct H as [H|H]; [subst; rewrite String.eqb_refl in E; discriminate|].
  rewrite IH by exact H. reflexivity.
Qed.

Lemma lookup_app_left cs ex (r rx : row) n :
  In n cs -> List.length r = List.length cs -> lookup (cs ++ ex) (r ++ rx) n = lookup cs r n.
Proof.
  intros Hin Hl. unfold lookup. rewrite index_of_app_left by exact Hin.
  destruct (index_of n cs) as [i|] eqn:E; [|reflexivity].
  apply index_of_lt in E. rewrite nth_error_app1 by lia. reflexivity.
Qed.

Lemma index_of_snoc n cs : ~ In n cs -> index_of n (cs ++ [n]) = Some (List.length cs).
Proof.
  induction cs as [|x cs IH]; simpl; intro H.
  - rewrite String.eqb_refl. reflexivity.
  - destruct (String.eqb x n) eqn:E.
    + apply String.eqb_eq in E. subst. exfalso. apply H. left. reflexivity.
    + rewrite IH by (intro Hi; apply H; right; exact Hi). reflexivity.
Qed.

Lemma lookup_snoc cs (r : row) n v :
  ~ In n cs -> List.length r = List.length cs -> lookup (cs ++ [n]) (r ++ [v]) n = Some v.
Proof.
  intros Hn Hl. unfold lookup. rewrite index_of_snoc by exact Hn.
  rewrite nth_error_app2 by lia. rewrite Hl, Nat.sub_diag. reflexivity.
Qed.

Lemma proj_app_left cs ex (r rx : row) :
  List.length r = List.length cs -> proj (cs ++ ex) (passthrough cs) (r ++ rx) = proj cs (passthrough cs) r.
Proof.
  intro Hl. unfold proj, passthrough. rewrite !map_map. cbn [fst].
  apply map_ext_in. intros n Hn. simpl. rewrite lookup_app_left; auto.
Qed.

(** ** dropna on frames: the three sequential steps of the emulation are PySpark's dropna *)
Lemma ecols_num_nulls n chk : In n (ecols (num_nulls_expr chk)) -> In n chk.
Proof.
  unfold num_nulls_expr. destruct chk as [|c0 chk]; [simpl; tauto|]. cbn [map].
  assert (H : forall es acc, In n (ecols (fold_left (fun a x => EBin Add a x)
                                                    (map (fun c => EIf (EIsNull (ECol c)) one zero) es) acc)) ->
                             In n (ecols acc) \/ In n es).
  { induction es as [|e es IH]; intros acc Hin; cbn [map fold_left] in Hin; [left; exact Hin|].
    destruct (IH _ Hin) as [Ha|Ha]; [|right; right; exact Ha].
    simpl in Ha. rewrite in_app_iff in Ha. destruct Ha as [Ha|Ha]; [left; exact Ha|].
    simpl in Ha. destruct Ha as [Ha|[]]. right; left; exact Ha. }
  intro Hin. destruct (H _ _ Hin) as [Ha|Ha]; [|right; exact Ha].
  simpl in Ha. destruct Ha as [Ha|[]]. left; exact Ha.
Qed.

Definition dropna_test (nn : string) (how : bool) (thresh : option Z) (chk : list string) : expr :=
  EBin Lt (ECol nn) (ELit (VInt (min_num_nulls how thresh (Z.of_nat (List.length chk))))).

(** ** the helper name is never a current column *)
Fixpoint underscores (k : nat) : string := match k with O => ""%string | S k' => ("_" ++ underscores k')%string end.
Lemma sappend_assoc (a b c : string) : ((a ++ b) ++ c = a ++ (b ++ c))%string.
Proof. induction a as [|x a IH]; simpl; [reflexivity | rewrite IH; reflexivity]. Qed.
Lemma sappend_nil_r (a : string) : (a ++ "")%string = a.
Proof. induction a as [|x a IH]; simpl; [reflexivity | rewrite IH; reflexivity]. Qed.
Lemma slength_append (a b : string) : String.length (a ++ b) = (String.length a + String.length b)%nat.
Proof. induction a as [|x a IH]; simpl; [reflexivity | rewrite IH; reflexivity]. Qed.
Lemma slength_underscores k : String.length (underscores k) = k.
Proof. induction k as [|k IH]; simpl; [reflexivity | rewrite IH; reflexivity]. Qed.

Lemma fresh_aux_in fuel used : forall name,
  In (fresh_aux fuel name used) used -> forall k, (k <= fuel)%nat -> In (name ++ underscores k)%string used.
Proof.
  induction fuel as [|f IH]; intros name H k Hk; cbn [fresh_aux] in H.
  - assert (k = O) by lia. subst. simpl. rewrite sappend_nil_r.
    destruct (mem name used) eqn:E; [apply mem_In; exact E | exact H].
  - destruct (mem name used) eqn:E.
    + destruct k as [|k]; [simpl; rewrite sappend_nil_r; apply mem_In; exact E|].
      specialize (IH _ H k ltac:(lia)). rewrite sappend_assoc in IH. exact IH.
    + apply mem_In in H. congruence.
Qed.

Lemma candidates_nodup name n : NoDup (map (fun k => (name ++ underscores k)%string) (seq 0 n)).
Proof.
  assert (H : forall start, NoDup (map (fun k => (name ++ underscores k)%string) (seq start n)) /\
                            forall x, In x (map (fun k => (name ++ underscores k)%string) (seq start n)) ->
                                      (String.length name + start <= String.length x)%nat).
  { induction n as [|n IH]; intro start; simpl; [split; [constructor | tauto]|].
    destruct (IH (S start)) as [Hnd Hlen]. split.
    - constructor; [|exact Hnd]. intro Hin. apply Hlen in Hin. rewrite slength_append, slength_underscores in Hin. lia.
    - intros x [<-|Hx]; [rewrite slength_append, slength_underscores; lia|]. apply Hlen in Hx. lia. }
  apply H.
Qed.

Theorem fresh_not_in base used : ~ In (fresh_name base used) used.
Proof.
  intro H. unfold fresh_name in H.
  pose proof (fresh_aux_in (List.length used) used base H) as Hall.
  assert (Hincl : incl (map (fun k => (base ++ underscores k)%string) (seq 0 (S (List.length used)))) used).
  { intros x Hx. apply in_map_iff in Hx. destruct Hx as [k [<- Hk]]. apply in_seq in Hk. apply Hall. lia. }
  pose proof (NoDup_incl_length (candidates_nodup base (S (List.length used))) Hincl) as Hlen.
  rewrite map_length, seq_length in Hlen. lia.
Qed.

Lemma dropna_frames nn F how thresh chk :
  wf_frame F -> NoDup (cols F) -> ~ In nn (cols F) ->
  spec_step (OSelect (passthrough (cols F)))
    (spec_step (OWhere (dropna_test nn how thresh chk))
       (spec_step (OSelect (passthrough (cols F) ++ [(num_nulls_expr chk, nn)])) F))
  = mkFrame (cols F) (filter (dropna_keep (cols F) how thresh chk) (rows F)).
Proof.
  intros Hwf Hnd Hnn. destruct F as [cs R]. cbn [cols rows] in *.
  unfold spec_step. cbn [cols rows]. rewrite out_cols_passthrough. f_equal.
  rewrite out_cols_app, out_cols_passthrough. cbn [out_cols map snd].
  rewrite (filter_map_swap _ (dropna_keep cs how thresh chk)).
  - rewrite map_map. rewrite <- (map_id (filter _ R)) at 2. apply map_ext_in.
    intros r Hr. apply filter_In in Hr. destruct Hr as [Hr _]. specialize (Hwf r Hr). cbn [cols] in Hwf.
    unfold proj at 2. rewrite map_app. fold (proj cs (passthrough cs) r).
    rewrite proj_passthrough by assumption. cbn [map].
    rewrite proj_app_left by assumption. apply proj_passthrough; assumption.
  - intros r Hr. specialize (Hwf r Hr). cbn [cols] in Hwf.
    unfold proj. rewrite map_app. fold (proj cs (passthrough cs) r).
    rewrite proj_passthrough by assumption. cbn [map fst].
    rewrite <- (dropna_emulation_ok cs r how thresh chk).
    unfold holds, dropna_test. cbn [eval]. rewrite lookup_snoc by assumption. reflexivity.
Qed.

Section ExtProof.
  Variable c : cfg.
  Hypothesis Hcfg : cfg_ok c = true.
  Hypothesis Hlim : limit_ok c.

  (** side condition for a composite method decorated with kind [k] that leaves a real projection behind *)
  Definition composite_ok (k : opk) : bool :=
    forallb (fun l =>
      let new := if opk_eqb k NO_OP then l else k in
      (5 <=? claim new) && mem_opk new (reach c) &&
      (wrap_needed c l new || (claim l <? 5))) (reach c).
  (** side condition for dropna's decorator: any kind the clause-ordering table knows *)
  Definition kind_reach_ok (k : opk) : bool :=
    forallb (fun l => mem_opk (if opk_eqb k NO_OP then l else k) (reach c)) (reach c).

  (** ** Structure of one step *)
  Lemma cur_cols_wrap d : cur_cols (wrap d) = cur_cols d.
  Proof. unfold cur_cols, wrap. cbn [cur pass_block b_sel]. apply out_cols_passthrough. Qed.
  Lemma cur_cols_pre_init d : cur_cols (pre_init c d) = cur_cols d.
  Proof.
    unfold pre_init. destruct (opk_eqb (last d) INIT); [|reflexivity].
    destruct (init_wraps c); [apply cur_cols_wrap | reflexivity].
  Qed.
  Lemma cur_cols_pre d o : cur_cols (pre_wrap c o (pre_init c d)) = cur_cols d.
  Proof.
    unfold pre_wrap. destruct (wrap_needed c _ _); [rewrite cur_cols_wrap|]; apply cur_cols_pre_init.
  Qed.
  Lemma src_cols_pre d o ics :
    src_cols (pre_wrap c o (pre_init c d)) ics = src_cols d ics \/
    src_cols (pre_wrap c o (pre_init c d)) ics = cur_cols d.
  Proof.
    unfold pre_wrap. destruct (wrap_needed c _ _).
    - right. rewrite src_cols_wrap. apply cur_cols_pre_init.
    - unfold pre_init. destruct (opk_eqb (last d) INIT); [|left; reflexivity].
      destruct (init_wraps c); [right; apply (src_cols_wrap d ics) | left; reflexivity].
  Qed.
  Lemma src_cols_step d o ics :
    src_cols (step c d o) ics = src_cols (pre_wrap c o (pre_init c d)) ics.
  Proof. reflexivity. Qed.

  Lemma hfree_vis d ics e : (forall n, In n (ecols e) -> In n (cur_cols d)) -> hfree (hidden_of d ics) e = true.
  Proof.
    intro H. unfold hfree. apply forallb_forall. intros n Hn. apply negb_true_iff.
    destruct (mem n (hidden_of d ics)) eqn:E; [|reflexivity].
    apply mem_In in E. unfold hidden_of, hid_cols in E. apply filter_In in E. destruct E as [_ E].
    apply negb_true_iff in E. specialize (H n Hn). apply mem_In in H. unfold cur_cols in H. congruence.
  Qed.
  Lemma hf_ok_select_vis d ics items :
    (forall it n, In it items -> In n (ecols (fst it)) -> In n (cur_cols d)) -> hf_ok c d ics (OSelect items) = true.
  Proof.
    intro H. unfold hf_ok. apply forallb_forall. intros it Hit. apply hfree_vis.
    intros n Hn. rewrite cur_cols_pre. eapply H; eauto.
  Qed.
  Lemma hf_ok_where_vis d ics e :
    (forall n, In n (ecols e) -> In n (cur_cols d)) -> hf_ok c d ics (OWhere e) = true.
  Proof. intro H. unfold hf_ok. apply hfree_vis. intros n Hn. rewrite cur_cols_pre. auto. Qed.

  (** in a state that satisfies the original invariant nothing is hidden: [hf_ok] is vacuous there *)
  Lemma filter_all_false {A} (f : A -> bool) m : (forall a, In a m -> f a = false) -> filter f m = [].
  Proof.
    induction m as [|y m IH]; intro H; simpl; [reflexivity|].
    rewrite (H y) by (left; reflexivity). apply IH. intros; apply H; right; assumption.
  Qed.
  Lemma hid_cols_self l : hid_cols l l = [].
  Proof.
    unfold hid_cols. apply filter_all_false. intros a Ha. apply negb_false_iff. apply mem_In. exact Ha.
  Qed.

  Lemma hfree_nil e : hfree [] e = true.
  Proof. unfold hfree. apply forallb_forall. reflexivity. Qed.
  Lemma hidden_wrap d ics : hidden_of (wrap d) ics = [].
  Proof.
    unfold hidden_of. rewrite src_cols_wrap. unfold wrap. cbn [cur pass_block b_sel].
    rewrite out_cols_passthrough. apply hid_cols_self.
  Qed.
  Lemma hidden_clean d ics : Inv d ics -> claim (last d) < 5 -> hidden_of d ics = [].
  Proof.
    intros (Ha & _) H5. destruct (Ha H5) as [Hs _]. unfold hidden_of. rewrite Hs, out_cols_passthrough.
    apply hid_cols_self.
  Qed.

  (** the new side condition is vacuous in every state that satisfies the original invariant [Chain.Inv]
      (in particular along every chain without dropna) *)
  Theorem hf_ok_clean d ics o : InvR c d ics -> hf_ok c d ics o = true.
  Proof.
    intros HI.
    assert (H0 : hidden_of (pre_init c d) ics = [] \/
                 (Inv (pre_init c d) ics /\ In (last (pre_init c d)) (reach c))).
    { destruct HI as [HI Hr]. unfold pre_init. destruct (opk_eqb (last d) INIT) eqn:Ei; [|right; tauto].
      destruct (init_wraps c).
      - left. apply (hidden_wrap d ics).
      - right. split; [|unfold reach; simpl; tauto].
        destruct (last d) eqn:El; try discriminate.
        unfold Inv in *. cbn [set_last last cur]. rewrite El in HI. exact HI. }
    assert (H1 : forall n, crank n <= 5 -> name_of o = n ->
                 hidden_of (pre_wrap c o (pre_init c d)) ics = []).
    { intros n Hn En. unfold pre_wrap.
      destruct (wrap_needed c (last (pre_init c d)) (new_kind c o (last (pre_init c d)))) eqn:Ew;
        [apply hidden_wrap|].
      destruct H0 as [H0|[HI0 Hr0]]; [exact H0|].
      apply hidden_clean; [exact HI0|].
      pose proof (gpair_ok_of c Hcfg (pre_init c d) ics (name_of o) (conj (inv_ginv _ _ HI0) Hr0)) as Hp.
      unfold pair_ok in Hp. fold (new_kind c o (last (pre_init c d))) in Hp. rewrite Ew in Hp.
      apply andb_true_iff in Hp. destruct Hp as [_ Hp]. simpl in Hp.
      apply andb_true_iff in Hp. destruct Hp as [Hle Hsel]. apply Z.leb_le in Hle. rewrite En in *.
      apply orb_true_iff in Hsel. destruct Hsel as [Hsel|Hsel].
      - apply negb_true_iff, Z.eqb_neq in Hsel. lia.
      - apply Z.ltb_lt in Hsel. exact Hsel. }
    unfold hf_ok. destruct o as [items|e|ks|n|]; try reflexivity.
    - rewrite (H1 NSelect) by (simpl; auto; lia). apply forallb_forall. intros; apply hfree_nil.
    - rewrite (H1 NWhere) by (simpl; auto; lia). apply hfree_nil.
  Qed.

  (** after a select step the open block has exactly the new list and no later clause *)
  Lemma gstep_select_post d ics items :
    GInvR c d ics ->
    let d2 := step c d (OSelect items) in
    b_sel (cur d2) = items /\ b_distinct (cur d2) = false /\ b_order (cur d2) = [] /\ b_limit (cur d2) = None.
  Proof.
    intros HI. destruct (gpre_init c d ics (mkFrame ics []) HI) as [HI0 _].
    destruct (gpre_wrap c Hcfg (pre_init c d) ics (mkFrame ics []) (OSelect items) HI0) as [(HS & _) _].
    destruct (HS ltac:(simpl; lia)) as (_ & _ & Hd & Ho & Hl).
    unfold step. cbn [cur body set_sel b_sel b_distinct b_order b_limit]. auto.
  Qed.

  (** after a where step the open block is a filter + projection onto the columns it had before *)
  Lemma gstep_where_post d ics e :
    GInvR c d ics ->
    let d2 := step c d (OWhere e) in
    GSimple (cur d2) (src_cols d2 ics) /\ cur_cols d2 = cur_cols d.
  Proof.
    intros HI. destruct (gpre_init c d ics (mkFrame ics []) HI) as [HI0 _].
    destruct (gpre_wrap c Hcfg (pre_init c d) ics (mkFrame ics []) (OWhere e) HI0) as [(HS & _) _].
    specialize (HS ltac:(simpl; lia)).
    split.
    - rewrite src_cols_step. unfold step. cbn [cur body]. exact HS.
    - unfold step, cur_cols. cbn [cur body set_where b_sel]. apply (cur_cols_pre d (OWhere e)).
  Qed.

  Lemma gready_select d0 ics input new :
    GInvR c d0 ics ->
    (wrap_needed c (last d0) new || (claim (last d0) <? 5)) = true ->
    let d1 := if wrap_needed c (last d0) new then wrap d0 else d0 in
    GSimple (cur d1) (src_cols d1 ics) /\ eval_df d1 input = eval_df d0 input /\ GInvR c d1 ics /\
    cur_cols d1 = cur_cols d0 /\ last d1 = last d0.
  Proof.
    intros [HI Hr] Hw. destruct (wrap_needed c (last d0) new) eqn:Ew; simpl.
    - assert (Hn : NoDup (out_cols (b_sel (cur d0)))) by (destruct HI as (_&_&_&_&Hn); exact Hn).
      pose proof (gready_wrap d0 ics NSelect (last d0) Hn) as HR.
      change (set_last (wrap d0) (last d0)) with (wrap d0) in HR.
      destruct HR as (HS & _ & _ & _).
      split; [apply HS; simpl; lia|]. split; [apply wrap_eval; exact Hn|].
      split; [|split; [apply cur_cols_wrap | reflexivity]].
      split; [|exact Hr]. pose proof (ginv_wrap d0 ics (last d0) Hn) as H.
      change (set_last (wrap d0) (last d0)) with (wrap d0) in H. exact H.
    - simpl in Hw. apply Z.ltb_lt in Hw.
      destruct HI as (Ha & Hb & Hc & Hn1 & Hn2).
      destruct (Ha Hw) as (Ha1 & Ha2 & Ha3).
      split; [unfold GSimple; rewrite Hb, Hc by lia; tauto|]. split; [reflexivity|].
      split; [|split; reflexivity]. split; [|exact Hr]. unfold GInv; tauto.
  Qed.

  (** the outer wrapper of a composite method *)
  Lemma outer_pre_ok k d ics input :
    GInvR c d ics ->
    let d1 := fst (outer_pre c k d) in
    eval_df d1 input = eval_df d input /\ GInvR c d1 ics /\ cur_cols d1 = cur_cols d /\
    opk_eqb (last d1) INIT = false /\
    (In (if opk_eqb k NO_OP then last (pre_init c d) else k) (reach c) -> In (snd (outer_pre c k d)) (reach c)).
  Proof.
    intros HI. destruct (gpre_init c d ics input HI) as [HI0 He0].
    unfold outer_pre. cbn [fst snd]. set (d0 := pre_init c d) in *.
    set (new := if opk_eqb k NO_OP then last d0 else k).
    assert (Hl0 : opk_eqb (last d0) INIT = false) by apply pre_init_last.
    assert (Hc0 : cur_cols d0 = cur_cols d) by apply cur_cols_pre_init.
    destruct (wrap_needed c (last d0) new).
    - destruct HI0 as [HI0 Hr0].
      assert (Hn : NoDup (out_cols (b_sel (cur d0)))) by (destruct HI0 as (_&_&_&_&Hn); exact Hn).
      split; [rewrite <- He0; apply wrap_eval; exact Hn|].
      split; [|split; [rewrite cur_cols_wrap; exact Hc0 | split; [exact Hl0 | auto]]].
      split; [|exact Hr0]. pose proof (ginv_wrap d0 ics (last d0) Hn) as H.
      change (set_last (wrap d0) (last d0)) with (wrap d0) in H. exact H.
    - split; [exact He0|]. split; [exact HI0|]. split; [exact Hc0|]. split; [exact Hl0 | auto].
  Qed.

  (** a SELECT-class composite: outer wrapper of kind [k], inner select of [items_of (current columns)] *)
  Definition composite (k : opk) (items_of : list string -> list (expr * string)) (d : df) : df :=
    let '(d1, new) := outer_pre c k d in
    set_last (step c d1 (OSelect (items_of (cur_cols d1)))) new.

  Theorem composite_correct k items_of d ics input :
    composite_ok k = true ->
    (forall cs, out_cols (items_of cs) = cs) ->
    (forall cs it n, In it (items_of cs) -> In n (ecols (fst it)) -> In n cs) ->
    cols input = ics -> wf_frame input -> GInvR c d ics ->
    eval_df (composite k items_of d) input
      = spec_step (OSelect (items_of (cols (eval_df d input)))) (eval_df d input)
    /\ GInvR c (composite k items_of d) ics.
  Proof.
    intros Hk Hcols Hmention Hics Hwf HI.
    destruct (gpre_init c d ics input HI) as [HI0 He0].
    unfold composite, outer_pre. set (d0 := pre_init c d) in *.
    set (new := if opk_eqb k NO_OP then last d0 else k).
    unfold composite_ok in Hk. rewrite forallb_forall in Hk.
    destruct HI0 as [HIa Hr0]. specialize (Hk _ Hr0). fold new in Hk.
    apply andb_true_iff in Hk. destruct Hk as [Hk Hw].
    apply andb_true_iff in Hk. destruct Hk as [H5 Hmem]. apply Z.leb_le in H5. apply mem_opk_in in Hmem.
    destruct (gready_select d0 ics input new (conj HIa Hr0) Hw) as (_ & He1 & HI1 & _ & _).
    set (d1 := if wrap_needed c (last d0) new then wrap d0 else d0) in *.
    assert (Hnd : NoDup (cur_cols d1)) by (destruct HI1 as [(_&_&_&_&Hn) _]; exact Hn).
    assert (Hok : op_ok c d1 ics (OSelect (items_of (cur_cols d1))) = true).
    { unfold op_ok. rewrite Hcols. apply nodupb_complete. exact Hnd. }
    assert (Hhf : hf_ok c d1 ics (OSelect (items_of (cur_cols d1))) = true).
    { apply hf_ok_select_vis. intros it n Hit Hn. eapply Hmention; eauto. }
    destruct (gstep_correct c Hcfg Hlim d1 ics input _ Hics Hwf HI1 Hok Hhf) as [He2 HI2].
    destruct (gstep_select_post d1 ics (items_of (cur_cols d1)) HI1) as (Ps & Pd & Po & Pl).
    set (d2 := step c d1 (OSelect (items_of (cur_cols d1)))) in *.
    split.
    - change (eval_df (set_last d2 new) input) with (eval_df d2 input).
      assert (Hc1 : cur_cols d1 = cols (eval_df d input)) by (rewrite <- He0, <- He1; reflexivity).
      rewrite He2, He1, He0, Hc1. reflexivity.
    - destruct HI2 as [(_ & _ & _ & Hn1 & Hn2) _].
      split; [|exact Hmem].
      unfold GInv. change (cur (set_last d2 new)) with (cur d2).
      change (last (set_last d2 new)) with new.
      change (src_cols (set_last d2 new) ics) with (src_cols d2 ics).
      refine (conj _ (conj _ (conj _ (conj _ _)))).
      + intro; lia.
      + intro; exact Po.
      + intro; exact Pl.
      + exact Hn1.
      + exact Hn2.
  Qed.

  Lemma out_cols_fill cs kvs : out_cols (fill_items cs kvs) = cs.
  Proof.
    unfold out_cols, fill_items. rewrite map_map. rewrite <- (map_id cs) at 2.
    apply map_ext. intro a. destruct (assoc a kvs); reflexivity.
  Qed.
  Lemma out_cols_replace cs tgt ps : out_cols (replace_items cs tgt ps) = cs.
  Proof.
    unfold out_cols, replace_items. rewrite map_map. rewrite <- (map_id cs) at 2.
    apply map_ext. intro a. destruct (mem a tgt); reflexivity.
  Qed.
  Lemma ecols_fill cs kvs it n : In it (fill_items cs kvs) -> In n (ecols (fst it)) -> In n cs.
  Proof.
    unfold fill_items. intros Hit Hn. apply in_map_iff in Hit. destruct Hit as [a [<- Ha]].
    destruct (assoc a kvs); simpl in Hn; intuition (subst; auto).
  Qed.
  Lemma ecols_replace_expr a ps n : In n (ecols (replace_expr a ps)) -> n = a.
  Proof.
    induction ps as [|[o v] ps IH]; simpl; intro H.
    - destruct H as [H|[]]; auto.
    - destruct H as [H|H]; [auto|]. apply IH. exact H.
  Qed.
  Lemma ecols_replace cs tgt ps it n : In it (replace_items cs tgt ps) -> In n (ecols (fst it)) -> In n cs.
  Proof.
    unfold replace_items. intros Hit Hn. apply in_map_iff in Hit. destruct Hit as [a [<- Ha]].
    destruct (mem a tgt); simpl in Hn.
    - apply ecols_replace_expr in Hn. subst. exact Ha.
    - destruct Hn as [Hn|[]]. subst. exact Ha.
  Qed.

  Variable deco : string -> option opk.

  Theorem fillna_correct k d ics input kvs :
    deco "fillna"%string = Some k -> composite_ok k = true ->
    cols input = ics -> wf_frame input -> GInvR c d ics ->
    exists d', step_x c deco d (XFillna kvs) = Some d' /\
               eval_df d' input = spec_x (XFillna kvs) (eval_df d input) /\ GInvR c d' ics.
  Proof.
    intros Hd Hk Hics Hwf HI.
    exists (composite k (fun cs => fill_items cs kvs) d). split.
    - unfold step_x, composite. rewrite Hd. destruct (outer_pre c k d). reflexivity.
    - apply composite_correct; auto.
      + intro cs. apply out_cols_fill.
      + intros cs it n. apply ecols_fill.
  Qed.

  Theorem replace_correct k d ics input tgt ps :
    deco "replace"%string = Some k -> composite_ok k = true ->
    cols input = ics -> wf_frame input -> GInvR c d ics ->
    exists d', step_x c deco d (XReplace tgt ps) = Some d' /\
               eval_df d' input = spec_x (XReplace tgt ps) (eval_df d input) /\ GInvR c d' ics.
  Proof.
    intros Hd Hk Hics Hwf HI.
    exists (composite k (fun cs => replace_items cs tgt ps) d). split.
    - unfold step_x, composite. rewrite Hd. destruct (outer_pre c k d). reflexivity.
    - apply composite_correct; auto.
      + intro cs. apply out_cols_replace.
      + intros cs it n. apply ecols_replace.
  Qed.

  (** ** toDF: the open SELECT's items keep their expressions and take the new names *)
  Definition realias (sel : list (expr * string)) (ns : list string) : list (expr * string) :=
    map (fun p => (fst (fst p), snd p)) (combine sel ns).
  Lemma out_cols_realias sel ns : List.length ns = List.length sel -> out_cols (realias sel ns) = ns.
  Proof.
    unfold out_cols, realias. rewrite map_map. cbn [snd].
    revert ns. induction sel as [|s sel IH]; intros [|n ns] H; simpl in *; try discriminate; [reflexivity|].
    f_equal. apply IH. lia.
  Qed.
  Lemma map_fst_realias sel ns : List.length ns = List.length sel -> map fst (realias sel ns) = map fst sel.
  Proof.
    unfold realias. rewrite map_map. cbn [fst].
    revert ns. induction sel as [|s sel IH]; intros [|n ns] H; simpl in *; try discriminate; [reflexivity|].
    f_equal. apply IH. lia.
  Qed.
  Lemma proj_map_fst cs s1 s2 r : map fst s1 = map fst s2 -> proj cs s1 r = proj cs s2 r.
  Proof.
    intro H. unfold proj.
    rewrite <- (map_map fst (fun e => eval cs r e) s1), <- (map_map fst (fun e => eval cs r e) s2), H. reflexivity.
  Qed.

  Theorem toDF_correct k d ics input ns :
    deco "toDF"%string = Some k -> composite_ok k = true ->
    List.length ns = List.length (cur_cols d) -> NoDup ns ->
    cols input = ics -> wf_frame input -> GInvR c d ics ->
    exists d', step_x c deco d (XToDF ns) = Some d' /\
               eval_df d' input = spec_x (XToDF ns) (eval_df d input) /\ GInvR c d' ics.
  Proof.
    intros Hd Hk Hlen Hnd Hics Hwf HI.
    destruct (gpre_init c d ics input HI) as [HI0 He0].
    unfold step_x. rewrite Hd. unfold outer_pre. set (d0 := pre_init c d) in *.
    set (new := if opk_eqb k NO_OP then last d0 else k).
    unfold composite_ok in Hk. rewrite forallb_forall in Hk.
    destruct HI0 as [HIa Hr0]. specialize (Hk _ Hr0). fold new in Hk.
    apply andb_true_iff in Hk. destruct Hk as [Hk Hw].
    apply andb_true_iff in Hk. destruct Hk as [H5 Hmem]. apply Z.leb_le in H5. apply mem_opk_in in Hmem.
    destruct (gready_select d0 ics input new (conj HIa Hr0) Hw) as (HS & He1 & HI1 & Hc1 & _).
    set (d1 := if wrap_needed c (last d0) new then wrap d0 else d0) in *.
    fold (realias (b_sel (cur d1)) ns).
    eexists. split; [reflexivity|].
    assert (Hlen1 : List.length ns = List.length (b_sel (cur d1))).
    { rewrite Hlen. rewrite <- (cur_cols_pre_init d). fold d0. rewrite <- Hc1.
      unfold cur_cols, out_cols. apply map_length. }
    destruct HS as (Hs & Hi & Hdi & Ho & Hl).
    split.
    - unfold spec_x. rewrite <- He0, <- He1.
      unfold eval_df. cbn [cur done].
      change (source {| done := done d1; cur := set_sel (cur d1) (realias (b_sel (cur d1)) ns); last := new |} input)
        with (source d1 input).
      rewrite (eval_gsimple (cur d1)) by assumption.
      rewrite (eval_gsimple (set_sel (cur d1) _)) by assumption.
      cbn [set_sel b_sel b_where cols rows]. rewrite out_cols_realias by exact Hlen1. f_equal.
      apply map_ext. intro r. apply proj_map_fst. apply map_fst_realias. exact Hlen1.
    - destruct HI1 as [(_ & _ & _ & Hn1 & Hn2) _].
      split; [|exact Hmem]. unfold GInv. cbn [cur last set_sel b_sel b_distinct b_order b_limit].
      change (src_cols {| done := done d1; cur := set_sel (cur d1) (realias (b_sel (cur d1)) ns); last := new |} ics)
        with (src_cols d1 ics).
      rewrite out_cols_realias by exact Hlen1.
      refine (conj _ (conj _ (conj _ (conj _ _)))); try (intro; first [lia | assumption]); assumption.
  Qed.

  (** ** dropna: three sequential steps of the core compiler, then the method's own tag *)
  Theorem dropna_correct k d ics input how thresh subset :
    deco "dropna"%string = Some k -> kind_reach_ok k = true ->
    incl subset (cur_cols d) ->
    cols input = ics -> wf_frame input -> GInvR c d ics ->
    exists d', step_x c deco d (XDropna how thresh subset) = Some d' /\
               eval_df d' input = spec_x (XDropna how thresh subset) (eval_df d input) /\ GInvR c d' ics.
  Proof.
    intros Hd Hk Hsub Hics Hwf HI.
    unfold step_x. rewrite Hd.
    destruct (outer_pre_ok k d ics input HI) as (He1 & HI1 & Hc1 & Hl1 & Hreach).
    destruct (outer_pre c k d) as [d1 new] eqn:Eo. cbn [fst snd] in *.
    assert (Hnew : In new (reach c)).
    { apply Hreach. unfold kind_reach_ok in Hk. rewrite forallb_forall in Hk.
      destruct (gpre_init c d ics input HI) as [[_ Hr0] _]. apply mem_opk_in. apply (Hk _ Hr0). }
    set (all := cur_cols d1) in *.
    set (chk := match subset with [] => all | _ => subset end).
    assert (Hchk : incl chk all).
    { subst chk. destruct subset; [apply incl_refl|]. rewrite Hc1. exact Hsub. }
    assert (Hnda : NoDup all) by (destruct HI1 as [(_&_&_&_&Hn) _]; exact Hn).
    set (nn := fresh_name "num_nulls" all).
    assert (Hnna : ~ In nn all) by apply fresh_not_in.
    (* step 1 is a select step of the core compiler *)
    set (item := (num_nulls_expr chk, nn)).
    set (items1 := passthrough all ++ [item]).
    assert (E3 : {| done := done (pre_wrap c (OSelect []) (pre_init c d1));
                    cur := set_sel (cur (pre_wrap c (OSelect []) (pre_init c d1)))
                             (b_sel (cur (pre_wrap c (OSelect []) (pre_init c d1))) ++ [item]);
                    last := new_kind c (OSelect []) (last d1) |} = step c d1 (OSelect items1)).
    { destruct (gpre_wrap c Hcfg (pre_init c d1) ics input (OSelect []) (proj1 (gpre_init c d1 ics input HI1)))
        as [(HS & _) _].
      destruct (HS ltac:(simpl; lia)) as (Hs & _).
      unfold step. rewrite (pre_init_idem c d1 Hl1) in *.
      change (pre_wrap c (OSelect items1) d1) with (pre_wrap c (OSelect []) d1).
      cbn [body]. f_equal. f_equal. subst items1. f_equal.
      rewrite Hs. f_equal. change (out_cols (b_sel (cur (pre_wrap c (OSelect []) d1))))
        with (cur_cols (pre_wrap c (OSelect []) d1)).
      rewrite <- (pre_init_idem c d1 Hl1) at 1. apply cur_cols_pre. }
    rewrite E3. clear E3.
    assert (Hoc1 : out_cols items1 = all ++ [nn]).
    { subst items1. rewrite out_cols_app, out_cols_passthrough. reflexivity. }
    assert (Hok1 : op_ok c d1 ics (OSelect items1) = true).
    { unfold op_ok. rewrite Hoc1. apply nodupb_complete.
      apply NoDup_app_snoc; assumption. }
    assert (Hhf1 : hf_ok c d1 ics (OSelect items1) = true).
    { apply hf_ok_select_vis. intros it n Hit Hn. subst items1. apply in_app_iff in Hit.
      destruct Hit as [Hit|[<-|[]]].
      - unfold passthrough in Hit. apply in_map_iff in Hit. destruct Hit as [a [<- Ha]].
        simpl in Hn. destruct Hn as [<-|[]]. exact Ha.
      - apply Hchk. apply ecols_num_nulls. exact Hn. }
    destruct (gstep_correct c Hcfg Hlim d1 ics input _ Hics Hwf HI1 Hok1 Hhf1) as [Ev3 HI3].
    destruct (gstep_select_post d1 ics items1 HI1) as (Ps3 & _).
    set (d3 := step c d1 (OSelect items1)) in *.
    assert (Hc3 : cur_cols d3 = all ++ [nn]) by (unfold cur_cols; rewrite Ps3; exact Hoc1).
    (* step 2: where num_nulls < k *)
    fold (dropna_test nn how thresh chk).
    assert (Hhf2 : hf_ok c d3 ics (OWhere (dropna_test nn how thresh chk)) = true).
    { apply hf_ok_where_vis. intros n Hn. simpl in Hn. destruct Hn as [<-|[]].
      rewrite Hc3. apply in_or_app. right. left. reflexivity. }
    assert (Hok2 : op_ok c d3 ics (OWhere (dropna_test nn how thresh chk)) = true) by reflexivity.
    destruct (gstep_correct c Hcfg Hlim d3 ics input _ Hics Hwf HI3 Hok2 Hhf2) as [Ev4 HI4].
    destruct (gstep_where_post d3 ics (dropna_test nn how thresh chk) HI3) as ((_ & Hi4 & _) & Hc4).
    set (d4 := step c d3 (OWhere (dropna_test nn how thresh chk))) in *.
    (* step 3: select the original columns *)
    assert (Hok3 : op_ok c d4 ics (OSelect (passthrough all)) = true).
    { unfold op_ok. rewrite out_cols_passthrough. apply nodupb_complete. exact Hnda. }
    assert (Hin4 : forall n, In n all -> In n (cur_cols d4)).
    { intros n Hn. rewrite Hc4, Hc3. apply in_or_app. left. exact Hn. }
    assert (Hhf3 : hf_ok c d4 ics (OSelect (passthrough all)) = true).
    { apply hf_ok_select_vis. intros it n Hit Hn.
      unfold passthrough in Hit. apply in_map_iff in Hit. destruct Hit as [a [<- Ha]].
      simpl in Hn. destruct Hn as [<-|[]]. apply Hin4. exact Ha. }
    destruct (gstep_correct c Hcfg Hlim d4 ics input _ Hics Hwf HI4 Hok3 Hhf3) as [Ev5 HI5].
    destruct (gstep_select_post d4 ics (passthrough all) HI4) as (Ps5 & Pd5 & Po5 & Pl5).
    pose proof (src_cols_pre d4 (OSelect (passthrough all)) ics) as Hsrc5.
    rewrite <- src_cols_step in Hsrc5.
    set (d5 := step c d4 (OSelect (passthrough all))) in *.
    eexists. split; [reflexivity|]. split.
    - change (eval_df (set_last d5 new) input) with (eval_df d5 input).
      rewrite Ev5, Ev4, Ev3.
      unfold spec_x. rewrite <- He1.
      exact (dropna_frames nn (eval_df d1 input) how thresh chk (wf_eval_block _ _) Hnda Hnna).
    - split; [|exact Hnew].
      destruct HI5 as [(_ & _ & _ & Hn1 & Hn2) _].
      unfold GInv. change (cur (set_last d5 new)) with (cur d5).
      change (last (set_last d5 new)) with new.
      change (src_cols (set_last d5 new) ics) with (src_cols d5 ics).
      refine (conj _ (conj _ (conj _ (conj _ _)))); try (intro; assumption); [|exact Hn1|exact Hn2].
      intros _. rewrite Ps5, out_cols_passthrough. split; [reflexivity|]. split; [|exact Pd5].
      intros n Hn. destruct Hsrc5 as [-> | ->]; [apply Hi4|]; apply Hin4; exact Hn.
  Qed.

  (** ** Every list over the widened alphabet *)
  Definition deco_ok : bool :=
    match deco "fillna"%string, deco "replace"%string, deco "toDF"%string, deco "dropna"%string with
    | Some kf, Some kr, Some kt, Some kd => composite_ok kf && composite_ok kr && composite_ok kt && kind_reach_ok kd
    | _, _, _, _ => false
    end.

  Definition x_ok (d : df) (ics : list string) (x : xop) : bool :=
    match x with
    | XCore u => op_ok c d ics (desugar (cur_cols d) u) && hf_ok c d ics (desugar (cur_cols d) u)
    | XFillna _ | XReplace _ _ => true
    | XToDF ns => Nat.eqb (List.length ns) (List.length (cur_cols d)) && nodupb ns
    | XDropna how thresh subset => forallb (fun s => mem s (cur_cols d)) subset
    | _ => false
    end.
  Fixpoint xs_ok (d : df) (ics : list string) (xs : list xop) : bool :=
    match xs with
    | [] => true
    | x :: xs' => x_ok d ics x &&
                  match step_x c deco d x with Some d' => xs_ok d' ics xs' | None => false end
    end.

  Theorem xstep_correct d ics input x :
    deco_ok = true -> cols input = ics -> wf_frame input -> GInvR c d ics -> x_ok d ics x = true ->
    exists d1, step_x c deco d x = Some d1 /\
               eval_df d1 input = spec_x x (eval_df d input) /\ GInvR c d1 ics.
  Proof.
    intros Hdk Hics Hwf HI Hx. unfold deco_ok in Hdk.
    destruct (deco "fillna"%string) as [kf|] eqn:Df; [|discriminate].
    destruct (deco "replace"%string) as [kr|] eqn:Dr; [|discriminate].
    destruct (deco "toDF"%string) as [kt|] eqn:Dt; [|discriminate].
    destruct (deco "dropna"%string) as [kd|] eqn:Dd; [|discriminate].
    apply andb_true_iff in Hdk. destruct Hdk as [Hdk Hkd].
    apply andb_true_iff in Hdk. destruct Hdk as [Hdk Hkt].
    apply andb_true_iff in Hdk. destruct Hdk as [Hkf Hkr].
    destruct x; simpl in Hx; try discriminate.
    - apply andb_true_iff in Hx. destruct Hx as [Hop Hhf].
      exists (step c d (desugar (cur_cols d) u)). split; [reflexivity|].
      destruct (gstep_correct c Hcfg Hlim d ics input _ Hics Hwf HI Hop Hhf) as [He HI'].
      split; [|exact HI']. rewrite He. reflexivity.
    - apply andb_true_iff in Hx. destruct Hx as [Hlen Hnd].
      apply Nat.eqb_eq in Hlen. apply nodupb_sound in Hnd.
      apply (toDF_correct kt); auto.
    - apply (fillna_correct kf); auto.
    - apply (replace_correct kr); auto.
    - apply (dropna_correct kd); auto.
      intros s Hs. rewrite forallb_forall in Hx. apply mem_In. apply Hx. exact Hs.
  Qed.

  Theorem xchain_correct xs : forall d ics input,
    deco_ok = true -> cols input = ics -> wf_frame input -> GInvR c d ics -> xs_ok d ics xs = true ->
    exists d', run_x c deco d xs = Some d' /\ eval_df d' input = spec_xrun xs (eval_df d input).
  Proof.
    induction xs as [|x xs IH]; intros d ics input Hdk Hics Hwf HI Hok; simpl.
    - exists d. split; reflexivity.
    - simpl in Hok. apply andb_true_iff in Hok. destruct Hok as [Hx Hrest].
      destruct (xstep_correct d ics input x Hdk Hics Hwf HI Hx) as (d1 & Hs & He & HI1).
      rewrite Hs in Hrest |- *.
      destruct (IH d1 ics input Hdk Hics Hwf HI1 Hrest) as (d' & Hrun & Hev).
      exists d'. split; [exact Hrun|]. rewrite Hev, He. reflexivity.
  Qed.
End ExtProof.
