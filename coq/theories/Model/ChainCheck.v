(** Executable glue for the C01 correspondence check: user-level operations and the per-case verdict. *)
From SF Require Export Model.Chain.
Open Scope Z_scope.

(** operations as the user writes them; each becomes one SELECT-class operation given the columns
    the DataFrame has at that point (this is what withColumns / withColumnRenamed / drop compute) *)
Inductive uop :=
| UOp (o : op)
| UWithColumn (n : string) (e : expr)
| URename (a b : string)
| UDrop (ns : list string).

Definition desugar (cs : list string) (u : uop) : op :=
  match u with
  | UOp o => o
  | UWithColumn n e =>
      if mem n cs then OSelect (map (fun c => if String.eqb c n then (e, n) else (ECol c, c)) cs)
      else OSelect (passthrough cs ++ [(e, n)])
  | URename a b => OSelect (map (fun c => if String.eqb c a then (ECol c, b) else (ECol c, c)) cs)
  | UDrop ns => OSelect (passthrough (filter (fun c => negb (mem c ns)) cs))
  end.
Definition cols_after (cs : list string) (o : op) : list string :=
  match o with OSelect items => out_cols items | _ => cs end.
Fixpoint desugar_all (cs : list string) (us : list uop) : list op :=
  match us with
  | [] => []
  | u :: us' => let o := desugar cs u in o :: desugar_all (cols_after cs o) us'
  end.

Inductive cmp_mode := CmpSeq | CmpBag | CmpSubOf (n : nat).   (* CmpSubOf: final limit n on unordered data *)

Record case := mkCase {
  c_input : frame;
  c_ops : list uop;
  c_mode : cmp_mode;
  c_exported : option (list block);       (* the tree the implementation built, None if not exportable *)
  c_impl : option (list string * list row) }.   (* columns and rows collect() returned, None if it raised *)

Definition cmp_rows (m : cmp_mode) (ref : list row) (prefix_src : list row) (got : list row) : bool :=
  match m with
  | CmpSeq => rows_eqb ref got
  | CmpBag => bag_eqb ref got
  | CmpSubOf n => Nat.eqb (List.length got) (Nat.min n (List.length prefix_src)) && subbag got prefix_src
  end.

Definition b2s (b : bool) : string := if b then "1" else "0".

Section Check.
  Variable c : cfg.
  (** verdict string: t2 | impl=model | impl=spec | model=spec | in-domain | impl-raised *)
  Definition check (k : case) : string :=
    let ics := cols (c_input k) in
    let ops := desugar_all ics (c_ops k) in
    let d := compile c ops (init_df ics) in
    let mblocks := done d ++ [cur d] in
    let model := eval_chain mblocks (c_input k) in
    let spec := spec_run ops (c_input k) in
    (* for CmpSubOf the reference is the result before the final limit *)
    let pre := match c_mode k with
               | CmpSubOf _ => rows (spec_run (removelast ops) (c_input k))
               | _ => [] end in
    let t2 := match c_exported k with
              | Some bs => list_eqb block_eqb (nf ics bs) (nf ics mblocks)
              | None => false end in
    let dom := ops_ok c (init_df ics) ics ops in
    match c_impl k with
    | Some (gcols, grows) =>
        b2s t2 ++ b2s (list_eqb String.eqb gcols (cols model) && cmp_rows (c_mode k) (rows model) pre grows)
               ++ b2s (list_eqb String.eqb gcols (cols spec) && cmp_rows (c_mode k) (rows spec) pre grows)
               ++ b2s (list_eqb String.eqb (cols model) (cols spec) && rows_eqb (rows model) (rows spec))
               ++ b2s dom ++ "0"
    | None =>
        b2s t2 ++ "00" ++ b2s (list_eqb String.eqb (cols model) (cols spec) && rows_eqb (rows model) (rows spec))
               ++ b2s dom ++ "1"
    end.
End Check.
